import BaoProofs.Lemmas.Bits

/-!
# Offsets: pre-order and post-order offsets of the persisted nodes (C12, C13)

Plan of the file.

* arithmetic of `blocks` / `nChunks` (`lt_blocks_iff`, `lt_nChunks_iff`) and the shift by the block
  size (`up bs x = (x+1)·2^bs − 1`, `addBs_up`, `exists_iff`): a node `(k, L+bs)` exists in the blob
  iff its shifted id `nodeOf k L` is `< N := blocks − 1`.  So the persisted nodes are, in shifted
  ids, exactly `0 … N−1` ("dense tree").
* `preD N L k` / `postD N L k`: pre/post-order lists of the ids `< N` of the complete subtree
  `(k, L)`; `Spec.preNodes … (L+bs) k = (preD N L k).map (up bs)` (`preNodes_shift`).
* `preOrderOffsetLoop (nodeOf k L) F = startOf k L − popcount k + ancUp N 64 k L`: nodes in the
  complete subtrees to the left, plus the existing proper ancestors (`preLoop_eq`).
* `preD_offsets`, `postD_offsets`: the offsets along the lists are consecutive
  (`List.range' base len`), by induction along the recursion of the lists.
* `persistedPre_offsets`, `persistedPost_offsets`: C12.
* non-persisted nodes (`addBs_none_of_level_lt`, `pre_half_leaf`, `post_half_leaf`).
* stable nodes (`stable_iff_coord`, `stable_mono`, `persistedPost_pairwise`, `prefix_of_pairwise`): C13.
-/

namespace Bao.Offsets
open Bao Bao.Spec Bao.Bits

/-- `c < ⌈s/p⌉` (written the way the model writes it) iff `c·p < s` -/
theorem lt_ceil_iff (s p c : Nat) (hp : 0 < p) :
    c < s / p + (if s % p ≠ 0 then 1 else 0) ↔ c * p < s := by
  have hdm := Nat.div_add_mod s p
  have hr := Nat.mod_lt s hp
  generalize s / p = q at *
  generalize s % p = r at *
  subst hdm
  rw [Nat.mul_comm p q]
  by_cases h0 : r = 0
  · subst h0
    simp only [ne_eq, not_true_eq_false, if_false, Nat.add_zero]
    exact (Nat.mul_lt_mul_right hp).symm
  · simp only [ne_eq, h0, not_false_eq_true, if_true]
    constructor
    · intro h
      have : c * p ≤ q * p := Nat.mul_le_mul_right p (by omega)
      omega
    · intro h
      apply Classical.byContradiction
      intro hn
      have : (q + 1) * p ≤ c * p := Nat.mul_le_mul_right p (by omega)
      rw [Nat.add_mul] at this
      omega

theorem lt_blocks_iff (size bs c : Nat) (hc : 0 < c) :
    c < Tree.blocks ⟨size, bs⟩ ↔ c * 2 ^ (bs + 10) < size := by
  unfold Tree.blocks Tree.blocksRaw
  rw [← lt_ceil_iff size (2 ^ (bs + 10)) c (two_pow_pos' _)]
  simp only
  omega

/-- `BaoTree::blocks` is the specification's `nBlocks` -/
theorem blocks_eq_nBlocks (size bs : Nat) : Tree.blocks ⟨size, bs⟩ = Spec.nBlocks size bs := by
  have hp := two_pow_pos' (bs + 10)
  have key : ∀ c, c < (size + 2 ^ (bs + 10) - 1) / 2 ^ (bs + 10) ↔ c * 2 ^ (bs + 10) < size := by
    intro c
    rw [Nat.lt_iff_add_one_le, Nat.le_div_iff_mul_le hp, Nat.add_mul, Nat.one_mul]
    omega
  have key2 := fun c => lt_ceil_iff size (2 ^ (bs + 10)) c hp
  unfold Tree.blocks Tree.blocksRaw Spec.nBlocks
  simp only
  generalize (size + 2 ^ (bs + 10) - 1) / 2 ^ (bs + 10) = a at *
  generalize size / 2 ^ (bs + 10) + (if size % 2 ^ (bs + 10) ≠ 0 then 1 else 0) = b at *
  have h1 := (key a).trans (key2 a).symm
  have h2 := (key b).trans (key2 b).symm
  omega

theorem lt_nChunks_iff (size c : Nat) (hc : 0 < c) :
    c < Spec.nChunks size ↔ c * 1024 < size := by
  unfold Spec.nChunks
  omega


/-! ## shifting by the block size -/

/-- shifted id ↦ unshifted id (`TreeNode::subtract_block_size` without the `u64` wrap) -/
def up (bs x : Nat) : Nat := (x + 1) * 2 ^ bs - 1

theorem up_succ (bs x : Nat) : up bs x + 1 = (x + 1) * 2 ^ bs := by
  have : 0 < (x + 1) * 2 ^ bs := Nat.mul_pos (by omega) (two_pow_pos' _)
  unfold up; omega

theorem up_nodeOf (bs k L : Nat) : up bs (nodeOf k L) = nodeOf k (L + bs) := by
  unfold up
  rw [nodeOf_succ', Nat.mul_assoc, ← Nat.pow_add]
  rfl

theorem up_eq (bs x : Nat) : up bs x = 2 ^ bs * x + (2 ^ bs - 1) := by
  have hp := two_pow_pos' bs
  unfold up
  rw [Nat.add_mul, Nat.mul_comm x]
  omega

theorem addBs_up (bs x : Nat) : Node.addBs (up bs x) bs = some x := by
  have hp := two_pow_pos' bs
  unfold Node.addBs
  rw [up_eq, Nat.mul_add_mod, Nat.mod_eq_of_lt (by omega), Nat.mul_add_div hp,
    Nat.div_eq_of_lt (by omega)]
  simp

theorem subBs_eq_up {bs x : Nat} (h : (x + 1) * 2 ^ bs ≤ 2 ^ 64) : Node.subBs x bs = up bs x :=
  not_shl_not h

/-- `midOf` of the unshifted node is `(shifted id + 1)·2^bs` -/
theorem midOf_shift (k L bs : Nat) : midOf k (L + bs) = (nodeOf k L + 1) * 2 ^ bs := by
  rw [nodeOf_succ', Nat.mul_assoc, ← Nat.pow_add, midOf_eq, odd_mul]

theorem endOf_shift (k L bs : Nat) : endOf k (L + bs) = (k + 1) * 2 ^ (L + 1) * 2 ^ bs := by
  unfold endOf
  rw [Nat.mul_assoc, ← Nat.pow_add]
  congr 2; omega

/-- a node of level `≥ bs` exists in the blob iff its shifted id is below `blocks - 1` -/
theorem exists_iff (size bs k L : Nat) :
    midOf k (L + bs) < nChunks size ↔ nodeOf k L < Tree.blocks ⟨size, bs⟩ - 1 := by
  have hpos : 0 < (nodeOf k L + 1) * 2 ^ bs := Nat.mul_pos (by omega) (two_pow_pos' _)
  rw [midOf_shift, lt_nChunks_iff _ _ hpos]
  have := lt_blocks_iff size bs (nodeOf k L + 1) (by omega)
  rw [Nat.pow_add, ← Nat.mul_assoc] at this
  have e : (2:Nat) ^ 10 = 1024 := by decide
  rw [e] at this
  omega


/-! ## the dense shifted tree -/

/-- pre-order list of the ids `< N` in the complete subtree `(k, L)` (shifted coordinates) -/
def preD (N : Nat) : Nat → Nat → List Nat
  | 0, k => if nodeOf k 0 < N then [nodeOf k 0] else []
  | L + 1, k =>
    if nodeOf k (L + 1) < N then nodeOf k (L + 1) :: (preD N L (2 * k) ++ preD N L (2 * k + 1))
    else preD N L (2 * k)

/-- post-order twin -/
def postD (N : Nat) : Nat → Nat → List Nat
  | 0, k => if nodeOf k 0 < N then [nodeOf k 0] else []
  | L + 1, k =>
    if nodeOf k (L + 1) < N then postD N L (2 * k) ++ postD N L (2 * k + 1) ++ [nodeOf k (L + 1)]
    else postD N L (2 * k)

theorem preNodes_lt (n minL L k : Nat) (h : L < minL) : preNodes n minL L k = [] := by
  induction L generalizing k with
  | zero => simp [preNodes]; omega
  | succ L ih =>
    have h1 : ¬ (L + 1 ≥ minL) := by omega
    simp [preNodes, h1, ih (2 * k) (by omega), ih (2 * k + 1) (by omega)]

theorem postNodes_lt (n minL L k : Nat) (h : L < minL) : postNodes n minL L k = [] := by
  induction L generalizing k with
  | zero => simp [postNodes]; omega
  | succ L ih =>
    have h1 : ¬ (L + 1 ≥ minL) := by omega
    simp [postNodes, h1, ih (2 * k) (by omega), ih (2 * k + 1) (by omega)]

theorem preNodes_shift (size bs L k : Nat) :
    preNodes (nChunks size) bs (L + bs) k
      = (preD (Tree.blocks ⟨size, bs⟩ - 1) L k).map (up bs) := by
  induction L generalizing k with
  | zero =>
    have hx := exists_iff size bs k 0
    have hu := up_nodeOf bs k 0
    simp only [Nat.zero_add] at hx hu ⊢
    cases bs with
    | zero =>
      by_cases h : midOf k 0 < nChunks size
      · simp [preNodes, preD, h, hx.mp h, hu]
      · simp [preNodes, preD, h, mt hx.mpr h]
    | succ b =>
      by_cases h : midOf k (b + 1) < nChunks size
      · simp [preNodes, preD, h, hx.mp h, hu, preNodes_lt]
      · simp [preNodes, preD, h, mt hx.mpr h, preNodes_lt]
  | succ L ih =>
    have hx := exists_iff size bs k (L + 1)
    have hu := up_nodeOf bs k (L + 1)
    rw [Nat.add_right_comm] at hx hu ⊢
    have hge : L + bs + 1 ≥ bs := by omega
    by_cases h : midOf k (L + bs + 1) < nChunks size
    · simp [preNodes, preD, h, hx.mp h, hu, hge, ih]
    · simp [preNodes, preD, h, mt hx.mpr h, ih]

theorem postNodes_shift (size bs L k : Nat) :
    postNodes (nChunks size) bs (L + bs) k
      = (postD (Tree.blocks ⟨size, bs⟩ - 1) L k).map (up bs) := by
  induction L generalizing k with
  | zero =>
    have hx := exists_iff size bs k 0
    have hu := up_nodeOf bs k 0
    simp only [Nat.zero_add] at hx hu ⊢
    cases bs with
    | zero =>
      by_cases h : midOf k 0 < nChunks size
      · simp [postNodes, postD, h, hx.mp h, hu]
      · simp [postNodes, postD, h, mt hx.mpr h]
    | succ b =>
      by_cases h : midOf k (b + 1) < nChunks size
      · simp [postNodes, postD, h, hx.mp h, hu, postNodes_lt]
      · simp [postNodes, postD, h, mt hx.mpr h, postNodes_lt]
  | succ L ih =>
    have hx := exists_iff size bs k (L + 1)
    have hu := up_nodeOf bs k (L + 1)
    rw [Nat.add_right_comm] at hx hu ⊢
    have hge : L + bs + 1 ≥ bs := by omega
    by_cases h : midOf k (L + bs + 1) < nChunks size
    · simp [postNodes, postD, h, hx.mp h, hu, hge, ih]
    · simp [postNodes, postD, h, mt hx.mpr h, ih]


/-! ## coordinates of children -/

theorem nodeOf_zero (k : Nat) : nodeOf k 0 = 2 * k := by simp [nodeOf]

theorem startOf_zero (k : Nat) : startOf k 0 = 2 * k := by simp [startOf]; omega

theorem startOf_left (k L : Nat) : startOf (2 * k) L = startOf k (L + 1) := by
  unfold startOf
  rw [Nat.pow_succ 2 (L + 1), Nat.mul_comm 2 k, Nat.mul_assoc, Nat.mul_comm 2]

theorem startOf_right (k L : Nat) : startOf (2 * k + 1) L = startOf k (L + 1) + 2 ^ (L + 1) := by
  rw [← startOf_left]
  unfold startOf
  rw [Nat.add_mul, Nat.one_mul]

theorem nodeOf_start (k L : Nat) : nodeOf k L = startOf k L + 2 ^ L - 1 := by
  rw [nodeOf_eq, startOf_eq]

theorem endOf_start (k L : Nat) : endOf k L = startOf k L + 2 ^ (L + 1) := by
  unfold endOf startOf
  rw [Nat.add_mul, Nat.one_mul]

theorem le_startOf (k L : Nat) : k ≤ startOf k L := by
  unfold startOf
  exact Nat.le_mul_of_pos_right k (two_pow_pos' _)

/-! ## popcount of indices -/

theorem popcountAux_mul_pow (f j k : Nat) : popcountAux (f + j) (k * 2 ^ j) = popcountAux f k := by
  induction j with
  | zero => simp
  | succ j ih =>
    rw [Nat.pow_succ, ← Nat.mul_assoc, Nat.mul_comm _ 2, ← Nat.add_assoc, popcountAux_two_mul, ih]

theorem popcount_mul_pow {k j : Nat} (h : k * 2 ^ j < 2 ^ 64) : popcount (k * 2 ^ j) = popcount k := by
  by_cases hk : k = 0
  · subst hk; simp
  · have hj : j < 64 := by
      have : 2 ^ j < 2 ^ 64 := by
        have : 1 * 2 ^ j ≤ k * 2 ^ j := Nat.mul_le_mul_right _ (by omega)
        omega
      exact (Nat.pow_lt_pow_iff_right (by decide : 1 < 2)).mp this
    have e : (2 : Nat) ^ 64 = 2 ^ (64 - j) * 2 ^ j := by
      rw [← Nat.pow_add]; congr 1; omega
    rw [e] at h
    have hk' : k < 2 ^ (64 - j) := Nat.lt_of_mul_lt_mul_right h
    unfold popcount
    have e2 : 64 = (64 - j) + j := by omega
    conv => lhs; rw [e2]
    rw [popcountAux_mul_pow]
    conv => rhs; rw [e2]
    rw [popcountAux_fuel _ _ _ hk']

theorem popcount_startOf {k L : Nat} (h : startOf k L < 2 ^ 64) : popcount (startOf k L) = popcount k :=
  popcount_mul_pow h

theorem popcount_two_mul {k : Nat} (h : k < 2 ^ 63) : popcount (2 * k) = popcount k := by
  have := @popcount_mul_pow k 1 (by omega)
  rwa [Nat.pow_one, Nat.mul_comm] at this

theorem popcount_two_mul_add_one {k : Nat} (h : k < 2 ^ 63) :
    popcount (2 * k + 1) = popcount k + 1 := by
  unfold popcount
  rw [popcountAux_two_mul_add_one, ← popcountAux_fuel 63 1 k h]

/-! ## the loop of `pre_order_offset_loop` counts the existing ancestors -/

/-- number of the first `fuel` proper ancestors of `(k, L)` whose id is below `N` -/
def ancUp (N : Nat) : Nat → Nat → Nat → Nat
  | 0, _, _ => 0
  | f + 1, k, L => (if nodeOf (k / 2) (L + 1) < N then 1 else 0) + ancUp N f (k / 2) (L + 1)

theorem nodeOf_div (k L : Nat) : nodeOf k L / 2 ^ (L + 1) = k := by
  have hp := two_pow_pos' L
  have h1 : (2 : Nat) ^ L - 1 < 2 ^ (L + 1) := by rw [Nat.pow_succ]; omega
  rw [nodeOf_layout, Nat.mul_add_div (two_pow_pos' _), Nat.div_eq_of_lt h1]
  rfl

theorem parent_step (k L : Nat) :
    (if nodeOf k L / (2 ^ L * 2) % 2 = 0 then nodeOf k L + 2 ^ L else nodeOf k L - 2 ^ L)
      = nodeOf (k / 2) (L + 1) := by
  rw [← Nat.pow_succ, nodeOf_div]
  have hp := two_pow_pos' L
  rw [nodeOf_eq_succ]
  by_cases h : k % 2 = 0
  · have hk : k = 2 * (k / 2) := by omega
    rw [if_pos h]
    generalize k / 2 = j at *
    subst hk
    rw [nodeOf_eq, Nat.mul_assoc]
    generalize 2 ^ L = p at *
    generalize j * p = q at *
    omega
  · have hk : k = 2 * (k / 2) + 1 := by omega
    rw [if_neg h]
    generalize k / 2 = j at *
    subst hk
    rw [nodeOf_eq, odd_mul]
    generalize 2 ^ L = p at *
    generalize j * p = q at *
    omega

theorem nodeOf_succ_odd (k L : Nat) : nodeOf k (L + 1) % 2 = 1 := by
  have hp := two_pow_pos' L
  rw [nodeOf_eq_succ]
  generalize 2 ^ L = p at *
  generalize k * p = q at *
  omega

theorem two_pow_le_nodeOf_succ (k L : Nat) : 2 ^ L ≤ nodeOf k (L + 1) := by
  have hp := two_pow_pos' L
  rw [nodeOf_eq_succ]
  generalize 2 ^ L = p at *
  generalize k * p = q at *
  omega

theorem ancUp_zero_of_le (N f k L : Nat) (h : N ≤ 2 ^ L) : ancUp N f k L = 0 := by
  induction f generalizing k L with
  | zero => rfl
  | succ f ih =>
    have h1 := two_pow_le_nodeOf_succ (k / 2) L
    have h2 : ¬ nodeOf (k / 2) (L + 1) < N := by omega
    have h3 : N ≤ 2 ^ (L + 1) := by rw [Nat.pow_succ]; omega
    simp [ancUp, h2, ih _ _ h3]

theorem ancUp_fuel (N f k L : Nat) (h : N ≤ 2 ^ (L + f)) : ancUp N (f + 1) k L = ancUp N f k L := by
  induction f generalizing k L with
  | zero => rw [ancUp_zero_of_le N 1 k L h]; rfl
  | succ f ih =>
    have h' : N ≤ 2 ^ (L + 1 + f) := by rwa [Nat.add_assoc, Nat.add_comm 1 f]
    rw [ancUp, ih _ _ h', ancUp]

theorem preLoop_eq (N F : Nat) (hNF : N ≤ F) (hFN : F ≤ N + 1) (hodd : F % 2 = 1)
    (f k L c : Nat) : Tree.preLoop f (nodeOf k L) (2 ^ L) F c = c + ancUp N f k L := by
  induction f generalizing k L c with
  | zero => simp [Tree.preLoop, ancUp]
  | succ f ih =>
    have hpo := nodeOf_succ_odd (k / 2) L
    have hiff : nodeOf (k / 2) (L + 1) < F ↔ nodeOf (k / 2) (L + 1) < N := by omega
    simp only [Tree.preLoop, ancUp, parent_step, hiff]
    by_cases hs : 2 ^ L * 2 ≥ F
    · have hz := ancUp_zero_of_le N f (k / 2) (L + 1) (by rw [Nat.pow_succ]; omega)
      rw [if_pos hs, hz]
      by_cases hc : nodeOf (k / 2) (L + 1) < N <;> simp [hc]
    · rw [if_neg hs, ← Nat.pow_succ, ih]
      by_cases hc : nodeOf (k / 2) (L + 1) < N <;> simp [hc] <;> omega


theorem ancUp_child (N k L b : Nat) (hN : N ≤ 2 ^ 63) (hb : b ≤ 1) :
    ancUp N 64 (2 * k + b) L = (if nodeOf k (L + 1) < N then 1 else 0) + ancUp N 64 k (L + 1) := by
  have h2 : (2 * k + b) / 2 = k := by omega
  have h3 : N ≤ 2 ^ (L + 1 + 63) := by
    have : (2 : Nat) ^ 63 ≤ 2 ^ (L + 1 + 63) := Nat.pow_le_pow_right (by decide) (by omega)
    omega
  rw [ancUp, h2, ancUp_fuel N 63 k (L + 1) h3]

theorem ancUp_left (N k L : Nat) (hN : N ≤ 2 ^ 63) :
    ancUp N 64 (2 * k) L = (if nodeOf k (L + 1) < N then 1 else 0) + ancUp N 64 k (L + 1) :=
  ancUp_child N k L 0 hN (by omega)

theorem ancUp_right (N k L : Nat) (hN : N ≤ 2 ^ 63) :
    ancUp N 64 (2 * k + 1) L = (if nodeOf k (L + 1) < N then 1 else 0) + ancUp N 64 k (L + 1) :=
  ancUp_child N k L 1 hN (by omega)

/-- closed form of `pre_order_offset_loop` in coordinates -/
theorem preOrderOffsetLoop_eq (N F : Nat) (hNF : N ≤ F) (hFN : F ≤ N + 1) (hodd : F % 2 = 1)
    (k L : Nat) (hx : nodeOf k L < 2 ^ 64) :
    Tree.preOrderOffsetLoop (nodeOf k L) F = startOf k L - popcount k + ancUp N 64 k L := by
  have hp := two_pow_pos' L
  have hl : nodeOf k L + 1 - 2 ^ L = startOf k L := by
    rw [nodeOf_succ, startOf_eq]; omega
  have hs : startOf k L < 2 ^ 64 := by
    have := nodeOf_start k L; omega
  unfold Tree.preOrderOffsetLoop
  simp only [trailingOnes_nodeOf hx, hl, popcount_startOf hs,
    preLoop_eq N F hNF hFN hodd 64 k L 0, Nat.zero_add]

theorem preD_length (N L k : Nat) :
    (preD N L k).length = min N (startOf k L + 2 ^ (L + 1) - 1) - min N (startOf k L) := by
  induction L generalizing k with
  | zero =>
    simp only [preD, nodeOf_zero, startOf_zero]
    by_cases h : 2 * k < N
    · simp [h]; omega
    · simp [h]; omega
  | succ L ih =>
    have hp := two_pow_pos' (L + 1)
    have e2 : (2 : Nat) ^ (L + 1 + 1) = 2 * 2 ^ (L + 1) := by rw [Nat.pow_succ]; omega
    simp only [preD, nodeOf_start k (L + 1)]
    by_cases h : startOf k (L + 1) + 2 ^ (L + 1) - 1 < N
    · simp only [if_pos h, List.length_cons, List.length_append, ih, startOf_left, startOf_right, e2]
      generalize 2 ^ (L + 1) = p at *
      generalize startOf k (L + 1) = s at *
      omega
    · simp only [if_neg h, ih, startOf_left, e2]
      generalize 2 ^ (L + 1) = p at *
      generalize startOf k (L + 1) = s at *
      omega

theorem postD_length (N L k : Nat) :
    (postD N L k).length = min N (startOf k L + 2 ^ (L + 1) - 1) - min N (startOf k L) := by
  induction L generalizing k with
  | zero =>
    simp only [postD, nodeOf_zero, startOf_zero]
    by_cases h : 2 * k < N
    · simp [h]; omega
    · simp [h]; omega
  | succ L ih =>
    have hp := two_pow_pos' (L + 1)
    have e2 : (2 : Nat) ^ (L + 1 + 1) = 2 * 2 ^ (L + 1) := by rw [Nat.pow_succ]; omega
    simp only [postD, nodeOf_start k (L + 1)]
    by_cases h : startOf k (L + 1) + 2 ^ (L + 1) - 1 < N
    · simp only [if_pos h, List.length_cons, List.length_append, ih, startOf_left, startOf_right, e2,
        List.length_nil]
      generalize 2 ^ (L + 1) = p at *
      generalize startOf k (L + 1) = s at *
      omega
    · simp only [if_neg h, ih, startOf_left, e2]
      generalize 2 ^ (L + 1) = p at *
      generalize startOf k (L + 1) = s at *
      omega

/-- pre-order offsets along the dense pre-order list are consecutive -/
theorem preD_offsets (N F : Nat) (hNF : N ≤ F) (hFN : F ≤ N + 1) (hodd : F % 2 = 1)
    (hN : N ≤ 2 ^ 63) (L k : Nat) (hk : startOf k L ≤ N) :
    (preD N L k).map (fun x => Tree.preOrderOffsetLoop x F)
      = List.range' (startOf k L - popcount k + ancUp N 64 k L) (preD N L k).length := by
  induction L generalizing k with
  | zero =>
    by_cases h : nodeOf k 0 < N
    · have hx : nodeOf k 0 < 2 ^ 64 := by omega
      simp [preD, h, preOrderOffsetLoop_eq N F hNF hFN hodd k 0 hx]
    · simp [preD, h]
  | succ L ih =>
    have hp := two_pow_pos' (L + 1)
    have hk63 : k < 2 ^ 63 := by
      have := le_startOf k (L + 1)
      have hne : k ≠ 2 ^ 63 := by
        intro e
        have h1 : startOf k (L + 1) = k * 2 ^ (L + 1 + 1) := rfl
        have h2 : k * 2 ≤ k * 2 ^ (L + 1 + 1) := by
          apply Nat.mul_le_mul_left
          rw [Nat.pow_succ]; omega
        omega
      omega
    have hpk := popcount_le k
    have hks := le_startOf k (L + 1)
    by_cases h : nodeOf k (L + 1) < N
    · have hx : nodeOf k (L + 1) < 2 ^ 64 := by omega
      have hlen := preD_length N L (2 * k)
      have h' := h
      rw [nodeOf_start] at h'
      have ihl := ih (2 * k) (by rw [startOf_left]; omega)
      have ihr := ih (2 * k + 1) (by rw [startOf_right]; omega)
      rw [ancUp_left N k L hN, if_pos h, popcount_two_mul hk63, startOf_left] at ihl
      rw [ancUp_right N k L hN, if_pos h, popcount_two_mul_add_one hk63,
        startOf_right] at ihr
      rw [startOf_left] at hlen
      have hroot := preOrderOffsetLoop_eq N F hNF hFN hodd k (L + 1) hx
      simp only [preD, if_pos h, List.map_cons, List.map_append, List.length_cons,
        List.length_append]
      rw [hroot]
      generalize ancUp N 64 k (L + 1) = a at *
      have e1 : startOf k (L + 1) - popcount k + (1 + a) = startOf k (L + 1) - popcount k + a + 1 := by
        omega
      have e2 : startOf k (L + 1) + 2 ^ (L + 1) - (popcount k + 1) + (1 + a)
          = startOf k (L + 1) - popcount k + a + 1 + (preD N L (2 * k)).length := by
        rw [hlen]
        generalize 2 ^ (L + 1) = p at *
        generalize startOf k (L + 1) = s at *
        omega
      rw [e1] at ihl
      rw [e2] at ihr
      rw [ihl, ihr, List.range'_append_1]
      exact List.range'_succ.symm
    · have ihl := ih (2 * k) (by rw [startOf_left]; omega)
      rw [ancUp_left N k L hN, if_neg h, popcount_two_mul hk63, startOf_left,
        Nat.zero_add] at ihl
      simp only [preD, if_neg h, ihl]

/-! ## post-order -/

/-- closed form of `TreeNode::post_order_offset` in coordinates -/
theorem node_postOrderOffset_eq (k L : Nat) (hx : nodeOf k L + 1 < 2 ^ 64) :
    Node.postOrderOffset (nodeOf k L) = 2 ^ (L + 1) - 2 + startOf k L - popcount k := by
  have hs : startOf k L < 2 ^ 64 := by
    have := nodeOf_start k L
    have := two_pow_pos' L
    omega
  unfold Node.postOrderOffset Node.countBelow Node.lowestBit Node.nextLeftAncestor
  simp only [and_neg_nodeOf hx, and_pred_nodeOf]
  rw [← Nat.pow_succ]
  by_cases h0 : startOf k L = 0
  · have hk : k = 0 := by have := le_startOf k L; omega
    subst hk
    simp [h0, popcount, popcountAux_zero]
  · have e : startOf k L - 1 + 1 = startOf k L := by omega
    simp only [h0, if_false, e, popcount_startOf hs]
    omega

theorem chunkRange_snd (k L : Nat) (hx : nodeOf k L < 2 ^ 64) :
    (Node.chunkRange (nodeOf k L)).2 = endOf k L := by
  unfold Node.chunkRange Node.level
  simp only [trailingOnes_nodeOf hx]
  rw [nodeOf_succ, endOf_eq]
  omega


/-! ## the model functions on shifted ids -/

theorem shifted_props (size bs : Nat) :
    Tree.blocks ⟨size, bs⟩ - 1 ≤ (Tree.shifted ⟨size, bs⟩).2 ∧
    (Tree.shifted ⟨size, bs⟩).2 ≤ Tree.blocks ⟨size, bs⟩ - 1 + 1 ∧
    (Tree.shifted ⟨size, bs⟩).2 % 2 = 1 := by
  unfold Tree.shifted Tree.blocks Tree.blocksRaw divCeil2
  simp only [Nat.add_comm 10 bs]
  generalize size / 2 ^ (bs + 10) = q
  generalize (if size % 2 ^ (bs + 10) ≠ 0 then 1 else 0) = r
  omega

theorem blocks_le (size bs : Nat) (hs : size ≤ 2 ^ 63) : Tree.blocks ⟨size, bs⟩ - 1 ≤ 2 ^ 63 := by
  unfold Tree.blocks Tree.blocksRaw
  have := Nat.div_le_self size (2 ^ (bs + 10))
  simp only
  split <;> omega

/-- `blocks - 1 ≤ ⌊size / group bytes⌋ ≤ blocks` -/
theorem full_blocks (size bs : Nat) :
    Tree.blocks ⟨size, bs⟩ - 1 ≤ size / 2 ^ (bs + 10) ∧
    size / 2 ^ (bs + 10) ≤ Tree.blocks ⟨size, bs⟩ - 1 + 1 := by
  unfold Tree.blocks Tree.blocksRaw
  simp only
  generalize size / 2 ^ (bs + 10) = q
  by_cases h : size % 2 ^ (bs + 10) ≠ 0
  · rw [if_pos h]; omega
  · rw [if_neg h]; omega

/-- a persisted shifted id: its mid (in bytes) lies strictly inside the blob -/
theorem persisted_mid {size bs x : Nat} (hx : x < Tree.blocks ⟨size, bs⟩ - 1) :
    (x + 1) * 2 ^ bs * 1024 < size := by
  have := (lt_blocks_iff size bs (x + 1) (by omega)).mp (by omega)
  rwa [Nat.pow_add, ← Nat.mul_assoc] at this

theorem pre_shift {size bs x : Nat} (hx : x < Tree.blocks ⟨size, bs⟩ - 1) :
    Tree.preOrderOffset ⟨size, bs⟩ (up bs x)
      = some (Tree.preOrderOffsetLoop x (Tree.shifted ⟨size, bs⟩).2) := by
  have hm := persisted_mid hx
  unfold Tree.preOrderOffset
  simp only [addBs_up, Node.mid, up_succ, toBytes]
  have : ¬ ((x + 1) * 2 ^ bs * 1024 ≥ size) := by omega
  simp [this]

/-- `BaoTree::post_order_offset` of a persisted node, in shifted coordinates -/
theorem post_shift {size bs k L : Nat} (hs : size ≤ 2 ^ 63)
    (hx : nodeOf k L < Tree.blocks ⟨size, bs⟩ - 1) :
    Tree.postOrderOffset ⟨size, bs⟩ (up bs (nodeOf k L))
      = some (if (k + 1) * 2 ^ (L + 1) ≤ size / 2 ^ (bs + 10)
          then .stable (Node.postOrderOffset (nodeOf k L))
          else .unstable (Tree.blocks ⟨size, bs⟩ - 1 - (popcount k + 1))) := by
  have hm := persisted_mid hx
  have hu := up_succ bs (nodeOf k L)
  have hb : up bs (nodeOf k L) + 1 < 2 ^ 64 := by omega
  have hpk : popcount k + 1 ≤ Tree.blocks ⟨size, bs⟩ - 1 := by
    have := popcount_le k
    have := le_startOf k L
    have := nodeOf_start k L
    have := two_pow_pos' L
    omega
  have hend : endOf k (L + bs) * 1024 ≤ size ↔ (k + 1) * 2 ^ (L + 1) ≤ size / 2 ^ (bs + 10) := by
    rw [Nat.le_div_iff_mul_le (two_pow_pos' _), endOf_shift, Nat.pow_add 2 bs 10, Nat.mul_assoc,
      Nat.mul_assoc]
  unfold Tree.postOrderOffset
  have hpc : popcount (up bs (nodeOf k L) + 1) - 1 + 1 = popcount k + 1 := by
    rw [up_nodeOf] at hb ⊢
    rw [popcount_nodeOf_succ hb]
    omega
  simp only [addBs_up, Node.mid, toBytes, Node.rightCount, Tree.outboardPairs, hpc]
  simp only [hu]
  simp only [up_nodeOf] at hb ⊢
  simp only [chunkRange_snd k (L + bs) (by omega)]
  have hnh : ¬ ((nodeOf k L + 1) * 2 ^ bs * 1024 ≥ size) := by omega
  by_cases hst : endOf k (L + bs) * 1024 ≤ size
  · simp [hst, hend.mp hst]
  · have hsub : sub? (Tree.blocks ⟨size, bs⟩ - 1) (popcount k + 1)
        = some (Tree.blocks ⟨size, bs⟩ - 1 - (popcount k + 1)) := by
      unfold sub?
      rw [if_pos (by omega)]
    simp [hst, mt hend.mpr hst, hnh, hsub]


/-- value of `post_order_offset` of a persisted node -/
theorem post_value {size bs k L : Nat} (hs : size ≤ 2 ^ 63)
    (hx : nodeOf k L < Tree.blocks ⟨size, bs⟩ - 1) :
    (Tree.postOrderOffset ⟨size, bs⟩ (up bs (nodeOf k L))).map Tree.PostOffset.value
      = some (if (k + 1) * 2 ^ (L + 1) ≤ size / 2 ^ (bs + 10)
          then 2 ^ (L + 1) - 2 + startOf k L - popcount k
          else Tree.blocks ⟨size, bs⟩ - 1 - (popcount k + 1)) := by
  have hN := blocks_le size bs hs
  rw [post_shift hs hx]
  by_cases h : (k + 1) * 2 ^ (L + 1) ≤ size / 2 ^ (bs + 10)
  · simp only [if_pos h, Option.map_some, Tree.PostOffset.value]
    rw [node_postOrderOffset_eq k L (by omega)]
  · simp only [if_neg h, Option.map_some, Tree.PostOffset.value]

/-- post-order offsets along the dense post-order list are consecutive -/
theorem postD_offsets (size bs : Nat) (hs : size ≤ 2 ^ 63) (L k : Nat)
    (hk : startOf k L ≤ Tree.blocks ⟨size, bs⟩ - 1) :
    (postD (Tree.blocks ⟨size, bs⟩ - 1) L k).map
        (fun x => (Tree.postOrderOffset ⟨size, bs⟩ (up bs x)).map Tree.PostOffset.value)
      = (List.range' (startOf k L - popcount k)
          (postD (Tree.blocks ⟨size, bs⟩ - 1) L k).length).map some := by
  have hfb := full_blocks size bs
  generalize hN : Tree.blocks ⟨size, bs⟩ - 1 = N at *
  generalize hBf : size / 2 ^ (bs + 10) = Bf at *
  induction L generalizing k with
  | zero =>
    by_cases h : nodeOf k 0 < N
    · have hv := post_value (bs := bs) (k := k) (L := 0) hs (by rw [hN]; exact h)
      rw [hN, hBf] at hv
      have h' := h
      rw [nodeOf_zero] at h'
      have hpk := popcount_le k
      simp only [postD, if_pos h, List.map_cons, List.map_nil, List.length_singleton,
        List.range'_one, hv, startOf_zero]
      by_cases hst : (k + 1) * 2 ^ (0 + 1) ≤ Bf
      · simp only [if_pos hst]; simp
      · simp only [if_neg hst]
        simp only [Nat.zero_add, Nat.pow_one] at hst
        have : N - (popcount k + 1) = 2 * k - popcount k := by omega
        rw [this]
    · simp [postD, h]
  | succ L ih =>
    have hp := two_pow_pos' (L + 1)
    have hpk := popcount_le k
    have hks := le_startOf k (L + 1)
    have hk63 : k < 2 ^ 63 := by
      have hN63 := blocks_le size bs hs
      have h1 : startOf k (L + 1) = k * 2 ^ (L + 1 + 1) := rfl
      have h2 : k * 2 ≤ k * 2 ^ (L + 1 + 1) := by
        apply Nat.mul_le_mul_left
        rw [Nat.pow_succ]; omega
      omega
    have e2 : (2 : Nat) ^ (L + 1 + 1) = 2 * 2 ^ (L + 1) := by rw [Nat.pow_succ]; omega
    by_cases h : nodeOf k (L + 1) < N
    · have hv := post_value (bs := bs) (k := k) (L := L + 1) hs (by rw [hN]; exact h)
      rw [hN, hBf] at hv
      have hend : (k + 1) * 2 ^ (L + 1 + 1) = startOf k (L + 1) + 2 * 2 ^ (L + 1) := by
        have := endOf_start k (L + 1)
        unfold endOf at this
        rw [this, e2]
      rw [hend, e2] at hv
      have hlenL := postD_length N L (2 * k)
      have hlenR := postD_length N L (2 * k + 1)
      have h' := h
      rw [nodeOf_start] at h'
      have ihl := ih (2 * k) (by rw [startOf_left]; omega)
      have ihr := ih (2 * k + 1) (by rw [startOf_right]; omega)
      rw [popcount_two_mul hk63, startOf_left] at ihl
      rw [popcount_two_mul_add_one hk63, startOf_right] at ihr
      rw [startOf_left] at hlenL
      rw [startOf_right] at hlenR
      have eR : startOf k (L + 1) + 2 ^ (L + 1) - (popcount k + 1)
          = startOf k (L + 1) - popcount k + (postD N L (2 * k)).length := by
        rw [hlenL]
        generalize 2 ^ (L + 1) = p at *
        generalize startOf k (L + 1) = s at *
        omega
      have eV : (if startOf k (L + 1) + 2 * 2 ^ (L + 1) ≤ Bf
            then 2 * 2 ^ (L + 1) - 2 + startOf k (L + 1) - popcount k
            else N - (popcount k + 1))
          = startOf k (L + 1) - popcount k
              + ((postD N L (2 * k)).length + (postD N L (2 * k + 1)).length) := by
        rw [hlenL, hlenR]
        generalize 2 ^ (L + 1) = p at *
        generalize startOf k (L + 1) = s at *
        by_cases hst : s + 2 * p ≤ Bf
        · rw [if_pos hst]; omega
        · rw [if_neg hst]; omega
      rw [eR] at ihr
      rw [eV] at hv
      simp only [postD, if_pos h, List.map_append, List.map_cons, List.map_nil, List.length_append,
        List.length_singleton, ihl, ihr, hv]
      rw [← List.range'_append_1 (s := startOf k (L + 1) - popcount k)
          (m := (postD N L (2 * k)).length + (postD N L (2 * k + 1)).length) (n := 1),
        ← List.range'_append_1 (s := startOf k (L + 1) - popcount k)
          (m := (postD N L (2 * k)).length) (n := (postD N L (2 * k + 1)).length),
        List.map_append, List.map_append, List.range'_one]
      rfl
    · have ihl := ih (2 * k) (by rw [startOf_left]; omega)
      rw [popcount_two_mul hk63, startOf_left] at ihl
      simp only [postD, if_neg h, ihl]


/-! ## the root -/

theorem log2ceil_spec (f n : Nat) (h : n ≤ 2 ^ f) : n ≤ 2 ^ (log2ceil f n) := by
  induction f generalizing n with
  | zero => simpa [log2ceil] using h
  | succ f ih =>
    unfold log2ceil
    by_cases h1 : n ≤ 1
    · simp [h1]
    · rw [if_neg h1]
      have := ih ((n + 1) / 2) (by rw [Nat.pow_succ] at h; omega)
      rw [Nat.pow_succ]
      omega

theorem nChunks_le (size : Nat) (hs : size ≤ 2 ^ 63) : nChunks size ≤ 2 ^ 64 := by
  unfold nChunks; omega

/-- a tree of height `L + bs` over the chunks has at most `2^L` blocks -/
theorem blocks_le_of_nChunks_le {size bs L : Nat} (h : nChunks size ≤ 2 ^ (L + bs)) :
    Tree.blocks ⟨size, bs⟩ ≤ 2 ^ L := by
  apply Classical.byContradiction
  intro hn
  have h1 := (lt_blocks_iff size bs (2 ^ L) (two_pow_pos' _)).mp (by omega)
  rw [Nat.pow_add 2 bs 10, ← Nat.mul_assoc, ← Nat.pow_add] at h1
  have h2 := (lt_nChunks_iff size (2 ^ (L + bs)) (two_pow_pos' _)).mpr h1
  omega

theorem blocks_pos (size bs : Nat) : 0 < Tree.blocks ⟨size, bs⟩ := by
  unfold Tree.blocks; omega

theorem blocks_eq_one_of_nChunks_le {size bs H : Nat} (h : nChunks size ≤ 2 ^ H) (hH : H < bs) :
    Tree.blocks ⟨size, bs⟩ - 1 = 0 := by
  have h1 : nChunks size ≤ 2 ^ (0 + bs) := by
    have : (2 : Nat) ^ H ≤ 2 ^ (0 + bs) := Nat.pow_le_pow_right (by decide) (by omega)
    omega
  have := blocks_le_of_nChunks_le h1
  omega

theorem mem_preD_lt (N L k x : Nat) (h : x ∈ preD N L k) : x < N := by
  induction L generalizing k with
  | zero =>
    by_cases h0 : nodeOf k 0 < N
    · simp [preD, h0] at h; omega
    · simp [preD, h0] at h
  | succ L ih =>
    by_cases h0 : nodeOf k (L + 1) < N
    · simp only [preD, if_pos h0, List.mem_cons, List.mem_append] at h
      rcases h with h | h | h
      · omega
      · exact ih _ h
      · exact ih _ h
    · simp only [preD, if_neg h0] at h
      exact ih _ h

theorem getElem_of_map_eq_range {α : Type} (P : List α) (f : α → Option Nat) (b : Nat)
    (h : P.map f = (List.range' b P.length).map some) (i : Nat) (hi : i < P.length) :
    f P[i] = some (b + i) := by
  have := congrArg (fun l => l[i]?) h
  simpa [hi] using this

/-- C12, pre-order: the offsets along `persistedPre` are `0, 1, 2, …` -/
theorem persistedPre_offsets (size bs : Nat) (hs : size ≤ 2 ^ 63) :
    (persistedPre size bs).length = Tree.blocks ⟨size, bs⟩ - 1 ∧
    (persistedPre size bs).map (Tree.preOrderOffset ⟨size, bs⟩)
      = (List.range' 0 (persistedPre size bs).length).map some := by
  have hH := log2ceil_spec 64 (nChunks size) (nChunks_le size hs)
  unfold persistedPre
  generalize log2ceil 64 (nChunks size) = H at *
  by_cases hHb : H < bs
  · rw [preNodes_lt _ _ _ _ hHb, blocks_eq_one_of_nChunks_le hH hHb]
    simp
  · obtain ⟨L, rfl⟩ : ∃ L, H = L + bs := ⟨H - bs, by omega⟩
    have hB := blocks_le_of_nChunks_le hH
    have hBp := blocks_pos size bs
    have hN63 := blocks_le size bs hs
    obtain ⟨hNF, hFN, hodd⟩ := shifted_props size bs
    rw [preNodes_shift]
    generalize hN : Tree.blocks ⟨size, bs⟩ - 1 = N at *
    have hNL : N ≤ 2 ^ L := by omega
    have hlen := preD_length N L 0
    have hoff := preD_offsets N _ hNF hFN hodd hN63 L 0 (by simp [startOf])
    have hs0 : startOf 0 L = 0 := by simp [startOf]
    rw [hs0, ancUp_zero_of_le N 64 0 L hNL, Nat.zero_sub, Nat.add_zero] at hoff
    rw [hs0] at hlen
    constructor
    · rw [List.length_map, hlen, Nat.pow_succ]; omega
    · rw [List.map_map, List.length_map, ← hoff, List.map_map]
      apply List.map_congr_left
      intro x hx
      have := mem_preD_lt N L 0 x hx
      simp only [Function.comp]
      rw [pre_shift (by rw [hN]; exact this)]

/-- C12, post-order: the offsets along `persistedPost` are `0, 1, 2, …` -/
theorem persistedPost_offsets (size bs : Nat) (hs : size ≤ 2 ^ 63) :
    (persistedPost size bs).length = Tree.blocks ⟨size, bs⟩ - 1 ∧
    (persistedPost size bs).map
        (fun x => (Tree.postOrderOffset ⟨size, bs⟩ x).map Tree.PostOffset.value)
      = (List.range' 0 (persistedPost size bs).length).map some := by
  have hH := log2ceil_spec 64 (nChunks size) (nChunks_le size hs)
  unfold persistedPost
  generalize log2ceil 64 (nChunks size) = H at *
  by_cases hHb : H < bs
  · rw [postNodes_lt _ _ _ _ hHb, blocks_eq_one_of_nChunks_le hH hHb]
    simp
  · obtain ⟨L, rfl⟩ : ∃ L, H = L + bs := ⟨H - bs, by omega⟩
    have hB := blocks_le_of_nChunks_le hH
    have hBp := blocks_pos size bs
    rw [postNodes_shift]
    have hlen := postD_length (Tree.blocks ⟨size, bs⟩ - 1) L 0
    have hoff := postD_offsets size bs hs L 0 (by simp [startOf])
    have hs0 : startOf 0 L = 0 := by simp [startOf]
    rw [hs0] at hoff hlen
    constructor
    · rw [List.length_map, hlen, Nat.pow_succ]; omega
    · rw [List.map_map, List.length_map]
      exact hoff


/-! ## nodes that are not persisted -/

theorem trailingOnesAux_ge (n fuel x : Nat) (h : x % 2 ^ n = 2 ^ n - 1) (hf : n ≤ fuel) :
    n ≤ trailingOnesAux fuel x := by
  induction n generalizing fuel x with
  | zero => omega
  | succ n ih =>
    cases fuel with
    | zero => omega
    | succ f =>
      have hp := two_pow_pos' n
      rw [Nat.pow_succ, Nat.mul_comm, Nat.mod_mul] at h
      have hlt := Nat.mod_lt (x / 2) hp
      have h1 : x % 2 = 1 := by omega
      have h2 : x / 2 % 2 ^ n = 2 ^ n - 1 := by omega
      have := ih f (x / 2) h2 (by omega)
      simp only [trailingOnesAux, h1, if_true]
      omega

theorem addBs_none_of_level_lt {x bs : Nat} (h : Node.level x < bs) (hbs : bs ≤ 64) :
    Node.addBs x bs = none := by
  unfold Node.addBs
  by_cases hc : x % 2 ^ bs = 2 ^ bs - 1
  · have := trailingOnesAux_ge bs 64 x hc hbs
    unfold Node.level trailingOnes at h
    omega
  · rw [if_neg hc]

theorem blocks_mul_le (size bs : Nat) (hs : size ≤ 2 ^ 63) (hbs : bs ≤ 10) :
    (Tree.blocks ⟨size, bs⟩ - 1 + 1) * 2 ^ bs ≤ 2 ^ 64 := by
  have hp : (2 : Nat) ^ bs ≤ 2 ^ 10 := Nat.pow_le_pow_right (by decide) hbs
  have hpp := two_pow_pos' bs
  by_cases h1 : Tree.blocks ⟨size, bs⟩ - 1 = 0
  · rw [h1]; omega
  · have := (lt_blocks_iff size bs (Tree.blocks ⟨size, bs⟩ - 1) (by omega)).mp (by omega)
    rw [Nat.pow_add, ← Nat.mul_assoc] at this
    rw [Nat.add_mul]
    generalize (Tree.blocks ⟨size, bs⟩ - 1) * 2 ^ bs = q at *
    omega

/-- the half-filled last leaf (odd number of blocks): its mid is not inside the blob -/
theorem half_leaf_facts (size bs : Nat) (hs : size ≤ 2 ^ 63) (hbs : bs ≤ 10) :
    Node.subBs (Tree.blocks ⟨size, bs⟩ - 1) bs = up bs (Tree.blocks ⟨size, bs⟩ - 1) ∧
    size ≤ (Tree.blocks ⟨size, bs⟩ - 1 + 1) * 2 ^ bs * 1024 := by
  refine ⟨subBs_eq_up (blocks_mul_le size bs hs hbs), ?_⟩
  have hBp := blocks_pos size bs
  have e : Tree.blocks ⟨size, bs⟩ - 1 + 1 = Tree.blocks ⟨size, bs⟩ := by omega
  rw [e]
  have := mt (lt_blocks_iff size bs (Tree.blocks ⟨size, bs⟩) hBp).mpr (by omega)
  rw [Nat.pow_add, ← Nat.mul_assoc] at this
  omega

theorem pre_half_leaf (size bs : Nat) (hs : size ≤ 2 ^ 63) (hbs : bs ≤ 10)
    (hodd : Tree.blocks ⟨size, bs⟩ % 2 = 1) :
    Tree.preOrderOffset ⟨size, bs⟩ (Node.subBs (Tree.blocks ⟨size, bs⟩ - 1) bs) = none := by
  obtain ⟨e, hge⟩ := half_leaf_facts size bs hs hbs
  have hl : Node.isLeaf (Tree.blocks ⟨size, bs⟩ - 1) = true := by
    unfold Node.isLeaf; simp; omega
  rw [e]
  unfold Tree.preOrderOffset
  simp only [addBs_up, Node.mid, up_succ, toBytes, hl]
  simp [hge]

theorem post_half_leaf (size bs : Nat) (hs : size ≤ 2 ^ 63) (hbs : bs ≤ 10)
    (hodd : Tree.blocks ⟨size, bs⟩ % 2 = 1) :
    Tree.postOrderOffset ⟨size, bs⟩ (Node.subBs (Tree.blocks ⟨size, bs⟩ - 1) bs) = none := by
  obtain ⟨e, hge⟩ := half_leaf_facts size bs hs hbs
  have hl : Node.isLeaf (Tree.blocks ⟨size, bs⟩ - 1) = true := by
    unfold Node.isLeaf; simp; omega
  rw [e]
  unfold Tree.postOrderOffset
  have hsp := two_pow_pos' (Node.level (up bs (Tree.blocks ⟨size, bs⟩ - 1)))
  have hns : ¬ ((up bs (Tree.blocks ⟨size, bs⟩ - 1) + 1
      + 2 ^ Node.level (up bs (Tree.blocks ⟨size, bs⟩ - 1))) * 1024 ≤ size) := by
    simp only [up_succ]; omega
  simp only [addBs_up, Node.mid, toBytes, hl, Node.chunkRange, if_neg hns]
  simp only [up_succ]
  simp [hge]

/-! ## stable nodes -/

theorem not_stable_else (c : Prop) [Decidable c] (a b v : Nat) :
    (if c then none else
      match sub? a b with
      | none => none
      | some w => some (Tree.PostOffset.unstable w)) ≠ some (Tree.PostOffset.stable v) := by
  by_cases hc : c
  · simp [hc]
  · simp only [if_neg hc]
    cases sub? a b <;> simp

/-- `post_order_offset` says "stable" exactly when the chunk range ends inside the blob -/
theorem stable_iff_raw (size bs x sh : Nat) (h : Node.addBs x bs = some sh) (v : Nat) :
    Tree.postOrderOffset ⟨size, bs⟩ x = some (.stable v) ↔
      (toBytes (Node.chunkRange x).2 ≤ size ∧ v = Node.postOrderOffset sh) := by
  unfold Tree.postOrderOffset
  simp only [h]
  by_cases hc : toBytes (Node.chunkRange x).2 ≤ size
  · simp only [hc, if_true, true_and]
    constructor
    · intro h1; injection h1 with h1; injection h1 with h1; exact h1.symm
    · intro h1; rw [h1]
  · simp only [hc, if_false, false_and, iff_false]
    exact not_stable_else _ _ _ _

theorem stable_mono (size size' bs x v : Nat) (hle : size ≤ size')
    (h : Tree.postOrderOffset ⟨size, bs⟩ x = some (.stable v)) :
    Tree.postOrderOffset ⟨size', bs⟩ x = some (.stable v) := by
  cases ha : Node.addBs x bs with
  | none =>
    unfold Tree.postOrderOffset at h
    simp [ha] at h
  | some sh =>
    rw [stable_iff_raw size bs x sh ha] at h
    rw [stable_iff_raw size' bs x sh ha]
    exact ⟨by omega, h.2⟩

theorem stable_iff_coord (size bs k L : Nat) (hs : size ≤ 2 ^ 63) (hL : bs ≤ L) (v : Nat) :
    Tree.postOrderOffset ⟨size, bs⟩ (nodeOf k L) = some (.stable v) ↔
      (endOf k L * 1024 ≤ size ∧ v = Node.postOrderOffset (nodeOf k (L - bs))) := by
  obtain ⟨L', rfl⟩ : ∃ L', L = L' + bs := ⟨L - bs, by omega⟩
  have ha : Node.addBs (nodeOf k (L' + bs)) bs = some (nodeOf k L') := by
    rw [← up_nodeOf, addBs_up]
  rw [stable_iff_raw size bs _ _ ha, Nat.add_sub_cancel]
  by_cases hx : nodeOf k (L' + bs) < 2 ^ 64
  · rw [chunkRange_snd k _ hx]; rfl
  · have h1 : ¬ (toBytes (Node.chunkRange (nodeOf k (L' + bs))).2 ≤ size) := by
      have := two_pow_pos' (Node.level (nodeOf k (L' + bs)))
      unfold Node.chunkRange toBytes
      simp only
      omega
    have h2 : ¬ (endOf k (L' + bs) * 1024 ≤ size) := by
      have := nodeOf_succ k (L' + bs)
      have := endOf_eq k (L' + bs)
      have := two_pow_pos' (L' + bs)
      omega
    simp [h1, h2]


/-! ## stable nodes form a prefix of the post-order list -/

/-- "`post_order_offset` classifies the node as stable" -/
def isStable (t : Tree) (x : Nat) : Bool :=
  match Tree.postOrderOffset t x with
  | some (.stable _) => true
  | _ => false

theorem isStable_iff (t : Tree) (x : Nat) :
    isStable t x = true ↔ ∃ v, Tree.postOrderOffset t x = some (.stable v) := by
  unfold isStable
  split
  · rename_i v h; simp [h]
  · rename_i h
    simp only [Bool.false_eq_true, false_iff]
    rintro ⟨v, hv⟩
    exact h v hv

theorem isStable_shift {size bs k L : Nat} (hs : size ≤ 2 ^ 63)
    (hx : nodeOf k L < Tree.blocks ⟨size, bs⟩ - 1) :
    isStable ⟨size, bs⟩ (up bs (nodeOf k L)) = true ↔ endOf k L ≤ size / 2 ^ (bs + 10) := by
  unfold isStable endOf
  rw [post_shift hs hx]
  by_cases h : (k + 1) * 2 ^ (L + 1) ≤ size / 2 ^ (bs + 10) <;> simp [h]

theorem mem_postD (N L k x : Nat) (h : x ∈ postD N L k) :
    ∃ k' L', x = nodeOf k' L' ∧ x < N ∧ endOf k' L' ≤ endOf k L := by
  induction L generalizing k with
  | zero =>
    by_cases h0 : nodeOf k 0 < N
    · simp only [postD, if_pos h0, List.mem_singleton] at h
      exact ⟨k, 0, h, by omega, Nat.le_refl _⟩
    · simp [postD, h0] at h
  | succ L ih =>
    have hp := two_pow_pos' (L + 1)
    have e2 : (2 : Nat) ^ (L + 1 + 1) = 2 * 2 ^ (L + 1) := by rw [Nat.pow_succ]; omega
    have hel : endOf (2 * k) L ≤ endOf k (L + 1) := by
      rw [endOf_start, endOf_start, startOf_left, e2]; omega
    have her : endOf (2 * k + 1) L ≤ endOf k (L + 1) := by
      rw [endOf_start, endOf_start, startOf_right, e2]; omega
    by_cases h0 : nodeOf k (L + 1) < N
    · simp only [postD, if_pos h0, List.mem_append, List.mem_singleton] at h
      rcases h with (h | h) | h
      · obtain ⟨k', L', h1, h2, h3⟩ := ih _ h
        exact ⟨k', L', h1, h2, by omega⟩
      · obtain ⟨k', L', h1, h2, h3⟩ := ih _ h
        exact ⟨k', L', h1, h2, by omega⟩
      · exact ⟨k, L + 1, h, by omega, Nat.le_refl _⟩
    · simp only [postD, if_neg h0] at h
      obtain ⟨k', L', h1, h2, h3⟩ := ih _ h
      exact ⟨k', L', h1, h2, by omega⟩

theorem postD_pairwise (size bs : Nat) (hs : size ≤ 2 ^ 63) (L k : Nat) :
    (postD (Tree.blocks ⟨size, bs⟩ - 1) L k).Pairwise
      (fun a b => isStable ⟨size, bs⟩ (up bs b) = true → isStable ⟨size, bs⟩ (up bs a) = true) := by
  have hfb := full_blocks size bs
  induction L generalizing k with
  | zero =>
    by_cases h0 : nodeOf k 0 < Tree.blocks ⟨size, bs⟩ - 1
    · simp [postD, h0]
    · simp [postD, h0]
  | succ L ih =>
    by_cases h0 : nodeOf k (L + 1) < Tree.blocks ⟨size, bs⟩ - 1
    · have hp := two_pow_pos' (L + 1)
      have e2 : (2 : Nat) ^ (L + 1 + 1) = 2 * 2 ^ (L + 1) := by rw [Nat.pow_succ]; omega
      have hel : endOf (2 * k) L = nodeOf k (L + 1) + 1 := by
        rw [endOf_start, startOf_left, nodeOf_start]; omega
      have her : endOf (2 * k + 1) L = endOf k (L + 1) := by
        rw [endOf_start, endOf_start, startOf_right, e2]; omega
      simp only [postD, if_pos h0]
      rw [List.append_assoc, List.pairwise_append]
      refine ⟨ih _, ?_, ?_⟩
      · rw [List.pairwise_append]
        refine ⟨ih _, List.pairwise_singleton _ _, ?_⟩
        intro a ha b hb hst
        rw [List.mem_singleton] at hb
        subst hb
        obtain ⟨k', L', h1, h2, h3⟩ := mem_postD _ _ _ _ ha
        subst h1
        rw [isStable_shift hs h0] at hst
        rw [isStable_shift hs h2]
        omega
      · intro a ha b _ _
        obtain ⟨k', L', h1, h2, h3⟩ := mem_postD _ _ _ _ ha
        subst h1
        rw [isStable_shift hs h2]
        omega
    · simp only [postD, if_neg h0]
      exact ih _

theorem persistedPost_pairwise (size bs : Nat) (hs : size ≤ 2 ^ 63) :
    (persistedPost size bs).Pairwise
      (fun a b => isStable ⟨size, bs⟩ b = true → isStable ⟨size, bs⟩ a = true) := by
  unfold persistedPost
  generalize log2ceil 64 (nChunks size) = H
  by_cases hHb : H < bs
  · rw [postNodes_lt _ _ _ _ hHb]; exact List.Pairwise.nil
  · obtain ⟨L, rfl⟩ : ∃ L, H = L + bs := ⟨H - bs, by omega⟩
    rw [postNodes_shift, List.pairwise_map]
    exact postD_pairwise size bs hs L 0

/-- in a list where `p` is downward closed along the order, `p` holds exactly on the first
`countP p` positions -/
theorem prefix_of_pairwise {α : Type} (p : α → Bool) (l : List α)
    (h : l.Pairwise (fun a b => p b = true → p a = true)) (i : Nat) (hi : i < l.length) :
    p l[i] = true ↔ i < l.countP p := by
  induction l generalizing i with
  | nil => simp at hi
  | cons a l ih =>
    rw [List.pairwise_cons] at h
    by_cases hpa : p a = true
    · cases i with
      | zero => simp [hpa]
      | succ j =>
        have := ih h.2 j (by simpa using hi)
        simp [hpa, this]
    · have hall : ∀ b ∈ l, p b = false := by
        intro b hb
        have := mt (h.1 b hb) hpa
        simpa using this
      have hc : l.countP p = 0 := by
        rw [List.countP_eq_zero]
        intro b hb
        simp [hall b hb]
      cases i with
      | zero => simp [hpa, hc]
      | succ j =>
        have hj : j < l.length := by simpa using hi
        have := hall l[j] (List.getElem_mem hj)
        simp [hpa, hc, this]

end Bao.Offsets
