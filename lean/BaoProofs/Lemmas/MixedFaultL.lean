import BaoModel.FaultMixed

/-!
# Lemmas for C10 (item-stream traversal `mixed::traverse_ranges_validated`)

`BaoModel/FaultMixed.lean` defines `traverseRangesValidatedF`: the traversal with an injected fault,
call counters and the log of io calls.  Here every run is shown to be the *replay* of the fault-free
log (same method as `Lemmas/OpsFaultL.lean`, for the objects data / outboard / sender):

* `replay fault log nd no ns` – replay a log against a fault: the counters are the numbers of calls
  made so far on data / outboard / sender, the first call whose counter is hit fails (it is logged,
  nothing follows); result: calls made, and the object and error of the failing call (if any);
* `finish r t0` – what `traverse_ranges_validated` makes of a replay: not cut: terminal `t0`; cut at a
  `send`: `sendErr`; cut at a `read_bytes_at` / `load`: one more call `send(Error(io e))`, terminal
  `errItem (io e)`;
* `splitCall o n log` – the log split at the `n`-th call on `o` (`replay_some`: closed form).
-/

namespace Bao.MixedFaultL

open Bao

variable {H : Type}

/-! ## objects, counters -/

theorem beq_obj (a b : MObj) : (a == b) = decide (a = b) := by
  cases a <;> cases b <;> rfl

instance : LawfulBEq MObj where
  eq_of_beq {a b} h := by rw [beq_obj] at h; exact of_decide_eq_true h
  rfl {a} := by rw [beq_obj]; exact decide_eq_true rfl

theorem hits_none (o : MObj) (n : Nat) : MFault.hits none o n = none := rfl

theorem hits_some (obj : MObj) (k : Nat) (kind : IoKind) (o : MObj) (n : Nat) :
    MFault.hits (some ⟨obj, k, kind⟩) o n =
      if obj = o ∧ k = n then some ⟨kind, true⟩ else none := by
  simp [MFault.hits]

/-- a hit names the fault -/
theorem hits_eq_some {fault : Option MFault} {o : MObj} {n : Nat} {err : IoErr}
    (h : MFault.hits fault o n = some err) :
    ∃ kind, fault = some ⟨o, n, kind⟩ ∧ err = ⟨kind, true⟩ := by
  cases fault with
  | none => cases h
  | some f =>
    obtain ⟨obj, k, kind⟩ := f
    rw [hits_some] at h
    by_cases hc : obj = o ∧ k = n
    · rw [if_pos hc] at h
      obtain ⟨rfl, rfl⟩ := hc
      exact ⟨kind, rfl, (Option.some.inj h).symm⟩
    · rw [if_neg hc] at h; cases h

/-- a fault on one object does not hit another -/
theorem hits_other {o o' : MObj} {k : Nat} {kind : IoKind} (h : o ≠ o') (n : Nat) :
    MFault.hits (some ⟨o, k, kind⟩) o' n = none := by
  rw [hits_some, if_neg]
  rintro ⟨rfl, _⟩
  exact h rfl

/-- the counter of object `o` -/
def sel (o : MObj) (nd no ns : Nat) : Nat :=
  match o with
  | .data => nd
  | .ob => no
  | .s => ns

/-- 1 if `e` is a call on `o` -/
def delta (o : MObj) (e : MEv H) : Nat := if e.obj = o then 1 else 0

/-- number of calls on `o` -/
def ncalls (o : MObj) : List (MEv H) → Nat
  | [] => 0
  | e :: es => delta o e + ncalls o es

theorem ncalls_append (o : MObj) (a b : List (MEv H)) :
    ncalls o (a ++ b) = ncalls o a + ncalls o b := by
  induction a with
  | nil => simp [ncalls]
  | cons e a ih => simp only [List.cons_append, ncalls, ih]; omega

theorem ncalls_eq_count (o : MObj) (es : List (MEv H)) :
    ncalls o es = (es.map MEv.obj).count o := by
  induction es with
  | nil => rfl
  | cons e es ih =>
    simp only [ncalls, delta, List.map_cons, List.count_cons, ih, beq_iff_eq]
    omega

theorem ncalls_sends (items : List (EncodedItem H)) :
    ncalls .s (items.map MEv.send) = items.length := by
  induction items with
  | nil => rfl
  | cons it items ih =>
    simp only [List.map_cons, ncalls, ih, List.length_cons, delta, MEv.obj, if_true]; omega

theorem ncalls_sends_data (items : List (EncodedItem H)) :
    ncalls .data (items.map MEv.send) = 0 := by
  induction items with
  | nil => rfl
  | cons it items ih => simp [ncalls, ih, delta, MEv.obj]

theorem ncalls_sends_ob (items : List (EncodedItem H)) :
    ncalls .ob (items.map MEv.send) = 0 := by
  induction items with
  | nil => rfl
  | cons it items ih => simp [ncalls, ih, delta, MEv.obj]

/-! ## replaying a log against a fault -/

/-- replay a call log against a fault; a call that fails is logged and ends the replay with its
object and error, every other entry bumps the counter of its object -/
def replay (fault : Option MFault) :
    List (MEv H) → Nat → Nat → Nat → List (MEv H) × Option (MObj × IoErr)
  | [], _, _, _ => ([], none)
  | e :: es, nd, no, ns =>
    match MFault.hits fault e.obj (sel e.obj nd no ns) with
    | some err => ([e], some (e.obj, err))
    | none =>
      let r := replay fault es (nd + delta .data e) (no + delta .ob e) (ns + delta .s e)
      (e :: r.1, r.2)

theorem replay_cons (fault : Option MFault) (e : MEv H) (es : List (MEv H)) (nd no ns : Nat) :
    replay fault (e :: es) nd no ns =
      match MFault.hits fault e.obj (sel e.obj nd no ns) with
      | some err => ([e], some (e.obj, err))
      | none =>
        (e :: (replay fault es (nd + delta .data e) (no + delta .ob e) (ns + delta .s e)).1,
          (replay fault es (nd + delta .data e) (no + delta .ob e) (ns + delta .s e)).2) := rfl

theorem sel_bump (o : MObj) (e : MEv H) (nd no ns : Nat) :
    sel o (nd + delta .data e) (no + delta .ob e) (ns + delta .s e) = sel o nd no ns + delta o e := by
  cases o <;> rfl

/-- without a fault every entry is performed -/
theorem replay_none (es : List (MEv H)) :
    ∀ (nd no ns : Nat), replay none es nd no ns = (es, none) := by
  induction es with
  | nil => intros; rfl
  | cons e es ih =>
    intro nd no ns
    simp only [replay, hits_none, ih]

/-- a replay that is not cut made all the calls -/
theorem replay_not_cut {fault : Option MFault} {es : List (MEv H)} :
    ∀ {nd no ns : Nat}, (replay fault es nd no ns).2 = none → (replay fault es nd no ns).1 = es := by
  induction es with
  | nil => intros; rfl
  | cons e es ih =>
    intro nd no ns h
    unfold replay at h ⊢
    cases hh : MFault.hits fault e.obj (sel e.obj nd no ns) with
    | some err => rw [hh] at h; cases h
    | none =>
      rw [hh] at h
      simp only [] at h ⊢
      rw [ih h]

/-- a cut names the fault -/
theorem replay_cut_fault {fault : Option MFault} {es : List (MEv H)} :
    ∀ {nd no ns : Nat} {o : MObj} {err : IoErr}, (replay fault es nd no ns).2 = some (o, err) →
      ∃ k kind, fault = some ⟨o, k, kind⟩ ∧ err = ⟨kind, true⟩ := by
  induction es with
  | nil => intro nd no ns o err h; cases h
  | cons e es ih =>
    intro nd no ns o err h
    unfold replay at h
    cases hh : MFault.hits fault e.obj (sel e.obj nd no ns) with
    | some err' =>
      rw [hh] at h
      simp only [Option.some.injEq, Prod.mk.injEq] at h
      obtain ⟨rfl, rfl⟩ := h
      obtain ⟨kind, h1, h2⟩ := hits_eq_some hh
      exact ⟨_, kind, h1, h2⟩
    | none =>
      rw [hh] at h
      exact ih h

/-- replay of two logs in sequence -/
theorem replay_append (fault : Option MFault) (a b : List (MEv H)) :
    ∀ (nd no ns : Nat), replay fault (a ++ b) nd no ns =
      match (replay fault a nd no ns).2 with
      | some x => ((replay fault a nd no ns).1, some x)
      | none =>
        (a ++ (replay fault b (nd + ncalls .data a) (no + ncalls .ob a) (ns + ncalls .s a)).1,
          (replay fault b (nd + ncalls .data a) (no + ncalls .ob a) (ns + ncalls .s a)).2) := by
  induction a with
  | nil => intro nd no ns; simp [replay, ncalls]
  | cons e a ih =>
    intro nd no ns
    simp only [List.cons_append, replay_cons]
    cases hh : MFault.hits fault e.obj (sel e.obj nd no ns) with
    | some err => rfl
    | none =>
      simp only []
      rw [ih]
      cases (replay fault a (nd + delta .data e) (no + delta .ob e) (ns + delta .s e)).2 with
      | some x => rfl
      | none => simp only [ncalls, Nat.add_assoc]

/-- the log split at the `n`-th (0-based) call on `o`: the entries before it, the call, the rest -/
def splitCall (o : MObj) : Nat → List (MEv H) → Option (List (MEv H) × MEv H × List (MEv H))
  | _, [] => none
  | n, e :: es =>
    if e.obj = o then
      match n with
      | 0 => some ([], e, es)
      | n + 1 => (splitCall o n es).map fun p => (e :: p.1, p.2.1, p.2.2)
    else (splitCall o n es).map fun p => (e :: p.1, p.2.1, p.2.2)

theorem splitCall_some {o : MObj} {es : List (MEv H)} :
    ∀ {n : Nat} {pre : List (MEv H)} {e : MEv H} {post : List (MEv H)},
    splitCall o n es = some (pre, e, post) →
    es = pre ++ e :: post ∧ e.obj = o ∧ ncalls o pre = n := by
  induction es with
  | nil => intro n pre e post h; simp [splitCall] at h
  | cons a es ih =>
    intro n pre e post h
    unfold splitCall at h
    by_cases ha : a.obj = o
    · rw [if_pos ha] at h
      cases n with
      | zero =>
        simp only [Option.some.injEq, Prod.mk.injEq] at h
        obtain ⟨rfl, rfl, rfl⟩ := h
        exact ⟨rfl, ha, rfl⟩
      | succ n =>
        simp only [Option.map_eq_some_iff, Prod.mk.injEq] at h
        obtain ⟨⟨p1, p2, p3⟩, hp, rfl, rfl, rfl⟩ := h
        obtain ⟨h1, h2, h3⟩ := ih hp
        refine ⟨by rw [h1]; rfl, h2, ?_⟩
        simp only [ncalls, delta, if_pos ha, h3]; omega
    · rw [if_neg ha] at h
      simp only [Option.map_eq_some_iff, Prod.mk.injEq] at h
      obtain ⟨⟨p1, p2, p3⟩, hp, rfl, rfl, rfl⟩ := h
      obtain ⟨h1, h2, h3⟩ := ih hp
      refine ⟨by rw [h1]; rfl, h2, ?_⟩
      simp only [ncalls, delta, if_neg ha, h3]; omega

theorem splitCall_none {o : MObj} {es : List (MEv H)} :
    ∀ {n : Nat}, splitCall o n es = none ↔ ncalls o es ≤ n := by
  induction es with
  | nil => intro n; simp [splitCall, ncalls]
  | cons a es ih =>
    intro n
    unfold splitCall
    by_cases ha : a.obj = o
    · rw [if_pos ha]
      cases n with
      | zero => simp [ncalls, delta, if_pos ha]
      | succ n =>
        simp only [Option.map_eq_none_iff, ih, ncalls, delta, if_pos ha]; omega
    · rw [if_neg ha]
      simp only [Option.map_eq_none_iff, ih, ncalls, delta, if_neg ha]; omega

/-- the split is the only decomposition of the log at the `n`-th call on `o` -/
theorem splitCall_of_decomp {o : MObj} :
    ∀ {pre : List (MEv H)} {n : Nat} {e : MEv H} {post : List (MEv H)},
    e.obj = o → ncalls o pre = n → splitCall o n (pre ++ e :: post) = some (pre, e, post) := by
  intro pre
  induction pre with
  | nil =>
    intro n e post he hn
    simp only [ncalls] at hn
    subst hn
    simp [splitCall, he]
  | cons a pre ih =>
    intro n e post he hn
    simp only [List.cons_append]
    unfold splitCall
    by_cases ha : a.obj = o
    · rw [if_pos ha]
      simp only [ncalls, delta, if_pos ha] at hn
      cases n with
      | zero => omega
      | succ n => simp only [ih he (by omega : ncalls o pre = n), Option.map_some]
    · rw [if_neg ha]
      simp only [ncalls, delta, if_neg ha] at hn
      simp only [ih he (by omega : ncalls o pre = n), Option.map_some]

/-- closed form of a replay against the fault "the `k`-th call on `o` fails" -/
theorem replay_some (o : MObj) (k : Nat) (kind : IoKind) (es : List (MEv H)) :
    ∀ (nd no ns : Nat), sel o nd no ns ≤ k →
    replay (some ⟨o, k, kind⟩) es nd no ns =
      match splitCall o (k - sel o nd no ns) es with
      | some (pre, e, _) => (pre ++ [e], some (o, ⟨kind, true⟩))
      | none => (es, none) := by
  induction es with
  | nil => intros; simp [replay, splitCall]
  | cons e es ih =>
    intro nd no ns h
    unfold replay splitCall
    by_cases he : e.obj = o
    · rw [if_pos he]
      simp only [he, hits_some, true_and]
      by_cases hk : k = sel o nd no ns
      · rw [if_pos hk, hk, Nat.sub_self]
        simp
      · rw [if_neg hk]
        have h1 : k - sel o nd no ns = (k - (sel o nd no ns + 1)) + 1 := by omega
        rw [h1]
        simp only []
        have hd : delta o e = 1 := by simp [delta, he]
        rw [ih _ _ _ (by rw [sel_bump, hd]; omega), sel_bump, hd]
        cases splitCall o (k - (sel o nd no ns + 1)) es with
        | none => simp
        | some p => simp
    · rw [if_neg he]
      rw [hits_other (fun h => he h.symm)]
      simp only []
      have hd : delta o e = 0 := by simp [delta, he]
      rw [ih _ _ _ (by rw [sel_bump, hd]; omega), sel_bump, hd, Nat.add_zero]
      cases splitCall o (k - sel o nd no ns) es with
      | none => simp
      | some p => simp

theorem sel_zero (o : MObj) : sel o 0 0 0 = 0 := by cases o <;> rfl

/-- the decomposition of a log at the `k`-th call on `obj` is unique -/
theorem decomp_unique (obj : MObj) (k : Nat) (log : List (MEv H))
    (pre pre' post post' : List (MEv H)) (e e' : MEv H)
    (h : log = pre ++ e :: post) (he : e.obj = obj) (hc : ncalls obj pre = k)
    (h' : log = pre' ++ e' :: post') (he' : e'.obj = obj) (hc' : ncalls obj pre' = k) :
    pre = pre' ∧ e = e' ∧ post = post' := by
  have h1 := splitCall_of_decomp (post := post) he hc
  have h2 := splitCall_of_decomp (post := post') he' hc'
  rw [← h] at h1
  rw [← h', h1] at h2
  simpa using h2

/-! ## one-step unfoldings of `replay` -/

section steps

variable (fault : Option MFault) (es : List (MEv H)) (nd no ns : Nat)

theorem replay_readAt (a z : Nat) :
    replay fault (.readAt a z :: es) nd no ns =
      match MFault.hits fault .data nd with
      | some err => ([.readAt a z], some (.data, err))
      | none =>
        (.readAt a z :: (replay fault es (nd + 1) no ns).1, (replay fault es (nd + 1) no ns).2) := rfl

theorem replay_load (n : Nat) :
    replay fault (.load n :: es) nd no ns =
      match MFault.hits fault .ob no with
      | some err => ([.load n], some (.ob, err))
      | none =>
        (.load n :: (replay fault es nd (no + 1) ns).1, (replay fault es nd (no + 1) ns).2) := rfl

theorem replay_send (it : EncodedItem H) :
    replay fault (.send it :: es) nd no ns =
      match MFault.hits fault .s ns with
      | some err => ([.send it], some (.s, err))
      | none =>
        (.send it :: (replay fault es nd no (ns + 1)).1, (replay fault es nd no (ns + 1)).2) := rfl

theorem replay_nil : replay fault ([] : List (MEv H)) nd no ns = ([], none) := rfl

end steps

/-! ## `sendAllF` -/

theorem sendAll_none (items : List (EncodedItem H)) :
    ∀ ns, sendAllF none items ns = (items.map MEv.send, none, ns + items.length) := by
  induction items with
  | nil => intro ns; rfl
  | cons it items ih =>
    intro ns
    simp only [sendAllF, hits_none, ih, List.map_cons, List.length_cons]
    rw [Nat.add_assoc, Nat.add_comm 1]

/-- all sends succeed: same as without a fault -/
theorem sendAll_ok {fault : Option MFault} {items : List (EncodedItem H)} :
    ∀ {ns}, (sendAllF fault items ns).2.1 = none →
      sendAllF fault items ns = (items.map MEv.send, none, ns + items.length) := by
  induction items with
  | nil => intro ns _; rfl
  | cons it items ih =>
    intro ns h
    unfold sendAllF at h ⊢
    cases hh : MFault.hits fault .s ns with
    | some e => rw [hh] at h; cases h
    | none =>
      rw [hh] at h
      simp only [] at h ⊢
      rw [ih h, List.map_cons, List.length_cons, Nat.add_assoc, Nat.add_comm 1]

/-- the counter after `sendAllF` -/
theorem sendAll_ns (fault : Option MFault) (items : List (EncodedItem H)) :
    ∀ ns, (sendAllF fault items ns).2.2 = ns + ncalls .s (sendAllF fault items ns).1 := by
  induction items with
  | nil => intro ns; rfl
  | cons it items ih =>
    intro ns
    unfold sendAllF
    cases MFault.hits fault .s ns with
    | some e => rfl
    | none =>
      simp only [ih, ncalls, delta, MEv.obj, if_true]
      omega

/-- the sends of a leaf, replayed -/
theorem replay_sends (fault : Option MFault) (items : List (EncodedItem H)) (es : List (MEv H)) :
    ∀ (nd no ns : Nat), replay fault (items.map MEv.send ++ es) nd no ns =
      match (sendAllF fault items ns).2.1 with
      | some err => ((sendAllF fault items ns).1, some (.s, err))
      | none =>
        (items.map MEv.send ++ (replay fault es nd no (ns + items.length)).1,
          (replay fault es nd no (ns + items.length)).2) := by
  induction items with
  | nil => intro nd no ns; rfl
  | cons it items ih =>
    intro nd no ns
    simp only [List.map_cons, List.cons_append, replay_send]
    unfold sendAllF
    cases MFault.hits fault .s ns with
    | some e => rfl
    | none =>
      simp only []
      rw [ih]
      cases (sendAllF fault items (ns + 1)).2.1 with
      | some e => rfl
      | none =>
        simp only [List.length_cons]
        rw [Nat.add_assoc, Nat.add_comm 1]

/-! ## the loop is the replay of its fault-free log -/

/-- assemble a run of the loop from a replay -/
def asmL (r : List (MEv H) × Option (MObj × IoErr)) (res0 : MixInner) (ns : Nat) : MixLoop H :=
  ⟨r.1,
    match r.2 with
    | none => res0
    | some (.s, _) => .sendErr
    | some (_, err) => .cause (.io err),
    ns + ncalls .s r.1⟩

theorem asmL_pre (pre : List (MEv H)) (r : List (MEv H) × Option (MObj × IoErr)) (res0 : MixInner)
    (ns : Nat) :
    asmL (pre ++ r.1, r.2) res0 ns =
      ⟨pre ++ (asmL r res0 (ns + ncalls .s pre)).log, (asmL r res0 (ns + ncalls .s pre)).res,
        (asmL r res0 (ns + ncalls .s pre)).ns⟩ := by
  simp only [asmL, ncalls_append, Nat.add_assoc]

theorem mixLoop_eta (r : MixLoop H) : r = ⟨r.log, r.res, r.ns⟩ := rfl

theorem loop_replay (hf : HashFns H) [BEq H] (data : List UInt8) (ob : Store H)
    (fault : Option MFault) (plan : List Chunk) :
    ∀ (stack : List H) (nd no ns : Nat),
    traverseLoopF hf data ob fault plan stack nd no ns =
      asmL (replay fault (traverseLoopF hf data ob none plan stack nd no ns).log nd no ns)
        (traverseLoopF hf data ob none plan stack nd no ns).res ns := by
  induction plan with
  | nil => intro stack nd no ns; rfl
  | cons c plan ih =>
    intro stack nd no ns
    cases c with
    | parent node isRoot left right rs =>
      simp only [traverseLoopF, hits_none]
      cases hl : ob.load hf .sync node with
      | err e =>
        simp only [replay_load, replay_nil]
        cases MFault.hits fault .ob no <;> rfl
      | panic =>
        simp only [replay_load, replay_nil]
        cases MFault.hits fault .ob no <;> rfl
      | ok p =>
        cases p with
        | none =>
          simp only [replay_load, replay_nil]
          cases MFault.hits fault .ob no <;> rfl
        | some lr =>
          obtain ⟨l, r⟩ := lr
          cases stack with
          | nil =>
            simp only [replay_load, replay_nil]
            cases MFault.hits fault .ob no <;> rfl
          | cons expected stack =>
            simp only []
            by_cases hm : (hf.parentCv l r isRoot != expected) = true
            · simp only [if_pos hm, replay_load, replay_nil]
              cases MFault.hits fault .ob no <;> rfl
            · simp only [if_neg hm, replay_load, replay_send]
              cases MFault.hits fault .ob no with
              | some e => rfl
              | none =>
                simp only []
                cases MFault.hits fault .s ns with
                | some e => rfl
                | none =>
                  simp only []
                  rw [ih]
                  exact (asmL_pre [.load node, .send (.parent node l r)] _ _ ns).symm
    | leaf start size isRoot rs =>
      cases stack with
      | nil => rfl
      | cons expected stack =>
        simp only [traverseLoopF, hits_none]
        cases hr : readExactAt data (toBytes start) size with
        | error e =>
          simp only [replay_readAt, replay_nil]
          cases MFault.hits fault .data nd <;> rfl
        | ok buf =>
          simp only []
          generalize hai : (if (!Ranges.isAll rs) = true then
              ((traverseSelectedRec hf recFuel start buf isRoot rs ob.tree.bs true).1,
                (traverseSelectedRec hf recFuel start buf isRoot rs ob.tree.bs true).2.map
                  Item.toEncoded)
            else (hashSubtree hf start buf isRoot, [EncodedItem.leaf (toBytes start) buf])) = ai
          obtain ⟨actual, items⟩ := ai
          simp only []
          by_cases hm : (actual != expected) = true
          · simp only [if_pos hm, replay_readAt, replay_nil]
            cases MFault.hits fault .data nd <;> rfl
          · simp only [if_neg hm, sendAll_none, replay_readAt]
            cases MFault.hits fault .data nd with
            | some e => rfl
            | none =>
              simp only []
              rw [replay_sends]
              cases hs : (sendAllF fault items ns).2.1 with
              | some e =>
                simp only []
                rw [sendAll_ns]
                simp [asmL, ncalls, delta, MEv.obj]
              | none =>
                simp only []
                rw [sendAll_ok hs, ih]
                simp only []
                have h := asmL_pre (.readAt (toBytes start) size :: items.map MEv.send)
                  (replay fault (traverseLoopF hf data ob none plan stack (nd + 1) no
                    (ns + items.length)).log (nd + 1) no (ns + items.length))
                  (traverseLoopF hf data ob none plan stack (nd + 1) no (ns + items.length)).res ns
                have hn : ncalls .s (MEv.readAt (H := H) (toBytes start) size :: items.map MEv.send)
                    = items.length := by
                  simp only [ncalls, ncalls_sends, delta, MEv.obj]
                  simp
                rw [hn] at h
                exact h.symm

theorem impl_replay (hf : HashFns H) [BEq H] (data : List UInt8) (ob : Store H) (q : Ranges)
    (fault : Option MFault) (ns : Nat) :
    traverseImplF hf data ob q fault ns =
      asmL (replay fault (traverseImplF hf data ob q none ns).log 0 0 ns)
        (traverseImplF hf data ob q none ns).res ns := by
  unfold traverseImplF
  by_cases he : q.isEmpty = true
  · simp only [he, if_true]; rfl
  · simp only [he]
    cases Tree.prePartialChunks ob.tree (Ranges.truncate q ob.tree.size) 0 with
    | none => rfl
    | some plan => exact loop_replay ..

/-! ## the whole function -/

/-- what `traverse_ranges_validated` makes of a replay: not cut: the terminal `t0`; cut at a `send`:
`sendErr`; cut at a `read_bytes_at` / `load`: one more call `send(Error(io e))`, terminal
`errItem (io e)` -/
def finish (r : List (MEv H) × Option (MObj × IoErr)) (t0 : MixEnd) : List (MEv H) × MixEnd :=
  match r.2 with
  | none => (r.1, t0)
  | some (.s, _) => (r.1, .sendErr)
  | some (_, err) => (r.1 ++ [.send (.error (.io err))], .errItem (.io err))

/-- `traverse_ranges_validated` after `send(Size)`, as a function of the run of the inner function -/
def topOf (fault : Option MFault) (sz : Nat) (r : MixLoop H) : List (MEv H) × MixEnd :=
  let first : MEv H := .send (.size sz)
  let fin (item : EncodedItem H) (t : MixEnd) : List (MEv H) × MixEnd :=
    match MFault.hits fault .s r.ns with
    | some _ => (first :: (r.log ++ [.send item]), .sendErr)
    | none => (first :: (r.log ++ [.send item]), t)
  match r.res with
  | .done => fin .done .ok
  | .cause e => fin (.error e) (.errItem e)
  | .sendErr => (first :: r.log, .sendErr)
  | .panic => (first :: r.log, .panic)

theorem top_eq (hf : HashFns H) [BEq H] (data : List UInt8) (ob : Store H) (q : Ranges)
    (fault : Option MFault) :
    traverseRangesValidatedF hf data ob q fault =
      match MFault.hits fault .s 0 with
      | some _ => ([.send (.size ob.tree.size)], .sendErr)
      | none => topOf fault ob.tree.size (traverseImplF hf data ob q fault 1) := rfl

theorem top_aux (fault : Option MFault) (sz : Nat) (log0 : List (MEv H)) (res0 : MixInner)
    (hf0 : MFault.hits fault .s 0 = none) :
    topOf fault sz (asmL (replay fault log0 0 0 1) res0 1) =
      finish (replay fault (topOf none sz ⟨log0, res0, 1 + ncalls .s log0⟩).1 0 0 0)
        (topOf none sz ⟨log0, res0, 1 + ncalls .s log0⟩).2 := by
  cases hR : replay fault log0 0 0 1 with
  | mk c x =>
  cases x with
  | none =>
    have hc : c = log0 := by
      have h := replay_not_cut (fault := fault) (es := log0) (nd := 0) (no := 0) (ns := 1)
        (by rw [hR])
      rw [hR] at h
      exact h
    subst hc
    cases res0 with
    | done =>
      simp only [topOf, asmL, hits_none, replay_send, hf0, Nat.zero_add, replay_append, hR, replay_nil]
      cases MFault.hits fault .s (1 + ncalls .s c) <;> rfl
    | cause e =>
      simp only [topOf, asmL, hits_none, replay_send, hf0, Nat.zero_add, replay_append, hR, replay_nil]
      cases MFault.hits fault .s (1 + ncalls .s c) <;> rfl
    | sendErr =>
      simp only [topOf, asmL, replay_send, hf0, Nat.zero_add, hR]
      rfl
    | panic =>
      simp only [topOf, asmL, replay_send, hf0, Nat.zero_add, hR]
      rfl
  | some oe =>
    obtain ⟨o, err⟩ := oe
    obtain ⟨k, kind, rfl, rfl⟩ := replay_cut_fault (fault := fault) (es := log0) (nd := 0) (no := 0)
      (ns := 1) (o := o) (err := err) (by rw [hR])
    cases o with
    | s =>
      cases res0 <;>
        simp only [topOf, asmL, hits_none, replay_send, hf0, Nat.zero_add, replay_append, hR] <;> rfl
    | data =>
      have hn : ∀ n, MFault.hits (some ⟨.data, k, kind⟩) .s n = none :=
        fun n => hits_other (by decide) n
      cases res0 <;>
        simp only [topOf, asmL, hits_none, replay_send, hn, Nat.zero_add, replay_append, hR] <;> rfl
    | ob =>
      have hn : ∀ n, MFault.hits (some ⟨.ob, k, kind⟩) .s n = none :=
        fun n => hits_other (by decide) n
      cases res0 <;>
        simp only [topOf, asmL, hits_none, replay_send, hn, Nat.zero_add, replay_append, hR] <;> rfl

/-- every run - faulty or not - is the replay of the fault-free log against the fault, counters
starting at 0, finished as `traverse_ranges_validated` does -/
theorem top_replay (hf : HashFns H) [BEq H] (data : List UInt8) (ob : Store H) (q : Ranges)
    (fault : Option MFault) :
    traverseRangesValidatedF hf data ob q fault =
      finish (replay fault (traverseRangesValidatedF hf data ob q none).1 0 0 0)
        (traverseRangesValidatedF hf data ob q none).2 := by
  rw [top_eq hf data ob q none, top_eq hf data ob q fault]
  simp only [hits_none]
  cases h0 : MFault.hits fault .s 0 with
  | some e =>
    simp only [topOf, hits_none]
    cases (traverseImplF hf data ob q none 1).res <;>
      simp only [replay_send, h0] <;> rfl
  | none =>
    simp only []
    have hi := impl_replay hf data ob q none 1
    rw [replay_none] at hi
    rw [impl_replay hf data ob q fault 1, top_aux fault _ _ _ h0]
    have he : (⟨(traverseImplF hf data ob q none 1).log, (traverseImplF hf data ob q none 1).res,
        1 + ncalls .s (traverseImplF hf data ob q none 1).log⟩ : MixLoop H) =
        traverseImplF hf data ob q none 1 := by
      conv => rhs; rw [hi]
      rfl
    rw [he]

/-! ## what follows for a function that is the finished replay of its fault-free log -/

/-- the run cut after the calls `pre ++ [e]` by a fault of kind `kind` on `obj` (`e` the failing call):
sender: nothing more, `sendErr`; data / outboard: the call `send(Error(io ⟨kind, true⟩))`, terminal
`errItem (io ⟨kind, true⟩)` -/
def cutRun (obj : MObj) (kind : IoKind) (pre : List (MEv H)) (e : MEv H) : List (MEv H) × MixEnd :=
  match obj with
  | .s => (pre ++ [e], .sendErr)
  | _ => (pre ++ [e, .send (.error (.io ⟨kind, true⟩))], .errItem (.io ⟨kind, true⟩))

section generic

variable (V : Option MFault → List (MEv H) × MixEnd)
  (hrep : ∀ fault, V fault = finish (replay fault (V none).1 0 0 0) (V none).2)

include hrep

theorem gen_some (obj : MObj) (k : Nat) (kind : IoKind) :
    V (some ⟨obj, k, kind⟩) =
      match splitCall obj k (V none).1 with
      | some (pre, e, _) => cutRun obj kind pre e
      | none => V none := by
  rw [hrep (some ⟨obj, k, kind⟩),
    replay_some obj k kind _ 0 0 0 (by rw [sel_zero]; exact Nat.zero_le _), sel_zero, Nat.sub_zero]
  cases splitCall obj k (V none).1 with
  | none => rfl
  | some p =>
    cases obj <;> simp [finish, cutRun]

/-- the fault is reached: the faulty run is the fault-free run cut right after the failing call -/
theorem gen_cut (obj : MObj) (k : Nat) (kind : IoKind) (hk : k < ncalls obj (V none).1) :
    ∃ pre e post, (V none).1 = pre ++ e :: post ∧ e.obj = obj ∧ ncalls obj pre = k ∧
      V (some ⟨obj, k, kind⟩) = cutRun obj kind pre e := by
  cases hs : splitCall obj k (V none).1 with
  | none => exact absurd (splitCall_none.mp hs) (Nat.not_le.mpr hk)
  | some p =>
    obtain ⟨pre, e, post⟩ := p
    obtain ⟨h1, h2, h3⟩ := splitCall_some hs
    have hr := gen_some V hrep obj k kind
    rw [hs] at hr
    exact ⟨pre, e, post, h1, h2, h3, hr⟩

/-- the fault is not reached: same run -/
theorem gen_unreached (obj : MObj) (k : Nat) (kind : IoKind) (hk : ncalls obj (V none).1 ≤ k) :
    V (some ⟨obj, k, kind⟩) = V none := by
  have hr := gen_some V hrep obj k kind
  rw [splitCall_none.mpr hk] at hr
  exact hr

/-- every run is the fault-free run, or the fault-free run cut at a call of its log -/
theorem gen_dichotomy (fault : Option MFault) :
    (∃ obj k kind pre e post, fault = some ⟨obj, k, kind⟩ ∧ (V none).1 = pre ++ e :: post ∧
      e.obj = obj ∧ ncalls obj pre = k ∧ V fault = cutRun obj kind pre e) ∨
    V fault = V none := by
  cases fault with
  | none => exact Or.inr rfl
  | some f =>
    obtain ⟨obj, k, kind⟩ := f
    by_cases hk : k < ncalls obj (V none).1
    · obtain ⟨pre, e, post, h1, h2, h3, h4⟩ := gen_cut V hrep obj k kind hk
      exact Or.inl ⟨obj, k, kind, pre, e, post, rfl, h1, h2, h3, h4⟩
    · exact Or.inr (gen_unreached V hrep obj k kind (Nat.le_of_not_lt hk))

end generic

theorem cutRun_terminal (obj : MObj) (kind : IoKind) (pre : List (MEv H)) (e : MEv H) :
    (cutRun obj kind pre e).2 =
      match obj with
      | .s => .sendErr
      | _ => .errItem (.io ⟨kind, true⟩) := by
  cases obj <;> rfl

/-! ## items sent -/

theorem sends_append (a b : List (MEv H)) : MEv.sends (a ++ b) = MEv.sends a ++ MEv.sends b := by
  induction a with
  | nil => rfl
  | cons e a ih => cases e <;> simp [MEv.sends, ih]

theorem sends_map_send (items : List (EncodedItem H)) : MEv.sends (items.map MEv.send) = items := by
  induction items with
  | nil => rfl
  | cons it items ih => simp [MEv.sends, ih]

/-- a call on the data or the outboard sends nothing -/
theorem sends_not_s {e : MEv H} (h : e.obj ≠ .s) : MEv.sends [e] = [] := by
  cases e <;> first | rfl | exact absurd rfl h

/-- a call on the sender sends one item -/
theorem sends_s {e : MEv H} (h : e.obj = .s) : ∃ it, e = .send it := by
  cases e with
  | send it => exact ⟨it, rfl⟩
  | readAt a b => cases h
  | load n => cases h

/-- the items delivered by a cut run: those sent before the failing call, and - data / outboard
fault - the error item -/
theorem delivered_cutRun (obj : MObj) (kind : IoKind) (pre : List (MEv H)) (e : MEv H)
    (he : e.obj = obj) :
    deliveredOf (cutRun obj kind pre e) =
      match obj with
      | .s => MEv.sends pre
      | _ => MEv.sends pre ++ [.error (.io ⟨kind, true⟩)] := by
  cases obj with
  | s => simp [cutRun, deliveredOf]
  | data =>
    have h : MEv.sends [e] = [] := sends_not_s (by rw [he]; decide)
    have h2 : pre ++ [e, MEv.send (.error (.io ⟨kind, true⟩))] =
        pre ++ ([e] ++ [MEv.send (.error (.io ⟨kind, true⟩))]) := rfl
    simp only [cutRun, deliveredOf, h2, sends_append, h, MEv.sends, List.nil_append]
  | ob =>
    have h : MEv.sends [e] = [] := sends_not_s (by rw [he]; decide)
    have h2 : pre ++ [e, MEv.send (.error (.io ⟨kind, true⟩))] =
        pre ++ ([e] ++ [MEv.send (.error (.io ⟨kind, true⟩))]) := rfl
    simp only [cutRun, deliveredOf, h2, sends_append, h, MEv.sends, List.nil_append]

/-! ## without a fault: the fault-free model `traverseRangesValidated` -/

/-- result of the inner function for a terminal of the fault-free loop -/
def ofEnc : EncEnd → MixInner
  | .ok => .done
  | .err e => .cause e
  | .panic => .panic

theorem loop_none (hf : HashFns H) [BEq H] (data : List UInt8) (ob : Store H) (plan : List Chunk) :
    ∀ (stack : List H) (out : List (EncodedItem H)) (nd no ns : Nat),
    (traverseLoop hf data ob plan stack out).1 =
        out ++ MEv.sends (traverseLoopF hf data ob none plan stack nd no ns).log ∧
      (traverseLoopF hf data ob none plan stack nd no ns).res =
        ofEnc (traverseLoop hf data ob plan stack out).2 := by
  induction plan with
  | nil => intro stack out nd no ns; simp [traverseLoop, traverseLoopF, MEv.sends, ofEnc]
  | cons c plan ih =>
    intro stack out nd no ns
    cases c with
    | parent node isRoot left right rs =>
      simp only [traverseLoop, traverseLoopF, hits_none]
      cases hl : ob.load hf .sync node with
      | err e => simp [MEv.sends, ofEnc]
      | panic => simp [MEv.sends, ofEnc]
      | ok p =>
        cases p with
        | none => simp [MEv.sends, ofEnc]
        | some lr =>
          obtain ⟨l, r⟩ := lr
          cases stack with
          | nil => simp [MEv.sends, ofEnc]
          | cons expected stack =>
            simp only []
            by_cases hm : (hf.parentCv l r isRoot != expected) = true
            · simp only [if_pos hm]; simp [MEv.sends, ofEnc]
            · simp only [if_neg hm]
              obtain ⟨h1, h2⟩ := ih (if left = true then l :: (if right = true then r :: stack else stack)
                else (if right = true then r :: stack else stack))
                (out ++ [.parent node l r]) nd (no + 1) (ns + 1)
              refine ⟨?_, h2⟩
              rw [h1]
              simp [MEv.sends]
    | leaf start size isRoot rs =>
      cases stack with
      | nil => simp [traverseLoop, traverseLoopF, MEv.sends, ofEnc]
      | cons expected stack =>
        simp only [traverseLoop, traverseLoopF, hits_none]
        cases hr : readExactAt data (toBytes start) size with
        | error e => simp [MEv.sends, ofEnc]
        | ok buf =>
          simp only []
          by_cases hall : Ranges.isAll rs = true
          · simp only [hall, Bool.not_true, Bool.false_eq_true, if_false]
            by_cases hm : (hashSubtree hf start buf isRoot != expected) = true
            · simp only [if_pos hm]; simp [MEv.sends, ofEnc]
            · simp only [if_neg hm, sendAll_none]
              obtain ⟨h1, h2⟩ := ih stack (out ++ [.leaf (toBytes start) buf]) (nd + 1) no
                (ns + [EncodedItem.leaf (H := H) (toBytes start) buf].length)
              refine ⟨?_, h2⟩
              rw [h1]
              simp [MEv.sends]
          · have hall' : Ranges.isAll rs = false := by simpa using hall
            simp only [hall', Bool.not_false, if_true]
            by_cases hm : ((traverseSelectedRec hf recFuel start buf isRoot rs ob.tree.bs true).1
                != expected) = true
            · simp only [if_pos hm]; simp [MEv.sends, ofEnc]
            · simp only [if_neg hm, sendAll_none]
              obtain ⟨h1, h2⟩ := ih stack
                (out ++ (traverseSelectedRec hf recFuel start buf isRoot rs ob.tree.bs true).2.map
                  Item.toEncoded) (nd + 1) no
                (ns + ((traverseSelectedRec hf recFuel start buf isRoot rs ob.tree.bs true).2.map
                  Item.toEncoded).length)
              refine ⟨?_, h2⟩
              rw [h1]
              simp only [MEv.sends, sends_append, sends_map_send, List.append_assoc]

theorem getLast_frame {α : Type} (a x : α) (l : List α) : (a :: (l ++ [x])).getLast? = some x := by
  rw [← List.cons_append, List.getLast?_concat]

/-- without a fault: the items sent are those of `traverseRangesValidated`, the run ends `ok` when the
last item is `done`, `errItem e` when it is `error e`, and panics when the fault-free model does -/
theorem top_none (hf : HashFns H) [BEq H] (data : List UInt8) (ob : Store H) (q : Ranges) :
    match traverseRangesValidated hf data ob q with
    | some items =>
      MEv.sends (traverseRangesValidatedF hf data ob q none).1 = items ∧
      (((traverseRangesValidatedF hf data ob q none).2 = .ok ∧ items.getLast? = some .done) ∨
        ∃ e, (traverseRangesValidatedF hf data ob q none).2 = .errItem e ∧
          items.getLast? = some (.error e))
    | none => (traverseRangesValidatedF hf data ob q none).2 = .panic := by
  unfold traverseRangesValidated traverseRangesValidatedF traverseImplF
  simp only [hits_none]
  by_cases he : q.isEmpty = true
  · simp [he, MEv.sends]
  · simp only [he]
    cases hp : Tree.prePartialChunks ob.tree (Ranges.truncate q ob.tree.size) 0 with
    | none => simp
    | some plan =>
      obtain ⟨h1, h2⟩ := loop_none hf data ob plan [ob.root] [] 0 0 1
      simp only []
      cases ht : traverseLoop hf data ob plan [ob.root] [] with
      | mk items t =>
        rw [ht] at h1 h2
        simp only [List.nil_append] at h1
        cases t with
        | ok =>
          simp only [ofEnc] at h2
          simp [h2, MEv.sends, sends_append, ← h1, getLast_frame]
        | err e =>
          simp only [ofEnc] at h2
          simp [h2, MEv.sends, sends_append, ← h1, getLast_frame]
        | panic =>
          simp only [ofEnc] at h2
          simp [h2]

end Bao.MixedFaultL
