import BaoProofs.Lemmas.DecodeSpec

/-!
# Decoding the last chunk authenticates the claimed size (C16)

`Spine hf d x`: `x` is the chaining value of a *right-spine* interval `[a, N)` of the true blob `d`
(`N` its number of chunks).  The root hash is one.  Along the claimed tree's path from the root to
its last chunk every item is checked against a spine hash: a parent that verifies hands a spine hash
to its right child (`spine_parent`, by the shape of the tree hash and collision freedom); the
subtree of its left child only consumes its own hash (`planPre_frame`); the last leaf verifies
against a spine hash with its claimed start chunk and its claimed length `size' - start·1024`, and
`cv_inj` makes both true (`spine_leaf`) — so the claimed size is the true size.
-/

set_option maxRecDepth 8192

namespace Bao.DecodeSpec
open Bao Bao.Spec Bao.PlanPre Bao.Ranges Bao.Bits

variable {H : Type}

/-! ## the hash stack below a sub-plan is untouched -/

theorem push_append (hf : HashFns H) (c : Chunk) (buf : List UInt8) (rest base : List H) :
    push hf c buf (rest ++ base) = push hf c buf rest ++ base := by
  cases c with
  | parent n ir l r x => cases l <;> cases r <;> rfl
  | leaf s z ir x => rfl

/-- a plan whose stack run from height `h` never underflows only touches the top `h` entries -/
theorem runL_frame (hf : HashFns H) [BEq H] :
    ∀ (P : List Chunk) (h : Nat) (st base : List H) (s : List UInt8) (st1 : List H)
      (s1 : List UInt8), st.length = h →
      (∀ n, (stackRun h (P.take n)).isSome = true) →
      (runL hf P (st ++ base) s).fin = .ok st1 s1 →
      ∃ st', st1 = st' ++ base ∧ stackRun h P = some st'.length := by
  intro P
  induction P with
  | nil =>
    intro h st base s st1 s1 hst _ hok
    simp only [runL_nil, End.ok.injEq] at hok
    exact ⟨st, hok.1.symm, by simp [stackRun, hst]⟩
  | cons c P ih =>
    intro h st base s st1 s1 hst hrun hok
    have h1 := hrun 1
    cases st with
    | nil =>
      simp only [List.length_nil] at hst
      subst hst
      cases c <;> simp [stackRun] at h1
    | cons top rest =>
      simp only [List.length_cons] at hst
      subst hst
      obtain ⟨i, st2, s2, hstep, hrest, -⟩ := runL_cons_ok hok
      rw [List.cons_append] at hstep
      obtain ⟨-, top', rest', htr, -, -, rfl, -⟩ := stepC_item hstep
      simp only [List.cons.injEq] at htr
      obtain ⟨rfl, rfl⟩ := htr
      rw [push_append] at hrest
      cases c with
      | parent nd ir l r x =>
        obtain ⟨st', e1, e2⟩ := ih (rest.length + (if l then 1 else 0) + (if r then 1 else 0)) _ _ _ _ _
          (by rw [push_length_parent]) (fun n => by
            have := hrun (n + 1)
            rw [List.take_succ_cons, stackRun_parent] at this
            exact this) hrest
        exact ⟨st', e1, by rw [stackRun_parent]; exact e2⟩
      | leaf sc z ir x =>
        obtain ⟨st', e1, e2⟩ := ih rest.length _ _ _ _ _ (by rw [push_length_leaf]) (fun n => by
            have := hrun (n + 1)
            rw [List.take_succ_cons, stackRun_leaf] at this
            exact this) hrest
        exact ⟨st', e1, by rw [stackRun_leaf]; exact e2⟩

/-- the plan of an existing subtree with a non-empty sub-query consumes exactly the hash on top of
the stack -/
theorem planPre_frame (hf : HashFns H) [BEq H] {size bs ml filled root : Nat}
    (g : Geo size bs filled) (L k : Nat) (rs : Ranges) (hne : rs ≠ []) (hs : startOf k L < filled)
    {x : H} {stk st1 : List H} {s s1 : List UInt8}
    (hok : (runL hf (planPre size bs ml filled root L k rs) (x :: stk) s).fin = .ok st1 s1) :
    st1 = stk := by
  have hfull := stackRun_planPre (ml := ml) (root := root) g L k rs hne hs 0 []
  rw [List.append_nil] at hfull
  have hpre : ∀ n, (stackRun 1 ((planPre size bs ml filled root L k rs).take n)).isSome = true := by
    intro n
    apply stackRun_prefix (r := 0) (b := (planPre size bs ml filled root L k rs).drop n)
    rw [List.take_append_drop]
    exact hfull
  obtain ⟨st', e1, e2⟩ := runL_frame hf _ 1 [x] stk s st1 s1 rfl hpre hok
  rw [hfull] at e2
  simp only [stackRun, Option.some.injEq] at e2
  have : st' = [] := List.eq_nil_of_length_eq_zero e2.symm
  rw [e1, this, List.nil_append]

/-! ## spine hashes -/

/-- `x` is the chaining value of a right-spine interval `[a, N)` of the true blob -/
def Spine (hf : HashFns H) (d : List UInt8) (x : H) : Prop :=
  ∃ a f, a < nChunks d.length ∧ x = cv hf d a (nChunks d.length) f

theorem spine_root (hf : HashFns H) (d : List UInt8) : Spine hf d (Spec.root hf d) :=
  ⟨0, true, Ranges.nChunks_pos _, rfl⟩

/-- a spine hash that passes a parent check: the right child hash is a spine hash -/
theorem spine_parent {hf : HashFns H} {d : List UInt8} (cf : CollisionFree hf)
    (hd : d.length ≤ 2 ^ 64 * 1024) {x l r : H} {flag : Bool} (hx : Spine hf d x)
    (h : x = hf.parentCv l r flag) : Spine hf d r := by
  obtain ⟨a, f, ha, rfl⟩ := hx
  unfold Spec.cv at h
  have hlen : (slice d a (nChunks d.length)).length ≤ 2 ^ 64 * 1024 :=
    Nat.le_trans (C01.slice_length_le d a _) hd
  rcases hashSubtree_shape (hf := hf) hlen a f with ⟨_, e1⟩ | ⟨L, hL, h1, h2, e1⟩
  · rw [e1] at h; exact (cf.chunk_ne_parent h).elim
  · rw [e1] at h
    obtain ⟨-, hr, -⟩ := cf.parent_inj h
    have hlt : a + 2 ^ L < nChunks d.length := by
      rw [C01.slice_length] at h1
      generalize 2 ^ L = p at *
      omega
    rw [C01.slice_drop (Nat.le_of_lt hlt)] at hr
    exact ⟨a + 2 ^ L, false, hlt, hr.symm⟩

/-- a spine hash that passes the check of a leaf which claims to be the last leaf of a blob of
`size'` bytes: the claimed size is the true size -/
theorem spine_leaf {hf : HashFns H} {d : List UInt8} (cf : CollisionFree hf) {x : H}
    (hx : Spine hf d x) {s size' : Nat} {flag : Bool} {buf : List UInt8}
    (h : x = hashSubtree hf s buf flag) (hs : s * 1024 ≤ size')
    (hz : buf.length = size' - s * 1024) : size' = d.length := by
  obtain ⟨a, f, ha, rfl⟩ := hx
  unfold Spec.cv at h
  obtain ⟨rfl, hb, -⟩ := cv_inj cf h
  have hl := congrArg List.length hb
  rw [C01.slice_length, hz] at hl
  have hn : nChunks d.length = max 1 ((d.length + 1023) / 1024) := rfl
  omega

section spine
variable {hf : HashFns H} [BEq H] [LawfulBEq H]

/-- the leaf step of the spine argument -/
theorem spine_leaf_step {d : List UInt8} (cf : CollisionFree hf) {top : H} (ht : Spine hf d top)
    {s z size' : Nat} {flag : Bool} {x : Ranges} {p : List Chunk} {stk st1 : List H}
    {s0 s1 : List UInt8} (hs : s * 1024 ≤ size') (hz : z = size' - s * 1024)
    (hok : (runL hf (.leaf s z flag x :: p) (top :: stk) s0).fin = .ok st1 s1) :
    size' = d.length := by
  obtain ⟨i, st2, s2, hstep, -, -⟩ := runL_cons_ok hok
  obtain ⟨hl, top', rest', htr, hc, -, -, -⟩ := stepC_item hstep
  simp only [List.cons.injEq] at htr
  obtain ⟨rfl, rfl⟩ := htr
  simp only [Chunk.size] at hl hc
  have heq : top = hashSubtree hf s (s0.take z) flag := by simpa [check] using hc
  exact spine_leaf cf ht heq hs (by rw [List.length_take, Nat.min_eq_left hl, hz])

/-- the parent step of the spine argument -/
theorem spine_parent_step {d : List UInt8} (cf : CollisionFree hf) (hd : d.length ≤ 2 ^ 64 * 1024)
    {top : H} (ht : Spine hf d top) {node : Nat} {flag lf : Bool} {x : Ranges} {p : List Chunk}
    {stk st1 : List H} {s0 s1 : List UInt8}
    (hok : (runL hf (.parent node flag lf true x :: p) (top :: stk) s0).fin = .ok st1 s1) :
    ∃ l r s2, Spine hf d r ∧
      (runL hf p (if lf then l :: r :: stk else r :: stk) s2).fin = .ok st1 s1 := by
  obtain ⟨i, st2, s2, hstep, hrest, -⟩ := runL_cons_ok hok
  obtain ⟨hl, top', rest', htr, hc, -, rfl, -⟩ := stepC_item hstep
  simp only [List.cons.injEq] at htr
  obtain ⟨rfl, rfl⟩ := htr
  have heq : top = hf.parentCv (parsePair hf (s0.take 64)).1 (parsePair hf (s0.take 64)).2 flag := by
    simpa [check, Chunk.size] using hc
  refine ⟨(parsePair hf (s0.take 64)).1, (parsePair hf (s0.take 64)).2, s2,
    spine_parent cf hd ht heq, ?_⟩
  simpa [push, Chunk.size] using hrest

theorem toBytes_end_ge {size' e : Nat} (h : nChunks size' ≤ e) : min (toBytes e) size' = size' := by
  unfold toBytes
  have := C01.nChunks_ge size'
  apply Nat.min_eq_right
  have : nChunks size' * 1024 ≤ e * 1024 := Nat.mul_le_mul_right _ h
  omega

/-- **the spine argument**: a run over the plan of a claimed node that reaches the end of the
claimed blob and whose sub-query selects the last claimed chunk, started on a spine hash of the true
blob, can end `ok` only if the claimed size is the true size -/
theorem spine_node {d : List UInt8} (cf : CollisionFree hf) (hd : d.length ≤ 2 ^ 64 * 1024)
    {size' B filled root : Nat} (g : Geo size' 0 filled) (L k : Nat) (rs : Ranges) :
    WF rs = true → Spec.selected size' rs (nChunks size' - 1) = true →
    nChunks size' ≤ endOf k L → startOf k L < filled →
    ∀ (top : H) (stk : List H) (s : List UInt8) (st1 : List H) (s1 : List UInt8),
      Spine hf d top →
      (runL hf (planPre size' 0 B filled root L k rs) (top :: stk) s).fin = .ok st1 s1 →
      size' = d.length := by
  refine planPre_induct (size := size') (bs := 0) (ml := B) (filled := filled) (root := root)
    (P := fun L k rs p => WF rs = true → Spec.selected size' rs (nChunks size' - 1) = true →
      nChunks size' ≤ endOf k L → startOf k L < filled →
      ∀ (top : H) (stk : List H) (s : List UInt8) (st1 : List H) (s1 : List UInt8),
        Spine hf d top → (runL hf p (top :: stk) s).fin = .ok st1 s1 → size' = d.length)
    ?_ ?_ ?_ ?_ ?_ ?_ ?_ L k rs
  · -- nil
    intro L k _ hsel
    rw [selected_nil] at hsel; cases hsel
  · -- gone
    intro k rs _ hge _ _ _ hex
    rw [Offsets.startOf_zero] at hex
    rw [Offsets.nodeOf_zero] at hge
    omega
  · -- skip
    intro L k rs _ hge ih hwf hsel _ hex
    have hm : nChunks size' ≤ midOf k (L + 1) := g.skip_mid_ge hge
    exact ih hwf hsel (by rw [endOf_left]; exact hm) (by rw [startOf_left]; exact hex)
  · -- query leaf
    intro L k rs _ hlt _ _ _ hend hex top stk s st1 s1 ht hok
    rw [nodeLeaf_zero] at hok
    have hs : toBytes (startOf k L) ≤ size' := g.start_le (L := L) hex
    exact spine_leaf_step cf ht hs (by rw [toBytes_end_ge hend]; rfl) hok
  · -- half leaf
    intro k rs _ hlt _ _ _ _ hend hex top stk s st1 s1 ht hok
    rw [nodeLeaf_zero] at hok
    have hs : toBytes (startOf k 0) ≤ size' := g.start_le (L := 0) hex
    exact spine_leaf_step cf ht hs (by rw [toBytes_end_ge hend]; rfl) hok
  · -- chunk group
    intro k rs _ hlt _ hh hwf hsel hend hex top stk s st1 s1 ht hok
    have hm : midOf k 0 < nChunks size' := lt_nChunks_of_toBytes_lt hh
    have hrsel : Spec.selected size' (rq 0 0 k rs) (nChunks size' - 1) = true := by
      rw [rq_zero, selected_right hwf (by omega)]; exact hsel
    have hrne := ne_nil_of_selected hrsel
    rw [nodeParent_zero, isEmpty_eq_false hrne] at hok
    simp only [Bool.not_false, Bool.false_eq_true, if_false] at hok
    obtain ⟨l, r, s2, hr, hok2⟩ := spine_parent_step cf hd ht hok
    have hsz : toBytes (midOf k 0) ≤ size' := Nat.le_of_lt hh
    rw [rightLeaf_zero] at hok2
    cases hl : (lq 0 0 k rs).isEmpty
    · simp only [hl, Bool.not_false, if_true, Bool.false_eq_true, if_false, List.singleton_append]
        at hok2
      rw [leftLeaf_zero] at hok2
      obtain ⟨i, st3, s3, hstep, hrest, -⟩ := runL_cons_ok hok2
      obtain ⟨-, top', rest', htr, -, -, rfl, -⟩ := stepC_item hstep
      simp only [List.cons.injEq] at htr
      obtain ⟨rfl, rfl⟩ := htr
      exact spine_leaf_step cf hr hsz (by rw [toBytes_end_ge hend]; rfl) hrest
    · simp only [hl, Bool.not_true, Bool.false_eq_true, if_false, if_true, List.nil_append] at hok2
      exact spine_leaf_step cf hr hsz (by rw [toBytes_end_ge hend]; rfl) hok2
  · -- inner node
    intro L k rs _ hlt _ _ ihr hwf hsel hend hex top stk s st1 s1 ht hok
    have hm : midOf k (L + 1) < nChunks size' := g.mid_lt_nChunks hlt
    have hwfs := C14.splitInner_wf (startOf k (L + 1)) (midOf k (L + 1)) hwf
    have hrsel : Spec.selected size' (rq 0 (L + 1) k rs) (nChunks size' - 1) = true := by
      rw [rq_zero, selected_right hwf (by omega)]; exact hsel
    have hrne := ne_nil_of_selected hrsel
    rw [nodeParent_zero, isEmpty_eq_false hrne] at hok
    simp only [Bool.not_false] at hok
    obtain ⟨l, r, s2, hr, hok2⟩ := spine_parent_step cf hd ht hok
    rw [runL_append] at hok2
    obtain ⟨st3, s3, hL1, hR1, -⟩ := bind_ok hok2
    have hst3 : st3 = r :: stk := by
      cases hl : (lq 0 (L + 1) k rs).isEmpty
      · have hlne : lq 0 (L + 1) k rs ≠ [] := by
          intro e; rw [e] at hl; cases hl
        simp only [hl, Bool.not_false, if_true] at hL1
        exact planPre_frame hf g L (2 * k) _ hlne
          (by rw [startOf_left]; exact hex) hL1
      · have hle : lq 0 (L + 1) k rs = [] := isEmpty_eq_true_iff.1 hl
        simp only [hl, Bool.not_true, Bool.false_eq_true, if_false] at hL1
        rw [hle, planPre_nil] at hL1
        simp only [runL_nil, End.ok.injEq] at hL1
        exact hL1.1.symm
    rw [hst3] at hR1
    exact ihr (by rw [rq_zero]; exact hwfs.2) hrsel (by rw [endOf_right]; exact hend)
      (g.right_exists hlt) r stk s3 st1 s1 hr hR1

/-- **C16**: a decode whose query selects the last chunk of the claimed geometry can end `done`
only if the claimed size is the true size of the blob behind the root hash -/
theorem decode_size_proof (cf : CollisionFree hf) (fl : Flavour) (d : List UInt8)
    (hd : d.length ≤ 2 ^ 63) (size' bs : Nat) (hs : size' ≤ 2 ^ 63) (q : Ranges)
    (hwf : WF q = true) (hsel : Spec.selected size' q (nChunks size' - 1) = true)
    (s : List UInt8)
    (hdone : (decodeAll hf fl (Spec.root hf d) ⟨size', bs⟩ q s).terminal = .done) :
    size' = d.length := by
  rw [decodeAll_eq_runL hf fl _ _ _ _ _ hs] at hdone
  simp only [Out.toRun] at hdone
  have g := shifted_geo size' 0 hs (by omega)
  obtain ⟨-, hroot, hlt⟩ := rootLevel_spec size' 0 hs
  cases hfin : (runL hf (plan ⟨size', 0⟩ bs (truncate q size')) [Spec.root hf d] s).fin with
  | err e s1 => rw [hfin] at hdone; cases hdone
  | panic s1 => rw [hfin] at hdone; cases hdone
  | ok st1 s1 =>
    unfold plan at hfin
    refine spine_node cf (by omega) g (rootLevel ⟨size', 0⟩) 0 (truncate q size')
      (C14.truncate_wf size' hwf) (by rw [C14.truncate_selected size' hwf]; exact hsel)
      (rootLevel_covers size' 0 hs) (by rw [startOf_zero_left]; omega)
      (Spec.root hf d) [] s st1 s1 (spine_root hf d) hfin

end spine

end Bao.DecodeSpec
