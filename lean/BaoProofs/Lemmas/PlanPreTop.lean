import BaoProofs.Lemmas.PlanPreRefine
import BaoProofs.Lemmas.PlanPreShape
import BaoProofs.Lemmas.PlanPreCover
import BaoProofs.Lemmas.PlanPreExact

/-!
# Facts about the whole recursive plan `plan t ml q` (C15, pre-order half)

Instances of the per-node lemmas of `PlanPreShape` / `PlanPreCover` at the root, and their
transport through `Chunk.withoutRanges` (the response plan erases the ranges).
-/

namespace Bao.PlanPre
open Bao Bao.Spec Bao.Bits

theorem plan_nil (t : Tree) (ml : Nat) : plan t ml [] = [] := planPre_nil _ _

theorem not_isEmpty_eq_true_iff (l : Ranges) : (!l.isEmpty) = true ↔ l ≠ [] := by
  cases l <;> simp

section
variable (size bs ml : Nat) (q : Ranges)

/-- `plan` with the root id written in coordinates -/
theorem plan_eq (hs : size ≤ 2 ^ 63) :
    plan ⟨size, bs⟩ ml q = planPre size bs ml (Tree.shifted ⟨size, bs⟩).2
      (nodeOf 0 (rootLevel ⟨size, bs⟩)) (rootLevel ⟨size, bs⟩) 0 q := by
  obtain ⟨_, hroot, _⟩ := rootLevel_spec size bs hs
  unfold plan
  simp only
  rw [← hroot]

theorem startOf_zero_idx (L : Nat) : startOf 0 L = 0 := by simp [startOf]

theorem plan_stack (hs : size ≤ 2 ^ 63) (hbs : bs ≤ 10) (hq : q ≠ []) :
    stackRun 1 (plan ⟨size, bs⟩ ml q) = some 0 := by
  have g := shifted_geo size bs hs hbs
  obtain ⟨_, _, hlt⟩ := rootLevel_spec size bs hs
  have := stackRun_planPre (ml := ml) (root := (Tree.shifted ⟨size, bs⟩).1) g
    (rootLevel ⟨size, bs⟩) 0 q hq (by rw [startOf_zero_idx]; omega) 0 []
  rw [List.append_nil] at this
  exact this

theorem plan_stack_prefix (hs : size ≤ 2 ^ 63) (hbs : bs ≤ 10) (hq : q ≠ []) (n : Nat) :
    (stackRun 1 ((plan ⟨size, bs⟩ ml q).take n)).isSome = true := by
  have h := plan_stack size bs ml q hs hbs hq
  rw [← List.take_append_drop n (plan ⟨size, bs⟩ ml q)] at h
  exact stackRun_prefix h

theorem plan_root (hs : size ≤ 2 ^ 63) (hq : q ≠ []) :
    ∃ c tail, plan ⟨size, bs⟩ ml q = c :: tail ∧ c.rootFlag = true ∧
      ∀ c' ∈ tail, c'.rootFlag = false := by
  obtain ⟨_, _, hlt⟩ := rootLevel_spec size bs hs
  rw [plan_eq size bs ml q hs]
  exact rootFlag_top hq hlt

theorem plan_spans (hs : size ≤ 2 ^ 63) (hbs : bs ≤ 10) :
    SpansIn 0 (endOf 0 (rootLevel ⟨size, bs⟩ + bs)) (leafSpans (plan ⟨size, bs⟩ ml q)) := by
  have g := shifted_geo size bs hs hbs
  have := spans_planPre (ml := ml) (root := (Tree.shifted ⟨size, bs⟩).1) g
    (rootLevel ⟨size, bs⟩) 0 q
  rwa [startOf_zero_idx] at this

theorem plan_leaf_in_blob (hs : size ≤ 2 ^ 63) (hbs : bs ≤ 10) :
    ∀ s z r x, Chunk.leaf s z r x ∈ plan ⟨size, bs⟩ ml q → toBytes s + z ≤ size :=
  leaf_in_blob (shifted_geo size bs hs hbs) _ _ _

theorem plan_flags_item (hs : size ≤ 2 ^ 63) (hbs : bs ≤ 10) {node : Nat} {ir lf rf : Bool}
    {rs : Ranges} (h : Chunk.parent node ir lf rf rs ∈ plan ⟨size, bs⟩ ml q) :
    lf = !(Ranges.splitNode rs node).1.isEmpty ∧ rf = !(Ranges.splitNode rs node).2.isEmpty :=
  flags_item (shifted_geo size bs hs hbs) h

/-- every parent item is immediately followed by the plan of its left half, then the plan of its
right half; each is non-empty iff the flag is set, its leaves lie in that half of the parent's
chunk range, and it hashes to exactly one value (pops one expected hash, net) -/
theorem plan_parent_subtree (hs : size ≤ 2 ^ 63) (hbs : bs ≤ 10) {pre tail : List Chunk}
    {node : Nat} {ir lf rf : Bool} {rs : Ranges}
    (h : plan ⟨size, bs⟩ ml q = pre ++ Chunk.parent node ir lf rf rs :: tail) :
    ∃ A B post, tail = A ++ B ++ post ∧ (A ≠ [] ↔ lf = true) ∧ (B ≠ [] ↔ rf = true) ∧
      SpansIn (Node.chunkRange node).1 (Node.mid node) (leafSpans A) ∧
      SpansIn (Node.mid node) (Node.chunkRange node).2 (leafSpans B) ∧
      (lf = true → ∀ h rest, stackRun (h + 1) (A ++ rest) = stackRun h rest) ∧
      (rf = true → ∀ h rest, stackRun (h + 1) (B ++ rest) = stackRun h rest) := by
  have g := shifted_geo size bs hs hbs
  obtain ⟨L, k, post, _, hne, hlt, hql, hmid, hnp, heq⟩ := parent_occurrence h
  rw [planPre_parent hne hlt hql hmid, hnp] at heq
  simp only [List.cons_append, List.cons.injEq, true_and] at heq
  unfold nodeParent at hnp
  simp only [Chunk.parent.injEq] at hnp
  obtain ⟨hnode, _, hlf, hrf, _⟩ := hnp
  have hL := g.level_le hlt
  have hlf' : lf = true ↔ lq bs L k rs ≠ [] := by
    rw [hlf]; exact not_isEmpty_eq_true_iff _
  have hrf' : rf = true ↔ rq bs L k rs ≠ [] := by
    rw [hrf]; exact not_isEmpty_eq_true_iff _
  refine ⟨_, _, post, heq, ?_, ?_, ?_, ?_, ?_, ?_⟩
  · rw [hlf']; exact leftPlan_ne_nil_iff g hlt
  · rw [hrf']; exact rightPlan_ne_nil_iff g hlt
  · rw [hnode, C18.chunkRange_spec hL, C18.mid_spec]; exact spans_leftPlan g hlt
  · rw [hnode, C18.chunkRange_spec hL, C18.mid_spec]; exact spans_rightPlan g hlt
  · intro h1 h rest; exact stackRun_leftPlan g hlt (hlf'.1 h1) h rest
  · intro h1 h rest; exact stackRun_rightPlan g hlt (hrf'.1 h1) h rest

end

/-! ## erasing the ranges (`BaoChunk::without_ranges`, the response plan) -/

theorem rootFlag_withoutRanges (c : Chunk) : c.withoutRanges.rootFlag = c.rootFlag := by
  cases c <;> rfl

theorem stackRun_withoutRanges (h : Nat) (p : List Chunk) :
    stackRun h (p.map Chunk.withoutRanges) = stackRun h p := by
  induction p generalizing h with
  | nil => rfl
  | cons c p ih =>
    cases c <;> simp only [List.map_cons, Chunk.withoutRanges, stackRun, ih]

theorem leafSpans_withoutRanges (p : List Chunk) :
    leafSpans (p.map Chunk.withoutRanges) = leafSpans p := by
  induction p with
  | nil => rfl
  | cons c p ih =>
    cases c <;> simp only [List.map_cons, Chunk.withoutRanges, leafSpans, ih]

theorem leaf_mem_withoutRanges {p : List Chunk} {s z : Nat} {r : Bool} {x : Ranges}
    (h : Chunk.leaf s z r x ∈ p.map Chunk.withoutRanges) : ∃ x', Chunk.leaf s z r x' ∈ p := by
  obtain ⟨c, hc, e⟩ := List.mem_map.1 h
  cases c with
  | parent => simp [Chunk.withoutRanges] at e
  | leaf s' z' r' x' =>
    simp only [Chunk.withoutRanges, Chunk.leaf.injEq] at e
    obtain ⟨rfl, rfl, rfl, _⟩ := e
    exact ⟨x', hc⟩

theorem covered_withoutRanges (p : List Chunk) (c : Nat) :
    covered (p.map Chunk.withoutRanges) c ↔ covered p c := by
  constructor
  · rintro ⟨s, z, r, x, hm, h1, h2⟩
    obtain ⟨x', hx'⟩ := leaf_mem_withoutRanges hm
    exact ⟨s, z, r, x', hx', h1, h2⟩
  · rintro ⟨s, z, r, x, hm, h1, h2⟩
    exact ⟨s, z, r, [], List.mem_map.2 ⟨_, hm, rfl⟩, h1, h2⟩

theorem stackRun_append_withoutRanges (h : Nat) (p rest : List Chunk) :
    stackRun h (p.map Chunk.withoutRanges ++ rest) = stackRun h (p ++ rest) := by
  induction p generalizing h with
  | nil => rfl
  | cons c p ih =>
    cases c <;> simp only [List.map_cons, List.cons_append, Chunk.withoutRanges, stackRun, ih]

/-- an occurrence of a parent item in the range-erased plan comes from one in the plan -/
theorem parent_occ_withoutRanges {p pre tail : List Chunk} {node : Nat} {ir lf rf : Bool}
    {rs : Ranges} (h : p.map Chunk.withoutRanges = pre ++ Chunk.parent node ir lf rf rs :: tail) :
    ∃ pre0 tail0 rs0, p = pre0 ++ Chunk.parent node ir lf rf rs0 :: tail0 ∧
      tail = tail0.map Chunk.withoutRanges := by
  obtain ⟨pre0, rest0, hp, _, hrest⟩ := List.map_eq_append_iff.1 h
  obtain ⟨c0, tail0, hr, hc, ht⟩ := List.map_eq_cons_iff.1 hrest
  cases c0 with
  | leaf => simp [Chunk.withoutRanges] at hc
  | parent n i l r x =>
    simp only [Chunk.withoutRanges, Chunk.parent.injEq] at hc
    obtain ⟨rfl, rfl, rfl, rfl, _⟩ := hc
    exact ⟨pre0, tail0, x, by rw [hp, hr], ht.symm⟩

theorem take_map_withoutRanges (p : List Chunk) (n : Nat) :
    (p.map Chunk.withoutRanges).take n = (p.take n).map Chunk.withoutRanges :=
  (List.map_take).symm

end Bao.PlanPre
