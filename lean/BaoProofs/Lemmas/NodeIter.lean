import BaoModel.Iter
import BaoProofs.Props.C18
import BaoProofs.Lemmas.Offsets

/-!
# The node iterators (`PostOrderNodeIter`, `PreOrderNodeIter`) equal the tree recursion

The shifted tree of `(size, bs)` is *dense*: its nodes are exactly the ids `0 … F-1`
(`F = Tree.shifted.2`, odd).  `Offsets.postD F L k` / `Offsets.preD F L k` are the recursive
post- and pre-order lists of the ids `< F` in the complete subtree `(k, L)` (a node `≥ F` is replaced
by its left child).

* part 1: exact descriptions of `descendLeft` (`dl`, `descendLeft_dl`) and of
  `restrictedParent` along the left spine (`climb`), for a dense tree.
* part 2: `post_run` / `pre_run`: the three-state machine started at `(x, Prev.parent)` emits
  the recursive list of the subtree of `x`, uses exactly `cost` turns of the loop, and arrives at
  `goUp x`.  `postOrderNodes_eq`, `preOrderNodes_eq`: whole tree.
* part 3: dense lists for different bounds (`preD_succ`, `postD_filter`), the root
  (`shifted_root`), and the iterators of a `Tree` (`preIter_eq`, `postIter_eq`).
* part 4: the post-order chunk plan (`planD`), its leaves, parents, root flag, stack run.
-/

namespace Bao.NodeIterL
open Bao Bao.Spec Bao.Bits Bao.Offsets

/-! ## part 0: running a step function -/

theorem run_emit {step : NodeIter → Option (Option Nat × NodeIter)} {it it' : NodeIter} {x : Nat}
    (h : step it = some (some x, it')) (fuel : Nat) :
    NodeIter.run step (fuel + 1) it = x :: NodeIter.run step fuel it' := by
  simp only [NodeIter.run, h]

theorem run_skip {step : NodeIter → Option (Option Nat × NodeIter)} {it it' : NodeIter}
    (h : step it = some (none, it')) (fuel : Nat) :
    NodeIter.run step (fuel + 1) it = NodeIter.run step fuel it' := by
  simp only [NodeIter.run, h]

theorem run_stop {step : NodeIter → Option (Option Nat × NodeIter)} {it : NodeIter}
    (h : step it = none) (fuel : Nat) : NodeIter.run step fuel it = [] := by
  cases fuel with
  | zero => rfl
  | succ f => simp only [NodeIter.run, h]

/-- the state after `go_up` from `x` (does not depend on the state it is called in) -/
def upState (F x : Nat) : NodeIter := NodeIter.goUp ⟨F, x, .parent⟩ x

theorem goUp_eq (F c : Nat) (pv : Prev) (x : Nat) : NodeIter.goUp ⟨F, c, pv⟩ x = upState F x := by
  unfold upState NodeIter.goUp
  simp only

theorem upState_some {F x p : Nat} (h : Node.restrictedParent x F = some p) :
    upState F x = ⟨F, p, if x < p then .left else .right⟩ := by
  simp only [upState, NodeIter.goUp, h]

theorem upState_none {F x : Nat} (h : Node.restrictedParent x F = none) :
    upState F x = ⟨F, x, .done⟩ := by
  simp only [upState, NodeIter.goUp, h]

theorem postStep_down {F x c : Nat} (h : Node.leftChild x = some c) :
    NodeIter.postStep ⟨F, x, .parent⟩ = some (none, ⟨F, c, .parent⟩) := by
  simp only [NodeIter.postStep, h]

theorem postStep_leaf {F x : Nat} (h : Node.leftChild x = none) :
    NodeIter.postStep ⟨F, x, .parent⟩ = some (some x, upState F x) := by
  simp only [NodeIter.postStep, h, goUp_eq]

theorem postStep_left {F x r : Nat} (h : Node.rightDescendant x F = some r) :
    NodeIter.postStep ⟨F, x, .left⟩ = some (none, ⟨F, r, .parent⟩) := by
  simp only [NodeIter.postStep, h]

theorem postStep_right (F x : Nat) :
    NodeIter.postStep ⟨F, x, .right⟩ = some (some x, upState F x) := by
  simp only [NodeIter.postStep, goUp_eq]

theorem postStep_done (F x : Nat) : NodeIter.postStep ⟨F, x, .done⟩ = none := rfl

theorem preStep_down {F x c : Nat} (h : Node.leftChild x = some c) :
    NodeIter.preStep ⟨F, x, .parent⟩ = some (some x, ⟨F, c, .parent⟩) := by
  simp only [NodeIter.preStep, h]

theorem preStep_leaf {F x : Nat} (h : Node.leftChild x = none) :
    NodeIter.preStep ⟨F, x, .parent⟩ = some (some x, upState F x) := by
  simp only [NodeIter.preStep, h, goUp_eq]

theorem preStep_left {F x r : Nat} (h : Node.rightDescendant x F = some r) :
    NodeIter.preStep ⟨F, x, .left⟩ = some (none, ⟨F, r, .parent⟩) := by
  simp only [NodeIter.preStep, h]

theorem preStep_right (F x : Nat) :
    NodeIter.preStep ⟨F, x, .right⟩ = some (none, upState F x) := by
  simp only [NodeIter.preStep, goUp_eq]

theorem preStep_done (F x : Nat) : NodeIter.preStep ⟨F, x, .done⟩ = none := rfl

/-! ## part 1: `descendLeft` and `restrictedParent` in a dense tree -/

/-- coordinates of the first node with id `< F` on the left spine below `(k, L)` -/
def dl (F : Nat) : Nat → Nat → Nat × Nat
  | 0, k => (k, 0)
  | L + 1, k => if nodeOf k (L + 1) < F then (k, L + 1) else dl F L (2 * k)

/-- number of turns of the iterator loop spent in the subtree `(k, L)` -/
def cost (F : Nat) : Nat → Nat → Nat
  | 0, k => if nodeOf k 0 < F then 1 else 0
  | L + 1, k =>
    if nodeOf k (L + 1) < F then cost F L (2 * k) + cost F L (2 * k + 1) + 3
    else cost F L (2 * k)

theorem dl_level_le (F L k : Nat) : (dl F L k).2 ≤ L := by
  induction L generalizing k with
  | zero => simp [dl]
  | succ L ih =>
    by_cases h : nodeOf k (L + 1) < F
    · simp [dl, h]
    · simp only [dl, if_neg h]
      exact Nat.le_succ_of_le (ih _)

theorem postD_dl (F L k : Nat) : postD F L k = postD F (dl F L k).2 (dl F L k).1 := by
  induction L generalizing k with
  | zero => simp [dl]
  | succ L ih =>
    by_cases h : nodeOf k (L + 1) < F
    · simp [dl, h]
    · simp only [dl, if_neg h]
      rw [← ih]
      simp only [postD, if_neg h]

theorem preD_dl (F L k : Nat) : preD F L k = preD F (dl F L k).2 (dl F L k).1 := by
  induction L generalizing k with
  | zero => simp [dl]
  | succ L ih =>
    by_cases h : nodeOf k (L + 1) < F
    · simp [dl, h]
    · simp only [dl, if_neg h]
      rw [← ih]
      simp only [preD, if_neg h]

theorem cost_dl (F L k : Nat) : cost F L k = cost F (dl F L k).2 (dl F L k).1 := by
  induction L generalizing k with
  | zero => simp [dl]
  | succ L ih =>
    by_cases h : nodeOf k (L + 1) < F
    · simp [dl, h]
    · simp only [dl, if_neg h]
      rw [← ih]
      simp only [cost, if_neg h]

theorem dl_lt (F L k : Nat) (h : startOf k L < F) : nodeOf (dl F L k).1 (dl F L k).2 < F := by
  induction L generalizing k with
  | zero => simpa [dl, nodeOf_zero, startOf_zero] using h
  | succ L ih =>
    by_cases h1 : nodeOf k (L + 1) < F
    · simp [dl, h1]
    · simp only [dl, if_neg h1]
      exact ih _ (by rw [Offsets.startOf_left]; exact h)

theorem dl_ge (F L k : Nat) : startOf k L ≤ nodeOf (dl F L k).1 (dl F L k).2 := by
  induction L generalizing k with
  | zero => simp [dl, nodeOf_zero, startOf_zero]
  | succ L ih =>
    by_cases h1 : nodeOf k (L + 1) < F
    · simp only [dl, if_pos h1]
      rw [nodeOf_start]
      have := two_pow_pos' (L + 1)
      omega
    · simp only [dl, if_neg h1]
      have := ih (2 * k)
      rwa [Offsets.startOf_left] at this

/-- `descendLeft` finds `dl` -/
theorem descendLeft_dl (F : Nat) (fuel L k : Nat) (hL : L ≤ 64) (hf : L < fuel)
    (h : startOf k L < F) :
    Node.descendLeft fuel (nodeOf k L) F = some (nodeOf (dl F L k).1 (dl F L k).2) := by
  induction L generalizing k fuel with
  | zero =>
    cases fuel with
    | zero => omega
    | succ f =>
      have : ¬ (nodeOf k 0 ≥ F) := by rw [nodeOf_zero]; rw [startOf_zero] at h; omega
      simp only [Node.descendLeft, if_neg this, dl]
  | succ L ih =>
    cases fuel with
    | zero => omega
    | succ f =>
      by_cases h1 : nodeOf k (L + 1) < F
      · have : ¬ (nodeOf k (L + 1) ≥ F) := by omega
        simp only [Node.descendLeft, if_neg this, dl, if_pos h1]
      · have : nodeOf k (L + 1) ≥ F := by omega
        simp only [Node.descendLeft, if_pos this, C18.leftChild_spec hL, dl, if_neg h1]
        exact ih f (2 * k) (by omega) (by omega) (by rw [Offsets.startOf_left]; exact h)

/-- climbing from `dl` back to `(k, L)` passes only ids `≥ F` -/
theorem climb (F L k g : Nat) (hL : L ≤ 63) :
    Node.restrictedParentAux (g + (L - (dl F L k).2)) (nodeOf (dl F L k).1 (dl F L k).2) F
      = Node.restrictedParentAux g (nodeOf k L) F := by
  induction L generalizing k g with
  | zero => simp [dl]
  | succ L ih =>
    by_cases h1 : nodeOf k (L + 1) < F
    · simp [dl, h1]
    · simp only [dl, if_neg h1]
      have hle := dl_level_le F L (2 * k)
      have e : g + (L + 1 - (dl F L (2 * k)).2) = (g + 1) + (L - (dl F L (2 * k)).2) := by omega
      rw [e, ih (2 * k) (g + 1) (by omega)]
      simp only [Node.restrictedParentAux, C18.parent_spec (show L < 63 by omega)]
      rw [show 2 * k / 2 = k by omega, if_neg h1]

theorem rp_child (F L k g : Nat) (hL : L < 63) (h : nodeOf (k / 2) (L + 1) < F) :
    Node.restrictedParentAux (g + 1) (nodeOf k L) F = some (nodeOf (k / 2) (L + 1)) := by
  simp only [Node.restrictedParentAux, C18.parent_spec hL, if_pos h]

theorem nodeOf_zero_left (L : Nat) : nodeOf 0 L = 2 ^ L - 1 := by simp [nodeOf]

theorem rp_root (F fuel L : Nat) (hL : L ≤ 63) (h : F ≤ nodeOf 0 (L + 1)) :
    Node.restrictedParentAux fuel (nodeOf 0 L) F = none := by
  induction fuel generalizing L with
  | zero => rfl
  | succ f ih =>
    by_cases h63 : L = 63
    · subst h63
      simp only [Node.restrictedParentAux, C18.parent_top]
    · have hL' : L < 63 := by omega
      have hn : ¬ (nodeOf 0 (L + 1) < F) := by omega
      simp only [Node.restrictedParentAux, C18.parent_spec hL', Nat.zero_div, if_neg hn]
      apply ih (L + 1) (by omega)
      rw [nodeOf_zero_left] at h ⊢
      rw [Nat.pow_succ 2 (L + 1)]
      omega

/-- a right child's subtree is not empty when `F` is odd -/
theorem right_nonempty {F k L : Nat} (hodd : F % 2 = 1) (h : nodeOf k (L + 1) < F) :
    startOf (2 * k + 1) L < F ∧ startOf (2 * k + 1) L = nodeOf k (L + 1) + 1 := by
  have e : startOf (2 * k + 1) L = nodeOf k (L + 1) + 1 := by
    rw [Bits.startOf_right, midOf_eq, nodeOf_succ]
  have := nodeOf_succ_odd k L
  exact ⟨by omega, e⟩

/-! ## part 2: the machine equals the recursion -/

/-- the state after the subtree of the left child `(2k, L)` of an existing node -/
theorem up_left (F L k : Nat) (hL : L < 63) (h : nodeOf k (L + 1) < F) :
    upState F (nodeOf (2 * k) L) = ⟨F, nodeOf k (L + 1), .left⟩ := by
  have hp : Node.restrictedParent (nodeOf (2 * k) L) F = some (nodeOf k (L + 1)) := by
    have := rp_child F L (2 * k) 63 hL (by rw [show 2 * k / 2 = k by omega]; exact h)
    rwa [show 2 * k / 2 = k by omega] at this
  rw [upState_some hp]
  have : nodeOf (2 * k) L < nodeOf k (L + 1) := by
    rw [← nodeOf_sub_half]
    have := two_pow_pos' L
    have := two_pow_le_nodeOf_succ k L
    omega
  simp [this]

/-- the state after the subtree of the right descendant of an existing node -/
theorem up_right (F L k : Nat) (hL : L < 63) (hodd : F % 2 = 1) (h : nodeOf k (L + 1) < F) :
    upState F (nodeOf (dl F L (2 * k + 1)).1 (dl F L (2 * k + 1)).2)
      = ⟨F, nodeOf k (L + 1), .right⟩ := by
  have hle := dl_level_le F L (2 * k + 1)
  have hp : Node.restrictedParent (nodeOf (dl F L (2 * k + 1)).1 (dl F L (2 * k + 1)).2) F
      = some (nodeOf k (L + 1)) := by
    unfold Node.restrictedParent
    have e : 64 = (63 - (L - (dl F L (2 * k + 1)).2) + 1) + (L - (dl F L (2 * k + 1)).2) := by
      omega
    rw [e, climb F L (2 * k + 1) _ (by omega),
      rp_child F L (2 * k + 1) _ hL (by rw [show (2 * k + 1) / 2 = k by omega]; exact h)]
    rw [show (2 * k + 1) / 2 = k by omega]
  rw [upState_some hp]
  have h1 := dl_ge F L (2 * k + 1)
  have h2 := (right_nonempty hodd h).2
  have : ¬ (nodeOf (dl F L (2 * k + 1)).1 (dl F L (2 * k + 1)).2 < nodeOf k (L + 1)) := by omega
  simp [this]

theorem rightDescendant_dl (F L k : Nat) (hL : L < 63) (hodd : F % 2 = 1)
    (h : nodeOf k (L + 1) < F) :
    Node.rightDescendant (nodeOf k (L + 1)) F
      = some (nodeOf (dl F L (2 * k + 1)).1 (dl F L (2 * k + 1)).2) := by
  simp only [Node.rightDescendant, C18.rightChild_spec (show L + 1 ≤ 64 by omega)]
  exact descendLeft_dl F 65 L (2 * k + 1) (by omega) (by omega) (right_nonempty hodd h).1

/-- post-order: from `(x, parent)` the machine emits the subtree of `x` and arrives at `goUp x` -/
theorem post_run (F : Nat) (hodd : F % 2 = 1) (n : Nat) :
    ∀ L, L ≤ n → L ≤ 63 → ∀ k, nodeOf k L < F → ∀ fuel,
      NodeIter.run NodeIter.postStep (cost F L k + fuel) ⟨F, nodeOf k L, .parent⟩
        = postD F L k ++ NodeIter.run NodeIter.postStep fuel (upState F (nodeOf k L)) := by
  induction n with
  | zero =>
    intro L hLn _ k hx fuel
    obtain rfl : L = 0 := by omega
    simp only [cost, postD, if_pos hx]
    rw [Nat.add_comm 1 fuel, run_emit (postStep_leaf (C18.leftChild_leaf k))]
    rfl
  | succ n ih =>
    intro L hLn hL63 k hx fuel
    by_cases hle : L ≤ n
    · exact ih L hle hL63 k hx fuel
    obtain rfl : L = n + 1 := by omega
    have hn : n < 63 := by omega
    have hc : nodeOf (2 * k) n < F := by
      have := two_pow_le_nodeOf_succ k n
      have := two_pow_pos' n
      rw [← nodeOf_sub_half]; omega
    have hr := dl_lt F n (2 * k + 1) (right_nonempty hodd hx).1
    have hrl := dl_level_le F n (2 * k + 1)
    simp only [cost, postD, if_pos hx]
    -- down to the left child
    have e1 : cost F n (2 * k) + cost F n (2 * k + 1) + 3 + fuel
        = (cost F n (2 * k) + (cost F n (2 * k + 1) + 2 + fuel)) + 1 := by omega
    rw [e1, run_skip (postStep_down (C18.leftChild_spec (show n + 1 ≤ 64 by omega))),
      ih n (Nat.le_refl _) (by omega) (2 * k) hc, up_left F n k hn hx]
    -- over to the right descendant
    have e2 : cost F n (2 * k + 1) + 2 + fuel
        = (cost F (dl F n (2 * k + 1)).2 (dl F n (2 * k + 1)).1 + (1 + fuel)) + 1 := by
      rw [← cost_dl]; omega
    rw [e2, run_skip (postStep_left (rightDescendant_dl F n k hn hodd hx)),
      ih _ hrl (by omega) _ hr, ← postD_dl, up_right F n k hn hodd hx]
    -- the node itself
    rw [Nat.add_comm 1 fuel, run_emit (postStep_right F _)]
    simp only [List.append_assoc, List.singleton_append]

/-- pre-order twin of `post_run` -/
theorem pre_run (F : Nat) (hodd : F % 2 = 1) (n : Nat) :
    ∀ L, L ≤ n → L ≤ 63 → ∀ k, nodeOf k L < F → ∀ fuel,
      NodeIter.run NodeIter.preStep (cost F L k + fuel) ⟨F, nodeOf k L, .parent⟩
        = preD F L k ++ NodeIter.run NodeIter.preStep fuel (upState F (nodeOf k L)) := by
  induction n with
  | zero =>
    intro L hLn _ k hx fuel
    obtain rfl : L = 0 := by omega
    simp only [cost, preD, if_pos hx]
    rw [Nat.add_comm 1 fuel, run_emit (preStep_leaf (C18.leftChild_leaf k))]
    rfl
  | succ n ih =>
    intro L hLn hL63 k hx fuel
    by_cases hle : L ≤ n
    · exact ih L hle hL63 k hx fuel
    obtain rfl : L = n + 1 := by omega
    have hn : n < 63 := by omega
    have hc : nodeOf (2 * k) n < F := by
      have := two_pow_le_nodeOf_succ k n
      have := two_pow_pos' n
      rw [← nodeOf_sub_half]; omega
    have hr := dl_lt F n (2 * k + 1) (right_nonempty hodd hx).1
    have hrl := dl_level_le F n (2 * k + 1)
    simp only [cost, preD, if_pos hx]
    have e1 : cost F n (2 * k) + cost F n (2 * k + 1) + 3 + fuel
        = (cost F n (2 * k) + (cost F n (2 * k + 1) + 2 + fuel)) + 1 := by omega
    rw [e1, run_emit (preStep_down (C18.leftChild_spec (show n + 1 ≤ 64 by omega))),
      ih n (Nat.le_refl _) (by omega) (2 * k) hc, up_left F n k hn hx]
    have e2 : cost F n (2 * k + 1) + 2 + fuel
        = (cost F (dl F n (2 * k + 1)).2 (dl F n (2 * k + 1)).1 + (1 + fuel)) + 1 := by
      rw [← cost_dl]; omega
    rw [e2, run_skip (preStep_left (rightDescendant_dl F n k hn hodd hx)),
      ih _ hrl (by omega) _ hr, ← preD_dl, up_right F n k hn hodd hx]
    rw [Nat.add_comm 1 fuel, run_skip (preStep_right F _)]
    simp only [List.append_assoc, List.cons_append]

theorem cost_le (F L k : Nat) : cost F L k ≤ 3 * (postD F L k).length := by
  induction L generalizing k with
  | zero => by_cases h : nodeOf k 0 < F <;> simp [cost, postD, h]
  | succ L ih =>
    by_cases h : nodeOf k (L + 1) < F
    · simp only [cost, postD, if_pos h, List.length_append, List.length_singleton]
      have := ih (2 * k); have := ih (2 * k + 1); omega
    · simp only [cost, postD, if_neg h]; exact ih _

theorem cost_le_fuel (F L k : Nat) : cost F L k ≤ NodeIter.fuelFor F := by
  have h1 := cost_le F L k
  have h2 := postD_length F L k
  unfold NodeIter.fuelFor
  omega

/-- the root's `go_up` ends the iteration -/
theorem up_root (F h : Nat) (hh : h ≤ 63) (hF : F < 2 ^ (h + 1)) :
    upState F (nodeOf 0 h) = ⟨F, nodeOf 0 h, .done⟩ :=
  upState_none (rp_root F 64 h hh (by rw [nodeOf_zero_left]; omega))

/-- `PostOrderNodeIter` over a dense tree with root `(0, h)` is the post-order recursion -/
theorem postOrderNodes_eq (F h : Nat) (hodd : F % 2 = 1) (hh : h ≤ 63)
    (hroot : nodeOf 0 h < F) (hF : F < 2 ^ (h + 1)) :
    postOrderNodes (nodeOf 0 h) F = postD F h 0 := by
  unfold postOrderNodes NodeIter.new
  have e : NodeIter.fuelFor F = cost F h 0 + (NodeIter.fuelFor F - cost F h 0) := by
    have := cost_le_fuel F h 0; omega
  rw [e, post_run F hodd h h (Nat.le_refl _) hh 0 hroot, up_root F h hh hF,
    run_stop (postStep_done F _), List.append_nil]

/-- `PreOrderNodeIter` over a dense tree with root `(0, h)` is the pre-order recursion -/
theorem preOrderNodes_eq (F h : Nat) (hodd : F % 2 = 1) (hh : h ≤ 63)
    (hroot : nodeOf 0 h < F) (hF : F < 2 ^ (h + 1)) :
    preOrderNodes (nodeOf 0 h) F = preD F h 0 := by
  unfold preOrderNodes NodeIter.new
  have e : NodeIter.fuelFor F = cost F h 0 + (NodeIter.fuelFor F - cost F h 0) := by
    have := cost_le_fuel F h 0; omega
  rw [e, pre_run F hodd h h (Nat.le_refl _) hh 0 hroot, up_root F h hh hF,
    run_stop (preStep_done F _), List.append_nil]

/-! ## part 3: the shifted tree of a blob -/

theorem nextPow2Aux_spec (fuel i x : Nat) (h : x ≤ 2 ^ (i + fuel)) :
    ∃ j, i ≤ j ∧ nextPow2Aux fuel (2 ^ i) x = 2 ^ j ∧ x ≤ 2 ^ j ∧ (j = i ∨ 2 ^ (j - 1) < x) := by
  induction fuel generalizing i with
  | zero => exact ⟨i, Nat.le_refl _, rfl, h, Or.inl rfl⟩
  | succ f ih =>
    unfold nextPow2Aux
    by_cases hx : x ≤ 2 ^ i
    · rw [if_pos hx]; exact ⟨i, Nat.le_refl _, rfl, hx, Or.inl rfl⟩
    · rw [if_neg hx, ← Nat.pow_succ']
      obtain ⟨j, hj, e, hle, hmin⟩ :=
        ih (i + 1) (by rw [show i + 1 + f = i + (f + 1) by omega]; exact h)
      refine ⟨j, by omega, e, hle, Or.inr ?_⟩
      rcases hmin with rfl | hmin
      · simp only [Nat.add_sub_cancel]; omega
      · exact hmin

/-- `next_power_of_two`: a power of two `≥ x`, minimal -/
theorem nextPow2_spec {x : Nat} (h : x ≤ 2 ^ 63) :
    ∃ j, j ≤ 63 ∧ nextPow2 x = 2 ^ j ∧ x ≤ 2 ^ j ∧ (j = 0 ∨ 2 ^ (j - 1) < x) := by
  have h64 : x ≤ 2 ^ (0 + 64) := by omega
  obtain ⟨j, _, e, hle, hmin⟩ := nextPow2Aux_spec 64 0 x h64
  refine ⟨j, ?_, e, hle, hmin⟩
  rcases hmin with rfl | hmin
  · omega
  · have : 2 ^ (j - 1) < 2 ^ 63 := Nat.lt_of_lt_of_le hmin h
    have := (Nat.pow_lt_pow_iff_right (a := 2) (by decide)).1 this
    omega

/-- the shifted root is node `(0, h)`, it exists, and the whole dense tree lies below it -/
theorem shifted_root (size bs : Nat) (hs : size ≤ 2 ^ 63) :
    ∃ h, h ≤ 63 ∧ (Tree.shifted ⟨size, bs⟩).1 = nodeOf 0 h ∧
      nodeOf 0 h < (Tree.shifted ⟨size, bs⟩).2 ∧ (Tree.shifted ⟨size, bs⟩).2 < 2 ^ (h + 1) := by
  have hdiv := Nat.div_le_self size (2 ^ (10 + bs))
  unfold Tree.shifted
  simp only
  generalize hn :
    divCeil2 (max (size / 2 ^ (10 + bs) + if size % 2 ^ (10 + bs) ≠ 0 then 1 else 0) 1) = n
  have hn1 : 1 ≤ n ∧ n ≤ 2 ^ 63 := by
    rw [← hn]; unfold divCeil2
    split <;> omega
  obtain ⟨j, hj, e, hle, hmin⟩ := nextPow2_spec hn1.2
  refine ⟨j, hj, by rw [e, nodeOf_zero_left], ?_, ?_⟩
  · rw [nodeOf_zero_left]
    have hp := two_pow_pos' j
    rcases hmin with rfl | hmin
    · simp; omega
    · cases j with
      | zero => simp at hmin hle; omega
      | succ i =>
        simp only [Nat.add_sub_cancel] at hmin
        rw [Nat.pow_succ] at *
        omega
  · rw [Nat.pow_succ]; omega

/-- level of the shifted root -/
def rootLevel (t : Tree) : Nat := Node.level t.shifted.1

theorem rootLevel_spec (size bs : Nat) (hs : size ≤ 2 ^ 63) :
    rootLevel ⟨size, bs⟩ ≤ 63 ∧
    (Tree.shifted ⟨size, bs⟩).1 = nodeOf 0 (rootLevel ⟨size, bs⟩) ∧
    nodeOf 0 (rootLevel ⟨size, bs⟩) < (Tree.shifted ⟨size, bs⟩).2 ∧
    (Tree.shifted ⟨size, bs⟩).2 < 2 ^ (rootLevel ⟨size, bs⟩ + 1) := by
  obtain ⟨h, hh, e, hlt, hF⟩ := shifted_root size bs hs
  have : rootLevel ⟨size, bs⟩ = h := by
    unfold rootLevel; rw [e, C18.level_nodeOf (by omega)]
  rw [this]
  exact ⟨hh, e, hlt, hF⟩

/-- `PostOrderNodeIter` over the shifted tree of a blob = the post-order recursion -/
theorem postOrderNodes_shifted (size bs : Nat) (hs : size ≤ 2 ^ 63) :
    postOrderNodes (Tree.shifted ⟨size, bs⟩).1 (Tree.shifted ⟨size, bs⟩).2
      = postD (Tree.shifted ⟨size, bs⟩).2 (rootLevel ⟨size, bs⟩) 0 := by
  obtain ⟨hh, e, hlt, hF⟩ := rootLevel_spec size bs hs
  rw [e]
  exact postOrderNodes_eq _ _ (shifted_props size bs).2.2 hh hlt hF

/-- `PreOrderNodeIter` over the shifted tree of a blob = the pre-order recursion -/
theorem preOrderNodes_shifted (size bs : Nat) (hs : size ≤ 2 ^ 63) :
    preOrderNodes (Tree.shifted ⟨size, bs⟩).1 (Tree.shifted ⟨size, bs⟩).2
      = preD (Tree.shifted ⟨size, bs⟩).2 (rootLevel ⟨size, bs⟩) 0 := by
  obtain ⟨hh, e, hlt, hF⟩ := rootLevel_spec size bs hs
  rw [e]
  exact preOrderNodes_eq _ _ (shifted_props size bs).2.2 hh hlt hF

/-! ### dense lists for different bounds and heights -/

theorem preD_zero (L k : Nat) : preD 0 L k = [] := by
  induction L generalizing k with
  | zero => simp [preD]
  | succ L ih => simp [preD, ih]

theorem postD_zero (L k : Nat) : postD 0 L k = [] := by
  induction L generalizing k with
  | zero => simp [postD]
  | succ L ih => simp [postD, ih]

theorem preD_heights {N a b : Nat} (ha : N < 2 ^ (a + 1)) (hb : N < 2 ^ (b + 1)) :
    preD N a 0 = preD N b 0 := by
  have key : ∀ a j, N < 2 ^ (a + 1) → preD N (a + j) 0 = preD N a 0 := by
    intro a j h
    induction j with
    | zero => rfl
    | succ j ih =>
      have hp : (2 : Nat) ^ (a + 1) ≤ 2 ^ (a + j + 1) :=
        Nat.pow_le_pow_right (by decide) (by omega)
      have : ¬ (nodeOf 0 (a + j + 1) < N) := by rw [nodeOf_zero_left]; omega
      rw [← Nat.add_assoc]
      simp only [preD, if_neg this]
      exact ih
  rcases Nat.le_total a b with h | h
  · obtain ⟨j, rfl⟩ := Nat.exists_eq_add_of_le h
    exact (key a j ha).symm
  · obtain ⟨j, rfl⟩ := Nat.exists_eq_add_of_le h
    exact key b j hb

theorem postD_heights {N a b : Nat} (ha : N < 2 ^ (a + 1)) (hb : N < 2 ^ (b + 1)) :
    postD N a 0 = postD N b 0 := by
  have key : ∀ a j, N < 2 ^ (a + 1) → postD N (a + j) 0 = postD N a 0 := by
    intro a j h
    induction j with
    | zero => rfl
    | succ j ih =>
      have hp : (2 : Nat) ^ (a + 1) ≤ 2 ^ (a + j + 1) :=
        Nat.pow_le_pow_right (by decide) (by omega)
      have : ¬ (nodeOf 0 (a + j + 1) < N) := by rw [nodeOf_zero_left]; omega
      rw [← Nat.add_assoc]
      simp only [postD, if_neg this]
      exact ih
  rcases Nat.le_total a b with h | h
  · obtain ⟨j, rfl⟩ := Nat.exists_eq_add_of_le h
    exact (key a j ha).symm
  · obtain ⟨j, rfl⟩ := Nat.exists_eq_add_of_le h
    exact key b j hb

/-- members of the dense post-order list -/
theorem mem_postD' (N L k x : Nat) (h : x ∈ postD N L k) :
    ∃ k' L', x = nodeOf k' L' ∧ L' ≤ L ∧ x < N ∧ startOf k L ≤ x ∧
      startOf k L ≤ startOf k' L' ∧ endOf k' L' ≤ endOf k L := by
  induction L generalizing k with
  | zero =>
    by_cases h0 : nodeOf k 0 < N
    · simp only [postD, if_pos h0, List.mem_singleton] at h
      refine ⟨k, 0, h, Nat.le_refl _, by omega, ?_, Nat.le_refl _, Nat.le_refl _⟩
      rw [h, nodeOf_zero, startOf_zero]; omega
    · simp [postD, h0] at h
  | succ L ih =>
    have hp := two_pow_pos' (L + 1)
    have e2 : (2 : Nat) ^ (L + 1 + 1) = 2 * 2 ^ (L + 1) := by rw [Nat.pow_succ]; omega
    have hel : endOf (2 * k) L ≤ endOf k (L + 1) := by
      rw [endOf_start, endOf_start, Offsets.startOf_left, e2]; omega
    have her : endOf (2 * k + 1) L ≤ endOf k (L + 1) := by
      rw [endOf_start, endOf_start, Offsets.startOf_right, e2]; omega
    have hsl : startOf (2 * k) L = startOf k (L + 1) := Offsets.startOf_left k L
    have hsr : startOf k (L + 1) ≤ startOf (2 * k + 1) L := by
      rw [Offsets.startOf_right]; omega
    by_cases h0 : nodeOf k (L + 1) < N
    · simp only [postD, if_pos h0, List.mem_append, List.mem_singleton] at h
      rcases h with (h | h) | h
      · obtain ⟨k', L', h1, h2, h3, h4, h5, h6⟩ := ih _ h
        exact ⟨k', L', h1, by omega, h3, by omega, by omega, by omega⟩
      · obtain ⟨k', L', h1, h2, h3, h4, h5, h6⟩ := ih _ h
        exact ⟨k', L', h1, by omega, h3, by omega, by omega, by omega⟩
      · refine ⟨k, L + 1, h, Nat.le_refl _, by omega, ?_, Nat.le_refl _, Nat.le_refl _⟩
        rw [h, nodeOf_start]; omega
    · simp only [postD, if_neg h0] at h
      obtain ⟨k', L', h1, h2, h3, h4, h5, h6⟩ := ih _ h
      exact ⟨k', L', h1, by omega, h3, by omega, by omega, by omega⟩

theorem mem_postD_lt (N L k x : Nat) (h : x ∈ postD N L k) : x < N := by
  obtain ⟨_, _, _, _, h3, _⟩ := mem_postD' N L k x h
  exact h3

/-- lowering the bound filters the dense post-order list -/
theorem postD_filter {N M : Nat} (hNM : N ≤ M) (L k : Nat) :
    postD N L k = (postD M L k).filter (fun x => decide (x < N)) := by
  induction L generalizing k with
  | zero =>
    by_cases h1 : nodeOf k 0 < N
    · have h2 : nodeOf k 0 < M := by omega
      simp [postD, h1, h2]
    · by_cases h2 : nodeOf k 0 < M <;> simp [postD, h1, h2]
  | succ L ih =>
    by_cases h1 : nodeOf k (L + 1) < N
    · have h2 : nodeOf k (L + 1) < M := by omega
      simp only [postD, if_pos h1, if_pos h2, List.filter_append, ← ih]
      simp [h1]
    · by_cases h2 : nodeOf k (L + 1) < M
      · simp only [postD, if_neg h1, if_pos h2, List.filter_append, ← ih]
        have hr : postD N L (2 * k + 1) = [] := by
          rw [ih, List.filter_eq_nil_iff]
          intro x hx
          obtain ⟨_, _, _, _, _, h4, _, _⟩ := mem_postD' _ _ _ _ hx
          rw [Bits.startOf_right, midOf_eq, ← nodeOf_succ] at h4
          simp only [decide_eq_true_eq]; omega
        rw [hr]
        simp [h1]
      · simp only [postD, if_neg h1, if_neg h2, ← ih]

/-- raising an even bound by one appends the new leaf to the dense pre-order list -/
theorem preD_succ {N : Nat} (heven : N % 2 = 0) (L k : Nat) :
    preD (N + 1) L k
      = preD N L k ++ (if startOf k L ≤ N ∧ N < endOf k L then [N] else []) := by
  induction L generalizing k with
  | zero =>
    simp only [preD, nodeOf_zero, startOf_zero, endOf_start, startOf_zero]
    by_cases h1 : 2 * k < N
    · have h2 : 2 * k < N + 1 := by omega
      have h3 : ¬ (2 * k ≤ N ∧ N < 2 * k + 2 ^ (0 + 1)) := by simp; omega
      simp [h1, h2, h3]
    · by_cases h2 : 2 * k < N + 1
      · have h3 : 2 * k ≤ N ∧ N < 2 * k + 2 ^ (0 + 1) := by simp; omega
        simp only [if_neg h1, if_pos h2, if_pos h3, List.nil_append, List.cons.injEq, and_true]
        omega
      · have h3 : ¬ (2 * k ≤ N ∧ N < 2 * k + 2 ^ (0 + 1)) := by simp; omega
        simp [h1, h2, h3]
  | succ L ih =>
    have hp := two_pow_pos' (L + 1)
    have e2 : (2 : Nat) ^ (L + 1 + 1) = 2 * 2 ^ (L + 1) := by rw [Nat.pow_succ]; omega
    have hodd := nodeOf_succ_odd k L
    have hx := nodeOf_start k (L + 1)
    have hsl : startOf (2 * k) L = startOf k (L + 1) := Offsets.startOf_left k L
    have hsr := Offsets.startOf_right k L
    have hel : endOf (2 * k) L = startOf k (L + 1) + 2 ^ (L + 1) := by rw [endOf_start, hsl]
    have her : endOf (2 * k + 1) L = startOf k (L + 1) + 2 * 2 ^ (L + 1) := by
      rw [endOf_start, hsr]; omega
    have he : endOf k (L + 1) = startOf k (L + 1) + 2 * 2 ^ (L + 1) := by rw [endOf_start, e2]
    by_cases h1 : nodeOf k (L + 1) < N
    · have h2 : nodeOf k (L + 1) < N + 1 := by omega
      have hl : ¬ (startOf (2 * k) L ≤ N ∧ N < endOf (2 * k) L) := by rw [hel]; omega
      simp only [preD, if_pos h1, if_pos h2, ih, if_neg hl, List.append_nil, List.cons_append,
        List.append_assoc]
      congr 3
      by_cases hr : startOf (2 * k + 1) L ≤ N ∧ N < endOf (2 * k + 1) L
      · rw [if_pos hr, if_pos (by rw [he]; rw [her] at hr; omega)]
      · rw [if_neg hr, if_neg (by rw [he]; rw [her, hsr] at hr; omega)]
    · have h2 : ¬ (nodeOf k (L + 1) < N + 1) := by omega
      simp only [preD, if_neg h1, if_neg h2, ih]
      congr 1
      by_cases hr : startOf (2 * k) L ≤ N ∧ N < endOf (2 * k) L
      · rw [if_pos hr, if_pos (by rw [he]; rw [hel, hsl] at hr; omega)]
      · rw [if_neg hr, if_neg (by rw [he]; rw [hel, hsl] at hr; omega)]

/-- an even bound `N` outside the subtree: raising it by one changes nothing -/
theorem postD_succ_out {N : Nat} (L k : Nat) (hout : ¬ (startOf k L ≤ N ∧ N < endOf k L)) :
    postD (N + 1) L k = postD N L k := by
  rw [postD_filter (Nat.le_succ N) L k, eq_comm, List.filter_eq_self]
  intro x hx
  obtain ⟨k', L', h1, _, h3, h4, h5, h6⟩ := mem_postD' _ _ _ _ hx
  have h7 := nodeOf_start k' L'
  have h8 := endOf_start k' L'
  have hp := two_pow_pos' L'
  rw [Nat.pow_succ] at h8
  simp only [decide_eq_true_eq]
  omega

/-- an even bound `N` inside the subtree: raising it by one inserts the leaf `N` directly before
the nodes whose interval reaches beyond `N` (its ancestors) -/
theorem postD_succ_in {N : Nat} (heven : N % 2 = 0) (L k : Nat)
    (hs : startOf k L ≤ N) (he : N < endOf k L) :
    ∃ A B, postD (N + 1) L k = A ++ N :: B ∧ postD N L k = A ++ B ∧
      (∀ a ∈ A, ∃ k' L', a = nodeOf k' L' ∧ endOf k' L' ≤ N) ∧
      (∀ b ∈ B, ∃ k' L', b = nodeOf k' L' ∧ N < endOf k' L') := by
  induction L generalizing k with
  | zero =>
    rw [endOf_start, startOf_zero] at he
    rw [startOf_zero] at hs
    have hN : N = 2 * k := by simp only [Nat.zero_add, Nat.pow_one] at he; omega
    refine ⟨[], [], ?_, ?_, by simp, by simp⟩
    · simp [postD, nodeOf_zero, hN]
    · simp [postD, nodeOf_zero, hN]
  | succ L ih =>
    have hp := two_pow_pos' (L + 1)
    have e2 : (2 : Nat) ^ (L + 1 + 1) = 2 * 2 ^ (L + 1) := by rw [Nat.pow_succ]; omega
    have hxo := nodeOf_succ_odd k L
    have hx := nodeOf_start k (L + 1)
    have hsl : startOf (2 * k) L = startOf k (L + 1) := Offsets.startOf_left k L
    have hsr := Offsets.startOf_right k L
    have hel : endOf (2 * k) L = startOf k (L + 1) + 2 ^ (L + 1) := by rw [endOf_start, hsl]
    have her : endOf (2 * k + 1) L = startOf k (L + 1) + 2 * 2 ^ (L + 1) := by
      rw [endOf_start, hsr]; omega
    have hee : endOf k (L + 1) = startOf k (L + 1) + 2 * 2 ^ (L + 1) := by rw [endOf_start, e2]
    by_cases h1 : nodeOf k (L + 1) < N
    · have h2 : nodeOf k (L + 1) < N + 1 := by omega
      obtain ⟨A, B, hA, hB, hAs, hBs⟩ := ih (2 * k + 1) (by omega) (by omega)
      refine ⟨postD N L (2 * k) ++ A, B ++ [nodeOf k (L + 1)], ?_, ?_, ?_, ?_⟩
      · simp only [postD, if_pos h2]
        rw [postD_succ_out L (2 * k) (by omega), hA]
        simp
      · simp only [postD, if_pos h1]
        rw [hB]
        simp
      · intro a ha
        rw [List.mem_append] at ha
        rcases ha with ha | ha
        · obtain ⟨k', L', h3, _, _, _, _, h6⟩ := mem_postD' _ _ _ _ ha
          exact ⟨k', L', h3, by omega⟩
        · exact hAs a ha
      · intro b hb
        rw [List.mem_append, List.mem_singleton] at hb
        rcases hb with hb | hb
        · exact hBs b hb
        · exact ⟨k, L + 1, hb, by omega⟩
    · have h2 : ¬ (nodeOf k (L + 1) < N + 1) := by omega
      obtain ⟨A, B, hA, hB, hAs, hBs⟩ := ih (2 * k) (by omega) (by omega)
      refine ⟨A, B, ?_, ?_, hAs, hBs⟩
      · simp only [postD, if_neg h2]; exact hA
      · simp only [postD, if_neg h1]; exact hB

/-! ### the persisted lists in dense form -/

theorem persistedPre_eq_preD (size bs h : Nat) (hs : size ≤ 2 ^ 63)
    (hh : Tree.blocks ⟨size, bs⟩ - 1 < 2 ^ (h + 1)) :
    persistedPre size bs = (preD (Tree.blocks ⟨size, bs⟩ - 1) h 0).map (up bs) := by
  have hH := log2ceil_spec 64 (nChunks size) (nChunks_le size hs)
  unfold persistedPre
  generalize log2ceil 64 (nChunks size) = H at *
  by_cases hHb : H < bs
  · rw [preNodes_lt _ _ _ _ hHb, blocks_eq_one_of_nChunks_le hH hHb, preD_zero]
    rfl
  · obtain ⟨L, rfl⟩ : ∃ L, H = L + bs := ⟨H - bs, by omega⟩
    have hB := blocks_le_of_nChunks_le hH
    have hBp := blocks_pos size bs
    have hp := two_pow_pos' L
    rw [preNodes_shift, preD_heights (a := L) (b := h) (by rw [Nat.pow_succ]; omega) hh]

theorem persistedPost_eq_postD (size bs h : Nat) (hs : size ≤ 2 ^ 63)
    (hh : Tree.blocks ⟨size, bs⟩ - 1 < 2 ^ (h + 1)) :
    persistedPost size bs = (postD (Tree.blocks ⟨size, bs⟩ - 1) h 0).map (up bs) := by
  have hH := log2ceil_spec 64 (nChunks size) (nChunks_le size hs)
  unfold persistedPost
  generalize log2ceil 64 (nChunks size) = H at *
  by_cases hHb : H < bs
  · rw [postNodes_lt _ _ _ _ hHb, blocks_eq_one_of_nChunks_le hH hHb, postD_zero]
    rfl
  · obtain ⟨L, rfl⟩ : ∃ L, H = L + bs := ⟨H - bs, by omega⟩
    have hB := blocks_le_of_nChunks_le hH
    have hBp := blocks_pos size bs
    have hp := two_pow_pos' L
    rw [postNodes_shift, postD_heights (a := L) (b := h) (by rw [Nat.pow_succ]; omega) hh]

/-- the half-filled last leaf, present iff the number of blocks is odd -/
def halfLeaf (t : Tree) : List Nat :=
  if t.blocks % 2 = 1 then [Node.subBs (t.blocks - 1) t.bs] else []

/-- on the ids of the shifted tree `subtract_block_size` is `up` -/
theorem subBs_up_of_lt (size bs : Nat) (hs : size ≤ 2 ^ 63) (hbs : bs ≤ 10) {x : Nat}
    (hx : x < (Tree.shifted ⟨size, bs⟩).2) : Node.subBs x bs = up bs x := by
  obtain ⟨_, hFN, _⟩ := shifted_props size bs
  have hm := blocks_mul_le size bs hs hbs
  apply subBs_eq_up
  have : (x + 1) * 2 ^ bs ≤ (Tree.blocks ⟨size, bs⟩ - 1 + 1) * 2 ^ bs :=
    Nat.mul_le_mul_right _ (by omega)
  omega

theorem up_inj {bs a b : Nat} (h : up bs a = up bs b) : a = b := by
  have h1 := up_succ bs a
  have h2 := up_succ bs b
  rw [h] at h1
  have := Nat.eq_of_mul_eq_mul_right (two_pow_pos' bs) (h1.symm.trans h2)
  omega

/-- `BaoTree::pre_order_nodes_iter` = the persisted nodes in pre-order, then the half leaf -/
theorem preIter_eq (size bs : Nat) (hs : size ≤ 2 ^ 63) (hbs : bs ≤ 10) :
    Tree.preOrderNodesIter ⟨size, bs⟩ = persistedPre size bs ++ halfLeaf ⟨size, bs⟩ := by
  obtain ⟨hh, e, hlt, hF⟩ := rootLevel_spec size bs hs
  obtain ⟨hNF, hFN, hodd⟩ := shifted_props size bs
  have hBp := blocks_pos size bs
  have hmap : (preD (Tree.shifted ⟨size, bs⟩).2 (rootLevel ⟨size, bs⟩) 0).map (Node.subBs · bs)
      = (preD (Tree.shifted ⟨size, bs⟩).2 (rootLevel ⟨size, bs⟩) 0).map (up bs) := by
    apply List.map_congr_left
    intro x hx
    exact subBs_up_of_lt size bs hs hbs (mem_preD_lt _ _ _ _ hx)
  unfold Tree.preOrderNodesIter
  simp only
  rw [preOrderNodes_shifted size bs hs, hmap,
    persistedPre_eq_preD size bs (rootLevel ⟨size, bs⟩) hs (by omega)]
  unfold halfLeaf
  simp only
  generalize hN : Tree.blocks ⟨size, bs⟩ - 1 = N at *
  generalize (Tree.shifted ⟨size, bs⟩).2 = F at *
  by_cases hev : N % 2 = 0
  · have hFe : F = N + 1 := by omega
    have hb : Tree.blocks ⟨size, bs⟩ % 2 = 1 := by omega
    subst hFe
    rw [preD_succ hev, if_pos hb, subBs_eq_up (by rw [← hN]; exact blocks_mul_le size bs hs hbs)]
    have hr : startOf 0 (rootLevel ⟨size, bs⟩) ≤ N ∧ N < endOf 0 (rootLevel ⟨size, bs⟩) := by
      simp only [startOf, endOf, Nat.zero_mul, Nat.zero_add, Nat.one_mul]; omega
    rw [if_pos hr, List.map_append]
    rfl
  · have hFe : F = N := by omega
    have hb : ¬ (Tree.blocks ⟨size, bs⟩ % 2 = 1) := by omega
    subst hFe
    rw [if_neg hb, List.append_nil]

/-- `BaoTree::post_order_nodes_iter` without the half leaf = the persisted nodes in post-order -/
theorem postIter_filter (size bs : Nat) (hs : size ≤ 2 ^ 63) (hbs : bs ≤ 10) :
    (Tree.postOrderNodesIter ⟨size, bs⟩).filter (fun x => !(halfLeaf ⟨size, bs⟩).contains x)
      = persistedPost size bs := by
  obtain ⟨hh, e, hlt, hF⟩ := rootLevel_spec size bs hs
  obtain ⟨hNF, hFN, hodd⟩ := shifted_props size bs
  have hBp := blocks_pos size bs
  have hmap : (postD (Tree.shifted ⟨size, bs⟩).2 (rootLevel ⟨size, bs⟩) 0).map (Node.subBs · bs)
      = (postD (Tree.shifted ⟨size, bs⟩).2 (rootLevel ⟨size, bs⟩) 0).map (up bs) := by
    apply List.map_congr_left
    intro x hx
    exact subBs_up_of_lt size bs hs hbs (mem_postD_lt _ _ _ _ hx)
  unfold Tree.postOrderNodesIter
  simp only
  rw [postOrderNodes_shifted size bs hs, hmap,
    persistedPost_eq_postD size bs (rootLevel ⟨size, bs⟩) hs (by omega),
    postD_filter hNF (rootLevel ⟨size, bs⟩) 0, List.filter_map]
  congr 1
  apply List.filter_congr
  intro x hx
  have hxF := mem_postD_lt _ _ _ _ hx
  unfold halfLeaf
  simp only
  by_cases hb : Tree.blocks ⟨size, bs⟩ % 2 = 1
  · rw [if_pos hb, subBs_eq_up (blocks_mul_le size bs hs hbs)]
    by_cases hxN : x = Tree.blocks ⟨size, bs⟩ - 1
    · subst hxN; simp
    · have hne : up bs x ≠ up bs (Tree.blocks ⟨size, bs⟩ - 1) := fun h => hxN (up_inj h)
      have hlt : x < Tree.blocks ⟨size, bs⟩ - 1 := by omega
      simp [hne, hlt]
  · rw [if_neg hb]
    have hlt : x < Tree.blocks ⟨size, bs⟩ - 1 := by omega
    simp [hlt]

/-- exact position of the half leaf in `BaoTree::post_order_nodes_iter` (odd number of blocks):
it comes after the stable persisted nodes and before the unstable ones (its ancestors) -/
theorem postIter_exact (size bs : Nat) (hs : size ≤ 2 ^ 63) (hbs : bs ≤ 10)
    (hb : Tree.blocks ⟨size, bs⟩ % 2 = 1) :
    ∃ A B, Tree.postOrderNodesIter ⟨size, bs⟩
        = A ++ Node.subBs (Tree.blocks ⟨size, bs⟩ - 1) bs :: B ∧
      persistedPost size bs = A ++ B ∧
      (∀ a ∈ A, isStable ⟨size, bs⟩ a = true) ∧ (∀ b ∈ B, isStable ⟨size, bs⟩ b = false) := by
  obtain ⟨hh, e, hlt, hF⟩ := rootLevel_spec size bs hs
  obtain ⟨hNF, hFN, hodd⟩ := shifted_props size bs
  obtain ⟨hfb1, hfb2⟩ := full_blocks size bs
  have hBp := blocks_pos size bs
  have hmap : (postD (Tree.shifted ⟨size, bs⟩).2 (rootLevel ⟨size, bs⟩) 0).map (Node.subBs · bs)
      = (postD (Tree.shifted ⟨size, bs⟩).2 (rootLevel ⟨size, bs⟩) 0).map (up bs) := by
    apply List.map_congr_left
    intro x hx
    exact subBs_up_of_lt size bs hs hbs (mem_postD_lt _ _ _ _ hx)
  unfold Tree.postOrderNodesIter
  simp only
  rw [postOrderNodes_shifted size bs hs, hmap,
    persistedPost_eq_postD size bs (rootLevel ⟨size, bs⟩) hs (by omega),
    subBs_eq_up (blocks_mul_le size bs hs hbs)]
  have hFe : (Tree.shifted ⟨size, bs⟩).2 = Tree.blocks ⟨size, bs⟩ - 1 + 1 := by omega
  rw [hFe] at hF ⊢
  have hmemN : ∀ x ∈ postD (Tree.blocks ⟨size, bs⟩ - 1) (rootLevel ⟨size, bs⟩) 0,
      x < Tree.blocks ⟨size, bs⟩ - 1 := fun x hx => mem_postD_lt _ _ _ _ hx
  generalize hN : Tree.blocks ⟨size, bs⟩ - 1 = N at *
  obtain ⟨A, B, hA, hB, hAs, hBs⟩ := postD_succ_in (N := N) (by omega) (rootLevel ⟨size, bs⟩) 0
    (by simp [startOf]) (by simp only [endOf, Nat.zero_add, Nat.one_mul]; omega)
  refine ⟨A.map (up bs), B.map (up bs), by rw [hA]; simp, by rw [hB]; simp, ?_, ?_⟩
  · intro a ha
    obtain ⟨x, hx, rfl⟩ := List.mem_map.mp ha
    obtain ⟨k', L', rfl, h2⟩ := hAs x hx
    have hxN := hmemN _ (by rw [hB]; exact List.mem_append_left _ hx)
    rw [isStable_shift hs (by rw [hN]; exact hxN)]
    omega
  · intro b hb'
    obtain ⟨x, hx, rfl⟩ := List.mem_map.mp hb'
    obtain ⟨k', L', rfl, h2⟩ := hBs x hx
    have hxN := hmemN _ (by rw [hB]; exact List.mem_append_right _ hx)
    have hne : ¬ (isStable ⟨size, bs⟩ (up bs (nodeOf k' L')) = true) := by
      rw [isStable_shift hs (by rw [hN]; exact hxN), endOf_eq]
      rw [endOf_eq] at h2
      omega
    simpa using hne

/-! ### offsets along the iterators -/

theorem filterMap_filter_of_none {α β : Type} (f : α → Option β) (p : α → Bool) (l : List α)
    (h : ∀ x ∈ l, p x = false → f x = none) : l.filterMap f = (l.filter p).filterMap f := by
  induction l with
  | nil => rfl
  | cons a l ih =>
    have ih' := ih (fun x hx => h x (List.mem_cons_of_mem _ hx))
    cases hp : p a with
    | true => simp only [List.filter_cons, hp, if_true, List.filterMap_cons, ih']
    | false =>
      have := h a (List.mem_cons_self) hp
      simp [hp, this, ih']

theorem filterMap_of_map_some {α β : Type} (f : α → Option β) (l : List α) (r : List β)
    (h : l.map f = r.map some) : l.filterMap f = r := by
  have : l.filterMap f = (l.map f).filterMap id := by rw [List.filterMap_map]; rfl
  rw [this, h, List.filterMap_map]
  simp

/-- the pre-order iterator visits the persisted nodes in the order of their pre-order offsets
`0, 1, …, blocks-2`, then the half leaf (which has no offset) -/
theorem preIter_offsets (size bs : Nat) (hs : size ≤ 2 ^ 63) (hbs : bs ≤ 10) :
    (Tree.preOrderNodesIter ⟨size, bs⟩).map (Tree.preOrderOffset ⟨size, bs⟩)
      = (List.range' 0 (Tree.blocks ⟨size, bs⟩ - 1)).map some
        ++ (halfLeaf ⟨size, bs⟩).map (fun _ => none) := by
  obtain ⟨hlen, hmap⟩ := persistedPre_offsets size bs hs
  rw [preIter_eq size bs hs hbs, List.map_append, hmap, hlen]
  congr 1
  unfold halfLeaf
  simp only
  split
  · rename_i hb
    simp [pre_half_leaf size bs hs hbs hb]
  · rfl

/-- the post-order iterator visits the persisted nodes in the order of their post-order offsets
`0, 1, …, blocks-2` (the half leaf, which has no offset, is visited in between) -/
theorem postIter_offsets (size bs : Nat) (hs : size ≤ 2 ^ 63) (hbs : bs ≤ 10) :
    (Tree.postOrderNodesIter ⟨size, bs⟩).filterMap
        (fun x => (Tree.postOrderOffset ⟨size, bs⟩ x).map Tree.PostOffset.value)
      = List.range' 0 (Tree.blocks ⟨size, bs⟩ - 1) := by
  obtain ⟨hlen, hmap⟩ := persistedPost_offsets size bs hs
  rw [filterMap_filter_of_none _ (fun x => !(halfLeaf ⟨size, bs⟩).contains x),
    postIter_filter size bs hs hbs, ← hlen]
  · exact filterMap_of_map_some _ _ _ hmap
  · intro x _ hx
    unfold halfLeaf at hx
    simp only at hx
    split at hx
    · rename_i hb
      simp only [Bool.not_eq_false', List.contains_cons, List.contains_nil, Bool.or_false,
        beq_iff_eq] at hx
      rw [hx, post_half_leaf size bs hs hbs hb]
      rfl
    · simp at hx

/-! ## part 4: the post-order chunk plan -/

/-- the leaf item of block (chunk group) `b` -/
def leafItem (size bs b : Nat) (isRoot : Bool) : Chunk :=
  .leaf (b * 2 ^ bs) (min (2 ^ bs * 1024) (size - b * 2 ^ bs * 1024)) isRoot []

/-- facts about `(F, B) = (shifted.2, blocks)` used below -/
structure Geo (size bs F : Nat) : Prop where
  odd : F % 2 = 1
  le : F ≤ Tree.blocks ⟨size, bs⟩
  ge : Tree.blocks ⟨size, bs⟩ ≤ F + 1
  fits : ∀ x, x < F → Node.subBs x bs = up bs x
  hbs : bs ≤ 64

theorem shifted_geo (size bs : Nat) (hs : size ≤ 2 ^ 63) (hbs : bs ≤ 10) :
    Geo size bs (Tree.shifted ⟨size, bs⟩).2 := by
  obtain ⟨h1, h2, h3⟩ := shifted_props size bs
  have hb := blocks_pos size bs
  exact ⟨h3, by omega, by omega, fun x hx => subBs_up_of_lt size bs hs hbs hx, by omega⟩

/-- a shifted inner node yields its parent item -/
theorem items_inner {size bs F : Nat} (g : Geo size bs F) (root : Nat) {sh : Nat}
    (hodd : sh % 2 = 1) (hsh : sh < F) :
    Tree.postChunksOfNode ⟨size, bs⟩ root sh = [.parent (up bs sh) (sh == root) true true []] := by
  have : Node.isLeaf sh = false := by simp [Node.isLeaf, hodd]
  simp only [Tree.postChunksOfNode, this, g.fits sh hsh]
  rfl

theorem chunkRange_up (bs k : Nat) (hbs : bs ≤ 64) :
    Node.chunkRange (up bs (2 * k)) = (2 * (k * 2 ^ bs), 2 * (k * 2 ^ bs) + 2 * 2 ^ bs) ∧
    Node.mid (up bs (2 * k)) = 2 * (k * 2 ^ bs) + 2 ^ bs := by
  have e : up bs (2 * k) = nodeOf k bs := by
    have := up_nodeOf bs k 0
    rwa [nodeOf_zero, Nat.zero_add] at this
  rw [e, C18.chunkRange_spec hbs, C18.mid_spec, startOf_eq, endOf_eq, midOf_eq]
  exact ⟨rfl, rfl⟩

/-- a shifted leaf with two blocks yields both leaves and the parent -/
theorem items_full {size bs F : Nat} (g : Geo size bs F) (root : Nat) {k : Nat}
    (h : 2 * k + 1 < Tree.blocks ⟨size, bs⟩) :
    Tree.postChunksOfNode ⟨size, bs⟩ root (2 * k)
      = [leafItem size bs (2 * k) false, leafItem size bs (2 * k + 1) false,
         .parent (up bs (2 * k)) (2 * k == root) true true []] := by
  have hsh : 2 * k < F := by have := g.ge; omega
  have hl : Node.isLeaf (2 * k) = true := by simp [Node.isLeaf]
  obtain ⟨hcr, hmid⟩ := chunkRange_up bs k g.hbs
  have hb := (lt_blocks_iff size bs (2 * k + 1) (by omega)).mp h
  rw [Nat.pow_add, ← Nat.mul_assoc, odd_mul] at hb
  have hp := two_pow_pos' bs
  simp only [Tree.postChunksOfNode, hl, g.fits _ hsh, Tree.leafByteRanges3, hcr, hmid, toBytes,
    Tree.chunkGroupChunks, leafItem, Nat.mul_assoc 2 k, odd_mul]
  generalize k * 2 ^ bs = q at *
  generalize 2 ^ bs = p at *
  have e10 : (2 : Nat) ^ 10 = 1024 := by decide
  rw [e10] at hb
  have hne : (min ((2 * q + p) * 1024) size == min ((2 * q + 2 * p) * 1024) size) = false := by
    rw [beq_eq_false_iff_ne]; omega
  simp only [hne, Bool.not_false, if_true, Bool.and_false]
  refine List.cons_eq_cons.mpr ⟨?_, List.cons_eq_cons.mpr ⟨?_, rfl⟩⟩
  · rw [Chunk.leaf.injEq]; refine ⟨rfl, ?_, rfl, rfl⟩; omega
  · rw [Chunk.leaf.injEq]; refine ⟨rfl, ?_, rfl, rfl⟩; omega

/-- the half leaf yields one leaf item -/
theorem items_half {size bs F : Nat} (g : Geo size bs F) (root : Nat) {k : Nat}
    (hsh : 2 * k < F) (h : Tree.blocks ⟨size, bs⟩ ≤ 2 * k + 1) :
    Tree.postChunksOfNode ⟨size, bs⟩ root (2 * k) = [leafItem size bs (2 * k) (2 * k == root)] := by
  have hl : Node.isLeaf (2 * k) = true := by simp [Node.isLeaf]
  obtain ⟨hcr, hmid⟩ := chunkRange_up bs k g.hbs
  have hb := mt (lt_blocks_iff size bs (2 * k + 1) (by omega)).mpr (by omega)
  rw [Nat.pow_add, ← Nat.mul_assoc, odd_mul] at hb
  have hp := two_pow_pos' bs
  simp only [Tree.postChunksOfNode, hl, g.fits _ hsh, Tree.leafByteRanges3, hcr, hmid, toBytes,
    Tree.chunkGroupChunks, leafItem, Nat.mul_assoc 2 k]
  generalize k * 2 ^ bs = q at *
  generalize 2 ^ bs = p at *
  have e10 : (2 : Nat) ^ 10 = 1024 := by decide
  rw [e10] at hb
  have hne : (min ((2 * q + p) * 1024) size == min ((2 * q + 2 * p) * 1024) size) = true := by
    rw [beq_iff_eq]; omega
  simp only [hne, Bool.not_true, Bool.and_true]
  refine List.cons_eq_cons.mpr ⟨?_, rfl⟩
  rw [Chunk.leaf.injEq]; refine ⟨rfl, ?_, rfl, rfl⟩; omega

/-! ### views of a plan -/

/-- `(start chunk, size in bytes)` of the leaf items, in order -/
def leavesOf (l : List Chunk) : List (Nat × Nat) :=
  l.filterMap fun c => match c with
    | .leaf s z _ _ => some (s, z)
    | .parent .. => none

/-- nodes of the parent items, in order -/
def parentsOf (l : List Chunk) : List Nat :=
  l.filterMap fun c => match c with
    | .parent n _ _ _ _ => some n
    | .leaf .. => none

/-- the `is_root` flag of an item -/
def rootFlag : Chunk → Bool
  | .parent _ r _ _ _ => r
  | .leaf _ _ r _ => r

/-- the hash stack height: a leaf pushes, a parent pops two and pushes one -/
def stackStep : Option Nat → Chunk → Option Nat
  | some h, .leaf .. => some (h + 1)
  | some h, .parent .. => if 2 ≤ h then some (h - 1) else none
  | none, _ => none

/-- stack height after running over a plan from height `h`; `none` = underflow -/
def stackRun (h : Nat) (plan : List Chunk) : Option Nat := plan.foldl stackStep (some h)

/-- `(start chunk, size)` of block `b` -/
def leafInfo (size bs b : Nat) : Nat × Nat :=
  (b * 2 ^ bs, min (2 ^ bs * 1024) (size - b * 2 ^ bs * 1024))

theorem leavesOf_append (a b : List Chunk) : leavesOf (a ++ b) = leavesOf a ++ leavesOf b :=
  List.filterMap_append

theorem parentsOf_append (a b : List Chunk) : parentsOf (a ++ b) = parentsOf a ++ parentsOf b :=
  List.filterMap_append

theorem stackRun_append (h : Nat) (a b : List Chunk) :
    stackRun h (a ++ b) = (stackRun h a).bind fun h' => stackRun h' b := by
  unfold stackRun
  rw [List.foldl_append]
  cases List.foldl stackStep (some h) a with
  | some h' => rfl
  | none =>
    simp only [Option.bind_none]
    induction b with
    | nil => rfl
    | cons c b ih => exact ih

/-- the plan of the dense subtree `(k, L)`: the items of its nodes in post-order -/
def planD (size bs root F L k : Nat) : List Chunk :=
  (postD F L k).flatMap (Tree.postChunksOfNode ⟨size, bs⟩ root)

section plan
variable {size bs F : Nat} (g : Geo size bs F) (root : Nat)
include g

omit g in
theorem planD_zero_out {k : Nat} (h : ¬ (2 * k < F)) : planD size bs root F 0 k = [] := by
  simp [planD, postD, nodeOf_zero, h]

theorem planD_zero_full {k : Nat} (h : 2 * k + 1 < Tree.blocks ⟨size, bs⟩) :
    planD size bs root F 0 k
      = [leafItem size bs (2 * k) false, leafItem size bs (2 * k + 1) false,
         .parent (up bs (2 * k)) (2 * k == root) true true []] := by
  have hsh : 2 * k < F := by have := g.ge; omega
  simp only [planD, postD, nodeOf_zero, if_pos hsh, List.flatMap_cons, List.flatMap_nil,
    List.append_nil, items_full g root h]

theorem planD_zero_half {k : Nat} (hsh : 2 * k < F) (h : Tree.blocks ⟨size, bs⟩ ≤ 2 * k + 1) :
    planD size bs root F 0 k = [leafItem size bs (2 * k) (2 * k == root)] := by
  simp only [planD, postD, nodeOf_zero, if_pos hsh, List.flatMap_cons, List.flatMap_nil,
    List.append_nil, items_half g root hsh h]

theorem planD_succ_pos {L k : Nat} (h : nodeOf k (L + 1) < F) :
    planD size bs root F (L + 1) k
      = planD size bs root F L (2 * k) ++ planD size bs root F L (2 * k + 1) ++
        [.parent (up bs (nodeOf k (L + 1))) (nodeOf k (L + 1) == root) true true []] := by
  simp only [planD, postD, if_pos h, List.flatMap_append, List.flatMap_cons, List.flatMap_nil,
    List.append_nil, items_inner g root (nodeOf_succ_odd k L) h]

omit g in
theorem planD_succ_neg {L k : Nat} (h : ¬ (nodeOf k (L + 1) < F)) :
    planD size bs root F (L + 1) k = planD size bs root F L (2 * k) := by
  simp only [planD, postD, if_neg h]

/-- the leaves of the plan of a subtree are its blocks, in order -/
theorem leaves_planD (L k : Nat) :
    leavesOf (planD size bs root F L k)
      = (List.range' (startOf k L) (min (endOf k L) (Tree.blocks ⟨size, bs⟩) - startOf k L)).map
          (leafInfo size bs) := by
  have hodd := g.odd; have hle := g.le; have hge := g.ge
  induction L generalizing k with
  | zero =>
    rw [endOf_start, startOf_zero]
    by_cases hsh : 2 * k < F
    · by_cases h : 2 * k + 1 < Tree.blocks ⟨size, bs⟩
      · rw [planD_zero_full g root h,
          show min (2 * k + 2 ^ (0 + 1)) (Tree.blocks ⟨size, bs⟩) - 2 * k = 2 by
            simp only [Nat.zero_add, Nat.pow_one]; omega]
        rfl
      · rw [planD_zero_half g root hsh (by omega),
          show min (2 * k + 2 ^ (0 + 1)) (Tree.blocks ⟨size, bs⟩) - 2 * k = 1 by
            simp only [Nat.zero_add, Nat.pow_one]; omega]
        rfl
    · rw [planD_zero_out root hsh,
        show min (2 * k + 2 ^ (0 + 1)) (Tree.blocks ⟨size, bs⟩) - 2 * k = 0 by
          simp only [Nat.zero_add, Nat.pow_one]; omega]
      rfl
  | succ L ih =>
    have hp := two_pow_pos' (L + 1)
    have e2 : (2 : Nat) ^ (L + 1 + 1) = 2 * 2 ^ (L + 1) := by rw [Nat.pow_succ]; omega
    have hxo := nodeOf_succ_odd k L
    have hx := nodeOf_start k (L + 1)
    have hsl : startOf (2 * k) L = startOf k (L + 1) := Offsets.startOf_left k L
    have hsr := Offsets.startOf_right k L
    have hel : endOf (2 * k) L = startOf k (L + 1) + 2 ^ (L + 1) := by rw [endOf_start, hsl]
    have her : endOf (2 * k + 1) L = startOf k (L + 1) + 2 * 2 ^ (L + 1) := by
      rw [endOf_start, hsr]; omega
    have he : endOf k (L + 1) = startOf k (L + 1) + 2 * 2 ^ (L + 1) := by rw [endOf_start, e2]
    by_cases h : nodeOf k (L + 1) < F
    · rw [planD_succ_pos g root h, leavesOf_append, leavesOf_append, ih, ih, hsl, hsr, hel, her, he]
      have e1 : min (startOf k (L + 1) + 2 ^ (L + 1)) (Tree.blocks ⟨size, bs⟩) - startOf k (L + 1)
          = 2 ^ (L + 1) := by omega
      have e3 : min (startOf k (L + 1) + 2 * 2 ^ (L + 1)) (Tree.blocks ⟨size, bs⟩)
            - startOf k (L + 1)
          = 2 ^ (L + 1) + (min (startOf k (L + 1) + 2 * 2 ^ (L + 1)) (Tree.blocks ⟨size, bs⟩)
            - (startOf k (L + 1) + 2 ^ (L + 1))) := by omega
      rw [e1, e3, ← List.range'_append_1, List.map_append]
      simp [leavesOf]
    · rw [planD_succ_neg root h, ih, hsl, hel, he]
      congr 2
      omega

/-- the parent items of the plan of a subtree are its persisted nodes, in post-order -/
theorem parents_planD (L k : Nat) :
    parentsOf (planD size bs root F L k)
      = (postD (Tree.blocks ⟨size, bs⟩ - 1) L k).map (up bs) := by
  have hodd := g.odd; have hle := g.le; have hge := g.ge
  induction L generalizing k with
  | zero =>
    by_cases hsh : 2 * k < F
    · by_cases h : 2 * k + 1 < Tree.blocks ⟨size, bs⟩
      · have : 2 * k < Tree.blocks ⟨size, bs⟩ - 1 := by omega
        rw [planD_zero_full g root h]
        simp [postD, nodeOf_zero, this, parentsOf, leafItem]
      · have : ¬ (2 * k < Tree.blocks ⟨size, bs⟩ - 1) := by omega
        rw [planD_zero_half g root hsh (by omega)]
        simp [postD, nodeOf_zero, this, parentsOf, leafItem]
    · have : ¬ (2 * k < Tree.blocks ⟨size, bs⟩ - 1) := by omega
      rw [planD_zero_out root hsh]
      simp [postD, nodeOf_zero, this, parentsOf]
  | succ L ih =>
    have hxo := nodeOf_succ_odd k L
    by_cases h : nodeOf k (L + 1) < F
    · have : nodeOf k (L + 1) < Tree.blocks ⟨size, bs⟩ - 1 := by omega
      rw [planD_succ_pos g root h, parentsOf_append, parentsOf_append, ih, ih]
      simp [postD, this, parentsOf]
    · have : ¬ (nodeOf k (L + 1) < Tree.blocks ⟨size, bs⟩ - 1) := by omega
      rw [planD_succ_neg root h, ih]
      simp only [postD, if_neg this]

/-- running the hash stack over the plan of a non-empty subtree pushes exactly one entry -/
theorem stack_planD (L k : Nat) (hne : startOf k L < F) (s : Nat) :
    stackRun s (planD size bs root F L k) = some (s + 1) := by
  have hodd := g.odd; have hle := g.le; have hge := g.ge
  induction L generalizing k s with
  | zero =>
    rw [startOf_zero] at hne
    by_cases h : 2 * k + 1 < Tree.blocks ⟨size, bs⟩
    · rw [planD_zero_full g root h]
      simp [stackRun, stackStep, leafItem]
    · rw [planD_zero_half g root hne (by omega)]
      simp [stackRun, stackStep, leafItem]
  | succ L ih =>
    by_cases h : nodeOf k (L + 1) < F
    · have hl : startOf (2 * k) L < F := by
        rw [Offsets.startOf_left]
        have := nodeOf_start k (L + 1); have := two_pow_pos' (L + 1); omega
      rw [planD_succ_pos g root h, stackRun_append, stackRun_append, ih _ hl, Option.bind_some,
        ih _ (right_nonempty hodd h).1, Option.bind_some]
      simp [stackRun, stackStep]
    · rw [planD_succ_neg root h]
      exact ih _ (by rw [Offsets.startOf_left]; exact hne) s

/-- items of nodes other than the root do not carry the root flag -/
theorem flags_planD (L k : Nat) (hroot : ∀ x ∈ postD F L k, x ≠ root) :
    ∀ c ∈ planD size bs root F L k, rootFlag c = false := by
  have hle := g.le; have hge := g.ge
  intro c hc
  simp only [planD, List.mem_flatMap] at hc
  obtain ⟨x, hx, hc⟩ := hc
  have hxr : (x == root) = false := by rw [beq_eq_false_iff_ne]; exact hroot x hx
  have hxF := mem_postD_lt _ _ _ _ hx
  rcases Nat.mod_two_eq_zero_or_one x with hev | hod
  · obtain ⟨k', rfl⟩ : ∃ k', x = 2 * k' := ⟨x / 2, by omega⟩
    by_cases h : 2 * k' + 1 < Tree.blocks ⟨size, bs⟩
    · rw [items_full g root h, hxr] at hc
      simp only [List.mem_cons, List.not_mem_nil, or_false] at hc
      rcases hc with rfl | rfl | rfl <;> rfl
    · rw [items_half g root hxF (by omega), hxr] at hc
      simp only [List.mem_cons, List.not_mem_nil, or_false] at hc
      subst hc; rfl
  · rw [items_inner g root hod hxF, hxr] at hc
    simp only [List.mem_cons, List.not_mem_nil, or_false] at hc
    subst hc; rfl

/-- the whole plan: only its last item carries the root flag -/
theorem root_planD (h : Nat) (hroot : nodeOf 0 h < F) :
    ∃ init last, planD size bs (nodeOf 0 h) F h 0 = init ++ [last] ∧ rootFlag last = true ∧
      ∀ c ∈ init, rootFlag c = false := by
  have hle := g.le; have hge := g.ge
  cases h with
  | zero =>
    rw [nodeOf_zero] at hroot ⊢
    by_cases hb : 2 * 0 + 1 < Tree.blocks ⟨size, bs⟩
    · refine ⟨[leafItem size bs (2 * 0) false, leafItem size bs (2 * 0 + 1) false], _,
        by rw [planD_zero_full g _ hb]; rfl, by simp [rootFlag], ?_⟩
      intro c hc
      simp only [List.mem_cons, List.not_mem_nil, or_false] at hc
      rcases hc with rfl | rfl <;> rfl
    · exact ⟨[], _, by rw [planD_zero_half g _ hroot (by omega)]; rfl, by simp [rootFlag, leafItem],
        by simp⟩
  | succ h =>
    have hne : ∀ k', ∀ x ∈ postD F h k', x ≠ nodeOf 0 (h + 1) := by
      intro k' x hx hxe
      obtain ⟨k'', L', h1, h2, _⟩ := mem_postD' _ _ _ _ hx
      rw [h1] at hxe
      have := (C18.nodeOf_inj hxe).2
      omega
    refine ⟨_, _, planD_succ_pos g _ hroot, by simp [rootFlag], ?_⟩
    intro c hc
    rw [List.mem_append] at hc
    rcases hc with hc | hc
    · exact flags_planD g _ h _ (hne _) c hc
    · exact flags_planD g _ h _ (hne _) c hc

/-- the plan as an explicit recursion: subtree = left plan ++ right plan ++ [parent] -/
def planRec (size bs root F : Nat) : Nat → Nat → List Chunk
  | 0, k =>
    if 2 * k < F then
      if 2 * k + 1 < Tree.blocks ⟨size, bs⟩ then
        [leafItem size bs (2 * k) false, leafItem size bs (2 * k + 1) false,
         .parent (nodeOf k bs) (2 * k == root) true true []]
      else [leafItem size bs (2 * k) (2 * k == root)]
    else []
  | L + 1, k =>
    if nodeOf k (L + 1) < F then
      planRec size bs root F L (2 * k) ++ planRec size bs root F L (2 * k + 1) ++
        [.parent (nodeOf k (L + 1 + bs)) (nodeOf k (L + 1) == root) true true []]
    else planRec size bs root F L (2 * k)

theorem planD_eq_planRec (L k : Nat) :
    planD size bs root F L k = planRec size bs root F L k := by
  have hle := g.le; have hge := g.ge
  induction L generalizing k with
  | zero =>
    have e : up bs (2 * k) = nodeOf k bs := by
      have := up_nodeOf bs k 0
      rwa [nodeOf_zero, Nat.zero_add] at this
    by_cases hsh : 2 * k < F
    · by_cases h : 2 * k + 1 < Tree.blocks ⟨size, bs⟩
      · rw [planD_zero_full g root h, e]; simp only [planRec, if_pos hsh, if_pos h]
      · rw [planD_zero_half g root hsh (by omega)]; simp only [planRec, if_pos hsh, if_neg h]
    · rw [planD_zero_out root hsh]; simp only [planRec, if_neg hsh]
  | succ L ih =>
    by_cases h : nodeOf k (L + 1) < F
    · rw [planD_succ_pos g root h, ih, ih, up_nodeOf]; simp only [planRec, if_pos h]
    · rw [planD_succ_neg root h, ih]; simp only [planRec, if_neg h]

end plan

/-! ### the plan of a blob -/

theorem postOrderChunks_eq (size bs : Nat) (hs : size ≤ 2 ^ 63) :
    Tree.postOrderChunks ⟨size, bs⟩
      = planD size bs (Tree.shifted ⟨size, bs⟩).1 (Tree.shifted ⟨size, bs⟩).2
          (rootLevel ⟨size, bs⟩) 0 := by
  unfold Tree.postOrderChunks planD
  rw [postOrderNodes_shifted size bs hs]

theorem leaves_plan (size bs : Nat) (hs : size ≤ 2 ^ 63) (hbs : bs ≤ 10) :
    leavesOf (Tree.postOrderChunks ⟨size, bs⟩)
      = (List.range (Tree.blocks ⟨size, bs⟩)).map (leafInfo size bs) := by
  obtain ⟨_, _, _, hF⟩ := rootLevel_spec size bs hs
  have g := shifted_geo size bs hs hbs
  have hge := g.ge
  have hs0 : startOf 0 (rootLevel ⟨size, bs⟩) = 0 := by simp [startOf]
  have he0 : endOf 0 (rootLevel ⟨size, bs⟩) = 2 ^ (rootLevel ⟨size, bs⟩ + 1) := by simp [endOf]
  rw [postOrderChunks_eq size bs hs, leaves_planD g, List.range_eq_range', hs0, he0]
  congr 2
  omega

/-- each leaf ends where the next one starts; the last one ends at `size` -/
theorem leaf_cover (size bs b : Nat) (hb : b < Tree.blocks ⟨size, bs⟩) :
    (leafInfo size bs b).1 * 1024 + (leafInfo size bs b).2
      = if b + 1 < Tree.blocks ⟨size, bs⟩ then (leafInfo size bs (b + 1)).1 * 1024 else size := by
  have h1 := lt_blocks_iff size bs (b + 1) (by omega)
  have h2 : b * 2 ^ (bs + 10) ≤ size := by
    by_cases h0 : b = 0
    · subst h0; omega
    · have := (lt_blocks_iff size bs b (by omega)).mp hb; omega
  rw [Nat.pow_add, ← Nat.mul_assoc, Nat.add_mul, Nat.one_mul] at h1
  rw [Nat.pow_add, ← Nat.mul_assoc] at h2
  have e10 : (2 : Nat) ^ 10 = 1024 := by decide
  rw [e10] at h1 h2
  simp only [leafInfo, Nat.add_mul, Nat.one_mul]
  generalize b * 2 ^ bs = q at *
  generalize 2 ^ bs = p at *
  split <;> omega

theorem parents_plan (size bs : Nat) (hs : size ≤ 2 ^ 63) (hbs : bs ≤ 10) :
    parentsOf (Tree.postOrderChunks ⟨size, bs⟩) = persistedPost size bs := by
  obtain ⟨_, _, _, hF⟩ := rootLevel_spec size bs hs
  obtain ⟨hNF, _, _⟩ := shifted_props size bs
  rw [postOrderChunks_eq size bs hs, parents_planD (shifted_geo size bs hs hbs),
    persistedPost_eq_postD size bs (rootLevel ⟨size, bs⟩) hs (by omega)]

theorem stack_plan (size bs : Nat) (hs : size ≤ 2 ^ 63) (hbs : bs ≤ 10) :
    stackRun 0 (Tree.postOrderChunks ⟨size, bs⟩) = some 1 := by
  obtain ⟨_, _, hlt, _⟩ := rootLevel_spec size bs hs
  rw [postOrderChunks_eq size bs hs]
  exact stack_planD (shifted_geo size bs hs hbs) _ _ 0 (by simp only [startOf, Nat.zero_mul]; omega) 0

/-- no prefix of a plan that runs through underflows -/
theorem stack_prefix {plan a b : List Chunk} {r : Nat} (h : stackRun 0 plan = some r)
    (hab : plan = a ++ b) : ∃ s, stackRun 0 a = some s := by
  rw [hab, stackRun_append] at h
  cases hs : stackRun 0 a with
  | some s => exact ⟨s, rfl⟩
  | none => rw [hs] at h; simp at h

theorem root_plan (size bs : Nat) (hs : size ≤ 2 ^ 63) (hbs : bs ≤ 10) :
    ∃ init last, Tree.postOrderChunks ⟨size, bs⟩ = init ++ [last] ∧ rootFlag last = true ∧
      ∀ c ∈ init, rootFlag c = false := by
  obtain ⟨_, e, hlt, _⟩ := rootLevel_spec size bs hs
  rw [postOrderChunks_eq size bs hs, e]
  exact root_planD (shifted_geo size bs hs hbs) _ hlt

theorem plan_rec (size bs : Nat) (hs : size ≤ 2 ^ 63) (hbs : bs ≤ 10) :
    Tree.postOrderChunks ⟨size, bs⟩
      = planRec size bs (Tree.shifted ⟨size, bs⟩).1 (Tree.shifted ⟨size, bs⟩).2
          (rootLevel ⟨size, bs⟩) 0 := by
  rw [postOrderChunks_eq size bs hs, planD_eq_planRec (shifted_geo size bs hs hbs)]

end Bao.NodeIterL
