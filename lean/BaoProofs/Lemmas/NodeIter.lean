import BaoModel.Iter
import BaoProofs.Props.C18
import BaoProofs.Lemmas.Offsets

/-!
# The node iterators (`PostOrderNodeIter`, `PreOrderNodeIter`) equal the tree recursion

The shifted tree of `(size, bs)` is *dense*: its nodes are exactly the ids `0 … F-1`
(`F = Tree.shifted.2`, odd).  `Offsets.postD F L k` / `Offsets.preD F L k` are the recursive
post- and pre-order lists of the ids `< F` in the complete subtree `(k, L)` (a node `≥ F` is replaced
by its left child).

* part 1: exact descriptions of `descendLeft` (`dl`, `descendLeft_dl`) and of
  `restrictedParent` along the left spine (`climb`), for a dense tree.
* part 2: `post_run` / `pre_run`: the three-state machine started at `(x, Prev.parent)` emits
  the recursive list of the subtree of `x`, uses exactly `cost` turns of the loop, and arrives at
  `goUp x`.  `postOrderNodes_eq`, `preOrderNodes_eq`: whole tree.
* part 3: dense lists for different bounds (`preD_succ`, `postD_filter`), the root
  (`shifted_root`), and the iterators of a `Tree` (`preIter_eq`, `postIter_eq`).
* part 4: the post-order chunk plan (`planD`), its leaves, parents, root flag, stack run.
-/

namespace Bao.NodeIterL
open Bao Bao.Spec Bao.Bits Bao.Offsets

/-! ## part 0: running a step function -/

theorem run_emit {step : NodeIter → Option (Option Nat × NodeIter)} {it it' : NodeIter} {x : Nat}
    (h : step it = some (some x, it')) (fuel : Nat) :
    NodeIter.run step (fuel + 1) it = x :: NodeIter.run step fuel it' := by
  simp only [NodeIter.run, h]

theorem run_skip {step : NodeIter → Option (Option Nat × NodeIter)} {it it' : NodeIter}
    (h : step it = some (none, it')) (fuel : Nat) :
    NodeIter.run step (fuel + 1) it = NodeIter.run step fuel it' := by
  simp only [NodeIter.run, h]

theorem run_stop {step : NodeIter → Option (Option Nat × NodeIter)} {it : NodeIter}
    (h : step it = none) (fuel : Nat) : NodeIter.run step fuel it = [] := by
  cases fuel with
  | zero => rfl
  | succ f => simp only [NodeIter.run, h]

/-- the state after `go_up` from `x` (does not depend on the state it is called in) -/
def upState (F x : Nat) : NodeIter := NodeIter.goUp ⟨F, x, .parent⟩ x

theorem goUp_eq (F c : Nat) (pv : Prev) (x : Nat) : NodeIter.goUp ⟨F, c, pv⟩ x = upState F x := by
  unfold upState NodeIter.goUp
  simp only

theorem upState_some {F x p : Nat} (h : Node.restrictedParent x F = some p) :
    upState F x = ⟨F, p, if x < p then .left else .right⟩ := by
  simp only [upState, NodeIter.goUp, h]

theorem upState_none {F x : Nat} (h : Node.restrictedParent x F = none) :
    upState F x = ⟨F, x, .done⟩ := by
  simp only [upState, NodeIter.goUp, h]

theorem postStep_down {F x c : Nat} (h : Node.leftChild x = some c) :
    NodeIter.postStep ⟨F, x, .parent⟩ = some (none, ⟨F, c, .parent⟩) := by
  simp only [NodeIter.postStep, h]

theorem postStep_leaf {F x : Nat} (h : Node.leftChild x = none) :
    NodeIter.postStep ⟨F, x, .parent⟩ = some (some x, upState F x) := by
  simp only [NodeIter.postStep, h, goUp_eq]

theorem postStep_left {F x r : Nat} (h : Node.rightDescendant x F = some r) :
    NodeIter.postStep ⟨F, x, .left⟩ = some (none, ⟨F, r, .parent⟩) := by
  simp only [NodeIter.postStep, h]

theorem postStep_right (F x : Nat) :
    NodeIter.postStep ⟨F, x, .right⟩ = some (some x, upState F x) := by
  simp only [NodeIter.postStep, goUp_eq]

theorem postStep_done (F x : Nat) : NodeIter.postStep ⟨F, x, .done⟩ = none := rfl

theorem preStep_down {F x c : Nat} (h : Node.leftChild x = some c) :
    NodeIter.preStep ⟨F, x, .parent⟩ = some (some x, ⟨F, c, .parent⟩) := by
  simp only [NodeIter.preStep, h]

theorem preStep_leaf {F x : Nat} (h : Node.leftChild x = none) :
    NodeIter.preStep ⟨F, x, .parent⟩ = some (some x, upState F x) := by
  simp only [NodeIter.preStep, h, goUp_eq]

theorem preStep_left {F x r : Nat} (h : Node.rightDescendant x F = some r) :
    NodeIter.preStep ⟨F, x, .left⟩ = some (none, ⟨F, r, .parent⟩) := by
  simp only [NodeIter.preStep, h]

theorem preStep_right (F x : Nat) :
    NodeIter.preStep ⟨F, x, .right⟩ = some (none, upState F x) := by
  simp only [NodeIter.preStep, goUp_eq]

theorem preStep_done (F x : Nat) : NodeIter.preStep ⟨F, x, .done⟩ = none := rfl

/-! ## part 1: `descendLeft` and `restrictedParent` in a dense tree -/

/-- coordinates of the first node with id `< F` on the left spine below `(k, L)` -/
def dl (F : Nat) : Nat → Nat → Nat × Nat
  | 0, k => (k, 0)
  | L + 1, k => if nodeOf k (L + 1) < F then (k, L + 1) else dl F L (2 * k)

/-- number of turns of the iterator loop spent in the subtree `(k, L)` -/
def cost (F : Nat) : Nat → Nat → Nat
  | 0, k => if nodeOf k 0 < F then 1 else 0
  | L + 1, k =>
    if nodeOf k (L + 1) < F then cost F L (2 * k) + cost F L (2 * k + 1) + 3
    else cost F L (2 * k)

theorem dl_level_le (F L k : Nat) : (dl F L k).2 ≤ L := by
  induction L generalizing k with
  | zero => simp [dl]
  | succ L ih =>
    by_cases h : nodeOf k (L + 1) < F
    · simp [dl, h]
    · simp only [dl, if_neg h]
      exact Nat.le_succ_of_le (ih _)

theorem postD_dl (F L k : Nat) : postD F L k = postD F (dl F L k).2 (dl F L k).1 := by
  induction L generalizing k with
  | zero => simp [dl]
  | succ L ih =>
    by_cases h : nodeOf k (L + 1) < F
    · simp [dl, h]
    · simp only [dl, if_neg h]
      rw [← ih]
      simp only [postD, if_neg h]

theorem preD_dl (F L k : Nat) : preD F L k = preD F (dl F L k).2 (dl F L k).1 := by
  induction L generalizing k with
  | zero => simp [dl]
  | succ L ih =>
    by_cases h : nodeOf k (L + 1) < F
    · simp [dl, h]
    · simp only [dl, if_neg h]
      rw [← ih]
      simp only [preD, if_neg h]

theorem cost_dl (F L k : Nat) : cost F L k = cost F (dl F L k).2 (dl F L k).1 := by
  induction L generalizing k with
  | zero => simp [dl]
  | succ L ih =>
    by_cases h : nodeOf k (L + 1) < F
    · simp [dl, h]
    · simp only [dl, if_neg h]
      rw [← ih]
      simp only [cost, if_neg h]

theorem dl_lt (F L k : Nat) (h : startOf k L < F) : nodeOf (dl F L k).1 (dl F L k).2 < F := by
  induction L generalizing k with
  | zero => simpa [dl, nodeOf_zero, startOf_zero] using h
  | succ L ih =>
    by_cases h1 : nodeOf k (L + 1) < F
    · simp [dl, h1]
    · simp only [dl, if_neg h1]
      exact ih _ (by rw [Offsets.startOf_left]; exact h)

theorem dl_ge (F L k : Nat) : startOf k L ≤ nodeOf (dl F L k).1 (dl F L k).2 := by
  induction L generalizing k with
  | zero => simp [dl, nodeOf_zero, startOf_zero]
  | succ L ih =>
    by_cases h1 : nodeOf k (L + 1) < F
    · simp only [dl, if_pos h1]
      rw [nodeOf_start]
      have := two_pow_pos' (L + 1)
      omega
    · simp only [dl, if_neg h1]
      have := ih (2 * k)
      rwa [Offsets.startOf_left] at this

/-- `descendLeft` finds `dl` -/
theorem descendLeft_dl (F : Nat) (fuel L k : Nat) (hL : L ≤ 64) (hf : L < fuel)
    (h : startOf k L < F) :
    Node.descendLeft fuel (nodeOf k L) F = some (nodeOf (dl F L k).1 (dl F L k).2) := by
  induction L generalizing k fuel with
  | zero =>
    cases fuel with
    | zero => omega
    | succ f =>
      have : ¬ (nodeOf k 0 ≥ F) := by rw [nodeOf_zero]; rw [startOf_zero] at h; omega
      simp only [Node.descendLeft, if_neg this, dl]
  | succ L ih =>
    cases fuel with
    | zero => omega
    | succ f =>
      by_cases h1 : nodeOf k (L + 1) < F
      · have : ¬ (nodeOf k (L + 1) ≥ F) := by omega
        simp only [Node.descendLeft, if_neg this, dl, if_pos h1]
      · have : nodeOf k (L + 1) ≥ F := by omega
        simp only [Node.descendLeft, if_pos this, C18.leftChild_spec hL, dl, if_neg h1]
        exact ih f (2 * k) (by omega) (by omega) (by rw [Offsets.startOf_left]; exact h)

/-- climbing from `dl` back to `(k, L)` passes only ids `≥ F` -/
theorem climb (F L k g : Nat) (hL : L ≤ 63) :
    Node.restrictedParentAux (g + (L - (dl F L k).2)) (nodeOf (dl F L k).1 (dl F L k).2) F
      = Node.restrictedParentAux g (nodeOf k L) F := by
  induction L generalizing k g with
  | zero => simp [dl]
  | succ L ih =>
    by_cases h1 : nodeOf k (L + 1) < F
    · simp [dl, h1]
    · simp only [dl, if_neg h1]
      have hle := dl_level_le F L (2 * k)
      have e : g + (L + 1 - (dl F L (2 * k)).2) = (g + 1) + (L - (dl F L (2 * k)).2) := by omega
      rw [e, ih (2 * k) (g + 1) (by omega)]
      simp only [Node.restrictedParentAux, C18.parent_spec (show L < 63 by omega)]
      rw [show 2 * k / 2 = k by omega, if_neg h1]

theorem rp_child (F L k g : Nat) (hL : L < 63) (h : nodeOf (k / 2) (L + 1) < F) :
    Node.restrictedParentAux (g + 1) (nodeOf k L) F = some (nodeOf (k / 2) (L + 1)) := by
  simp only [Node.restrictedParentAux, C18.parent_spec hL, if_pos h]

theorem nodeOf_zero_left (L : Nat) : nodeOf 0 L = 2 ^ L - 1 := by simp [nodeOf]

theorem rp_root (F fuel L : Nat) (hL : L ≤ 63) (h : F ≤ nodeOf 0 (L + 1)) :
    Node.restrictedParentAux fuel (nodeOf 0 L) F = none := by
  induction fuel generalizing L with
  | zero => rfl
  | succ f ih =>
    by_cases h63 : L = 63
    · subst h63
      simp only [Node.restrictedParentAux, C18.parent_top]
    · have hL' : L < 63 := by omega
      have hn : ¬ (nodeOf 0 (L + 1) < F) := by omega
      simp only [Node.restrictedParentAux, C18.parent_spec hL', Nat.zero_div, if_neg hn]
      apply ih (L + 1) (by omega)
      rw [nodeOf_zero_left] at h ⊢
      rw [Nat.pow_succ 2 (L + 1)]
      omega

/-- a right child's subtree is not empty when `F` is odd -/
theorem right_nonempty {F k L : Nat} (hodd : F % 2 = 1) (h : nodeOf k (L + 1) < F) :
    startOf (2 * k + 1) L < F ∧ startOf (2 * k + 1) L = nodeOf k (L + 1) + 1 := by
  have e : startOf (2 * k + 1) L = nodeOf k (L + 1) + 1 := by
    rw [Bits.startOf_right, midOf_eq, nodeOf_succ]
  have := nodeOf_succ_odd k L
  exact ⟨by omega, e⟩

/-! ## part 2: the machine equals the recursion -/

/-- the state after the subtree of the left child `(2k, L)` of an existing node -/
theorem up_left (F L k : Nat) (hL : L < 63) (h : nodeOf k (L + 1) < F) :
    upState F (nodeOf (2 * k) L) = ⟨F, nodeOf k (L + 1), .left⟩ := by
  have hp : Node.restrictedParent (nodeOf (2 * k) L) F = some (nodeOf k (L + 1)) := by
    have := rp_child F L (2 * k) 63 hL (by rw [show 2 * k / 2 = k by omega]; exact h)
    rwa [show 2 * k / 2 = k by omega] at this
  rw [upState_some hp]
  have : nodeOf (2 * k) L < nodeOf k (L + 1) := by
    rw [← nodeOf_sub_half]
    have := two_pow_pos' L
    have := two_pow_le_nodeOf_succ k L
    omega
  simp [this]

/-- the state after the subtree of the right descendant of an existing node -/
theorem up_right (F L k : Nat) (hL : L < 63) (hodd : F % 2 = 1) (h : nodeOf k (L + 1) < F) :
    upState F (nodeOf (dl F L (2 * k + 1)).1 (dl F L (2 * k + 1)).2)
      = ⟨F, nodeOf k (L + 1), .right⟩ := by
  have hle := dl_level_le F L (2 * k + 1)
  have hp : Node.restrictedParent (nodeOf (dl F L (2 * k + 1)).1 (dl F L (2 * k + 1)).2) F
      = some (nodeOf k (L + 1)) := by
    unfold Node.restrictedParent
    have e : 64 = (63 - (L - (dl F L (2 * k + 1)).2) + 1) + (L - (dl F L (2 * k + 1)).2) := by
      omega
    rw [e, climb F L (2 * k + 1) _ (by omega),
      rp_child F L (2 * k + 1) _ hL (by rw [show (2 * k + 1) / 2 = k by omega]; exact h)]
    rw [show (2 * k + 1) / 2 = k by omega]
  rw [upState_some hp]
  have h1 := dl_ge F L (2 * k + 1)
  have h2 := (right_nonempty hodd h).2
  have : ¬ (nodeOf (dl F L (2 * k + 1)).1 (dl F L (2 * k + 1)).2 < nodeOf k (L + 1)) := by omega
  simp [this]

theorem rightDescendant_dl (F L k : Nat) (hL : L < 63) (hodd : F % 2 = 1)
    (h : nodeOf k (L + 1) < F) :
    Node.rightDescendant (nodeOf k (L + 1)) F
      = some (nodeOf (dl F L (2 * k + 1)).1 (dl F L (2 * k + 1)).2) := by
  simp only [Node.rightDescendant, C18.rightChild_spec (show L + 1 ≤ 64 by omega)]
  exact descendLeft_dl F 65 L (2 * k + 1) (by omega) (by omega) (right_nonempty hodd h).1

/-- post-order: from `(x, parent)` the machine emits the subtree of `x` and arrives at `goUp x` -/
theorem post_run (F : Nat) (hodd : F % 2 = 1) (n : Nat) :
    ∀ L, L ≤ n → L ≤ 63 → ∀ k, nodeOf k L < F → ∀ fuel,
      NodeIter.run NodeIter.postStep (cost F L k + fuel) ⟨F, nodeOf k L, .parent⟩
        = postD F L k ++ NodeIter.run NodeIter.postStep fuel (upState F (nodeOf k L)) := by
  induction n with
  | zero =>
    intro L hLn _ k hx fuel
    obtain rfl : L = 0 := by omega
    simp only [cost, postD, if_pos hx]
    rw [Nat.add_comm 1 fuel, run_emit (postStep_leaf (C18.leftChild_leaf k))]
    rfl
  | succ n ih =>
    intro L hLn hL63 k hx fuel
    by_cases hle : L ≤ n
    · exact ih L hle hL63 k hx fuel
    obtain rfl : L = n + 1 := by omega
    have hn : n < 63 := by omega
    have hc : nodeOf (2 * k) n < F := by
      have := two_pow_le_nodeOf_succ k n
      have := two_pow_pos' n
      rw [← nodeOf_sub_half]; omega
    have hr := dl_lt F n (2 * k + 1) (right_nonempty hodd hx).1
    have hrl := dl_level_le F n (2 * k + 1)
    simp only [cost, postD, if_pos hx]
    -- down to the left child
    have e1 : cost F n (2 * k) + cost F n (2 * k + 1) + 3 + fuel
        = (cost F n (2 * k) + (cost F n (2 * k + 1) + 2 + fuel)) + 1 := by omega
    rw [e1, run_skip (postStep_down (C18.leftChild_spec (show n + 1 ≤ 64 by omega))),
      ih n (Nat.le_refl _) (by omega) (2 * k) hc, up_left F n k hn hx]
    -- over to the right descendant
    have e2 : cost F n (2 * k + 1) + 2 + fuel
        = (cost F (dl F n (2 * k + 1)).2 (dl F n (2 * k + 1)).1 + (1 + fuel)) + 1 := by
      rw [← cost_dl]; omega
    rw [e2, run_skip (postStep_left (rightDescendant_dl F n k hn hodd hx)),
      ih _ hrl (by omega) _ hr, ← postD_dl, up_right F n k hn hodd hx]
    -- the node itself
    rw [Nat.add_comm 1 fuel, run_emit (postStep_right F _)]
    simp only [List.append_assoc, List.singleton_append]

/-- pre-order twin of `post_run` -/
theorem pre_run (F : Nat) (hodd : F % 2 = 1) (n : Nat) :
    ∀ L, L ≤ n → L ≤ 63 → ∀ k, nodeOf k L < F → ∀ fuel,
      NodeIter.run NodeIter.preStep (cost F L k + fuel) ⟨F, nodeOf k L, .parent⟩
        = preD F L k ++ NodeIter.run NodeIter.preStep fuel (upState F (nodeOf k L)) := by
  induction n with
  | zero =>
    intro L hLn _ k hx fuel
    obtain rfl : L = 0 := by omega
    simp only [cost, preD, if_pos hx]
    rw [Nat.add_comm 1 fuel, run_emit (preStep_leaf (C18.leftChild_leaf k))]
    rfl
  | succ n ih =>
    intro L hLn hL63 k hx fuel
    by_cases hle : L ≤ n
    · exact ih L hle hL63 k hx fuel
    obtain rfl : L = n + 1 := by omega
    have hn : n < 63 := by omega
    have hc : nodeOf (2 * k) n < F := by
      have := two_pow_le_nodeOf_succ k n
      have := two_pow_pos' n
      rw [← nodeOf_sub_half]; omega
    have hr := dl_lt F n (2 * k + 1) (right_nonempty hodd hx).1
    have hrl := dl_level_le F n (2 * k + 1)
    simp only [cost, preD, if_pos hx]
    have e1 : cost F n (2 * k) + cost F n (2 * k + 1) + 3 + fuel
        = (cost F n (2 * k) + (cost F n (2 * k + 1) + 2 + fuel)) + 1 := by omega
    rw [e1, run_emit (preStep_down (C18.leftChild_spec (show n + 1 ≤ 64 by omega))),
      ih n (Nat.le_refl _) (by omega) (2 * k) hc, up_left F n k hn hx]
    have e2 : cost F n (2 * k + 1) + 2 + fuel
        = (cost F (dl F n (2 * k + 1)).2 (dl F n (2 * k + 1)).1 + (1 + fuel)) + 1 := by
      rw [← cost_dl]; omega
    rw [e2, run_skip (preStep_left (rightDescendant_dl F n k hn hodd hx)),
      ih _ hrl (by omega) _ hr, ← preD_dl, up_right F n k hn hodd hx]
    rw [Nat.add_comm 1 fuel, run_skip (preStep_right F _)]
    simp only [List.append_assoc, List.cons_append]

theorem cost_le (F L k : Nat) : cost F L k ≤ 3 * (postD F L k).length := by
  induction L generalizing k with
  | zero => by_cases h : nodeOf k 0 < F <;> simp [cost, postD, h]
  | succ L ih =>
    by_cases h : nodeOf k (L + 1) < F
    · simp only [cost, postD, if_pos h, List.length_append, List.length_singleton]
      have := ih (2 * k); have := ih (2 * k + 1); omega
    · simp only [cost, postD, if_neg h]; exact ih _

theorem cost_le_fuel (F L k : Nat) : cost F L k ≤ NodeIter.fuelFor F := by
  have h1 := cost_le F L k
  have h2 := postD_length F L k
  unfold NodeIter.fuelFor
  omega

/-- the root's `go_up` ends the iteration -/
theorem up_root (F h : Nat) (hh : h ≤ 63) (hF : F < 2 ^ (h + 1)) :
    upState F (nodeOf 0 h) = ⟨F, nodeOf 0 h, .done⟩ :=
  upState_none (rp_root F 64 h hh (by rw [nodeOf_zero_left]; omega))

/-- `PostOrderNodeIter` over a dense tree with root `(0, h)` is the post-order recursion -/
theorem postOrderNodes_eq (F h : Nat) (hodd : F % 2 = 1) (hh : h ≤ 63)
    (hroot : nodeOf 0 h < F) (hF : F < 2 ^ (h + 1)) :
    postOrderNodes (nodeOf 0 h) F = postD F h 0 := by
  unfold postOrderNodes NodeIter.new
  have e : NodeIter.fuelFor F = cost F h 0 + (NodeIter.fuelFor F - cost F h 0) := by
    have := cost_le_fuel F h 0; omega
  rw [e, post_run F hodd h h (Nat.le_refl _) hh 0 hroot, up_root F h hh hF,
    run_stop (postStep_done F _), List.append_nil]

/-- `PreOrderNodeIter` over a dense tree with root `(0, h)` is the pre-order recursion -/
theorem preOrderNodes_eq (F h : Nat) (hodd : F % 2 = 1) (hh : h ≤ 63)
    (hroot : nodeOf 0 h < F) (hF : F < 2 ^ (h + 1)) :
    preOrderNodes (nodeOf 0 h) F = preD F h 0 := by
  unfold preOrderNodes NodeIter.new
  have e : NodeIter.fuelFor F = cost F h 0 + (NodeIter.fuelFor F - cost F h 0) := by
    have := cost_le_fuel F h 0; omega
  rw [e, pre_run F hodd h h (Nat.le_refl _) hh 0 hroot, up_root F h hh hF,
    run_stop (preStep_done F _), List.append_nil]

end Bao.NodeIterL
