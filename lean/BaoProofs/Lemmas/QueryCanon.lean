import BaoProofs.Lemmas.PlanPreTop

/-!
# Canonical sub-queries

The response plan decides "this subtree is one leaf" by `is_all` on the sub-query (`rs == [0]`),
the specification by "every chunk of the interval is selected".  The two agree because the query
was canonicalised by `truncate_ranges` and `split_inner` re-normalises one-boundary halves.
`QInv` collects the invariants of the sub-query `rs` handed to a node with chunk interval `[s, e)`:

* `WF`, `Tight` (all boundaries but the first lie behind `s`), `Bounded` (the node reaches the end
  of the blob or all boundaries lie in front of `e`) — from `Lemmas/PlanPreCover.lean`;
* `Norm`: a one-boundary sub-query `[x]` has `x = 0` or `x > s`;
* `Canon`: every closing boundary is at most the last chunk, and strictly below it unless it is the
  last boundary (what `truncate_ranges` establishes).

`QInv.all_of_selected`: under `QInv`, if every chunk of `[s, min e N)` is selected then `rs = [0]`
(the converse of `C14.splitInner_left_all`, left OPEN there).
-/

namespace Bao.DecodeSpec
open Bao Bao.Spec Bao.PlanPre Bao.Ranges

/-! ## `anySel` / `allSel` -/

theorem anySel_eq_true_iff (sel : Nat → Bool) (a b : Nat) :
    anySel sel a b = true ↔ ∃ c, a ≤ c ∧ c < b ∧ sel c = true := by
  simp only [anySel, List.any_eq_true, List.mem_range]
  constructor
  · rintro ⟨i, hi, h⟩; exact ⟨a + i, by omega, by omega, h⟩
  · rintro ⟨c, h1, h2, h3⟩
    exact ⟨c - a, by omega, by rw [show a + (c - a) = c by omega]; exact h3⟩

theorem anySel_eq_false_iff (sel : Nat → Bool) (a b : Nat) :
    anySel sel a b = false ↔ ∀ c, a ≤ c → c < b → sel c = false := by
  rw [← Bool.not_eq_true, anySel_eq_true_iff]
  constructor
  · intro h c h1 h2
    cases hc : sel c
    · rfl
    · exact absurd ⟨c, h1, h2, hc⟩ h
  · rintro h ⟨c, h1, h2, h3⟩
    rw [h c h1 h2] at h3; cases h3

theorem allSel_eq_true_iff (sel : Nat → Bool) (a b : Nat) :
    allSel sel a b = true ↔ ∀ c, a ≤ c → c < b → sel c = true := by
  simp only [allSel, List.all_eq_true, List.mem_range]
  constructor
  · intro h c h1 h2
    have := h (c - a) (by omega)
    rwa [show a + (c - a) = c by omega] at this
  · intro h i hi; exact h (a + i) (by omega) (by omega)

/-! ## `Canon` -/

/-- closing boundaries (odd positions) are at most the last chunk `n - 1`, and strictly below it
unless they are the last boundary -/
def Canon (n : Nat) (rs : Ranges) : Prop :=
  ∀ i b, i % 2 = 1 → rs[i]? = some b → b ≤ n - 1 ∧ (i + 1 < rs.length → b < n - 1)

theorem Canon.take {n : Nat} {rs : Ranges} (h : Canon n rs) (k : Nat) : Canon n (rs.take k) := by
  intro i b hi hb
  rw [List.getElem?_take] at hb
  split at hb
  · have := h i b hi hb
    exact ⟨this.1, fun hlt => this.2 (by rw [List.length_take] at hlt; omega)⟩
  · cases hb

theorem Canon.drop {n : Nat} {rs : Ranges} (h : Canon n rs) (j : Nat) (hj : j % 2 = 0) :
    Canon n (rs.drop j) := by
  intro i b hi hb
  rw [List.getElem?_drop] at hb
  have := h (j + i) b (by omega) hb
  exact ⟨this.1, fun hlt => this.2 (by rw [List.length_drop] at hlt; omega)⟩

theorem Canon.fixAll {n : Nat} {l : Ranges} (h : Canon n l) (s : Nat) : Canon n (fixAll l s) := by
  unfold Ranges.fixAll
  split
  · split
    · intro i b hi hb
      cases i with
      | zero => omega
      | succ i => simp at hb
    · exact h
  · exact h

theorem Canon.splitInner {n : Nat} {q : Ranges} (hwf : WF q = true) (h : Canon n q) (s m : Nat) :
    Canon n (splitInner q s m).1 ∧ Canon n (splitInner q s m).2 := by
  rw [splitInner_eq]
  refine ⟨Canon.fixAll (by rw [split_fst]; exact h.take _) s, Canon.fixAll ?_ m⟩
  rw [split_eq hwf]
  apply h.drop
  have h1 := countLe_le_countLt_succ hwf m
  have h2 := countLt_le_countLe q m
  repeat' split
  all_goals omega

theorem canon_truncate {q : Ranges} (hwf : WF q = true) (size : Nat) :
    Canon (nChunks size) (truncate q size) := by
  intro i b hi hb
  have hlt : i < (truncate q size).length := by
    rcases Nat.lt_or_ge i (truncate q size).length with h | h
    · exact h
    · rw [List.getElem?_eq_none h] at hb; cases hb
  by_cases hlast : i + 1 < (truncate q size).length
  · have hm : b ∈ (truncate q size).dropLast := by
      rw [List.dropLast_eq_take, List.mem_iff_getElem?]
      exact ⟨i, by rw [List.getElem?_take, if_pos (by omega)]; exact hb⟩
    have := C14.truncate_bounded q size b hm
    exact ⟨by omega, fun _ => this⟩
  · have hev : (truncate q size).length % 2 = 0 := by omega
    have hm : b ∈ truncate q size := List.mem_iff_getElem?.2 ⟨i, hb⟩
    exact ⟨C14.truncate_bounded_closed size hwf hev b hm, fun h => absurd h hlast⟩

/-! ## `Norm` -/

/-- a one-boundary sub-query of a node starting at `s` is `[0]` or starts behind `s` -/
def Norm (rs : Ranges) (s : Nat) : Prop := ∀ x, rs = [x] → x = 0 ∨ s < x

theorem norm_fixAll (l : Ranges) (s : Nat) : Norm (fixAll l s) s := by
  unfold Ranges.fixAll
  split
  · rename_i x
    split
    · intro y hy; simp only [List.cons.injEq, and_true] at hy; exact Or.inl hy.symm
    · intro y hy; simp only [List.cons.injEq, and_true] at hy; subst hy; right; omega
  · rename_i hns
    intro y hy
    exact absurd hy (hns y)

/-! ## the invariant -/

/-- invariant of the sub-query `rs` handed to the node with chunk interval `[s, e)` -/
structure QInv (size : Nat) (rs : Ranges) (s e : Nat) : Prop where
  wf : WF rs = true
  tight : Tight rs s
  bounded : Bounded size rs e
  norm : Norm rs s
  canon : Canon (nChunks size) rs

/-- the canonical query at the root -/
theorem QInv.root {q : Ranges} (hwf : WF q = true) (size : Nat) {e : Nat}
    (he : nChunks size ≤ e) : QInv size (truncate q size) 0 e :=
  ⟨C14.truncate_wf size hwf, tight_zero (C14.truncate_wf size hwf), Or.inl he,
   fun x _ => by omega, canon_truncate hwf size⟩

/-- a node that does not exist hands its query to its left child -/
theorem QInv.skip {size : Nat} {rs : Ranges} {s e m : Nat} (h : QInv size rs s e)
    (hm : nChunks size ≤ m) : QInv size rs s m :=
  ⟨h.wf, h.tight, Or.inl hm, h.norm, h.canon⟩

theorem QInv.left {size : Nat} {rs : Ranges} {s e : Nat} (h : QInv size rs s e) {m : Nat}
    (hm : 0 < m) : QInv size (splitInner rs s m).1 s m :=
  ⟨(C14.splitInner_wf s m h.wf).1, tight_left m h.tight, Or.inr (left_lt_mid rs s hm),
   by rw [splitInner_eq]; exact norm_fixAll _ _, (h.canon.splitInner h.wf s m).1⟩

theorem QInv.right {size : Nat} {rs : Ranges} {s e : Nat} (h : QInv size rs s e) {m : Nat}
    (he : 0 < e) : QInv size (splitInner rs s m).2 m e :=
  ⟨(C14.splitInner_wf s m h.wf).2, tight_right h.wf s m, bounded_right h.wf s m he h.bounded,
   by rw [splitInner_eq]; exact norm_fixAll _ _, (h.canon.splitInner h.wf s m).2⟩

/-- a non-empty sub-query selects a chunk of its node -/
theorem QInv.witness {size : Nat} {rs : Ranges} {s e : Nat} (h : QInv size rs s e) (hne : rs ≠ [])
    (hse : s < e) (hsN : s < nChunks size) :
    ∃ c, s ≤ c ∧ c < min e (nChunks size) ∧ Spec.selected size rs c = true :=
  leaf_witness h.wf hne h.tight h.bounded hse hsN

/-- **"all selected" is `is_all`**: a canonical sub-query that selects every chunk of its node
(whose first chunk is not the last chunk of the blob) is `[0]` -/
theorem QInv.all_of_selected {size : Nat} {rs : Ranges} {s e : Nat} (h : QInv size rs s e)
    (hs : s + 1 < nChunks size) (hse : s < e)
    (hall : ∀ c, s ≤ c → c < min e (nChunks size) → Spec.selected size rs c = true) :
    rs = [0] := by
  have hsel := hall s (Nat.le_refl _) (by omega)
  rw [selected_eq_reachesPast] at hsel
  have hs2 : (s == nChunks size - 1) = false := by simp; omega
  simp only [hs2, Bool.false_and, Bool.or_false, Bool.and_eq_true, decide_eq_true_eq] at hsel
  have hcont := hsel.2
  cases rs with
  | nil => rw [contains_nil] at hcont; cases hcont
  | cons a t =>
    cases t with
    | nil =>
      rw [contains_singleton] at hcont
      simp only [decide_eq_true_eq] at hcont
      rcases h.norm a rfl with h0 | h0
      · rw [h0]
      · omega
    | cons b t' =>
      exfalso
      have hwf := h.wf
      have hab := (WF_cons_cons.1 hwf).1
      have hsb : s < b := h.tight b (by simp)
      have hcan := h.canon 1 b (by omega) (by simp)
      have hbe : b < e ∨ nChunks size ≤ e := by
        rcases h.bounded with hb | hb
        · exact Or.inr hb
        · exact Or.inl (hb b (by simp))
      have hn := Ranges.nChunks_pos size
      have hselb := hall b (by omega) (by omega)
      rw [selected_eq_reachesPast, contains_cons_cons' hwf] at hselb
      have ht' : contains t' b = false := by
        rw [contains_eq (WF_tail (WF_tail hwf)),
          countLe_eq_zero_of_forall_gt (WF_head_lt (WF_tail hwf))]
        rfl
      have hbb : (decide (a ≤ b) && decide (b < b)) = false := by simp
      rw [ht', hbb] at hselb
      simp only [Bool.or_self, Bool.false_or, Bool.and_eq_true, decide_eq_true_eq,
        beq_iff_eq] at hselb
      obtain ⟨-, hbn, hreach⟩ := hselb
      have hlen : ¬ (1 + 1 < (a :: b :: t').length) := fun hl => by
        have := hcan.2 hl; omega
      cases t' with
      | cons c t'' => simp only [List.length_cons] at hlen; omega
      | nil =>
        simp only [reachesPast, Bool.or_false, decide_eq_true_eq] at hreach
        omega

end Bao.DecodeSpec
