import BaoProofs.Lemmas.HistLabelL
import BaoProofs.Lemmas.FaultL

/-!
# The log of completed calls of a history, labelled (C07, stages A and B)

* `Log hf tree sink items es sink'` – `es` is the list of target writes / outboard saves COMPLETED
  by `decode_ranges` while it consumed a prefix of the decoder items `items`, starting from `sink`
  and ending in `sink'`;
* `faux_log` – the fault-injected driver `decodeRangesFAux` has such a log over the items of
  `Dec.runAux`;
* `EG hf d bs pre e` – a correctly labelled completed call: a save is the save of the true pair of
  an existing node of level `≥ bs` under its own label; a write is the write of a true leaf all of
  whose existing ancestors of level `≥ bs` have been saved before (`∈ pre`);
* `run_log` – any history into a sink with the true root and the true geometry is the application
  of a list of completed calls `es` with `Trace (EG hf d bs) [] es`.
-/

set_option maxRecDepth 8192

namespace Bao.C07L
open Bao Bao.Spec Bao.C01 Bao.C07 Bao.DecodeSpec Bao.Bits
open Bao.FaultL (Ev applyEv applyEvs saveOrKeep)

variable {H : Type}

/-! ## the completed calls of one run of the driver -/

inductive Log (hf : HashFns H) (tree : Tree) :
    Sink H → List (Item H) → List (Ev H) → Sink H → Prop
  | stop (sink : Sink H) (items : List (Item H)) : Log hf tree sink items [] sink
  | skip {sink sink' : Sink H} {node : Nat} {l r : H} {items : List (Item H)} {es : List (Ev H)} :
      tree.isRelevant node = false → Log hf tree sink items es sink' →
      Log hf tree sink (.parent node l r :: items) es sink'
  | save {sink sink' : Sink H} {node : Nat} {l r : H} {ob : Store H} {items : List (Item H)}
      {es : List (Ev H)} :
      tree.isRelevant node = true → sink.ob.save hf node (l, r) = .ok ob →
      Log hf tree { sink with ob } items es sink' →
      Log hf tree sink (.parent node l r :: items) (.save node l r :: es) sink'
  | skipLeaf {sink sink' : Sink H} {off : Nat} {items : List (Item H)} {es : List (Ev H)} :
      Log hf tree sink items es sink' → Log hf tree sink (.leaf off [] :: items) es sink'
  | write {sink sink' : Sink H} {off : Nat} {data : List UInt8} {items : List (Item H)}
      {es : List (Ev H)} :
      Log hf tree { sink with target := writeAt sink.target off data } items es sink' →
      Log hf tree sink (.leaf off data :: items) (.write off data :: es) sink'

theorem faux_log (hf : HashFns H) [BEq H] (fl : Flavour) (tree : Tree) (fw fs : Option Nat) :
    ∀ (fuel : Nat) (dec : Dec H) (sink : Sink H) (nw ns : Nat),
      ∃ es, Log hf tree sink (Dec.runAux hf fl fuel dec).items es
        (decodeRangesFAux hf fl tree fw fs fuel dec sink nw ns).1 := by
  intro fuel
  induction fuel with
  | zero => intro dec sink nw ns; exact ⟨[], .stop _ _⟩
  | succ fuel ih =>
    intro dec sink nw ns
    unfold decodeRangesFAux Dec.runAux
    cases hn : dec.next hf fl with
    | done d' => exact ⟨[], .stop _ _⟩
    | err e d' => exact ⟨[], .stop _ _⟩
    | panic => exact ⟨[], .stop _ _⟩
    | item i d' =>
      cases i with
      | parent node l r =>
        simp only
        by_cases hrel : tree.isRelevant node = true
        · simp only [hrel, if_true]
          split
          · exact ⟨[], .stop _ _⟩
          · cases hsv : sink.ob.save hf node (l, r) with
            | ok ob =>
              obtain ⟨es, h⟩ := ih d' { sink with ob } nw (ns + 1)
              exact ⟨_, .save hrel hsv h⟩
            | err e => exact ⟨[], .stop _ _⟩
            | panic => exact ⟨[], .stop _ _⟩
        · simp only [hrel, Bool.false_eq_true, if_false]
          obtain ⟨es, h⟩ := ih d' sink nw ns
          exact ⟨es, .skip (by simpa using hrel) h⟩
      | leaf off data =>
        simp only
        split
        · rename_i hskip
          have hd : data = [] := by
            simp only [Bool.and_eq_true, List.isEmpty_iff] at hskip
            exact hskip.2
          subst hd
          obtain ⟨es, h⟩ := ih d' sink nw ns
          exact ⟨es, .skipLeaf h⟩
        · split
          · exact ⟨[], .stop _ _⟩
          · obtain ⟨es, h⟩ := ih d' { sink with target := writeAt sink.target off data } (nw + 1) ns
            exact ⟨_, .write h⟩

/-- every call of the list succeeds when the list is applied in order -/
def EvsOk (hf : HashFns H) : Sink H → List (Ev H) → Prop
  | _, [] => True
  | sink, e :: es =>
    (match e with
      | .save node l r => ∃ ob, sink.ob.save hf node (l, r) = .ok ob
      | .write .. => True) ∧ EvsOk hf (applyEv hf sink e) es

theorem applyEvs_append (hf : HashFns H) (sink : Sink H) (a b : List (Ev H)) :
    applyEvs hf sink (a ++ b) = applyEvs hf (applyEvs hf sink a) b := by
  simp [applyEvs, List.foldl_append]

theorem EvsOk.append {hf : HashFns H} : ∀ (a b : List (Ev H)) (sink : Sink H),
    EvsOk hf sink a → EvsOk hf (applyEvs hf sink a) b → EvsOk hf sink (a ++ b) := by
  intro a
  induction a with
  | nil => intro b sink _ h; exact h
  | cons e a ih =>
    intro b sink h1 h2
    exact ⟨h1.1, ih b _ h1.2 h2⟩

theorem Log.apply {hf : HashFns H} {tree : Tree} {sink sink' : Sink H} {items : List (Item H)}
    {es : List (Ev H)} (h : Log hf tree sink items es sink') :
    sink' = applyEvs hf sink es ∧ EvsOk hf sink es := by
  induction h with
  | stop => exact ⟨rfl, trivial⟩
  | skip _ _ ih => exact ih
  | @save sink sink' node l r ob items es _ hs _ ih =>
    have e : applyEv hf sink (.save node l r) = { sink with ob } := by
      simp only [applyEv, saveOrKeep, hs]
    refine ⟨?_, ⟨_, hs⟩, ?_⟩
    · rw [FaultL.applyEvs_cons, e]; exact ih.1
    · rw [e]; exact ih.2
  | skipLeaf _ ih => exact ih
  | write _ ih => exact ⟨ih.1, trivial, ih.2⟩

/-! ## labelled completed calls -/

section
variable (hf : HashFns H) (d : List UInt8) (bs : Nat)

/-- the completed save of node `(k, L)` with its true pair -/
def sEv (k L : Nat) : Ev H :=
  .save (nodeOf k L) (Spec.pair hf d k L).1 (Spec.pair hf d k L).2

/-- a correctly labelled completed call: see the header -/
def EG (pre : List (Ev H)) : Ev H → Prop
  | .save node l r =>
    ∃ k L, L < 64 ∧ bs ≤ L ∧ midOf k L < nChunks d.length ∧ Ev.save node l r = sEv hf d k L
  | .write off data =>
    ∃ c e, Sub d c e ∧ c < e ∧ off = c * 1024 ∧ data = slice d c e ∧
      ∀ x, c ≤ x → x < e → ∀ L, bs ≤ L → midOf (x / 2 ^ (L + 1)) L < nChunks d.length →
        sEv hf d (x / 2 ^ (L + 1)) L ∈ pre

end

variable {hf : HashFns H} {d : List UInt8} {bs : Nat}

theorem EG.mono {p1 p2 : List (Ev H)} {e : Ev H} (h : ∀ y ∈ p1, y ∈ p2) (he : EG hf d bs p1 e) :
    EG hf d bs p2 e := by
  cases e with
  | save node l r => exact he
  | write off data =>
    obtain ⟨c, e, h1, h2, h3, h4, h5⟩ := he
    exact ⟨c, e, h1, h2, h3, h4, fun x a b L cc m => h _ (h5 x a b L cc m)⟩

/-- `is_relevant_for_outboard` of an existing node of the true tree: its level is `≥ bs` -/
theorem isRelevant_nodeOf {k L : Nat} (hL : L < 64) (hm : midOf k L < nChunks d.length) :
    Tree.isRelevant ⟨d.length, bs⟩ (nodeOf k L) = decide (bs ≤ L) := by
  unfold Tree.isRelevant
  simp only [C18.level_nodeOf (Nat.le_of_lt hL), C18.mid_spec]
  have hpos : 0 < midOf k L := Nat.lt_of_lt_of_le (two_pow_pos' L) (two_pow_le_midOf k L)
  have h1 := (Offsets.lt_nChunks_iff d.length (midOf k L) hpos).1 hm
  by_cases h : L < bs
  · simp [h]
  · by_cases h' : L > bs
    · simp [h, h']; omega
    · have : L = bs := by omega
      subst this
      simp [toBytes, h1]

theorem level_lt_64 (hd : d.length ≤ 2 ^ 63) {k L : Nat} (hm : midOf k L < nChunks d.length) :
    L < 64 := level_lt_of_mid_lt hd hm

/-- from the labelled items to the labelled completed calls -/
theorem Log.trace (hd : d.length ≤ 2 ^ 63) {sink sink' : Sink H} {items : List (Item H)}
    {es : List (Ev H)} (h : Log hf ⟨d.length, bs⟩ sink items es sink') :
    ∀ (ipre : List (Item H)) (epre : List (Ev H)),
      (∀ k L, bs ≤ L → pItem hf d k L ∈ ipre → sEv hf d k L ∈ epre) →
      Trace (IG hf d bs 64 0 (nChunks d.length)) ipre items → Trace (EG hf d bs) epre es := by
  induction h with
  | stop => intro _ _ _ _; trivial
  | @skip sink sink' node l r items es hrel _ ih =>
    intro ipre epre hlink ht
    obtain ⟨⟨k, L, hL, hm, hx⟩, ht'⟩ := ht
    refine ih _ epre ?_ ht'
    intro k' L' hb hmem
    rcases List.mem_cons.1 hmem with he | hmem
    · exfalso
      rw [hx] at he
      simp only [pItem, Item.parent.injEq] at he hx
      obtain ⟨rfl, rfl⟩ := C18.nodeOf_inj he.1
      rw [hx.1, isRelevant_nodeOf hL hm] at hrel
      simp at hrel; omega
    · exact hlink k' L' hb hmem
  | @save sink sink' node l r ob items es hrel hs _ ih =>
    intro ipre epre hlink ht
    obtain ⟨⟨k, L, hL, hm, hx⟩, ht'⟩ := ht
    simp only [pItem, Item.parent.injEq] at hx
    obtain ⟨rfl, rfl, rfl⟩ := hx
    rw [isRelevant_nodeOf hL hm] at hrel
    have hb : bs ≤ L := by simpa using hrel
    refine ⟨⟨k, L, hL, hb, hm, rfl⟩, ih _ _ ?_ ht'⟩
    intro k' L' hb' hmem
    rcases List.mem_cons.1 hmem with he | hmem
    · simp only [pItem, Item.parent.injEq] at he
      obtain ⟨rfl, rfl⟩ := C18.nodeOf_inj he.1
      exact List.mem_cons_self
    · exact List.mem_cons_of_mem _ (hlink k' L' hb' hmem)
  | @skipLeaf sink sink' off items es _ ih =>
    intro ipre epre hlink ht
    refine ih _ epre ?_ ht.2
    intro k' L' hb hmem
    rcases List.mem_cons.1 hmem with he | hmem
    · simp [pItem] at he
    · exact hlink k' L' hb hmem
  | @write sink sink' off data items es _ ih =>
    intro ipre epre hlink ht
    obtain ⟨⟨c, e, hs, -, h2, -, h4, h5, h6⟩, ht'⟩ := ht
    refine ⟨⟨c, e, hs, h2, h4, h5, ?_⟩, ih _ _ ?_ ht'⟩
    · intro x hx1 hx2 L hb hm
      exact hlink _ _ hb (h6 x hx1 hx2 L hb (level_lt_64 hd hm) hm)
    · intro k' L' hb hmem
      rcases List.mem_cons.1 hmem with he | hmem
      · simp [pItem] at he
      · exact List.mem_cons_of_mem _ (hlink k' L' hb hmem)

/-! ## histories -/

section hist
variable [BEq H] [LawfulBEq H]

/-- one call into a sink with the true root and the true geometry -/
theorem step_log (cf : CollisionFree hf) (hd : d.length ≤ 2 ^ 63) (sink : Sink H) (op : Op)
    (hroot : sink.ob.root = Spec.root hf d) (htree : sink.ob.tree = ⟨d.length, bs⟩) :
    ∃ es, step hf sink op = applyEvs hf sink es ∧ EvsOk hf sink es ∧
      Trace (EG hf d bs) [] es := by
  obtain ⟨es, hlog⟩ := faux_log hf op.fl sink.ob.tree op.fw op.fs
    (PrePartial.fuelFor (Dec.new sink.ob.root sink.ob.tree op.ranges op.stream).iter.tree + 1)
    (Dec.new sink.ob.root sink.ob.tree op.ranges op.stream) sink 0 0
  have hgood := decodeAll_good (bs := bs) cf hd op.fl op.ranges op.stream
  rw [← hroot, ← htree] at hgood
  have hlog' : Log hf ⟨d.length, bs⟩ sink
      (decodeAll hf op.fl sink.ob.root sink.ob.tree op.ranges op.stream).items es
      (step hf sink op) := by
    rw [← htree]; exact hlog
  obtain ⟨h1, h2⟩ := hlog'.apply
  exact ⟨es, h1, h2, hlog'.trace hd [] [] (fun _ _ _ h => by cases h) hgood⟩

/-- **any history is the application of a labelled list of completed calls** -/
theorem run_log (cf : CollisionFree hf) (hd : d.length ≤ 2 ^ 63) :
    ∀ (ops : List Op) (sink : Sink H), sink.ob.root = Spec.root hf d →
      sink.ob.tree = ⟨d.length, bs⟩ →
      ∃ es, run hf ops sink = applyEvs hf sink es ∧ EvsOk hf sink es ∧
        Trace (EG hf d bs) [] es := by
  intro ops
  induction ops with
  | nil => intro sink _ _; exact ⟨[], rfl, trivial, trivial⟩
  | cons op ops ih =>
    intro sink hroot htree
    obtain ⟨es1, h1, h2, h3⟩ := step_log cf hd sink op hroot htree
    obtain ⟨r1, r2, -⟩ := step_root hf sink op
    obtain ⟨es2, g1, g2, g3⟩ := ih (step hf sink op) (r1.trans hroot) (r2.trans htree)
    refine ⟨es1 ++ es2, ?_, ?_, ?_⟩
    · rw [applyEvs_append, ← h1]; exact g1
    · exact EvsOk.append es1 es2 sink h2 (by rw [← h1]; exact g2)
    · exact (Trace.append es1 es2 []).2 ⟨h3,
        Trace.mono_pre (P := EG hf d bs) (fun _ _ _ h he => EG.mono h he) es2 [] _
          (fun _ h => by cases h) g3⟩

end hist

end Bao.C07L
