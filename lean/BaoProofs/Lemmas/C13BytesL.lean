import BaoProofs.Lemmas.OutboardL
import BaoProofs.Lemmas.ValidL
import BaoProofs.Props.C13

/-!
# Lemmas for the byte-level statement of C13 (post-order outboards only grow at the end)

* `slice_append`, `pair_append`, `pairBytes_append` – the hash pair of a node whose untruncated
  interval ends inside `d` does not see appended bytes.
* `mem_persistedPost_coords`, `persistedPost_mono` – persisted nodes in coordinates; a persisted
  node stays persisted when the blob grows.
* `stable_getElem`, `take_stable_eq`              – the first `S` (= number of stable nodes) entries
  of the post-order list are the same for every larger blob.
* `take_flatMap64`                                 – cutting a concatenation of 64-byte blocks.
-/

set_option maxRecDepth 8192   -- `omega` with the literal 1024

namespace Bao.C13L
open Bao Bao.Spec Bao.Bits Bao.Offsets

/-! ## slices and pairs under appending -/

theorem slice_append (d e : List UInt8) (a b : Nat) (h : b * 1024 ≤ d.length) :
    slice (d ++ e) a b = slice d a b := by
  unfold slice
  by_cases hab : a ≤ b
  · rw [List.drop_append_of_le_length (by omega),
      List.take_append_of_le_length (by rw [List.length_drop]; omega)]
  · have e0 : b - a = 0 := by omega
    simp [e0]

theorem endOf_le_nChunks {c size : Nat} (h : c * 1024 ≤ size) : c ≤ nChunks size := by
  unfold nChunks; omega

theorem midOf_le_endOf (k L : Nat) : midOf k L ≤ endOf k L := by
  have := two_pow_pos' L
  rw [midOf_eq, endOf_eq]; omega

theorem midOf_pos (k L : Nat) : 0 < midOf k L := by
  have := two_pow_pos' L
  rw [midOf_eq]; omega

theorem pair_append {H : Type} (hf : HashFns H) (d e : List UInt8) (k L : Nat)
    (h : endOf k L * 1024 ≤ d.length) : pair hf (d ++ e) k L = pair hf d k L := by
  have hm := midOf_le_endOf k L
  have h1 : min (endOf k L) (nChunks (d ++ e).length) = endOf k L :=
    Nat.min_eq_left (endOf_le_nChunks (by rw [List.length_append]; omega))
  have h2 : min (endOf k L) (nChunks d.length) = endOf k L :=
    Nat.min_eq_left (endOf_le_nChunks h)
  unfold pair cv
  simp only [h1, h2]
  rw [slice_append d e _ _ (by omega), slice_append d e _ _ h]

theorem pairBytes_append {H : Type} (hf : HashFns H) (d e : List UInt8) (x : Nat)
    (h : endOf (indexOf x) (levelOf x) * 1024 ≤ d.length) :
    pairBytes hf (d ++ e) x = pairBytes hf d x := by
  unfold pairBytes
  simp only [pair_append hf d e _ _ h]

/-! ## persisted nodes in coordinates, monotonicity -/

theorem mem_persistedPost_coords {size bs x : Nat} (hs : size ≤ 2 ^ 63)
    (hx : x ∈ persistedPost size bs) :
    ∃ k L, x = nodeOf k L ∧ bs ≤ L ∧ L < 53 ∧ midOf k L * 1024 < size := by
  have hB := blocks_le size bs hs
  have hh : Tree.blocks ⟨size, bs⟩ - 1 < 2 ^ (63 + 1) := by omega
  rw [NodeIterL.persistedPost_eq_postD size bs 63 hs hh] at hx
  obtain ⟨y, hy, rfl⟩ := List.mem_map.mp hx
  have hyN := NodeIterL.mem_postD_lt _ _ _ _ hy
  obtain ⟨k, L, rfl⟩ := C18.coords_exist y
  have hLb := OutboardL.level_bound hs hyN
  have hm := persisted_mid hyN
  refine ⟨k, L + bs, up_nodeOf bs k L, by omega, hLb, ?_⟩
  rw [midOf_shift]; exact hm

theorem persistedPost_mono {size size' bs x : Nat} (hle : size ≤ size') (hs' : size' ≤ 2 ^ 63)
    (hx : x ∈ persistedPost size bs) : x ∈ persistedPost size' bs := by
  obtain ⟨k, L, rfl, hL, _, hm⟩ := mem_persistedPost_coords (by omega) hx
  apply (OutboardL.persistedPost_perm size' bs hs').mem_iff.mpr
  apply ValidL.mem_persistedPre size' bs k L hs' hL
  rw [lt_nChunks_iff _ _ (midOf_pos k L)]; omega

/-- a stable persisted node: its untruncated interval ends inside the blob -/
theorem stable_end {size bs x : Nat} (hs : size ≤ 2 ^ 63)
    (hx : x ∈ persistedPost size bs) (hst : isStable ⟨size, bs⟩ x = true) :
    endOf (indexOf x) (levelOf x) * 1024 ≤ size := by
  obtain ⟨k, L, rfl, hL, hL53, _⟩ := mem_persistedPost_coords hs hx
  obtain ⟨v, hv⟩ := (isStable_iff _ _).mp hst
  rw [indexOf_nodeOf (by omega), levelOf_nodeOf (by omega)]
  exact ((stable_iff_coord size bs k L hs hL v).mp hv).1

/-! ## the stable prefix of the post-order list is shared with every extension -/

theorem stable_count_le (size bs : Nat) :
    (persistedPost size bs).countP (isStable ⟨size, bs⟩) ≤ (persistedPost size bs).length :=
  List.countP_le_length

theorem stable_getElem {size size' bs : Nat} (hle : size ≤ size') (hs' : size' ≤ 2 ^ 63)
    (hbs : bs ≤ 10) (i : Nat)
    (hi : i < (persistedPost size bs).countP (isStable ⟨size, bs⟩)) :
    ∃ (h : i < (persistedPost size bs).length) (h' : i < (persistedPost size' bs).length),
      (persistedPost size' bs)[i] = (persistedPost size bs)[i] ∧
      isStable ⟨size, bs⟩ (persistedPost size bs)[i] = true := by
  have hs : size ≤ 2 ^ 63 := by omega
  have h : i < (persistedPost size bs).length := Nat.lt_of_lt_of_le hi (stable_count_le size bs)
  have hst := (prefix_of_pairwise (isStable ⟨size, bs⟩) _ (persistedPost_pairwise size bs hs) i h).mpr hi
  obtain ⟨v, hv⟩ := (isStable_iff _ _).mp hst
  have hval := (C12.post size bs hs hbs).2 i h
  rw [hv] at hval
  simp only [Option.map_some, Tree.PostOffset.value, Option.some.injEq] at hval
  subst hval
  have hv' := stable_mono size size' bs _ v hle hv
  have hmem := persistedPost_mono hle hs' (List.getElem_mem h)
  obtain ⟨j, hj, hje⟩ := List.getElem_of_mem hmem
  have hval' := (C12.post size' bs hs' hbs).2 j hj
  rw [hje, hv'] at hval'
  simp only [Option.map_some, Tree.PostOffset.value, Option.some.injEq] at hval'
  subst hval'
  exact ⟨h, hj, hje, hst⟩

theorem stable_count_le' {size size' bs : Nat} (hle : size ≤ size') (hs' : size' ≤ 2 ^ 63)
    (hbs : bs ≤ 10) :
    (persistedPost size bs).countP (isStable ⟨size, bs⟩) ≤ (persistedPost size' bs).length := by
  by_cases h0 : (persistedPost size bs).countP (isStable ⟨size, bs⟩) = 0
  · omega
  · obtain ⟨_, h', _⟩ := stable_getElem hle hs' hbs
      ((persistedPost size bs).countP (isStable ⟨size, bs⟩) - 1) (by omega)
    omega

theorem take_stable_eq {size size' bs : Nat} (hle : size ≤ size') (hs' : size' ≤ 2 ^ 63)
    (hbs : bs ≤ 10) :
    (persistedPost size bs).take ((persistedPost size bs).countP (isStable ⟨size, bs⟩))
      = (persistedPost size' bs).take ((persistedPost size bs).countP (isStable ⟨size, bs⟩)) := by
  have h1 := stable_count_le size bs
  have h2 := stable_count_le' hle hs' hbs
  apply List.ext_getElem
  · rw [List.length_take, List.length_take]; omega
  · intro i hi1 hi2
    rw [List.length_take] at hi1
    obtain ⟨_, _, he, _⟩ := stable_getElem hle hs' hbs i (by omega)
    rw [List.getElem_take, List.getElem_take, he]

theorem mem_take_stable {size bs x : Nat} (hs : size ≤ 2 ^ 63)
    (hx : x ∈ (persistedPost size bs).take ((persistedPost size bs).countP (isStable ⟨size, bs⟩))) :
    x ∈ persistedPost size bs ∧ isStable ⟨size, bs⟩ x = true := by
  refine ⟨List.mem_of_mem_take hx, ?_⟩
  obtain ⟨i, hi, rfl⟩ := List.getElem_of_mem hx
  rw [List.length_take] at hi
  rw [List.getElem_take]
  exact (prefix_of_pairwise (isStable ⟨size, bs⟩) _ (persistedPost_pairwise size bs hs) i
    (by omega)).mpr (by omega)

/-- the number of stable persisted nodes does not shrink when the blob grows -/
theorem stable_count_mono {size size' bs : Nat} (hle : size ≤ size') (hs' : size' ≤ 2 ^ 63)
    (hbs : bs ≤ 10) :
    (persistedPost size bs).countP (isStable ⟨size, bs⟩)
      ≤ (persistedPost size' bs).countP (isStable ⟨size', bs⟩) := by
  by_cases h0 : (persistedPost size bs).countP (isStable ⟨size, bs⟩) = 0
  · omega
  · obtain ⟨h, h', he, hst⟩ := stable_getElem hle hs' hbs
      ((persistedPost size bs).countP (isStable ⟨size, bs⟩) - 1) (by omega)
    obtain ⟨v, hv⟩ := (isStable_iff _ _).mp hst
    have hst' : isStable ⟨size', bs⟩ (persistedPost size' bs)[(persistedPost size bs).countP
        (isStable ⟨size, bs⟩) - 1] = true := by
      rw [he]; exact (isStable_iff _ _).mpr ⟨v, stable_mono size size' bs _ v hle hv⟩
    have := (prefix_of_pairwise (isStable ⟨size', bs⟩) _ (persistedPost_pairwise size' bs hs') _
      h').mp hst'
    omega

/-! ## cutting a concatenation of 64-byte blocks -/

theorem take_flatMap64 {α : Type} (l : List α) (f : α → List UInt8)
    (hf : ∀ x ∈ l, (f x).length = 64) (n : Nat) :
    (l.flatMap f).take (64 * n) = (l.take n).flatMap f := by
  induction l generalizing n with
  | nil => simp
  | cons a t ih =>
    cases n with
    | zero => simp
    | succ n =>
      have ha := hf a List.mem_cons_self
      rw [List.take_succ_cons, List.flatMap_cons, List.flatMap_cons, List.take_append,
        List.take_of_length_le (by omega), ha,
        show 64 * (n + 1) - 64 = 64 * n by omega,
        ih (fun x hx => hf x (List.mem_cons_of_mem _ hx))]

theorem flatMap_congr' {α β : Type} (l : List α) (f g : α → List β)
    (h : ∀ x ∈ l, f x = g x) : l.flatMap f = l.flatMap g := by
  induction l with
  | nil => rfl
  | cons a t ih =>
    rw [List.flatMap_cons, List.flatMap_cons, h a List.mem_cons_self,
      ih (fun x hx => h x (List.mem_cons_of_mem _ hx))]

theorem drop_flatMap64 {α : Type} (l : List α) (f : α → List UInt8)
    (hf : ∀ x ∈ l, (f x).length = 64) (n : Nat) :
    (l.flatMap f).drop (64 * n) = (l.drop n).flatMap f := by
  induction l generalizing n with
  | nil => simp
  | cons a t ih =>
    cases n with
    | zero => simp
    | succ n =>
      have ha := hf a List.mem_cons_self
      rw [List.drop_succ_cons, List.flatMap_cons, List.drop_append,
        List.drop_of_length_le (by omega), ha,
        show 64 * (n + 1) - 64 = 64 * n by omega,
        ih (fun x hx => hf x (List.mem_cons_of_mem _ hx)), List.nil_append]

/-! ## the outboards -/

section outboards
variable {H : Type} (hf : HashFns H)

/-- the post-order outboard, cut after `n` pairs -/
theorem postOutboard_take (hlen : ∀ h, (hf.toBytes h).length = 32) (d : List UInt8) (bs n : Nat) :
    (postOutboard hf d bs).take (64 * n) = ((persistedPost d.length bs).take n).flatMap (pairBytes hf d) :=
  take_flatMap64 _ _ (fun x _ => OutboardL.pairBytes_length hf hlen d x) n

/-- the 64 bytes at slot `i` of the post-order outboard are the pair of the `i`-th persisted node -/
theorem postOutboard_block (hlen : ∀ h, (hf.toBytes h).length = 32) (d : List UInt8) (bs i : Nat)
    (hi : i < (persistedPost d.length bs).length) :
    ((postOutboard hf d bs).drop (64 * i)).take 64 = pairBytes hf d (persistedPost d.length bs)[i] := by
  have := WriteAtL.blockAt_flatMap (persistedPost d.length bs) (pairBytes hf d)
    (fun x _ => OutboardL.pairBytes_length hf hlen d x) i hi
  unfold WriteAtL.blockAt at this
  rw [Nat.mul_comm]
  exact this

/-- the byte statement: cut after the stable pairs, the outboard of `d` equals the outboard of any
extension `d ++ e` cut at the same place -/
theorem postOutboard_stable_take (hlen : ∀ h, (hf.toBytes h).length = 32) (d e : List UInt8)
    (bs : Nat) (hs : (d ++ e).length ≤ 2 ^ 63) (hbs : bs ≤ 10) :
    (postOutboard hf d bs).take
        (64 * (persistedPost d.length bs).countP (isStable ⟨d.length, bs⟩))
      = (postOutboard hf (d ++ e) bs).take
        (64 * (persistedPost d.length bs).countP (isStable ⟨d.length, bs⟩)) := by
  have hle : d.length ≤ (d ++ e).length := by rw [List.length_append]; omega
  rw [postOutboard_take hf hlen, postOutboard_take hf hlen, ← take_stable_eq hle hs hbs]
  apply flatMap_congr'
  intro x hx
  obtain ⟨hxP, hst⟩ := mem_take_stable (by omega) hx
  exact (pairBytes_append hf d e x (stable_end (by omega) hxP hst)).symm

end outboards

end Bao.C13L
