import BaoProofs.Lemmas.EncL
import BaoProofs.Lemmas.PlanPreTop

/-!
# The plan of the validating encoder, from the C15 plan lemmas (C05)

For trees with `size ≤ 2^63`, `bs ≤ 10` (the range covered by `PlanPre*`): the plan iterator
does not panic, the pending-hash stack never underflows along the plan, and every leaf of the plan
lies inside the first `tree.size` bytes.
-/

namespace Bao.C05

theorem heightRun_eq_stackRun : ∀ (p : List Chunk) (h : Nat),
    heightRun h p = PlanPre.stackRun h p := by
  intro p
  induction p with
  | nil => intro h; rfl
  | cons c p ih =>
    intro h
    cases c <;> simp only [heightRun, PlanPre.stackRun, ih]

variable {H : Type}

theorem planOf_facts (ob : Store H) (hs : ob.tree.size ≤ 2 ^ 63) (hbs : ob.tree.bs ≤ 10)
    (q : Ranges) :
    ∃ plan, planOf ob q = some plan ∧ heightRun 1 plan ≠ none ∧
      ∀ start size ir rs, Chunk.leaf start size ir rs ∈ plan → toBytes start + size ≤ ob.tree.size := by
  rcases hte : ob.tree with ⟨size, bs⟩
  rw [hte] at hs hbs
  simp only at hs hbs
  simp only
  refine ⟨PlanPre.plan ⟨size, bs⟩ 0 (Ranges.truncate q size), ?_, ?_, ?_⟩
  · simp only [planOf, hte]
    exact PlanPre.planPre_refines size bs 0 _ hs hbs
  · rw [heightRun_eq_stackRun]
    by_cases hq : Ranges.truncate q size = []
    · rw [hq, PlanPre.plan_nil]
      simp [PlanPre.stackRun]
    · rw [PlanPre.plan_stack size bs 0 _ hs hbs hq]
      simp
  · exact PlanPre.plan_leaf_in_blob size bs 0 _ hs hbs

/-- error kinds on a real tree: `.ok`, a mismatch at a plan parent / plan leaf, or a panic caused by
`load` returning `None` / panicking for a parent node of the plan -/
theorem validated_kind_tree (hf : HashFns H) [BEq H] (fl : Flavour) (data : List UInt8)
    (ob : Store H) (q : Ranges) (hs : ob.tree.size ≤ 2 ^ 63) (hbs : ob.tree.bs ≤ 10)
    (hio : ∀ node e, ob.load hf fl node ≠ .err e) (hlen : ob.tree.size ≤ data.length) :
    ∃ plan, planOf ob q = some plan ∧
      ((encodeRangesValidated hf fl data ob q).terminal = .ok ∨
       (∃ node ir lf rf rs, Chunk.parent node ir lf rf rs ∈ plan ∧
         (encodeRangesValidated hf fl data ob q).terminal = .err (.parentHashMismatch node)) ∨
       (∃ start size ir rs, Chunk.leaf start size ir rs ∈ plan ∧
         (encodeRangesValidated hf fl data ob q).terminal = .err (.leafHashMismatch start)) ∨
       ((encodeRangesValidated hf fl data ob q).terminal = .panic ∧
         ∃ node ir lf rf rs, Chunk.parent node ir lf rf rs ∈ plan ∧
           (ob.load hf fl node = .panic ∨ ob.load hf fl node = .ok none))) := by
  obtain ⟨plan, hp, hh, hleaf⟩ := planOf_facts ob hs hbs q
  refine ⟨plan, hp, ?_⟩
  have hdata : ∀ plan', planOf ob q = some plan' → ∀ start size ir rs,
      Chunk.leaf start size ir rs ∈ plan' → toBytes start + size ≤ data.length := by
    intro plan' hp' start size ir rs hm
    rw [hp] at hp'
    cases hp'
    exact Nat.le_trans (hleaf start size ir rs hm) hlen
  rcases validated_kind hf fl data ob q hio hdata with h | ⟨p, n, ir, lf, rf, rs, hp', hm, h⟩ |
      ⟨p, s, z, ir, rs, hp', hm, h⟩ | ⟨h, hc⟩
  · exact .inl h
  · rw [hp] at hp'; cases hp'
    exact .inr (.inl ⟨n, ir, lf, rf, rs, hm, h⟩)
  · rw [hp] at hp'; cases hp'
    exact .inr (.inr (.inl ⟨s, z, ir, rs, hm, h⟩))
  · rcases hc with hn | ⟨p, hp', hu⟩ | ⟨p, n, ir, lf, rf, rs, hp', hm, hl⟩
    · rw [hp] at hn; cases hn
    · rw [hp] at hp'; cases hp'
      exact (hh hu).elim
    · rw [hp] at hp'; cases hp'
      exact .inr (.inr (.inr ⟨h, n, ir, lf, rf, rs, hm, hl⟩))

end Bao.C05
