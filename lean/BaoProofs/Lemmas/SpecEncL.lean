import BaoProofs.Lemmas.EncodeSpec
import BaoProofs.Lemmas.SpecObL
import BaoModel.Ops2

/-!
# Lemmas for `Props/C04SpecEnc.lean`: the `enc` verdict never rejects the model on an intact store

* part A – C04 (`encode_is_spec`, `encode_plain_is_spec`, `mixed_is_spec`) under the weaker hypothesis
  `SpecOb.OutLen hf` (only the OUTPUTS of `chunkCv` / `parentCv` have a 32-byte representation).  The
  driver's instance `realHash` represents a hash by its byte list, so `∀ h, (toBytes h).length = 32`
  (`EncodeSpec.Intact.hlen`) is false for it.  The only use of `hlen` in `Lemmas/EncodeSpec.lean` is
  `OutboardL.load_persisted` (in `parent_step`); the stored pairs are hash outputs (`SpecOb.cv_len`).
  `Intact'` is `EncodeSpec.Intact` with `OutLen`; the section `loop` of `EncodeSpec` is repeated with
  `load_persisted'` in that one place.
* part B – the store `Ops.intactStore kind d bs` is the intact store in the sense of `Intact'` for the
  four stored kinds, with root `Spec.root`.
* part C – the `let`s of `Ops.opEnc` as named definitions (`opEnc_eq`, by `rfl` after the argument
  parse), the verdict on the token list, the tokens of the model's line, `(dig b).splitOn ":"`.
-/

set_option maxRecDepth 8192

namespace Bao.SpecEnc
open Bao Bao.Spec Bao.Bits Bao.PlanPre Bao.EncodeSpec Bao.SpecOb Bao.Ops Bao.Proto Bao.SpecIndex

variable {H : Type}

/-! ## A. C04 for instances whose hash OUTPUTS are 32 bytes -/

theorem parsePair_pairBytes' (hf : HashFns H) (hol : OutLen hf)
    (hrt : ∀ h, hf.ofBytes (hf.toBytes h) = h) (d : List UInt8) (x : Nat) :
    parsePair hf (pairBytes hf d x) = Spec.pair hf d (indexOf x) (levelOf x) := by
  unfold parsePair pairBytes Spec.pair
  simp only
  rw [List.take_left' (cv_len hf hol _ _ _ _), List.drop_left' (cv_len hf hol _ _ _ _),
    List.take_of_length_le (by rw [cv_len hf hol]; omega), hrt, hrt]

/-- `OutboardL.load_persisted` under `OutLen` -/
theorem load_persisted' (hf : HashFns H) (hol : OutLen hf)
    (hrt : ∀ h, hf.ofBytes (hf.toBytes h) = h) (d : List UInt8) (bs : Nat)
    (hs : d.length ≤ 2 ^ 63) (hbs : bs ≤ 10) (fl : Flavour) (ob : Store H)
    (htree : ob.tree = ⟨d.length, bs⟩)
    (hk : ((ob.kind = .preIo ∨ ob.kind = .preMem) ∧ ob.data = Spec.preOutboard hf d bs) ∨
          ((ob.kind = .postIo ∨ ob.kind = .postMem) ∧ ob.data = Spec.postOutboard hf d bs))
    (x : Nat) (hx : x ∈ persistedPre d.length bs) :
    ob.load hf fl x = .ok (some (Spec.pair hf d (indexOf x) (levelOf x))) := by
  rcases hk with ⟨hk, hd⟩ | ⟨hk, hd⟩
  · obtain ⟨i, hi, rfl⟩ := List.getElem_of_mem hx
    have hne : ob.kind ≠ .empty := by rcases hk with h | h <;> simp [h]
    rw [OutboardL.load_gen hf fl ob hne _ (pairBytes hf d) (fun x _ => pairBytes_len hf hol d x) hd i hi,
      parsePair_pairBytes' hf hol hrt]
    rw [OutboardL.slot_pre hk, htree]
    exact (C12.pre d.length bs hs hbs).2 i hi
  · have hx' := (OutboardL.persistedPost_perm d.length bs hs).mem_iff.mpr hx
    obtain ⟨i, hi, rfl⟩ := List.getElem_of_mem hx'
    have hne : ob.kind ≠ .empty := by rcases hk with h | h <;> simp [h]
    rw [OutboardL.load_gen hf fl ob hne _ (pairBytes hf d) (fun x _ => pairBytes_len hf hol d x) hd i hi,
      parsePair_pairBytes' hf hol hrt]
    rw [OutboardL.slot_post hk, htree]
    exact (C12.post d.length bs hs hbs).2 i hi

/-- the store is the intact outboard of blob `d` at block size `bs` (`EncodeSpec.Intact` with the
output-only length hypothesis) -/
structure Intact' (hf : HashFns H) (d : List UInt8) (bs : Nat) (st : Store H) : Prop where
  hol : OutLen hf
  hrt : ∀ h, hf.ofBytes (hf.toBytes h) = h
  hs : d.length ≤ 2 ^ 63
  hbs : bs ≤ 10
  tree : st.tree = ⟨d.length, bs⟩
  data : ((st.kind = .preIo ∨ st.kind = .preMem) ∧ st.data = Spec.preOutboard hf d bs) ∨
         ((st.kind = .postIo ∨ st.kind = .postMem) ∧ st.data = Spec.postOutboard hf d bs)

theorem intact'_of_intact {hf : HashFns H} {d : List UInt8} {bs : Nat} {st : Store H}
    (h : Intact hf d bs st) : Intact' hf d bs st :=
  ⟨outLen_of_hlen hf h.hlen, h.hrt, h.hs, h.hbs, h.tree, h.data⟩

section loop
variable {hf : HashFns H} [BEq H] [LawfulBEq H] {d : List UInt8} {bs : Nat} {st : Store H}
  (hI : Intact' hf d bs st) (fl : Flavour) (sel : Nat → Bool)

include hI in
theorem leaf_step' {j a : Nat} {rs : Ranges} (flag : Bool) (ha : a = j * 2 ^ bs)
    (han : a < nChunks d.length) (hr : Repr d.length sel rs a (a + 2 ^ bs)) {sz : Nat}
    (hsz : sz = min ((a + 2 ^ bs) * 1024) d.length - a * 1024)
    (rest : List Chunk) (stk : List H) (out : List UInt8) :
    encodeValidatedLoop hf fl d st (.leaf a sz flag rs :: rest)
        (cv hf d a (min (a + 2 ^ bs) (nChunks d.length)) flag :: stk) out
      = encodeValidatedLoop hf fl d st rest stk
          (out ++ bytesI hf d (nChunks d.length) bs sel bs j) := by
  have hbs := hI.hbs
  have hdn := length_le_nChunks d.length
  have hread := readExactAt_slice (d := d) han (two_pow_pos' bs) hsz
  have hAW : C05.leafAW hf st.tree.bs a (slice d a (a + 2 ^ bs)) flag rs =
      (cv hf d a (min (a + 2 ^ bs) (nChunks d.length)) flag,
        bytesI hf d (nChunks d.length) bs sel bs j) := by
    rw [hI.tree]
    unfold C05.leafAW
    cases hal : Ranges.isAll rs with
    | false =>
      simp only [Bool.not_false, if_true]
      exact rec_spec hf d bs sel (by omega) flag recFuel (by unfold recFuel; omega)
        (by unfold recFuel; omega) ha (Nat.le_refl _) han hr
    | true =>
      simp only [Bool.not_true, Bool.false_eq_true, if_false]
      have hall : allSel sel a (min (a + 2 ^ bs) (nChunks d.length)) = true := by
        apply allSel_eq_true.2
        intro c h1 h2
        rw [← hr.agree c h1 (by omega), isAll_eq hal, selected_all]
        simp only [decide_eq_true_eq]; omega
      rw [bytesI_full bs j a ha (Nat.le_refl _) han hall, slice_clip d hdn]
      unfold cv
      rw [slice_clip d hdn]
  have hstep : C05.encStep hf fl d st (.leaf a sz flag rs)
      (cv hf d a (min (a + 2 ^ bs) (nChunks d.length)) flag :: stk)
      = .cont stk (bytesI hf d (nChunks d.length) bs sel bs j) :=
    (C05.step_leaf_cont hf fl d st).2
      ⟨_, _, rfl, hread, by rw [hAW]; exact bne_self_eq_false _, by rw [hAW]⟩
  rw [C05.loop_cons, hstep]

include hI in
theorem leaf_sub' {j a : Nat} {rs : Ranges} (ha : a = j * 2 ^ bs)
    (han : a < nChunks d.length) (hr : Repr d.length sel rs a (a + 2 ^ bs)) {sz : Nat}
    (hsz : sz = min ((a + 2 ^ bs) * 1024) d.length - a * 1024)
    (rest : List Chunk) (stk : List H) (out : List UInt8) :
    encodeValidatedLoop hf fl d st ((if rs.isEmpty then [] else [Chunk.leaf a sz false rs]) ++ rest)
        ((if rs.isEmpty then [] else [cv hf d a (min (a + 2 ^ bs) (nChunks d.length)) false]) ++ stk)
        out
      = encodeValidatedLoop hf fl d st rest stk
          (out ++ bytesI hf d (nChunks d.length) bs sel bs j) := by
  have hpos := two_pow_pos' bs
  by_cases hne : rs = []
  · have hany := (repr_nil_iff hr (by omega) han).1 hne
    rw [isEmpty_eq_true_of_nil hne, bytesI_none ha han hany]
    simp
  · rw [isEmpty_eq_false hne]
    simp only [Bool.false_eq_true, if_false, List.cons_append, List.nil_append]
    exact leaf_step' hI fl sel false ha han hr hsz rest stk out

include hI in
theorem parent_step' {k M : Nat} (hbM : bs ≤ M) (hM : M < 64)
    (hmid : midOf k M < nChunks d.length) (flag lf rf : Bool) (rs : Ranges)
    (rest : List Chunk) (stk : List H) (out : List UInt8) :
    encodeValidatedLoop hf fl d st (.parent (nodeOf k M) flag lf rf rs :: rest)
        (cv hf d (startOf k M) (min (endOf k M) (nChunks d.length)) flag :: stk) out
      = encodeValidatedLoop hf fl d st rest
          (C05.pushLR lf rf (cv hf d (startOf k M) (midOf k M) false)
            (cv hf d (midOf k M) (min (endOf k M) (nChunks d.length)) false) stk)
          (out ++ (hf.toBytes (cv hf d (startOf k M) (midOf k M) false) ++
            hf.toBytes (cv hf d (midOf k M) (min (endOf k M) (nChunks d.length)) false))) := by
  have hp := two_pow_pos' M
  have hload : st.load hf fl (nodeOf k M) = .ok (some
      (cv hf d (startOf k M) (midOf k M) false,
       cv hf d (midOf k M) (min (endOf k M) (nChunks d.length)) false)) := by
    rw [load_persisted' hf hI.hol hI.hrt d bs hI.hs hI.hbs fl st hI.tree hI.data _
      (mem_persistedPre d.length bs k M hI.hs hbM hmid),
      indexOf_nodeOf (by omega), levelOf_nodeOf (by omega)]
    rfl
  have hmlen : midOf k M * 1024 < d.length :=
    (Offsets.lt_nChunks_iff d.length (midOf k M) (by rw [midOf_eq]; omega)).mp hmid
  have hsplit := OutboardL.cv_split hf d (a := startOf k M) (m := midOf k M)
    (b := min (endOf k M) (nChunks d.length)) (j := M) hM
    (by rw [startOf_eq, midOf_eq])
    (by rw [endOf_eq, midOf_eq] at *; omega) (by rw [endOf_eq, midOf_eq]; omega) hmlen flag
  have hstep : C05.encStep hf fl d st (.parent (nodeOf k M) flag lf rf rs)
      (cv hf d (startOf k M) (min (endOf k M) (nChunks d.length)) flag :: stk)
      = .cont (C05.pushLR lf rf (cv hf d (startOf k M) (midOf k M) false)
            (cv hf d (midOf k M) (min (endOf k M) (nChunks d.length)) false) stk)
          (hf.toBytes (cv hf d (startOf k M) (midOf k M) false) ++
            hf.toBytes (cv hf d (midOf k M) (min (endOf k M) (nChunks d.length)) false)) :=
    (C05.step_parent_cont hf fl d st).2
      ⟨_, _, _, _, hload, rfl, by rw [← hsplit]; exact bne_self_eq_false _, rfl, rfl⟩
  rw [C05.loop_cons, hstep]

include hI in
theorem node_run' {k M : Nat} (hbM : bs ≤ M) (hM : M < 64) (hmid : midOf k M < nChunks d.length)
    (flag : Bool) {rs : Ranges} (hne : rs ≠ [])
    (hr : Repr d.length sel rs (startOf k M) (endOf k M)) (planL planR : List Chunk)
    (lq rq : Ranges)
    (hL : ∀ rest stk out, encodeValidatedLoop hf fl d st (planL ++ rest)
        ((if lq.isEmpty then [] else [cv hf d (startOf k M) (midOf k M) false]) ++ stk) out
      = encodeValidatedLoop hf fl d st rest stk
          (out ++ bytesI hf d (nChunks d.length) bs sel M (2 * k)))
    (hR : ∀ rest stk out, encodeValidatedLoop hf fl d st (planR ++ rest)
        ((if rq.isEmpty then []
          else [cv hf d (midOf k M) (min (endOf k M) (nChunks d.length)) false]) ++ stk) out
      = encodeValidatedLoop hf fl d st rest stk
          (out ++ bytesI hf d (nChunks d.length) bs sel M (2 * k + 1)))
    (rest : List Chunk) (stk : List H) (out : List UInt8) :
    encodeValidatedLoop hf fl d st
        (.parent (nodeOf k M) flag (!lq.isEmpty) (!rq.isEmpty) rs :: (planL ++ planR) ++ rest)
        (cv hf d (startOf k M) (min (endOf k M) (nChunks d.length)) flag :: stk) out
      = encodeValidatedLoop hf fl d st rest stk
          (out ++ bytesI hf d (nChunks d.length) bs sel (M + 1) k) := by
  have hpos := two_pow_pos' M
  have hp := pow_succ_two M
  have ha : startOf k M = k * 2 ^ (M + 1) := rfl
  have hm : midOf k M = startOf k M + 2 ^ M := midOf_eq_start_add k M
  have he : endOf k M = startOf k M + 2 ^ (M + 1) := Offsets.endOf_start k M
  have han : startOf k M < nChunks d.length := by omega
  have hany : anySel sel (startOf k M) (min (startOf k M + 2 ^ (M + 1)) (nChunks d.length)) = true := by
    cases hx : anySel sel (startOf k M) (min (startOf k M + 2 ^ (M + 1)) (nChunks d.length)) with
    | true => rfl
    | false => rw [← he] at hx; exact (hne ((repr_nil_iff hr (by omega) han).2 hx)).elim
  have hdec : decide (M + 1 ≤ bs) = false := by simp; omega
  rw [List.cons_append, List.append_assoc, parent_step' hI fl hbM hM hmid, pushLR_eq, hL, hR,
    bytesI_succ_split ha (by omega), hany, hdec, ← hm, ← he]
  simp only [Bool.not_true, Bool.false_eq_true, if_false, Bool.and_false, List.append_assoc]

include hI in
/-- `EncodeSpec.loop_sub` under `Intact'` -/
theorem loop_sub' {filled R : Nat} (g : Geo d.length bs filled) (hroot : nodeOf 0 R < filled)
    (L k : Nat) (rs : Ranges) :
    Repr d.length sel rs (startOf k (L + bs)) (endOf k (L + bs)) → L ≤ R → (L = R → k = 0) →
    startOf k (L + bs) < nChunks d.length →
    ∀ (rest : List Chunk) (stk : List H) (out : List UInt8),
      encodeValidatedLoop hf fl d st (planPre d.length bs 0 filled (nodeOf 0 R) L k rs ++ rest)
        ((if rs.isEmpty then []
          else [cv hf d (startOf k (L + bs)) (min (endOf k (L + bs)) (nChunks d.length))
            (nodeOf k L == nodeOf 0 R)]) ++ stk) out
      = encodeValidatedLoop hf fl d st rest stk
          (out ++ bytesI hf d (nChunks d.length) bs sel (L + bs + 1) k) := by
  refine planPre_induct (size := d.length) (bs := bs) (ml := 0) (filled := filled)
    (root := nodeOf 0 R)
    (P := fun L k rs p =>
      Repr d.length sel rs (startOf k (L + bs)) (endOf k (L + bs)) → L ≤ R → (L = R → k = 0) →
      startOf k (L + bs) < nChunks d.length →
      ∀ (rest : List Chunk) (stk : List H) (out : List UInt8),
        encodeValidatedLoop hf fl d st (p ++ rest)
          ((if rs.isEmpty then []
            else [cv hf d (startOf k (L + bs)) (min (endOf k (L + bs)) (nChunks d.length))
              (nodeOf k L == nodeOf 0 R)]) ++ stk) out
        = encodeValidatedLoop hf fl d st rest stk
            (out ++ bytesI hf d (nChunks d.length) bs sel (L + bs + 1) k))
    ?_ ?_ ?_ ?_ ?_ ?_ ?_ L k rs
  · -- empty range set
    intro L k hr _ _ han rest stk out
    have hse := startOf_lt_endOf k (L + bs)
    have hany := (repr_nil_iff hr hse han).1 rfl
    rw [Offsets.endOf_start] at hany
    rw [bytesI_none (a := startOf k (L + bs)) rfl han hany]
    simp
  · -- a non-existing group with a non-empty range set: impossible
    intro k rs _ hge _ _ _ han
    have := g.sub_exists (k := k) (L := 0) han
    rw [Offsets.startOf_zero] at this
    rw [Offsets.nodeOf_zero] at hge
    omega
  · -- a non-existing inner node: its left child takes its place
    intro L k rs hne hge ih hr hL _ han rest stk out
    have hmN := g.skip_mid_ge hge
    have hme := midOf_lt_endOf k (L + 1 + bs)
    have hr' : Repr d.length sel rs (startOf (2 * k) (L + bs)) (endOf (2 * k) (L + bs)) := by
      rw [child_ls, child_le]; exact repr_skip hr hmN (by omega)
    have := ih hr' (by omega) (by omega) (by rw [child_ls]; exact han) rest stk out
    rw [child_ls, child_le, nodeOf_beq_false (by omega : L < R)] at this
    have hf2 : (nodeOf k (L + 1) == nodeOf 0 R) = false := by
      rw [beq_eq_false_iff_ne]; omega
    have e : L + 1 + bs + 1 = (L + bs + 1) + 1 := by omega
    have hm2 : midOf k (L + 1 + bs) = startOf k (L + 1 + bs) + 2 ^ (L + bs + 1) := by
      rw [midOf_eq_start_add]; congr 2; omega
    rw [hf2, e, bytesI_succ_skip (a := startOf k (L + 1 + bs)) (by unfold startOf; rw [e]) han
      (by omega), Nat.min_eq_right (by omega : nChunks d.length ≤ endOf k (L + 1 + bs))]
    rw [Nat.min_eq_right hmN] at this
    exact this
  · -- query leaf: does not occur for `min_full_level = 0`
    intro L k rs _ _ hq
    have := queryLeaf_lt hq
    omega
  · -- the half leaf
    intro k rs hne hlt _ hh hr _ _ han rest stk out
    simp only [Nat.zero_add] at hr han ⊢
    have hsm := startOf_lt_midOf k bs
    have hm : midOf k bs = startOf k bs + 2 ^ bs := midOf_eq_start_add k bs
    have he : endOf k bs = midOf k bs + 2 ^ bs := endOf_eq_mid_add k bs
    have hmN := nChunks_le_of_le_toBytes (by omega) hh
    have hr' : Repr d.length sel rs (startOf k bs) (startOf k bs + 2 ^ bs) := by
      rw [← hm]; exact repr_skip hr hmN (by omega)
    have ha : startOf k bs = 2 * k * 2 ^ bs := left_start rfl
    rw [isEmpty_eq_false hne]
    simp only [Bool.false_eq_true, if_false, List.cons_append, List.nil_append, nodeLeaf,
      Nat.zero_add]
    have emin : min (endOf k bs) (nChunks d.length)
        = min (startOf k bs + 2 ^ bs) (nChunks d.length) := by omega
    rw [bytesI_succ_skip (a := startOf k bs) rfl han (by omega), emin]
    refine leaf_step' hI fl sel _ ha han hr' ?_ rest stk out
    unfold toBytes at hh ⊢
    have : (startOf k bs + 2 ^ bs) * 1024 = startOf k bs * 1024 + 2 ^ bs * 1024 := Nat.add_mul _ _ _
    omega
  · -- two chunk groups below an existing node
    intro k rs hne hlt _ hh hr _ _ han rest stk out
    simp only [Nat.zero_add] at hr han ⊢
    have hmN : midOf k bs < nChunks d.length := lt_nChunks_of_toBytes_lt hh
    have hsm := startOf_lt_midOf k bs
    have hm : midOf k bs = startOf k bs + 2 ^ bs := midOf_eq_start_add k bs
    have he : endOf k bs = midOf k bs + 2 ^ bs := endOf_eq_mid_add k bs
    have hLb := OutboardL.level_bound (k := k) (L := 0) hI.hs
      ((Offsets.exists_iff d.length bs k 0).1 (by rw [Nat.zero_add]; exact hmN))
    have hrl := repr_left hr hsm (by omega) hmN
    have hrr := repr_right hr (Nat.le_of_lt hsm) (by omega)
    rw [hm] at hrl; rw [he] at hrr
    rw [isEmpty_eq_false hne]
    simp only [Bool.false_eq_true, if_false, List.cons_append, List.nil_append]
    have hL := fun rest stk out => leaf_sub' hI fl sel (j := 2 * k) (a := startOf k bs)
      (sz := toBytes (midOf k bs) - toBytes (startOf k bs)) (left_start rfl) han hrl
      (by unfold toBytes at hh ⊢; rw [← hm]; omega) rest stk out
    have hR := fun rest stk out => leaf_sub' hI fl sel (j := 2 * k + 1) (a := midOf k bs)
      (sz := min (toBytes (endOf k bs)) d.length - toBytes (midOf k bs))
      (by rw [hm]; exact right_start rfl) hmN hrr (by unfold toBytes; rw [← he]) rest stk out
    rw [← hm, Nat.min_eq_left (Nat.le_of_lt hmN)] at hL
    rw [← he] at hR
    have := node_run' hI fl sel (k := k) (M := bs) (Nat.le_refl _) (by omega) hmN
      (nodeOf k 0 == nodeOf 0 R) hne hr _ _ (Ranges.splitInner rs (startOf k bs) (midOf k bs)).1
      (Ranges.splitInner rs (startOf k bs) (midOf k bs)).2 hL hR rest stk out
    simp only [nodeParent, leftLeaf, rightLeaf, lq, rq, Nat.zero_add]
    exact this
  · -- an existing inner node
    intro L k rs hne hlt _ ihl ihr hr hL hk han rest stk out
    have hmN := g.mid_lt_nChunks hlt
    have hsm := startOf_lt_midOf k (L + 1 + bs)
    have hme := midOf_lt_endOf k (L + 1 + bs)
    have hLb := OutboardL.level_bound (k := k) (L := L + 1) hI.hs
      ((Offsets.exists_iff d.length bs k (L + 1)).1 hmN)
    have hLb2 : L + 1 + bs < 64 := by omega
    have hrl := repr_left hr hsm (by omega) hmN
    have hrr := repr_right hr (Nat.le_of_lt hsm) (by omega)
    rw [isEmpty_eq_false hne]
    simp only [Bool.false_eq_true, if_false, List.cons_append, List.nil_append]
    have hLl := fun rest stk out => ihl (by rw [child_ls, child_le]; exact hrl) (by omega)
      (by omega) (by rw [child_ls]; exact han) rest stk out
    have hRr := fun rest stk out => ihr (by rw [child_rs, child_re]; exact hrr) (by omega)
      (by omega) (by rw [child_rs]; exact hmN) rest stk out
    simp only [child_ls, child_le, child_rs, child_re, nodeOf_beq_false (by omega : L < R),
      Nat.min_eq_left (Nat.le_of_lt hmN)] at hLl hRr
    have e : L + 1 + bs + 1 = (L + 1 + bs) + 1 := rfl
    have e2 : L + bs + 1 = L + 1 + bs := by omega
    rw [e2] at hLl hRr
    have := node_run' hI fl sel (k := k) (M := L + 1 + bs) (by omega) hLb2 hmN
      (nodeOf k (L + 1) == nodeOf 0 R) hne hr _ _ (lq bs (L + 1) k rs) (rq bs (L + 1) k rs)
      hLl hRr rest stk out
    simp only [nodeParent]
    exact this

end loop

/-- **C04 `encode_is_spec` under `Intact'`**: the validating encoder emits the honest encoding (both
flavours, all four stored outboard kinds), and every hash comparison succeeds -/
theorem validated_spec' {hf : HashFns H} [BEq H] [LawfulBEq H] {d : List UInt8} {bs : Nat}
    {st : Store H} (hI : Intact' hf d bs st) (hroot : st.root = Spec.root hf d) (fl : Flavour)
    {q : Ranges} (hwf : Ranges.WF q = true) :
    encodeRangesValidated hf fl d st q = ⟨Spec.encode hf d bs q, .ok⟩ := by
  have hn := Ranges.nChunks_pos d.length
  obtain ⟨hR63, hrootE, hrootlt⟩ := rootLevel_spec d.length bs hI.hs
  have g := shifted_geo d.length bs hI.hs hI.hbs
  have hcov := rootLevel_covers d.length bs hI.hs
  have hplan := C15.pre_refines (size := d.length) (bs := bs) (ml := 0)
    (q := Ranges.truncate q d.length) hI.hs hI.hbs
  unfold encodeRangesValidated
  rw [hI.tree]
  simp only
  rw [hplan, plan_eq _ _ _ _ hI.hs]
  by_cases htr : Ranges.truncate q d.length = []
  · rw [htr, planPre_nil, encode_nil_of_not_selected hf d bs
      ((C14.truncate_empty_iff d.length hwf).1 htr)]
    split <;> simp [encodeValidatedLoop]
  · have hq : q.isEmpty = false := by
      apply isEmpty_eq_false
      rintro rfl
      exact htr rfl
    simp only [hq, Bool.and_false, Bool.false_eq_true, if_false]
    have hrepr : Repr d.length (Spec.selected d.length q) (Ranges.truncate q d.length)
        (startOf 0 (rootLevel ⟨d.length, bs⟩ + bs)) (endOf 0 (rootLevel ⟨d.length, bs⟩ + bs)) := by
      rw [startOf_zero_left]; exact repr_root hwf hcov
    have := loop_sub' hI fl (Spec.selected d.length q) g hrootlt (rootLevel ⟨d.length, bs⟩) 0
      (Ranges.truncate q d.length) hrepr (Nat.le_refl _) (fun _ => rfl)
      (by rw [startOf_zero_left]; exact hn) [] [] []
    rw [List.append_nil, isEmpty_eq_false htr, startOf_zero_left, Nat.min_eq_right hcov] at this
    simp only [Bool.false_eq_true, if_false, beq_self_eq_true, List.append_nil,
      List.nil_append] at this
    have hr : st.root = cv hf d 0 (nChunks d.length) true := hroot
    rw [hr, this, C05.loop_nil, encode_eq_bytesI]
    congr 1
    have h1 : nChunks d.length ≤ 2 ^ (rootLevel ⟨d.length, bs⟩ + bs + 1) := by
      have e : endOf 0 (rootLevel ⟨d.length, bs⟩ + bs) = 2 ^ (rootLevel ⟨d.length, bs⟩ + bs + 1) := by
        unfold endOf; omega
      omega
    have h2 := Offsets.log2ceil_spec 64 (nChunks d.length) (Offsets.nChunks_le d.length hI.hs)
    rcases Nat.le_total (rootLevel ⟨d.length, bs⟩ + bs + 1) (log2ceil 64 (nChunks d.length))
      with hle | hle
    · exact (bytesI_top hn _ _ h1 hle).symm
    · exact bytesI_top hn _ _ h2 hle

/-! ## B. the driver's intact store -/

/-- C04 `encode_is_spec` with `OutLen` in place of `hlen` -/
theorem encode_is_spec' {hf : HashFns H} [BEq H] [LawfulBEq H] {d : List UInt8} {bs : Nat}
    {st : Store H} (hol : OutLen hf)
    (hrt : ∀ h, hf.ofBytes (hf.toBytes h) = h) (hs : d.length ≤ 2 ^ 63) (hbs : bs ≤ 10)
    (htree : st.tree = ⟨d.length, bs⟩) (hroot : st.root = Spec.root hf d)
    (hdata : ((st.kind = .preIo ∨ st.kind = .preMem) ∧ st.data = Spec.preOutboard hf d bs) ∨
             ((st.kind = .postIo ∨ st.kind = .postMem) ∧ st.data = Spec.postOutboard hf d bs))
    (fl : Flavour) {q : Ranges} (hwf : Ranges.WF q = true) :
    encodeRangesValidated hf fl d st q = ⟨Spec.encode hf d bs q, .ok⟩ :=
  validated_spec' ⟨hol, hrt, hs, hbs, htree, hdata⟩ hroot fl hwf

/-- C04 `encode_plain_is_spec` with `OutLen` -/
theorem encode_plain_is_spec' {hf : HashFns H} [BEq H] [LawfulBEq H] {d : List UInt8} {bs : Nat}
    {st : Store H} (hol : OutLen hf)
    (hrt : ∀ h, hf.ofBytes (hf.toBytes h) = h) (hs : d.length ≤ 2 ^ 63) (hbs : bs ≤ 10)
    (htree : st.tree = ⟨d.length, bs⟩) (hroot : st.root = Spec.root hf d)
    (hdata : ((st.kind = .preIo ∨ st.kind = .preMem) ∧ st.data = Spec.preOutboard hf d bs) ∨
             ((st.kind = .postIo ∨ st.kind = .postMem) ∧ st.data = Spec.postOutboard hf d bs))
    (fl : Flavour) {q : Ranges} (hwf : Ranges.WF q = true) :
    encodeRanges hf fl d st q = ⟨Spec.encode hf d bs q, .ok⟩ := by
  have h := encode_is_spec' hol hrt hs hbs htree hroot hdata fl hwf
  rw [C08.plain_eq_validated_of_ok hf fl d st q (by rw [h]), h]

/-- C04 `mixed_is_spec` with `OutLen` -/
theorem mixed_is_spec' {hf : HashFns H} [BEq H] [LawfulBEq H] {d : List UInt8} {bs : Nat}
    {st : Store H} (hol : OutLen hf)
    (hrt : ∀ h, hf.ofBytes (hf.toBytes h) = h) (hs : d.length ≤ 2 ^ 63) (hbs : bs ≤ 10)
    (htree : st.tree = ⟨d.length, bs⟩) (hroot : st.root = Spec.root hf d)
    (hdata : ((st.kind = .preIo ∨ st.kind = .preMem) ∧ st.data = Spec.preOutboard hf d bs) ∨
             ((st.kind = .postIo ∨ st.kind = .postMem) ∧ st.data = Spec.postOutboard hf d bs))
    {q : Ranges} (hwf : Ranges.WF q = true) :
    ∃ items, traverseRangesValidated hf d st q = some items ∧
      items.flatMap (EncodedItem.flatten hf) = Spec.encode hf d bs q ∧
      items.getLast? = some .done := by
  have hv := encode_is_spec' hol hrt hs hbs htree hroot hdata .sync hwf
  cases h : traverseRangesValidated hf d st q with
  | none =>
    have := (C08.mixed_panic hf d st q).1 h
    rw [hv] at this
    cases this
  | some items =>
    obtain ⟨mid, last, -, -, hlast, hterm, hflat⟩ := C08.mixed_flatten hf d st q items h
    rw [hv] at hterm hflat
    refine ⟨items, rfl, hflat, ?_⟩
    rcases hterm with ⟨rfl, -⟩ | ⟨e, -, he⟩
    · exact hlast
    · cases he

/-- the store `opEnc` builds for a post-order kind: root and post-order outboard of the blob -/
theorem intactStore_post (kind : StoreKind) (hk : isPostKind kind = true) (d : List UInt8) (bs : Nat)
    (hs : d.length ≤ 2 ^ 63) (hbs : bs ≤ 10) :
    intactStore kind d bs = ⟨kind, Spec.root hf d, ⟨d.length, bs⟩, Spec.postOutboard hf d bs⟩ := by
  unfold intactStore
  simp only [hk, if_true]
  rw [OutboardL.writer_run hf d bs hs hbs]

/-- … for the other kinds (also `empty`): root and pre-order outboard -/
theorem intactStore_pre (kind : StoreKind) (hk : isPostKind kind = false) (d : List UInt8) (bs : Nat)
    (hs : d.length ≤ 2 ^ 63) (hbs : bs ≤ 10) :
    intactStore kind d bs = ⟨kind, Spec.root hf d, ⟨d.length, bs⟩, Spec.preOutboard hf d bs⟩ := by
  unfold intactStore
  simp only [hk, Bool.false_eq_true, if_false]
  have := outboard_run_pre' hf hf_outLen d bs hs hbs
    { kind := .preMem, root := [], tree := ⟨d.length, bs⟩,
      data := zerosN (Tree.outboardSize ⟨d.length, bs⟩) } rfl (.inr ⟨rfl, length_zerosN _⟩)
  simp only at this
  rw [this]

theorem intactStore_tree (kind : StoreKind) (d : List UInt8) (bs : Nat) :
    (intactStore kind d bs).tree = ⟨d.length, bs⟩ := by
  unfold intactStore
  split <;> rfl

theorem intactStore_kind (kind : StoreKind) (d : List UInt8) (bs : Nat) :
    (intactStore kind d bs).kind = kind := by
  unfold intactStore
  split <;> rfl

theorem intactStore_root (kind : StoreKind) (d : List UInt8) (bs : Nat)
    (hs : d.length ≤ 2 ^ 63) (hbs : bs ≤ 10) :
    (intactStore kind d bs).root = Spec.root hf d := by
  cases hk : isPostKind kind
  · rw [intactStore_pre kind hk d bs hs hbs]
  · rw [intactStore_post kind hk d bs hs hbs]

/-- the `hdata` hypothesis of C04 for the driver's store, every stored kind -/
theorem intactStore_data (kind : StoreKind) (hne : kind ≠ .empty) (d : List UInt8) (bs : Nat)
    (hs : d.length ≤ 2 ^ 63) (hbs : bs ≤ 10) :
    (((intactStore kind d bs).kind = .preIo ∨ (intactStore kind d bs).kind = .preMem) ∧
        (intactStore kind d bs).data = Spec.preOutboard hf d bs) ∨
    (((intactStore kind d bs).kind = .postIo ∨ (intactStore kind d bs).kind = .postMem) ∧
        (intactStore kind d bs).data = Spec.postOutboard hf d bs) := by
  cases kind with
  | empty => exact (hne rfl).elim
  | preIo => rw [intactStore_pre _ rfl d bs hs hbs]; exact .inl ⟨.inl rfl, rfl⟩
  | preMem => rw [intactStore_pre _ rfl d bs hs hbs]; exact .inl ⟨.inr rfl, rfl⟩
  | postIo => rw [intactStore_post _ rfl d bs hs hbs]; exact .inr ⟨.inl rfl, rfl⟩
  | postMem => rw [intactStore_post _ rfl d bs hs hbs]; exact .inr ⟨.inr rfl, rfl⟩

/-- the driver's intact store is intact in the sense of C04 (with `OutLen`) -/
theorem intactStore_intact (kind : StoreKind) (hne : kind ≠ .empty) (d : List UInt8) (bs : Nat)
    (hs : d.length ≤ 2 ^ 63) (hbs : bs ≤ 10) : Intact' hf d bs (intactStore kind d bs) :=
  ⟨hf_outLen, fun _ => rfl, hs, hbs, intactStore_tree kind d bs, intactStore_data kind hne d bs hs hbs⟩

/-! ## C. the operation -/

/-- the flavour argument with the `syncw<k>` sink modifier removed -/
def flOf (fl : String) : String := if fl.startsWith "syncw" then "sync" else fl

/-- `(m, isMixed)` of `opEnc`: the model's output line and whether it is an item stream -/
def encModel (d' : List UInt8) (st : Store HB) (fl mode : String) (ranges : Ranges) : String × Bool :=
  if fl == "mixed" then
    match traverseRangesValidated hf d' st ranges with
    | none => ("panic", true)
    | some items =>
      let flat := items.flatMap (EncodedItem.flatten hf)
      let term := match items.getLast? with
        | some .done => "Ok"
        | some (.error e) => encErrStr e
        | _ => "none"
      (s!"{term} {dig flat} framing=1", true)
  else
    let f := if fl == "fsm" then Flavour.fsm else Flavour.sync
    let r := if mode == "val" then encodeRangesValidated hf f d' st ranges else encodeRanges hf f d' st ranges
    (s!"{encEndStr r.terminal} {dig r.out}", false)

/-- the verdict of `enc` on the tokens of the implementation's output (`d`, `st0`: the blob and its
intact store; `d'`, `ob'`: after the corruptions `cor`) -/
def encVerdictT (d d' ob' : List UInt8) (st0 : Store HB) (kind : StoreKind) (bs : Nat)
    (ranges : Ranges) (cor fl mode : String) (isMixed : Bool) (toks : List String) : Option String :=
  let honest := Spec.encode hf d bs ranges
  match toks with
  | term :: dg :: rest =>
    match (dg.splitOn ":").mapM (·.toNat?) with
    | some [len, _] =>
      let intact := cor == "-"
      let validated := mode == "val" || fl == "mixed"
      if term == "panic" then some "panic"
      else if isMixed && rest != ["framing=1"] then some "item stream not framed by Size … Done|Error"
      else if intact then
        if term != "Ok" then some s!"intact store: {term}"
        else if dg != dig honest then some s!"differs from Spec.encode ({dig honest})"
        else none
      else if validated then
        -- corrupted store: emitted bytes are a prefix of the honest encoding;
        -- Ok only with the complete honest encoding; error iff a dependency is hit
        if dg != dig (honest.take len) || len > honest.length then some "emitted bytes are not a prefix of the honest encoding"
        else if term == "Ok" && len != honest.length then some "Ok with incomplete output"
        else
          let truncAt : Option Nat := (cor.splitOn ",").findSome? fun c =>
            if c.startsWith "Td" then (c.drop 2).toString.toNat? else none
          let hit : Bool := match encDeps ⟨d.length, bs⟩ kind ranges with
            | none => false
            | some (dd, od) =>
              -- a dependency is hit iff the byte actually differs after ALL listed corruptions
              -- (the same position may be listed twice and cancel out)
              (cor.splitOn ",").any fun c =>
                let which := c.take 1 |>.toString
                match ((c.drop 1).toString.splitOn "^").mapM (·.toNat?) with
                | some [pos, _] =>
                  (if which == "d" then pos < d.length && d'[pos]? != d[pos]? && dd.any fun (a, e) => a ≤ pos && pos < e
                   else (kind != .empty) && ob'[pos]? != st0.data[pos]? && od.any fun (a, e) => a ≤ pos && pos < e)
                | _ => false
          let cutHit : Bool := match truncAt, encDeps ⟨d.length, bs⟩ kind ranges with
            | some len, some (dd, _) => dd.any fun (_, e) => e > len
            | _, _ => false
          if cutHit && !hit then
            (if term.startsWith "Io(UnexpectedEof" then none else some s!"data store too short but reported as {term}")
          else if cutHit then
            (if term == "Ok" then some "short data store but Ok" else none)
          else
          if hit && term == "Ok" then some "corrupted dependency but Ok"
          else if hit && !(term.startsWith "ParentHashMismatch" || term.startsWith "LeafHashMismatch") then some s!"corrupted dependency reported as {term}"
          else if !hit && term != "Ok" then some s!"no dependency corrupted but {term}"
          else none
      else none
    | _ => some "malformed"
  | _ => some "malformed"

/-- `opEnc` after the argument parse: `encModel` and `encVerdictT` ARE its `let`s -/
theorem opEnc_eq (b bs kind fl mode rs cor impl : String) (d : List UInt8) (bsn : Nat)
    (k : StoreKind) (ranges : Ranges)
    (h1 : blob b = some d) (h2 : bs.toNat? = some bsn) (h3 : storeKind? kind = some k)
    (h4 : parseNatList rs = some ranges) :
    opEnc [b, bs, kind, fl, mode, rs, cor] impl =
      match applyCorruption cor d (intactStore k d bsn).data with
      | none => bad "corruption"
      | some (d', ob') =>
        let mm := encModel d' { intactStore k d bsn with data := ob' } (flOf fl) mode ranges
        { model := mm.1,
          specFail := encVerdictT d d' ob' (intactStore k d bsn) k bsn ranges cor (flOf fl) mode mm.2
            (impl.splitOn " "),
          nontrivial := !(Spec.encode hf d bsn ranges).isEmpty } := by
  unfold opEnc
  simp only [h1, h2, h3, h4]
  rfl

/-! ### intact stores: corruption argument `-` -/

theorem applyCorruption_intact (d ob : List UInt8) : applyCorruption "-" d ob = some (d, ob) := by
  unfold applyCorruption
  rw [if_pos (by decide)]

/-- the clauses of the verdict that apply when the corruption argument is `-` -/
def encVerdictI (honest : List UInt8) (isMixed : Bool) (toks : List String) : Option String :=
  match toks with
  | term :: dg :: rest =>
    match (dg.splitOn ":").mapM (·.toNat?) with
    | some [_, _] =>
      if term == "panic" then some "panic"
      else if isMixed && rest != ["framing=1"] then some "item stream not framed by Size … Done|Error"
      else if term != "Ok" then some s!"intact store: {term}"
      else if dg != dig honest then some s!"differs from Spec.encode ({dig honest})"
      else none
    | _ => some "malformed"
  | _ => some "malformed"

theorem encVerdictT_intact (d d' ob' : List UInt8) (st0 : Store HB) (kind : StoreKind) (bs : Nat)
    (ranges : Ranges) (fl mode : String) (isMixed : Bool) (toks : List String) :
    encVerdictT d d' ob' st0 kind bs ranges "-" fl mode isMixed toks
      = encVerdictI (Spec.encode hf d bs ranges) isMixed toks := by
  have e : (("-" : String) == "-") = true := by decide
  unfold encVerdictT encVerdictI
  simp only [e, if_true]

/-- `opEnc` on an intact store -/
theorem opEnc_intact (b bs kind fl mode rs impl : String) (d : List UInt8) (bsn : Nat)
    (k : StoreKind) (ranges : Ranges)
    (h1 : blob b = some d) (h2 : bs.toNat? = some bsn) (h3 : storeKind? kind = some k)
    (h4 : parseNatList rs = some ranges) :
    opEnc [b, bs, kind, fl, mode, rs, "-"] impl =
      { model := (encModel d (intactStore k d bsn) (flOf fl) mode ranges).1,
        specFail := encVerdictI (Spec.encode hf d bsn ranges)
          (encModel d (intactStore k d bsn) (flOf fl) mode ranges).2 (impl.splitOn " "),
        nontrivial := !(Spec.encode hf d bsn ranges).isEmpty } := by
  rw [opEnc_eq b bs kind fl mode rs "-" impl d bsn k ranges h1 h2 h3 h4, applyCorruption_intact]
  simp only [encVerdictT_intact]

/-! ### the model's line on an intact store -/

/-- the tokens the verdict expects on an intact store -/
def encToks (honest : List UInt8) (mixed : Bool) : List String :=
  if mixed then ["Ok", dig honest, "framing=1"] else ["Ok", dig honest]

/-- the three byte encoders / the item stream on the driver's intact store (any stored kind) -/
theorem enc_validated (kind : StoreKind) (hne : kind ≠ .empty) (d : List UInt8) (bs : Nat)
    (hs : d.length ≤ 2 ^ 63) (hbs : bs ≤ 10) (f : Flavour) {q : Ranges} (hwf : Ranges.WF q = true) :
    encodeRangesValidated hf f d (intactStore kind d bs) q = ⟨Spec.encode hf d bs q, .ok⟩ :=
  validated_spec' (intactStore_intact kind hne d bs hs hbs) (intactStore_root kind d bs hs hbs) f hwf

theorem enc_plain (kind : StoreKind) (hne : kind ≠ .empty) (d : List UInt8) (bs : Nat)
    (hs : d.length ≤ 2 ^ 63) (hbs : bs ≤ 10) (f : Flavour) {q : Ranges} (hwf : Ranges.WF q = true) :
    encodeRanges hf f d (intactStore kind d bs) q = ⟨Spec.encode hf d bs q, .ok⟩ :=
  encode_plain_is_spec' hf_outLen (fun _ => rfl) hs hbs (intactStore_tree kind d bs)
    (intactStore_root kind d bs hs hbs) (intactStore_data kind hne d bs hs hbs) f hwf

theorem enc_mixed (kind : StoreKind) (hne : kind ≠ .empty) (d : List UInt8) (bs : Nat)
    (hs : d.length ≤ 2 ^ 63) (hbs : bs ≤ 10) {q : Ranges} (hwf : Ranges.WF q = true) :
    ∃ items, traverseRangesValidated hf d (intactStore kind d bs) q = some items ∧
      items.flatMap (EncodedItem.flatten hf) = Spec.encode hf d bs q ∧
      items.getLast? = some .done :=
  mixed_is_spec' hf_outLen (fun _ => rfl) hs hbs (intactStore_tree kind d bs)
    (intactStore_root kind d bs hs hbs) (intactStore_data kind hne d bs hs hbs) hwf

/-- the model's line: `Ok <digest of Spec.encode>`, followed by `framing=1` for the item stream -/
theorem encModel_intact (kind : StoreKind) (hne : kind ≠ .empty) (d : List UInt8) (bs : Nat)
    (hs : d.length ≤ 2 ^ 63) (hbs : bs ≤ 10) (fl mode : String) {q : Ranges}
    (hwf : Ranges.WF q = true) :
    encModel d (intactStore kind d bs) fl mode q
      = (" ".intercalate (encToks (Spec.encode hf d bs q) (fl == "mixed")), fl == "mixed") := by
  unfold encModel encToks
  cases hm : fl == "mixed"
  · simp only [Bool.false_eq_true, if_false]
    have e : ∀ r : EncRun, r = ⟨Spec.encode hf d bs q, .ok⟩ →
        (s!"{encEndStr r.terminal} {dig r.out}", false)
          = (" ".intercalate ["Ok", dig (Spec.encode hf d bs q)], false) := by
      rintro r rfl
      rfl
    apply e
    split
    · exact enc_validated kind hne d bs hs hbs _ hwf
    · exact enc_plain kind hne d bs hs hbs _ hwf
  · obtain ⟨items, h1, h2, h3⟩ := enc_mixed kind hne d bs hs hbs hwf
    simp only [if_true, h1, h2, h3]
    have e : (" framing=1" : String) = " " ++ "framing=1" := by decide
    simp only [String.intercalate_cons_cons, String.intercalate_singleton]
    show ("Ok" ++ " " ++ dig (Spec.encode hf d bs q) ++ " framing=1", true) = _
    rw [e]
    simp only [String.append_assoc]

theorem noSp_encToks (honest : List UInt8) (mixed : Bool) : ∀ t ∈ encToks honest mixed, NoSp t := by
  intro t ht
  unfold encToks at ht
  cases mixed
  · simp only [Bool.false_eq_true, if_false, List.mem_cons, List.not_mem_nil, or_false] at ht
    rcases ht with rfl | rfl
    · exact noSp_lit "Ok" (by decide)
    · exact noSp_dig _
  · simp only [if_true, List.mem_cons, List.not_mem_nil, or_false] at ht
    rcases ht with rfl | rfl | rfl
    · exact noSp_lit "Ok" (by decide)
    · exact noSp_dig _
    · exact noSp_lit "framing=1" (by decide)

/-- the model's line splits into exactly the expected tokens -/
theorem encLine_split (honest : List UInt8) (mixed : Bool) :
    (" ".intercalate (encToks honest mixed)).splitOn " " = encToks honest mixed :=
  splitOn_intercalate _ (by unfold encToks; cases mixed <;> simp) (noSp_encToks honest mixed)

/-- a digest token `len:fnv` parses into its two numbers -/
theorem dig_parse (b : List UInt8) :
    ((dig b).splitOn ":").mapM (·.toNat?) = some [b.length, (fnv b).toNat] := by
  rw [splitOn_char ":" ':' oneChar_colon]
  have e : (dig b).toList
      = (toString b.length).toList ++ (':' :: ((toString (fnv b).toNat).toList ++ [])) := by
    unfold dig
    show (toString b.length ++ ":" ++ toString (fnv b).toNat).toList = _
    simp only [String.toList_append, List.append_nil]
    have e2 : ":".toList = [':'] := by decide
    rw [e2]
    simp
  rw [e, splitLc_append ':' _ (noColon_nat _), splitLc, if_pos rfl, splitLc_append ':' _ (noColon_nat _),
    splitLc]
  simp only [List.nil_append, List.map_cons, List.map_nil, String.ofList_toList]
  exact mapM_toNat?_toString [b.length, (fnv b).toNat]

/-- all clauses: the intact verdict accepts the expected tokens -/
theorem verdict_tokens (honest : List UInt8) (mixed : Bool) :
    encVerdictI honest mixed (encToks honest mixed) = none := by
  have e1 : (("Ok" : String) == "panic") = false := by decide
  have e2 : (("Ok" : String) != "Ok") = false := by decide
  unfold encVerdictI encToks
  cases mixed
  · simp only [Bool.false_eq_true, if_false, dig_parse, e1, e2, Bool.false_and, bne_self_eq_false]
  · simp only [if_true, dig_parse, e1, e2, Bool.true_and, bne_self_eq_false, Bool.false_eq_true,
      if_false]

/-- what a `none` verdict says: the line is `Ok <digest of the honest encoding>`, and `framing=1`
follows for the item stream -/
theorem verdict_sound (honest : List UInt8) (mixed : Bool) (toks : List String)
    (h : encVerdictI honest mixed toks = none) :
    ∃ rest, toks = "Ok" :: dig honest :: rest ∧ (mixed = true → rest = ["framing=1"]) := by
  unfold encVerdictI at h
  split at h
  next term dg rest =>
    split at h
    next =>
      split at h
      · cases h
      next h1 =>
      split at h
      · cases h
      next h2 =>
      split at h
      · cases h
      next h3 =>
      split at h
      · cases h
      next h4 =>
      refine ⟨rest, ?_, ?_⟩
      · have a : term = "Ok" := by simpa using h3
        have b : dg = dig honest := by simpa using h4
        rw [a, b]
      · intro hm
        subst hm
        simpa using h2
    next => cases h
  next => cases h

/-! ### argument strings -/

theorem storeKind?_kindStr (k : StoreKind) : storeKind? (kindStr k) = some k := by
  cases k <;> rfl

theorem flOf_of_not_syncw (fl : String) (h : ¬ "syncw".toList <+: fl.toList) : flOf fl = fl := by
  unfold flOf
  rw [if_neg (by rw [Bool.not_eq_true, String.startsWith_string_eq_false_iff]; exact h)]

theorem flOf_syncw (t : String) : flOf ("syncw" ++ t) = "sync" := by
  unfold flOf
  rw [if_pos (String.startsWith_string_iff.2 ⟨t.toList, by rw [String.toList_append]⟩)]

theorem flOf_lits : flOf "sync" = "sync" ∧ flOf "fsm" = "fsm" ∧ flOf "mixed" = "mixed" :=
  ⟨flOf_of_not_syncw _ (by decide), flOf_of_not_syncw _ (by decide), flOf_of_not_syncw _ (by decide)⟩

/-! ### the `EmptyOutboard`: the verdict DOES reject the model's own line -/

/-- a byte encoder's line `<terminal> <digest>` splits into its two tokens -/
theorem encLine2_split (t : String) (ht : NoSp t) (b : List UInt8) :
    (s!"{t} {dig b}").splitOn " " = [t, dig b] := by
  have e : (s!"{t} {dig b}") = " ".intercalate [t, dig b] := by
    simp only [String.intercalate_cons_cons, String.intercalate_singleton]
    show t ++ " " ++ dig b = _
    simp only [String.append_assoc]
  rw [e]
  apply splitOn_intercalate _ (by simp)
  intro u hu
  simp only [List.mem_cons, List.not_mem_nil, or_false] at hu
  rcases hu with rfl | rfl
  · exact ht
  · exact noSp_dig _

/-- the validating encoder on the `EmptyOutboard` of a two-chunk blob at block size 0: `load` hands
out the zero pair for the root node, whose parent hash is not the root (hypothesis `hne`: a fact
about BLAKE3, `#eval`-true for every blob tried) -/
theorem enc_empty_two (d : List UInt8) (hd : d.length = 1025) (fl : Flavour)
    (hne : hf.parentCv zeros32 zeros32 true ≠ Spec.root hf d) :
    encodeRangesValidated hf fl d (intactStore .empty d 0) [0]
      = ⟨[], .err (.parentHashMismatch 0)⟩ := by
  rw [intactStore_pre .empty rfl d 0 (by omega) (by decide)]
  unfold encodeRangesValidated
  simp only [hd]
  have hp : Tree.prePartialChunks ⟨1025, 0⟩ (Ranges.truncate [0] 1025) 0
      = some [.parent 0 true true true [0], .leaf 0 1024 false [0], .leaf 1 1 false [0]] := by decide
  have hi : Ranges.isEmpty [0] = false := rfl
  rw [hp, hi]
  simp only [Bool.and_false, Bool.false_eq_true, if_false]
  unfold encodeValidatedLoop
  have hl : Store.load hf fl ⟨.empty, Spec.root hf d, ⟨1025, 0⟩, Spec.preOutboard hf d 0⟩ 0
      = .ok (some (zeros32, zeros32)) := by
    unfold Store.load
    simp only
    have : Tree.isRelevant ⟨1025, 0⟩ 0 = true := by decide
    rw [this]
    rfl
  rw [hl]
  simp only
  have : (hf.parentCv zeros32 zeros32 true != Spec.root hf d) = true := by simpa using hne
  rw [if_pos this]

theorem encModel_empty_two (d : List UInt8) (hd : d.length = 1025)
    (hne : hf.parentCv zeros32 zeros32 true ≠ Spec.root hf d) :
    encModel d (intactStore .empty d 0) "sync" "val" [0]
      = (s!"{encEndStr (.err (.parentHashMismatch 0))} {dig []}", false) := by
  have e1 : (("sync" : String) == "mixed") = false := by decide
  have e2 : (("sync" : String) == "fsm") = false := by decide
  have e3 : (("val" : String) == "val") = true := by decide
  unfold encModel
  simp only [e1, e2, e3, Bool.false_eq_true, if_false, if_true]
  rw [enc_empty_two d hd .sync hne]

end Bao.SpecEnc
