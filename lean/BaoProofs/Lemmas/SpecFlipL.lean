import BaoProofs.Lemmas.CopyL
import BaoProofs.Lemmas.SpecIndexL
import BaoProofs.Lemmas.SpecObL
import BaoProofs.Lemmas.C13BytesL
import BaoProofs.Props.C03
import BaoModel.Ops3

/-!
# Lemmas for `Props/C12SpecFlip.lean`: the `flipx` verdict never rejects the model

* part A – `copy` / `flip` (closed forms of `Lemmas/CopyL.lean`) WITHOUT the hypothesis
  `hlen : ∀ h, (toBytes h).length = 32`, which is false of the driver's instance `realHash`
  (a hash IS its byte list there).  The only use of `hlen` in `CopyL` is `reenc_length`; the records
  that a copy re-encodes are 64-byte blocks of the source, and under the byte round trip
  `hbt : toBytes (ofBytes b) = b` for 32-byte `b` (true of `realHash`: both maps are `id`) they are
  copied verbatim, so their length is 64 anyway.  The proofs are the ones of `CopyL` with
  `reenc_len64` in that place;
* part B – `Spec.indexOfNode` on the layout list of a store is the store's slot function;
* part C – the `let`s of `Ops.opFlipX` as named definitions (`opFlipX_eq`, by `rfl`) and the model's
  four results;
* part D – `obpre`: the `let`s of `Ops.opObPre` as named definitions (`opObPre_eq`), the stable
  counts, the common-prefix counter `lcp`, the C13 byte statement under `OutLen` (outputs only),
  the five tokens of the output line;
* part E – `flip`: `copy` of a store holding a specification outboard under `OutLen` + `ByteRT`
  (`copy_spec'`), the two intact stores, the `let`s of `Ops.opFlip` (`opFlip_eq`).
-/

set_option maxRecDepth 8192

namespace Bao.SpecFlip
open Bao Bao.Spec Bao.WriteAtL Bao.OutboardL Bao.NodeIterL Bao.CopyL Bao.Ops Bao.Proto

/-! ## A. `copy` / `flip` under the byte round trip alone -/

section gen
variable {H : Type} (hf : HashFns H)

/-- the byte round trip: parsing 32 bytes and serialising the hash gives the 32 bytes back -/
def ByteRT : Prop := ∀ b : List UInt8, b.length = 32 → hf.toBytes (hf.ofBytes b) = b

theorem reenc_len64 (hbt : ByteRT hf) (b : List UInt8) (hb : b.length = 64) :
    (reenc hf b).length = 64 := by
  rw [reenc_id hf hbt b hb, hb]

/-- `CopyL.copy_run` with `hbt` instead of `hlen` -/
theorem copy_run' (hbt : ByteRT hf) (size bs : Nat) (hs : size ≤ 2 ^ 63)
    (hbs : bs ≤ 10) (fl : Flavour) (src dst : Store H)
    (hst : src.tree = ⟨size, bs⟩) (hdt : dst.tree = ⟨size, bs⟩)
    (hsk : src.kind ≠ .empty) (hsd : (Tree.blocks ⟨size, bs⟩ - 1) * 64 ≤ src.data.length)
    (hdk : ((dst.kind = .preIo ∨ dst.kind = .postIo) ∧
              dst.data.length ≤ (Tree.blocks ⟨size, bs⟩ - 1) * 64) ∨
           ((dst.kind = .preMem ∨ dst.kind = .postMem) ∧
              dst.data.length = (Tree.blocks ⟨size, bs⟩ - 1) * 64)) :
    copy hf fl src dst = .ok { dst with data := copied hf src dst.kind size bs } := by
  have hdne : dst.kind ≠ .empty := by
    rcases hdk with ⟨h | h, _⟩ | ⟨h | h, _⟩ <;> simp [h]
  unfold copy
  rw [hst, preIter_eq size bs hs hbs]
  have hsrc : ∀ x ∈ persistedPre size bs,
      src.slot x = some (slotD src x) ∧ slotD src x * 64 + 64 ≤ src.data.length := by
    intro x hx
    obtain ⟨h1, h2⟩ := slot_persisted src hsk size bs hs hbs hst x hx
    exact ⟨h1, by omega⟩
  have hrl : ∀ x ∈ persistedPre size bs,
      (reenc hf (blockAt src.data (slotD src x))).length = 64 :=
    fun x hx => reenc_len64 hf hbt _ (length_blockAt _ _ (hsrc x hx).2)
  have hdst : ∀ x ∈ persistedPre size bs,
      dst.slot x = some (slotD dst x) ∧ slotD dst x < Tree.blocks ⟨size, bs⟩ - 1 :=
    fun x hx => slot_persisted dst hdne size bs hs hbs hdt x hx
  let ws : List (Nat × H × H) :=
    (persistedPre size bs).map fun x => (x, parsePair hf (blockAt src.data (slotD src x)))
  have hmem : ∀ w ∈ ws, w.1 ∈ persistedPre size bs := by
    intro w hw
    obtain ⟨x, hx, rfl⟩ := List.mem_map.mp hw
    exact hx
  have hsw : swrites hf (slotD dst) ws
      = (persistedPre size bs).map fun x =>
          (slotD dst x, reenc hf (blockAt src.data (slotD src x))) := by
    unfold swrites
    rw [List.map_map]
    rfl
  have hput : putAll (putStore hf) dst ws
      = .ok { dst with data := applyWrites dst.data (swrites hf (slotD dst) ws) } := by
    rcases hdk with ⟨hk, _⟩ | ⟨hk, hl⟩
    · exact putAll_io hf dst hk (slotD dst) ws (fun w hw => (hdst _ (hmem w hw)).1)
    · refine putAll_mem hf dst hk (slotD dst) ws (fun w hw => (hdst _ (hmem w hw)).1) _ hl
        (fun w hw => (hdst _ (hmem w hw)).2) (fun w hw => ?_)
      obtain ⟨x, hx, rfl⟩ := List.mem_map.mp hw
      exact hrl x hx
  have hinit : dst.data.length ≤ (plist dst.kind size bs).length * 64 := by
    rw [plist_length dst.kind size bs hs hbs]
    rcases hdk with ⟨_, hl⟩ | ⟨_, hl⟩ <;> omega
  have hdata : applyWrites dst.data (swrites hf (slotD dst) ws) = copied hf src dst.kind size bs := by
    rw [hsw]
    exact applyWrites_perm (plist dst.kind size bs) (persistedPre size bs) (slotD dst)
      (fun x => reenc hf (blockAt src.data (slotD src x))) dst.data
      (plist_perm dst.kind size bs hs).symm
      (fun i h => slotD_plist dst hdne size bs hs hbs hdt i h)
      (fun x hx => hrl x ((plist_perm dst.kind size bs hs).mem_iff.mp hx)) hinit
  have h1 : copyLoop hf fl src (persistedPre size bs) dst
      = .ok { dst with data := copied hf src dst.kind size bs } := by
    rw [copyLoop_putAll hf fl src hsk (slotD src) _ hsrc dst]
    rw [← hdata]
    exact hput
  rw [copyLoop_append hf fl src _ _ dst _ h1]
  apply copyLoop_none
  intro x hx
  exact load_none hf fl src hsk x (slot_halfLeaf src hsk size bs hs hbs hst x hx)

/-- the copied data, under the byte round trip: the source's own blocks in the target's order -/
def moved (src : Store H) (k : StoreKind) (size bs : Nat) : List UInt8 :=
  (plist k size bs).flatMap fun x => blockAt src.data (slotD src x)

theorem moved_length (src : Store H) (hsk : src.kind ≠ .empty) (k : StoreKind) (size bs : Nat)
    (hs : size ≤ 2 ^ 63) (hbs : bs ≤ 10) (hst : src.tree = ⟨size, bs⟩)
    (hsd : (Tree.blocks ⟨size, bs⟩ - 1) * 64 ≤ src.data.length) :
    (moved src k size bs).length = (Tree.blocks ⟨size, bs⟩ - 1) * 64 := by
  unfold moved
  rw [length_flatMap64 _ _ (fun x hx => ?_), plist_length k size bs hs hbs]
  have hx' := (plist_perm k size bs hs).mem_iff.mp hx
  obtain ⟨_, h2⟩ := slot_persisted src hsk size bs hs hbs hst x hx'
  exact length_blockAt _ _ (by omega)

/-- `CopyL.flip_run` with `hbt` instead of `hlen`, and the data in the verbatim form -/
theorem flip_run' (hbt : ByteRT hf) (size bs : Nat) (hs : size ≤ 2 ^ 63)
    (hbs : bs ≤ 10) (s : Store H) (hst : s.tree = ⟨size, bs⟩) (hsk : s.kind ≠ .empty)
    (hsd : (Tree.blocks ⟨size, bs⟩ - 1) * 64 ≤ s.data.length) :
    flip hf s = .ok ⟨flipKind s.kind, s.root, s.tree, moved s (flipKind s.kind) size bs⟩ := by
  have h := copy_run' hf hbt size bs hs hbs .sync s
    ⟨flipKind s.kind, s.root, s.tree, List.replicate s.tree.outboardSize 0⟩ hst hst hsk hsd
    (.inr ⟨flipKind_mem s.kind, by rw [hst, List.length_replicate]; rfl⟩)
  unfold flip
  simp only
  change (match copy hf .sync s ⟨flipKind s.kind, s.root, s.tree,
      List.replicate s.tree.outboardSize 0⟩ with | .ok t => Res.ok t | _ => Res.panic) = _
  rw [h]
  simp only
  rw [copied_hbt hf hbt s hsk _ size bs hs hbs hst hsd]
  rfl

/-- the block of a persisted node `x` in the moved data (at the slot `x` has in a store `t` of the
target kind) is the source's block of `x` -/
theorem blockAt_moved (src t : Store H) (size bs : Nat) (hs : size ≤ 2 ^ 63) (hbs : bs ≤ 10)
    (hsk : src.kind ≠ .empty) (hst : src.tree = ⟨size, bs⟩)
    (hsd : (Tree.blocks ⟨size, bs⟩ - 1) * 64 ≤ src.data.length)
    (htk : t.kind ≠ .empty) (htt : t.tree = ⟨size, bs⟩) (x : Nat) (hx : x ∈ persistedPre size bs) :
    blockAt (moved src t.kind size bs) (slotD t x) = blockAt src.data (slotD src x) := by
  obtain ⟨hi, e⟩ := plist_slotD t htk size bs hs hbs htt x hx
  unfold moved
  rw [blockAt_flatMap _ _ (fun y hy => ?_) _ hi, e]
  have hy' := (plist_perm t.kind size bs hs).mem_iff.mp hy
  obtain ⟨_, h2⟩ := slot_persisted src hsk size bs hs hbs hst y hy'
  exact length_blockAt _ _ (by omega)

/-- moving twice gives the data back (backing of exactly the outboard size) -/
theorem moved_moved (size bs : Nat) (hs : size ≤ 2 ^ 63) (hbs : bs ≤ 10) (s t : Store H)
    (hst : s.tree = ⟨size, bs⟩) (hsk : s.kind ≠ .empty)
    (hsd : s.data.length = (Tree.blocks ⟨size, bs⟩ - 1) * 64)
    (htt : t.tree = ⟨size, bs⟩) (htk : t.kind ≠ .empty)
    (htd : t.data = moved s t.kind size bs) :
    moved t s.kind size bs = s.data := by
  have e : moved t s.kind size bs
      = (plist s.kind size bs).flatMap fun x => blockAt s.data (slotD s x) := by
    unfold moved
    apply flatMap_congr'
    intro x hx
    have hx' := (plist_perm s.kind size bs hs).mem_iff.mp hx
    rw [htd]
    exact blockAt_moved s t size bs hs hbs hsk hst (Nat.le_of_eq hsd.symm) htk htt x hx'
  rw [e, flatMap_blocks_eq_take _ _ _ (fun i h => slotD_plist s hsk size bs hs hbs hst i h)
    (by rw [plist_length s.kind size bs hs hbs]; omega)]
  exact List.take_of_length_le (by rw [plist_length s.kind size bs hs hbs]; omega)

/-- `C12.flip_flip` with `hbt` alone: an arbitrary memory store of exactly `outboardSize` bytes
flips to the store of the other kind holding its blocks in the other order, and back -/
theorem flip_flip' (hbt : ByteRT hf) (s : Store H) (size bs : Nat) (hs : size ≤ 2 ^ 63)
    (hbs : bs ≤ 10) (ht : s.tree = ⟨size, bs⟩) (hk : s.kind = .preMem ∨ s.kind = .postMem)
    (hd : s.data.length = (Tree.blocks ⟨size, bs⟩ - 1) * 64) :
    flip hf s = .ok ⟨flipKind s.kind, s.root, s.tree, moved s (flipKind s.kind) size bs⟩ ∧
    flip hf ⟨flipKind s.kind, s.root, s.tree, moved s (flipKind s.kind) size bs⟩ = .ok s := by
  have hsk : s.kind ≠ .empty := by rcases hk with h | h <;> simp [h]
  have hfk : flipKind (flipKind s.kind) = s.kind := by
    rcases hk with h | h <;> rw [h] <;> rfl
  have htk : flipKind s.kind ≠ .empty := by
    rcases flipKind_mem s.kind with h | h <;> simp [h]
  refine ⟨flip_run' hf hbt size bs hs hbs s ht hsk (Nat.le_of_eq hd.symm), ?_⟩
  rw [flip_run' hf hbt size bs hs hbs
    ⟨flipKind s.kind, s.root, s.tree, moved s (flipKind s.kind) size bs⟩ ht htk
    (by simp only [moved_length s hsk _ size bs hs hbs ht (Nat.le_of_eq hd.symm)]
        exact Nat.le_refl _)]
  simp only [hfk]
  rw [moved_moved size bs hs hbs s
    ⟨flipKind s.kind, s.root, s.tree, moved s (flipKind s.kind) size bs⟩ ht hsk hd ht htk rfl]

/-! ## B. `Spec.indexOfNode` on the layout list is the slot function -/

theorem plist_injective (k : StoreKind) (size bs : Nat) (hs : size ≤ 2 ^ 63) (hbs : bs ≤ 10) :
    ∀ i j (hi : i < (plist k size bs).length) (hj : j < (plist k size bs).length),
      (plist k size bs)[i] = (plist k size bs)[j] → i = j := by
  cases k with
  | postIo => exact C12.post_injective size bs hs hbs
  | postMem => exact C12.post_injective size bs hs hbs
  | preIo => exact C12.pre_injective size bs hs hbs
  | preMem => exact C12.pre_injective size bs hs hbs
  | empty => exact C12.pre_injective size bs hs hbs

/-- for a persisted node the position in the store's own list, found by the specification's
`indexOfNode` (first occurrence), is the slot -/
theorem indexOfNode_plist (s : Store H) (hk : s.kind ≠ .empty) (size bs : Nat) (hs : size ≤ 2 ^ 63)
    (hbs : bs ≤ 10) (ht : s.tree = ⟨size, bs⟩) (x : Nat) (hx : x ∈ persistedPre size bs) :
    Spec.indexOfNode (plist s.kind size bs) x = some (slotD s x) := by
  obtain ⟨hi, e⟩ := plist_slotD s hk size bs hs hbs ht x hx
  refine (SpecIndex.indexOfNode_eq _ (plist_injective s.kind size bs hs hbs) x (some (slotD s x))
    (fun i h => ?_) (fun h => by cases h)).symm
  cases h
  rw [List.getElem?_eq_getElem hi, e]

/-- the verdict's re-ordering: the blocks of `data`, looked up by position in the list `P` of the
source order, concatenated along the list `Q` of the target order -/
def reorder (P Q : List Nat) (data : List UInt8) : List UInt8 :=
  Q.flatMap fun x => match Spec.indexOfNode P x with
    | some i => (data.drop (i * 64)).take 64
    | none => []

theorem moved_eq_reorder (s : Store H) (hk : s.kind ≠ .empty) (k : StoreKind) (size bs : Nat)
    (hs : size ≤ 2 ^ 63) (hbs : bs ≤ 10) (ht : s.tree = ⟨size, bs⟩) :
    moved s k size bs = reorder (plist s.kind size bs) (plist k size bs) s.data := by
  unfold moved reorder
  apply flatMap_congr'
  intro x hx
  rw [indexOfNode_plist s hk size bs hs hbs ht x ((plist_perm k size bs hs).mem_iff.mp hx)]
  rfl

end gen

/-! ## C. `opFlipX`: the `let`s as named definitions, the model's four results -/

theorem real_byteRT : ByteRT Ops.hf := fun _ _ => rfl

/-- `str` of `opFlipX` -/
def fxStr (r : Res IoErr (Store HB)) : String :=
  match r with
  | .ok s => s!"{kindStr s.kind}:{dig s.root}:{dig s.data}"
  | .err e => ioErrStr e
  | .panic => "panic"

/-- `bind` of `opFlipX` -/
def fxBind (r : Res IoErr (Store HB)) (f : Store HB → Res IoErr (Store HB)) :=
  match r with | .ok s => f s | x => x

/-- the random root of `opFlipX` -/
def fxRoot (seed size bs : Nat) : List UInt8 :=
  (randBytes seed (Tree.outboardSize ⟨size, bs⟩ + 32)).take 32

/-- the random backing of `opFlipX` -/
def fxData (seed size bs : Nat) : List UInt8 :=
  (randBytes seed (Tree.outboardSize ⟨size, bs⟩ + 32)).drop 32

/-- the two stores `opFlipX` flips -/
def fxPre (seed size bs : Nat) : Store HB := ⟨.preMem, fxRoot seed size bs, ⟨size, bs⟩, fxData seed size bs⟩
def fxPost (seed size bs : Nat) : Store HB := ⟨.postMem, fxRoot seed size bs, ⟨size, bs⟩, fxData seed size bs⟩

/-- the output line for four results -/
def fxFmt (a a2 b b2 : Res IoErr (Store HB)) : String :=
  s!"{fxStr a} {fxStr a2} {fxStr b} {fxStr b2}"

/-- `m` of `opFlipX` -/
def fxModel (seed size bs : Nat) : String :=
  fxFmt (flip hf (fxPre seed size bs)) (fxBind (flip hf (fxPre seed size bs)) (flip hf))
    (flip hf (fxPost seed size bs)) (fxBind (flip hf (fxPost seed size bs)) (flip hf))

/-- `toPost` of `opFlipX` -/
def fxToPost (seed size bs : Nat) : List UInt8 :=
  reorder (Spec.persistedPre size bs) (Spec.persistedPost size bs) (fxData seed size bs)

/-- `toPre` of `opFlipX` -/
def fxToPre (seed size bs : Nat) : List UInt8 :=
  reorder (Spec.persistedPost size bs) (Spec.persistedPre size bs) (fxData seed size bs)

/-- `spec` of `opFlipX` -/
def fxSpec (seed size bs : Nat) : String :=
  s!"postMem:{dig (fxRoot seed size bs)}:{dig (fxToPost seed size bs)} preMem:{dig (fxRoot seed size bs)}:{dig (fxData seed size bs)} preMem:{dig (fxRoot seed size bs)}:{dig (fxToPre seed size bs)} postMem:{dig (fxRoot seed size bs)}:{dig (fxData seed size bs)}"

/-- the verdict of `opFlipX` -/
def fxVerdict (seed size bs : Nat) (impl : String) : Option String :=
  if impl == fxSpec seed size bs then none
  else some s!"flip of arbitrary contents is not the re-ordering of its records ({fxSpec seed size bs})"

theorem opFlipX_eq (args : List String) (impl : String) (seed size bs : Nat)
    (h : args.mapM (·.toNat?) = some [seed, size, bs]) :
    (opFlipX args impl).model = fxModel seed size bs ∧
    (opFlipX args impl).specFail = fxVerdict seed size bs impl := by
  unfold opFlipX
  simp only [h]
  exact ⟨rfl, rfl⟩

theorem fxData_length (seed size bs : Nat) :
    (fxData seed size bs).length = (Tree.blocks ⟨size, bs⟩ - 1) * 64 := by
  unfold fxData
  rw [List.length_drop, SpecIndex.randBytes_length]
  show (Tree.blocks ⟨size, bs⟩ - 1) * 64 + 32 - 32 = _
  omega

theorem fxRoot_length (seed size bs : Nat) : (fxRoot seed size bs).length = 32 := by
  unfold fxRoot
  rw [List.length_take, SpecIndex.randBytes_length]
  omega

/-- clause 1: the pre-order store flips to the post-order store with the verdict's `toPost` -/
theorem flip_pre (seed size bs : Nat) (hs : size ≤ 2 ^ 63) (hbs : bs ≤ 10) :
    flip hf (fxPre seed size bs)
      = .ok ⟨.postMem, fxRoot seed size bs, ⟨size, bs⟩, fxToPost seed size bs⟩ := by
  rw [(flip_flip' hf real_byteRT (fxPre seed size bs) size bs hs hbs rfl (.inl rfl)
    (fxData_length seed size bs)).1,
    moved_eq_reorder (fxPre seed size bs) (by simp [fxPre]) _ size bs hs hbs rfl]
  rfl

/-- clause 2: flipping that gives the pre-order store back -/
theorem flip_pre_back (seed size bs : Nat) (hs : size ≤ 2 ^ 63) (hbs : bs ≤ 10) :
    flip hf ⟨.postMem, fxRoot seed size bs, ⟨size, bs⟩, fxToPost seed size bs⟩
      = .ok (fxPre seed size bs) := by
  have h := (flip_flip' hf real_byteRT (fxPre seed size bs) size bs hs hbs rfl (.inl rfl)
    (fxData_length seed size bs)).2
  rw [moved_eq_reorder (fxPre seed size bs) (by simp [fxPre]) _ size bs hs hbs rfl] at h
  exact h

/-- clause 3: the post-order store flips to the pre-order store with the verdict's `toPre` -/
theorem flip_post (seed size bs : Nat) (hs : size ≤ 2 ^ 63) (hbs : bs ≤ 10) :
    flip hf (fxPost seed size bs)
      = .ok ⟨.preMem, fxRoot seed size bs, ⟨size, bs⟩, fxToPre seed size bs⟩ := by
  rw [(flip_flip' hf real_byteRT (fxPost seed size bs) size bs hs hbs rfl (.inr rfl)
    (fxData_length seed size bs)).1,
    moved_eq_reorder (fxPost seed size bs) (by simp [fxPost]) _ size bs hs hbs rfl]
  rfl

/-- clause 4: flipping that gives the post-order store back -/
theorem flip_post_back (seed size bs : Nat) (hs : size ≤ 2 ^ 63) (hbs : bs ≤ 10) :
    flip hf ⟨.preMem, fxRoot seed size bs, ⟨size, bs⟩, fxToPre seed size bs⟩
      = .ok (fxPost seed size bs) := by
  have h := (flip_flip' hf real_byteRT (fxPost seed size bs) size bs hs hbs rfl (.inr rfl)
    (fxData_length seed size bs)).2
  rw [moved_eq_reorder (fxPost seed size bs) (by simp [fxPost]) _ size bs hs hbs rfl] at h
  exact h

/-! ### the output line -/

theorem lit1 (x : String) : "postMem" ++ (":" ++ x) = "postMem:" ++ x := by
  rw [← String.append_assoc]; rfl
theorem lit2 (x : String) : " " ++ ("preMem" ++ (":" ++ x)) = " preMem:" ++ x := by
  rw [← String.append_assoc, ← String.append_assoc]; rfl
theorem lit3 (x : String) : " " ++ ("postMem:" ++ x) = " postMem:" ++ x := by
  rw [← String.append_assoc]; rfl

/-- the line printed for the four expected stores is the verdict's `spec` line -/
theorem fxFmt_ok (r d1 d2 d3 d4 : List UInt8) (t : Tree) :
    fxFmt (.ok ⟨.postMem, r, t, d1⟩) (.ok ⟨.preMem, r, t, d2⟩) (.ok ⟨.preMem, r, t, d3⟩)
      (.ok ⟨.postMem, r, t, d4⟩)
    = s!"postMem:{dig r}:{dig d1} preMem:{dig r}:{dig d2} preMem:{dig r}:{dig d3} postMem:{dig r}:{dig d4}" := by
  simp only [fxFmt, fxStr, kindStr, toString, String.append_assoc, lit1, lit2, lit3]

/-- the model's line is the verdict's `spec` line -/
theorem fxModel_eq_spec (seed size bs : Nat) (hs : size ≤ 2 ^ 63) (hbs : bs ≤ 10) :
    fxModel seed size bs = fxSpec seed size bs := by
  unfold fxModel
  rw [flip_pre seed size bs hs hbs, flip_post seed size bs hs hbs]
  simp only [fxBind]
  rw [flip_pre_back seed size bs hs hbs, flip_post_back seed size bs hs hbs]
  exact fxFmt_ok _ _ _ _ _ _

/-! ## D. `opObPre` -/

/-- `stable` / `stable2` of `opObPre`: the nodes of the post-order iterator classified stable -/
def opStable (size bs : Nat) : Nat :=
  ((Tree.postOrderNodesIter ⟨size, bs⟩).filter fun x =>
    match Tree.postOrderOffset ⟨size, bs⟩ x with | some (.stable _) => true | _ => false).length

/-- `specStable` / `specStable2` of `opObPre`: persisted nodes whose subtree lies inside the blob -/
def opSpecStable (size bs : Nat) : Nat :=
  ((Spec.persistedPost size bs).filter fun x =>
    Spec.endOf (Spec.indexOf x) (Spec.levelOf x) * 1024 ≤ size).length

/-- `a` of `opObPre`: what the post-order writer emits for the first `n` bytes -/
def opA (ext : List UInt8) (n bs : Nat) : List UInt8 :=
  (outboardPostOrder hf (ext.take n) ⟨n, bs⟩).sink

/-- `b` of `opObPre`: what the post-order writer emits for the extension -/
def opB (ext : List UInt8) (bs : Nat) : List UInt8 :=
  (outboardPostOrder hf ext ⟨ext.length, bs⟩).sink

/-- `l` of `opObPre`: number of common leading 64-byte pairs -/
def opL (ext : List UInt8) (n bs : Nat) : Nat :=
  opObPre.lcp ((opA ext n bs).length / 64 + 1) (opA ext n bs) (opB ext bs) 0

/-- the model's five numbers -/
def opNums (ext : List UInt8) (n bs : Nat) : List Nat :=
  [(opA ext n bs).length / 64, opStable n bs, opL ext n bs, (opB ext bs).length / 64,
    opStable ext.length bs]

/-- `m` of `opObPre` -/
def opModel (ext : List UInt8) (n bs : Nat) : String :=
  s!"{(opA ext n bs).length / 64} {opStable n bs} {opL ext n bs} {(opB ext bs).length / 64} {opStable ext.length bs}"

/-- the verdict of `opObPre` on five parsed numbers -/
def opVerdictNums (ext : List UInt8) (n bs : Nat) (nums : Option (List Nat)) : Option String :=
  match nums with
  | some [pairs, st, l, g, st2] =>
    if pairs != Spec.nBlocks n bs - 1 then some "number of pairs"
    else if st != opSpecStable n bs then some s!"stable count {st}, spec {opSpecStable n bs}"
    else if l < st then some s!"stable prefix of {st} pairs is not a prefix of the extension's outboard (common prefix {l})"
    else if st2 != opSpecStable ext.length bs then some s!"stable count of the extension {st2}, spec {opSpecStable ext.length bs}"
    else if g < st2 then some s!"the extension's outboard (grown in place) has only {g} of its {st2} stable pairs right: cut after them it is not a prefix of the outboards of further extensions"
    else none
  | _ => some "malformed"

/-- the verdict of `opObPre` -/
def opVerdict (ext : List UInt8) (n bs : Nat) (impl : String) : Option String :=
  opVerdictNums ext n bs ((impl.splitOn " ").mapM (·.toNat?))

theorem opObPre_eq (pat seed n m' bs fl impl : String) (ext : List UInt8) (nn bsn : Nat)
    (h1 : blob s!"{pat}:{seed}:{m'}" = some ext) (h2 : n.toNat? = some nn)
    (h3 : bs.toNat? = some bsn) :
    (opObPre [pat, seed, n, m', bs, fl] impl).model = opModel ext nn bsn ∧
    (opObPre [pat, seed, n, m', bs, fl] impl).specFail = opVerdict ext nn bsn impl := by
  unfold opObPre
  simp only [h1, h2, h3]
  exact ⟨rfl, rfl⟩

/-! ### the stable counts -/

theorem isStable_fun (t : Tree) :
    (fun x => match Tree.postOrderOffset t x with | some (.stable _) => true | _ => false)
      = Offsets.isStable t := by
  funext x
  unfold Offsets.isStable
  rfl

/-- the half leaf is not classified stable -/
theorem not_stable_halfLeaf (size bs : Nat) (hs : size ≤ 2 ^ 63) (hbs : bs ≤ 10) (x : Nat)
    (hx : x ∈ halfLeaf ⟨size, bs⟩) : Offsets.isStable ⟨size, bs⟩ x = false := by
  unfold halfLeaf at hx
  by_cases hb : Tree.blocks ⟨size, bs⟩ % 2 = 1
  · rw [if_pos hb] at hx
    simp only [List.mem_singleton] at hx
    subst hx
    unfold Offsets.isStable
    rw [(C12.post_none size bs hs hbs).2 hb]
  · rw [if_neg hb] at hx
    cases hx

/-- the stable nodes of the post-order iterator are the stable persisted nodes -/
theorem filter_stable_iter (size bs : Nat) (hs : size ≤ 2 ^ 63) (hbs : bs ≤ 10) :
    (Tree.postOrderNodesIter ⟨size, bs⟩).filter (Offsets.isStable ⟨size, bs⟩)
      = (Spec.persistedPost size bs).filter (Offsets.isStable ⟨size, bs⟩) := by
  rw [← postIter_filter size bs hs hbs, List.filter_filter]
  apply List.filter_congr
  intro x _
  by_cases hx : x ∈ halfLeaf ⟨size, bs⟩
  · rw [not_stable_halfLeaf size bs hs hbs x hx]
    rfl
  · have : (halfLeaf ⟨size, bs⟩).contains x = false := by
      rw [List.contains_eq_mem]; simpa using hx
    rw [this]
    simp

/-- for a persisted node "classified stable" is "its subtree ends inside the blob" -/
theorem isStable_eq_end (size bs x : Nat) (hs : size ≤ 2 ^ 63)
    (hx : x ∈ Spec.persistedPost size bs) :
    Offsets.isStable ⟨size, bs⟩ x
      = decide (Spec.endOf (Spec.indexOf x) (Spec.levelOf x) * 1024 ≤ size) := by
  rw [Bool.eq_iff_iff, decide_eq_true_iff]
  constructor
  · exact fun h => C13L.stable_end hs hx h
  · intro h
    obtain ⟨k, L, rfl, hL, hL53, _⟩ := C13L.mem_persistedPost_coords hs hx
    rw [Bits.indexOf_nodeOf (by omega), Bits.levelOf_nodeOf (by omega)] at h
    exact (Offsets.isStable_iff _ _).mpr
      ⟨_, (Offsets.stable_iff_coord size bs k L hs hL _).mpr ⟨h, rfl⟩⟩

/-- clause "stable count": the number of iterator nodes the model classifies stable is the number
of persisted nodes whose subtree lies inside the blob -/
theorem opStable_eq (size bs : Nat) (hs : size ≤ 2 ^ 63) (hbs : bs ≤ 10) :
    opStable size bs = opSpecStable size bs := by
  unfold opStable opSpecStable
  rw [isStable_fun, filter_stable_iter size bs hs hbs]
  congr 1
  apply List.filter_congr
  intro x hx
  exact isStable_eq_end size bs x hs hx

/-- the verdict's count is the `S` of the C13 theorems -/
theorem opSpecStable_eq_count (size bs : Nat) (hs : size ≤ 2 ^ 63) (hbs : bs ≤ 10) :
    opSpecStable size bs
      = (Spec.persistedPost size bs).countP (Offsets.isStable ⟨size, bs⟩) := by
  rw [← opStable_eq size bs hs hbs, List.countP_eq_length_filter]
  unfold opStable
  rw [isStable_fun, filter_stable_iter size bs hs hbs]

/-! ### the writer's outputs -/

theorem opA_eq (ext : List UInt8) (n bs : Nat) (hn : n ≤ ext.length) (hs : n ≤ 2 ^ 63)
    (hbs : bs ≤ 10) : opA ext n bs = Spec.postOutboard hf (ext.take n) bs := by
  have hl : (ext.take n).length = n := by rw [List.length_take]; omega
  unfold opA
  have h := C03.post_order_writer hf (ext.take n) bs (by omega) hbs
  rw [hl] at h
  rw [h]

theorem opB_eq (ext : List UInt8) (bs : Nat) (hs : ext.length ≤ 2 ^ 63) (hbs : bs ≤ 10) :
    opB ext bs = Spec.postOutboard hf ext bs := by
  unfold opB
  rw [C03.post_order_writer hf ext bs hs hbs]

theorem opA_length (ext : List UInt8) (n bs : Nat) (hn : n ≤ ext.length) (hs : n ≤ 2 ^ 63)
    (hbs : bs ≤ 10) : (opA ext n bs).length = (Spec.persistedPost n bs).length * 64 := by
  have hl : (ext.take n).length = n := by rw [List.length_take]; omega
  rw [opA_eq ext n bs hn hs hbs, SpecOb.postOutboard_length' hf SpecOb.hf_outLen _ bs (by omega) hbs,
    hl, (C12.post n bs hs hbs).1]

theorem opB_length (ext : List UInt8) (bs : Nat) (hs : ext.length ≤ 2 ^ 63) (hbs : bs ≤ 10) :
    (opB ext bs).length = (Spec.persistedPost ext.length bs).length * 64 := by
  rw [opB_eq ext bs hs hbs, SpecOb.postOutboard_length' hf SpecOb.hf_outLen _ bs hs hbs,
    (C12.post ext.length bs hs hbs).1]

/-- `C13L.postOutboard_stable_take` under `OutLen` (hash outputs are 32 bytes) -/
theorem postOutboard_stable_take' {H : Type} (hf : HashFns H) (hol : SpecOb.OutLen hf)
    (d e : List UInt8) (bs : Nat) (hs : (d ++ e).length ≤ 2 ^ 63) (hbs : bs ≤ 10) :
    (Spec.postOutboard hf d bs).take
        (64 * (Spec.persistedPost d.length bs).countP (Offsets.isStable ⟨d.length, bs⟩))
      = (Spec.postOutboard hf (d ++ e) bs).take
        (64 * (Spec.persistedPost d.length bs).countP (Offsets.isStable ⟨d.length, bs⟩)) := by
  have hle : d.length ≤ (d ++ e).length := by rw [List.length_append]; omega
  unfold Spec.postOutboard
  rw [C13L.take_flatMap64 _ _ (fun x _ => SpecOb.pairBytes_len hf hol d x),
    C13L.take_flatMap64 _ _ (fun x _ => SpecOb.pairBytes_len hf hol (d ++ e) x),
    ← C13L.take_stable_eq hle hs hbs]
  apply C13L.flatMap_congr'
  intro x hx
  obtain ⟨hxP, hst⟩ := C13L.mem_take_stable (by omega) hx
  exact (C13L.pairBytes_append hf d e x (C13L.stable_end (by omega) hxP hst)).symm

/-- the two outputs agree on the first `S` pairs (`S` = the verdict's stable count of the blob) -/
theorem opA_opB_take (ext : List UInt8) (n bs : Nat) (hn : n ≤ ext.length)
    (hs : ext.length ≤ 2 ^ 63) (hbs : bs ≤ 10) :
    (opA ext n bs).take (64 * opSpecStable n bs) = (opB ext bs).take (64 * opSpecStable n bs) := by
  have hl : (ext.take n).length = n := by rw [List.length_take]; omega
  have hsplit : ext.take n ++ ext.drop n = ext := List.take_append_drop n ext
  have h := postOutboard_stable_take' hf SpecOb.hf_outLen (ext.take n) (ext.drop n) bs
    (by rw [hsplit]; exact hs) hbs
  rw [hsplit, hl, ← opSpecStable_eq_count n bs (by omega) hbs] at h
  rw [opA_eq ext n bs hn (by omega) hbs, opB_eq ext bs hs hbs]
  exact h

/-! ### the common-prefix counter -/

theorem lcp_ge (fuel : Nat) (a b : List UInt8) (k : Nat) : k ≤ opObPre.lcp fuel a b k := by
  induction fuel generalizing a b k with
  | zero => exact Nat.le_refl _
  | succ f ih =>
    unfold opObPre.lcp
    split
    · exact Nat.le_trans (Nat.le_succ k) (ih _ _ _)
    · exact Nat.le_refl _

/-- two byte strings that agree on their first `S` 64-byte blocks have `lcp ≥ S` -/
theorem lcp_of_take (S : Nat) : ∀ (fuel : Nat) (a b : List UInt8) (k : Nat), S ≤ fuel →
    a.take (64 * S) = b.take (64 * S) → 64 * S ≤ a.length → 64 * S ≤ b.length →
    k + S ≤ opObPre.lcp fuel a b k := by
  induction S with
  | zero => intro fuel a b k _ _ _ _; exact lcp_ge fuel a b k
  | succ S ih =>
    intro fuel a b k hf he ha hb
    obtain ⟨f, rfl⟩ : ∃ f, fuel = f + 1 := ⟨fuel - 1, by omega⟩
    have e64 : a.take 64 = b.take 64 := by
      have := congrArg (List.take 64) he
      rwa [List.take_take, List.take_take, Nat.min_eq_left (by omega)] at this
    have edrop : (a.drop 64).take (64 * S) = (b.drop 64).take (64 * S) := by
      have := congrArg (List.drop 64) he
      rwa [List.drop_take, List.drop_take, show 64 * (S + 1) - 64 = 64 * S by omega] at this
    unfold opObPre.lcp
    have hc : (decide (a.length ≥ 64) && decide (b.length ≥ 64) && a.take 64 == b.take 64) = true := by
      rw [e64]
      simp only [ge_iff_le, BEq.rfl, Bool.and_true, Bool.and_eq_true, decide_eq_true_eq]
      omega
    rw [if_pos hc]
    have := ih f (a.drop 64) (b.drop 64) (k + 1) (by omega) edrop
      (by rw [List.length_drop]; omega) (by rw [List.length_drop]; omega)
    omega

/-! ### the five tokens -/

theorem opModel_eq (ext : List UInt8) (n bs : Nat) :
    opModel ext n bs = " ".intercalate ((opNums ext n bs).map toString) := by
  simp only [opModel, opNums, List.map_cons, List.map_nil, String.intercalate_cons_cons,
    String.intercalate_singleton, toString, String.append_assoc]

/-- the model's line, split at the spaces and parsed, gives the model's five numbers back -/
theorem opModel_parse (ext : List UInt8) (n bs : Nat) :
    ((opModel ext n bs).splitOn " ").mapM (·.toNat?) = some (opNums ext n bs) := by
  rw [opModel_eq, SpecIndex.splitOn_intercalate _ (by simp [opNums])
    (fun t ht => by
      obtain ⟨k, _, rfl⟩ := List.mem_map.1 ht
      exact SpecIndex.noSp_nat k)]
  exact SpecIndex.mapM_toNat?_toString _

/-! ## E. `opFlip` -/

section gen2
variable {H : Type} (hf : HashFns H)

/-- `CopyL.copied_spec` for the verbatim form, under `OutLen` instead of `hlen` -/
theorem moved_spec (hol : SpecOb.OutLen hf) (d : List UInt8) (bs : Nat) (hs : d.length ≤ 2 ^ 63)
    (hbs : bs ≤ 10) (src : Store H) (hsk : src.kind ≠ .empty) (hst : src.tree = ⟨d.length, bs⟩)
    (hsd : src.data = specData hf d src.kind bs) (k : StoreKind) :
    moved src k d.length bs = specData hf d k bs := by
  unfold moved specData
  apply flatMap_congr'
  intro x hx
  have hx' := (plist_perm k d.length bs hs).mem_iff.mp hx
  obtain ⟨hi, e⟩ := plist_slotD src hsk d.length bs hs hbs hst x hx'
  rw [hsd]
  unfold specData
  rw [blockAt_flatMap _ _ (fun x _ => SpecOb.pairBytes_len hf hol d x) _ hi, e]

theorem specData_length' (hol : SpecOb.OutLen hf) (d : List UInt8) (k : StoreKind) (bs : Nat)
    (hs : d.length ≤ 2 ^ 63) (hbs : bs ≤ 10) :
    (specData hf d k bs).length = (Tree.blocks ⟨d.length, bs⟩ - 1) * 64 := by
  unfold specData
  rw [length_flatMap64 _ _ (fun x _ => SpecOb.pairBytes_len hf hol d x), plist_length k _ bs hs hbs]

/-- `C12.copy_spec` under `OutLen` + `ByteRT` (both true of the driver's instance): copying a store
that holds the specification outboard of its order yields the one of the target's order -/
theorem copy_spec' (hol : SpecOb.OutLen hf) (hbt : ByteRT hf) (fl : Flavour) (d : List UInt8)
    (bs : Nat) (hs : d.length ≤ 2 ^ 63) (hbs : bs ≤ 10) (src dst : Store H)
    (hst : src.tree = ⟨d.length, bs⟩) (hdt : dst.tree = ⟨d.length, bs⟩)
    (hsk : src.kind ≠ .empty) (hsd : src.data = specData hf d src.kind bs)
    (hdk : ((dst.kind = .preIo ∨ dst.kind = .postIo) ∧
              dst.data.length ≤ (Tree.blocks ⟨d.length, bs⟩ - 1) * 64) ∨
           ((dst.kind = .preMem ∨ dst.kind = .postMem) ∧
              dst.data.length = (Tree.blocks ⟨d.length, bs⟩ - 1) * 64)) :
    copy hf fl src dst = .ok { dst with data := specData hf d dst.kind bs } := by
  have hl : (Tree.blocks ⟨d.length, bs⟩ - 1) * 64 ≤ src.data.length := by
    rw [hsd, specData_length' hf hol d _ bs hs hbs]
    exact Nat.le_refl _
  rw [copy_run' hf hbt d.length bs hs hbs fl src dst hst hdt hsk hl hdk,
    copied_hbt hf hbt src hsk _ d.length bs hs hbs hst hl]
  have := moved_spec hf hol d bs hs hbs src hsk hst hsd dst.kind
  unfold moved at this
  rw [this]

end gen2

/-- the intact pre-order memory store of the driver -/
theorem intact_pre (d : List UInt8) (bs : Nat) (hs : d.length ≤ 2 ^ 63) (hbs : bs ≤ 10) :
    intactStore .preMem d bs = ⟨.preMem, Spec.root hf d, ⟨d.length, bs⟩, Spec.preOutboard hf d bs⟩ := by
  have h := SpecOb.outboard_run_pre' hf SpecOb.hf_outLen d bs hs hbs
    ⟨.preMem, [], ⟨d.length, bs⟩, zerosN (Tree.outboardSize ⟨d.length, bs⟩)⟩ rfl
    (.inr ⟨rfl, SpecOb.length_zerosN _⟩)
  simp only at h
  unfold intactStore
  simp only [isPostKind, Bool.false_eq_true, if_false]
  rw [h]

/-- the intact post-order memory store of the driver -/
theorem intact_post (d : List UInt8) (bs : Nat) (hs : d.length ≤ 2 ^ 63) (hbs : bs ≤ 10) :
    intactStore .postMem d bs
      = ⟨.postMem, Spec.root hf d, ⟨d.length, bs⟩, Spec.postOutboard hf d bs⟩ := by
  unfold intactStore
  simp only [isPostKind, if_true]
  rw [C03.post_order_writer hf d bs hs hbs]

/-- `dataOf` of `opFlip` -/
def flDataOf (r : Res IoErr (Store HB)) : List UInt8 := match r with | .ok s => s.data | _ => []

def flZ (d : List UInt8) (bs : Nat) : List UInt8 := zerosN (Tree.outboardSize ⟨d.length, bs⟩)

/-- `a` of `opFlip`: pre → post (memory), sync -/
def flA (d : List UInt8) (bs : Nat) : List UInt8 :=
  flDataOf (copy hf .sync (intactStore .preMem d bs)
    { intactStore .preMem d bs with kind := .postMem, data := flZ d bs })

/-- `b'` of `opFlip`: post → pre (memory), sync -/
def flB (d : List UInt8) (bs : Nat) : List UInt8 :=
  flDataOf (copy hf .sync (intactStore .postMem d bs)
    { intactStore .postMem d bs with kind := .preMem, data := flZ d bs })

/-- `c` of `opFlip`: the result `a` copied back to pre-order -/
def flC (d : List UInt8) (bs : Nat) : List UInt8 :=
  flDataOf (copy hf .sync { intactStore .preMem d bs with kind := .postMem, data := flA d bs }
    { intactStore .preMem d bs with kind := .preMem, data := flZ d bs })

/-- `ioPost` of `opFlip`: pre (memory) → post (io, empty backing), fsm -/
def flIo (d : List UInt8) (bs : Nat) : List UInt8 :=
  flDataOf (copy hf .fsm (intactStore .preMem d bs)
    { intactStore .preMem d bs with kind := .postIo, data := [] })

/-- `back` of `opFlip`: that io store → pre (memory), fsm -/
def flBack (d : List UInt8) (bs : Nat) : List UInt8 :=
  flDataOf (copy hf .fsm { intactStore .preMem d bs with kind := .postIo, data := flIo d bs }
    { intactStore .preMem d bs with kind := .preMem, data := flZ d bs })

/-- the line for five byte strings -/
def flFmt (a b c i k : List UInt8) : String := s!"{dig a} {dig b} {dig c} {dig i} {dig k} 11"

/-- `m` of `opFlip` -/
def flModel (d : List UInt8) (bs : Nat) : String :=
  flFmt (flA d bs) (flB d bs) (flC d bs) (flIo d bs) (flBack d bs)

/-- `spec` of `opFlip` -/
def flSpec (d : List UInt8) (bs : Nat) : String :=
  s!"{dig (Spec.postOutboard hf d bs)} {dig (Spec.preOutboard hf d bs)} {dig (Spec.preOutboard hf d bs)} {dig (Spec.postOutboard hf d bs)} {dig (Spec.preOutboard hf d bs)} 11"

/-- the verdict of `opFlip` -/
def flVerdict (d : List UInt8) (bs : Nat) (impl : String) : Option String :=
  if impl == flSpec d bs then none
  else some s!"flip / copy result differs from the directly computed outboards ({flSpec d bs})"

theorem opFlip_eq (b bs impl : String) (d : List UInt8) (bsn : Nat)
    (h1 : blob b = some d) (h2 : bs.toNat? = some bsn) :
    (opFlip [b, bs] impl).model = flModel d bsn ∧
    (opFlip [b, bs] impl).specFail = flVerdict d bsn impl := by
  unfold opFlip
  simp only [h1, h2]
  exact ⟨rfl, rfl⟩

theorem flZ_length (d : List UInt8) (bs : Nat) :
    (flZ d bs).length = (Tree.blocks ⟨d.length, bs⟩ - 1) * 64 := SpecOb.length_zerosN _

section clauses
variable (d : List UInt8) (bs : Nat) (hs : d.length ≤ 2 ^ 63) (hbs : bs ≤ 10)
include hs hbs

/-- clause 1: pre → post gives `Spec.postOutboard` -/
theorem flA_eq : flA d bs = Spec.postOutboard hf d bs := by
  unfold flA
  rw [intact_pre d bs hs hbs,
    copy_spec' hf SpecOb.hf_outLen real_byteRT .sync d bs hs hbs _ _ rfl rfl (by simp)
      (specData_pre hf d (.inr rfl) bs).symm (.inr ⟨.inr rfl, flZ_length d bs⟩)]
  exact specData_post hf d (.inr rfl) bs

/-- clause 2: post → pre gives `Spec.preOutboard` -/
theorem flB_eq : flB d bs = Spec.preOutboard hf d bs := by
  unfold flB
  rw [intact_post d bs hs hbs,
    copy_spec' hf SpecOb.hf_outLen real_byteRT .sync d bs hs hbs _ _ rfl rfl (by simp)
      (specData_post hf d (.inr rfl) bs).symm (.inr ⟨.inl rfl, flZ_length d bs⟩)]
  exact specData_pre hf d (.inr rfl) bs

/-- clause 3: the converted outboard copied back gives `Spec.preOutboard` -/
theorem flC_eq : flC d bs = Spec.preOutboard hf d bs := by
  unfold flC
  rw [flA_eq d bs hs hbs, intact_pre d bs hs hbs,
    copy_spec' hf SpecOb.hf_outLen real_byteRT .sync d bs hs hbs _ _ rfl rfl (by simp)
      (specData_post hf d (.inr rfl) bs).symm (.inr ⟨.inl rfl, flZ_length d bs⟩)]
  exact specData_pre hf d (.inr rfl) bs

/-- clause 4: pre (memory) → post (io, empty backing), fsm, gives `Spec.postOutboard` -/
theorem flIo_eq : flIo d bs = Spec.postOutboard hf d bs := by
  unfold flIo
  rw [intact_pre d bs hs hbs,
    copy_spec' hf SpecOb.hf_outLen real_byteRT .fsm d bs hs hbs _ _ rfl rfl (by simp)
      (specData_pre hf d (.inr rfl) bs).symm (.inl ⟨.inr rfl, Nat.zero_le _⟩)]
  exact specData_post hf d (.inl rfl) bs

/-- clause 5: the io store copied back gives `Spec.preOutboard` -/
theorem flBack_eq : flBack d bs = Spec.preOutboard hf d bs := by
  unfold flBack
  rw [flIo_eq d bs hs hbs, intact_pre d bs hs hbs,
    copy_spec' hf SpecOb.hf_outLen real_byteRT .fsm d bs hs hbs _ _ rfl rfl (by simp)
      (specData_post hf d (.inl rfl) bs).symm (.inr ⟨.inl rfl, flZ_length d bs⟩)]
  exact specData_pre hf d (.inr rfl) bs

/-- the model's line is the verdict's `spec` line -/
theorem flModel_eq_spec : flModel d bs = flSpec d bs := by
  unfold flModel
  rw [flA_eq d bs hs hbs, flB_eq d bs hs hbs, flC_eq d bs hs hbs, flIo_eq d bs hs hbs,
    flBack_eq d bs hs hbs]
  rfl

end clauses

end Bao.SpecFlip
