import BaoModel.Ops1
import BaoProofs.Lemmas.PlanPreTop

/-!
# Lemmas for "the executable predicate `Bao.Ops.planPreWF` never rejects the model"

1. `planPreWF` is cut into named clauses (`emptySelB`, `stackEnd`, `rootFlags`, `leavesOf`,
   `planPreWF.incr`, `inBlobB`, `coverB`, `leafOkB`, `parentsOkB`); `planPreWF_eq` (by `rfl`)
   shows that the predicate is exactly the cascade of these clauses.
2. `PlanOK size bs ml q p`: the `Prop`-level content of the clauses in the vocabulary of C15
   (`stackRun`, `rootFlag`, `leafSpans`, `covered`, `Spec.selected`).
3. one lemma per clause: `PlanOK` field(s) ⇒ the Boolean clause evaluates to `true`
   (`stackEnd_eq`, `rootFlags_ok`, `incr_ok`, `inBlob_ok`, `cover_ok`, `leafOk_ok`,
   `parentsOk_ok`), and `planPreWF_none_of_ok`.
4. three new inductions over the recursive plan `PlanPre.planPre` that C15 does not state:
   `leaf_pos` (a leaf is empty only in the empty blob), `leaf_height` (a leaf is an aligned unit
   of `2^h` chunks, `h ≤ max bs ml`, `h ≤ bs` unless its ranges are "all"), `parent_meet_aux`
   (the flags of a parent say which halves of its chunk range contain a selected chunk, and its
   mid lies inside the blob).
5. `planOK_plan`: the recursive plan satisfies `PlanOK`; `PlanOK` is stable under
   `Chunk.withoutRanges` and under raising the block size parameter to 0 (response plan).
-/

namespace Bao.SpecPre
open Bao Bao.Ops Bao.Spec Bao.PlanPre Bao.Bits

/-! ## 1. the clauses of the predicate -/

/-- the selection the predicate judges against -/
def selB (size : Nat) (q : Ranges) : Nat → Bool := fun c => Spec.selected size q c

/-- clause 0: no chunk of the blob is selected -/
def emptySelB (size : Nat) (q : Ranges) : Bool :=
  (List.range (Spec.nChunks size)).all (fun c => !selB size q c)

/-- one step of the hash stack of clause 1 -/
def stackStep (h : Option Nat) (c : Chunk) : Option Nat :=
  match h with
  | none => none
  | some h =>
    if h == 0 then none else
    match c with
    | .parent _ _ l r _ => some (h - 1 + (if l then 1 else 0) + (if r then 1 else 0))
    | .leaf .. => some (h - 1)

/-- clause 1: the hash stack after the plan, starting from one expected hash -/
def stackEnd (plan : List Chunk) : Option Nat := plan.foldl stackStep (some 1)

/-- clause 2: the list of `is_root` flags -/
def rootFlags (plan : List Chunk) : List Bool :=
  plan.map fun c => match c with | .parent _ r _ _ _ => r | .leaf _ _ r _ => r

/-- the `(start, size)` pairs of the leaf items -/
def leavesOf (plan : List Chunk) : List (Nat × Nat) :=
  plan.filterMap fun c => match c with | .leaf s z _ _ => some (s, z) | _ => none

/-- clause 3b: leaves inside the blob, empty only in the empty blob -/
def inBlobB (size : Nat) (leaves : List (Nat × Nat)) : Bool :=
  leaves.all fun (s, z) => s * 1024 + z ≤ size && (z > 0 || size == 0)

def coveredB (leaves : List (Nat × Nat)) (c : Nat) : Bool :=
  leaves.any fun (s, z) => s ≤ c && c * 1024 < s * 1024 + max z 1

/-- clause 4a: every selected chunk is covered -/
def coverB (size : Nat) (q : Ranges) (leaves : List (Nat × Nat)) : Bool :=
  (List.range (Spec.nChunks size)).all fun c => !selB size q c || coveredB leaves c

/-- clause 4b: every leaf is an aligned unit touched by the selection -/
def leafOkB (size bs ml : Nat) (q : Ranges) (leaves : List (Nat × Nat)) : Bool :=
  leaves.all fun (s, z) =>
    let cnt := max 1 ((z + 1023) / 1024)
    let hasSel := (List.range cnt).any fun i => selB size q (s + i)
    let allSel := (List.range cnt).all fun i => selB size q (s + i)
    let aligned := (List.range 64).any fun h => cnt ≤ 2 ^ h && s % 2 ^ h == 0 && 2 ^ h ≤ 2 ^ max bs ml
    hasSel && aligned && (cnt ≤ 2 ^ bs || allSel)

/-- clause 5: parent flags -/
def parentsOkB (size : Nat) (q : Ranges) (plan : List Chunk) : Bool :=
  plan.all fun c =>
    match c with
    | .parent node _ l r _ =>
      let cr := Node.chunkRange node
      let mid := Node.mid node
      let meetL := (List.range (mid - cr.1)).any fun i => selB size q (cr.1 + i)
      let meetR := (List.range (min cr.2 (Spec.nChunks size) - mid)).any fun i => selB size q (mid + i)
      l == meetL && r == meetR && decide (mid < Spec.nChunks size)
    | _ => true

/-- the predicate is the cascade of its clauses (definitional unfolding) -/
theorem planPreWF_eq (size bs ml : Nat) (q : Ranges) (plan : List Chunk) :
    planPreWF size bs ml q plan =
      if emptySelB size q then
        (if plan.isEmpty then none else some "empty selection but non-empty plan")
      else if stackEnd plan != some 0 then some s!"hash stack: {repr (stackEnd plan)}"
      else if rootFlags plan != (true :: List.replicate (plan.length - 1) false) then some "root flag"
      else if !planPreWF.incr (leavesOf plan) then some "leaves not increasing / overlapping"
      else if !inBlobB size (leavesOf plan) then some "leaf outside the blob"
      else if !coverB size q (leavesOf plan) then some "a selected chunk is not covered"
      else if !leafOkB size bs ml q (leavesOf plan) then
        some "a leaf is not an aligned unit touched by the selection"
      else if !parentsOkB size q plan then some "parent flags" else none := rfl

/-- the predicate accepts as soon as every clause holds -/
theorem planPreWF_none_of_clauses {size bs ml : Nat} {q : Ranges} {plan : List Chunk}
    (h0 : emptySelB size q = true → plan = [])
    (h1 : emptySelB size q = false → stackEnd plan = some 0)
    (h2 : emptySelB size q = false →
      rootFlags plan = true :: List.replicate (plan.length - 1) false)
    (h3 : planPreWF.incr (leavesOf plan) = true)
    (h3b : inBlobB size (leavesOf plan) = true)
    (h4 : coverB size q (leavesOf plan) = true)
    (h4b : leafOkB size bs ml q (leavesOf plan) = true)
    (h5 : parentsOkB size q plan = true) :
    planPreWF size bs ml q plan = none := by
  rw [planPreWF_eq]
  cases he : emptySelB size q with
  | true => rw [h0 he]; rfl
  | false =>
    rw [h1 he, h2 he, h3, h3b, h4, h4b, h5]
    simp

/-! ## generic list facts -/

theorem any_range_iff (f : Nat → Bool) (a m : Nat) :
    ((List.range m).any fun i => f (a + i)) = true ↔ ∃ c, a ≤ c ∧ c < a + m ∧ f c = true := by
  simp only [List.any_eq_true, List.mem_range]
  constructor
  · rintro ⟨i, hi, h⟩; exact ⟨a + i, by omega, by omega, h⟩
  · rintro ⟨c, h1, h2, h3⟩
    exact ⟨c - a, by omega, by rwa [show a + (c - a) = c by omega]⟩

theorem all_range_iff (f : Nat → Bool) (a m : Nat) :
    ((List.range m).all fun i => f (a + i)) = true ↔ ∀ c, a ≤ c → c < a + m → f c = true := by
  simp only [List.all_eq_true, List.mem_range]
  constructor
  · intro h c h1 h2
    have := h (c - a) (by omega)
    rwa [show a + (c - a) = c by omega] at this
  · intro h i hi; exact h (a + i) (by omega) (by omega)

theorem chunksOf_eq (z : Nat) : chunksOf z = (z + 1023) / 1024 := by
  unfold chunksOf; split <;> omega

/-! ## clause 1: the hash stack -/

theorem foldl_stackStep_none (p : List Chunk) : p.foldl stackStep none = none := by
  induction p with
  | nil => rfl
  | cons c p ih => exact ih

theorem foldl_stackStep_some (h : Nat) (p : List Chunk) :
    p.foldl stackStep (some h) = stackRun h p := by
  induction p generalizing h with
  | nil => rfl
  | cons c p ih =>
    cases c with
    | parent n ir l r x =>
      simp only [List.foldl_cons, stackStep, stackRun]
      by_cases h0 : h = 0
      · simp [h0, foldl_stackStep_none]
      · simp only [beq_iff_eq, h0, if_false]; exact ih _
    | leaf s z ir x =>
      simp only [List.foldl_cons, stackStep, stackRun]
      by_cases h0 : h = 0
      · simp [h0, foldl_stackStep_none]
      · simp only [beq_iff_eq, h0, if_false]; exact ih _

theorem stackEnd_eq (p : List Chunk) : stackEnd p = stackRun 1 p := foldl_stackStep_some 1 p

/-! ## clause 2: root flags -/

theorem rootFlags_eq (p : List Chunk) : rootFlags p = p.map Chunk.rootFlag := by
  unfold rootFlags
  apply List.map_congr_left
  intro c _; cases c <;> rfl

theorem rootFlags_ok {p : List Chunk}
    (h : ∃ c tail, p = c :: tail ∧ c.rootFlag = true ∧ ∀ c' ∈ tail, c'.rootFlag = false) :
    rootFlags p = true :: List.replicate (p.length - 1) false := by
  obtain ⟨c, tail, rfl, hc, ht⟩ := h
  rw [rootFlags_eq, List.map_cons, hc]
  congr 1
  rw [List.eq_replicate_iff]
  refine ⟨by simp, ?_⟩
  intro b hb
  obtain ⟨c', hc', rfl⟩ := List.mem_map.1 hb
  exact ht c' hc'

/-! ## leaves -/

theorem mem_leavesOf {p : List Chunk} {s z : Nat} :
    (s, z) ∈ leavesOf p ↔ ∃ r x, Chunk.leaf s z r x ∈ p := by
  unfold leavesOf
  rw [List.mem_filterMap]
  constructor
  · rintro ⟨c, hc, e⟩
    cases c with
    | parent => simp at e
    | leaf s' z' r x =>
      simp only [Option.some.injEq, Prod.mk.injEq] at e
      obtain ⟨rfl, rfl⟩ := e
      exact ⟨r, x, hc⟩
  · rintro ⟨r, x, h⟩
    exact ⟨_, h, rfl⟩

theorem leafSpans_eq_map (p : List Chunk) :
    leafSpans p = (leavesOf p).map fun a => (a.1, a.1 + max 1 (chunksOf a.2)) := by
  induction p with
  | nil => rfl
  | cons c p ih =>
    cases c with
    | parent n ir l r x => simpa [leafSpans, leavesOf] using ih
    | leaf s z ir x => simpa [leafSpans, leavesOf] using ih

/-! ## clause 3: leaves increasing -/

theorem incr_of_pairwise : ∀ l : List (Nat × Nat),
    l.Pairwise (fun a b => a.1 + (a.2 + 1023) / 1024 ≤ b.1 ∧ 0 < a.2) →
    planPreWF.incr l = true
  | [], _ => by simp [planPreWF.incr]
  | [_], _ => by simp [planPreWF.incr]
  | (s1, z1) :: (s2, z2) :: rest, h => by
    have h1 := List.pairwise_cons.1 h
    have h2 := h1.1 (s2, z2) (by simp)
    simp only [planPreWF.incr, Bool.and_eq_true, decide_eq_true_eq]
    exact ⟨⟨h2.1, h2.2⟩, incr_of_pairwise _ h1.2⟩

/-! ## 2. the `Prop`-level content of the clauses -/

/-- what the clauses of `planPreWF size bs ml q` say about a plan `p`, in the vocabulary of C15 -/
structure PlanOK (size bs ml : Nat) (q : Ranges) (p : List Chunk) : Prop where
  /-- clause 1 -/
  stack : stackRun 1 p = some 0
  /-- clause 2 -/
  root : ∃ c tail, p = c :: tail ∧ c.rootFlag = true ∧ ∀ c' ∈ tail, c'.rootFlag = false
  /-- clause 3: consecutive (indeed all) leaf spans are ordered and disjoint -/
  spans : (leafSpans p).Pairwise (fun a b => a.2 ≤ b.1)
  /-- clause 3b -/
  inBlob : ∀ s z r x, Chunk.leaf s z r x ∈ p → toBytes s + z ≤ size
  /-- clause 3 / 3b: a leaf is empty only in the empty blob -/
  pos : ∀ s z r x, Chunk.leaf s z r x ∈ p → 0 < z ∨ size = 0
  /-- a leaf span ends inside the blob -/
  spanEnd : ∀ s z r x, Chunk.leaf s z r x ∈ p → s + max 1 (chunksOf z) ≤ Spec.nChunks size
  /-- clause 4a -/
  complete : ∀ c, Spec.selected size q c = true → covered p c
  /-- clause 4b, `hasSel` -/
  sound : ∀ s z r x, Chunk.leaf s z r x ∈ p →
    ∃ c, s ≤ c ∧ c < s + max 1 (chunksOf z) ∧ Spec.selected size q c = true
  /-- clause 4b, `aligned` and `cnt ≤ 2^bs || allSel` -/
  unit : ∀ s z r x, Chunk.leaf s z r x ∈ p →
    ∃ h, h < 64 ∧ max 1 (chunksOf z) ≤ 2 ^ h ∧ s % 2 ^ h = 0 ∧ h ≤ max bs ml ∧
      (h ≤ bs ∨ ∀ c, s ≤ c → c < s + max 1 (chunksOf z) → Spec.selected size q c = true)
  /-- clause 5 -/
  parents : ∀ node ir lf rf x, Chunk.parent node ir lf rf x ∈ p →
    (lf = true ↔ ∃ c, (Node.chunkRange node).1 ≤ c ∧ c < Node.mid node ∧
      Spec.selected size q c = true) ∧
    (rf = true ↔ ∃ c, Node.mid node ≤ c ∧
      c < min (Node.chunkRange node).2 (Spec.nChunks size) ∧ Spec.selected size q c = true) ∧
    Node.mid node < Spec.nChunks size

variable {size bs ml : Nat} {q : Ranges} {p : List Chunk}

/-! ## 3. `PlanOK` ⇒ the Boolean clauses -/

theorem incr_ok (h : PlanOK size bs ml q p) : planPreWF.incr (leavesOf p) = true := by
  apply incr_of_pairwise
  have hs := h.spans
  rw [leafSpans_eq_map, List.pairwise_map] at hs
  refine List.Pairwise.imp_of_mem ?_ hs
  rintro ⟨s1, z1⟩ ⟨s2, z2⟩ ha hb hab
  obtain ⟨r1, x1, m1⟩ := mem_leavesOf.1 ha
  obtain ⟨r2, x2, m2⟩ := mem_leavesOf.1 hb
  have hp := h.pos s1 z1 r1 x1 m1
  have he := h.spanEnd s2 z2 r2 x2 m2
  simp only at hab ⊢
  rw [chunksOf_eq] at hab he
  refine ⟨by omega, ?_⟩
  rcases hp with hp | hp
  · exact hp
  · subst hp
    have : Spec.nChunks 0 = 1 := by decide
    omega

theorem inBlob_ok (h : PlanOK size bs ml q p) : inBlobB size (leavesOf p) = true := by
  unfold inBlobB
  rw [List.all_eq_true]
  rintro ⟨s, z⟩ hm
  obtain ⟨r, x, m⟩ := mem_leavesOf.1 hm
  have h1 := h.inBlob s z r x m
  have h2 := h.pos s z r x m
  unfold toBytes at h1
  simp only [Bool.and_eq_true, Bool.or_eq_true, decide_eq_true_eq, beq_iff_eq]
  exact ⟨h1, h2⟩

theorem coveredB_iff {p : List Chunk} {c : Nat} :
    coveredB (leavesOf p) c = true ↔ covered p c := by
  unfold coveredB covered
  rw [List.any_eq_true]
  constructor
  · rintro ⟨⟨s, z⟩, hm, hc⟩
    obtain ⟨r, x, m⟩ := mem_leavesOf.1 hm
    simp only [Bool.and_eq_true, decide_eq_true_eq] at hc
    refine ⟨s, z, r, x, m, hc.1, ?_⟩
    rw [chunksOf_eq]; omega
  · rintro ⟨s, z, r, x, m, h1, h2⟩
    refine ⟨(s, z), mem_leavesOf.2 ⟨r, x, m⟩, ?_⟩
    simp only [Bool.and_eq_true, decide_eq_true_eq]
    rw [chunksOf_eq] at h2
    exact ⟨h1, by omega⟩

theorem cover_ok (h : PlanOK size bs ml q p) : coverB size q (leavesOf p) = true := by
  unfold coverB
  rw [List.all_eq_true]
  intro c _
  cases hs : selB size q c with
  | false => rfl
  | true =>
    simp only [Bool.not_true, Bool.false_or]
    exact coveredB_iff.2 (h.complete c hs)

theorem leafOk_ok (h : PlanOK size bs ml q p) : leafOkB size bs ml q (leavesOf p) = true := by
  unfold leafOkB
  rw [List.all_eq_true]
  rintro ⟨s, z⟩ hm
  obtain ⟨r, x, m⟩ := mem_leavesOf.1 hm
  obtain ⟨c, hc1, hc2, hc3⟩ := h.sound s z r x m
  obtain ⟨e, he, hcnt, hal, hle, hor⟩ := h.unit s z r x m
  rw [chunksOf_eq] at hc2 hcnt hor
  simp only [Bool.and_eq_true, Bool.or_eq_true, decide_eq_true_eq]
  refine ⟨⟨?_, ?_⟩, ?_⟩
  · exact (any_range_iff (selB size q) s _).2 ⟨c, hc1, hc2, hc3⟩
  · rw [List.any_eq_true]
    refine ⟨e, List.mem_range.2 he, ?_⟩
    simp only [Bool.and_eq_true, decide_eq_true_eq, beq_iff_eq]
    exact ⟨⟨hcnt, hal⟩, Nat.pow_le_pow_right (by decide) hle⟩
  · rcases hor with hor | hor
    · left; exact Nat.le_trans hcnt (Nat.pow_le_pow_right (by decide) hor)
    · right; exact (all_range_iff (selB size q) s _).2 hor

theorem parentsOk_ok (h : PlanOK size bs ml q p) : parentsOkB size q p = true := by
  unfold parentsOkB
  rw [List.all_eq_true]
  intro c hc
  cases c with
  | leaf => rfl
  | parent node ir lf rf x =>
    obtain ⟨hl, hr, hm⟩ := h.parents node ir lf rf x hc
    simp only [Bool.and_eq_true, decide_eq_true_eq, beq_iff_eq]
    refine ⟨⟨?_, ?_⟩, hm⟩
    · rw [Bool.eq_iff_iff, hl, any_range_iff]
      constructor
      · rintro ⟨c, h1, h2, h3⟩; exact ⟨c, h1, by omega, h3⟩
      · rintro ⟨c, h1, h2, h3⟩; exact ⟨c, h1, by omega, h3⟩
    · rw [Bool.eq_iff_iff, hr, any_range_iff]
      constructor
      · rintro ⟨c, h1, h2, h3⟩; exact ⟨c, h1, by omega, h3⟩
      · rintro ⟨c, h1, h2, h3⟩; exact ⟨c, h1, by omega, h3⟩

/-- a plan with the `PlanOK` properties passes the predicate, provided an empty selection comes
with an empty plan -/
theorem planPreWF_none_of_ok (h0 : emptySelB size q = true → p = [])
    (h : emptySelB size q = false → PlanOK size bs ml q p) :
    planPreWF size bs ml q p = none := by
  cases he : emptySelB size q with
  | true =>
    rw [planPreWF_eq, he, h0 he]; rfl
  | false =>
    have ok := h he
    exact planPreWF_none_of_clauses (fun h' => by rw [he] at h'; cases h')
      (fun _ => by rw [stackEnd_eq]; exact ok.stack) (fun _ => rootFlags_ok ok.root)
      (incr_ok ok) (inBlob_ok ok) (cover_ok ok) (leafOk_ok ok) (parentsOk_ok ok)

/-! ## 4. three more inductions over the recursive plan -/

section inductions
variable {filled root : Nat}

/-- a leaf item is empty only in the empty blob -/
theorem leaf_pos (g : Geo size bs filled) (L k : Nat) (rs : Ranges) :
    ∀ s z r x, Chunk.leaf s z r x ∈ planPre size bs ml filled root L k rs → 0 < z ∨ size = 0 := by
  refine planPre_induct (size := size) (bs := bs) (ml := ml) (filled := filled) (root := root)
    (P := fun _ _ _ p => ∀ s z r x, Chunk.leaf s z r x ∈ p → 0 < z ∨ size = 0)
    ?_ ?_ ?_ ?_ ?_ ?_ ?_ L k rs
  · intro L k s z r x hm; cases hm
  · intro k rs _ _ s z r x hm; cases hm
  · intro L k rs _ _ ih; exact ih
  · intro L k rs _ hlt _ s z r x hm
    have hs : startOf k L < filled := Nat.lt_of_le_of_lt (startOf_le_nodeOf k L) hlt
    have h0 := g.start_strict hs
    have hse := startOf_lt_endOf k (L + bs)
    have hm := List.mem_singleton.1 hm
    simp only [nodeLeaf, Chunk.leaf.injEq] at hm
    obtain ⟨-, rfl, -, -⟩ := hm
    unfold toBytes at *
    omega
  · intro k rs _ hlt _ _ s z r x hm
    have hs : startOf k 0 < filled := Nat.lt_of_le_of_lt (startOf_le_nodeOf k 0) hlt
    have h0 := g.start_strict hs
    have hse := startOf_lt_endOf k (0 + bs)
    have hm := List.mem_singleton.1 hm
    simp only [nodeLeaf, Chunk.leaf.injEq] at hm
    obtain ⟨-, rfl, -, -⟩ := hm
    unfold toBytes at *
    omega
  · intro k rs _ _ _ hh s z r x hm
    have hsm := startOf_lt_midOf k bs
    have hme := midOf_lt_endOf k bs
    left
    rcases mem_group hm with ⟨-, rfl, -, -⟩ | ⟨-, rfl, -, -⟩
    · unfold toBytes; omega
    · unfold toBytes at *; omega
  · intro L k rs _ _ _ ihl ihr s z r x hm
    rcases mem_inner rfl hm with hm | hm
    · exact ihl s z r x hm
    · exact ihr s z r x hm

/-- the level of an existing node of a blob of at most `2^63` bytes is small -/
theorem level_small (g : Geo size bs filled) (hs : size ≤ 2 ^ 63) (hbs : bs ≤ 10) {L k : Nat}
    (hlt : nodeOf k L < filled) : L + bs + 1 < 64 := by
  cases L with
  | zero => omega
  | succ L =>
    have h1 := g.mid_lt hlt
    have h2 : 2 ^ (L + 1 + bs) ≤ midOf k (L + 1 + bs) := by
      rw [midOf_eq]; omega
    unfold toBytes at h1
    have h3 : 2 ^ (L + 1 + bs) * 1024 < 2 ^ 63 := by
      have : 2 ^ (L + 1 + bs) * 1024 ≤ midOf k (L + 1 + bs) * 1024 := Nat.mul_le_mul_right _ h2
      exact Nat.lt_of_le_of_lt this (Nat.lt_of_lt_of_le h1 hs)
    have h3 : 2 ^ (L + 1 + bs + 10) < 2 ^ 63 := by
      rw [Nat.pow_add]; exact h3
    have := (Nat.pow_lt_pow_iff_right (a := 2) (by decide)).1 h3
    omega

theorem startOf_mod_self (k L : Nat) : startOf k L % 2 ^ (L + 1) = 0 := by
  unfold startOf; exact Nat.mul_mod_left _ _

theorem endOf_eq_start_add (k L : Nat) : endOf k L = startOf k L + 2 ^ (L + 1) := by
  unfold endOf startOf; rw [Nat.add_mul, Nat.one_mul]

/-- every leaf is an aligned unit of `2^h` chunks with `h ≤ max bs ml`; `h ≤ bs` unless the
attached ranges are "all" -/
theorem leaf_height (g : Geo size bs filled) (hs : size ≤ 2 ^ 63) (hbs : bs ≤ 10)
    (L k : Nat) (rs : Ranges) :
    ∀ s z r x, Chunk.leaf s z r x ∈ planPre size bs ml filled root L k rs →
      ∃ h, h < 64 ∧ max 1 (chunksOf z) ≤ 2 ^ h ∧ s % 2 ^ h = 0 ∧ h ≤ max bs ml ∧
        (h ≤ bs ∨ Ranges.isAll x = true) := by
  refine planPre_induct (size := size) (bs := bs) (ml := ml) (filled := filled) (root := root)
    (P := fun _ _ _ p => ∀ s z r x, Chunk.leaf s z r x ∈ p →
      ∃ h, h < 64 ∧ max 1 (chunksOf z) ≤ 2 ^ h ∧ s % 2 ^ h = 0 ∧ h ≤ max bs ml ∧
        (h ≤ bs ∨ Ranges.isAll x = true))
    ?_ ?_ ?_ ?_ ?_ ?_ ?_ L k rs
  · intro L k s z r x hm; cases hm
  · intro k rs _ _ s z r x hm; cases hm
  · intro L k rs _ _ ih; exact ih
  · -- query leaf: the whole node
    intro L k rs _ hlt hq s z r x hm
    obtain ⟨rfl, h2, rfl⟩ := nodeLeaf_agree g hlt hm
    have h3 := endOf_eq_start_add k (L + bs)
    have h4 := queryLeaf_lt hq
    refine ⟨L + bs + 1, level_small g hs hbs hlt, by omega, startOf_mod_self k (L + bs), by omega,
      Or.inr (queryLeaf_isAll hq)⟩
  · -- half leaf: at most one group
    intro k rs _ hlt _ hh s z r x hm
    obtain ⟨rfl, h2, -⟩ := nodeLeaf_agree g hlt hm
    simp only [Nat.zero_add] at h2 ⊢
    have hsm := startOf_lt_midOf k bs
    have h3 := midOf_eq_start_add k bs
    have h5 := nChunks_le_of_le_toBytes (by omega) hh
    exact ⟨bs, by omega, by omega, startOf_mod k bs, by omega, Or.inl (Nat.le_refl _)⟩
  · -- chunk group
    intro k rs _ _ _ hh s z r x hm
    have hsm := startOf_lt_midOf k bs
    have hme := midOf_lt_endOf k bs
    have h3 := midOf_eq_start_add k bs
    have h4 := endOf_eq_mid_add k bs
    rcases mem_group hm with ⟨rfl, rfl, -, -⟩ | ⟨rfl, rfl, -, -⟩
    · have := span_full hsm
      exact ⟨bs, by omega, by omega, startOf_mod k bs, by omega, Or.inl (Nat.le_refl _)⟩
    · have := span_eq (Or.inr hh) hme
      exact ⟨bs, by omega, by omega, midOf_mod k bs, by omega, Or.inl (Nat.le_refl _)⟩
  · intro L k rs _ _ _ ihl ihr s z r x hm
    rcases mem_inner rfl hm with hm | hm
    · exact ihl s z r x hm
    · exact ihr s z r x hm

/-- the two flags of the parent item of a node with range `[s, e)`, mid `m` inside the blob -/
theorem own_flags {rs : Ranges} {s m e : Nat} (hwf : Ranges.WF rs = true) (ht : Tight rs s)
    (hb : Bounded size rs e) (hsm : s < m) (hme : m < e) (hmN : m < nChunks size) :
    ((!(Ranges.splitInner rs s m).1.isEmpty) = true ↔
      ∃ c, s ≤ c ∧ c < m ∧ Spec.selected size rs c = true) ∧
    ((!(Ranges.splitInner rs s m).2.isEmpty) = true ↔
      ∃ c, m ≤ c ∧ c < min e (nChunks size) ∧ Spec.selected size rs c = true) := by
  have hwfs := C14.splitInner_wf s m hwf
  constructor
  · rw [not_isEmpty_eq_true_iff]
    constructor
    · intro hl
      obtain ⟨c, h1, h2, h3⟩ := leaf_witness (size := size) hwfs.1 hl (tight_left m ht)
        (Or.inr (left_lt_mid rs s (by omega))) hsm (by omega)
      have hc : c < m := by omega
      rw [selected_left hwf h1 hc hmN] at h3
      exact ⟨c, h1, hc, h3⟩
    · rintro ⟨c, h1, h2, h3⟩
      rw [← selected_left hwf h1 h2 hmN] at h3
      exact ne_nil_of_selected h3
  · rw [not_isEmpty_eq_true_iff]
    constructor
    · intro hr
      obtain ⟨c, h1, h2, h3⟩ := leaf_witness hwfs.2 hr (tight_right hwf s m)
        (bounded_right hwf s m (by omega) hb) hme hmN
      rw [selected_right hwf h1] at h3
      exact ⟨c, h1, h2, h3⟩
    · rintro ⟨c, h1, h2, h3⟩
      rw [← selected_right (s := s) hwf h1] at h3
      exact ne_nil_of_selected h3

theorem exists_congr_sel {a b : Nat} {f g : Nat → Bool} (h : ∀ c, a ≤ c → c < b → f c = g c) :
    (∃ c, a ≤ c ∧ c < b ∧ f c = true) ↔ (∃ c, a ≤ c ∧ c < b ∧ g c = true) := by
  constructor
  · rintro ⟨c, h1, h2, h3⟩; exact ⟨c, h1, h2, by rwa [← h c h1 h2]⟩
  · rintro ⟨c, h1, h2, h3⟩; exact ⟨c, h1, h2, by rwa [h c h1 h2]⟩

/-- what is claimed about a parent item below node `(k, L)` with sub-query `rs` -/
def ParentFact (size bs : Nat) (L k : Nat) (rs : Ranges) (node : Nat) (lf rf : Bool) : Prop :=
  ∃ k' L', node = nodeOf k' (L' + bs) ∧ L' + bs ≤ 64 ∧
    startOf k (L + bs) ≤ startOf k' (L' + bs) ∧ endOf k' (L' + bs) ≤ endOf k (L + bs) ∧
    midOf k' (L' + bs) < nChunks size ∧
    (lf = true ↔ ∃ c, startOf k' (L' + bs) ≤ c ∧ c < midOf k' (L' + bs) ∧
      Spec.selected size rs c = true) ∧
    (rf = true ↔ ∃ c, midOf k' (L' + bs) ≤ c ∧ c < min (endOf k' (L' + bs)) (nChunks size) ∧
      Spec.selected size rs c = true)

/-- the parent item of the node itself -/
theorem own_parentFact (g : Geo size bs filled) {L k : Nat} {rs : Ranges}
    (hlt : nodeOf k L < filled) (hmN : midOf k (L + bs) < nChunks size)
    (hwf : Ranges.WF rs = true) (ht : Tight rs (startOf k (L + bs)))
    (hb : Bounded size rs (endOf k (L + bs))) {node : Nat} {ir lf rf : Bool} {x : Ranges}
    (he : Chunk.parent node ir lf rf x = nodeParent bs root L k rs) :
    ParentFact size bs L k rs node lf rf := by
  simp only [nodeParent, Chunk.parent.injEq] at he
  obtain ⟨rfl, -, rfl, rfl, -⟩ := he
  have hf := own_flags hwf ht hb (startOf_lt_midOf k (L + bs)) (midOf_lt_endOf k (L + bs)) hmN
  exact ⟨k, L, rfl, g.level_le hlt, Nat.le_refl _, Nat.le_refl _, hmN, hf.1, hf.2⟩

theorem parent_meet_aux (g : Geo size bs filled) (L k : Nat) (rs : Ranges) :
    Ranges.WF rs = true → Tight rs (startOf k (L + bs)) → Bounded size rs (endOf k (L + bs)) →
    ∀ node ir lf rf x, Chunk.parent node ir lf rf x ∈ planPre size bs ml filled root L k rs →
      ParentFact size bs L k rs node lf rf := by
  refine planPre_induct (size := size) (bs := bs) (ml := ml) (filled := filled) (root := root)
    (P := fun L k rs p => Ranges.WF rs = true → Tight rs (startOf k (L + bs)) →
      Bounded size rs (endOf k (L + bs)) →
      ∀ node ir lf rf x, Chunk.parent node ir lf rf x ∈ p →
        ParentFact size bs L k rs node lf rf)
    ?_ ?_ ?_ ?_ ?_ ?_ ?_ L k rs
  · intro L k _ _ _ node ir lf rf x hm; cases hm
  · intro k rs _ _ _ _ _ node ir lf rf x hm; cases hm
  · -- skip
    intro L k rs _ hge ih hwf ht _ node ir lf rf x hm
    have hmN := g.skip_mid_ge hge
    have hme := midOf_lt_endOf k (L + 1 + bs)
    obtain ⟨k', L', h1, h2, h3, h4, h5, h6, h7⟩ := ih hwf (by rw [child_ls]; exact ht)
      (Or.inl (by rw [child_le]; exact hmN)) node ir lf rf x hm
    rw [child_ls] at h3; rw [child_le] at h4
    exact ⟨k', L', h1, h2, h3, by omega, h5, h6, h7⟩
  · -- query leaf
    intro L k rs _ _ _ _ _ _ node ir lf rf x hm
    simp [nodeLeaf] at hm
  · -- half leaf
    intro k rs _ _ _ _ _ _ _ node ir lf rf x hm
    simp [nodeLeaf] at hm
  · -- chunk group
    intro k rs _ hlt _ hh hwf ht hb node ir lf rf x hm
    have hmN : midOf k (0 + bs) < nChunks size := by
      rw [Nat.zero_add]; exact lt_nChunks_of_toBytes_lt hh
    simp only [List.mem_cons, List.mem_append] at hm
    rcases hm with hm | hm | hm
    · exact own_parentFact g hlt hmN hwf ht hb hm
    · split at hm
      · cases hm
      · simp [leftLeaf] at hm
    · split at hm
      · cases hm
      · simp [rightLeaf] at hm
  · -- inner node
    intro L k rs _ hlt _ ihl ihr hwf ht hb node ir lf rf x hm
    have hmN := g.mid_lt_nChunks hlt
    have hsm := startOf_lt_midOf k (L + 1 + bs)
    have hme := midOf_lt_endOf k (L + 1 + bs)
    have hwfs := C14.splitInner_wf (startOf k (L + 1 + bs)) (midOf k (L + 1 + bs)) hwf
    simp only [List.mem_cons, List.mem_append] at hm
    rcases hm with hm | hm | hm
    · exact own_parentFact g hlt hmN hwf ht hb hm
    · obtain ⟨k', L', h1, h2, h3, h4, h5, h6, h7⟩ := ihl hwfs.1
        (by rw [child_ls]; exact tight_left _ ht)
        (Or.inr (by rw [child_le]; exact left_lt_mid rs _ (by omega))) node ir lf rf x hm
      rw [child_ls] at h3; rw [child_le] at h4
      have hm' := midOf_lt_endOf k' (L' + bs)
      have hs' := startOf_lt_midOf k' (L' + bs)
      refine ⟨k', L', h1, h2, h3, by omega, h5, ?_, ?_⟩
      · rw [h6]; apply exists_congr_sel
        intro c hc1 hc2
        unfold lq
        exact selected_left hwf (by omega) (by omega) hmN
      · rw [h7]; apply exists_congr_sel
        intro c hc1 hc2
        unfold lq
        exact selected_left hwf (by omega) (by omega) hmN
    · obtain ⟨k', L', h1, h2, h3, h4, h5, h6, h7⟩ := ihr hwfs.2
        (by rw [child_rs]; exact tight_right hwf _ _)
        (by rw [child_re]; exact bounded_right hwf _ _ (by omega) hb) node ir lf rf x hm
      rw [child_rs] at h3; rw [child_re] at h4
      have hs' := startOf_lt_midOf k' (L' + bs)
      refine ⟨k', L', h1, h2, by omega, h4, h5, ?_, ?_⟩
      · rw [h6]; apply exists_congr_sel
        intro c hc1 hc2
        unfold rq
        exact selected_right hwf (by omega)
      · rw [h7]; apply exists_congr_sel
        intro c hc1 hc2
        unfold rq
        exact selected_right hwf (by omega)

end inductions

/-! ## 5. the recursive plan of the whole tree -/

/-- clause 0 read as a statement: no chunk is selected -/
theorem emptySelB_iff : emptySelB size q = true ↔ ∀ c, Spec.selected size q c = false := by
  unfold emptySelB selB
  rw [List.all_eq_true]
  constructor
  · intro h c
    by_cases hc : c < nChunks size
    · simpa using h c (List.mem_range.2 hc)
    · cases hsel : Spec.selected size q c with
      | false => rfl
      | true => exact absurd (selected_lt hsel) hc
  · intro h c _; simp [h c]

/-- a non-empty well-formed query selects a chunk -/
theorem exists_selected (hwf : Ranges.WF q = true) (hq : q ≠ []) :
    ∃ c, Spec.selected size q c = true := by
  obtain ⟨c, _, _, h⟩ := leaf_witness (size := size) (s := 0) (e := nChunks size) hwf hq
    (tight_zero hwf) (Or.inl (Nat.le_refl _)) (Ranges.nChunks_pos size) (Ranges.nChunks_pos size)
  exact ⟨c, h⟩

theorem emptySelB_true_iff (hwf : Ranges.WF q = true) : emptySelB size q = true ↔ q = [] := by
  rw [emptySelB_iff]
  constructor
  · intro h
    apply Classical.byContradiction
    intro hq
    obtain ⟨c, hc⟩ := exists_selected (size := size) hwf hq
    rw [h c] at hc; cases hc
  · rintro rfl c; exact Ranges.selected_nil size c

/-- the parent items of the whole recursive plan -/
theorem plan_parents (hs : size ≤ 2 ^ 63) (hbs : bs ≤ 10) (hwf : Ranges.WF q = true)
    {node : Nat} {ir lf rf : Bool} {x : Ranges}
    (hm : Chunk.parent node ir lf rf x ∈ plan ⟨size, bs⟩ ml q) :
    (lf = true ↔ ∃ c, (Node.chunkRange node).1 ≤ c ∧ c < Node.mid node ∧
      Spec.selected size q c = true) ∧
    (rf = true ↔ ∃ c, Node.mid node ≤ c ∧
      c < min (Node.chunkRange node).2 (Spec.nChunks size) ∧ Spec.selected size q c = true) ∧
    Node.mid node < Spec.nChunks size := by
  obtain ⟨k', L', rfl, h2, -, -, h5, h6, h7⟩ :=
    parent_meet_aux (shifted_geo size bs hs hbs) (rootLevel ⟨size, bs⟩) 0 q hwf
      (by rw [startOf_zero_left]; exact tight_zero hwf)
      (Or.inl (rootLevel_covers size bs hs)) node ir lf rf x hm
  rw [C18.chunkRange_spec h2, C18.mid_spec]
  exact ⟨h6, h7, h5⟩

/-- the leaf units of the whole recursive plan -/
theorem plan_unit (hs : size ≤ 2 ^ 63) (hbs : bs ≤ 10) (hwf : Ranges.WF q = true)
    {s z : Nat} {r : Bool} {x : Ranges} (hm : Chunk.leaf s z r x ∈ plan ⟨size, bs⟩ ml q) :
    ∃ h, h < 64 ∧ max 1 (chunksOf z) ≤ 2 ^ h ∧ s % 2 ^ h = 0 ∧ h ≤ max bs ml ∧
      (h ≤ bs ∨ ∀ c, s ≤ c → c < s + max 1 (chunksOf z) → Spec.selected size q c = true) := by
  obtain ⟨h, h1, h2, h3, h4, h5⟩ :=
    leaf_height (shifted_geo size bs hs hbs) hs hbs (rootLevel ⟨size, bs⟩) 0 q s z r x hm
  refine ⟨h, h1, h2, h3, h4, ?_⟩
  rcases h5 with h5 | h5
  · exact Or.inl h5
  · exact Or.inr (plan_all_leaf_selected size bs ml hs hbs q hwf s z r x hm h5)

theorem plan_leaf_pos (hs : size ≤ 2 ^ 63) (hbs : bs ≤ 10)
    {s z : Nat} {r : Bool} {x : Ranges} (hm : Chunk.leaf s z r x ∈ plan ⟨size, bs⟩ ml q) :
    0 < z ∨ size = 0 :=
  leaf_pos (shifted_geo size bs hs hbs) (rootLevel ⟨size, bs⟩) 0 q s z r x hm

theorem plan_span_end (hs : size ≤ 2 ^ 63) (hbs : bs ≤ 10) (hwf : Ranges.WF q = true)
    {s z : Nat} {r : Bool} {x : Ranges} (hm : Chunk.leaf s z r x ∈ plan ⟨size, bs⟩ ml q) :
    s + max 1 (chunksOf z) ≤ Spec.nChunks size := by
  obtain ⟨_, h, _⟩ :=
    leaf_agree (shifted_geo size bs hs hbs) (rootLevel ⟨size, bs⟩) 0 q hwf s z r x hm
  omega

/-- the recursive plan of a non-empty well-formed query has every property the predicate checks -/
theorem planOK_plan (hs : size ≤ 2 ^ 63) (hbs : bs ≤ 10) (hwf : Ranges.WF q = true)
    (hq : q ≠ []) : PlanOK size bs ml q (plan ⟨size, bs⟩ ml q) where
  stack := plan_stack size bs ml q hs hbs hq
  root := plan_root size bs ml q hs hq
  spans := (plan_spans size bs ml q hs hbs).2
  inBlob := plan_leaf_in_blob size bs ml q hs hbs
  pos := fun _ _ _ _ hm => plan_leaf_pos hs hbs hm
  spanEnd := fun _ _ _ _ hm => plan_span_end hs hbs hwf hm
  complete := fun c hc => plan_cover_complete size bs ml hs hbs q hwf c hc
  sound := plan_cover_sound size bs ml hs hbs q hwf
  unit := fun _ _ _ _ hm => plan_unit hs hbs hwf hm
  parents := fun _ _ _ _ _ hm => plan_parents hs hbs hwf hm

/-! ### erasing the ranges -/

theorem parent_mem_withoutRanges {p : List Chunk} {node : Nat} {ir lf rf : Bool} {x : Ranges}
    (h : Chunk.parent node ir lf rf x ∈ p.map Chunk.withoutRanges) :
    ∃ x', Chunk.parent node ir lf rf x' ∈ p := by
  obtain ⟨c, hc, e⟩ := List.mem_map.1 h
  cases c with
  | leaf => simp [Chunk.withoutRanges] at e
  | parent n i l r x' =>
    simp only [Chunk.withoutRanges, Chunk.parent.injEq] at e
    obtain ⟨rfl, rfl, rfl, rfl, _⟩ := e
    exact ⟨x', hc⟩

/-- none of the clauses looks at the ranges attached to the items -/
theorem PlanOK.withoutRanges (h : PlanOK size bs ml q p) :
    PlanOK size bs ml q (p.map Chunk.withoutRanges) where
  stack := by rw [stackRun_withoutRanges]; exact h.stack
  root := by
    obtain ⟨c, tail, e, hc, ht⟩ := h.root
    refine ⟨c.withoutRanges, tail.map Chunk.withoutRanges, by rw [e]; rfl, ?_, ?_⟩
    · rw [rootFlag_withoutRanges]; exact hc
    · intro c' hc'
      obtain ⟨c0, h0, rfl⟩ := List.mem_map.1 hc'
      rw [rootFlag_withoutRanges]; exact ht c0 h0
  spans := by rw [leafSpans_withoutRanges]; exact h.spans
  inBlob := fun s z r _ hm => by
    obtain ⟨x', hx'⟩ := leaf_mem_withoutRanges hm; exact h.inBlob s z r x' hx'
  pos := fun s z r _ hm => by
    obtain ⟨x', hx'⟩ := leaf_mem_withoutRanges hm; exact h.pos s z r x' hx'
  spanEnd := fun s z r _ hm => by
    obtain ⟨x', hx'⟩ := leaf_mem_withoutRanges hm; exact h.spanEnd s z r x' hx'
  complete := fun c hc => (covered_withoutRanges p c).2 (h.complete c hc)
  sound := fun s z r _ hm => by
    obtain ⟨x', hx'⟩ := leaf_mem_withoutRanges hm; exact h.sound s z r x' hx'
  unit := fun s z r _ hm => by
    obtain ⟨x', hx'⟩ := leaf_mem_withoutRanges hm; exact h.unit s z r x' hx'
  parents := fun node ir lf rf _ hm => by
    obtain ⟨x', hx'⟩ := parent_mem_withoutRanges hm; exact h.parents node ir lf rf x' hx'

/-! ## non-vacuity -/

/-- the hypotheses of `leaf_pos`, `leaf_height`, `parent_meet_aux` (a `Geo`, the bounds, a
well-formed query, leaf and parent items in the plan) are met by the running example of C15 -/
example : Geo 20000 1 (Tree.shifted ⟨20000, 1⟩).2 := shifted_geo 20000 1 (by decide) (by decide)

example : (20000 : Nat) ≤ 2 ^ 63 ∧ (1 : Nat) ≤ 10 ∧ Ranges.WF [1, 3] = true ∧
    ([1, 3] : Ranges) ≠ [] ∧
    plan ⟨20000, 1⟩ 0 [1, 3] =
      [.parent 15 true true false [1, 3], .parent 7 false true false [1, 3],
       .parent 3 false true false [1, 3], .parent 1 false true true [1, 3],
       .leaf 0 2048 false [1], .leaf 2 2048 false [1, 3]] := by decide

/-- `PlanOK` is inhabited -/
example : PlanOK 20000 1 0 [1, 3] (plan ⟨20000, 1⟩ 0 [1, 3]) :=
  planOK_plan (by decide) (by decide) (by decide) (by decide)

/-- `own_flags`: node `[0, 4)` with mid 2 of a 5-chunk blob, query `[1, 3)` -/
example : Ranges.WF [1, 3] = true ∧ Tight [1, 3] 0 ∧ Bounded 5000 [1, 3] 4 ∧
    (2 : Nat) < nChunks 5000 := by
  refine ⟨by decide, tight_zero (by decide), Or.inr ?_, by decide⟩
  intro b hb; simp at hb; omega

/-- the clause hypotheses of `planPreWF_none_of_clauses` can all hold (empty plan, empty query) -/
example : planPreWF 3000 0 0 [] [] = none := by decide +kernel

/-
## Status (`Lemmas/SpecPreL.lean`)

All theorems depend on the axioms `propext`, `Classical.choice`, `Quot.sound` only
(`planPreWF_eq`: `propext` only).

Proved:
  planPreWF_eq                 the predicate = cascade of the named clauses (`rfl`)
  planPreWF_none_of_clauses    all clauses `true` ⇒ `none`
  any_range_iff, all_range_iff, chunksOf_eq
  stackEnd_eq                  clause 1's fold = `PlanPre.stackRun 1`
  rootFlags_eq, rootFlags_ok   clause 2
  mem_leavesOf, leafSpans_eq_map, incr_of_pairwise
  incr_ok, inBlob_ok, coveredB_iff, cover_ok, leafOk_ok, parentsOk_ok   `PlanOK` ⇒ clauses 3 – 5
  planPreWF_none_of_ok
  leaf_pos                     a leaf of `planPre` is empty only in the empty blob
  level_small                  existing nodes have `L + bs + 1 < 64` (size ≤ 2^63, bs ≤ 10)
  leaf_height                  leaf = aligned unit of `2^h` chunks, `h < 64`, `h ≤ max bs ml`,
                               `h ≤ bs` unless the attached ranges are "all"
  own_flags, own_parentFact, parent_meet_aux
                               parent flags = which halves of the chunk range hold a selected
                               chunk; mid inside the blob (needs WF, `Tight`, `Bounded`)
  emptySelB_iff, exists_selected, emptySelB_true_iff
                               a well-formed query selects nothing iff it is empty
  plan_parents, plan_unit, plan_leaf_pos, plan_span_end, planOK_plan
  parent_mem_withoutRanges, PlanOK.withoutRanges
Partial: none.  OPEN: none.
-/

end Bao.SpecPre
