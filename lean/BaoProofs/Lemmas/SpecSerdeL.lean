import BaoProofs.Lemmas.SpecObL
import BaoProofs.Props.C19
import BaoModel.Ops4

/-!
# Lemmas for `Props/C19SpecSerde.lean`: the verdict of `serde` (`Ops.opSerde`, C19) accepts the model

* `Val`, `parseVal`, `Val.out`: the value a descriptor denotes and the line the model prints for it;
  `serdeModel` is the verbatim copy of the `let m` of `opSerde` and `serdeVerdict` of its final
  `match` (`opSerde_eq`, by `rfl`); `serdeModel_eq : serdeModel p = (parseVal p).map Val.out`.
* `rtOk`: the round-trip boolean of `serdeOut` (`serdeOut_eq`, by `rfl`); `endsWith_rt`: the line ends
  in `rt=11` iff both booleans are `true` (`serdeOut_endsWith`, `serdeOut_rt11`).
* the derived `BEq` instances of the wire values are reflexive (`beq_parent` … `beq_item`).
* `mkParentV_some`, `mkLeafV_some`: what the descriptor parsers build (`randBytes` of the requested
  lengths), hence `parseVal_wf`: number bounds (`Val.Bound`) give well-formedness (`Val.WF`).
* `splitOn ":"` of colon-free tokens joined with `":"` (`splitOn_colon_intercalate`), `parseHex_hex`,
  `noColon_hex`: for the statements about rendered descriptors.
-/

namespace Bao.SpecSerde
open Bao Bao.Ops Bao.Proto Bao.Serde Bao.SerdeL Bao.SpecIndex Bao.SpecOb

/-! ## the values of the descriptors -/

/-- the value a `serde` descriptor denotes, with the codec pair `opSerde` applies to it -/
inductive Val
  | u64 (n : Nat)
  | parent (v : ParentV)
  | leaf (v : LeafV)
  | content (c : ContentV)
  | err (e : EncErrV)
  | item (i : EncItemV)

/-- the model's line for a value -/
def Val.out : Val → String
  | .u64 n => serdeOut n varint readVarint jsNat jsReadNat
  | .parent v => serdeOut v pcParent pcReadParent jsParent jsReadParent
  | .leaf v => serdeOut v pcLeaf pcReadLeaf jsLeaf jsReadLeaf
  | .content c => serdeOut c pcContent pcReadContent jsContent jsReadContent
  | .err e => serdeOut e pcEncErr pcReadEncErr jsEncErr jsReadEncErr
  | .item i => serdeOut i pcEncItem pcReadEncItem jsEncItem jsReadEncItem

/-- the descriptor parser of `opSerde` (same `match`, the value instead of its line) -/
def parseVal (p : List String) : Option Val :=
  match p with
  | ["node", n] | ["chunk", n] => n.toNat?.map fun n => .u64 n
  | "parent" :: rest => (mkParentV rest).map fun v => .parent v
  | "leaf" :: rest => (mkLeafV rest).map fun v => .leaf v
  | "content" :: "parent" :: rest => (mkParentV rest).map fun v => .content (ContentV.parent v)
  | "content" :: "leaf" :: rest => (mkLeafV rest).map fun v => .content (ContentV.leaf v)
  | "err" :: rest => (mkErrV rest).map fun v => .err v
  | ["item", "size", n] => n.toNat?.map fun n => .item (EncItemV.size n)
  | "item" :: "parent" :: rest => (mkParentV rest).map fun v => .item (EncItemV.parent v)
  | "item" :: "leaf" :: rest => (mkLeafV rest).map fun v => .item (EncItemV.leaf v)
  | "item" :: "error" :: rest => (mkErrV rest).map fun v => .item (EncItemV.error v)
  | ["item", "done"] => some (.item EncItemV.done)
  | _ => none

/-- verbatim copy of the `let m` of `opSerde` -/
def serdeModel (p : List String) : Option String :=
  match p with
  | ["node", n] | ["chunk", n] => n.toNat?.map fun n => serdeOut n varint readVarint jsNat jsReadNat
  | "parent" :: rest => (mkParentV rest).map fun v => serdeOut v pcParent pcReadParent jsParent jsReadParent
  | "leaf" :: rest => (mkLeafV rest).map fun v => serdeOut v pcLeaf pcReadLeaf jsLeaf jsReadLeaf
  | "content" :: "parent" :: rest => (mkParentV rest).map fun v =>
      serdeOut (ContentV.parent v) pcContent pcReadContent jsContent jsReadContent
  | "content" :: "leaf" :: rest => (mkLeafV rest).map fun v =>
      serdeOut (ContentV.leaf v) pcContent pcReadContent jsContent jsReadContent
  | "err" :: rest => (mkErrV rest).map fun v => serdeOut v pcEncErr pcReadEncErr jsEncErr jsReadEncErr
  | ["item", "size", n] => n.toNat?.map fun n => serdeOut (EncItemV.size n) pcEncItem pcReadEncItem jsEncItem jsReadEncItem
  | "item" :: "parent" :: rest => (mkParentV rest).map fun v =>
      serdeOut (EncItemV.parent v) pcEncItem pcReadEncItem jsEncItem jsReadEncItem
  | "item" :: "leaf" :: rest => (mkLeafV rest).map fun v =>
      serdeOut (EncItemV.leaf v) pcEncItem pcReadEncItem jsEncItem jsReadEncItem
  | "item" :: "error" :: rest => (mkErrV rest).map fun v =>
      serdeOut (EncItemV.error v) pcEncItem pcReadEncItem jsEncItem jsReadEncItem
  | ["item", "done"] => some (serdeOut EncItemV.done pcEncItem pcReadEncItem jsEncItem jsReadEncItem)
  | _ => none

/-- verbatim copy of the final `match` of `opSerde` -/
def serdeVerdict (m : Option String) (impl : String) : Verdict :=
  match m with
  | none => bad "serde"
  | some m =>
    { model := m,
      specFail := if impl.endsWith "rt=11" then none else some "a value does not survive serialisation (postcard, json)" }

theorem opSerde_eq (desc impl : String) :
    opSerde [desc] impl = serdeVerdict (serdeModel (desc.splitOn ":")) impl := rfl

theorem serdeModel_eq (p : List String) : serdeModel p = (parseVal p).map Val.out := by
  unfold serdeModel parseVal
  split
  all_goals first | rfl | (simp only [Option.map_map]; rfl)

/-! ## the line and its last token -/

/-- the round-trip boolean of `serdeOut` (its local `ok`) -/
def rtOk {α : Type} [BEq α] (v : α) (r : Option (α × List UInt8)) : Bool :=
  match r with | some (w, []) => w == v | _ => false

theorem serdeOut_eq {α : Type} [BEq α] (v : α) (pc : α → List UInt8)
    (rpc : List UInt8 → Option (α × List UInt8)) (js : α → List UInt8)
    (rjs : List UInt8 → Option (α × List UInt8)) :
    serdeOut v pc rpc js rjs
      = s!"pc={dig (pc v)} js={dig (js v)} rt={bool01 (rtOk v (rpc (pc v)))}{bool01 (rtOk v (rjs (js v)))}" :=
  rfl

theorem rtOk_some {α : Type} [BEq α] (v : α) (hv : (v == v) = true) : rtOk v (some (v, [])) = true := hv

theorem endsWith_iff (s pat : String) : s.endsWith pat = true ↔ pat.toList <:+ s.toList := by
  show s.toSlice.endsWith pat = true ↔ _
  rw [String.Slice.endsWith_string_iff, String.copy_toSlice]

theorem suffix_same_len {α : Type} {p a b : List α} (h : p <:+ a ++ b) (hl : p.length = b.length) :
    p = b := by
  have hb : b <:+ a ++ b := List.suffix_append a b
  have := List.suffix_of_suffix_length_le h hb (by omega)
  exact this.eq_of_length hl

theorem line_toList (a b : String) (x y : Bool) :
    (s!"pc={a} js={b} rt={bool01 x}{bool01 y}").toList
      = ("pc=".toList ++ a.toList ++ " js=".toList ++ b.toList ++ [' '])
        ++ ['r', 't', '=', (if x then '1' else '0'), (if y then '1' else '0')] := by
  cases x <;> cases y <;> simp [String.toList_append, toString, bool01]

/-- the line ends in `rt=11` iff both booleans are `true` -/
theorem endsWith_rt (a b : String) (x y : Bool) :
    (s!"pc={a} js={b} rt={bool01 x}{bool01 y}").endsWith "rt=11" = (x && y) := by
  rw [Bool.eq_iff_iff, endsWith_iff, line_toList]
  constructor
  · intro h
    have := suffix_same_len h (by rfl)
    cases x <;> cases y <;> first | rfl | (exfalso; revert this; decide)
  · intro h
    simp only [Bool.and_eq_true] at h
    rw [h.1, h.2]
    exact List.suffix_append _ _
theorem endsWith_rt11 (a b : String) :
    (s!"pc={a} js={b} rt={bool01 true}{bool01 true}").endsWith "rt=11" = true :=
  endsWith_rt a b true true

/-- the line of any value ends in `rt=11` iff both round-trip booleans are `true` -/
theorem serdeOut_endsWith {α : Type} [BEq α] (v : α) (pc : α → List UInt8)
    (rpc : List UInt8 → Option (α × List UInt8)) (js : α → List UInt8)
    (rjs : List UInt8 → Option (α × List UInt8)) :
    (serdeOut v pc rpc js rjs).endsWith "rt=11"
      = (rtOk v (rpc (pc v)) && rtOk v (rjs (js v))) := by
  rw [serdeOut_eq]
  exact endsWith_rt _ _ _ _

/-- the line of a value both of whose round trips succeed ends in `rt=11` -/
theorem serdeOut_rt11 {α : Type} [BEq α] (v : α) (pc : α → List UInt8)
    (rpc : List UInt8 → Option (α × List UInt8)) (js : α → List UInt8)
    (rjs : List UInt8 → Option (α × List UInt8)) (hv : (v == v) = true)
    (h1 : rpc (pc v) = some (v, [])) (h2 : rjs (js v) = some (v, [])) :
    (serdeOut v pc rpc js rjs).endsWith "rt=11" = true := by
  rw [serdeOut_eq, h1, h2, rtOk_some v hv]
  exact endsWith_rt11 _ _

/-! ## the derived `BEq` instances are reflexive -/

theorem beq_parent (p : ParentV) : (p == p) = true := by
  cases p
  show Bao.Serde.instBEqParentV.beq _ _ = true
  simp [Bao.Serde.instBEqParentV.beq]

theorem beq_leaf (p : LeafV) : (p == p) = true := by
  cases p
  show Bao.Serde.instBEqLeafV.beq _ _ = true
  simp [Bao.Serde.instBEqLeafV.beq]

theorem beq_err (p : EncErrV) : (p == p) = true := by
  cases p <;> (show Bao.Serde.instBEqEncErrV.beq _ _ = true) <;>
  simp [Bao.Serde.instBEqEncErrV.beq]

theorem beq_content (p : ContentV) : (p == p) = true := by
  cases p <;> (show Bao.Serde.instBEqContentV.beq _ _ = true) <;>
  simp [Bao.Serde.instBEqContentV.beq, beq_parent, beq_leaf]

theorem beq_item (p : EncItemV) : (p == p) = true := by
  cases p <;> (show Bao.Serde.instBEqEncItemV.beq _ _ = true) <;>
  simp [Bao.Serde.instBEqEncItemV.beq, beq_parent, beq_leaf, beq_err]

/-! ## bounds and well-formedness -/

/-- well-formedness in the sense of the C19 theorems (`SerdeL.ParentWF` …, and the `…Len` side
conditions of the length-prefixed format) -/
def Val.WF : Val → Prop
  | .u64 n => n < 2 ^ 64
  | .parent v => ParentWF v
  | .leaf l => LeafWF l ∧ LeafLen l
  | .content c => ContentWF c ∧ ContentLen c
  | .err e => EncErrWF e ∧ EncErrLen e
  | .item i => EncItemWF i ∧ EncItemLen i

/-- the number bounds only: node ids, chunk numbers, offsets, sizes are `u64`; the length of a leaf's
data and of an io error text is a `usize`.  (The 32 bytes of the hashes are not a hypothesis: the
descriptor parser builds them with `randBytes _ 32`.) -/
def Val.Bound : Val → Prop
  | .u64 n => n < 2 ^ 64
  | .parent v => v.node < 2 ^ 64
  | .leaf l => l.offset < 2 ^ 64 ∧ l.data.length < 2 ^ 64
  | .content (.parent v) => v.node < 2 ^ 64
  | .content (.leaf l) => l.offset < 2 ^ 64 ∧ l.data.length < 2 ^ 64
  | .err e => EncErrWF e ∧ EncErrLen e
  | .item (.size n) => n < 2 ^ 64
  | .item (.parent v) => v.node < 2 ^ 64
  | .item (.leaf l) => l.offset < 2 ^ 64 ∧ l.data.length < 2 ^ 64
  | .item (.error e) => EncErrWF e ∧ EncErrLen e
  | .item .done => True

/-- `mkParentV` reads two numbers and builds both hashes with `randBytes _ 32` -/
theorem mkParentV_some (rest : List String) (v : ParentV) (h : mkParentV rest = some v) :
    ∃ a b t n seed, rest = a :: b :: t ∧ a.toNat? = some n ∧ b.toNat? = some seed ∧
      v = ⟨n, randBytes seed 32, randBytes (seed + 1) 32⟩ := by
  unfold mkParentV at h
  split at h
  next a b t =>
    cases ha : a.toNat? with
    | none => simp [ha] at h
    | some n =>
      cases hb : b.toNat? with
      | none => simp [ha, hb] at h
      | some seed =>
        simp only [ha, hb, Option.bind_eq_bind, Option.bind_some, Option.pure_def,
          Option.some.injEq] at h
        exact ⟨a, b, t, n, seed, rfl, ha, hb, h.symm⟩
  · cases h

theorem mkParentV_len (rest : List String) (v : ParentV) (h : mkParentV rest = some v) :
    v.l.length = 32 ∧ v.r.length = 32 := by
  obtain ⟨a, b, t, n, seed, -, -, -, rfl⟩ := mkParentV_some rest v h
  exact ⟨randBytes_length _ _, randBytes_length _ _⟩

/-- `mkLeafV` reads three numbers; the data are `randBytes seed len` (of length `len`) -/
theorem mkLeafV_some (rest : List String) (v : LeafV) (h : mkLeafV rest = some v) :
    ∃ a b c t off len seed, rest = a :: b :: c :: t ∧ a.toNat? = some off ∧ b.toNat? = some len ∧
      c.toNat? = some seed ∧ v = ⟨off, randBytes seed len⟩ := by
  unfold mkLeafV at h
  split at h
  next a b c t =>
    cases ha : a.toNat? with
    | none => simp [ha] at h
    | some off =>
      cases hb : b.toNat? with
      | none => simp [ha, hb] at h
      | some len =>
        cases hc : c.toNat? with
        | none => simp [ha, hb, hc] at h
        | some seed =>
          simp only [ha, hb, hc, Option.bind_eq_bind, Option.bind_some, Option.pure_def,
            Option.some.injEq] at h
          exact ⟨a, b, c, t, off, len, seed, rfl, ha, hb, hc, h.symm⟩
  · cases h

/-- within the number bounds every value a descriptor denotes is well-formed -/
theorem parseVal_wf (p : List String) (v : Val) (h : parseVal p = some v) (hb : v.Bound) : v.WF := by
  unfold parseVal at h
  split at h
  all_goals
    first
    | (cases h; done)
    | (cases h; exact ⟨trivial, trivial⟩)
    | (obtain ⟨w, hw, rfl⟩ := Option.map_eq_some_iff.1 h
       first
       | exact hb
       | exact ⟨hb, trivial⟩
       | exact ⟨hb, (mkParentV_len _ _ hw).1, (mkParentV_len _ _ hw).2⟩
       | exact ⟨⟨hb, (mkParentV_len _ _ hw).1, (mkParentV_len _ _ hw).2⟩, trivial⟩)

/-! ## rendered descriptors: `splitOn ":"` and hex messages -/

/-- the characters of `":".intercalate (a :: as)` after `a` (separator `c0`) -/
def joinTailC (c0 : Char) : List (List Char) → List Char
  | [] => []
  | t :: ts => c0 :: (t ++ joinTailC c0 ts)

theorem splitLc_join (c0 : Char) (ts : List (List Char)) (hts : ∀ t ∈ ts, c0 ∉ t) (cur : List Char) :
    splitLc c0 cur (joinTailC c0 ts) = cur :: ts := by
  induction ts generalizing cur with
  | nil => rfl
  | cons t ts ih =>
    have ht := hts t (List.mem_cons_self ..)
    have hts' : ∀ u ∈ ts, c0 ∉ u := fun u hu => hts u (List.mem_cons_of_mem _ hu)
    simp only [joinTailC, splitLc, if_true]
    rw [splitLc_append c0 t ht, ih hts', List.nil_append]

theorem toList_intercalate_colon (a : String) (as : List String) :
    (":".intercalate (a :: as)).toList = a.toList ++ joinTailC ':' (as.map String.toList) := by
  induction as generalizing a with
  | nil => simp [joinTailC]
  | cons u l ih =>
    rw [String.intercalate_cons_cons, String.toList_append, String.toList_append, ih,
      show (":" : String).toList = [':'] from rfl]
    simp [joinTailC]

/-- `splitOn ":"` inverts joining colon-free tokens with `":"` -/
theorem splitOn_colon_intercalate (toks : List String) (hne : toks ≠ [])
    (hc : ∀ t ∈ toks, ':' ∉ t.toList) : (":".intercalate toks).splitOn ":" = toks := by
  obtain ⟨a, as, rfl⟩ := List.exists_cons_of_ne_nil hne
  rw [splitOn_char ":" ':' oneChar_colon, toList_intercalate_colon]
  have ha := hc a (List.mem_cons_self ..)
  have has : ∀ t ∈ as.map String.toList, ':' ∉ t := by
    intro t ht
    obtain ⟨u, hu, rfl⟩ := List.mem_map.1 ht
    exact hc u (List.mem_cons_of_mem _ hu)
  rw [splitLc_append ':' a.toList ha, splitLc_join ':' _ has, List.nil_append]
  simp [String.ofList_toList]

/-! ### hex messages -/

theorem hexVal_hexDigit : ∀ n, n < 16 → hexVal (hexDigit n) = some n := by decide

theorem hexDigit_ne_colon : ∀ n, n < 16 → hexDigit n ≠ ':' := by decide

theorem parseHexAux_hex (m acc : List UInt8) :
    parseHexAux (m.flatMap fun b => [hexDigit (b.toNat / 16), hexDigit (b.toNat % 16)]) acc
      = some (acc.reverse ++ m) := by
  induction m generalizing acc with
  | nil => simp [parseHexAux]
  | cons b m ih =>
    have hb := b.toNat_lt
    simp only [List.flatMap_cons, List.cons_append, List.nil_append, parseHexAux,
      hexVal_hexDigit _ (show b.toNat / 16 < 16 by omega),
      hexVal_hexDigit _ (show b.toNat % 16 < 16 by omega)]
    rw [ih, show 16 * (b.toNat / 16) + b.toNat % 16 = b.toNat by omega]
    simp

theorem parseHex_hex (m : List UInt8) : parseHex (hex m) = some m := by
  cases m with
  | nil => rfl
  | cons b m =>
    unfold parseHex hex
    have hne : ¬ ((String.ofList ((b :: m).flatMap fun b =>
        [hexDigit (b.toNat / 16), hexDigit (b.toNat % 16)]) == "-") = true) := by
      rw [beq_iff_eq]
      intro e
      have := congrArg (fun s => s.toList.length) e
      simp at this
    simp only [List.isEmpty_cons, Bool.false_eq_true, if_false, if_neg hne, String.toList_ofList]
    rw [parseHexAux_hex]
    rfl

theorem noColon_hex (m : List UInt8) : ':' ∉ (hex m).toList := by
  unfold hex
  split
  · decide
  · rw [String.toList_ofList]
    intro h
    obtain ⟨b, -, hb⟩ := List.mem_flatMap.1 h
    have hlt := b.toNat_lt
    simp only [List.mem_cons, List.not_mem_nil, or_false] at hb
    rcases hb with hb | hb
    · exact hexDigit_ne_colon _ (show b.toNat / 16 < 16 by omega) hb.symm
    · exact hexDigit_ne_colon _ (show b.toNat % 16 < 16 by omega) hb.symm
/-! ## the descriptors the case generator writes -/

/-- `err` descriptors as the case generator writes them -/
inductive ErrD
  | phm (n : Nat) | lhm (n : Nat) | pw (n : Nat) | lw (n : Nat) | sm
  | io (kind : String) (msg : List UInt8)
  | ios (kind : String) (msg : List UInt8)
  | ioo (errno : String) (kind : String) (msg : List UInt8)

def ErrD.toks : ErrD → List String
  | .phm n => ["phm", toString n]
  | .lhm n => ["lhm", toString n]
  | .pw n => ["pw", toString n]
  | .lw n => ["lw", toString n]
  | .sm => ["sm"]
  | .io k m => ["io", k, hex m]
  | .ios k m => ["ios", k, hex m]
  | .ioo e k m => ["ioo", e, k, hex m]

def ErrD.val : ErrD → EncErrV
  | .phm n => .parentHashMismatch n
  | .lhm n => .leafHashMismatch n
  | .pw n => .parentWrite n
  | .lw n => .leafWrite n
  | .sm => .sizeMismatch
  | .io k m => .io (ioErrorText (str k) m)
  | .ios k m => .io (ioErrorText (str k) m)
  | .ioo _ k m => .io (ioErrorText (str k) m)

def ErrD.NoColon : ErrD → Prop
  | .io k _ => ':' ∉ k.toList
  | .ios k _ => ':' ∉ k.toList
  | .ioo e k _ => ':' ∉ e.toList ∧ ':' ∉ k.toList
  | _ => True

def ErrD.Bound : ErrD → Prop
  | .phm n => n < 2 ^ 64
  | .lhm n => n < 2 ^ 64
  | .pw n => n < 2 ^ 64
  | .lw n => n < 2 ^ 64
  | .sm => True
  | .io k m => k.length + 1 + m.length < 2 ^ 64
  | .ios k m => k.length + 1 + m.length < 2 ^ 64
  | .ioo _ k m => k.length + 1 + m.length < 2 ^ 64

theorem mkErrV_toks (e : ErrD) : mkErrV e.toks = some e.val := by
  cases e <;> simp [ErrD.toks, ErrD.val, mkErrV, parseHex_hex]

/-- the value descriptors of `serde`, as the case generator (`harness/src/gen3.rs`, "C19") writes them:
numbers in decimal, io messages in hex -/
inductive Desc
  | node (n : Nat) | chunk (n : Nat)
  | parent (n seed : Nat) | leaf (off len seed : Nat)
  | contentParent (n seed : Nat) | contentLeaf (off len seed : Nat)
  | err (e : ErrD)
  | itemSize (n : Nat) | itemParent (n seed : Nat) | itemLeaf (off len seed : Nat)
  | itemError (e : ErrD) | itemDone

def Desc.toks : Desc → List String
  | .node n => ["node", toString n]
  | .chunk n => ["chunk", toString n]
  | .parent n seed => ["parent", toString n, toString seed]
  | .leaf off len seed => ["leaf", toString off, toString len, toString seed]
  | .contentParent n seed => ["content", "parent", toString n, toString seed]
  | .contentLeaf off len seed => ["content", "leaf", toString off, toString len, toString seed]
  | .err e => "err" :: e.toks
  | .itemSize n => ["item", "size", toString n]
  | .itemParent n seed => ["item", "parent", toString n, toString seed]
  | .itemLeaf off len seed => ["item", "leaf", toString off, toString len, toString seed]
  | .itemError e => "item" :: "error" :: e.toks
  | .itemDone => ["item", "done"]

/-- the descriptor string: the tokens joined with `:` -/
def Desc.str (d : Desc) : String := ":".intercalate d.toks

def mkP (n seed : Nat) : ParentV := ⟨n, randBytes seed 32, randBytes (seed + 1) 32⟩
def mkL (off len seed : Nat) : LeafV := ⟨off, randBytes seed len⟩

def Desc.val : Desc → Val
  | .node n => .u64 n
  | .chunk n => .u64 n
  | .parent n seed => .parent (mkP n seed)
  | .leaf off len seed => .leaf (mkL off len seed)
  | .contentParent n seed => .content (.parent (mkP n seed))
  | .contentLeaf off len seed => .content (.leaf (mkL off len seed))
  | .err e => .err e.val
  | .itemSize n => .item (.size n)
  | .itemParent n seed => .item (.parent (mkP n seed))
  | .itemLeaf off len seed => .item (.leaf (mkL off len seed))
  | .itemError e => .item (.error e.val)
  | .itemDone => .item .done

/-- free-text tokens (io error kind, errno) contain no `:` -/
def Desc.NoColon : Desc → Prop
  | .err e => e.NoColon
  | .itemError e => e.NoColon
  | _ => True

/-- bounds on the numbers of a descriptor: ids, chunk numbers, offsets, sizes are `u64`, the length of
a leaf and of an io error text (`kind:message`) is a `usize`; seeds are arbitrary -/
def Desc.Bound : Desc → Prop
  | .node n => n < 2 ^ 64
  | .chunk n => n < 2 ^ 64
  | .parent n _ => n < 2 ^ 64
  | .leaf off len _ => off < 2 ^ 64 ∧ len < 2 ^ 64
  | .contentParent n _ => n < 2 ^ 64
  | .contentLeaf off len _ => off < 2 ^ 64 ∧ len < 2 ^ 64
  | .err e => e.Bound
  | .itemSize n => n < 2 ^ 64
  | .itemParent n _ => n < 2 ^ 64
  | .itemLeaf off len _ => off < 2 ^ 64 ∧ len < 2 ^ 64
  | .itemError e => e.Bound
  | .itemDone => True

instance (e : ErrD) : Decidable e.NoColon := by
  cases e <;> unfold ErrD.NoColon <;> infer_instance

instance (e : ErrD) : Decidable e.Bound := by
  cases e <;> unfold ErrD.Bound <;> infer_instance

instance (d : Desc) : Decidable d.NoColon := by
  cases d <;> unfold Desc.NoColon <;> infer_instance

instance (d : Desc) : Decidable d.Bound := by
  cases d <;> unfold Desc.Bound <;> infer_instance

theorem mkParentV_toks (n seed : Nat) : mkParentV [toString n, toString seed] = some (mkP n seed) := by
  simp only [mkParentV, toNat?_toString, Option.bind_eq_bind, Option.bind_some, Option.pure_def, mkP]

theorem mkLeafV_toks (off len seed : Nat) :
    mkLeafV [toString off, toString len, toString seed] = some (mkL off len seed) := by
  simp only [mkLeafV, toNat?_toString, Option.bind_eq_bind, Option.bind_some, Option.pure_def, mkL]

theorem parseVal_toks (d : Desc) : parseVal d.toks = some d.val := by
  cases d <;>
    simp only [Desc.toks, Desc.val, parseVal, toNat?_toString, mkParentV_toks, mkLeafV_toks,
      mkErrV_toks, Option.map_some]

theorem ioText_length (k : String) (m : List UInt8) :
    (ioErrorText (str k) m).length = k.length + 1 + m.length := by
  simp only [ioErrorText, str, List.length_append, List.length_map, String.length_toList,
    List.length_cons, List.length_nil]

theorem errBound (e : ErrD) (h : e.Bound) : EncErrWF e.val ∧ EncErrLen e.val := by
  cases e
  case io k m => exact ⟨trivial, by show (ioErrorText (str k) m).length < 2 ^ 64; rw [ioText_length]; exact h⟩
  case ios k m => exact ⟨trivial, by show (ioErrorText (str k) m).length < 2 ^ 64; rw [ioText_length]; exact h⟩
  case ioo e k m => exact ⟨trivial, by show (ioErrorText (str k) m).length < 2 ^ 64; rw [ioText_length]; exact h⟩
  all_goals exact ⟨h, trivial⟩

theorem descBound (d : Desc) (h : d.Bound) : d.val.Bound := by
  cases d
  case err e => exact errBound e h
  case itemError e => exact errBound e h
  case leaf off len seed => exact ⟨h.1, by show (randBytes seed len).length < 2 ^ 64; rw [randBytes_length]; exact h.2⟩
  case contentLeaf off len seed => exact ⟨h.1, by show (randBytes seed len).length < 2 ^ 64; rw [randBytes_length]; exact h.2⟩
  case itemLeaf off len seed => exact ⟨h.1, by show (randBytes seed len).length < 2 ^ 64; rw [randBytes_length]; exact h.2⟩
  all_goals exact h

/-- the token contains no `:` -/
def NC (t : String) : Prop := ':' ∉ t.toList

instance (t : String) : Decidable (NC t) := inferInstanceAs (Decidable (':' ∉ t.toList))

theorem nc_nat (n : Nat) : NC (toString n) := noColon_nat n
theorem nc_hex (m : List UInt8) : NC (hex m) := noColon_hex m

theorem noColon_errToks (e : ErrD) (h : e.NoColon) : ∀ t ∈ e.toks, NC t := by
  cases e <;> simp only [ErrD.toks, List.forall_mem_cons, List.not_mem_nil, false_imp_iff, implies_true,
    and_true]
  case io k m => exact ⟨by decide, h, nc_hex m⟩
  case ios k m => exact ⟨by decide, h, nc_hex m⟩
  case ioo e k m => exact ⟨by decide, h.1, h.2, nc_hex m⟩
  case sm => decide
  all_goals exact ⟨by decide, nc_nat _⟩

theorem noColon_toks (d : Desc) (h : d.NoColon) : ∀ t ∈ d.toks, NC t := by
  cases d
  case err e => exact List.forall_mem_cons.2 ⟨by decide, noColon_errToks e h⟩
  case itemError e =>
    exact List.forall_mem_cons.2 ⟨by decide, List.forall_mem_cons.2 ⟨by decide, noColon_errToks e h⟩⟩
  all_goals
    simp only [Desc.toks, List.forall_mem_cons, List.not_mem_nil, false_imp_iff, implies_true, and_true]
  case node n => exact ⟨by decide, nc_nat _⟩
  case chunk n => exact ⟨by decide, nc_nat _⟩
  case parent n seed => exact ⟨by decide, nc_nat _, nc_nat _⟩
  case leaf off len seed => exact ⟨by decide, nc_nat _, nc_nat _, nc_nat _⟩
  case contentParent n seed => exact ⟨by decide, by decide, nc_nat _, nc_nat _⟩
  case contentLeaf off len seed => exact ⟨by decide, by decide, nc_nat _, nc_nat _, nc_nat _⟩
  case itemSize n => exact ⟨by decide, by decide, nc_nat _⟩
  case itemParent n seed => exact ⟨by decide, by decide, nc_nat _, nc_nat _⟩
  case itemLeaf off len seed => exact ⟨by decide, by decide, nc_nat _, nc_nat _, nc_nat _⟩
  case itemDone => exact ⟨by decide, by decide⟩

theorem toks_ne_nil (d : Desc) : d.toks ≠ [] := by
  cases d <;> simp [Desc.toks]

theorem split_str (d : Desc) (h : d.NoColon) : d.str.splitOn ":" = d.toks :=
  splitOn_colon_intercalate d.toks (toks_ne_nil d) (noColon_toks d h)

end Bao.SpecSerde
