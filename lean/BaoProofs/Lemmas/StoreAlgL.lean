import BaoProofs.Lemmas.OutboardL

/-!
# Helper lemmas for the store algebra (`BaoProofs/Wip/StoreAlg.lean`)

* `writeAt` algebra: a write inside the backing is `take ++ bytes ++ drop`; writing the same bytes
  twice is writing once; 64-byte writes to different slots commute (also on a short backing that
  gets zero-extended).
* `parsePair` inverts `toBytes _ ++ toBytes _`.
* `Store.save` / `Store.load` in terms of `slot`, `writeAt`, `blockAt`.
* the persisted list of a store (`persisted`), its slots (`slot_persisted`, `slot_of_mem`,
  `slot_ne_of_mem`) and the nodes of the tree (`InTree`, through the model's own
  `Tree.preOrderNodesIter`; `mem_iter_iff`, `halfLeaf_not_relevant`).
* `save_idem`, `not_panic_io`, `slot_some_of_persisted`, `slot_none_of`.
-/

set_option maxRecDepth 8192

namespace Bao.C12Store
open Bao Bao.Spec Bao.Offsets Bao.NodeIterL Bao.WriteAtL Bao.OutboardL

variable {H : Type}

/-! ## `writeAt` -/

/-- a write that lies inside the backing -/
theorem writeAt_inside (data : List UInt8) (off : Nat) (b : List UInt8)
    (h : off + b.length ≤ data.length) :
    writeAt data off b = data.take off ++ b ++ data.drop (off + b.length) := by
  unfold writeAt
  have : ¬ data.length < off := by omega
  simp only [this, if_false]

/-- writing the same bytes at the same place twice is writing them once -/
theorem writeAt_writeAt_self (data : List UInt8) (off : Nat) (b : List UInt8) :
    writeAt (writeAt data off b) off b = writeAt data off b := by
  apply List.ext_getElem?
  intro i
  rw [getElem?_writeAt, length_writeAt, getElem?_writeAt]
  by_cases h1 : i < off
  · have h2 : i < max data.length (off + b.length) := by omega
    simp only [h1, h2, if_true]
  · simp only [h1, if_false]
    by_cases h2 : i < off + b.length
    · simp only [h2, if_true]
    · simp only [h2, if_false]

/-- 64-byte writes to two different slots commute (whatever the length of the backing) -/
theorem writeAt_comm (data : List UInt8) (j k : Nat) (b c : List UInt8)
    (hb : b.length = 64) (hc : c.length = 64) (hjk : j ≠ k) :
    writeAt (writeAt data (k * 64) b) (j * 64) c = writeAt (writeAt data (j * 64) c) (k * 64) b := by
  apply List.ext_getElem?
  intro i
  simp only [getElem?_writeAt, length_writeAt, hb, hc]
  by_cases hlt : j < k
  · by_cases h1 : i < j * 64
    · have h2 : i < k * 64 := by omega
      have h3 : i < max data.length (k * 64 + 64) := by omega
      have h4 : i < max data.length (j * 64 + 64) := by omega
      simp only [h1, h2, h3, h4, if_true]
    · by_cases h2 : i < j * 64 + 64
      · have h3 : i < k * 64 := by omega
        have h4 : i < max data.length (j * 64 + 64) := by omega
        simp only [h1, h2, h3, h4, if_true, if_false]
      · by_cases h3 : i < k * 64
        · have h4 : (i < max data.length (j * 64 + 64)) ↔ i < data.length := by omega
          simp only [h1, h2, h3, h4, if_true, if_false]
        · simp only [h1, h2, h3, if_false]
  · have hgt : k < j := by omega
    by_cases h1 : i < k * 64
    · have h2 : i < j * 64 := by omega
      have h3 : i < max data.length (k * 64 + 64) := by omega
      have h4 : i < max data.length (j * 64 + 64) := by omega
      simp only [h1, h2, h3, h4, if_true]
    · by_cases h2 : i < k * 64 + 64
      · have h3 : i < j * 64 := by omega
        have h4 : i < max data.length (k * 64 + 64) := by omega
        simp only [h1, h2, h3, h4, if_true, if_false]
      · by_cases h3 : i < j * 64
        · have h4 : (i < max data.length (k * 64 + 64)) ↔ i < data.length := by omega
          simp only [h1, h2, h3, h4, if_true, if_false]
        · simp only [h1, h2, h3, if_false]

/-- a 64-byte write into slot `k` of a backing that contains the slot: the three parts -/
theorem writeAt_slot (data : List UInt8) (k : Nat) (b : List UInt8) (hb : b.length = 64)
    (h : k * 64 + 64 ≤ data.length) :
    writeAt data (k * 64) b = data.take (k * 64) ++ b ++ data.drop (k * 64 + 64) := by
  rw [writeAt_inside _ _ _ (by omega), hb]

/-! ## `parsePair` -/

theorem pair_bytes_length (hf : HashFns H) (hlen : ∀ h, (hf.toBytes h).length = 32) (p : H × H) :
    (hf.toBytes p.1 ++ hf.toBytes p.2).length = 64 := by
  rw [List.length_append, hlen, hlen]

theorem parsePair_bytes (hf : HashFns H) (hlen : ∀ h, (hf.toBytes h).length = 32)
    (hrt : ∀ h, hf.ofBytes (hf.toBytes h) = h) (p : H × H) :
    parsePair hf (hf.toBytes p.1 ++ hf.toBytes p.2) = p := by
  unfold parsePair
  rw [List.take_left' (hlen _), List.drop_left' (hlen _),
    List.take_of_length_le (by rw [hlen]; omega), hrt, hrt]

/-! ## `save` and `load` through `slot` -/

theorem kind_cases' (s : Store H) :
    (s.kind = .preIo ∨ s.kind = .postIo) ∨ (s.kind = .preMem ∨ s.kind = .postMem) ∨
      s.kind = .empty := by
  cases s.kind <;> simp

/-- `save` of a node with a slot inside the backing -/
theorem save_some (hf : HashFns H) {s : Store H} (hk : s.kind ≠ .empty) {n k : Nat}
    (hsl : s.slot n = some k) (hin : k * 64 + 64 ≤ s.data.length) (p : H × H) :
    s.save hf n p
      = .ok { s with data := writeAt s.data (k * 64) (hf.toBytes p.1 ++ hf.toBytes p.2) } := by
  rcases kind_cases' s with h | h | h
  · exact save_io hf h hsl p
  · exact save_mem hf h hsl hin p
  · exact absurd h hk

/-- `load` of a node with a slot inside the backing -/
theorem load_some (hf : HashFns H) (fl : Flavour) {s : Store H} (hk : s.kind ≠ .empty) {n k : Nat}
    (hsl : s.slot n = some k) (hin : k * 64 + 64 ≤ s.data.length) :
    s.load hf fl n = .ok (some (parsePair hf (blockAt s.data k))) := by
  unfold Store.load blockAt
  cases hkd : s.kind with
  | empty => exact absurd hkd hk
  | preIo => simp only [hsl, if_pos hin]
  | postIo => simp only [hsl, if_pos hin]
  | preMem => simp only [hsl, if_pos hin]
  | postMem => simp only [hsl, if_pos hin]

/-- `load` only looks at the kind, the slot, whether the slot lies inside the backing, and the
block in the slot -/
theorem load_congr (hf : HashFns H) (fl : Flavour) {s s' : Store H} (m : Nat)
    (hkind : s'.kind = s.kind) (htree : s'.tree = s.tree)
    (hin : ∀ j, s.slot m = some j → (j * 64 + 64 ≤ s'.data.length ↔ j * 64 + 64 ≤ s.data.length))
    (hblock : ∀ j, s.slot m = some j → j * 64 + 64 ≤ s.data.length →
      blockAt s'.data j = blockAt s.data j) :
    s'.load hf fl m = s.load hf fl m := by
  have hslot : s'.slot m = s.slot m := by unfold Store.slot; rw [hkind, htree]
  unfold Store.load
  rw [hkind, htree, hslot]
  cases hsl : s.slot m with
  | none => rfl
  | some j =>
    have h1 := hin j hsl
    have h2 := hblock j hsl
    unfold blockAt at h2
    by_cases hj : j * 64 + 64 ≤ s.data.length
    · have hj' := h1.2 hj
      simp only [if_pos hj, if_pos hj', h2 hj]
    · have hj' : ¬ j * 64 + 64 ≤ s'.data.length := fun h => hj (h1.1 h)
      simp only [if_neg hj, if_neg hj']

/-! ## the persisted nodes of a store, in the order of its kind -/

/-- the list of persisted nodes in the order of the store's kind (pre-order for `PreOrderOutboard`
/ `PreOrderMemOutboard`, post-order for `PostOrderOutboard` / `PostOrderMemOutboard`; the
`EmptyOutboard` persists nothing) -/
def persisted (s : Store H) : List Nat :=
  match s.kind with
  | .preIo | .preMem => Spec.persistedPre s.tree.size s.tree.bs
  | .postIo | .postMem => Spec.persistedPost s.tree.size s.tree.bs
  | .empty => []

theorem persisted_pre {s : Store H} (hk : s.kind = .preIo ∨ s.kind = .preMem) :
    persisted s = Spec.persistedPre s.tree.size s.tree.bs := by
  unfold persisted
  rcases hk with h | h <;> simp only [h]

theorem persisted_post {s : Store H} (hk : s.kind = .postIo ∨ s.kind = .postMem) :
    persisted s = Spec.persistedPost s.tree.size s.tree.bs := by
  unfold persisted
  rcases hk with h | h <;> simp only [h]

theorem persisted_empty {s : Store H} (hk : s.kind = .empty) : persisted s = [] := by
  unfold persisted
  simp only [hk]

theorem persisted_congr {s s' : Store H} (hk : s'.kind = s.kind) (ht : s'.tree = s.tree) :
    persisted s' = persisted s := by
  unfold persisted
  rw [hk, ht]

theorem kind_cases (s : Store H) :
    (s.kind = .preIo ∨ s.kind = .preMem) ∨ (s.kind = .postIo ∨ s.kind = .postMem) ∨
      s.kind = .empty := by
  cases s.kind <;> simp

/-- C12 for a store: the list has `blocks - 1` entries and the `i`-th entry has slot `i` -/
theorem persisted_length (s : Store H) (hk : s.kind ≠ .empty) (hs : s.tree.size ≤ 2 ^ 63)
    (hbs : s.tree.bs ≤ 10) : (persisted s).length = s.tree.blocks - 1 := by
  rcases kind_cases s with h | h | h
  · rw [persisted_pre h]; exact (C12.pre s.tree.size s.tree.bs hs hbs).1
  · rw [persisted_post h]; exact (C12.post s.tree.size s.tree.bs hs hbs).1
  · exact absurd h hk

theorem slot_persisted (s : Store H) (hs : s.tree.size ≤ 2 ^ 63) (hbs : s.tree.bs ≤ 10)
    (i : Nat) (hi : i < (persisted s).length) : s.slot (persisted s)[i] = some i := by
  rcases kind_cases s with h | h | h
  · simp only [persisted_pre h] at hi ⊢
    rw [slot_pre h]
    exact (C12.pre s.tree.size s.tree.bs hs hbs).2 i hi
  · simp only [persisted_post h] at hi ⊢
    rw [slot_post h]
    exact (C12.post s.tree.size s.tree.bs hs hbs).2 i hi
  · simp only [persisted_empty h] at hi
    exact absurd hi (Nat.not_lt_zero _)

/-- a persisted node: its index, which is its slot and lies below `blocks - 1` -/
theorem slot_of_mem (s : Store H) (hs : s.tree.size ≤ 2 ^ 63) (hbs : s.tree.bs ≤ 10) {n : Nat}
    (hn : n ∈ persisted s) :
    ∃ i, ∃ h : i < (persisted s).length, (persisted s)[i] = n ∧ s.slot n = some i ∧
      i < s.tree.blocks - 1 := by
  obtain ⟨i, hi, rfl⟩ := List.getElem_of_mem hn
  have hk : s.kind ≠ .empty := by
    intro h
    rw [persisted_empty h] at hi
    exact absurd hi (Nat.not_lt_zero _)
  have hl := persisted_length s hk hs hbs
  exact ⟨i, hi, rfl, slot_persisted s hs hbs i hi, by omega⟩

/-- one-to-one: different persisted nodes have different slots -/
theorem slot_ne_of_mem (s : Store H) (hs : s.tree.size ≤ 2 ^ 63) (hbs : s.tree.bs ≤ 10) {n m : Nat}
    (hn : n ∈ persisted s) (hm : m ∈ persisted s) (hne : n ≠ m) : s.slot m ≠ s.slot n := by
  obtain ⟨i, hi, rfl, hsi, -⟩ := slot_of_mem s hs hbs hn
  obtain ⟨j, hj, rfl, hsj, -⟩ := slot_of_mem s hs hbs hm
  rw [hsi, hsj]
  intro h
  injection h with h
  subst h
  exact hne rfl

/-- the persisted nodes of either order are the same nodes -/
theorem mem_persisted_iff (s : Store H) (hk : s.kind ≠ .empty) (hs : s.tree.size ≤ 2 ^ 63) (x : Nat) :
    x ∈ persisted s ↔ x ∈ Spec.persistedPre s.tree.size s.tree.bs := by
  rcases kind_cases s with h | h | h
  · rw [persisted_pre h]
  · rw [persisted_post h]
    exact (persistedPost_perm s.tree.size s.tree.bs hs).mem_iff
  · exact absurd h hk

/-! ## the nodes of the tree -/

/-- the half-filled last leaf of an odd number of chunk groups -/
def halfLeafNode (t : Tree) : Nat := Node.subBs (t.blocks - 1) t.bs

/-- `x` is a node of the tree: a node below the block level, or one of the nodes that
`BaoTree::pre_order_nodes_iter` visits (the same set as `post_order_nodes_iter`) -/
def InTree (t : Tree) (x : Nat) : Prop := Node.level x < t.bs ∨ x ∈ t.preOrderNodesIter

/-- the nodes the iterator visits are the persisted ones and, for an odd number of blocks, the half
leaf -/
theorem mem_iter_iff (t : Tree) (hs : t.size ≤ 2 ^ 63) (hbs : t.bs ≤ 10) (x : Nat) :
    x ∈ t.preOrderNodesIter ↔
      x ∈ Spec.persistedPre t.size t.bs ∨ (t.blocks % 2 = 1 ∧ x = halfLeafNode t) := by
  have e := preIter_eq t.size t.bs hs hbs
  have e' : t.preOrderNodesIter = persistedPre t.size t.bs ++ halfLeaf t := e
  rw [e', List.mem_append]
  unfold halfLeaf halfLeafNode
  by_cases hodd : t.blocks % 2 = 1
  · simp only [hodd, if_true, List.mem_singleton, true_and]
  · simp only [hodd, if_false, List.not_mem_nil, false_and]

/-- the half leaf has level `bs` and its mid is not inside the blob: not relevant for the outboard -/
theorem halfLeaf_not_relevant (t : Tree) (hs : t.size ≤ 2 ^ 63) (hbs : t.bs ≤ 10)
    (hodd : t.blocks % 2 = 1) : t.isRelevant (halfLeafNode t) = false := by
  obtain ⟨e, hge⟩ := half_leaf_facts t.size t.bs hs hbs
  have e' : halfLeafNode t = up t.bs (t.blocks - 1) := e
  obtain ⟨q, hq⟩ : ∃ q, t.blocks - 1 = 2 * q := ⟨(t.blocks - 1) / 2, by omega⟩
  have hlev : Node.level (halfLeafNode t) = t.bs := by
    rw [e', hq, ← nodeOf_zero, up_nodeOf, Nat.zero_add]
    exact C18.level_nodeOf (by omega)
  have hge' : t.size ≤ (t.blocks - 1 + 1) * 2 ^ t.bs * 1024 := hge
  unfold Tree.isRelevant
  simp only [hlev, Nat.lt_irrefl, if_false, gt_iff_lt]
  rw [e']
  simp only [Node.mid, up_succ, toBytes]
  simp only [decide_eq_false_iff_not, Nat.not_lt]
  exact hge'

/-! ## idempotence, the kinds that never panic, nodes without slot -/

theorem save_idem (hf : HashFns H) (s s' : Store H) (n : Nat) (p : H × H)
    (hsv : s.save hf n p = .ok s') : s'.save hf n p = .ok s' := by
  rcases kind_cases' s with hk | hk | hk
  · -- io kinds
    cases hsl : s.slot n with
    | none =>
      have e : s.save hf n p = .ok s := by
        unfold Store.save; rcases hk with h | h <;> simp only [h, hsl]
      rw [e] at hsv; injection hsv with hsv; subst hsv; exact e
    | some k =>
      rw [save_io hf hk hsl p] at hsv
      injection hsv with hsv
      subst hsv
      rw [save_io hf
        (ob := { s with data := writeAt s.data (k * 64) (hf.toBytes p.1 ++ hf.toBytes p.2) })
        hk hsl p]
      simp only [writeAt_writeAt_self]
  · -- memory kinds
    cases hsl : s.slot n with
    | none =>
      have e : s.save hf n p = .err ⟨.invalidInput, false⟩ := by
        unfold Store.save; rcases hk with h | h <;> simp only [h, hsl]
      rw [e] at hsv; cases hsv
    | some k =>
      by_cases hin : k * 64 + 64 ≤ s.data.length
      · rw [save_mem hf hk hsl hin p] at hsv
        injection hsv with hsv
        subst hsv
        have hin' : k * 64 + 64
            ≤ (writeAt s.data (k * 64) (hf.toBytes p.1 ++ hf.toBytes p.2)).length := by
          rw [length_writeAt]; omega
        rw [save_mem hf
          (ob := { s with data := writeAt s.data (k * 64) (hf.toBytes p.1 ++ hf.toBytes p.2) })
          hk hsl hin' p]
        simp only [writeAt_writeAt_self]
      · have e : s.save hf n p = .panic := by
          unfold Store.save; rcases hk with h | h <;> simp only [h, hsl, if_neg hin]
        rw [e] at hsv; cases hsv
  · -- empty
    have e : s' = s := by
      unfold Store.save at hsv
      simp only [hk] at hsv
      split at hsv
      · injection hsv with hsv; exact hsv.symm
      · cases hsv
    subst e
    exact hsv


theorem not_panic_io (hf : HashFns H) (fl : Flavour) (s : Store H)
    (hk : s.kind ≠ .preMem ∧ s.kind ≠ .postMem) (x : Nat) (p : H × H) :
    s.load hf fl x ≠ .panic ∧ s.save hf x p ≠ .panic := by
  constructor
  · unfold Store.load
    cases hkd : s.kind with
    | preMem => exact absurd hkd hk.1
    | postMem => exact absurd hkd hk.2
    | empty => exact fun h => by cases h
    | preIo =>
      simp only
      split
      · exact fun h => by cases h
      · split
        · exact fun h => by cases h
        · cases fl <;> exact fun h => by cases h
    | postIo =>
      simp only
      split
      · exact fun h => by cases h
      · split
        · exact fun h => by cases h
        · cases fl <;> exact fun h => by cases h
  · unfold Store.save
    cases hkd : s.kind with
    | preMem => exact absurd hkd hk.1
    | postMem => exact absurd hkd hk.2
    | empty => simp only; split <;> exact fun h => by cases h
    | preIo => simp only; split <;> exact fun h => by cases h
    | postIo => simp only; split <;> exact fun h => by cases h


/-- every persisted node has a slot, in every kind (for the `EmptyOutboard`: it is relevant) -/
theorem slot_some_of_persisted (s : Store H) (hs : s.tree.size ≤ 2 ^ 63) (hbs : s.tree.bs ≤ 10)
    (x : Nat) (hx : x ∈ Spec.persistedPre s.tree.size s.tree.bs) : ∃ k, s.slot x = some k := by
  by_cases hk : s.kind = .empty
  · have hx' := (persistedPost_perm s.tree.size s.tree.bs hs).mem_iff.2 hx
    have hrel : s.tree.isRelevant x = true := isRelevant_persisted hs hx'
    exact ⟨0, by unfold Store.slot; simp only [hk, hrel, if_true]⟩
  · obtain ⟨i, -, -, hsl, -⟩ := slot_of_mem s hs hbs ((mem_persisted_iff s hk hs x).2 hx)
    exact ⟨i, hsl⟩

/-- nodes below the block level and the half leaf have no slot (all five kinds) -/
theorem slot_none_of (s : Store H) (hs : s.tree.size ≤ 2 ^ 63) (hbs : s.tree.bs ≤ 10) (x : Nat) :
    (Node.level x < s.tree.bs ∨
      (s.tree.blocks % 2 = 1 ∧ x = Node.subBs (s.tree.blocks - 1) s.tree.bs)) → s.slot x = none := by
  intro h
  obtain ⟨p1, p2⟩ := C12.pre_none s.tree.size s.tree.bs hs hbs
  obtain ⟨q1, q2⟩ := C12.post_none s.tree.size s.tree.bs hs hbs
  rcases kind_cases s with hk | hk | hk
  · rw [slot_pre hk]
    rcases h with h | ⟨h, rfl⟩
    · exact p1 x h
    · exact p2 h
  · rw [slot_post hk]
    rcases h with h | ⟨h, rfl⟩
    · have : s.tree.postOrderOffset x = none := q1 x h
      rw [this]; rfl
    · have : s.tree.postOrderOffset (Node.subBs (s.tree.blocks - 1) s.tree.bs) = none := q2 h
      rw [this]; rfl
  · have hrel : s.tree.isRelevant x = false := by
      rcases h with h | ⟨h, rfl⟩
      · unfold Tree.isRelevant; simp only [h, if_true]
      · exact halfLeaf_not_relevant s.tree hs hbs h
    unfold Store.slot
    simp only [hk, hrel]
    rfl

end Bao.C12Store
