import BaoProofs.Lemmas.DecSim

/-!
# C20: a decoder keeps reporting the blob it was created for

"At every step of every decode - before the first item, between items, after the last item and
after an error - the decoder reports the root hash and the tree geometry it was constructed with,
without panicking.  When it finishes, or is asked to stop early, it hands back the reader
positioned exactly after the bytes it consumed."

The accessors are `Dec.tree` (`DecodeResponseIter::tree`, `ResponseDecoder::tree`: rebuilt from the
plan iterator as `⟨iter.tree.size, iter.minFullLevel⟩`) and the field `Dec.hash`
(`ResponseDecoder::hash`).  Both are total functions of the model state: there is no `Option`, no
fuel and no `panic` outcome in their definitions, so "without panicking" holds by construction;
what has to be proved is that their value never changes.  The reader is the field `Dec.encoded`
(`ResponseDecoder::finish`, and the `Done(reader)` case of `next`).

Vocabulary (defined in `BaoProofs/Lemmas/DecSim.lean`):
* `Steps hf fl d is d'` – from `d`, successive calls of `next` returned the items `is`, leaving `d'`;
* `Reach hf fl d d'` – any number of calls of `next` that hand back a decoder, including calls that
  returned an error or `done` (the model lets a client go on after an error; so does the sync Rust
  iterator);
* `itemSize` – wire size of an item: 64 for a parent, `data.length` for a leaf; `itemsSize` its sum;
* `app d x` – the decoder `d` reading from the stream `d.encoded ++ x`.
All statements hold for both flavours `fl`.
-/

namespace Bao.C20

open Bao Bao.DecSim

variable {H : Type}

/-- a toy hash instance for the non-vacuity examples -/
def toy : HashFns Nat :=
  ⟨fun c d r => c + d.length + r.toNat, fun l r root => 3 * l + 5 * r + root.toNat,
   fun b => b.length, fun _ => []⟩

/-- a decoder for a 5-byte blob (root hash `0 + 5 + 1` under `toy`) on the stream `7 7 7 7 7 9` -/
def d0 : Dec Nat := Dec.new 6 ⟨5, 0⟩ [0] [7, 7, 7, 7, 7, 9]

/-! ## before the first item -/

/-- the geometry reported by a fresh decoder is the one it was given, for every tree
(any block size): `Response.tree (Response.new t q) = t` -/
theorem tree_new (root : H) (tree : Tree) (ranges : Ranges) (s : List UInt8) :
    (Dec.new root tree ranges s).tree = tree :=
  response_tree_new tree _

theorem hash_new (root : H) (tree : Tree) (ranges : Ranges) (s : List UInt8) :
    (Dec.new root tree ranges s).hash = root := rfl

/-! ## one step -/

/-- the plan iterator never changes its fields `tree` and `minFullLevel` -/
theorem plan_iter_geometry {it it' : PrePartial} {c : Chunk} (h : it.next = .item c it') :
    it'.tree = it.tree ∧ it'.minFullLevel = it.minFullLevel :=
  prePartial_next_tree h

example : ∃ c it', (PrePartial.new ⟨5, 0⟩ [0] 0).next = .item c it' := ⟨_, _, rfl⟩

/-- whatever a call of `next` hands back (item, error, done), the geometry is unchanged -/
theorem tree_step (hf : HashFns H) [BEq H] (fl : Flavour) (d d' : Dec H)
    (h : (∃ i, d.next hf fl = .item i d') ∨ (∃ e, d.next hf fl = .err e d') ∨
      d.next hf fl = .done d') :
    d'.tree = d.tree :=
  (succ_inv (hf := hf) (fl := fl) h).1

/-- … and so is the root hash -/
theorem hash_step (hf : HashFns H) [BEq H] (fl : Flavour) (d d' : Dec H)
    (h : (∃ i, d.next hf fl = .item i d') ∨ (∃ e, d.next hf fl = .err e d') ∨
      d.next hf fl = .done d') :
    d'.hash = d.hash :=
  (succ_inv (hf := hf) (fl := fl) h).2.1

/-- an item step, … -/
example : ∃ i d', d0.next toy .fsm = .item i d' := ⟨_, _, rfl⟩
/-- … an error step (wrong root hash 8), … -/
example : ∃ e d', (Dec.new 8 ⟨5, 0⟩ [0] [7, 7, 7, 7, 7]).next toy .sync = .err e d' := ⟨_, _, rfl⟩
/-- … and a done step (empty query) -/
example : ∃ d', (Dec.new 6 ⟨5, 0⟩ [] [7, 7, 7, 7, 7]).next toy .fsm = .done d' := ⟨_, rfl⟩

/-! ## every step of every decode -/

/-- after any number of calls of `next` – items, the final `done`, an error, and calls made after
those – the decoder reports the tree and the root hash it was constructed with -/
theorem accessors (hf : HashFns H) [BEq H] (fl : Flavour) (root : H) (tree : Tree) (ranges : Ranges)
    (s : List UInt8) (d : Dec H) (h : Reach hf fl (Dec.new root tree ranges s) d) :
    d.tree = tree ∧ d.hash = root := by
  obtain ⟨h1, h2, _⟩ := reach_inv h
  exact ⟨h1.trans (tree_new root tree ranges s), h2⟩

/-- two steps from `d0`: the leaf item, then `done` -/
example : ∃ d, Reach toy .fsm d0 d ∧ d.encoded = [9] :=
  ⟨_, .step (.step (.refl _) (.inl ⟨_, rfl⟩)) (.inr (.inr rfl)), rfl⟩

/-! ## reader position -/

/-- Stopping early: after the items `is` have been returned, the reader handed back by `finish`
(`d.encoded`) is the original stream minus exactly the bytes of those items. -/
theorem reader_position (hf : HashFns H) [BEq H] (fl : Flavour) (root : H) (tree : Tree)
    (ranges : Ranges) (s : List UInt8) (is : List (Item H)) (d : Dec H)
    (h : Steps hf fl (Dec.new root tree ranges s) is d) :
    ∃ consumed, s = consumed ++ d.encoded ∧ consumed.length = itemsSize is :=
  steps_consumed h

example : ∃ d, Steps toy .sync d0 ([] ++ [.leaf 0 [7, 7, 7, 7, 7]]) d :=
  ⟨_, .item (.refl _) rfl⟩

/-- At any point, also after an error, the reader is a suffix of the original stream.
(After a hash mismatch the offending parent / leaf has been read but no item was returned for it,
so only "suffix" holds there, not the exact count.) -/
theorem reader_suffix (hf : HashFns H) [BEq H] (fl : Flavour) (root : H) (tree : Tree)
    (ranges : Ranges) (s : List UInt8) (d : Dec H)
    (h : Reach hf fl (Dec.new root tree ranges s) d) :
    ∃ consumed, s = consumed ++ d.encoded :=
  (reach_inv h).2.2

example : ∃ d, Reach toy .sync (Dec.new 8 ⟨5, 0⟩ [0] [7, 7, 7, 7, 7, 9]) d ∧ d.encoded = [9] :=
  ⟨_, .step (.refl _) (.inr (.inl ⟨_, rfl⟩)), rfl⟩

/-- Finishing: a decode that ends `done` hands back the stream minus exactly the bytes of the
items it returned. -/
theorem reader_position_done (hf : HashFns H) [BEq H] (fl : Flavour) (root : H) (tree : Tree)
    (ranges : Ranges) (s : List UInt8)
    (h : (decodeAll hf fl root tree ranges s).terminal = .done) :
    ∃ consumed, s = consumed ++ (decodeAll hf fl root tree ranges s).rest ∧
      consumed.length = itemsSize (decodeAll hf fl root tree ranges s).items :=
  runAux_consumed hf fl _ _ h

example : (decodeAll toy .fsm 6 ⟨5, 0⟩ [0] [7, 7, 7, 7, 7, 9]).terminal = .done ∧
    (decodeAll toy .fsm 6 ⟨5, 0⟩ [0] [7, 7, 7, 7, 7, 9]).rest = [9] := by decide

/-- the same for a run from any decoder state -/
theorem reader_position_run (hf : HashFns H) [BEq H] (fl : Flavour) (d : Dec H)
    (h : (Dec.run hf fl d).terminal = .done) :
    ∃ consumed, d.encoded = consumed ++ (Dec.run hf fl d).rest ∧
      consumed.length = itemsSize (Dec.run hf fl d).items :=
  runAux_consumed hf fl _ _ h

example : (Dec.run toy .sync d0).terminal = .done := by decide

/-- Bytes after the encoding are left untouched: if decoding `e` ends `done`, decoding `e ++ x`
returns the same items, ends `done`, and hands back the old rest followed by `x`. -/
theorem decode_trailing_rest (hf : HashFns H) [BEq H] (fl : Flavour) (root : H) (tree : Tree)
    (ranges : Ranges) (e x : List UInt8)
    (h : (decodeAll hf fl root tree ranges e).terminal = .done) :
    decodeAll hf fl root tree ranges (e ++ x)
      = ⟨(decodeAll hf fl root tree ranges e).items, .done,
         (decodeAll hf fl root tree ranges e).rest ++ x⟩ :=
  runAux_app hf fl _ (Dec.new root tree ranges e) x h

example : (decodeAll toy .sync 6 ⟨5, 0⟩ [0] [7, 7, 7, 7, 7, 9]).terminal = .done := by decide

/-- in particular, when `e` is consumed entirely, the reader is handed back positioned at `x` -/
theorem decode_trailing (hf : HashFns H) [BEq H] (fl : Flavour) (root : H) (tree : Tree)
    (ranges : Ranges) (e x : List UInt8)
    (h : (decodeAll hf fl root tree ranges e).terminal = .done)
    (hr : (decodeAll hf fl root tree ranges e).rest = []) :
    (decodeAll hf fl root tree ranges (e ++ x)).items = (decodeAll hf fl root tree ranges e).items ∧
    (decodeAll hf fl root tree ranges (e ++ x)).terminal = .done ∧
    (decodeAll hf fl root tree ranges (e ++ x)).rest = x := by
  rw [decode_trailing_rest hf fl root tree ranges e x h, hr]
  exact ⟨rfl, rfl, rfl⟩

example : (decodeAll toy .fsm 6 ⟨5, 0⟩ [0] [7, 7, 7, 7, 7]).terminal = .done ∧
    (decodeAll toy .fsm 6 ⟨5, 0⟩ [0] [7, 7, 7, 7, 7]).rest = [] := by decide

/-
Summary C20.
PROVED: tree_new, hash_new, plan_iter_geometry, tree_step, hash_step, accessors, reader_position,
  reader_suffix, reader_position_done, reader_position_run, decode_trailing_rest, decode_trailing.
PARTIAL: none.  OPEN: none.
NOTES:
* `Dec.tree` / `Dec.hash` are total in the model, so "without panicking" is true by construction and
  is not a theorem.
* The exact byte count (`reader_position`) is stated for item steps.  After an error only
  `reader_suffix` holds: on a hash mismatch the model has consumed the bad parent / leaf
  (`encoded := rest`) without returning an item; on a short read the model leaves `encoded`
  untouched, whereas a real `read_exact` may have consumed the partial bytes – the model documents
  `rest` as meaningful for `done` only.
-/

end Bao.C20
