import BaoProofs.Lemmas.NodeIter

/-!
# C15 (post-order half) — the post-order plan `BaoTree::post_order_chunks_iter`

"The post-order plan covers the whole blob; every parent comes after its subtree; the root flag
is set on exactly the root item; running the hash stack over the plan never underflows and ends
balanced."

`plan = Tree.postOrderChunks t` (`PostOrderChunkIter` driven by `PostOrderNodeIter`).  Views of
a plan (`BaoProofs/Lemmas/NodeIter.lean`): `leavesOf` = `(start chunk, byte size)` of the leaf
items, `parentsOf` = nodes of the parent items, `rootFlag` = the `is_root` field,
`stackRun h plan` = height of the hash stack after the plan (leaf: push; parent: pop 2, push 1,
requires height ≥ 2; `none` = underflow).  `planRec` is the explicit recursion
"`plan left ++ plan right ++ [parent]`" over the dense shifted tree.
-/

namespace Bao.C15Post

open Bao Bao.NodeIterL

/-- the leaves of the plan, in order, are the blocks `0, 1, …, blocks-1`: leaf `b` starts at chunk
`b·g` (`g = 2^bs` chunks per group) and has `min (g·1024) (size − b·g·1024)` bytes
(for `size = 0`: one leaf of size 0) -/
theorem leaves_tile (size bs : Nat) (hs : size ≤ 2 ^ 63) (hbs : bs ≤ 10) :
    leavesOf (Tree.postOrderChunks ⟨size, bs⟩)
      = (List.range (Tree.blocks ⟨size, bs⟩)).map
          (fun b => (b * 2 ^ bs, min (2 ^ bs * 1024) (size - b * 2 ^ bs * 1024))) :=
  leaves_plan size bs hs hbs

example : leavesOf (Tree.postOrderChunks ⟨5000, 1⟩) = [(0, 2048), (2, 2048), (4, 904)] :=
  leaves_tile 5000 1 (by decide) (by decide)

example : leavesOf (Tree.postOrderChunks ⟨0, 3⟩) = [(0, 0)] :=
  leaves_tile 0 3 (by decide) (by decide)

/-- … and these intervals tile `[0, size)` exactly: leaf `b` ends where leaf `b+1` starts, the
last leaf ends at `size` (and leaf 0 starts at byte 0 by `leaves_tile`) -/
theorem leaves_cover (size bs b : Nat) (hb : b < Tree.blocks ⟨size, bs⟩) :
    b * 2 ^ bs * 1024 + min (2 ^ bs * 1024) (size - b * 2 ^ bs * 1024)
      = if b + 1 < Tree.blocks ⟨size, bs⟩ then (b + 1) * 2 ^ bs * 1024 else size :=
  leaf_cover size bs b hb

example : 2 * 2 ^ 1 * 1024 + min (2 ^ 1 * 1024) (5000 - 2 * 2 ^ 1 * 1024) = 5000 :=
  leaves_cover 5000 1 2 (by decide)

/-- `is_root` is set on exactly the last item of the plan -/
theorem root_flag (size bs : Nat) (hs : size ≤ 2 ^ 63) (hbs : bs ≤ 10) :
    ∃ init last, Tree.postOrderChunks ⟨size, bs⟩ = init ++ [last] ∧ rootFlag last = true ∧
      ∀ c ∈ init, rootFlag c = false :=
  root_plan size bs hs hbs

example : ∃ init last, Tree.postOrderChunks ⟨5000, 1⟩ = init ++ [last] ∧ rootFlag last = true ∧
    ∀ c ∈ init, rootFlag c = false := root_flag 5000 1 (by decide) (by decide)

/-- running the hash stack over the plan from the empty stack never underflows (the run is
`some _`, and so is the run over every prefix) and ends with exactly one entry -/
theorem stack_discipline (size bs : Nat) (hs : size ≤ 2 ^ 63) (hbs : bs ≤ 10) :
    stackRun 0 (Tree.postOrderChunks ⟨size, bs⟩) = some 1 ∧
    ∀ a b, Tree.postOrderChunks ⟨size, bs⟩ = a ++ b → ∃ s, stackRun 0 a = some s :=
  ⟨stack_plan size bs hs hbs, fun _ _ hab => stack_prefix (stack_plan size bs hs hbs) hab⟩

example : stackRun 0 (Tree.postOrderChunks ⟨5000, 1⟩) = some 1 :=
  (stack_discipline 5000 1 (by decide) (by decide)).1

/-- every parent comes after its subtree: the plan is the recursion
`plan (k, L+1) = plan (2k, L) ++ plan (2k+1, L) ++ [parent (k, L+1)]` over the shifted tree
(`planRec`; a shifted leaf with two blocks gives `[leaf, leaf, parent]`, the half leaf `[leaf]`,
a node outside the tree is replaced by its left child);
the parent items are exactly the persisted nodes, in post-order, and there are `blocks - 1` -/
theorem parent_after_subtree (size bs : Nat) (hs : size ≤ 2 ^ 63) (hbs : bs ≤ 10) :
    Tree.postOrderChunks ⟨size, bs⟩
      = planRec size bs (Tree.shifted ⟨size, bs⟩).1 (Tree.shifted ⟨size, bs⟩).2
          (rootLevel ⟨size, bs⟩) 0 ∧
    parentsOf (Tree.postOrderChunks ⟨size, bs⟩) = Spec.persistedPost size bs ∧
    (parentsOf (Tree.postOrderChunks ⟨size, bs⟩)).length = Tree.blocks ⟨size, bs⟩ - 1 := by
  refine ⟨plan_rec size bs hs hbs, parents_plan size bs hs hbs, ?_⟩
  rw [parents_plan size bs hs hbs]
  exact (Offsets.persistedPost_offsets size bs hs).1

example : parentsOf (Tree.postOrderChunks ⟨5000, 1⟩) = Spec.persistedPost 5000 1 :=
  (parent_after_subtree 5000 1 (by decide) (by decide)).2.1

/-- so the `i`-th parent item of the plan is the node with post-order offset `i`: a sequential
writer that appends the hash pairs in plan order produces the post-order outboard -/
theorem parent_offsets (size bs : Nat) (hs : size ≤ 2 ^ 63) (hbs : bs ≤ 10) :
    (parentsOf (Tree.postOrderChunks ⟨size, bs⟩)).map
        (fun x => (Tree.postOrderOffset ⟨size, bs⟩ x).map Tree.PostOffset.value)
      = (List.range' 0 (Tree.blocks ⟨size, bs⟩ - 1)).map some := by
  obtain ⟨hlen, hmap⟩ := Offsets.persistedPost_offsets size bs hs
  rw [parents_plan size bs hs hbs, hmap, hlen]

example : (parentsOf (Tree.postOrderChunks ⟨5000, 1⟩)).map
    (fun x => (Tree.postOrderOffset ⟨5000, 1⟩ x).map Tree.PostOffset.value) = [some 0, some 1] :=
  parent_offsets 5000 1 (by decide) (by decide)

end Bao.C15Post

/-
Status.
PROVED (full strength, all for `size ≤ 2^63`, `bs ≤ 10`):
  * `leaves_tile`, `leaves_cover`  — the leaf items are the blocks `0 … blocks-1` in order and
                                     tile `[0, size)` exactly.
  * `root_flag`                    — `is_root` exactly on the last item.
  * `stack_discipline`             — no underflow on any prefix, final height 1.
  * `parent_after_subtree`         — plan = `planRec` (left ++ right ++ [parent]); parent items =
                                     `Spec.persistedPost`, `blocks - 1` of them.
  * `parent_offsets`               — the `i`-th parent item has post-order offset `i`.
PARTIAL: none.   OPEN: none.
These rest on `NodeIterL.postOrderNodes_shifted` (state machine = recursion, proved).
-/
