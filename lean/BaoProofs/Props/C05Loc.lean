import BaoProofs.Lemmas.C05LocL

/-!
# C05 with LOCALISED collision freedom (validating encoder)

`Props/C05.lean` proves the theorems about `encodeRangesValidated` under the global
`CollisionFree hf` – injectivity of the two hash primitives on ALL inputs, which no function into 32
bytes has and which is inconsistent with the 32-byte wire round trip (`Lemmas/CFUnsat.lean`).  Here
the same statements are proved under

  `CollisionFreeOn hf (fun x => x ∈ encEvals hf fl data ob q ++ encEvals hf fl₀ data₀ ob₀ q)`

i.e. no collision among the FINITELY many hash inputs the two encoder runs under consideration
evaluate.  `encEvals hf fl data ob q` (`Lemmas/C05LocL.lean`) is a computable twin of
`encodeRangesValidated hf fl data ob q`: for every parent item the run reaches and whose `load`
returns a pair, the input `.parent l r isRoot`; for every leaf item it reaches with a non-empty
stack and whose read succeeds, `hashEvals hf start buf isRoot` of ALL the bytes read (also for a
partially selected chunk group, `C05.selectedRec_hash`); the inputs of the last, failing item
included.

Setting as in `Props/C05.lean`: `S = (data, ob)` is ANY store, `S₀ = (data₀, ob₀)` a reference store
with the same root and tree on which the validating encoder runs to `.ok`; flavours arbitrary.

`validated_collision_extraction` is the contrapositive WITHOUT any hash hypothesis: a run whose
output is not a prefix of the reference output (or that ends `.ok` with a different output)
exhibits a collision inside that finite list, and the quadratic search `findCollision` finds it.

The global theorems of `Props/C05.lean` are re-derived from the local ones (`*_of_global`).
-/

namespace Bao.C05Loc

open Bao.C05

variable {H : Type} [BEq H] [LawfulBEq H] {hf : HashFns H}

/-- **Prefix (local).**  On ANY store the validating encoder emits a prefix of what it emits on a
reference store with the same root and tree that passes all checks; if it returns `.ok` it emitted
exactly the same bytes – provided `hf` has no collision among the inputs the two runs evaluate. -/
theorem validated_prefix_rel_loc (fl fl₀ : Flavour) (data data₀ : List UInt8)
    (ob ob₀ : Store H) (q : Ranges) (htree : ob.tree = ob₀.tree) (hroot : ob.root = ob₀.root)
    (hd : data.length ≤ 2 ^ 64 * 1024) (hd₀ : data₀.length ≤ 2 ^ 64 * 1024)
    (cf : CollisionFreeOn hf
      (fun x => x ∈ encEvals hf fl data ob q ++ encEvals hf fl₀ data₀ ob₀ q))
    (hok : (encodeRangesValidated hf fl₀ data₀ ob₀ q).terminal = .ok) :
    (encodeRangesValidated hf fl data ob q).out <+: (encodeRangesValidated hf fl₀ data₀ ob₀ q).out ∧
    ((encodeRangesValidated hf fl data ob q).terminal = .ok →
      (encodeRangesValidated hf fl data ob q).out = (encodeRangesValidated hf fl₀ data₀ ob₀ q).out) := by
  obtain ⟨_, _, _, h1, h2, _⟩ := validated_rel_loc (fl := fl) htree hroot hd hd₀ q cf hok
  exact ⟨h1, fun h => (h2 h).1⟩

/-- **Proper prefix (local).**  If the run on `S` does not end `.ok`, what it emitted is strictly
shorter than the reference output. -/
theorem validated_proper_prefix_loc (hb : ∀ h, hf.toBytes h ≠ [])
    (fl fl₀ : Flavour) (data data₀ : List UInt8) (ob ob₀ : Store H) (q : Ranges)
    (htree : ob.tree = ob₀.tree) (hroot : ob.root = ob₀.root)
    (hd : data.length ≤ 2 ^ 64 * 1024) (hd₀ : data₀.length ≤ 2 ^ 64 * 1024)
    (cf : CollisionFreeOn hf
      (fun x => x ∈ encEvals hf fl data ob q ++ encEvals hf fl₀ data₀ ob₀ q))
    (hok : (encodeRangesValidated hf fl₀ data₀ ob₀ q).terminal = .ok)
    (hne : (encodeRangesValidated hf fl data ob q).terminal ≠ .ok) :
    (encodeRangesValidated hf fl data ob q).out <+: (encodeRangesValidated hf fl₀ data₀ ob₀ q).out ∧
    (encodeRangesValidated hf fl data ob q).out.length
      < (encodeRangesValidated hf fl₀ data₀ ob₀ q).out.length := by
  obtain ⟨_, _, _, h1, _, h3⟩ := validated_rel_loc (fl := fl) htree hroot hd hd₀ q cf hok
  exact ⟨h1, h3 hb hne⟩

/-- **Detection (local).**  If the run on `S` ends `.ok` too, then `S` and the reference store
agree on every access the plan makes … -/
theorem validated_ok_agree_loc (fl fl₀ : Flavour) (data data₀ : List UInt8)
    (ob ob₀ : Store H) (q : Ranges) (htree : ob.tree = ob₀.tree) (hroot : ob.root = ob₀.root)
    (hd : data.length ≤ 2 ^ 64 * 1024) (hd₀ : data₀.length ≤ 2 ^ 64 * 1024)
    (cf : CollisionFreeOn hf
      (fun x => x ∈ encEvals hf fl data ob q ++ encEvals hf fl₀ data₀ ob₀ q))
    (hok₀ : (encodeRangesValidated hf fl₀ data₀ ob₀ q).terminal = .ok)
    (hok : (encodeRangesValidated hf fl data ob q).terminal = .ok) :
    ∃ plan, planOf ob q = some plan ∧ ∀ c ∈ plan, AgreeAt hf fl fl₀ data ob data₀ ob₀ c := by
  obtain ⟨plan, hp, _, _, h2, _⟩ := validated_rel_loc (fl := fl) htree hroot hd hd₀ q cf hok₀
  exact ⟨plan, hp, (h2 hok).2⟩

/-- … hence: if `S` differs from the reference store in anything the query depends on (the pair
loaded for some parent of the plan, or the bytes read for some leaf of the plan), the run on `S`
does not end `.ok`. -/
theorem validated_detects_loc (fl fl₀ : Flavour) (data data₀ : List UInt8)
    (ob ob₀ : Store H) (q : Ranges) (htree : ob.tree = ob₀.tree) (hroot : ob.root = ob₀.root)
    (hd : data.length ≤ 2 ^ 64 * 1024) (hd₀ : data₀.length ≤ 2 ^ 64 * 1024)
    (cf : CollisionFreeOn hf
      (fun x => x ∈ encEvals hf fl data ob q ++ encEvals hf fl₀ data₀ ob₀ q))
    (hok₀ : (encodeRangesValidated hf fl₀ data₀ ob₀ q).terminal = .ok)
    {plan : List Chunk} (hp : planOf ob q = some plan) {c : Chunk} (hc : c ∈ plan)
    (hdiff : ¬ AgreeAt hf fl fl₀ data ob data₀ ob₀ c) :
    (encodeRangesValidated hf fl data ob q).terminal ≠ .ok := by
  intro hok
  obtain ⟨plan', hp', h⟩ :=
    validated_ok_agree_loc fl fl₀ data data₀ ob ob₀ q htree hroot hd hd₀ cf hok₀ hok
  rw [hp] at hp'
  cases hp'
  exact hdiff (h c hc)

/-- **Uniqueness (local).**  Two stores (same root, same tree) that both pass validation emit the
same bytes. -/
theorem validated_ok_unique_loc (fl fl₀ : Flavour) (data data₀ : List UInt8)
    (ob ob₀ : Store H) (q : Ranges) (htree : ob.tree = ob₀.tree) (hroot : ob.root = ob₀.root)
    (hd : data.length ≤ 2 ^ 64 * 1024) (hd₀ : data₀.length ≤ 2 ^ 64 * 1024)
    (cf : CollisionFreeOn hf
      (fun x => x ∈ encEvals hf fl data ob q ++ encEvals hf fl₀ data₀ ob₀ q))
    (hok₀ : (encodeRangesValidated hf fl₀ data₀ ob₀ q).terminal = .ok)
    (hok : (encodeRangesValidated hf fl data ob q).terminal = .ok) :
    (encodeRangesValidated hf fl data ob q).out = (encodeRangesValidated hf fl₀ data₀ ob₀ q).out :=
  (validated_prefix_rel_loc fl fl₀ data data₀ ob ob₀ q htree hroot hd hd₀ cf hok₀).2 hok

/-- **What "passes validation" means (local).**  If the root is the root hash of blob `d` and the
run ends `.ok`, then every pair it loaded is the true pair of a node of the tree of `d` and every
leaf it read is the bytes of `d` at that place – provided `hf` has no collision among the inputs of
the honest hashing of `d` (`C01.trueEvals hf d`) and of this run. -/
theorem validated_ok_reads_true_loc {d : List UInt8} (hd : d.length ≤ 2 ^ 64 * 1024)
    (fl : Flavour) (data : List UInt8) (ob : Store H) (q : Ranges)
    (hdata : data.length ≤ 2 ^ 64 * 1024) (hroot : ob.root = Spec.root hf d)
    (cf : CollisionFreeOn hf (fun x => x ∈ C01.trueEvals hf d ++ encEvals hf fl data ob q))
    (hok : (encodeRangesValidated hf fl data ob q).terminal = .ok) :
    ∃ plan, planOf ob q = some plan ∧ ∀ c ∈ plan, ReadTrue hf fl data ob d c :=
  validated_true_loc hd hdata hroot q cf hok

/-! ## collision extraction: no hash hypothesis -/

/-- the general form: whenever the relation of `validated_rel_loc` FAILS between the run on `S` and
a reference run that ends `.ok`, the finite list of evaluated inputs contains a collision -/
theorem validated_collision_of_not_rel (fl fl₀ : Flavour) (data data₀ : List UInt8)
    (ob ob₀ : Store H) (q : Ranges) (htree : ob.tree = ob₀.tree) (hroot : ob.root = ob₀.root)
    (hd : data.length ≤ 2 ^ 64 * 1024) (hd₀ : data₀.length ≤ 2 ^ 64 * 1024)
    (hok₀ : (encodeRangesValidated hf fl₀ data₀ ob₀ q).terminal = .ok)
    (hbad : ¬ ∃ plan, planOf ob q = some plan ∧ planOf ob₀ q = some plan ∧
      (encodeRangesValidated hf fl data ob q).out <+: (encodeRangesValidated hf fl₀ data₀ ob₀ q).out ∧
      ((encodeRangesValidated hf fl data ob q).terminal = .ok →
        (encodeRangesValidated hf fl data ob q).out = (encodeRangesValidated hf fl₀ data₀ ob₀ q).out ∧
        ∀ c ∈ plan, AgreeAt hf fl fl₀ data ob data₀ ob₀ c) ∧
      ((∀ h, hf.toBytes h ≠ []) → (encodeRangesValidated hf fl data ob q).terminal ≠ .ok →
        (encodeRangesValidated hf fl data ob q).out.length
          < (encodeRangesValidated hf fl₀ data₀ ob₀ q).out.length)) :
    ∃ x y, x ∈ encEvals hf fl data ob q ++ encEvals hf fl₀ data₀ ob₀ q ∧
      y ∈ encEvals hf fl data ob q ++ encEvals hf fl₀ data₀ ob₀ q ∧
      x ≠ y ∧ hf.eval x = hf.eval y := by
  apply Classical.byContradiction
  intro hno
  exact hbad (validated_rel_loc (fl := fl) htree hroot hd hd₀ q
    (collisionFreeOn_of_no_collision hno) hok₀)

/-- **Collision extraction.**  NO hash hypothesis: if both stores have the same root and tree, the
reference run ends `.ok`, and the run on `S` emits something that is not a prefix of the reference
output, or ends `.ok` with a different output, then the finite, computable list
`encEvals hf fl data ob q ++ encEvals hf fl₀ data₀ ob₀ q` contains two different inputs with the
same hash, and the quadratic search `findCollision` returns such a pair. -/
theorem validated_collision_extraction [DecidableEq H] (fl fl₀ : Flavour) (data data₀ : List UInt8)
    (ob ob₀ : Store H) (q : Ranges) (htree : ob.tree = ob₀.tree) (hroot : ob.root = ob₀.root)
    (hd : data.length ≤ 2 ^ 64 * 1024) (hd₀ : data₀.length ≤ 2 ^ 64 * 1024)
    (hok₀ : (encodeRangesValidated hf fl₀ data₀ ob₀ q).terminal = .ok)
    (hbad : ¬ (encodeRangesValidated hf fl data ob q).out
          <+: (encodeRangesValidated hf fl₀ data₀ ob₀ q).out ∨
      ((encodeRangesValidated hf fl data ob q).terminal = .ok ∧
        (encodeRangesValidated hf fl data ob q).out
          ≠ (encodeRangesValidated hf fl₀ data₀ ob₀ q).out)) :
    ∃ x y, findCollision hf (encEvals hf fl data ob q ++ encEvals hf fl₀ data₀ ob₀ q)
        = some (x, y) ∧
      x ∈ encEvals hf fl data ob q ++ encEvals hf fl₀ data₀ ob₀ q ∧
      y ∈ encEvals hf fl data ob q ++ encEvals hf fl₀ data₀ ob₀ q ∧
      x ≠ y ∧ hf.eval x = hf.eval y := by
  obtain ⟨x, y, hx, hy, hne, he⟩ :=
    validated_collision_of_not_rel fl fl₀ data data₀ ob ob₀ q htree hroot hd hd₀ hok₀ (by
      rintro ⟨_, _, _, h1, h2, _⟩
      rcases hbad with h | ⟨h, h'⟩
      · exact h h1
      · exact h' (h2 h).1)
  obtain ⟨x', y', hf'⟩ := findCollision_complete hx hy hne he
  exact ⟨x', y', hf', findCollision_some hf'⟩

/-- collision extraction, detection form: both runs end `.ok` although the stores differ in an
access the plan makes ⇒ a collision in the list, found by `findCollision` -/
theorem validated_collision_extraction_agree [DecidableEq H] (fl fl₀ : Flavour)
    (data data₀ : List UInt8) (ob ob₀ : Store H) (q : Ranges) (htree : ob.tree = ob₀.tree)
    (hroot : ob.root = ob₀.root) (hd : data.length ≤ 2 ^ 64 * 1024)
    (hd₀ : data₀.length ≤ 2 ^ 64 * 1024)
    (hok₀ : (encodeRangesValidated hf fl₀ data₀ ob₀ q).terminal = .ok)
    (hok : (encodeRangesValidated hf fl data ob q).terminal = .ok)
    {plan : List Chunk} (hp : planOf ob q = some plan) {c : Chunk} (hc : c ∈ plan)
    (hdiff : ¬ AgreeAt hf fl fl₀ data ob data₀ ob₀ c) :
    ∃ x y, findCollision hf (encEvals hf fl data ob q ++ encEvals hf fl₀ data₀ ob₀ q)
        = some (x, y) ∧
      x ∈ encEvals hf fl data ob q ++ encEvals hf fl₀ data₀ ob₀ q ∧
      y ∈ encEvals hf fl data ob q ++ encEvals hf fl₀ data₀ ob₀ q ∧
      x ≠ y ∧ hf.eval x = hf.eval y := by
  obtain ⟨x, y, hx, hy, hne, he⟩ :=
    validated_collision_of_not_rel fl fl₀ data data₀ ob ob₀ q htree hroot hd hd₀ hok₀ (by
      rintro ⟨plan', hp', _, _, h2, _⟩
      rw [hp] at hp'
      cases hp'
      exact hdiff ((h2 hok).2 c hc))
  obtain ⟨x', y', hf'⟩ := findCollision_complete hx hy hne he
  exact ⟨x', y', hf', findCollision_some hf'⟩

/-- collision extraction, proper-prefix form: the run on `S` fails but emitted at least as many
bytes as the reference run ⇒ a collision in the list, found by `findCollision` -/
theorem validated_collision_extraction_short [DecidableEq H] (hb : ∀ h, hf.toBytes h ≠ [])
    (fl fl₀ : Flavour) (data data₀ : List UInt8) (ob ob₀ : Store H) (q : Ranges)
    (htree : ob.tree = ob₀.tree) (hroot : ob.root = ob₀.root)
    (hd : data.length ≤ 2 ^ 64 * 1024) (hd₀ : data₀.length ≤ 2 ^ 64 * 1024)
    (hok₀ : (encodeRangesValidated hf fl₀ data₀ ob₀ q).terminal = .ok)
    (hne : (encodeRangesValidated hf fl data ob q).terminal ≠ .ok)
    (hlen : (encodeRangesValidated hf fl₀ data₀ ob₀ q).out.length
      ≤ (encodeRangesValidated hf fl data ob q).out.length) :
    ∃ x y, findCollision hf (encEvals hf fl data ob q ++ encEvals hf fl₀ data₀ ob₀ q)
        = some (x, y) ∧
      x ∈ encEvals hf fl data ob q ++ encEvals hf fl₀ data₀ ob₀ q ∧
      y ∈ encEvals hf fl data ob q ++ encEvals hf fl₀ data₀ ob₀ q ∧
      x ≠ y ∧ hf.eval x = hf.eval y := by
  obtain ⟨x, y, hx, hy, hne', he⟩ :=
    validated_collision_of_not_rel fl fl₀ data data₀ ob ob₀ q htree hroot hd hd₀ hok₀ (by
      rintro ⟨_, _, _, _, _, h3⟩
      exact absurd (h3 hb hne) (by omega))
  obtain ⟨x', y', hf'⟩ := findCollision_complete hx hy hne' he
  exact ⟨x', y', hf', findCollision_some hf'⟩

/-! ## the global theorems of `Props/C05.lean` follow from the local ones -/

theorem validated_prefix_rel_of_global (cf : CollisionFree hf) (fl fl₀ : Flavour)
    (data data₀ : List UInt8) (ob ob₀ : Store H) (q : Ranges) (htree : ob.tree = ob₀.tree)
    (hroot : ob.root = ob₀.root) (hd : data.length ≤ 2 ^ 64 * 1024)
    (hd₀ : data₀.length ≤ 2 ^ 64 * 1024)
    (hok : (encodeRangesValidated hf fl₀ data₀ ob₀ q).terminal = .ok) :
    (encodeRangesValidated hf fl data ob q).out <+: (encodeRangesValidated hf fl₀ data₀ ob₀ q).out ∧
    ((encodeRangesValidated hf fl data ob q).terminal = .ok →
      (encodeRangesValidated hf fl data ob q).out = (encodeRangesValidated hf fl₀ data₀ ob₀ q).out) :=
  validated_prefix_rel_loc fl fl₀ data data₀ ob ob₀ q htree hroot hd hd₀ (cf.on _) hok

theorem validated_proper_prefix_of_global (cf : CollisionFree hf) (hb : ∀ h, hf.toBytes h ≠ [])
    (fl fl₀ : Flavour) (data data₀ : List UInt8) (ob ob₀ : Store H) (q : Ranges)
    (htree : ob.tree = ob₀.tree) (hroot : ob.root = ob₀.root)
    (hd : data.length ≤ 2 ^ 64 * 1024) (hd₀ : data₀.length ≤ 2 ^ 64 * 1024)
    (hok : (encodeRangesValidated hf fl₀ data₀ ob₀ q).terminal = .ok)
    (hne : (encodeRangesValidated hf fl data ob q).terminal ≠ .ok) :
    (encodeRangesValidated hf fl data ob q).out <+: (encodeRangesValidated hf fl₀ data₀ ob₀ q).out ∧
    (encodeRangesValidated hf fl data ob q).out.length
      < (encodeRangesValidated hf fl₀ data₀ ob₀ q).out.length :=
  validated_proper_prefix_loc hb fl fl₀ data data₀ ob ob₀ q htree hroot hd hd₀ (cf.on _) hok hne

theorem validated_ok_agree_of_global (cf : CollisionFree hf) (fl fl₀ : Flavour)
    (data data₀ : List UInt8) (ob ob₀ : Store H) (q : Ranges) (htree : ob.tree = ob₀.tree)
    (hroot : ob.root = ob₀.root) (hd : data.length ≤ 2 ^ 64 * 1024)
    (hd₀ : data₀.length ≤ 2 ^ 64 * 1024)
    (hok₀ : (encodeRangesValidated hf fl₀ data₀ ob₀ q).terminal = .ok)
    (hok : (encodeRangesValidated hf fl data ob q).terminal = .ok) :
    ∃ plan, planOf ob q = some plan ∧ ∀ c ∈ plan, AgreeAt hf fl fl₀ data ob data₀ ob₀ c :=
  validated_ok_agree_loc fl fl₀ data data₀ ob ob₀ q htree hroot hd hd₀ (cf.on _) hok₀ hok

theorem validated_detects_of_global (cf : CollisionFree hf) (fl fl₀ : Flavour)
    (data data₀ : List UInt8) (ob ob₀ : Store H) (q : Ranges) (htree : ob.tree = ob₀.tree)
    (hroot : ob.root = ob₀.root) (hd : data.length ≤ 2 ^ 64 * 1024)
    (hd₀ : data₀.length ≤ 2 ^ 64 * 1024)
    (hok₀ : (encodeRangesValidated hf fl₀ data₀ ob₀ q).terminal = .ok)
    {plan : List Chunk} (hp : planOf ob q = some plan) {c : Chunk} (hc : c ∈ plan)
    (hdiff : ¬ AgreeAt hf fl fl₀ data ob data₀ ob₀ c) :
    (encodeRangesValidated hf fl data ob q).terminal ≠ .ok :=
  validated_detects_loc fl fl₀ data data₀ ob ob₀ q htree hroot hd hd₀ (cf.on _) hok₀ hp hc hdiff

theorem validated_ok_unique_of_global (cf : CollisionFree hf) (fl fl₀ : Flavour)
    (data data₀ : List UInt8) (ob ob₀ : Store H) (q : Ranges) (htree : ob.tree = ob₀.tree)
    (hroot : ob.root = ob₀.root) (hd : data.length ≤ 2 ^ 64 * 1024)
    (hd₀ : data₀.length ≤ 2 ^ 64 * 1024)
    (hok₀ : (encodeRangesValidated hf fl₀ data₀ ob₀ q).terminal = .ok)
    (hok : (encodeRangesValidated hf fl data ob q).terminal = .ok) :
    (encodeRangesValidated hf fl data ob q).out = (encodeRangesValidated hf fl₀ data₀ ob₀ q).out :=
  validated_ok_unique_loc fl fl₀ data data₀ ob ob₀ q htree hroot hd hd₀ (cf.on _) hok₀ hok

theorem validated_ok_reads_true_of_global (cf : CollisionFree hf) {d : List UInt8}
    (hd : d.length ≤ 2 ^ 64 * 1024) (fl : Flavour) (data : List UInt8) (ob : Store H) (q : Ranges)
    (hdata : data.length ≤ 2 ^ 64 * 1024) (hroot : ob.root = Spec.root hf d)
    (hok : (encodeRangesValidated hf fl data ob q).terminal = .ok) :
    ∃ plan, planOf ob q = some plan ∧ ∀ c ∈ plan, ReadTrue hf fl data ob d c :=
  validated_ok_reads_true_loc hd fl data ob q hdata hroot (cf.on _) hok

/-! ## non-vacuity -/

section
/-! ### (a) `toy32`: 32-byte hashes WITH the wire round trip, not globally collision free

A blob of three chunks, block size 1 (one chunk group of two chunks and one single chunk), its
honest pre-order outboard (one pair) and the query "chunk 1 only": the plan is the root parent
(left child only) and the PARTIALLY selected group `[0, 2)`, which goes through
`encode_selected_rec`.  The reference run evaluates 4 inputs (root parent, group parent, two
chunks).  Corrupted stores: one data byte of chunk 1 changed (leaf hash mismatch after the root
pair was sent); one outboard byte changed (parent hash mismatch, nothing sent); an outboard with an
unused trailing byte (passes). -/

private def blob3 : List UInt8 := (List.range 2049).map UInt8.ofNat
private def bad3 : List UInt8 := blob3.take 1500 ++ [99] ++ blob3.drop 1501
private def ob3 : Store H32 :=
  ⟨.preMem, Spec.root toy32 blob3, ⟨2049, 1⟩, Spec.preOutboard toy32 blob3 1⟩
private def ob3' : Store H32 :=
  ⟨.preMem, Spec.root toy32 blob3, ⟨2049, 1⟩, Spec.preOutboard toy32 blob3 1 ++ [9]⟩
private def ob3bad : Store H32 :=
  ⟨.preMem, Spec.root toy32 blob3, ⟨2049, 1⟩,
    (Spec.preOutboard toy32 blob3 1).take 40 ++ [7] ++ (Spec.preOutboard toy32 blob3 1).drop 41⟩

private theorem len_blob3 : blob3.length ≤ 2 ^ 64 * 1024 := by
  simp only [blob3, List.length_map, List.length_range]; omega
private theorem len_bad3 : bad3.length ≤ 2 ^ 64 * 1024 := by
  simp only [bad3, blob3, List.length_append, List.length_take, List.length_drop, List.length_map,
    List.length_range, List.length_singleton]; omega

/-- the wire round trip holds for `toy32`, its hashes are 32 bytes, and the global hypothesis
fails -/
example : (∀ h, toy32.ofBytes (toy32.toBytes h) = h) ∧ (∀ h, (toy32.toBytes h).length = 32) ∧
    ¬ CollisionFree toy32 :=
  ⟨toy32_rt, toy32_len, toy32_not_cf⟩

private theorem toy32_toBytes_ne (h : H32) : toy32.toBytes h ≠ [] := by
  intro h0
  have := toy32_len h
  rw [h0] at this
  cases this

private theorem ok3 : (encodeRangesValidated toy32 .sync blob3 ob3 [1, 2]).terminal = .ok := by
  decide +kernel

private theorem ok3' : (encodeRangesValidated toy32 .fsm blob3 ob3' [1, 2]).terminal = .ok := by
  decide +kernel

private theorem bad3_err :
    (encodeRangesValidated toy32 .fsm bad3 ob3 [1, 2]).terminal = .err (.leafHashMismatch 0) := by
  decide +kernel

private theorem ob3bad_err :
    (encodeRangesValidated toy32 .fsm blob3 ob3bad [1, 2]).terminal
      = .err (.parentHashMismatch 1) := by
  decide +kernel

private theorem plan3 : planOf ob3 [1, 2] = some
    [.parent 1 true true false [1, 2], .leaf 0 2048 false [1]] := by decide +kernel

/-- the runs are not trivial: the reference run emits 1152 bytes (root pair, group pair, chunk 1)
and evaluates 4 inputs; the run on the corrupted data emits the root pair and evaluates 4 inputs;
the run on the corrupted outboard emits nothing and evaluates 1 input -/
example : (encodeRangesValidated toy32 .sync blob3 ob3 [1, 2]).out.length = 1152 ∧
    (encEvals toy32 .sync blob3 ob3 [1, 2]).length = 4 ∧
    (encodeRangesValidated toy32 .fsm bad3 ob3 [1, 2]).out.length = 64 ∧
    (encEvals toy32 .fsm bad3 ob3 [1, 2]).length = 4 ∧
    (encodeRangesValidated toy32 .fsm blob3 ob3bad [1, 2]).out.length = 0 ∧
    (encEvals toy32 .fsm blob3 ob3bad [1, 2]).length = 1 := by decide +kernel

/-- **the local hypothesis is satisfiable together with 32-byte hashes and the round trip** -/
private theorem toy_cf_bad : CollisionFreeOn toy32
    (fun x => x ∈ encEvals toy32 .fsm bad3 ob3 [1, 2] ++ encEvals toy32 .sync blob3 ob3 [1, 2]) :=
  collisionFreeOn_list (by decide +kernel)

private theorem toy_cf_obbad : CollisionFreeOn toy32
    (fun x => x ∈ encEvals toy32 .fsm blob3 ob3bad [1, 2] ++ encEvals toy32 .sync blob3 ob3 [1, 2]) :=
  collisionFreeOn_list (by decide +kernel)

private theorem toy_cf_ok : CollisionFreeOn toy32
    (fun x => x ∈ encEvals toy32 .fsm blob3 ob3' [1, 2] ++ encEvals toy32 .sync blob3 ob3 [1, 2]) :=
  collisionFreeOn_list (by decide +kernel)

example :
    (encodeRangesValidated toy32 .fsm bad3 ob3 [1, 2]).out
      <+: (encodeRangesValidated toy32 .sync blob3 ob3 [1, 2]).out ∧
    ((encodeRangesValidated toy32 .fsm bad3 ob3 [1, 2]).terminal = .ok →
      (encodeRangesValidated toy32 .fsm bad3 ob3 [1, 2]).out
        = (encodeRangesValidated toy32 .sync blob3 ob3 [1, 2]).out) :=
  validated_prefix_rel_loc .fsm .sync bad3 blob3 ob3 ob3 [1, 2] rfl rfl len_bad3 len_blob3
    toy_cf_bad ok3

example :
    (encodeRangesValidated toy32 .fsm bad3 ob3 [1, 2]).out
      <+: (encodeRangesValidated toy32 .sync blob3 ob3 [1, 2]).out ∧
    (encodeRangesValidated toy32 .fsm bad3 ob3 [1, 2]).out.length
      < (encodeRangesValidated toy32 .sync blob3 ob3 [1, 2]).out.length :=
  validated_proper_prefix_loc toy32_toBytes_ne .fsm .sync bad3 blob3 ob3 ob3 [1, 2] rfl rfl
    len_bad3 len_blob3 toy_cf_bad ok3 (by rw [bad3_err]; simp)

example :
    (encodeRangesValidated toy32 .fsm blob3 ob3bad [1, 2]).out
      <+: (encodeRangesValidated toy32 .sync blob3 ob3 [1, 2]).out ∧
    (encodeRangesValidated toy32 .fsm blob3 ob3bad [1, 2]).out.length
      < (encodeRangesValidated toy32 .sync blob3 ob3 [1, 2]).out.length :=
  validated_proper_prefix_loc toy32_toBytes_ne .fsm .sync blob3 blob3 ob3bad ob3 [1, 2] rfl rfl
    len_blob3 len_blob3 toy_cf_obbad ok3 (by rw [ob3bad_err]; simp)

example : ∃ plan, planOf ob3' [1, 2] = some plan ∧
    ∀ c ∈ plan, AgreeAt toy32 .fsm .sync blob3 ob3' blob3 ob3 c :=
  validated_ok_agree_loc .fsm .sync blob3 blob3 ob3' ob3 [1, 2] rfl rfl len_blob3 len_blob3
    toy_cf_ok ok3 ok3'

example : (encodeRangesValidated toy32 .fsm bad3 ob3 [1, 2]).terminal ≠ .ok :=
  validated_detects_loc .fsm .sync bad3 blob3 ob3 ob3 [1, 2] rfl rfl len_bad3 len_blob3
    toy_cf_bad ok3 plan3 (c := .leaf 0 2048 false [1]) (by simp) (by
      simp only [AgreeAt]
      intro h
      have h2 := congrArg (fun x => match x with | .ok b => b | .error _ => []) h
      revert h2
      decide +kernel)

example : (encodeRangesValidated toy32 .fsm blob3 ob3' [1, 2]).out
    = (encodeRangesValidated toy32 .sync blob3 ob3 [1, 2]).out :=
  validated_ok_unique_loc .fsm .sync blob3 blob3 ob3' ob3 [1, 2] rfl rfl len_blob3 len_blob3
    toy_cf_ok ok3 ok3'

private theorem toy_cf_true : CollisionFreeOn toy32
    (fun x => x ∈ C01.trueEvals toy32 blob3 ++ encEvals toy32 .sync blob3 ob3 [1, 2]) :=
  collisionFreeOn_list (by decide +kernel)

example : ∃ plan, planOf ob3 [1, 2] = some plan ∧
    ∀ c ∈ plan, ReadTrue toy32 .sync blob3 ob3 blob3 c :=
  validated_ok_reads_true_loc (d := blob3) len_blob3 .sync blob3 ob3 [1, 2] len_blob3
    (by simp only [ob3]) toy_cf_true ok3

/-! ### (b) the symbolic hash `exHash`: globally, hence locally, collision free -/

private def blob2 : List UInt8 := List.replicate 1024 0 ++ [1]
private def bad2 : List UInt8 := List.replicate 1024 0 ++ [2]
private def root2 : Term := .parent (.chunk 0 (List.replicate 1024 0) false) (.chunk 1 [1] false) true
private def ob2 : Store Term := ⟨.preMem, root2, ⟨1025, 0⟩, zeros32 ++ List.replicate 32 1⟩

private theorem len_blob2 : blob2.length ≤ 2 ^ 64 * 1024 := by
  simp only [blob2, List.length_append, List.length_replicate, List.length_singleton]; omega
private theorem len_bad2 : bad2.length ≤ 2 ^ 64 * 1024 := by
  simp only [bad2, List.length_append, List.length_replicate, List.length_singleton]; omega

private theorem ok2 : (encodeRangesValidated exHash .sync blob2 ob2 [0]).terminal = .ok := by
  decide +kernel

example : CollisionFreeOn exHash
    (fun x => x ∈ encEvals exHash .fsm bad2 ob2 [0] ++ encEvals exHash .sync blob2 ob2 [0]) :=
  exHash_cf.on _

example :
    (encodeRangesValidated exHash .fsm bad2 ob2 [0]).out
      <+: (encodeRangesValidated exHash .sync blob2 ob2 [0]).out ∧
    ((encodeRangesValidated exHash .fsm bad2 ob2 [0]).terminal = .ok →
      (encodeRangesValidated exHash .fsm bad2 ob2 [0]).out
        = (encodeRangesValidated exHash .sync blob2 ob2 [0]).out) :=
  validated_prefix_rel_of_global exHash_cf .fsm .sync bad2 blob2 ob2 ob2 [0] rfl rfl len_bad2
    len_blob2 ok2

example :
    (encodeRangesValidated exHash .fsm bad2 ob2 [0]).out
      <+: (encodeRangesValidated exHash .sync blob2 ob2 [0]).out ∧
    (encodeRangesValidated exHash .fsm bad2 ob2 [0]).out.length
      < (encodeRangesValidated exHash .sync blob2 ob2 [0]).out.length :=
  validated_proper_prefix_of_global exHash_cf exHash_toBytes_ne .fsm .sync bad2 blob2 ob2 ob2 [0]
    rfl rfl len_bad2 len_blob2 ok2 (by decide +kernel)

example : ∃ plan, planOf ob2 [0] = some plan ∧
    ∀ c ∈ plan, AgreeAt exHash .fsm .sync blob2 ob2 blob2 ob2 c :=
  validated_ok_agree_of_global exHash_cf .fsm .sync blob2 blob2 ob2 ob2 [0] rfl rfl len_blob2
    len_blob2 ok2 (by decide +kernel)

example : (encodeRangesValidated exHash .fsm bad2 ob2 [0]).terminal ≠ .ok :=
  validated_detects_of_global exHash_cf .fsm .sync bad2 blob2 ob2 ob2 [0] rfl rfl len_bad2
    len_blob2 ok2 (plan := [.parent 0 true true true [0], .leaf 0 1024 false [0],
      .leaf 1 1 false [0]]) (by decide +kernel) (c := .leaf 1 1 false [0]) (by simp) (by
      simp only [AgreeAt]
      intro h
      have h2 := congrArg (fun x => match x with | .ok b => b | .error _ => []) h
      revert h2
      decide +kernel)

example : (encodeRangesValidated exHash .fsm blob2 ob2 [0]).out
    = (encodeRangesValidated exHash .sync blob2 ob2 [0]).out :=
  validated_ok_unique_of_global exHash_cf .fsm .sync blob2 blob2 ob2 ob2 [0] rfl rfl len_blob2
    len_blob2 ok2 (by decide +kernel)

private def blob1 : List UInt8 := [1, 2, 3]
private def ob1 : Store Term := ⟨.postMem, Spec.root exHash blob1, ⟨3, 0⟩, []⟩

example : ∃ plan, planOf ob1 [0] = some plan ∧ ∀ c ∈ plan, ReadTrue exHash .sync blob1 ob1 blob1 c :=
  validated_ok_reads_true_of_global exHash_cf (d := blob1) (by decide) .sync blob1 ob1 [0]
    (by decide) rfl (by decide +kernel)

/-! ### (c) collision extraction

`toy32` has a checksum collision between the one-chunk blobs `[1, 40]` and `[2, 9]` (same length,
same checksum).  A store holding `[2, 9]` under the root of `[1, 40]` passes validation and emits
the wrong bytes; the extracted collision is the pair of chunk inputs. -/

private def dA : List UInt8 := [1, 40]
private def dB : List UInt8 := [2, 9]
private def obA : Store H32 := ⟨.postMem, Spec.root toy32 dA, ⟨2, 0⟩, []⟩

private theorem okA : (encodeRangesValidated toy32 .sync dA obA [0]).terminal = .ok := by
  decide +kernel

private theorem badB : ¬ (encodeRangesValidated toy32 .fsm dB obA [0]).out
      <+: (encodeRangesValidated toy32 .sync dA obA [0]).out ∨
    ((encodeRangesValidated toy32 .fsm dB obA [0]).terminal = .ok ∧
      (encodeRangesValidated toy32 .fsm dB obA [0]).out
        ≠ (encodeRangesValidated toy32 .sync dA obA [0]).out) := by
  right
  decide +kernel

example : ∃ x y, findCollision toy32
      (encEvals toy32 .fsm dB obA [0] ++ encEvals toy32 .sync dA obA [0]) = some (x, y) ∧
    x ∈ encEvals toy32 .fsm dB obA [0] ++ encEvals toy32 .sync dA obA [0] ∧
    y ∈ encEvals toy32 .fsm dB obA [0] ++ encEvals toy32 .sync dA obA [0] ∧
    x ≠ y ∧ toy32.eval x = toy32.eval y :=
  validated_collision_extraction .fsm .sync dB dA obA obA [0] rfl rfl (by decide) (by decide) okA
    badB

example : ∃ x y, x ∈ encEvals toy32 .fsm dB obA [0] ++ encEvals toy32 .sync dA obA [0] ∧
    y ∈ encEvals toy32 .fsm dB obA [0] ++ encEvals toy32 .sync dA obA [0] ∧
    x ≠ y ∧ toy32.eval x = toy32.eval y :=
  validated_collision_of_not_rel .fsm .sync dB dA obA obA [0] rfl rfl (by decide) (by decide) okA
    (by
      rintro ⟨_, _, _, _, h2, _⟩
      exact absurd (h2 (by decide +kernel)).1 (by decide +kernel))

/-- … and the search indeed computes the collision: the forged chunk against the true one -/
example : findCollision toy32
    (encEvals toy32 .fsm dB obA [0] ++ encEvals toy32 .sync dA obA [0]) =
    some (.chunk 0 [2, 9] true, .chunk 0 [1, 40] true) := by decide +kernel

example : ∃ x y, findCollision toy32
      (encEvals toy32 .fsm dB obA [0] ++ encEvals toy32 .sync dA obA [0]) = some (x, y) ∧
    x ∈ encEvals toy32 .fsm dB obA [0] ++ encEvals toy32 .sync dA obA [0] ∧
    y ∈ encEvals toy32 .fsm dB obA [0] ++ encEvals toy32 .sync dA obA [0] ∧
    x ≠ y ∧ toy32.eval x = toy32.eval y :=
  validated_collision_extraction_agree .fsm .sync dB dA obA obA [0] rfl rfl (by decide)
    (by decide) okA (by decide +kernel) (plan := [.leaf 0 2 true [0]]) (by decide +kernel)
    (c := .leaf 0 2 true [0]) (by simp) (by
      simp only [AgreeAt]
      intro h
      have h2 := congrArg (fun x => match x with | .ok b => b | .error _ => []) h
      revert h2
      decide +kernel)

/-- a constant hash whose wire encodings have different lengths (the theorems assume nothing about
`toBytes` beyond non-emptiness): the hypotheses of `validated_collision_extraction_short` – a run
that fails but has emitted at least as much as the reference run – are satisfiable only with such
an `hf`.  Reference: the two-chunk blob with the pair `(true, true)` (2 + 1025 bytes sent); store
`S`: the pair `(false, false)` (4000 bytes sent) and an empty data file (io error at the first
leaf). -/
private def boolHash : HashFns Bool where
  chunkCv _ _ _ := true
  parentCv _ _ _ := true
  ofBytes b := b.head? == some 1
  toBytes h := if h then [1] else List.replicate 2000 0

private def obT : Store Bool := ⟨.preMem, true, ⟨1025, 0⟩, List.replicate 64 1⟩
private def obF : Store Bool := ⟨.preMem, true, ⟨1025, 0⟩, List.replicate 64 0⟩

example : ∃ x y, findCollision boolHash
      (encEvals boolHash .sync [] obF [0] ++ encEvals boolHash .sync blob2 obT [0]) = some (x, y) ∧
    x ∈ encEvals boolHash .sync [] obF [0] ++ encEvals boolHash .sync blob2 obT [0] ∧
    y ∈ encEvals boolHash .sync [] obF [0] ++ encEvals boolHash .sync blob2 obT [0] ∧
    x ≠ y ∧ boolHash.eval x = boolHash.eval y :=
  validated_collision_extraction_short (hf := boolHash) (by intro h; cases h <;> decide)
    .sync .sync [] blob2 obF obT [0] rfl rfl (by decide) len_blob2 (by decide +kernel)
    (by decide +kernel) (by decide +kernel)

end

/-
## Status (C05, local collision freedom)

All theorems depend on the axioms `propext`, `Classical.choice`, `Quot.sound` only
(`loopEvals_cons`: `propext`, `Quot.sound`; `encEvals_eq_loop`: `propext`).

Definitions (`Lemmas/C05LocL.lean`): `stepEvals`, `loopEvals` (structural twin of
`encodeValidatedLoop`), `encEvals` (twin of `encodeRangesValidated`), all computable.

PROVED (full strength: any two stores with the same root and tree, any flavours, any query; data
files `≤ 2^64 · 1024` bytes as in `Props/C05.lean`; hypothesis
`CollisionFreeOn hf (· ∈ encEvals hf fl data ob q ++ encEvals hf fl₀ data₀ ob₀ q)`):
* `validated_rel_loc` (LocL)       – twin of `C05.validated_rel`
* `validated_prefix_rel_loc`       – output is a prefix of the reference output; `.ok` ⇒ equal
* `validated_proper_prefix_loc`    – not `.ok` ⇒ strictly shorter (needs `toBytes h ≠ []`)
* `validated_ok_agree_loc`, `validated_detects_loc` – a difference in any `load` / `readExactAt`
                                     the plan makes ⇒ the run does not end `.ok`
* `validated_ok_unique_loc`        – all validating stores emit the same bytes
* `validated_ok_reads_true_loc`    – (not asked for) `.ok` against `Spec.root hf d` ⇒ every access
                                     returned true data of `d`; hypothesis: no collision in
                                     `C01.trueEvals hf d ++ encEvals hf fl data ob q`
* `validated_collision_of_not_rel` – NO hash hypothesis: failure of the relation of
                                     `validated_rel_loc` ⇒ `x ≠ y`, `hf.eval x = hf.eval y`, both in
                                     the finite list
* `validated_collision_extraction` – NO hash hypothesis: output not a prefix of the reference
                                     output, or `.ok` with a different output ⇒ `findCollision` on
                                     the list returns a collision
* `validated_collision_extraction_agree`, `validated_collision_extraction_short` – the same for
                                     "both `.ok` but some plan access differs" and "fails but not
                                     strictly shorter"
* `validated_*_of_global` (six)    – the theorems of `Props/C05.lean` re-derived from the local ones
                                     via `CollisionFree.on`

PARTIAL: none.   OPEN: none.

Non-vacuity: (a) `toy32` (32-byte hashes, `ofBytes (toBytes h) = h`, NOT globally collision free):
3-chunk blob, block size 1, honest pre-order outboard, query "chunk 1" (root parent + a PARTIALLY
selected chunk group, i.e. the `encode_selected_rec` branch); stores with a flipped data byte, a
flipped outboard byte, an unused trailing outboard byte; `CollisionFreeOn` on the ≤ 8 evaluated
inputs by `decide +kernel`.  (b) `exHash` (globally collision free) for the `_of_global` forms.
(c) extraction: `toy32` collides on the one-chunk blobs `[1, 40]` / `[2, 9]`; the store holding the
wrong blob passes validation, emits the wrong bytes, and `findCollision` returns
`(chunk 0 [2, 9] true, chunk 0 [1, 40] true)`; `boolHash` (constant hash, wire encodings of
different lengths) for the `_short` form.

Remarks
* `stepEvals` follows the order of the code: a parent item hashes the loaded pair BEFORE popping
  the expected hash (so the input is listed even if the stack is empty and the run panics); a leaf
  item pops first, then reads, then hashes.
* For a partially selected group the list is `hashEvals` of the whole buffer: `encode_selected_rec`
  returns `hashSubtree` of all bytes (`C05.selectedRec_hash`, needs `buf.length ≤ 2^64·1024`, which
  is where the data length hypotheses come from – also in the extraction theorems, which have no
  HASH hypothesis but keep these two length bounds).  That the primitive evaluations inside
  `encode_selected_rec` are exactly those of `hash_subtree` on the buffer is not stated separately
  (it would need an evaluation twin of `encodeSelectedRec`); the theorems only use the value.
* `encEvals` includes the inputs of the last, failing item; the proofs use the inputs of the items
  at which BOTH runs pass their check only.
* Model: nothing suspicious.

Wall time (`lake env lean`, 16 cores at load average ≈ 40): `Lemmas/C05LocL.lean` 3 s,
`Props/C05Loc.lean` 75–100 s, of which ≈ 75 s (cumulative) are the eleven `decide +kernel` evaluations
of the `toy32` examples on the 2049-byte blob; everything else < 3 s.
-/

end Bao.C05Loc
