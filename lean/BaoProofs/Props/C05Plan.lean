import BaoProofs.Lemmas.EncPlanL

/-!
# C05, error kinds on real trees

`C05.validated_error_kind` (`Props/C05.lean`) lists three possible causes of a panic of the
validating encoder.  For trees with `size ≤ 2^63` and `bs ≤ 10` (the range covered by the C15 plan
lemmas `Lemmas/PlanPre*.lean`) two of them are impossible — the plan iterator does not panic and
the pending-hash stack never underflows — and the plan's leaves lie inside the first `tree.size`
bytes, so a data file of at least that length is never read past its end.
-/

namespace Bao.C05

variable {H : Type} [BEq H]

/-- **Error kind on a real tree.**  Memory-like store (no io error from `load`), data file at least
`tree.size` long: the validating encoder ends `.ok`, with `ParentHashMismatch` at a parent node of
the plan, with `LeafHashMismatch` at a leaf of the plan, or panics — and it panics ONLY if `load`
returns `None` or panics for a parent node of the plan. -/
theorem validated_error_kind_tree (hf : HashFns H) (fl : Flavour) (data : List UInt8)
    (ob : Store H) (q : Ranges) (hs : ob.tree.size ≤ 2 ^ 63) (hbs : ob.tree.bs ≤ 10)
    (hio : ∀ node e, ob.load hf fl node ≠ .err e) (hlen : ob.tree.size ≤ data.length) :
    ∃ plan, planOf ob q = some plan ∧
      ((encodeRangesValidated hf fl data ob q).terminal = .ok ∨
       (∃ node ir lf rf rs, Chunk.parent node ir lf rf rs ∈ plan ∧
         (encodeRangesValidated hf fl data ob q).terminal = .err (.parentHashMismatch node)) ∨
       (∃ start size ir rs, Chunk.leaf start size ir rs ∈ plan ∧
         (encodeRangesValidated hf fl data ob q).terminal = .err (.leafHashMismatch start)) ∨
       ((encodeRangesValidated hf fl data ob q).terminal = .panic ∧
         ∃ node ir lf rf rs, Chunk.parent node ir lf rf rs ∈ plan ∧
           (ob.load hf fl node = .panic ∨ ob.load hf fl node = .ok none))) :=
  validated_kind_tree hf fl data ob q hs hbs hio hlen

/-- the memory stores and the empty outboard meet `hio` -/
theorem validated_error_kind_mem (hf : HashFns H) (fl : Flavour) (data : List UInt8)
    (ob : Store H) (q : Ranges) (hs : ob.tree.size ≤ 2 ^ 63) (hbs : ob.tree.bs ≤ 10)
    (hk : ob.kind = .preMem ∨ ob.kind = .postMem ∨ ob.kind = .empty)
    (hlen : ob.tree.size ≤ data.length) :
    ∃ plan, planOf ob q = some plan ∧
      ((encodeRangesValidated hf fl data ob q).terminal = .ok ∨
       (∃ node ir lf rf rs, Chunk.parent node ir lf rf rs ∈ plan ∧
         (encodeRangesValidated hf fl data ob q).terminal = .err (.parentHashMismatch node)) ∨
       (∃ start size ir rs, Chunk.leaf start size ir rs ∈ plan ∧
         (encodeRangesValidated hf fl data ob q).terminal = .err (.leafHashMismatch start)) ∨
       ((encodeRangesValidated hf fl data ob q).terminal = .panic ∧
         ∃ node ir lf rf rs, Chunk.parent node ir lf rf rs ∈ plan ∧
           (ob.load hf fl node = .panic ∨ ob.load hf fl node = .ok none))) :=
  validated_kind_tree hf fl data ob q hs hbs (fun node e => load_mem_ne_err hf fl ob node hk e) hlen

/-! ## non-vacuity -/

section
private def ob3 : Store Term := ⟨.postMem, .raw [], ⟨5000, 1⟩, List.replicate 64 0⟩
private def data3 : List UInt8 := List.replicate 5000 3

example : ∃ plan, planOf ob3 [2] = some plan ∧
    ((encodeRangesValidated exHash .sync data3 ob3 [2]).terminal = .ok ∨
     (∃ node ir lf rf rs, Chunk.parent node ir lf rf rs ∈ plan ∧
       (encodeRangesValidated exHash .sync data3 ob3 [2]).terminal = .err (.parentHashMismatch node)) ∨
     (∃ start size ir rs, Chunk.leaf start size ir rs ∈ plan ∧
       (encodeRangesValidated exHash .sync data3 ob3 [2]).terminal = .err (.leafHashMismatch start)) ∨
     ((encodeRangesValidated exHash .sync data3 ob3 [2]).terminal = .panic ∧
       ∃ node ir lf rf rs, Chunk.parent node ir lf rf rs ∈ plan ∧
         (ob3.load exHash .sync node = .panic ∨ ob3.load exHash .sync node = .ok none))) :=
  validated_error_kind_tree exHash .sync data3 ob3 [2] (by simp [ob3]) (by simp [ob3])
    (fun node e => load_mem_ne_err exHash .sync ob3 node (.inr (.inl rfl)) e)
    (by simp only [ob3, data3, List.length_replicate]; exact Nat.le_refl _)

example : ∃ plan, planOf ob3 [2] = some plan ∧
    ((encodeRangesValidated exHash .fsm data3 ob3 [2]).terminal = .ok ∨
     (∃ node ir lf rf rs, Chunk.parent node ir lf rf rs ∈ plan ∧
       (encodeRangesValidated exHash .fsm data3 ob3 [2]).terminal = .err (.parentHashMismatch node)) ∨
     (∃ start size ir rs, Chunk.leaf start size ir rs ∈ plan ∧
       (encodeRangesValidated exHash .fsm data3 ob3 [2]).terminal = .err (.leafHashMismatch start)) ∨
     ((encodeRangesValidated exHash .fsm data3 ob3 [2]).terminal = .panic ∧
       ∃ node ir lf rf rs, Chunk.parent node ir lf rf rs ∈ plan ∧
         (ob3.load exHash .fsm node = .panic ∨ ob3.load exHash .fsm node = .ok none))) :=
  validated_error_kind_mem exHash .fsm data3 ob3 [2] (by simp [ob3]) (by simp [ob3])
    (.inr (.inl rfl)) (by simp only [ob3, data3, List.length_replicate]; exact Nat.le_refl _)

end

/-
## Status

Proved (axioms: propext, Classical.choice, Quot.sound):
* `validated_error_kind_tree` – `size ≤ 2^63`, `bs ≤ 10`, no io error from `load`,
  `tree.size ≤ data.length`: terminal ∈ {`.ok`, `ParentHashMismatch` at a plan parent,
  `LeafHashMismatch` at a plan leaf, `.panic` caused by `load = None / panic` at a plan parent}
* `validated_error_kind_mem`  – the instance for `preMem` / `postMem` / `empty`

The restriction `bs ≤ 10` is inherited from `PlanPre.shifted_geo` (`Offsets.blocks_mul_le`).

-- OPEN: theorem validated_never_panics : … ∧ `ob.tree.outboardSize ≤ ob.data.length` (pre/post
--   stores) ⇒ the terminal is never `.panic`.  Missing: "every parent item of
--   `PlanPre.plan ⟨size, bs⟩ 0 q` is a persisted node" (`node ∈ Spec.persistedPre size bs`); then
--   `DecSim.slot_lt_pre/post` give a slot inside the backing.
-/

end Bao.C05
