import BaoProofs.Lemmas.SizeProofLoc

/-!
# C16 with LOCALISED collision freedom

`Props/C16.lean` (`size_proof`): a decode against the true root whose query selects the last chunk
of the CLAIMED geometry can end `done` only if the claimed size is the true size – under the global
`CollisionFree hf`, which no function into 32 bytes satisfies.  Here the same statements are proved
under

  `CollisionFreeOn hf (fun x => x ∈ trueEvals hf d ∨ x ∈ runEvals hf fl root ⟨size', bs⟩ q s)`

(no collision among the finitely many inputs evaluated by the honest hashing of the blob and by
this decoder run; definitions in `Lemmas/C01InvLoc.lean`), and in the contrapositive
`size_collision_extraction` without any hash hypothesis: a `done` under a wrong claimed size
exhibits a collision in that finite, computable list.

Method: `Lemmas/SizeProofLoc.lean` – the spine argument of `Lemmas/SizeProof.lean` with an
evaluation log threaded through the list machine `runL` (`runLEvals`), and `runEvals_sup`, the
twin of `decodeAll_eq_runL`, which shows that those evaluations are evaluations of the model's
decoder (`runEvals`), sync and fsm.
-/

namespace Bao.C16
open Bao Bao.Spec Bao.DecodeSpec Bao.C01

variable {H : Type} {hf : HashFns H} [BEq H] [LawfulBEq H]

/-- **the size proof, local form**: if the query selects the last chunk of the claimed geometry,
the decode of SOME stream against the true root ends `done`, and `hf` has no collision among the
inputs evaluated by the honest hashing of `d` and by that run, the claimed size is the true size -/
theorem size_proof_loc (fl : Flavour) (d : List UInt8) (hd : d.length ≤ 2 ^ 63)
    (size' bs : Nat) (hs : size' ≤ 2 ^ 63) (q : Ranges) (hwf : Ranges.WF q = true)
    (hsel : Spec.selected size' q (nChunks size' - 1) = true) (s : List UInt8)
    (cf : CollisionFreeOn hf (fun x => x ∈ trueEvals hf d ∨
      x ∈ runEvals hf fl (Spec.root hf d) ⟨size', bs⟩ q s))
    (hdone : (decodeAll hf fl (Spec.root hf d) ⟨size', bs⟩ q s).terminal = .done) :
    size' = d.length :=
  decode_size_proof_loc fl d hd size' bs hs q hwf hsel s cf hdone

/-- contrapositive: with a wrong claimed size a stream is rejected (error, never `done`, never a
panic) unless its run evaluates a collision -/
theorem wrong_size_rejected_loc (fl : Flavour) (d : List UInt8) (hd : d.length ≤ 2 ^ 63)
    (size' bs : Nat) (hs : size' ≤ 2 ^ 63) (hne : size' ≠ d.length) (q : Ranges)
    (hwf : Ranges.WF q = true) (hsel : Spec.selected size' q (nChunks size' - 1) = true)
    (s : List UInt8)
    (cf : CollisionFreeOn hf (fun x => x ∈ trueEvals hf d ∨
      x ∈ runEvals hf fl (Spec.root hf d) ⟨size', bs⟩ q s)) :
    ∃ e, (decodeAll hf fl (Spec.root hf d) ⟨size', bs⟩ q s).terminal = .err e := by
  cases h : (decodeAll hf fl (Spec.root hf d) ⟨size', bs⟩ q s).terminal with
  | done => exact absurd (size_proof_loc fl d hd size' bs hs q hwf hsel s cf h) hne
  | err e => exact ⟨e, rfl⟩
  | panic => exact absurd h (decode_no_panic hf fl _ size' bs q s hs)

/-- **collision extraction for the size proof** (no hash hypothesis): a decode that ends `done`
under a WRONG claimed size, with a query selecting the last claimed chunk, exhibits two different
inputs with equal hash in the finite list `trueEvals hf d ++ runEvals …` -/
theorem size_collision_extraction (fl : Flavour) (d : List UInt8) (hd : d.length ≤ 2 ^ 63)
    (size' bs : Nat) (hs : size' ≤ 2 ^ 63) (hne : size' ≠ d.length) (q : Ranges)
    (hwf : Ranges.WF q = true) (hsel : Spec.selected size' q (nChunks size' - 1) = true)
    (s : List UInt8)
    (hdone : (decodeAll hf fl (Spec.root hf d) ⟨size', bs⟩ q s).terminal = .done) :
    ∃ x y, x ∈ trueEvals hf d ++ runEvals hf fl (Spec.root hf d) ⟨size', bs⟩ q s ∧
      y ∈ trueEvals hf d ++ runEvals hf fl (Spec.root hf d) ⟨size', bs⟩ q s ∧
      x ≠ y ∧ hf.eval x = hf.eval y := by
  apply Classical.byContradiction
  intro hno
  apply hne
  refine size_proof_loc fl d hd size' bs hs q hwf hsel s ?_ hdone
  intro x y hx hy e
  apply Classical.byContradiction
  intro hxy
  exact hno ⟨x, y, List.mem_append.2 hx, List.mem_append.2 hy, hxy, e⟩

/-- … and the quadratic search over that list finds a collision -/
theorem size_collision_search [DecidableEq H] (fl : Flavour) (d : List UInt8)
    (hd : d.length ≤ 2 ^ 63) (size' bs : Nat) (hs : size' ≤ 2 ^ 63) (hne : size' ≠ d.length)
    (q : Ranges) (hwf : Ranges.WF q = true)
    (hsel : Spec.selected size' q (nChunks size' - 1) = true) (s : List UInt8)
    (hdone : (decodeAll hf fl (Spec.root hf d) ⟨size', bs⟩ q s).terminal = .done) :
    ∃ x y, findCollision hf (trueEvals hf d ++ runEvals hf fl (Spec.root hf d) ⟨size', bs⟩ q s) =
        some (x, y) ∧
      x ∈ trueEvals hf d ++ runEvals hf fl (Spec.root hf d) ⟨size', bs⟩ q s ∧
      y ∈ trueEvals hf d ++ runEvals hf fl (Spec.root hf d) ⟨size', bs⟩ q s ∧
      x ≠ y ∧ hf.eval x = hf.eval y := by
  obtain ⟨x, y, hx, hy, hxy, he⟩ :=
    size_collision_extraction fl d hd size' bs hs hne q hwf hsel s hdone
  obtain ⟨x', y', hf'⟩ := findCollision_complete hx hy hxy he
  exact ⟨x', y', hf', findCollision_some hf'⟩

/-! ## non-vacuity -/

section
/-! ### (a) the symbolic hash (globally, hence locally, collision free) -/

private def blob : List UInt8 := [1, 2, 3]

example : (3 : Nat) = blob.length :=
  size_proof_loc (hf := termHash) .sync blob (by decide) 3 0 (by decide) [0] (by decide)
    (by decide) [1, 2, 3] (termHash_cf.on _) (by decide)

example (s : List UInt8) :
    ∃ e, (decodeAll termHash .fsm (Spec.root termHash blob) ⟨5000, 1⟩ [4] s).terminal = .err e :=
  wrong_size_rejected_loc .fsm blob (by decide) 5000 1 (by decide) (by decide) [4]
    (by decide) (by decide) s (termHash_cf.on _)

/-! ### (b) a hash WITH the 32-byte wire round trip (`toy32`, not globally collision free)

A blob of three chunks.  The honest encoding of the query "last chunk" decodes to `done` (so the
hypotheses of `size_proof_loc` are all met); the same stream with one byte appended is rejected
under the claimed size 2050.  Collision freedom on the finitely many evaluated inputs is decided. -/

private def blob3 : List UInt8 := (List.range 2049).map UInt8.ofNat
private def honest3 : List UInt8 := Spec.encode toy32 blob3 0 [2]

private theorem blob3_len : blob3.length ≤ 2 ^ 63 := by
  simp only [blob3, List.length_map, List.length_range]; omega

private theorem blob3_length : blob3.length = 2049 := by
  simp only [blob3, List.length_map, List.length_range]

example : (∀ h, toy32.ofBytes (toy32.toBytes h) = h) ∧ (∀ h, (toy32.toBytes h).length = 32) ∧
    ¬ CollisionFree toy32 :=
  ⟨toy32_rt, toy32_len, toy32_not_cf⟩

private theorem toy_cf_honest : CollisionFreeOn toy32 (fun x => x ∈ trueEvals toy32 blob3 ∨
    x ∈ runEvals toy32 .sync (Spec.root toy32 blob3) ⟨2049, 0⟩ [2] honest3) :=
  collisionFreeOn_append (by decide +kernel)

private theorem toy_done :
    (decodeAll toy32 .sync (Spec.root toy32 blob3) ⟨2049, 0⟩ [2] honest3).terminal = .done := by
  decide +kernel

example : (2049 : Nat) = blob3.length :=
  size_proof_loc .sync blob3 blob3_len 2049 0 (by decide) [2] (by decide) (by decide) honest3
    toy_cf_honest toy_done

private theorem toy_cf_wrong : CollisionFreeOn toy32 (fun x => x ∈ trueEvals toy32 blob3 ∨
    x ∈ runEvals toy32 .fsm (Spec.root toy32 blob3) ⟨2050, 0⟩ [2] (honest3 ++ [5])) :=
  collisionFreeOn_append (by decide +kernel)

example : ∃ e, (decodeAll toy32 .fsm (Spec.root toy32 blob3) ⟨2050, 0⟩ [2]
    (honest3 ++ [5])).terminal = .err e :=
  wrong_size_rejected_loc .fsm blob3 blob3_len 2050 0 (by decide)
    (by rw [blob3_length]; decide) [2] (by decide) (by decide) (honest3 ++ [5]) toy_cf_wrong

/-! ### (c) collision extraction: the constant hash accepts a wrong size -/

private def unitHash : HashFns Unit where
  chunkCv _ _ _ := ()
  parentCv _ _ _ := ()
  ofBytes _ := ()
  toBytes _ := List.replicate 32 0

private theorem unit_done :
    (decodeAll unitHash .sync (Spec.root unitHash [1]) ⟨2, 0⟩ [0] [2, 3]).terminal = .done := by
  decide +kernel

example : ∃ x y,
    x ∈ trueEvals unitHash [1] ++ runEvals unitHash .sync (Spec.root unitHash [1]) ⟨2, 0⟩ [0] [2, 3] ∧
    y ∈ trueEvals unitHash [1] ++ runEvals unitHash .sync (Spec.root unitHash [1]) ⟨2, 0⟩ [0] [2, 3] ∧
    x ≠ y ∧ unitHash.eval x = unitHash.eval y :=
  size_collision_extraction .sync [1] (by decide) 2 0 (by decide) (by decide) [0] (by decide)
    (by decide) [2, 3] unit_done

example : ∃ x y, findCollision unitHash
      (trueEvals unitHash [1] ++ runEvals unitHash .sync (Spec.root unitHash [1]) ⟨2, 0⟩ [0] [2, 3]) =
      some (x, y) ∧
    x ∈ trueEvals unitHash [1] ++ runEvals unitHash .sync (Spec.root unitHash [1]) ⟨2, 0⟩ [0] [2, 3] ∧
    y ∈ trueEvals unitHash [1] ++ runEvals unitHash .sync (Spec.root unitHash [1]) ⟨2, 0⟩ [0] [2, 3] ∧
    x ≠ y ∧ unitHash.eval x = unitHash.eval y :=
  size_collision_search .sync [1] (by decide) 2 0 (by decide) (by decide) [0] (by decide)
    (by decide) [2, 3] unit_done

/-- the collision that the search computes: the true chunk against the forged, longer one -/
example : findCollision unitHash
    (trueEvals unitHash [1] ++ runEvals unitHash .sync (Spec.root unitHash [1]) ⟨2, 0⟩ [0] [2, 3]) =
    some (.chunk 0 [1] true, .chunk 0 [2, 3] true) := by decide +kernel

end

/-
## Status (C16, local collision freedom)

All theorems depend on the axioms `propext`, `Classical.choice`, `Quot.sound` only.

PROVED (full strength: every claimed size `≤ 2^63`, every block size, every well-formed query that
selects the last claimed chunk, every stream, both flavours):
* `size_proof_loc`            – `size_proof` with `CollisionFree hf` replaced by
                                `CollisionFreeOn hf (· ∈ trueEvals hf d ∨ · ∈ runEvals …)`
* `wrong_size_rejected_loc`   – wrong claimed size ⇒ `.err e` (under the same local hypothesis)
* `size_collision_extraction` – no hash hypothesis: `done` under a wrong size ⇒ two different
                                inputs with equal hash inside `trueEvals hf d ++ runEvals …`
* `size_collision_search`     – `findCollision` on that list returns such a pair
(`no_panic` of `Props/C16.lean` never needed a hash hypothesis.)

PARTIAL: none.   OPEN: none.

Non-vacuity: (a) `termHash` (global ⇒ local); (b) `toy32`, which HAS the wire round trip
(`toy32_rt`, `toy32_len`) and is NOT globally collision free (`toy32_not_cf`): honest decode of a
3-chunk blob ends `done` and all hypotheses of `size_proof_loc` hold, `CollisionFreeOn` by
`decide +kernel`; (c) the constant hash accepts claimed size 2 for a 1-byte blob, and the extracted
collision is `chunk 0 [1] true` vs `chunk 0 [2, 3] true`.
-/

end Bao.C16
