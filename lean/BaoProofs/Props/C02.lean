import BaoProofs.Lemmas.DecodeSpec

/-!
# C02 — honest encodings decode completely, exactly and only the selected chunks

"The honest stream is accepted by a decoder given the same root, size, block size and query; it
finishes without error and consumes exactly the bytes of the stream; it delivers exactly the
selected chunks, each once, in increasing offset order, with the blob's bytes at the right
offsets; an empty query encodes to nothing and decodes to nothing."

The honest stream is `Spec.encode hf d bs q`, the concatenation of the bytes of the specification
items `Spec.items hf d bs q` (`BaoModel/Spec.lean`).  The decoder is the model's `decodeAll`
(`sync::DecodeResponseIter` / `fsm::ResponseDecoder`, either flavour), which walks the lazily
produced response plan of the *canonicalised* query (`truncate_ranges`).

Method (`Lemmas/DecRunL.lean`, `QueryCanon.lean`, `ItemsEq.lean`, `DecodeBridge.lean`,
`DecodeSpec.lean`): the decoder run is a machine `runL` over the recursive plan
`PlanPre.plan ⟨size, 0⟩ bs (truncate q)`; plan and `Spec.items` are two recursions over the same tree
that take the same branch at every node because the sub-queries stay canonical (`QInv`): "is_all"
⇔ "every chunk selected", "non-empty" ⇔ "some chunk selected".  On the honest stream the hash stack
holds the `Spec.cv` of the pending intervals and every comparison succeeds by `cv_split`.
No collision-freedom is needed.

Hypotheses: `hrt`/`hlen` (a hash is its 32 bytes on the wire), a lawful `==` on hashes,
`d.length ≤ 2^63`, a well-formed query.  `bs ≤ 10` is NOT needed.
-/

namespace Bao.C02
open Bao Bao.Spec Bao.DecodeSpec Bao.PlanPre

variable {H : Type} {hf : HashFns H}

/-! ## the bridge between the response plan and the specification -/

/-- **plan ↔ items**: the response plan of `(⟨d.length, bs⟩, truncate q)` and `Spec.items hf d bs q`
have the same length, and item by item (`DecodeSpec.Match`): a plan item `.parent node …`
corresponds to `.parent node (Spec.pairBytes hf d node)`; a plan item `.leaf start size …` to
`.leaf start bytes` with `bytes.length = size` and `bytes = (d.drop (start·1024)).take size` -/
theorem plan_items (hf : HashFns H) (d : List UInt8) (bs : Nat) (q : Ranges)
    (hd : d.length ≤ 2 ^ 63) (hwf : Ranges.WF q = true) :
    Skel (Match hf d) (plan ⟨d.length, 0⟩ bs (Ranges.truncate q d.length)) (Spec.items hf d bs q) ∧
    Tree.responseChunks ⟨d.length, bs⟩ (Ranges.truncate q d.length)
      = some ((plan ⟨d.length, 0⟩ bs (Ranges.truncate q d.length)).map Chunk.withoutRanges) :=
  ⟨DecodeSpec.plan_items hf d bs q hd hwf, response_refines d.length bs _ hd⟩

/-- the same, index by index -/
theorem plan_items_index (hf : HashFns H) (d : List UInt8) (bs : Nat) (q : Ranges)
    (hd : d.length ≤ 2 ^ 63) (hwf : Ranges.WF q = true) :
    (plan ⟨d.length, 0⟩ bs (Ranges.truncate q d.length)).length = (Spec.items hf d bs q).length ∧
    ∀ (i : Nat) (c : Chunk) (it : SItem), (plan ⟨d.length, 0⟩ bs (Ranges.truncate q d.length))[i]? = some c →
      (Spec.items hf d bs q)[i]? = some it → Match hf d c it :=
  ⟨(DecodeSpec.plan_items hf d bs q hd hwf).length_eq,
   fun _ _ _ hc hi => (DecodeSpec.plan_items hf d bs q hd hwf).getElem? hc hi⟩

/-! ## round trip -/

variable [BEq H] [LawfulBEq H]

/-- **round trip**: decoding the honest stream with the same root, size, block size and query
returns exactly the specification items (`toItem`: a parent with the pair parsed from its bytes, a
leaf with its byte offset and bytes), ends `done`, and leaves nothing unread -/
theorem roundtrip (hrt : ∀ h, hf.ofBytes (hf.toBytes h) = h)
    (hlen : ∀ h, (hf.toBytes h).length = 32) (fl : Flavour) (d : List UInt8) (bs : Nat)
    (q : Ranges) (hd : d.length ≤ 2 ^ 63) (hwf : Ranges.WF q = true) :
    decodeAll hf fl (Spec.root hf d) ⟨d.length, bs⟩ q (Spec.encode hf d bs q)
      = ⟨(Spec.items hf d bs q).map (toItem hf), .done, []⟩ := by
  have := decode_honest hrt hlen fl d bs q hd hwf []
  rwa [List.append_nil] at this

omit [BEq H] [LawfulBEq H] in
/-- the pair a parent item carries is the true pair of its node: `Spec.pair` of the node's
coordinates -/
theorem parent_items_true (hrt : ∀ h, hf.ofBytes (hf.toBytes h) = h)
    (hlen : ∀ h, (hf.toBytes h).length = 32) (d : List UInt8) (bs : Nat) (q : Ranges)
    (hd : d.length ≤ 2 ^ 63) (hwf : Ranges.WF q = true) {node : Nat} {bytes : List UInt8}
    (h : SItem.parent node bytes ∈ Spec.items hf d bs q) :
    toItem hf (.parent node bytes) = .parent node
      (Spec.pair hf d (indexOf node) (levelOf node)).1
      (Spec.pair hf d (indexOf node) (levelOf node)).2 := by
  obtain ⟨c, -, hm⟩ := (DecodeSpec.plan_items hf d bs q hd hwf).mem_right h
  cases c with
  | leaf s z ir rs => simp [Match] at hm
  | parent n ir l r rs =>
    simp only [Match] at hm
    obtain ⟨rfl, rfl⟩ := hm
    simp only [toItem, pairBytes, parsePair_pair hrt hlen]

/-- **bytes after the encoding are left untouched** -/
theorem trailing (hrt : ∀ h, hf.ofBytes (hf.toBytes h) = h)
    (hlen : ∀ h, (hf.toBytes h).length = 32) (fl : Flavour) (d : List UInt8) (bs : Nat)
    (q : Ranges) (hd : d.length ≤ 2 ^ 63) (hwf : Ranges.WF q = true) (x : List UInt8) :
    decodeAll hf fl (Spec.root hf d) ⟨d.length, bs⟩ q (Spec.encode hf d bs q ++ x)
      = ⟨(Spec.items hf d bs q).map (toItem hf), .done, x⟩ :=
  decode_honest hrt hlen fl d bs q hd hwf x

/-- **exactly and only the selected chunks, each once, in increasing order, with the blob's
bytes**: with `its` the items of the decode of the honest stream and `itemSpans its` the chunk spans
`[off/1024, off/1024 + max 1 ⌈len/1024⌉)` of its leaf items, in order:
a chunk is selected iff it lies in a span; the spans are non-empty, pairwise disjoint and increasing
(so every selected chunk is delivered exactly once); every leaf carries the blob's bytes at its
(chunk-aligned) offset -/
theorem delivered_exactly_selected (hrt : ∀ h, hf.ofBytes (hf.toBytes h) = h)
    (hlen : ∀ h, (hf.toBytes h).length = 32) (fl : Flavour) (d : List UInt8) (bs : Nat)
    (q : Ranges) (hd : d.length ≤ 2 ^ 63) (hwf : Ranges.WF q = true) :
    let its := (decodeAll hf fl (Spec.root hf d) ⟨d.length, bs⟩ q (Spec.encode hf d bs q)).items
    (∀ c, Spec.selected d.length q c = true ↔ ∃ a ∈ itemSpans its, a.1 ≤ c ∧ c < a.2) ∧
    (∀ a ∈ itemSpans its, a.1 < a.2) ∧
    (itemSpans its).Pairwise (fun a b => a.2 ≤ b.1) ∧
    (itemSpans its).Pairwise (fun a b => a.1 < b.1) ∧
    (∀ off bytes, Item.leaf off bytes ∈ its →
      off % 1024 = 0 ∧ off + bytes.length ≤ d.length ∧ bytes = (d.drop off).take bytes.length) := by
  rw [roundtrip hrt hlen fl d bs q hd hwf]
  exact delivered_spec hf d bs q hd hwf

omit [LawfulBEq H] in
/-- **an empty query encodes to nothing and decodes to nothing** (whatever follows in the stream
is not touched) -/
theorem empty_query (fl : Flavour) (d : List UInt8) (bs : Nat) (hd : d.length ≤ 2 ^ 63)
    (x : List UInt8) :
    Spec.encode hf d bs [] = [] ∧
    decodeAll hf fl (Spec.root hf d) ⟨d.length, bs⟩ [] x = ⟨[], .done, x⟩ := by
  refine ⟨(items_empty_query hf d bs hd).2, ?_⟩
  rw [decodeAll_eq_runL hf fl _ _ _ _ _ hd, DecSim.truncate_nil, plan_nil]
  rfl

/-! ## non-vacuity: a toy hash with a 32-byte wire format, a 3000-byte blob -/

/-- a toy hash with 32-byte representation and round trip -/
private def toy : HashFns UInt8 where
  chunkCv := fun c b r => b.foldl (· + ·) (UInt8.ofNat c + if r then 1 else 0)
  parentCv := fun l r f => l + 2 * r + if f then 1 else 0
  ofBytes := fun b => b.headD 0
  toBytes := fun h => List.replicate 32 h

private theorem toy_len : ∀ h, (toy.toBytes h).length = 32 := fun _ => List.length_replicate ..
private theorem toy_rt : ∀ h, toy.ofBytes (toy.toBytes h) = h := fun _ => rfl
private def blob : List UInt8 := List.replicate 3000 7
private theorem blob_size : blob.length ≤ 2 ^ 63 := by
  simp only [blob, List.length_replicate]; decide

example : Skel (Match toy blob) (plan ⟨blob.length, 0⟩ 1 (Ranges.truncate [1, 2] blob.length))
    (Spec.items toy blob 1 [1, 2]) :=
  (plan_items toy blob 1 [1, 2] blob_size (by decide)).1

example : (plan ⟨blob.length, 0⟩ 1 (Ranges.truncate [1, 2] blob.length)).length
    = (Spec.items toy blob 1 [1, 2]).length :=
  (plan_items_index toy blob 1 [1, 2] blob_size (by decide)).1

example : decodeAll toy .fsm (Spec.root toy blob) ⟨blob.length, 1⟩ [1, 2] (Spec.encode toy blob 1 [1, 2])
    = ⟨(Spec.items toy blob 1 [1, 2]).map (toItem toy), .done, []⟩ :=
  roundtrip toy_rt toy_len .fsm blob 1 [1, 2] blob_size (by decide)

example (node : Nat) (bytes : List UInt8) (h : SItem.parent node bytes ∈ Spec.items toy blob 1 [1, 2]) :
    toItem toy (.parent node bytes) = .parent node
      (Spec.pair toy blob (indexOf node) (levelOf node)).1
      (Spec.pair toy blob (indexOf node) (levelOf node)).2 :=
  parent_items_true toy_rt toy_len blob 1 [1, 2] blob_size (by decide) h

example : decodeAll toy .sync (Spec.root toy blob) ⟨blob.length, 0⟩ [2]
      (Spec.encode toy blob 0 [2] ++ [1, 2, 3])
    = ⟨(Spec.items toy blob 0 [2]).map (toItem toy), .done, [1, 2, 3]⟩ :=
  trailing toy_rt toy_len .sync blob 0 [2] blob_size (by decide) [1, 2, 3]

example (c : Nat) : Spec.selected blob.length [1, 2] c = true ↔
    ∃ a ∈ itemSpans (decodeAll toy .sync (Spec.root toy blob) ⟨blob.length, 1⟩ [1, 2]
      (Spec.encode toy blob 1 [1, 2])).items, a.1 ≤ c ∧ c < a.2 :=
  (delivered_exactly_selected toy_rt toy_len .sync blob 1 [1, 2] blob_size (by decide)).1 c

example : Spec.encode toy blob 2 [] = [] ∧
    decodeAll toy .sync (Spec.root toy blob) ⟨blob.length, 2⟩ [] [9] = ⟨[], .done, [9]⟩ :=
  empty_query .sync blob 2 blob_size [9]

/-
## Status (C02)

All theorems depend on the axioms `propext`, `Classical.choice`, `Quot.sound` only.

Proved (full strength; every `bs`, both flavours, every well-formed query, `d.length ≤ 2^63`):
  plan_items, plan_items_index   (the bridge: response plan ↔ `Spec.items`, same skeleton),
  roundtrip                      (items = `Spec.items` mapped by `toItem`, `done`, nothing unread),
  parent_items_true              (the pair of a parent item is `Spec.pair` of its node),
  trailing                       (`Spec.encode … ++ x` leaves exactly `x`; subsumes the derivation
                                  from `C20.decode_trailing`),
  delivered_exactly_selected     (spans of the leaf items = selected chunks, non-empty, disjoint,
                                  increasing; bytes = the blob's bytes at the offset),
  empty_query                    (no hypotheses on the hash at all).
Partial: none.   OPEN: none.

Remarks.
* `bs ≤ 10` is not needed: the response plan runs on the block-size-0 tree.
* No collision-freedom is used (it could not be: together with `hrt`/`hlen` it is unsatisfiable,
  `Lemmas/CFUnsat.lean`).
* The converse of `C14.splitInner_left_all` / `_right_all` (left OPEN there) is
  `DecodeSpec.QInv.all_of_selected` (`Lemmas/QueryCanon.lean`).
* Model: nothing suspicious.  `Spec.items` starts at height `log2ceil 64 n`, the plan at the root of
  the shifted tree; they differ for a one-chunk blob (height 0 vs. level-0 node) — handled in
  `DecodeSpec.items_top`.
-/

end Bao.C02
