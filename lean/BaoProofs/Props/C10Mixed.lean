import BaoProofs.Lemmas.MixedFaultL
import BaoProofs.Props.C04

/-!
# C10 (item-stream traversal `mixed::traverse_ranges_validated`): io and sender failures

"If the k-th operation on any underlying reader, writer, data source or outboard fails, the public
operation using it reports that failure [...] - never a panic, success or hash mismatch, and it
performs no further operation on the failed object.  Whatever was emitted or stored before the
failure is a prefix of what the fault-free run emits or stores."

For `traverse_ranges_validated(data, outboard, ranges, send)` "reports" means: a failing
`read_bytes_at` / `load` is turned into the LAST item `Error(io error)` (the function itself returns
`Ok(())`); a failing `send` makes the function return `Err(send error)` at once, nothing more is sent.

The fault-aware model function is `traverseRangesValidatedF hf data ob q fault`
(`BaoModel/FaultMixed.lean`): `fault = some ⟨obj, k, kind⟩`: the `k`-th call (0-based) on
`obj : MObj` (`.data`: `read_bytes_at`, `.ob`: `load`, `.s`: `send`) fails (data / outboard: with the io
error `⟨kind, true⟩`).  It returns the log of the io calls made (`List (MEv H)`: `.readAt off size`,
`.load node`, `.send item`; a failing call is logged) and the terminal `MixEnd` (`ok`: `Done` was
sent; `errItem e`: `Error(e)` was sent; `sendErr`: a `send` failed; `panic`).

Vocabulary (`BaoProofs/Lemmas/MixedFaultL.lean`, `BaoModel/FaultMixed.lean`):
* `MEv.obj e : MObj` – the object call `e` is made on; `MEv.sends log` – the items of the `send`
  calls of a log; `deliveredOf run` – the items the receiver gets (the sends of the log, minus the
  last one when the run ends `sendErr`);
* `cutRun obj kind pre e` – the run cut after the calls `pre ++ [e]` (`e` the failing call):
  `obj = .s`: `(pre ++ [e], sendErr)`; otherwise
  `(pre ++ [e, send (Error (io ⟨kind, true⟩))], errItem (io ⟨kind, true⟩))`;
* `replay fault log nd no ns`, `finish r t0` – replay of a log against a fault (counters = calls made
  so far on data / outboard / sender) and what the function makes of it (`mixedF_counters`).

All statements are for every hash instance `hf`, data, store, query and fault.
-/

namespace Bao.C10Mixed

open Bao Bao.MixedFaultL

variable {H : Type}

/-! ## examples: a 1500-byte blob (two chunks, one parent) under a hash that accepts everything -/

/-- a hash instance under which every outboard is valid (all hashes are 0) -/
def triv : HashFns Nat := ⟨fun _ _ _ => 0, fun _ _ _ => 0, fun _ => 0, fun _ => List.replicate 32 7⟩

def exData : List UInt8 := List.replicate 1500 1

/-- a zero-filled in-memory pre-order outboard for a 1500-byte blob at block size 0 -/
def exOb : Store Nat := ⟨.preMem, 0, ⟨1500, 0⟩, List.replicate 64 0⟩

/-- the log (io calls) of the fault-free run -/
def mixedLog (hf : HashFns H) [BEq H] (data : List UInt8) (ob : Store H) (q : Ranges) :
    List (MEv H) :=
  (traverseRangesValidatedF hf data ob q none).1

/-- the fault-free run of the example: Size, load / send the root pair, read / send each chunk, Done -/
example : traverseRangesValidatedF triv exData exOb [0] none =
    ([.send (.size 1500), .load 0, .send (.parent 0 0 0), .readAt 0 1024,
      .send (.leaf 0 (List.replicate 1024 1)), .readAt 1024 476,
      .send (.leaf 1024 (List.replicate 476 1)), .send .done], .ok) := by
  decide +kernel

/-- the decomposition of a log at the `k`-th call on `obj` (as in `mixedF_cut`) is unique -/
theorem mixedF_cut_unique (obj : MObj) (k : Nat) (log pre pre' post post' : List (MEv H))
    (e e' : MEv H)
    (h : log = pre ++ e :: post) (he : e.obj = obj) (hc : (pre.map MEv.obj).count obj = k)
    (h' : log = pre' ++ e' :: post') (he' : e'.obj = obj)
    (hc' : (pre'.map MEv.obj).count obj = k) :
    pre = pre' ∧ e = e' ∧ post = post' :=
  decomp_unique obj k log pre pre' post post' e e' h he ((ncalls_eq_count obj pre).trans hc)
    h' he' ((ncalls_eq_count obj pre').trans hc')

example : ([MEv.send (.size 3), .load 1, .send .done] : List (MEv Nat)) =
      [.send (.size 3), .load 1] ++ .send .done :: [] ∧
    (MEv.send .done : MEv Nat).obj = .s ∧
    (([MEv.send (.size 3), .load 1] : List (MEv Nat)).map MEv.obj).count .s = 1 := by decide

/-! ## no fault -/

/-- with no fault the twin is the fault-free model `traverseRangesValidated`: the items sent are its
items, the run ends `ok` when the last item is `Done` and `errItem e` when it is `Error(e)`; it
panics exactly when the fault-free model does.  No `send` fails: all items are delivered. -/
theorem mixedF_none (hf : HashFns H) [BEq H] (data : List UInt8) (ob : Store H) (q : Ranges) :
    match traverseRangesValidated hf data ob q with
    | some items =>
      MEv.sends (traverseRangesValidatedF hf data ob q none).1 = items ∧
      deliveredOf (traverseRangesValidatedF hf data ob q none) = items ∧
      (((traverseRangesValidatedF hf data ob q none).2 = .ok ∧ items.getLast? = some .done) ∨
        ∃ e, (traverseRangesValidatedF hf data ob q none).2 = .errItem e ∧
          items.getLast? = some (.error e))
    | none => (traverseRangesValidatedF hf data ob q none).2 = .panic := by
  have h := top_none hf data ob q
  cases ht : traverseRangesValidated hf data ob q with
  | none => rw [ht] at h; exact h
  | some items =>
    rw [ht] at h
    obtain ⟨h1, h2⟩ := h
    refine ⟨h1, ?_, h2⟩
    rcases h2 with ⟨h2, -⟩ | ⟨e, h2, -⟩ <;> simp only [deliveredOf, h2, h1]

/-- … hence the items sent flatten to the bytes the (sync) validating byte encoder writes -/
theorem mixedF_none_bytes (hf : HashFns H) [BEq H] (data : List UInt8) (ob : Store H) (q : Ranges)
    (h : (traverseRangesValidatedF hf data ob q none).2 ≠ .panic) :
    (MEv.sends (mixedLog hf data ob q)).flatMap (EncodedItem.flatten hf) =
      (encodeRangesValidated hf .sync data ob q).out := by
  have h0 := mixedF_none hf data ob q
  cases ht : traverseRangesValidated hf data ob q with
  | none => rw [ht] at h0; exact absurd h0 h
  | some items =>
    rw [ht] at h0
    obtain ⟨-, -, -, -, -, -, hfl⟩ := C08.mixed_flatten hf data ob q items ht
    unfold mixedLog
    rw [h0.1, hfl]

example : (traverseRangesValidatedF triv exData exOb [0] none).2 ≠ .panic := by decide +kernel

/-! ## a fault -/

/-- every run - faulty or not - is the replay of the fault-free log against the fault, counters
(calls made so far on data / outboard / sender) starting at 0: the first call whose counter is hit
fails; a `send`: the run ends there with `sendErr`; a `read_bytes_at` / `load`: one more call
`send(Error(io e))` follows and the run ends `errItem (io e)`; no call hit: the fault-free run -/
theorem mixedF_counters (hf : HashFns H) [BEq H] (data : List UInt8) (ob : Store H) (q : Ranges)
    (fault : Option MFault) :
    traverseRangesValidatedF hf data ob q fault =
      finish (replay fault (mixedLog hf data ob q) 0 0 0)
        (traverseRangesValidatedF hf data ob q none).2 :=
  top_replay ..

/-- the fault is reached (the fault-free log has a `(k+1)`-th call on `obj`): the fault-free log
splits as `pre ++ e :: post`, `e` the `k`-th call on `obj`, and the faulty run is the fault-free run
cut right after `e`: sender fault: exactly the calls `pre ++ [e]`, terminal `sendErr`; data / outboard
fault: exactly the calls `pre ++ [e]` and then the final `send(Error(io ⟨kind, true⟩))`, terminal
`errItem (io ⟨kind, true⟩)` -/
theorem mixedF_cut (hf : HashFns H) [BEq H] (data : List UInt8) (ob : Store H) (q : Ranges)
    (obj : MObj) (k : Nat) (kind : IoKind)
    (hk : k < ((mixedLog hf data ob q).map MEv.obj).count obj) :
    ∃ pre e post, mixedLog hf data ob q = pre ++ e :: post ∧ e.obj = obj ∧
      (pre.map MEv.obj).count obj = k ∧
      traverseRangesValidatedF hf data ob q (some ⟨obj, k, kind⟩) =
        match obj with
        | .s => (pre ++ [e], .sendErr)
        | _ => (pre ++ [e, .send (.error (.io ⟨kind, true⟩))], .errItem (.io ⟨kind, true⟩)) := by
  obtain ⟨pre, e, post, h1, h2, h3, h4⟩ :=
    gen_cut _ (top_replay hf data ob q) obj k kind (by rw [ncalls_eq_count]; exact hk)
  refine ⟨pre, e, post, h1, h2, by rw [← ncalls_eq_count]; exact h3, ?_⟩
  rw [h4]
  cases obj <;> rfl

example : (1 : Nat) < ((mixedLog triv exData exOb [0]).map MEv.obj).count .data ∧
    (2 : Nat) < ((mixedLog triv exData exOb [0]).map MEv.obj).count .s := by decide +kernel

/-- the example: the second read fails: Size, P0, L0 were sent, then the error item -/
example : traverseRangesValidatedF triv exData exOb [0] (some ⟨.data, 1, .other⟩) =
    ([.send (.size 1500), .load 0, .send (.parent 0 0 0), .readAt 0 1024,
      .send (.leaf 0 (List.replicate 1024 1)), .readAt 1024 476,
      .send (.error (.io ⟨.other, true⟩))], .errItem (.io ⟨.other, true⟩)) := by
  decide +kernel

/-- the example: the third send (the first leaf) fails: nothing more is called -/
example : traverseRangesValidatedF triv exData exOb [0] (some ⟨.s, 2, .other⟩) =
    ([.send (.size 1500), .load 0, .send (.parent 0 0 0), .readAt 0 1024,
      .send (.leaf 0 (List.replicate 1024 1))], .sendErr) := by
  decide +kernel

/-- the fault is not reached (the fault-free log has at most `k` calls on `obj`): same run -/
theorem mixedF_unreached (hf : HashFns H) [BEq H] (data : List UInt8) (ob : Store H) (q : Ranges)
    (obj : MObj) (k : Nat) (kind : IoKind)
    (hk : ((mixedLog hf data ob q).map MEv.obj).count obj ≤ k) :
    traverseRangesValidatedF hf data ob q (some ⟨obj, k, kind⟩) =
      traverseRangesValidatedF hf data ob q none :=
  gen_unreached _ (top_replay hf data ob q) obj k kind (by rw [ncalls_eq_count]; exact hk)

example : ((mixedLog triv exData exOb [0]).map MEv.obj).count .ob ≤ 1 ∧
    ((mixedLog triv exData exOb [0]).map MEv.obj).count .s ≤ 5 := by decide +kernel

/-- a reached fault is reported: a data / outboard fault as the last item `Error(io injected-error)`,
a sender fault as `Err(send error)` -/
theorem mixedF_terminal (hf : HashFns H) [BEq H] (data : List UInt8) (ob : Store H) (q : Ranges)
    (obj : MObj) (k : Nat) (kind : IoKind)
    (hk : k < ((mixedLog hf data ob q).map MEv.obj).count obj) :
    (traverseRangesValidatedF hf data ob q (some ⟨obj, k, kind⟩)).2 =
      match obj with
      | .s => .sendErr
      | _ => .errItem (.io ⟨kind, true⟩) := by
  obtain ⟨pre, e, post, -, -, -, h⟩ := mixedF_cut hf data ob q obj k kind hk
  rw [h]
  cases obj <;> rfl

/-- a reached fault never ends `ok`, never panics, and is never reported as a hash mismatch -/
theorem mixedF_never_ok (hf : HashFns H) [BEq H] (data : List UInt8) (ob : Store H) (q : Ranges)
    (obj : MObj) (k : Nat) (kind : IoKind)
    (hk : k < ((mixedLog hf data ob q).map MEv.obj).count obj) :
    (traverseRangesValidatedF hf data ob q (some ⟨obj, k, kind⟩)).2 ≠ .ok ∧
    (traverseRangesValidatedF hf data ob q (some ⟨obj, k, kind⟩)).2 ≠ .panic ∧
    ∀ n, (traverseRangesValidatedF hf data ob q (some ⟨obj, k, kind⟩)).2 ≠
        .errItem (.parentHashMismatch n) ∧
      (traverseRangesValidatedF hf data ob q (some ⟨obj, k, kind⟩)).2 ≠
        .errItem (.leafHashMismatch n) := by
  rw [mixedF_terminal hf data ob q obj k kind hk]
  cases obj <;> simp

/-- a reached fault: the failing call is the last call on the failed object (`k + 1` calls on it in
all); the only later call is - data / outboard fault - the final `send` -/
theorem mixedF_no_further_call (hf : HashFns H) [BEq H] (data : List UInt8) (ob : Store H)
    (q : Ranges) (obj : MObj) (k : Nat) (kind : IoKind)
    (hk : k < ((mixedLog hf data ob q).map MEv.obj).count obj) :
    (((traverseRangesValidatedF hf data ob q (some ⟨obj, k, kind⟩)).1).map MEv.obj).count obj =
      k + 1 := by
  obtain ⟨pre, e, post, -, h2, h3, h4⟩ := mixedF_cut hf data ob q obj k kind hk
  rw [h4]
  have hs : ∀ it : EncodedItem H, (MEv.send it).obj = .s := fun _ => rfl
  cases obj <;> simp [List.count_append, h3, h2, hs]

/-- for every fault: the calls made are a prefix of the fault-free calls, followed - when a data /
outboard fault was reached - by the call `send(Error(io injected-error))`; the items delivered are a
prefix of the fault-free items, followed - in the same case - by the item `Error(io injected-error)` -/
theorem mixedF_prefix (hf : HashFns H) [BEq H] (data : List UInt8) (ob : Store H) (q : Ranges)
    (fault : Option MFault) :
    (∃ pre, pre <+: mixedLog hf data ob q ∧
      ((traverseRangesValidatedF hf data ob q fault).1 = pre ∨
        ∃ kind, (traverseRangesValidatedF hf data ob q fault).1 =
          pre ++ [.send (.error (.io ⟨kind, true⟩))])) ∧
    ∃ pre, pre <+: deliveredOf (traverseRangesValidatedF hf data ob q none) ∧
      (deliveredOf (traverseRangesValidatedF hf data ob q fault) = pre ∨
        ∃ kind, deliveredOf (traverseRangesValidatedF hf data ob q fault) =
          pre ++ [.error (.io ⟨kind, true⟩)]) := by
  rcases gen_dichotomy _ (top_replay hf data ob q) fault with
    ⟨obj, k, kind, pre, e, post, -, h1, h2, -, h4⟩ | h
  · have hd : MEv.sends pre <+: deliveredOf (traverseRangesValidatedF hf data ob q none) := by
      have hs : MEv.sends pre <+: MEv.sends (traverseRangesValidatedF hf data ob q none).1 := by
        rw [h1, sends_append]; exact List.prefix_append _ _
      have hs' : MEv.sends pre <+:
          MEv.sends (traverseRangesValidatedF hf data ob q none).1.dropLast := by
        rw [h1, List.dropLast_append_cons, sends_append]; exact List.prefix_append _ _
      unfold deliveredOf
      cases (traverseRangesValidatedF hf data ob q none).2 <;> first | exact hs | exact hs'
    have hp : pre ++ [e] <+: mixedLog hf data ob q := ⟨post, by unfold mixedLog; rw [h1]; simp⟩
    constructor
    · refine ⟨pre ++ [e], hp, ?_⟩
      rw [h4]
      cases obj with
      | s => exact Or.inl rfl
      | data => exact Or.inr ⟨kind, by simp [cutRun]⟩
      | ob => exact Or.inr ⟨kind, by simp [cutRun]⟩
    · refine ⟨MEv.sends pre, hd, ?_⟩
      rw [h4, delivered_cutRun obj kind pre e h2]
      cases obj with
      | s => exact Or.inl rfl
      | data => exact Or.inr ⟨kind, rfl⟩
      | ob => exact Or.inr ⟨kind, rfl⟩
  · rw [h]
    exact ⟨⟨_, List.prefix_refl _, Or.inl rfl⟩, _, List.prefix_refl _, Or.inl rfl⟩

/-- … hence the bytes delivered (parents and leaves, flattened) are a prefix of the fault-free ones -/
theorem mixedF_prefix_bytes (hf : HashFns H) [BEq H] (data : List UInt8) (ob : Store H) (q : Ranges)
    (fault : Option MFault) :
    (deliveredOf (traverseRangesValidatedF hf data ob q fault)).flatMap (EncodedItem.flatten hf) <+:
      (deliveredOf (traverseRangesValidatedF hf data ob q none)).flatMap (EncodedItem.flatten hf) := by
  obtain ⟨-, pre, ⟨rest, hp⟩, h | ⟨kind, h⟩⟩ := mixedF_prefix hf data ob q fault
  · rw [h, ← hp, List.flatMap_append]; exact List.prefix_append _ _
  · rw [h, ← hp, List.flatMap_append, List.flatMap_append]
    simp [EncodedItem.flatten]

/-- no fault turns into a panic -/
theorem mixedF_no_panic_of (hf : HashFns H) [BEq H] (data : List UInt8) (ob : Store H) (q : Ranges)
    (fault : Option MFault) (h : (traverseRangesValidatedF hf data ob q none).2 ≠ .panic) :
    (traverseRangesValidatedF hf data ob q fault).2 ≠ .panic := by
  rcases gen_dichotomy _ (top_replay hf data ob q) fault with
    ⟨obj, k, kind, pre, e, post, -, -, -, -, h4⟩ | h'
  · rw [h4, cutRun_terminal]
    cases obj <;> simp
  · rw [h']; exact h

example : (traverseRangesValidatedF triv exData exOb [0] none).2 ≠ .panic := by decide +kernel

section intact
variable {hf : HashFns H} [BEq H] [LawfulBEq H] {d : List UInt8} {bs : Nat} {st : Store H}

/-- on the intact store of a blob of at most `2^63` bytes at block size `bs ≤ 10` (memory or io
backed, pre- or post-order) the fault-free run ends `ok` … -/
theorem mixedF_intact_ok (hlen : ∀ h, (hf.toBytes h).length = 32)
    (hrt : ∀ h, hf.ofBytes (hf.toBytes h) = h) (hs : d.length ≤ 2 ^ 63) (hbs : bs ≤ 10)
    (htree : st.tree = ⟨d.length, bs⟩) (hroot : st.root = Spec.root hf d)
    (hdata : ((st.kind = .preIo ∨ st.kind = .preMem) ∧ st.data = Spec.preOutboard hf d bs) ∨
             ((st.kind = .postIo ∨ st.kind = .postMem) ∧ st.data = Spec.postOutboard hf d bs))
    {q : Ranges} (hwf : Ranges.WF q = true) :
    (traverseRangesValidatedF hf d st q none).2 = .ok := by
  obtain ⟨items, h1, -, h3⟩ := C04.mixed_is_spec hlen hrt hs hbs htree hroot hdata hwf
  have h := mixedF_none hf d st q
  rw [h1] at h
  obtain ⟨-, -, ⟨h, -⟩ | ⟨e, -, h⟩⟩ := h
  · exact h
  · rw [h3] at h; cases h

/-- … and no fault makes it panic: it ends `ok`, `sendErr` or with the item `Error(io injected)` -/
theorem mixedF_no_panic (hlen : ∀ h, (hf.toBytes h).length = 32)
    (hrt : ∀ h, hf.ofBytes (hf.toBytes h) = h) (hs : d.length ≤ 2 ^ 63) (hbs : bs ≤ 10)
    (htree : st.tree = ⟨d.length, bs⟩) (hroot : st.root = Spec.root hf d)
    (hdata : ((st.kind = .preIo ∨ st.kind = .preMem) ∧ st.data = Spec.preOutboard hf d bs) ∨
             ((st.kind = .postIo ∨ st.kind = .postMem) ∧ st.data = Spec.postOutboard hf d bs))
    {q : Ranges} (hwf : Ranges.WF q = true) (fault : Option MFault) :
    (traverseRangesValidatedF hf d st q fault).2 ≠ .panic ∧
    ((traverseRangesValidatedF hf d st q fault).2 = .ok ∨
      (traverseRangesValidatedF hf d st q fault).2 = .sendErr ∨
      ∃ kind, (traverseRangesValidatedF hf d st q fault).2 = .errItem (.io ⟨kind, true⟩)) := by
  have h0 := mixedF_intact_ok hlen hrt hs hbs htree hroot hdata hwf
  refine ⟨mixedF_no_panic_of hf d st q fault (by rw [h0]; simp), ?_⟩
  rcases gen_dichotomy _ (top_replay hf d st q) fault with
    ⟨obj, k, kind, pre, e, post, -, -, -, -, h4⟩ | h'
  · rw [h4, cutRun_terminal]
    cases obj
    · exact Or.inr (Or.inr ⟨kind, rfl⟩)
    · exact Or.inr (Or.inr ⟨kind, rfl⟩)
    · exact Or.inr (Or.inl rfl)
  · rw [h', h0]; exact Or.inl rfl

example : (traverseRangesValidatedF C03.toyHash C03.toyBlob C04.toyStore [1, 2] none).2 = .ok :=
  mixedF_intact_ok C03.toy_len C03.toy_rt C03.toy_size (by decide) C04.toyStore_tree
    C04.toyStore_root C04.toyStore_data (by decide)

example : (traverseRangesValidatedF C03.toyHash C03.toyBlob C04.toyStore [1, 2]
    (some ⟨.ob, 0, .other⟩)).2 ≠ .panic :=
  (mixedF_no_panic C03.toy_len C03.toy_rt C03.toy_size (by decide) C04.toyStore_tree
    C04.toyStore_root C04.toyStore_data (by decide) _).1

end intact

/-!
## Status (C10: `mixed::traverse_ranges_validated`)

Axioms (`#print axioms`): `propext`, `Quot.sound` for `mixedF_none`, `mixedF_none_bytes`,
`mixedF_counters`; `propext`, `Classical.choice`, `Quot.sound` for all the others.

PROVED, for every `hf`, data, store, query and fault (`F := traverseRangesValidatedF hf data ob q`,
`mixedLog := (F none).1`):
* `mixedF_cut_unique` – the decomposition `log = pre ++ e :: post` at the `k`-th call on `obj` is unique;
* `mixedF_none` – `F none` sends / delivers exactly the items of `traverseRangesValidated`, ends `ok`
  (last item `Done`) or `errItem e` (last item `Error(e)`), panics iff the fault-free model does;
  `mixedF_none_bytes` – the items flatten to the output of `encodeRangesValidated .sync`;
* `mixedF_counters` – every run is `finish (replay fault mixedLog 0 0 0) (F none).2`;
* `mixedF_cut` – reached fault (`k < count obj (mixedLog.map obj)`): `mixedLog = pre ++ e :: post`, `e` the
  `k`-th call on `obj`; sender: `F fault = (pre ++ [e], sendErr)`; data / outboard:
  `F fault = (pre ++ [e, send (Error (io ⟨kind, true⟩))], errItem (io ⟨kind, true⟩))`;
* `mixedF_unreached` – `count ≤ k`: `F fault = F none`;
* `mixedF_terminal` – reached: sender ⇒ `sendErr`, data / outboard ⇒ `errItem (io ⟨kind, true⟩)`;
* `mixedF_never_ok` – reached: not `ok`, not `panic`, not `errItem (parentHashMismatch _ / leafHashMismatch _)`;
* `mixedF_no_further_call` – reached: exactly `k + 1` calls on the failed object in the faulty log;
* `mixedF_prefix` – any fault: log = a prefix of `mixedLog` (+ the final `send Error(io injected)`),
  delivered items = a prefix of the fault-free items (+ the item `Error(io injected)`);
  `mixedF_prefix_bytes` – the flattened delivered bytes are a prefix of the fault-free ones;
* `mixedF_no_panic_of` – `F none` does not panic ⇒ no `F fault` panics;
  `mixedF_intact_ok`, `mixedF_no_panic` – on the intact store (`d.length ≤ 2^63`, `bs ≤ 10`, 32-byte
  round-tripping hashes, `LawfulBEq`, well-formed query; memory or io backed, pre- or post-order):
  `F none` ends `ok`; every `F fault` ends `ok`, `sendErr` or `errItem (io ⟨kind, true⟩)`, never `panic`.

PARTIAL: none.   OPEN: none.

model remarks (`BaoModel/FaultMixed.lean`):
* `FObj` has no sender, so the objects are `MObj` (`data | ob | s`) and the fault is `MFault` (same fields
  as `Fault`); the `kind` of a sender fault is not observable (`Sender::Error` is opaque: `sendErr`).
* granularity: one call per `read_bytes_at`, `load`, `send`; a zero-length `read_bytes_at` (the single
  leaf of the empty blob) is a call (the harness ticks on it as well).  A leaf whose range set is not
  "all" makes one `send` per item of `traverse_selected_rec`, each of which can fail.
* the final `send(Error(..))` after a data / outboard fault is checked against the fault like every
  other send; with a single fault it cannot be hit (the fault is on another object).
* a call that fails by itself (`load` on a short io backing, a read past the end of the data) or is
  followed by a hash mismatch / a panic (`unwrap` on `None`, empty stack) is logged as a call; a fault
  pointing at it reports the injected error instead (`mixedF_cut`).  A leaf with an empty stack
  panics before any io (`stack.pop().unwrap()` comes first in the Rust code): nothing is logged.
* `#eval`: `MEv.calls (F none).1` equals the `(obj, label)` list of `Ops.opTrace "mixed"` on intact stores
  (real BLAKE3) for blobs of 0, 1, 1500, 5000, 20000, 70000 bytes, block sizes 0-4, all four store
  kinds, empty / full / partial queries (17 cases, all equal).
-/

end Bao.C10Mixed
