import BaoProofs.Lemmas.SpecNodeL

/-!
# The executable specification verdicts of `node`, `nodebs`, `noderp` never reject the model

The correspondence driver judges the implementation's output of `node x` (`Ops.opNode`),
`nodebs x n` (`Ops.opNodeBs`) and `noderp x len` (`Ops.opNodeRp`) by comparing it with ONE string
computed from the `(k, L)` coordinates `Spec.indexOf x`, `Spec.levelOf x` of the id, without calling
any `Bao.Node.*` function of the model (`if impl == spec then none else some …`).  This file proves
that these verdicts accept the model's own output, from the C18 theorems
(`BaoProofs/Props/C18.lean`: every `TreeNode` method of the model equals its `(k, L)` meaning):

1. component level: `node_model` (the thirteen quantities of `node`), `nodebs_model` (two),
   `noderp_model` (the verdict's walk `opNodeRp.up` equals `Node.restrictedParent`);
2. token / string level: `node_tokens`, `node_string`, `nodebs_string`, `noderp_string`;
3. op level: `node_specFail`, `nodebs_specFail`, `noderp_specFail`
   (`(op args (op args impl).model).specFail = none` for all argument strings that parse) and
   `…_no_false_alarm` (arguments rendered with `toString`); `…_accepts_iff`: the verdicts accept
   exactly one output string - the model's;
4. false alarms OUTSIDE the hypotheses (proved as `example`s): `node 18446744073709551615`
   (`x = u64::MAX`), `nodebs 9223372036854775808 1` (`(x+1)·2^n > 2^64`: the model wraps like the
   `u64` code, the verdict's `Spec.nodeOf k (L+n)` does not), `noderp 18446744073709551615 2^66`.

Hypotheses: `x + 1 < 2^64` (`x ≠ u64::MAX`) for `node` and `noderp` (no bound on `len`; or every
`x < 2^64` with `len ≤ 2^64`: `noderp_specFail_u64`); `x < 2^64` and `(x+1)·2^n ≤ 2^64` for `nodebs`.
-/

namespace Bao.SpecNode
open Bao Bao.Ops Bao.Proto
open Bao.Spec (nodeOf startOf endOf midOf levelOf indexOf)

/-! ## 1. `node`: component level -/

/-- every quantity the `node` verdict compares, computed from the model, equals what the verdict
expects (`sLc … sPor` are the `let`s of `Ops.nodeSpecStr`, see `node_spec_is_verdict`) -/
theorem node_model {x : Nat} (hx : x + 1 < 2 ^ 64) :
    Node.level x = levelOf x ∧
    Node.mid x = x + 1 ∧
    Node.isLeaf x = (levelOf x == 0) ∧
    Node.leftChild x
      = (if levelOf x = 0 then none else some (nodeOf (2 * indexOf x) (levelOf x - 1))) ∧
    Node.rightChild x
      = (if levelOf x = 0 then none else some (nodeOf (2 * indexOf x + 1) (levelOf x - 1))) ∧
    Node.parent x
      = (if levelOf x = 63 then none else some (nodeOf (indexOf x / 2) (levelOf x + 1))) ∧
    Node.countBelow x = 2 ^ (levelOf x + 1) - 2 ∧
    Node.nextLeftAncestor x
      = (if indexOf x = 0 then none else some (x + 1 - 2 ^ levelOf x - 1)) ∧
    Node.nodeRange x = (startOf (indexOf x) (levelOf x),
      startOf (indexOf x) (levelOf x) + 2 ^ (levelOf x + 1) - 1) ∧
    Node.chunkRange x = (startOf (indexOf x) (levelOf x), endOf (indexOf x) (levelOf x)) ∧
    Node.rightCount x = Spec.popc 64 (x + 1) - 1 ∧
    Node.postOrderOffset x = (2 ^ (levelOf x + 1) - 2)
      + (startOf (indexOf x) (levelOf x) - Spec.popc 64 (startOf (indexOf x) (levelOf x))) ∧
    Node.postOrderRange x = (sPoo x - sBelow x, sPoo x + 1) := by
  have h : x < 2 ^ 64 := by omega
  exact ⟨level_clause h, mid_clause x, isLeaf_clause h, leftChild_clause h, rightChild_clause h,
    parent_clause hx, countBelow_clause hx, nextLeftAncestor_clause h, nodeRange_clause h,
    chunkRange_clause h, rightCount_clause x, postOrderOffset_clause hx, postOrderRange_clause hx⟩

example : Node.parent 87 = some (nodeOf (indexOf 87 / 2) (levelOf 87 + 1)) := by
  have := (node_model (x := 87) (by decide)).2.2.2.2.2.1
  rw [this]; decide

/-- the named components are literally the `let`s of `Ops.nodeSpecStr`, and the model's output is
the join of the model's thirteen tokens -/
theorem node_spec_is_verdict (x : Nat) :
    nodeSpecStr x = " ".intercalate (specTokens x) ∧
    nodeStr x = " ".intercalate (modelTokens x) := ⟨rfl, rfl⟩

/-- token level: the thirteen tokens the model prints are the thirteen tokens the verdict expects -/
theorem node_tokens {x : Nat} (hx : x + 1 < 2 ^ 64) : modelTokens x = specTokens x :=
  modelTokens_eq hx

example : modelTokens 87 = specTokens 87 := node_tokens (by decide)

/-- string level: the model's output is the string the verdict compares with -/
theorem node_string {x : Nat} (hx : x + 1 < 2 ^ 64) : nodeStr x = nodeSpecStr x := nodeStr_eq hx

example : nodeStr (2 ^ 63 - 1) = nodeSpecStr (2 ^ 63 - 1) := node_string (by decide)

/-! ## 1'. `node`: op level -/

/-- the `node` verdict accepts exactly one output: the spec string -/
theorem node_accepts_iff (a impl : String) (x : Nat) (h : a.toNat? = some x) :
    (opNode [a] impl).specFail = none ↔ impl = nodeSpecStr x := by
  rw [(opNode_eq a impl x h).2]
  by_cases e : impl = nodeSpecStr x
  · simp [e]
  · have : (impl == nodeSpecStr x) = false := by simpa using e
    simp [this, e]

example : (opNode [toString 87] "x").specFail ≠ none := by
  rw [Ne, node_accepts_iff _ _ 87 (SpecIndex.toNat?_toString 87)]
  decide +kernel

/-- the full statement for `opNode`: on the model's own output the verdict is `none`, for every
argument string that parses to an id other than `u64::MAX` -/
theorem node_specFail (a impl : String) (x : Nat) (h : a.toNat? = some x) (hx : x + 1 < 2 ^ 64) :
    (opNode [a] (opNode [a] impl).model).specFail = none := by
  rw [(opNode_eq a impl x h).1, node_accepts_iff a _ x h]
  exact node_string hx

example : (opNode [toString 87] (opNode [toString 87] "").model).specFail = none :=
  node_specFail _ "" 87 (SpecIndex.toNat?_toString 87) (by decide)

/-- `(opNode [x] m).specFail = none` for the model's own output `m` -/
theorem node_no_false_alarm (x : Nat) (impl : String) (hx : x + 1 < 2 ^ 64) :
    (opNode [toString x] (opNode [toString x] impl).model).specFail = none :=
  node_specFail _ impl x (SpecIndex.toNat?_toString x) hx

example : (opNode [toString (2 ^ 62 - 1)] (opNode [toString (2 ^ 62 - 1)] "?").model).specFail
    = none := node_no_false_alarm _ "?" (by decide)

/-- a wrong output is rejected: the model's output with the `count_below` of another level -/
example : (opNode [toString 3]
    "2 4 0 1 5 7 2 - 0:7 0:8 0 6 0:7").specFail ≠ none := by
  rw [Ne, node_accepts_iff _ _ 3 (SpecIndex.toNat?_toString 3)]
  decide +kernel

/-- … and the right one is accepted (`count_below = 6`) -/
example : (opNode [toString 3]
    "2 4 0 1 5 7 6 - 0:7 0:8 0 6 0:7").specFail = none := by
  rw [node_accepts_iff _ _ 3 (SpecIndex.toNat?_toString 3)]
  decide +kernel

/-- the hypothesis `x + 1 < 2^64` is needed: at `x = u64::MAX` (level 64) the verdict REJECTS the
model's own output - the model's `count_below` wraps to `0` (`lowestBit 2^64 = 0`), the verdict
expects `2^65 − 2` (the Rust code overflows on this id: `self.0 + 1`) -/
example : Node.countBelow (2 ^ 64 - 1) = 0 ∧ sBelow (2 ^ 64 - 1) = 2 ^ 65 - 2 := by decide +kernel

example : (opNode [toString (2 ^ 64 - 1)]
    (opNode [toString (2 ^ 64 - 1)] "").model).specFail ≠ none := by
  have h := SpecIndex.toNat?_toString (2 ^ 64 - 1)
  rw [(opNode_eq _ "" _ h).1, Ne, node_accepts_iff _ _ _ h]
  decide +kernel

/-! ## 2. `nodebs` -/

/-- component level: `subtract_block_size` and `add_block_size` of the model are the nodes
`(k, L + n)` and `(k, L − n)` (the latter iff `n ≤ L`) the verdict expects -/
theorem nodebs_model {x n : Nat} (hx : x < 2 ^ 64) (h : (x + 1) * 2 ^ n ≤ 2 ^ 64) :
    Node.subBs x n = nodeOf (indexOf x) (levelOf x + n) ∧
    Node.addBs x n
      = (if levelOf x ≥ n then some (nodeOf (indexOf x) (levelOf x - n)) else none) :=
  ⟨subBs_clause hx h, addBs_clause hx⟩

example : Node.subBs 87 4 = nodeOf (indexOf 87) (levelOf 87 + 4) :=
  (nodebs_model (by decide) (by decide)).1

/-- `add_block_size` alone needs no overflow hypothesis -/
theorem nodebs_add_model {x : Nat} (n : Nat) (hx : x < 2 ^ 64) :
    Node.addBs x n
      = (if levelOf x ≥ n then some (nodeOf (indexOf x) (levelOf x - n)) else none) :=
  addBs_clause hx

example : Node.addBs 87 70 = none := by rw [nodebs_add_model 70 (by decide)]; decide

/-- string level (`nodeBsModel`, `nodeBsSpec` are the two strings of `opNodeBs`: `opNodeBs_eq`) -/
theorem nodebs_string {x n : Nat} (hx : x < 2 ^ 64) (h : (x + 1) * 2 ^ n ≤ 2 ^ 64) :
    nodeBsModel x n = nodeBsSpec x n := nodeBsModel_eq hx h

example : nodeBsModel 87 4 = nodeBsSpec 87 4 := nodebs_string (by decide) (by decide)

theorem nodebs_accepts_iff (args : List String) (impl : String) (x n : Nat)
    (h : args.mapM (·.toNat?) = some [x, n]) :
    (opNodeBs args impl).specFail = none ↔ impl = nodeBsSpec x n := by
  rw [(opNodeBs_eq args impl x n h).2]
  by_cases e : impl = nodeBsSpec x n
  · simp [e]
  · have : (impl == nodeBsSpec x n) = false := by simpa using e
    simp [this, e]

example : (opNodeBs [toString 87, toString 4] "1407 -").specFail = none := by
  rw [nodebs_accepts_iff _ _ 87 4 (mapM_two 87 4)]; decide +kernel

example : (opNodeBs [toString 87, toString 4] "1407 5").specFail ≠ none := by
  rw [Ne, nodebs_accepts_iff _ _ 87 4 (mapM_two 87 4)]; decide +kernel

/-- the full statement for `opNodeBs`: on the model's own output the verdict is `none`, for every
argument list that parses to `[x, n]` with `(x+1)·2^n` inside the `u64` range -/
theorem nodebs_specFail (args : List String) (impl : String) (x n : Nat)
    (h : args.mapM (·.toNat?) = some [x, n]) (hx : x < 2 ^ 64) (hn : (x + 1) * 2 ^ n ≤ 2 ^ 64) :
    (opNodeBs args (opNodeBs args impl).model).specFail = none := by
  rw [(opNodeBs_eq args impl x n h).1, nodebs_accepts_iff args _ x n h]
  exact nodebs_string hx hn

example : (opNodeBs [toString 87, toString 4]
    (opNodeBs [toString 87, toString 4] "").model).specFail = none :=
  nodebs_specFail _ "" 87 4 (mapM_two 87 4) (by decide) (by decide)

theorem nodebs_no_false_alarm (x n : Nat) (impl : String) (hx : x < 2 ^ 64)
    (hn : (x + 1) * 2 ^ n ≤ 2 ^ 64) :
    (opNodeBs [toString x, toString n]
      (opNodeBs [toString x, toString n] impl).model).specFail = none :=
  nodebs_specFail _ impl x n (mapM_two x n) hx hn

/-- the generator's range (`x < 2^52`, `n ≤ 10`) is inside the hypotheses -/
theorem nodebs_no_false_alarm_gen (x n : Nat) (impl : String) (hx : x < 2 ^ 53) (hn : n ≤ 10) :
    (opNodeBs [toString x, toString n]
      (opNodeBs [toString x, toString n] impl).model).specFail = none := by
  refine nodebs_no_false_alarm x n impl (by omega) ?_
  calc (x + 1) * 2 ^ n ≤ 2 ^ 53 * 2 ^ 10 :=
        Nat.mul_le_mul (by omega) (Nat.pow_le_pow_right (by decide) hn)
    _ ≤ 2 ^ 64 := by decide

example : (opNodeBs [toString (2 ^ 53 - 1), toString 10]
    (opNodeBs [toString (2 ^ 53 - 1), toString 10] "").model).specFail = none :=
  nodebs_no_false_alarm_gen _ _ "" (by decide) (by decide)

/-- the overflow hypothesis is needed: FALSE ALARM at `nodebs 9223372036854775808 1` (and at
`nodebs 9223372036854775807 2`, an id below `2^63`): the model computes `!(!x << n)` with `u64`
wrap-around like the Rust code, the verdict computes `nodeOf k (L + n)` in unbounded arithmetic -/
example : Node.subBs (2 ^ 63) 1 = 1 ∧ nodeOf (indexOf (2 ^ 63)) (levelOf (2 ^ 63) + 1) = 2 ^ 64 + 1 := by
  decide +kernel

example : Node.subBs (2 ^ 63 - 1) 2 = 2 ^ 64 - 1 ∧
    nodeOf (indexOf (2 ^ 63 - 1)) (levelOf (2 ^ 63 - 1) + 2) = 2 ^ 65 - 1 := by decide +kernel

example : (opNodeBs [toString (2 ^ 63), toString 1]
    (opNodeBs [toString (2 ^ 63), toString 1] "").model).specFail ≠ none := by
  have h := mapM_two (2 ^ 63) 1
  rw [(opNodeBs_eq _ "" _ _ h).1, Ne, nodebs_accepts_iff _ _ _ _ h]
  decide +kernel

example : (opNodeBs [toString (2 ^ 63 - 1), toString 2]
    (opNodeBs [toString (2 ^ 63 - 1), toString 2] "").model).specFail ≠ none := by
  have h := mapM_two (2 ^ 63 - 1) 2
  rw [(opNodeBs_eq _ "" _ _ h).1, Ne, nodebs_accepts_iff _ _ _ _ h]
  decide +kernel

/-! ## 3. `noderp` -/

/-- component level: the verdict's walk up the complete tree in `(k, L)` coordinates
(`opNodeRp.up len 64 k L`, the nearest proper ancestor with id `< len`, levels `≤ 63`) is the
model's `restricted_parent`; every `len` -/
theorem noderp_model {x : Nat} (len : Nat) (hx : x + 1 < 2 ^ 64) :
    Node.restrictedParent x len = opNodeRp.up len 64 (indexOf x) (levelOf x) :=
  restrictedParent_clause len hx

example : Node.restrictedParent 8 9 = opNodeRp.up 9 64 (indexOf 8) (levelOf 8) :=
  noderp_model 9 (by decide)

/-- the walk and the model's loop agree step by step, any fuel -/
theorem noderp_walk (len fuel k L : Nat) (hL : L ≤ 63) :
    opNodeRp.up len fuel k L = Node.restrictedParentAux fuel (nodeOf k L) len :=
  up_eq len fuel k L hL

example : opNodeRp.up 9 3 4 0 = Node.restrictedParentAux 3 (nodeOf 4 0) 9 :=
  noderp_walk 9 3 4 0 (by decide)

theorem noderp_string {x : Nat} (len : Nat) (hx : x + 1 < 2 ^ 64) :
    optNat (Node.restrictedParent x len) = optNat (sRp x len) := by
  rw [restrictedParent_clause len hx]

example : optNat (Node.restrictedParent 8 9) = optNat (sRp 8 9) := noderp_string 9 (by decide)

theorem noderp_accepts_iff (args : List String) (impl : String) (x len : Nat)
    (h : args.mapM (·.toNat?) = some [x, len]) :
    (opNodeRp args impl).specFail = none ↔ impl = optNat (sRp x len) := by
  rw [(opNodeRp_eq args impl x len h).2]
  by_cases e : impl = optNat (sRp x len)
  · simp [e]
  · have : (impl == optNat (sRp x len)) = false := by simpa using e
    simp [this, e]

example : (opNodeRp [toString 8, toString 9] "7").specFail = none := by
  rw [noderp_accepts_iff _ _ 8 9 (mapM_two 8 9)]; decide +kernel

example : (opNodeRp [toString 8, toString 9] "-").specFail ≠ none := by
  rw [Ne, noderp_accepts_iff _ _ 8 9 (mapM_two 8 9)]; decide +kernel

example : (opNodeRp [toString 8, toString 3] "-").specFail = none := by
  rw [noderp_accepts_iff _ _ 8 3 (mapM_two 8 3)]; decide +kernel

/-- the full statement for `opNodeRp`: on the model's own output the verdict is `none`, for every
argument list that parses to `[x, len]`, `x ≠ u64::MAX`, any `len` -/
theorem noderp_specFail (args : List String) (impl : String) (x len : Nat)
    (h : args.mapM (·.toNat?) = some [x, len]) (hx : x + 1 < 2 ^ 64) :
    (opNodeRp args (opNodeRp args impl).model).specFail = none := by
  rw [(opNodeRp_eq args impl x len h).1, noderp_accepts_iff args _ x len h]
  exact noderp_string len hx

example : (opNodeRp [toString 8, toString 9]
    (opNodeRp [toString 8, toString 9] "").model).specFail = none :=
  noderp_specFail _ "" 8 9 (mapM_two 8 9) (by decide)

theorem noderp_no_false_alarm (x len : Nat) (impl : String) (hx : x + 1 < 2 ^ 64) :
    (opNodeRp [toString x, toString len]
      (opNodeRp [toString x, toString len] impl).model).specFail = none :=
  noderp_specFail _ impl x len (mapM_two x len) hx

example : (opNodeRp [toString (2 ^ 63 - 2), toString (2 ^ 64 - 1)]
    (opNodeRp [toString (2 ^ 63 - 2), toString (2 ^ 64 - 1)] "").model).specFail = none :=
  noderp_no_false_alarm _ _ "" (by decide)

/-- the same for EVERY `u64` id (including `u64::MAX`) when `len` is a `u64` too -/
theorem noderp_model_u64 {x len : Nat} (hx : x < 2 ^ 64) (hlen : len ≤ 2 ^ 64) :
    Node.restrictedParent x len = opNodeRp.up len 64 (indexOf x) (levelOf x) :=
  restrictedParent_clause_u64 hx hlen

example : Node.restrictedParent (2 ^ 64 - 1) 5 = opNodeRp.up 5 64 (indexOf (2 ^ 64 - 1))
    (levelOf (2 ^ 64 - 1)) := noderp_model_u64 (by decide) (by decide)

theorem noderp_specFail_u64 (args : List String) (impl : String) (x len : Nat)
    (h : args.mapM (·.toNat?) = some [x, len]) (hx : x < 2 ^ 64) (hlen : len ≤ 2 ^ 64) :
    (opNodeRp args (opNodeRp args impl).model).specFail = none := by
  rw [(opNodeRp_eq args impl x len h).1, noderp_accepts_iff args _ x len h,
    restrictedParent_clause_u64 hx hlen]

example : (opNodeRp [toString (2 ^ 64 - 1), toString (2 ^ 64 - 1)]
    (opNodeRp [toString (2 ^ 64 - 1), toString (2 ^ 64 - 1)] "").model).specFail = none :=
  noderp_specFail_u64 _ "" _ _ (mapM_two _ _) (by decide) (by decide)

/-- the hypothesis `x ≠ u64::MAX` is needed for unbounded `len`: at `x = 2^64 − 1`, `len = 2^66`
(not a `u64`) the model walks on above level 63 (`some (2^65 − 1)`), the verdict stops
(`none`) -/
example : Node.restrictedParent (2 ^ 64 - 1) (2 ^ 66) = some (2 ^ 65 - 1) ∧
    sRp (2 ^ 64 - 1) (2 ^ 66) = none := by decide +kernel

example : (opNodeRp [toString (2 ^ 64 - 1), toString (2 ^ 66)]
    (opNodeRp [toString (2 ^ 64 - 1), toString (2 ^ 66)] "").model).specFail ≠ none := by
  have h := mapM_two (2 ^ 64 - 1) (2 ^ 66)
  rw [(opNodeRp_eq _ "" _ _ h).1, Ne, noderp_accepts_iff _ _ _ _ h]
  decide +kernel

end Bao.SpecNode

/-
Status (task NFA / Node: the `node`, `nodebs`, `noderp` verdicts never reject the model).

PROVED (full strength):
  node    `node_model`   the thirteen compared quantities (level, mid, is_leaf, left/right child, parent,
            count_below, next_left_ancestor, node_range, chunk_range, right_count, post_order_offset,
            post_order_range) computed by `Bao.Node.*` equal the verdict's `(k, L)` expressions, `x + 1 < 2^64`
            (one lemma per clause in `SpecNodeL`: `level_clause` … `postOrderRange_clause`; `popc_eq`: the
            verdict's `Spec.popc` is the model's `popcountAux`);
          `node_spec_is_verdict`   the named components ARE the `let`s of `nodeSpecStr` (`rfl`);
          `node_tokens`, `node_string`   `modelTokens x = specTokens x`, `nodeStr x = nodeSpecStr x`;
          `node_accepts_iff`   `(opNode [a] impl).specFail = none ↔ impl = nodeSpecStr x`;
          `node_specFail`   `(opNode [a] (opNode [a] impl).model).specFail = none` for every `a` that parses to
            `x`, `x + 1 < 2^64`;  `node_no_false_alarm`   the same with `a = toString x`.
  nodebs  `nodebs_model` (`x < 2^64`, `(x+1)·2^n ≤ 2^64`), `nodebs_add_model` (`x < 2^64` only),
          `nodebs_string`, `nodebs_accepts_iff`, `nodebs_specFail`, `nodebs_no_false_alarm`,
          `nodebs_no_false_alarm_gen` (`x < 2^53`, `n ≤ 10`: covers the generator).
  noderp  `noderp_walk`   `opNodeRp.up len fuel k L = Node.restrictedParentAux fuel (nodeOf k L) len`, `L ≤ 63`,
            any fuel, any `len`;
          `noderp_model` (`x + 1 < 2^64`, any `len`), `noderp_model_u64` (`x < 2^64`, `len ≤ 2^64`),
          `noderp_string`, `noderp_accepts_iff`, `noderp_specFail`, `noderp_specFail_u64`,
          `noderp_no_false_alarm`.
PARTIAL: none.   OPEN: none.

FINDINGS (false alarms of the verdicts outside the hypotheses, each proved as an `example` above; none of
them can be emitted by `/verif/harness/src/gen1.rs`, property "C18": `node` ids are `< 2^63`, `nodebs` ids are
`< 2^52` with `n ≤ 10`, `noderp` ids are `< 2^63` and `len` is a `u64`):
  * `node 18446744073709551615` (`u64::MAX`, level 64): model `count_below = 0`, `post_order_offset = 0`,
    `post_order_range = 0:1`; verdict expects `2^65−2` …  (the Rust code overflows at `self.0 + 1`).
  * `nodebs 9223372036854775808 1`, `nodebs 9223372036854775807 2`: `(x+1)·2^n > 2^64`; the model wraps like
    `!(!x << n)` on `u64` (`1`, resp. `2^64−1`), the verdict's `Spec.nodeOf k (L+n)` is unbounded (`2^64+1`,
    resp. `2^65−1`).  Here the verdict would reject a CORRECT implementation; the hypothesis
    `(x+1)·2^n ≤ 2^64` is exactly `subBs_eq`'s.
  * `noderp 18446744073709551615 73786976294838206464` (`len = 2^66`, not a `u64`): model `some (2^65−1)`,
    verdict `none`.  With `len ≤ 2^64` there is no false alarm at `u64::MAX` (`noderp_specFail_u64`).
  Arguments `≥ 2^64` are not covered (`Spec.levelOf` counts at most 64 trailing zeros).

Axioms (`#print axioms`): `node_spec_is_verdict`: [propext]; `noderp_walk` (= `up_eq`): [propext, Quot.sound];
`popc_eq`: [propext]; every other theorem of this file and `opNode_eq`, `opNodeBs_eq`, `opNodeRp_eq`:
[propext, Classical.choice, Quot.sound].  (`decide +kernel` adds no axiom.)
-/
