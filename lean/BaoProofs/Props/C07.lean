import BaoProofs.Lemmas.HistL

/-!
# C07: any history of partial downloads stays consistent and converges

A *history* is a list of `decode_ranges` calls (`Op`: flavour, an ARBITRARY byte stream — honest,
truncated at any point, or tampered —, a query, and an optional injected failure of the `fw`-th
target write / `fs`-th outboard save of that call), all applied to the same sink (`run`).  The
sink's outboard carries the true root hash `Spec.root hf d` of the blob `d`; its kind (pre/post,
io/mem, empty), its claimed tree geometry, its backing bytes and the initial target are arbitrary.

Hypotheses: `CollisionFree hf` and `d.length ≤ 2^64 · 1024`, as in C01.

Vocabulary (`Lemmas/C01Inv.lean`, `Lemmas/HistL.lean`):
* `TrueLeaf d off bytes` – `bytes` are the bytes of a subtree chunk interval of `d`, `off` is
  where they live in `d` (so `bytes = (d.drop off).take bytes.length`, `off + len ≤ |d|`);
* `TruePair hf d l r` – `(l, r)` is the stored pair of an existing node of the true tree of `d`;
* `applyWrites t wl` / `applySaves hf ob pl` – the target after the positioned writes `wl`, the
  outboard after the successful saves `pl`;
* `Cov wl i` – byte position `i` lies inside some write of `wl` (the *delivered* positions `Δ`).

Every theorem quantifies over ALL histories `ops`; "after every step" is the instance at each
prefix (`inv_prefix`), and `inv_extend` says that the delivered set only grows.
-/

namespace Bao.C07

open Bao.Spec Bao.C01

variable {H : Type} [BEq H] [LawfulBEq H] {hf : HashFns H} {d : List UInt8}

omit [LawfulBEq H] in
/-- the root hash of the outboard never changes (any hash functions, any root) -/
theorem root_preserved (hf : HashFns H) (ops : List Op) (sink : Sink H) :
    (run hf ops sink).ob.root = sink.ob.root :=
  (run_root hf ops sink).1

omit [LawfulBEq H] in
/-- the tree geometry (and the kind) of the outboard never changes -/
theorem tree_preserved (hf : HashFns H) (ops : List Op) (sink : Sink H) :
    (run hf ops sink).ob.tree = sink.ob.tree ∧ (run hf ops sink).ob.kind = sink.ob.kind :=
  (run_root hf ops sink).2

/-- **C01 for the fault-injected `decode_ranges`.**  Whatever the stream and whichever write /
save is made to fail: the final target is the initial one after positioned writes of true leaves,
the final outboard is the initial one after successful saves of true pairs. -/
theorem decodeRangesF_sound (cf : CollisionFree hf) (hd : d.length ≤ 2 ^ 64 * 1024) (fl : Flavour)
    (s : List UInt8) (ranges : Ranges) (sink : Sink H) (fw fs : Option Nat)
    (hroot : sink.ob.root = Spec.root hf d) :
    ∃ (wl : List (Nat × List UInt8)) (pl : List (Nat × H × H)),
      (∀ w ∈ wl, TrueLeaf d w.1 w.2) ∧ (∀ p ∈ pl, TruePair hf d p.2.1 p.2.2) ∧
      (decodeRangesF hf fl s ranges sink fw fs).1.target = applyWrites sink.target wl ∧
      (decodeRangesF hf fl s ranges sink fw fs).1.ob = applySaves hf sink.ob pl :=
  decodeRangesF_effect cf hd fl s ranges sink fw fs hroot

/-- **Invariant of histories.**  After any history there is a list `wl` of writes of true leaves
(the chunks delivered so far) with: the target is the initial target after `wl`; and if the target
was pre-sized to the blob's length then its length is unchanged, no byte outside the delivered
positions has changed, every delivered position holds the blob's byte (so each position holds its
initial byte or the blob's byte), and delivered positions lie inside the blob. -/
theorem inv (cf : CollisionFree hf) (hd : d.length ≤ 2 ^ 64 * 1024) (ops : List Op) (sink : Sink H)
    (hroot : sink.ob.root = Spec.root hf d) :
    ∃ wl : List (Nat × List UInt8),
      (∀ w ∈ wl, TrueLeaf d w.1 w.2) ∧
      (run hf ops sink).target = applyWrites sink.target wl ∧
      (sink.target.length = d.length →
        (run hf ops sink).target.length = d.length ∧
        ∀ i : Nat,
          (¬ Cov wl i → (run hf ops sink).target[i]? = sink.target[i]?) ∧
          (Cov wl i → (run hf ops sink).target[i]? = d[i]? ∧ i < d.length) ∧
          ((run hf ops sink).target[i]? = sink.target[i]? ∨ (run hf ops sink).target[i]? = d[i]?)) := by
  obtain ⟨wl, _, hw, _, ht, _⟩ := run_effect cf hd ops sink hroot
  refine ⟨wl, hw, ht, fun hlen => ?_⟩
  obtain ⟨hl, hg⟩ := applyWrites_spec wl sink.target hlen hw
  rw [ht]
  refine ⟨hl, fun i => ⟨(hg i).2, fun hc => ⟨(hg i).1 hc, hc.lt hw⟩, ?_⟩⟩
  by_cases hc : Cov wl i
  · exact .inr ((hg i).1 hc)
  · exact .inl ((hg i).2 hc)

/-- "after every step": the invariant at every prefix of a history -/
theorem inv_prefix (cf : CollisionFree hf) (hd : d.length ≤ 2 ^ 64 * 1024) (ops : List Op)
    (sink : Sink H) (hroot : sink.ob.root = Spec.root hf d) (hlen : sink.target.length = d.length)
    (n : Nat) :
    ∃ wl : List (Nat × List UInt8),
      (∀ w ∈ wl, TrueLeaf d w.1 w.2) ∧
      (run hf (ops.take n) sink).target.length = d.length ∧
      ∀ i : Nat,
        (¬ Cov wl i → (run hf (ops.take n) sink).target[i]? = sink.target[i]?) ∧
        (Cov wl i → (run hf (ops.take n) sink).target[i]? = d[i]?) := by
  obtain ⟨wl, hw, _, h⟩ := inv cf hd (ops.take n) sink hroot
  obtain ⟨hl, hg⟩ := h hlen
  exact ⟨wl, hw, hl, fun i => ⟨(hg i).1, fun hc => ((hg i).2.1 hc).1⟩⟩

/-- the delivered set only grows: the writes of a longer history extend those of the shorter one
(so a delivered position stays delivered, and by `inv` keeps holding the blob's byte) -/
theorem inv_extend (cf : CollisionFree hf) (hd : d.length ≤ 2 ^ 64 * 1024) (ops more : List Op)
    (sink : Sink H) (hroot : sink.ob.root = Spec.root hf d) :
    ∃ wl wl' : List (Nat × List UInt8),
      (∀ w ∈ wl ++ wl', TrueLeaf d w.1 w.2) ∧
      (run hf ops sink).target = applyWrites sink.target wl ∧
      (run hf (ops ++ more) sink).target = applyWrites sink.target (wl ++ wl') ∧
      ∀ i, Cov wl i → Cov (wl ++ wl') i := by
  obtain ⟨wl, _, hw, _, ht, _⟩ := run_effect cf hd ops sink hroot
  have hroot' : (run hf ops sink).ob.root = Spec.root hf d :=
    (root_preserved hf ops sink).trans hroot
  obtain ⟨wl', _, hw', _, ht', _⟩ := run_effect cf hd more (run hf ops sink) hroot'
  refine ⟨wl, wl', ?_, ht, ?_, fun i h => (cov_append wl wl' i).2 (.inl h)⟩
  · intro w hmem
    rcases List.mem_append.1 hmem with h | h
    · exact hw w h
    · exact hw' w h
  · rw [run_append, ht', ht, applyWrites_append]

omit [LawfulBEq H] in
/-- **Convergence.**  Once every byte position of the blob has been delivered, the (pre-sized)
target equals the blob — whatever else happened in the history. -/
theorem converges_target (ops : List Op) (sink : Sink H) (wl : List (Nat × List UInt8))
    (hw : ∀ w ∈ wl, TrueLeaf d w.1 w.2) (ht : (run hf ops sink).target = applyWrites sink.target wl)
    (hlen : sink.target.length = d.length) (hall : ∀ i, i < d.length → Cov wl i) :
    (run hf ops sink).target = d := by
  rw [ht]
  exact applyWrites_full wl sink.target hlen hw hall

/-- convergence, packaged with `inv`: there is a delivered list such that, if it covers the blob,
the target is the blob -/
theorem converges (cf : CollisionFree hf) (hd : d.length ≤ 2 ^ 64 * 1024) (ops : List Op)
    (sink : Sink H) (hroot : sink.ob.root = Spec.root hf d) (hlen : sink.target.length = d.length) :
    ∃ wl : List (Nat × List UInt8),
      (∀ w ∈ wl, TrueLeaf d w.1 w.2) ∧
      (run hf ops sink).target = applyWrites sink.target wl ∧
      ((∀ i, i < d.length → Cov wl i) → (run hf ops sink).target = d) := by
  obtain ⟨wl, hw, ht, _⟩ := inv cf hd ops sink hroot
  exact ⟨wl, hw, ht, converges_target ops sink wl hw ht hlen⟩

/-- **Every pair ever saved is a pair of the blob's true tree**: the final outboard is the initial
one after a list of successful saves, each of the true pair of an existing node. -/
theorem saved_pairs_true (cf : CollisionFree hf) (hd : d.length ≤ 2 ^ 64 * 1024) (ops : List Op)
    (sink : Sink H) (hroot : sink.ob.root = Spec.root hf d) :
    ∃ pl : List (Nat × H × H),
      (∀ p ∈ pl, TruePair hf d p.2.1 p.2.2) ∧
      (run hf ops sink).ob = applySaves hf sink.ob pl := by
  obtain ⟨_, pl, _, hp, _, ho⟩ := run_effect cf hd ops sink hroot
  exact ⟨pl, hp, ho⟩

/-! ## non-vacuity: the symbolic collision free hash, a 3-chunk blob, a three-call history -/

section
private def blob : List UInt8 := List.replicate 2500 7
private def tampered : List UInt8 := List.replicate 64 1 ++ List.replicate 2500 8

private theorem blob_len : blob.length ≤ 2 ^ 64 * 1024 := by
  simp only [blob, List.length_replicate]; omega

/-- pre-sized target, post-order memory outboard with the true root, claimed tree of block size 1 -/
private def sink0 : Sink Term :=
  { ob := { kind := .postMem, root := Spec.root termHash blob, tree := ⟨2500, 1⟩,
            data := List.replicate 64 0 },
    target := List.replicate 2500 0 }

private theorem sink0_root : sink0.ob.root = Spec.root termHash blob := by simp only [sink0]
private theorem sink0_len : sink0.target.length = blob.length := by
  simp only [sink0, blob, List.length_replicate]

/-- a tampered stream with the first write failing, a truncated (empty) stream, an overlapping
query on the other flavour with the first save failing -/
private def hist : List Op :=
  [⟨.sync, tampered, [0], some 0, none⟩, ⟨.fsm, [], [1, 2], none, none⟩,
   ⟨.fsm, tampered, [0, 2], none, some 0⟩]

example : (run termHash hist sink0).ob.root = sink0.ob.root := root_preserved termHash hist sink0

example : (run termHash hist sink0).ob.tree = sink0.ob.tree ∧
    (run termHash hist sink0).ob.kind = sink0.ob.kind := tree_preserved termHash hist sink0

example : ∃ (wl : List (Nat × List UInt8)) (pl : List (Nat × Term × Term)),
    (∀ w ∈ wl, TrueLeaf blob w.1 w.2) ∧ (∀ p ∈ pl, TruePair termHash blob p.2.1 p.2.2) ∧
    (decodeRangesF termHash .sync tampered [0] sink0 (some 1) none).1.target
      = applyWrites sink0.target wl ∧
    (decodeRangesF termHash .sync tampered [0] sink0 (some 1) none).1.ob
      = applySaves termHash sink0.ob pl :=
  decodeRangesF_sound termHash_cf blob_len .sync tampered [0] sink0 (some 1) none sink0_root

example : ∃ wl : List (Nat × List UInt8),
    (∀ w ∈ wl, TrueLeaf blob w.1 w.2) ∧
    (run termHash hist sink0).target = applyWrites sink0.target wl ∧
    (sink0.target.length = blob.length →
      (run termHash hist sink0).target.length = blob.length ∧
      ∀ i : Nat,
        (¬ Cov wl i → (run termHash hist sink0).target[i]? = sink0.target[i]?) ∧
        (Cov wl i → (run termHash hist sink0).target[i]? = blob[i]? ∧ i < blob.length) ∧
        ((run termHash hist sink0).target[i]? = sink0.target[i]? ∨
          (run termHash hist sink0).target[i]? = blob[i]?)) :=
  inv termHash_cf blob_len hist sink0 sink0_root

example : ∃ wl : List (Nat × List UInt8),
    (∀ w ∈ wl, TrueLeaf blob w.1 w.2) ∧
    (run termHash (hist.take 2) sink0).target.length = blob.length ∧
    ∀ i : Nat,
      (¬ Cov wl i → (run termHash (hist.take 2) sink0).target[i]? = sink0.target[i]?) ∧
      (Cov wl i → (run termHash (hist.take 2) sink0).target[i]? = blob[i]?) :=
  inv_prefix termHash_cf blob_len hist sink0 sink0_root sink0_len 2

example : ∃ wl wl' : List (Nat × List UInt8),
    (∀ w ∈ wl ++ wl', TrueLeaf blob w.1 w.2) ∧
    (run termHash hist sink0).target = applyWrites sink0.target wl ∧
    (run termHash (hist ++ hist) sink0).target = applyWrites sink0.target (wl ++ wl') ∧
    ∀ i, Cov wl i → Cov (wl ++ wl') i :=
  inv_extend termHash_cf blob_len hist hist sink0 sink0_root

/-- the whole blob as one true leaf (the root interval) -/
private theorem blob_leaf : TrueLeaf blob 0 blob :=
  ⟨0, nChunks blob.length, Sub.root blob, rfl, (slice_full blob).symm⟩

/-- the hypotheses of `converges_target` are jointly satisfiable: the empty history on a sink that
already holds the blob, with the delivered list "the whole blob at offset 0" -/
example : (run termHash [] { sink0 with target := blob }).target = blob :=
  converges_target (hf := termHash) (d := blob) [] { sink0 with target := blob } [(0, blob)]
    (by intro w hw; simp only [List.mem_singleton] at hw; subst hw; exact blob_leaf)
    (applyWrites_whole blob).symm
    rfl
    (by intro i hi; exact ⟨(0, blob), List.mem_singleton.2 rfl, Nat.zero_le _, by simpa using hi⟩)

example : ∃ wl : List (Nat × List UInt8),
    (∀ w ∈ wl, TrueLeaf blob w.1 w.2) ∧
    (run termHash hist sink0).target = applyWrites sink0.target wl ∧
    ((∀ i, i < blob.length → Cov wl i) → (run termHash hist sink0).target = blob) :=
  converges termHash_cf blob_len hist sink0 sink0_root sink0_len

example : ∃ pl : List (Nat × Term × Term),
    (∀ p ∈ pl, TruePair termHash blob p.2.1 p.2.2) ∧
    (run termHash hist sink0).ob = applySaves termHash sink0.ob pl :=
  saved_pairs_true termHash_cf blob_len hist sink0 sink0_root

end

/-
## Status

Proved (axioms: propext, Classical.choice, Quot.sound):
* `root_preserved`, `tree_preserved` – root, tree and kind of the outboard never change (any `hf`)
* `decodeRangesF_sound` – C01 for `decodeRangesF` (arbitrary stream, injected write/save failure)
* `inv`            – any history: target = initial target after writes `wl` of true leaves; for a
                     pre-sized target: length kept, `¬Cov wl i →` byte unchanged, `Cov wl i →`
                     blob's byte (and `i < |d|`), hence "initial byte or blob's byte" everywhere
* `inv_prefix`     – the same at every prefix of the history ("after every step")
* `inv_extend`     – the delivered list of a longer history extends that of the shorter one
* `converges_target`, `converges` – all positions `< |d|` delivered ⇒ target = blob
* `saved_pairs_true` – final outboard = initial outboard after successful saves of `TruePair`s

`_partial`: none.

OPEN (parts of the C07 sentence not addressed in this file):
-- OPEN: theorem validator_exact : with `Δ` as above and a pre-sized outboard, `validRanges`
--   of the final sink reports exactly the chunk groups all of whose chunks are delivered.
--   Needs (a) a characterisation of the model validator (`BaoModel/Validate.lean`) against
--   `Spec.pair`, (b) that the pairs on the path of every delivered group were saved (needs the
--   plan structure: `PlanPre*`), and (c) the side condition that untouched bytes of the target /
--   outboard do not accidentally coincide with the blob's ("exactly" fails otherwise, e.g. an
--   all-zero blob into a zero-initialised target).
-- OPEN: theorem converges_outboard : once every chunk has been delivered by calls that were not
--   interrupted, the outboard data equals `Spec.preOutboard`/`Spec.postOutboard`.  `saved_pairs_true`
--   gives "only true pairs are ever written"; missing: every persisted node was saved at its slot
--   (plan coverage + `Store.slot` vs `Spec.preIndex/postIndex`), and for the claimed tree to be the
--   true one (`sink.ob.tree.size = d.length`; nothing forces this: with a wrong claimed size pairs
--   are saved under node labels of the claimed tree).
-- OPEN: relating `Cov wl` to the queries: for an op with an honest stream and no fault, `wl`
--   covers exactly the selected chunk groups (this is C02/C04 territory, not needed for safety).

Remarks on the model
* `decodeRangesF` drops the `writes`/`saves` logs that `decodeRanges` keeps, so the delivered list
  `wl` is existential here; it is the list of `(off, data)` of the leaf items actually written.
* In `decodeRangesFAux` the sync flavour skips the write of an empty leaf, the fsm flavour calls
  `writeAt t off []`; under the hypotheses here an empty true leaf only occurs for the empty blob
  at offset 0, where `writeAt` is the identity, so the two agree on the target.
-/

end Bao.C07
