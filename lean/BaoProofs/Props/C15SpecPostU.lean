import BaoProofs.Props.C15SpecPost

/-!
# A plan the post-order predicate accepts IS the model plan (up to the `ranges` fields)

`planPostWF_unique`: for `size ≤ 2^63`, `bs ≤ 10`, `planPostWF size bs plan = none` implies
`plan.map Chunk.withoutRanges = (Tree.postOrderChunks ⟨size, bs⟩).map Chunk.withoutRanges`.

Route.  `core_unique`: two plans with the same leaves (in order), the same parents (in order),
pairwise distinct leaf starts, and span walks that both run through from the same span stack —
whose span starts are not starts of leaves still to come — have the same items up to flags and
ranges (`strip`).  Induction on the first plan; at a position where one plan has a leaf and the
other the parent `n`, the second finds `(Node.mid n, _)` on top of the stack, while the first can
only reach `n` (its next parent too) after pushing a leaf that starts at `Node.mid n`
(`next_parent_top`) — but the start of a span on the stack is never the start of a leaf still to
come.  The flags are then fixed by `RootLast` and `BothChildren`.
-/

namespace Bao.SpecPostU

open Bao Bao.NodeIterL Bao.Ops Bao.SpecPost

/-- an item without its flags and ranges -/
def strip : Chunk → Chunk
  | .parent n _ _ _ _ => .parent n false false false []
  | .leaf s z _ _ => .leaf s z false []

/-! ### views of a cons -/

theorem leavesOf_leaf (s z : Nat) (r : Bool) (x : Ranges) (t : List Chunk) :
    leavesOf (.leaf s z r x :: t) = (s, z) :: leavesOf t := rfl

theorem leavesOf_parent (n : Nat) (r l rr : Bool) (x : Ranges) (t : List Chunk) :
    leavesOf (.parent n r l rr x :: t) = leavesOf t := rfl

theorem parentsOf_leaf (s z : Nat) (r : Bool) (x : Ranges) (t : List Chunk) :
    parentsOf (.leaf s z r x :: t) = parentsOf t := rfl

theorem parentsOf_parent (n : Nat) (r l rr : Bool) (x : Ranges) (t : List Chunk) :
    parentsOf (.parent n r l rr x :: t) = n :: parentsOf t := rfl

/-- a parent step inside a run -/
theorem spanRun_parent_inv {st r0 : List (Nat × Nat)} {n : Nat} {r l rr : Bool} {x : Ranges}
    {t : List Chunk} (h : spanRun st (.parent n r l rr x :: t) = some r0) :
    ∃ ls re rest, st = (Node.mid n, re) :: (ls, Node.mid n) :: rest ∧
      spanRun ((ls, re) :: rest) t = some r0 := by
  have hab : (Chunk.parent n r l rr x :: t) = [.parent n r l rr x] ++ t := rfl
  obtain ⟨s, hs⟩ := span_prefix h hab
  have h' := h
  rw [hab, spanRun_append, hs, Option.bind_some] at h'
  change spanStep (some st) (.parent n r l rr x) = some s at hs
  obtain ⟨ls, re, rest, e1, e2⟩ := spanStep_parent_inv hs
  exact ⟨ls, re, rest, e1, by rw [← e2]; exact h'⟩

/-- when the walk reaches the next parent `n`, the top span starts at `Node.mid n`: either it is
on the stack already (no leaf in between) or it is the span of a leaf still to come -/
theorem next_parent_top {p : List Chunk} {st r0 : List (Nat × Nat)} {n : Nat} {ps : List Nat}
    (h : spanRun st p = some r0) (hp : parentsOf p = n :: ps) :
    (∃ re tl, st = (Node.mid n, re) :: tl) ∨ ∃ lf ∈ leavesOf p, lf.1 = Node.mid n := by
  induction p generalizing st with
  | nil => cases hp
  | cons c t ih =>
    cases c with
    | parent m r l rr x =>
      rw [parentsOf_parent] at hp
      obtain ⟨rfl, _⟩ := List.cons.inj hp
      obtain ⟨ls, re, rest, e, _⟩ := spanRun_parent_inv h
      exact .inl ⟨re, _, e⟩
    | leaf s z r x =>
      rw [parentsOf_leaf] at hp
      rw [spanRun_leaf] at h
      rw [leavesOf_leaf]
      rcases ih h hp with ⟨re, tl, e⟩ | ⟨lf, hm, e⟩
      · obtain ⟨e1, _⟩ := List.cons.inj e
        exact .inr ⟨(s, z), List.mem_cons_self, (congrArg Prod.fst e1)⟩
      · exact .inr ⟨lf, List.mem_cons_of_mem _ hm, e⟩

/-- a leaf where the other plan has its (and hence this plan's) next parent: contradiction -/
theorem leaf_vs_parent {t q' : List Chunk} {st r1 r2 : List (Nat × Nat)} {s z n : Nat}
    {r r' l rr : Bool} {x x' : Ranges}
    (h1 : spanRun st (.leaf s z r x :: t) = some r1)
    (h2 : spanRun st (.parent n r' l rr x' :: q') = some r2)
    (hp : parentsOf (.leaf s z r x :: t) = parentsOf (.parent n r' l rr x' :: q'))
    (hinv : ∀ sp ∈ st, ∀ lf ∈ leavesOf (.leaf s z r x :: t), sp.1 ≠ lf.1) : False := by
  obtain ⟨ls, re, rest, e, _⟩ := spanRun_parent_inv h2
  rw [parentsOf_leaf, parentsOf_parent] at hp
  rw [spanRun_leaf] at h1
  have htop : (Node.mid n, re) ∈ st := by rw [e]; exact List.mem_cons_self
  rw [leavesOf_leaf] at hinv
  rcases next_parent_top h1 hp with ⟨re', tl, e'⟩ | ⟨lf, hm, e'⟩
  · obtain ⟨e1, _⟩ := List.cons.inj e'
    exact hinv _ htop (s, z) List.mem_cons_self (congrArg Prod.fst e1).symm
  · exact hinv _ htop lf (List.mem_cons_of_mem _ hm) e'.symm

/-- the interleaving of leaves and parents is determined -/
theorem core_unique (p q : List Chunk) (st r1 r2 : List (Nat × Nat))
    (hl : leavesOf p = leavesOf q) (hp : parentsOf p = parentsOf q)
    (hnd : ((leavesOf p).map Prod.fst).Nodup)
    (hinv : ∀ sp ∈ st, ∀ lf ∈ leavesOf p, sp.1 ≠ lf.1)
    (h1 : spanRun st p = some r1) (h2 : spanRun st q = some r2) :
    p.map strip = q.map strip := by
  induction p generalizing q st with
  | nil =>
    have := length_views q
    rw [← hl, ← hp] at this
    simp only [leavesOf, parentsOf, List.filterMap_nil, List.length_nil, Nat.add_zero] at this
    rw [List.length_eq_zero_iff.mp this]
  | cons c t ih =>
    cases c with
    | leaf s z r x =>
      cases q with
      | nil => rw [leavesOf_leaf] at hl; cases hl
      | cons d q' =>
        cases d with
        | leaf s' z' r' x' =>
          rw [leavesOf_leaf, leavesOf_leaf] at hl
          obtain ⟨e, hl'⟩ := List.cons.inj hl
          obtain ⟨rfl, rfl⟩ := Prod.mk.inj e
          rw [parentsOf_leaf, parentsOf_leaf] at hp
          rw [leavesOf_leaf, List.map_cons, List.nodup_cons] at hnd
          rw [spanRun_leaf] at h1 h2
          rw [leavesOf_leaf] at hinv
          have hinv' : ∀ sp ∈ (s, s + max 1 ((z + 1023) / 1024)) :: st, ∀ lf ∈ leavesOf t,
              sp.1 ≠ lf.1 := by
            intro sp hsp lf hlf
            rcases List.mem_cons.mp hsp with rfl | hsp
            · intro e
              exact hnd.1 (e ▸ List.mem_map_of_mem hlf)
            · exact hinv sp hsp lf (List.mem_cons_of_mem _ hlf)
          rw [List.map_cons, List.map_cons, ih q' _ hl' hp hnd.2 hinv' h1 h2]
          rfl
        | parent n r' l rr x' => exact (leaf_vs_parent h1 h2 hp hinv).elim
    | parent n r l rr x =>
      cases q with
      | nil => rw [parentsOf_parent] at hp; cases hp
      | cons d q' =>
        cases d with
        | leaf s' z' r' x' =>
          exact (leaf_vs_parent h2 h1 hp.symm (by rw [← hl]; exact hinv)).elim
        | parent n' r' l' rr' x' =>
          rw [parentsOf_parent, parentsOf_parent] at hp
          obtain ⟨rfl, hp'⟩ := List.cons.inj hp
          rw [leavesOf_parent, leavesOf_parent] at hl
          rw [leavesOf_parent] at hnd hinv
          obtain ⟨ls, re, rest, e, h1'⟩ := spanRun_parent_inv h1
          obtain ⟨ls', re', rest', e', h2'⟩ := spanRun_parent_inv h2
          rw [e] at e'
          obtain ⟨e1, e2⟩ := List.cons.inj e'
          obtain ⟨e3, e4⟩ := List.cons.inj e2
          obtain ⟨_, rfl⟩ := Prod.mk.inj e1
          obtain ⟨rfl, _⟩ := Prod.mk.inj e3
          subst e4
          have hinv' : ∀ sp ∈ (ls, re) :: rest, ∀ lf ∈ leavesOf t, sp.1 ≠ lf.1 := by
            intro sp hsp lf hlf
            rcases List.mem_cons.mp hsp with rfl | hsp
            · exact hinv (ls, Node.mid n) (by rw [e]; simp) lf hlf
            · exact hinv sp (by rw [e]; simp [hsp]) lf hlf
          rw [List.map_cons, List.map_cons, ih q' _ hl hp' hnd hinv' h1' h2']
          rfl

example : [Chunk.leaf 0 1024 false [], .leaf 1 1024 false [], .parent 0 true true true []].map strip
    = [Chunk.leaf 0 1024 false [1], .leaf 1 1024 true [], .parent 0 false true false []].map strip :=
  core_unique _ _ [] [(0, 2)] [(0, 2)] (by decide) (by decide) (by decide) (by simp)
    (by decide +kernel) (by decide +kernel)

/-! ### the flags -/

/-- an item up to ranges is its stripped form plus its flags -/
theorem withoutRanges_eq_of {c d : Chunk} (hs : strip c = strip d) (hr : rootFlag c = rootFlag d)
    (hc : bothFlags c = true) (hd : bothFlags d = true) : c.withoutRanges = d.withoutRanges := by
  cases c <;> cases d <;>
    simp_all [strip, rootFlag, bothFlags, Chunk.withoutRanges]

theorem map_withoutRanges_eq_of (p q : List Chunk) (hs : p.map strip = q.map strip)
    (hr : p.map rootFlag = q.map rootFlag) (hp : ∀ c ∈ p, bothFlags c = true)
    (hq : ∀ c ∈ q, bothFlags c = true) :
    p.map Chunk.withoutRanges = q.map Chunk.withoutRanges := by
  induction p generalizing q with
  | nil =>
    cases q with
    | nil => rfl
    | cons d q' => cases hs
  | cons c t ih =>
    cases q with
    | nil => cases hs
    | cons d q' =>
      rw [List.map_cons, List.map_cons] at hs hr ⊢
      obtain ⟨hs1, hs2⟩ := List.cons.inj hs
      obtain ⟨hr1, hr2⟩ := List.cons.inj hr
      rw [withoutRanges_eq_of hs1 hr1 (hp c List.mem_cons_self) (hq d List.mem_cons_self),
        ih q' hs2 hr2 (fun c hc => hp c (List.mem_cons_of_mem _ hc))
          (fun c hc => hq c (List.mem_cons_of_mem _ hc))]

/-- the wanted leaves start at pairwise distinct chunks -/
theorem wantLeaves_nodup (size bs : Nat) : ((wantLeaves size bs).map Prod.fst).Nodup := by
  unfold wantLeaves
  rw [List.map_map]
  unfold List.Nodup
  rw [List.pairwise_map]
  refine List.Pairwise.imp ?_ (List.pairwise_lt_range (n := Spec.nBlocks size bs))
  intro i j hij h
  have : i = j := Nat.eq_of_mul_eq_mul_right (Nat.two_pow_pos bs) h
  omega

/-- two plans meeting the clauses 1, 3, 4, 5, 6 are equal up to the `ranges` fields (every `size`,
`bs`; clause 2, the hash-stack height, is implied) -/
theorem clauses_unique (size bs : Nat) (p q : List Chunk)
    (hp1 : LeavesTile size bs p) (hp3 : RootLast p) (hp4 : ParentsPersisted size bs p)
    (hp5 : BothChildren p) (hp6 : SpansOk p)
    (hq1 : LeavesTile size bs q) (hq3 : RootLast q) (hq4 : ParentsPersisted size bs q)
    (hq5 : BothChildren q) (hq6 : SpansOk q) :
    p.map Chunk.withoutRanges = q.map Chunk.withoutRanges := by
  unfold LeavesTile at hp1 hq1
  unfold ParentsPersisted at hp4 hq4
  obtain ⟨r1, h1⟩ := hp6
  obtain ⟨r2, h2⟩ := hq6
  have hs : p.map strip = q.map strip :=
    core_unique p q [] r1 r2 (hp1.trans hq1.symm) (hp4.trans hq4.symm)
      (by rw [hp1]; exact wantLeaves_nodup size bs) (fun _ h => by cases h) h1 h2
  have hlen : p.length = q.length := by
    have := congrArg List.length hs
    simpa using this
  refine map_withoutRanges_eq_of p q hs ?_ hp5 hq5
  unfold RootLast at hp3 hq3
  rw [hp3, hq3, hlen]

/-- **uniqueness**: two plans the predicate accepts are equal up to the `ranges` fields (every
`size`, `bs`) -/
theorem planPostWF_unique2 (size bs : Nat) (p q : List Chunk)
    (hp : planPostWF size bs p = none) (hq : planPostWF size bs q = none) :
    p.map Chunk.withoutRanges = q.map Chunk.withoutRanges := by
  obtain ⟨a1, _, a3, a4, a5, a6⟩ := (planPostWF_none_iff size bs p).mp hp
  obtain ⟨b1, _, b3, b4, b5, b6⟩ := (planPostWF_none_iff size bs q).mp hq
  exact clauses_unique size bs p q a1 a3 a4 a5 a6 b1 b3 b4 b5 b6

example : [Chunk.leaf 0 1024 false [7], .leaf 1 1024 false [], .parent 0 true true true []].map
      Chunk.withoutRanges
    = [Chunk.leaf 0 1024 false [], .leaf 1 1024 false [3], .parent 0 true true true []].map
      Chunk.withoutRanges :=
  planPostWF_unique2 2048 0 _ _ (by decide +kernel) (by decide +kernel)

/-- **soundness of the verdict**: a plan the predicate accepts is the model's post-order plan, up
to the `ranges` fields (`size ≤ 2^63`, `bs ≤ 10`) -/
theorem planPostWF_unique (size bs : Nat) (hs : size ≤ 2 ^ 63) (hbs : bs ≤ 10) (plan : List Chunk)
    (h : planPostWF size bs plan = none) :
    plan.map Chunk.withoutRanges = (Tree.postOrderChunks ⟨size, bs⟩).map Chunk.withoutRanges :=
  planPostWF_unique2 size bs plan _ h (planPostWF_model size bs hs hbs)

example : [Chunk.leaf 0 1024 false [7], .leaf 1 1024 false [], .parent 0 true true true []].map
      Chunk.withoutRanges = (Tree.postOrderChunks ⟨2048, 0⟩).map Chunk.withoutRanges :=
  planPostWF_unique 2048 0 (by decide) (by decide) _ (by decide +kernel)

/-! ### the model plan has empty `ranges` fields -/

theorem wr_planRec (size bs root F : Nat) (L k : Nat) :
    ∀ c ∈ planRec size bs root F L k, c.withoutRanges = c := by
  induction L generalizing k with
  | zero =>
    intro c hc
    simp only [planRec] at hc
    split at hc
    · split at hc
      · simp only [List.mem_cons, List.not_mem_nil, or_false] at hc
        rcases hc with rfl | rfl | rfl <;> rfl
      · simp only [List.mem_cons, List.not_mem_nil, or_false] at hc
        subst hc; rfl
    · simp at hc
  | succ L ih =>
    intro c hc
    simp only [planRec] at hc
    split at hc
    · simp only [List.mem_append, List.mem_cons, List.not_mem_nil, or_false] at hc
      rcases hc with (hc | hc) | rfl
      · exact ih _ c hc
      · exact ih _ c hc
      · rfl
    · exact ih _ c hc

/-- the model's post-order plan carries no ranges -/
theorem model_withoutRanges (size bs : Nat) (hs : size ≤ 2 ^ 63) (hbs : bs ≤ 10) :
    (Tree.postOrderChunks ⟨size, bs⟩).map Chunk.withoutRanges = Tree.postOrderChunks ⟨size, bs⟩ := by
  rw [plan_rec size bs hs hbs]
  exact List.map_congr_left (wr_planRec _ _ _ _ _ _) |>.trans (List.map_id _)

example : (Tree.postOrderChunks ⟨5000, 1⟩).map Chunk.withoutRanges = Tree.postOrderChunks ⟨5000, 1⟩ :=
  model_withoutRanges 5000 1 (by decide) (by decide)

/-- **soundness of the verdict**, as stated in the OPEN item of `C15SpecPost.lean`: a plan the
predicate accepts, with its `ranges` fields erased, is literally the model's post-order plan -/
theorem planPostWF_unique' (size bs : Nat) (hs : size ≤ 2 ^ 63) (hbs : bs ≤ 10) (plan : List Chunk)
    (h : planPostWF size bs plan = none) :
    plan.map Chunk.withoutRanges = Tree.postOrderChunks ⟨size, bs⟩ :=
  (planPostWF_unique size bs hs hbs plan h).trans (model_withoutRanges size bs hs hbs)

example : [Chunk.leaf 0 1024 false [7], .leaf 1 1024 false [], .parent 0 true true true []].map
      Chunk.withoutRanges = Tree.postOrderChunks ⟨2048, 0⟩ :=
  planPostWF_unique' 2048 0 (by decide) (by decide) _ (by decide +kernel)

/-! ### every clause ignores the `ranges` fields -/

theorem leavesOf_wr (p : List Chunk) : leavesOf (p.map Chunk.withoutRanges) = leavesOf p := by
  induction p with
  | nil => rfl
  | cons c t ih => cases c <;> simp only [List.map_cons, Chunk.withoutRanges, leavesOf_leaf,
      leavesOf_parent, ih]

theorem parentsOf_wr (p : List Chunk) : parentsOf (p.map Chunk.withoutRanges) = parentsOf p := by
  induction p with
  | nil => rfl
  | cons c t ih => cases c <;> simp only [List.map_cons, Chunk.withoutRanges, parentsOf_leaf,
      parentsOf_parent, ih]

theorem rootFlags_wr (p : List Chunk) :
    (p.map Chunk.withoutRanges).map rootFlag = p.map rootFlag := by
  rw [List.map_map]
  congr 1; funext c; cases c <;> rfl

theorem stackRun_wr (p : List Chunk) (h : Nat) :
    stackRun h (p.map Chunk.withoutRanges) = stackRun h p := by
  unfold stackRun
  rw [List.foldl_map]
  congr 1; funext a c; cases a <;> cases c <;> rfl

theorem spanRun_wr (p : List Chunk) (st : List (Nat × Nat)) :
    spanRun st (p.map Chunk.withoutRanges) = spanRun st p := by
  unfold spanRun
  rw [List.foldl_map]
  congr 1; funext a c; cases a <;> cases c <;> rfl

theorem both_wr (p : List Chunk) :
    BothChildren (p.map Chunk.withoutRanges) ↔ BothChildren p := by
  unfold BothChildren
  have e : ∀ c : Chunk, bothFlags c.withoutRanges = bothFlags c := by intro c; cases c <;> rfl
  simp only [List.mem_map, forall_exists_index, and_imp, forall_apply_eq_imp_iff₂, e]

/-- the predicate decides "is the model plan up to ranges" (`size ≤ 2^63`, `bs ≤ 10`) -/
theorem planPostWF_none_iff_model (size bs : Nat) (hs : size ≤ 2 ^ 63) (hbs : bs ≤ 10)
    (plan : List Chunk) :
    planPostWF size bs plan = none ↔
      plan.map Chunk.withoutRanges = (Tree.postOrderChunks ⟨size, bs⟩).map Chunk.withoutRanges := by
  refine ⟨planPostWF_unique size bs hs hbs plan, fun h => ?_⟩
  obtain ⟨a1, a2, a3, a4, a5, a6⟩ :=
    (planPostWF_none_iff size bs _).mp (planPostWF_model size bs hs hbs)
  refine (planPostWF_none_iff size bs plan).mpr ⟨?_, ?_, ?_, ?_, ?_, ?_⟩
  · unfold LeavesTile at a1 ⊢; rw [← leavesOf_wr, h, leavesOf_wr]; exact a1
  · unfold StackOk at a2 ⊢; rw [← stackRun_wr, h, stackRun_wr]; exact a2
  · unfold RootLast at a3 ⊢
    have hlen : plan.length = (Tree.postOrderChunks ⟨size, bs⟩).length := by
      simpa using congrArg List.length h
    rw [← rootFlags_wr, h, rootFlags_wr, hlen]; exact a3
  · unfold ParentsPersisted at a4 ⊢; rw [← parentsOf_wr, h, parentsOf_wr]; exact a4
  · exact (both_wr plan).mp (h ▸ (both_wr _).mpr a5)
  · obtain ⟨st, hst⟩ := a6
    exact ⟨st, by rw [← spanRun_wr, h, spanRun_wr]; exact hst⟩

example : planPostWF 2048 0
    [.leaf 0 1024 false [7], .leaf 1 1024 false [], .parent 0 true true true []] = none :=
  (planPostWF_none_iff_model 2048 0 (by decide) (by decide) _).mpr (by decide +kernel)

end Bao.SpecPostU

/-
Status.
PROVED (no sorry; axioms: propext, Classical.choice, Quot.sound at most):
  * `planPostWF_unique`   — `size ≤ 2^63`, `bs ≤ 10`, `planPostWF size bs plan = none` ⟹
                            `plan.map withoutRanges = (⟨size, bs⟩ : Tree).postOrderChunks.map withoutRanges`
                            (the OPEN item of `Props/C15SpecPost.lean`).
  * `planPostWF_unique'`  — same, right-hand side the model plan itself (`model_withoutRanges`: the
                            model plan has empty `ranges` fields).
  * `planPostWF_none_iff_model` — the predicate accepts a plan IFF it is the model plan up to ranges.
  * `planPostWF_unique2`  — any two accepted plans agree up to ranges (every `size`, `bs`, no bounds).
  * `clauses_unique`      — the same from clauses 1, 3, 4, 5, 6 (clause 2, `StackOk`, is not needed).
  * `core_unique`         — same leaves, same parents, distinct leaf starts, span walks run through
                            from a common stack whose span starts are not starts of coming leaves ⟹
                            same items up to flags and ranges (`strip`).
  helpers: `spanRun_parent_inv`, `next_parent_top`, `leaf_vs_parent`, `withoutRanges_eq_of`,
  `map_withoutRanges_eq_of`, `wantLeaves_nodup`, `wr_planRec`, `model_withoutRanges`,
  `leavesOf_wr`, `parentsOf_wr`, `rootFlags_wr`, `stackRun_wr`, `spanRun_wr`, `both_wr`.
PARTIAL: none.   OPEN: none.
Remark on the predicate: leaf root flags are covered by `RootLast` (flag on the last item only), so
for a single-leaf plan the only leaf carries `isRoot = true`; `StackOk` is redundant given the
other five clauses.
-/
