import BaoProofs.Lemmas.Offsets

/-!
# C13 — stable and unstable post-order offsets

"A node is classified stable exactly when its whole subtree lies inside the blob; stable nodes keep
their post-order slot when the blob is extended by appending, and they occupy a prefix of the
outboard with all unstable nodes after them."
-/

namespace Bao.C13

open Bao Bao.Offsets
open Bao.Spec (nodeOf endOf)

/-- a node `(k, L)` of level `≥ bs` is classified stable iff its (untruncated) chunk interval ends
inside the blob; the stable slot is the complete-tree post-order offset of the shifted node -/
theorem stable_iff (size bs k L : Nat) (hs : size ≤ 2 ^ 63) (_hbs : bs ≤ 10) (hL : bs ≤ L) :
    ((∃ v, Tree.postOrderOffset ⟨size, bs⟩ (nodeOf k L) = some (.stable v)) ↔
      endOf k L * 1024 ≤ size) ∧
    (∀ v, Tree.postOrderOffset ⟨size, bs⟩ (nodeOf k L) = some (.stable v) →
      v = Node.postOrderOffset (nodeOf k (L - bs))) := by
  refine ⟨⟨fun ⟨v, hv⟩ => ((stable_iff_coord size bs k L hs hL v).mp hv).1, fun h => ?_⟩,
    fun v hv => ((stable_iff_coord size bs k L hs hL v).mp hv).2⟩
  exact ⟨_, (stable_iff_coord size bs k L hs hL _).mpr ⟨h, rfl⟩⟩

example : (∃ v, Tree.postOrderOffset ⟨20000, 1⟩ (nodeOf 1 2) = some (.stable v)) :=
  (stable_iff 20000 1 1 2 (by decide) (by decide) (by decide)).1.mpr (by decide)

/-- a stable node keeps its classification and its slot when the blob grows -/
theorem stable_independent (size size' bs x v : Nat) (hle : size ≤ size')
    (h : Tree.postOrderOffset ⟨size, bs⟩ x = some (.stable v)) :
    Tree.postOrderOffset ⟨size', bs⟩ x = Tree.postOrderOffset ⟨size, bs⟩ x := by
  rw [h]; exact stable_mono size size' bs x v hle h

example : Tree.postOrderOffset ⟨30000, 1⟩ 11 = Tree.postOrderOffset ⟨20000, 1⟩ 11 :=
  stable_independent 20000 30000 1 11 5 (by decide) (by decide)

/-- the stable persisted nodes occupy the slots `0 … S-1`, the unstable ones the slots `S …`,
where `S` is the number of stable persisted nodes -/
theorem stable_prefix (size bs : Nat) (hs : size ≤ 2 ^ 63) (_hbs : bs ≤ 10) :
    let P := Spec.persistedPost size bs
    let S := P.countP (isStable ⟨size, bs⟩)
    ∀ x ∈ P, ∀ v,
      (Tree.postOrderOffset ⟨size, bs⟩ x = some (.stable v) → v < S) ∧
      (Tree.postOrderOffset ⟨size, bs⟩ x = some (.unstable v) → S ≤ v) := by
  intro P S x hx v
  obtain ⟨i, hi, rfl⟩ := List.getElem_of_mem hx
  have hval := getElem_of_map_eq_range P
    (fun x => (Tree.postOrderOffset ⟨size, bs⟩ x).map Tree.PostOffset.value) 0
    (persistedPost_offsets size bs hs).2 i hi
  have hpre := prefix_of_pairwise (isStable ⟨size, bs⟩) P (persistedPost_pairwise size bs hs) i hi
  simp only [Nat.zero_add] at hval
  constructor
  · intro h
    rw [h] at hval
    simp only [Option.map_some, Tree.PostOffset.value, Option.some.injEq] at hval
    have : isStable ⟨size, bs⟩ P[i] = true := (isStable_iff _ _).mpr ⟨v, h⟩
    have := hpre.mp this
    omega
  · intro h
    rw [h] at hval
    simp only [Option.map_some, Tree.PostOffset.value, Option.some.injEq] at hval
    have hns : ¬ isStable ⟨size, bs⟩ P[i] = true := by
      rw [isStable_iff]
      rintro ⟨w, hw⟩
      rw [h] at hw
      simp at hw
    have := mt hpre.mpr hns
    omega

example : Tree.postOrderOffset ⟨20000, 1⟩ 15 = some (.unstable 8) ∧
    (Spec.persistedPost 20000 1).countP (isStable ⟨20000, 1⟩) ≤ 8 :=
  ⟨by decide, ((stable_prefix 20000 1 (by decide) (by decide)) 15 (by decide) 8).2 (by decide)⟩

end Bao.C13

/-
Status.
PROVED (full strength):
  * `stable_iff`          — stable ⇔ `endOf k L * 1024 ≤ size` (no bound on the id needed: ids
                            `≥ 2^64` make both sides false); plus the value of the stable slot.
  * `stable_independent`  — a stable answer is unchanged for every larger size (no bounds needed).
  * `stable_prefix`       — stable persisted nodes have slots `< S`, unstable ones `≥ S`,
                            `S` = number of stable persisted nodes (`countP isStable`).
PARTIAL: none.   OPEN: none.
-/
