import BaoProofs.Lemmas.SpecSerdeL

/-!
# The executable specification verdict of `serde` (C19) never rejects the model

`Ops.opSerde [desc]` prints for a value descriptor the line
`pc=<digest of the postcard bytes> js=<digest of the JSON bytes> rt=<b1><b2>` (`Ops.serdeOut`), where
`b1`, `b2` say whether the MODEL codecs of `BaoModel/Serde.lean` read the value back from its own
serialisation (whole input consumed).  The verdict accepts an implementation line iff it ends in
`rt=11`.  So "the verdict never rejects the model's own output" is: within the bounds of the C19
theorems both model round trips succeed.  This file derives it from `Props/C19.lean`:

1. component level: `rt_u64`, `rt_parent`, `rt_leaf`, `rt_encerr`, `rt_content`, `rt_encitem` – both
   booleans are `true` for a well-formed value; `out_endsWith` – the line of a value ends in `rt=11`
   iff both booleans are `true`; `out_rt11` – it does for a well-formed value;
2. op level: `serde_model` (what the model prints), `serde_specFail` (every descriptor string that
   parses, `parseVal (desc.splitOn ":") = some v`, within the number bounds `v.Bound`),
   `serde_no_false_alarm` (every descriptor `d : Desc` as the generator renders it, `d.str`);
3. outside the bounds the verdict DOES reject the model's own output: `false_alarm_beyond_u64`.

Bounds (`Val.Bound` / `Desc.Bound`): node ids, chunk numbers, offsets, sizes `< 2^64`; the length of a
leaf's data and of an io error text (`kind ++ ":" ++ message`) `< 2^64`.  The 32 bytes of the two hashes
of a parent are NOT a hypothesis (`randBytes_length`); no UTF-8 hypothesis on io error texts is needed
(the JSON string codec of the model round-trips every byte string, `C19.roundtrip_json_string_suffix`).
-/

namespace Bao.SpecSerde
open Bao Bao.Ops Bao.Proto Bao.Serde Bao.SerdeL Bao.SpecIndex Bao.SpecOb

/-! ## 1. component level: the two round-trip booleans -/

/-- `u64` (node ids, chunk numbers): both model round trips succeed -/
theorem rt_u64 (n : Nat) (h : n < 2 ^ 64) :
    rtOk n (readVarint (varint n)) = true ∧ rtOk n (jsReadNat (jsNat n)) = true := by
  rw [(C19.roundtrip_u64 n h).1, (C19.roundtrip_u64 n h).2]
  exact ⟨rtOk_some n (beq_self_eq_true n), rtOk_some n (beq_self_eq_true n)⟩

example : rtOk 300 (readVarint (varint 300)) = true ∧ rtOk 300 (jsReadNat (jsNat 300)) = true :=
  rt_u64 300 (by decide)

/-- `Parent` -/
theorem rt_parent (p : ParentV) (h : ParentWF p) :
    rtOk p (pcReadParent (pcParent p)) = true ∧ rtOk p (jsReadParent (jsParent p)) = true := by
  rw [C19.roundtrip_postcard_parent p h.1 h.2.1 h.2.2, C19.roundtrip_json_parent p h.1 h.2.1 h.2.2]
  exact ⟨rtOk_some p (beq_parent p), rtOk_some p (beq_parent p)⟩

example : rtOk C19.exParent (pcReadParent (pcParent C19.exParent)) = true ∧
    rtOk C19.exParent (jsReadParent (jsParent C19.exParent)) = true :=
  rt_parent C19.exParent ⟨by decide, by decide, by decide⟩

/-- `Leaf` -/
theorem rt_leaf (l : LeafV) (h : LeafWF l) (hl : LeafLen l) :
    rtOk l (pcReadLeaf (pcLeaf l)) = true ∧ rtOk l (jsReadLeaf (jsLeaf l)) = true := by
  rw [C19.roundtrip_postcard_leaf l h hl, C19.roundtrip_json_leaf l h]
  exact ⟨rtOk_some l (beq_leaf l), rtOk_some l (beq_leaf l)⟩

example : rtOk C19.exLeaf (pcReadLeaf (pcLeaf C19.exLeaf)) = true ∧
    rtOk C19.exLeaf (jsReadLeaf (jsLeaf C19.exLeaf)) = true :=
  rt_leaf C19.exLeaf (show (1024 : Nat) < 2 ^ 64 by decide) (show (3 : Nat) < 2 ^ 64 by decide)

/-- `EncodeError` -/
theorem rt_encerr (e : EncErrV) (h : EncErrWF e) (hl : EncErrLen e) :
    rtOk e (pcReadEncErr (pcEncErr e)) = true ∧ rtOk e (jsReadEncErr (jsEncErr e)) = true := by
  rw [C19.roundtrip_postcard_encerr e h hl, C19.roundtrip_json_encerr e h]
  exact ⟨rtOk_some e (beq_err e), rtOk_some e (beq_err e)⟩

example : rtOk (EncErrV.io [79, 34, 10]) (pcReadEncErr (pcEncErr (.io [79, 34, 10]))) = true ∧
    rtOk (EncErrV.io [79, 34, 10]) (jsReadEncErr (jsEncErr (.io [79, 34, 10]))) = true :=
  rt_encerr (.io [79, 34, 10]) trivial (show (3 : Nat) < 2 ^ 64 by decide)

/-- `BaoContentItem` -/
theorem rt_content (c : ContentV) (h : ContentWF c) (hl : ContentLen c) :
    rtOk c (pcReadContent (pcContent c)) = true ∧ rtOk c (jsReadContent (jsContent c)) = true := by
  rw [C19.roundtrip_postcard_content c h hl, C19.roundtrip_json_content c h]
  exact ⟨rtOk_some c (beq_content c), rtOk_some c (beq_content c)⟩

example : rtOk (ContentV.parent C19.exParent) (pcReadContent (pcContent (.parent C19.exParent))) = true ∧
    rtOk (ContentV.parent C19.exParent) (jsReadContent (jsContent (.parent C19.exParent))) = true :=
  rt_content (.parent C19.exParent) ⟨by decide, by decide, by decide⟩ trivial

/-- `EncodedItem` -/
theorem rt_encitem (i : EncItemV) (h : EncItemWF i) (hl : EncItemLen i) :
    rtOk i (pcReadEncItem (pcEncItem i)) = true ∧ rtOk i (jsReadEncItem (jsEncItem i)) = true := by
  rw [C19.roundtrip_postcard_encitem i h hl, C19.roundtrip_json_encitem i h]
  exact ⟨rtOk_some i (beq_item i), rtOk_some i (beq_item i)⟩

example : rtOk (EncItemV.size 4096) (pcReadEncItem (pcEncItem (.size 4096))) = true ∧
    rtOk (EncItemV.size 4096) (jsReadEncItem (jsEncItem (.size 4096))) = true :=
  rt_encitem (.size 4096) (show (4096 : Nat) < 2 ^ 64 by decide) trivial

/-- the two round-trip booleans of the line of a value -/
def Val.rt : Val → Bool × Bool
  | .u64 n => (rtOk n (readVarint (varint n)), rtOk n (jsReadNat (jsNat n)))
  | .parent p => (rtOk p (pcReadParent (pcParent p)), rtOk p (jsReadParent (jsParent p)))
  | .leaf l => (rtOk l (pcReadLeaf (pcLeaf l)), rtOk l (jsReadLeaf (jsLeaf l)))
  | .content c => (rtOk c (pcReadContent (pcContent c)), rtOk c (jsReadContent (jsContent c)))
  | .err e => (rtOk e (pcReadEncErr (pcEncErr e)), rtOk e (jsReadEncErr (jsEncErr e)))
  | .item i => (rtOk i (pcReadEncItem (pcEncItem i)), rtOk i (jsReadEncItem (jsEncItem i)))

/-- the model's line of a value ends in `rt=11` iff both model round trips succeed (no hypothesis):
this is all the verdict looks at -/
theorem out_endsWith (v : Val) : v.out.endsWith "rt=11" = (v.rt.1 && v.rt.2) := by
  cases v <;> exact serdeOut_endsWith _ _ _ _ _

/-- well-formed values: both booleans are `true` -/
theorem rt_of_wf (v : Val) (h : v.WF) : v.rt = (true, true) := by
  cases v with
  | u64 n => exact Prod.ext (rt_u64 n h).1 (rt_u64 n h).2
  | parent p => exact Prod.ext (rt_parent p h).1 (rt_parent p h).2
  | leaf l => exact Prod.ext (rt_leaf l h.1 h.2).1 (rt_leaf l h.1 h.2).2
  | content c => exact Prod.ext (rt_content c h.1 h.2).1 (rt_content c h.1 h.2).2
  | err e => exact Prod.ext (rt_encerr e h.1 h.2).1 (rt_encerr e h.1 h.2).2
  | item i => exact Prod.ext (rt_encitem i h.1 h.2).1 (rt_encitem i h.1 h.2).2

example : (Val.item (.error (.parentWrite 3))).rt = (true, true) :=
  rt_of_wf _ ⟨show (3 : Nat) < 2 ^ 64 by decide, trivial⟩

/-- the model's line of a well-formed value ends in `rt=11` -/
theorem out_rt11 (v : Val) (h : v.WF) : v.out.endsWith "rt=11" = true := by
  rw [out_endsWith, rt_of_wf v h]; rfl

example : (Val.leaf C19.exLeaf).out.endsWith "rt=11" = true :=
  out_rt11 _ ⟨show (1024 : Nat) < 2 ^ 64 by decide, show (3 : Nat) < 2 ^ 64 by decide⟩

/-! ## 2. op level -/

/-- what `opSerde` does with a descriptor that parses: the model prints the line of the value, the
verdict asks for a line ending in `rt=11` -/
theorem serde_model (desc impl : String) (v : Val) (hp : parseVal (desc.splitOn ":") = some v) :
    (opSerde [desc] impl).model = v.out ∧
    (opSerde [desc] impl).specFail
      = if impl.endsWith "rt=11" then none
        else some "a value does not survive serialisation (postcard, json)" := by
  rw [opSerde_eq, serdeModel_eq, hp]
  exact ⟨rfl, rfl⟩

/-- a descriptor that does not parse is reported as `bad-op` (not judged) -/
theorem serde_bad (desc impl : String) (hp : parseVal (desc.splitOn ":") = none) :
    opSerde [desc] impl = bad "serde" := by
  rw [opSerde_eq, serdeModel_eq, hp]
  rfl

example : opSerde ["node:5:6"] "x" = bad "serde" := by
  have hs : "node:5:6".splitOn ":" = ["node", "5", "6"] := by
    rw [show "node:5:6" = ":".intercalate ["node", "5", "6"] by decide]
    exact splitOn_colon_intercalate _ (by simp) (by decide)
  exact serde_bad _ _ (by rw [hs]; rfl)

/-- every descriptor that parses, the value within the number bounds: the verdict accepts the model's
own output -/
theorem serde_specFail (desc impl : String) (v : Val) (hp : parseVal (desc.splitOn ":") = some v)
    (hb : v.Bound) : (opSerde [desc] (opSerde [desc] impl).model).specFail = none := by
  rw [(serde_model desc impl v hp).1, (serde_model desc _ v hp).2,
    out_rt11 v (parseVal_wf _ v hp hb)]
  rfl

/-- a descriptor that is not a rendering of a `Desc`: `mkParentV` ignores further tokens -/
theorem parse_junk : parseVal ("parent:7:6:junk".splitOn ":") = some (.parent (mkP 7 6)) := by
  have hs : "parent:7:6:junk".splitOn ":" = ["parent", toString 7, toString 6, "junk"] := by
    rw [show "parent:7:6:junk" = ":".intercalate ["parent", toString 7, toString 6, "junk"] by decide]
    exact splitOn_colon_intercalate _ (by simp) (by decide)
  rw [hs]
  simp only [parseVal, mkParentV, toNat?_toString, Option.bind_eq_bind, Option.bind_some,
    Option.pure_def, mkP, Option.map_some]

example : (opSerde ["parent:7:6:junk"] (opSerde ["parent:7:6:junk"] "").model).specFail = none :=
  serde_specFail _ "" _ parse_junk (show (7 : Nat) < 2 ^ 64 by decide)

/-- the same with the number bounds stated on the parsed value as a function of the descriptor: for
every descriptor, if it parses and the value is within the bounds -/
theorem serde_specFail_of_isSome (desc impl : String)
    (hb : ∀ v, parseVal (desc.splitOn ":") = some v → v.Bound)
    (hp : (parseVal (desc.splitOn ":")).isSome = true) :
    (opSerde [desc] (opSerde [desc] impl).model).specFail = none := by
  obtain ⟨v, hv⟩ := Option.isSome_iff_exists.1 hp
  exact serde_specFail desc impl v hv (hb v hv)

example : (opSerde ["parent:7:6:junk"] (opSerde ["parent:7:6:junk"] "").model).specFail = none :=
  serde_specFail_of_isSome _ ""
    (fun v hv => by rw [parse_junk] at hv; cases hv; exact (show (7 : Nat) < 2 ^ 64 by decide))
    (by rw [parse_junk]; rfl)

/-- the descriptors as the case generator renders them (`Desc.str`: tokens joined with `:`, numbers in
decimal, io messages in hex; all twelve forms of `opSerde` and all eight of `mkErrV`): the verdict
accepts the model's own output.  `hc`: the free-text tokens (io error kind, errno) contain no `:`;
`hb`: the number bounds -/
theorem serde_no_false_alarm (d : Desc) (impl : String) (hc : d.NoColon) (hb : d.Bound) :
    (opSerde [d.str] (opSerde [d.str] impl).model).specFail = none :=
  serde_specFail d.str impl d.val (by rw [split_str d hc]; exact parseVal_toks d) (descBound d hb)

/-- the same for a string `s` that is the rendering of `d` (for literals: `by decide`) -/
theorem serde_no_false_alarm_str (s : String) (d : Desc) (hs : d.str = s) (impl : String)
    (hc : d.NoColon) (hb : d.Bound) : (opSerde [s] (opSerde [s] impl).model).specFail = none :=
  hs ▸ serde_no_false_alarm d impl hc hb

/-- the rendered descriptor strings are the ones of the generator -/
example : (Desc.node 5).str = "node:5" ∧ (Desc.contentLeaf 1024 3 7).str = "content:leaf:1024:3:7" ∧
    (Desc.itemError (.ioo "5" "Uncategorized" [1, 2, 255])).str
      = "item:error:ioo:5:Uncategorized:0102ff" ∧
    (Desc.err (.io "Other" [])).str = "err:io:Other:-" ∧ Desc.itemDone.str = "item:done" := by
  decide

example : (opSerde ["node:18446744073709551615"]
    (opSerde ["node:18446744073709551615"] "").model).specFail = none :=
  serde_no_false_alarm_str _ (.node (2 ^ 64 - 1)) (by decide) "" trivial (by decide)

example : (opSerde ["chunk:0"] (opSerde ["chunk:0"] "x").model).specFail = none :=
  serde_no_false_alarm_str _ (.chunk 0) (by decide) "x" trivial (by decide)

example : (opSerde ["parent:7:3"] (opSerde ["parent:7:3"] "").model).specFail = none :=
  serde_no_false_alarm_str _ (.parent 7 3) (by decide) "" trivial (by decide)

example : (opSerde ["leaf:1024:300:9"] (opSerde ["leaf:1024:300:9"] "").model).specFail = none :=
  serde_no_false_alarm_str _ (.leaf 1024 300 9) (by decide) "" trivial (by decide)

example : (opSerde ["content:parent:7:3"] (opSerde ["content:parent:7:3"] "").model).specFail = none :=
  serde_no_false_alarm_str _ (.contentParent 7 3) (by decide) "" trivial (by decide)

example : (opSerde ["content:leaf:1024:3:7"] (opSerde ["content:leaf:1024:3:7"] "").model).specFail
    = none :=
  serde_no_false_alarm_str _ (.contentLeaf 1024 3 7) (by decide) "" trivial (by decide)

example : (opSerde ["err:lw:12"] (opSerde ["err:lw:12"] "").model).specFail = none :=
  serde_no_false_alarm_str _ (.err (.lw 12)) (by decide) "" trivial (by decide)

example : (opSerde ["err:sm"] (opSerde ["err:sm"] "").model).specFail = none :=
  serde_no_false_alarm_str _ (.err .sm) (by decide) "" trivial trivial

/-- `io` with the message `"a\n` (quote, control character) -/
example : (opSerde ["err:io:NotFound:61220a"] (opSerde ["err:io:NotFound:61220a"] "").model).specFail
    = none :=
  serde_no_false_alarm_str _ (.err (.io "NotFound" [0x61, 0x22, 0x0a])) (by decide) "" (by decide) (by decide)

example : (opSerde ["err:ios:Other:-"] (opSerde ["err:ios:Other:-"] "").model).specFail = none :=
  serde_no_false_alarm_str _ (.err (.ios "Other" [])) (by decide) "" (by decide) (by decide)

example : (opSerde ["item:error:ioo:5:Uncategorized:0102ff"]
    (opSerde ["item:error:ioo:5:Uncategorized:0102ff"] "").model).specFail = none :=
  serde_no_false_alarm_str _ (.itemError (.ioo "5" "Uncategorized" [1, 2, 255])) (by decide) "" (by decide) (by decide)

example : (opSerde ["item:size:4096"] (opSerde ["item:size:4096"] "").model).specFail = none :=
  serde_no_false_alarm_str _ (.itemSize 4096) (by decide) "" trivial (by decide)

example : (opSerde ["item:parent:7:3"] (opSerde ["item:parent:7:3"] "").model).specFail = none :=
  serde_no_false_alarm_str _ (.itemParent 7 3) (by decide) "" trivial (by decide)

example : (opSerde ["item:leaf:0:0:1"] (opSerde ["item:leaf:0:0:1"] "").model).specFail = none :=
  serde_no_false_alarm_str _ (.itemLeaf 0 0 1) (by decide) "" trivial (by decide)

example : (opSerde ["item:error:phm:3"] (opSerde ["item:error:phm:3"] "").model).specFail = none :=
  serde_no_false_alarm_str _ (.itemError (.phm 3)) (by decide) "" trivial (by decide)

example : (opSerde ["item:done"] (opSerde ["item:done"] "").model).specFail = none :=
  serde_no_false_alarm_str _ .itemDone (by decide) "" trivial trivial

/-- the verdict rejects a wrong output: a line whose JSON round trip failed -/
example : (opSerde ["item:done"] "pc=1:12638187200555641996 js=6:1 rt=10").specFail
    = some "a value does not survive serialisation (postcard, json)" := by
  rw [(serde_model "item:done" _ Desc.itemDone.val
    (by rw [show "item:done" = Desc.itemDone.str by decide, split_str Desc.itemDone trivial]; rfl)).2]
  rw [if_neg (by rw [endsWith_iff]; decide)]

/-- … and an empty output -/
example : (opSerde ["item:done"] "").specFail
    = some "a value does not survive serialisation (postcard, json)" := by
  rw [(serde_model "item:done" _ Desc.itemDone.val
    (by rw [show "item:done" = Desc.itemDone.str by decide, split_str Desc.itemDone trivial]; rfl)).2]
  rw [if_neg (by rw [endsWith_iff]; decide)]

/-! ## 3. outside the bounds: a false alarm of the machinery -/

/-- the bound is needed: `10^20` is not a `u64`; the model's JSON number writer stops after 20 digits,
the JSON round trip of the MODEL fails, the model prints `rt=10`, and the verdict rejects the model's
own output.  (The model's postcard varint has 10 groups, enough for `< 2^70`, and its JSON number
writer 20 digits, enough for `< 10^20`: for `2^64 ≤ n < 10^20` the model still prints `rt=11`.)
The generator only emits `u64` numbers, lengths `≤ 70000` and short messages. -/
theorem false_alarm_beyond_u64 (impl : String) :
    (Val.u64 (10 ^ 20)).rt = (true, false) ∧
    (opSerde [(Desc.node (10 ^ 20)).str] (opSerde [(Desc.node (10 ^ 20)).str] impl).model).specFail
      = some "a value does not survive serialisation (postcard, json)" := by
  have hrt : (Val.u64 (10 ^ 20)).rt = (true, false) := by decide
  have hp : parseVal ((Desc.node (10 ^ 20)).str.splitOn ":") = some (Val.u64 (10 ^ 20)) := by
    rw [split_str (Desc.node (10 ^ 20)) trivial]; exact parseVal_toks _
  refine ⟨hrt, ?_⟩
  rw [(serde_model _ impl _ hp).1, (serde_model _ _ _ hp).2, out_endsWith, hrt]
  rfl

example : (Desc.node (10 ^ 20)).str = "node:100000000000000000000" := by decide

end Bao.SpecSerde

/-
Status (no-false-alarm theorem for `serde`, property C19).

PROVED (full strength; axioms of every theorem: [propext, Classical.choice, Quot.sound]):
  1. component level
     `rt_u64`, `rt_parent`, `rt_leaf`, `rt_encerr`, `rt_content`, `rt_encitem`   the two round-trip booleans
       of `serdeOut` (`rtOk`, the local `ok` of `serdeOut`; `serdeOut_eq` by `rfl`) are `true` for a
       well-formed value, from `C19.roundtrip_*` and reflexivity of the derived `BEq` (`beq_parent` …);
     `out_endsWith`   NO hypothesis: the model's line ends in `rt=11` iff both booleans are `true`
       (`serdeOut_endsWith`, `endsWith_rt` in `SpecSerdeL`);
     `rt_of_wf`, `out_rt11`   well-formed value (`Val.WF`): both `true`, the line ends in `rt=11`.
  2. op level
     `serde_model`   for `parseVal (desc.splitOn ":") = some v`: model line `= v.out`, verdict `=
       if impl.endsWith "rt=11" then none else some …` (`opSerde_eq`: `serdeModel`, `serdeVerdict` ARE the
       `let m` / final `match` of `opSerde`, by `rfl`; `serdeModel_eq : serdeModel p = (parseVal p).map Val.out`);
     `serde_bad`   `parseVal … = none`: `bad "serde"`;
     `serde_specFail`   EVERY descriptor string that parses, value within the number bounds `v.Bound`:
       `(opSerde [desc] (opSerde [desc] impl).model).specFail = none`
       (all twelve `match` arms of `opSerde`, all forms of `mkParentV` / `mkLeafV` / `mkErrV`; 32-byte hashes
       by `mkParentV_len` from `randBytes_length`, via `parseVal_wf`);
     `serde_specFail_of_isSome`   the same, bounds quantified over the parse result;
     `serde_no_false_alarm`, `serde_no_false_alarm_str`   the descriptors as the generator renders them
       (`Desc`, `Desc.str`; `node chunk parent leaf content:parent content:leaf err:{phm,lhm,pw,lw,sm,io,ios,ioo}
       item:{size,parent,leaf,error:…,done}`) with the bounds on the inputs (`Desc.Bound`) and `:`-free kind /
       errno tokens (`Desc.NoColon`); uses `splitOn_colon_intercalate`, `parseHex_hex`, `noColon_hex`.
  3. `false_alarm_beyond_u64`   outside the bounds the verdict rejects the model's own output:
       `node:100000000000000000000` (`10^20`, not a `u64`): the model prints `rt=10`.

Bounds needed: numbers (node id, chunk number, offset, size) `< 2^64`; `len` of a leaf `< 2^64`; length of an io
error text `kind.length + 1 + message.length < 2^64`.  NOT needed: 32-byte hash halves (proved), UTF-8 validity
of io error texts (the model's JSON string codec round-trips arbitrary bytes), any bound on seeds.

PARTIAL: none.   OPEN: none.

FINDING (false alarm of the machinery only for arguments no generator emits): the model codecs have fixed fuel
(varint 10 groups: `< 2^70`; JSON number 20 digits: `< 10^20`), so for a number `≥ 10^20` the MODEL's own round trip
fails, the model line ends in `rt=10` / `rt=00`, and the verdict (which only looks at the line it is given) would
reject the model's output.  For `2^64 ≤ n < 10^20` the model still prints `rt=11`, i.e. the theorem holds with the
weaker bound, but such a number is not a `u64` and the implementation cannot parse it.  `harness/src/gen3.rs`
("C19") emits `u64` numbers only (`Vec<u64>`, `r.next() >> k`), lengths `≤ 70000`, seeds `< 1000`, messages of
`≤ 300` bytes, kinds `{:?}` of `io::ErrorKind` (no `:`), errno in decimal: always within the bounds.
Note: the verdict judges the implementation line only by its suffix `rt=11`; the digests `pc=… js=…` are compared
by the driver's model-vs-implementation string comparison, not by the verdict.
-/
