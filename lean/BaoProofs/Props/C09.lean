import BaoProofs.Lemmas.DecodeSpec

/-!
# C09 — stream faults are classified and located exactly

"Cut at any byte → all items that lie completely before the cut, then a not-found error naming the
parent node or chunk whose bytes are missing; a byte altered → all items before the altered one,
then a hash-mismatch error naming exactly the altered parent node or the altered leaf's first
chunk; as io errors these are UnexpectedEof and InvalidData; no stream makes a decoder panic."

Vocabulary (`Lemmas/DecodeSpec.lean`): `e := Spec.encode hf d bs q` is the honest stream, the
concatenation of the bytes of `I := Spec.items hf d bs q`; `locate I k` is the index of the item
that contains byte `k` (by cumulative sizes); `SItem.notFound` / `SItem.mismatch` are
`.parentNotFound node` / `.leafNotFound startChunk` and `.parentHashMismatch node` /
`.leafHashMismatch startChunk` of an item; `toItem hf` is the item the decoder returns.

Collision freedom.  `CollisionFree hf` together with `hrt` and `hlen` is unsatisfiable
(`Lemmas/CFUnsat.lean`), and the honest run needs `hrt`/`hlen`.  `alteration` therefore assumes
collision freedom only for the finitely many hash inputs of the check of the honest and of the
altered item (`NoCollision hf (itemInputs …)`): one parent input each for a parent item, the inputs
of the two tree hashes for a leaf.  It also assumes `hinj`: `ofBytes` is injective on 32-byte
strings — otherwise two different 64-byte strings are the same pair and the alteration is invisible.
-/

namespace Bao.C09
open Bao Bao.Spec Bao.DecodeSpec Bao.PlanPre

variable {H : Type} {hf : HashFns H}

section
variable [BEq H] [LawfulBEq H]

/-- **cut stream**: decoding the first `k` bytes of the honest stream (`k` inside the stream)
returns exactly the items that lie completely in front of the cut, then fails with the not-found
error of the item `it` the cut falls into — `.parentNotFound node` or `.leafNotFound startChunk` -/
theorem truncation (hrt : ∀ h, hf.ofBytes (hf.toBytes h) = h)
    (hlen : ∀ h, (hf.toBytes h).length = 32) (fl : Flavour) (d : List UInt8) (bs : Nat)
    (q : Ranges) (hd : d.length ≤ 2 ^ 63) (hwf : Ranges.WF q = true) (k : Nat)
    (hk : k < (Spec.encode hf d bs q).length) :
    ∃ it, (Spec.items hf d bs q)[locate (Spec.items hf d bs q) k]? = some it ∧
      (decodeAll hf fl (Spec.root hf d) ⟨d.length, bs⟩ q ((Spec.encode hf d bs q).take k)).items
        = ((Spec.items hf d bs q).take (locate (Spec.items hf d bs q) k)).map (toItem hf) ∧
      (decodeAll hf fl (Spec.root hf d) ⟨d.length, bs⟩ q ((Spec.encode hf d bs q).take k)).terminal
        = .err it.notFound :=
  decode_truncated hrt hlen fl d bs q hd hwf k hk

/-- **altered stream**: `e'` has the length of the honest stream `e`, agrees with it in front of
byte `k` and differs at byte `k`.  With `it` the item that contains byte `k`, `off` the offset of
`it` in the stream and `b'` the bytes of `e'` in the place of `it`: if the hash inputs of the check of
`it` on its honest bytes and on `b'` do not collide, decoding `e'` returns exactly the items in
front of `it`, then fails with the hash-mismatch error of `it` — `.parentHashMismatch node` or
`.leafHashMismatch startChunk` -/
theorem alteration (hrt : ∀ h, hf.ofBytes (hf.toBytes h) = h)
    (hlen : ∀ h, (hf.toBytes h).length = 32)
    (hinj : ∀ a b : List UInt8, a.length = 32 → b.length = 32 → hf.ofBytes a = hf.ofBytes b → a = b)
    (fl : Flavour) (d : List UInt8) (bs : Nat) (q : Ranges) (hd : d.length ≤ 2 ^ 63)
    (hwf : Ranges.WF q = true) (e' : List UInt8) (k : Nat)
    (hk : k < (Spec.encode hf d bs q).length) (hl : e'.length = (Spec.encode hf d bs q).length)
    (hpre : e'.take k = (Spec.encode hf d bs q).take k)
    (hdiff : e'[k]? ≠ (Spec.encode hf d bs q)[k]?) :
    ∃ it, (Spec.items hf d bs q)[locate (Spec.items hf d bs q) k]? = some it ∧
      ((∀ f, NoCollision hf (itemInputs hf f it it.bytes ++ itemInputs hf f it
          ((e'.drop (((Spec.items hf d bs q).take
            (locate (Spec.items hf d bs q) k)).flatMap SItem.bytes).length).take it.bytes.length))) →
        (decodeAll hf fl (Spec.root hf d) ⟨d.length, bs⟩ q e').items
          = ((Spec.items hf d bs q).take (locate (Spec.items hf d bs q) k)).map (toItem hf) ∧
        (decodeAll hf fl (Spec.root hf d) ⟨d.length, bs⟩ q e').terminal = .err it.mismatch) :=
  decode_altered hrt hlen hinj fl d bs q hd hwf e' k hk hl hpre hdiff

/-- the same under the global `CollisionFree hf`.  NOTE: `cf`, `hrt` and `hlen` together are
unsatisfiable (`collisionFree_wire_unsat`), so this form is vacuous; it is kept only because it is
the shape in which the property is usually quoted.  Use `alteration`. -/
theorem alteration_cf (cf : CollisionFree hf) (hrt : ∀ h, hf.ofBytes (hf.toBytes h) = h)
    (hlen : ∀ h, (hf.toBytes h).length = 32)
    (hinj : ∀ a b : List UInt8, a.length = 32 → b.length = 32 → hf.ofBytes a = hf.ofBytes b → a = b)
    (fl : Flavour) (d : List UInt8) (bs : Nat) (q : Ranges) (hd : d.length ≤ 2 ^ 63)
    (hwf : Ranges.WF q = true) (e' : List UInt8) (k : Nat)
    (hk : k < (Spec.encode hf d bs q).length) (hl : e'.length = (Spec.encode hf d bs q).length)
    (hpre : e'.take k = (Spec.encode hf d bs q).take k)
    (hdiff : e'[k]? ≠ (Spec.encode hf d bs q)[k]?) :
    ∃ it, (Spec.items hf d bs q)[locate (Spec.items hf d bs q) k]? = some it ∧
      (decodeAll hf fl (Spec.root hf d) ⟨d.length, bs⟩ q e').items
        = ((Spec.items hf d bs q).take (locate (Spec.items hf d bs q) k)).map (toItem hf) ∧
      (decodeAll hf fl (Spec.root hf d) ⟨d.length, bs⟩ q e').terminal = .err it.mismatch := by
  obtain ⟨it, h1, h2⟩ := alteration hrt hlen hinj fl d bs q hd hwf e' k hk hl hpre hdiff
  exact ⟨it, h1, h2 (fun _ => NoCollision.of_cf cf _)⟩

end

/-- **io kinds**: converted to `io::Error`, the not-found errors are `UnexpectedEof` and the
hash-mismatch errors are `InvalidData` -/
theorem io_kind (n : Nat) (it : SItem) :
    (DecodeError.parentNotFound n).toIoKind = .unexpectedEof ∧
    (DecodeError.leafNotFound n).toIoKind = .unexpectedEof ∧
    (DecodeError.parentHashMismatch n).toIoKind = .invalidData ∧
    (DecodeError.leafHashMismatch n).toIoKind = .invalidData ∧
    it.notFound.toIoKind = .unexpectedEof ∧ it.mismatch.toIoKind = .invalidData := by
  refine ⟨rfl, rfl, rfl, rfl, ?_, ?_⟩ <;> cases it <;> rfl

/-- **no panic**: for EVERY stream, root, claimed size `≤ 2^63`, block size and query — well-formed
or not — the decoder (either flavour) does not panic: the plan iterator never reaches a
`debug_assert!`/`unwrap()` and the hash stack never underflows -/
theorem no_panic (hf : HashFns H) [BEq H] (fl : Flavour) (root : H) (size' bs : Nat) (q : Ranges)
    (s : List UInt8) (hs : size' ≤ 2 ^ 63) :
    (decodeAll hf fl root ⟨size', bs⟩ q s).terminal ≠ .panic :=
  decode_no_panic hf fl root size' bs q s hs

/-! ## non-vacuity -/

/-- a toy hash with 32-byte representation and round trip -/
private def toy : HashFns UInt8 where
  chunkCv := fun c b r => b.foldl (· + ·) (UInt8.ofNat c + if r then 1 else 0)
  parentCv := fun l r f => l + 2 * r + if f then 1 else 0
  ofBytes := fun b => b.headD 0
  toBytes := fun h => List.replicate 32 h

private theorem toy_len : ∀ h, (toy.toBytes h).length = 32 := fun _ => List.length_replicate ..
private theorem toy_rt : ∀ h, toy.ofBytes (toy.toBytes h) = h := fun _ => rfl
private def blob : List UInt8 := List.replicate 3000 7
private theorem blob_size : blob.length ≤ 2 ^ 63 := by
  simp only [blob, List.length_replicate]; decide

/-- the honest stream of chunk 1 of the 3-chunk blob: two parents and one leaf, 1152 bytes -/
private theorem enc_len : (Spec.encode toy blob 0 [1, 2]).length = 1152 := by
  have h := (DecodeSpec.plan_items toy blob 0 [1, 2] blob_size (by decide))
  have hp : plan ⟨blob.length, 0⟩ 0 (Ranges.truncate [1, 2] blob.length)
      = [.parent 1 true true false [1, 2], .parent 0 false false true [1],
         .leaf 1 1024 false [0]] := by
    have : blob.length = 3000 := by simp only [blob, List.length_replicate]
    rw [this]; decide
  have := skel_psize toy_len h
  rw [hp] at this
  unfold Spec.encode
  rw [← this]; rfl

example : ∃ it, (Spec.items toy blob 0 [1, 2])[locate (Spec.items toy blob 0 [1, 2]) 100]? = some it ∧
    (decodeAll toy .sync (Spec.root toy blob) ⟨blob.length, 0⟩ [1, 2]
      ((Spec.encode toy blob 0 [1, 2]).take 100)).terminal = .err it.notFound := by
  obtain ⟨it, h1, -, h3⟩ := truncation toy_rt toy_len .sync blob 0 [1, 2] blob_size (by decide) 100
    (by rw [enc_len]; decide)
  exact ⟨it, h1, h3⟩

/-- a toy hash whose hashes ARE 32-byte strings: `ofBytes` is injective on them -/
private abbrev W := { l : List UInt8 // l.length = 32 }

private def padW (l : List UInt8) : W :=
  ⟨(l ++ List.replicate 32 0).take 32, by
    rw [List.length_take, List.length_append, List.length_replicate]; omega⟩

private def toyW : HashFns W where
  chunkCv := fun c b r => padW (UInt8.ofNat c :: (if r then 1 else 0) :: b)
  parentCv := fun l r f => padW ((if f then 3 else 2) :: (l.val.take 15 ++ r.val.take 15))
  ofBytes := fun b => if h : b.length = 32 then ⟨b, h⟩ else padW []
  toBytes := fun h => h.val

private theorem toyW_len : ∀ h, (toyW.toBytes h).length = 32 := fun h => h.2
private theorem toyW_rt : ∀ h, toyW.ofBytes (toyW.toBytes h) = h := fun h => by
  simp only [toyW, dif_pos h.2]
private theorem toyW_inj : ∀ a b : List UInt8, a.length = 32 → b.length = 32 →
    toyW.ofBytes a = toyW.ofBytes b → a = b := fun a b ha hb h => by
  simp only [toyW, dif_pos ha, dif_pos hb, Subtype.mk.injEq] at h
  exact h

private def blob5 : List UInt8 := [1, 2, 3, 4, 5]

private theorem items5 : Spec.items toyW blob5 0 [0] = [.leaf 0 [1, 2, 3, 4, 5]] := by decide

/-- the 5-byte blob, first byte altered: the root leaf is reported as mismatching -/
example : (decodeAll toyW .fsm (Spec.root toyW blob5) ⟨blob5.length, 0⟩ [0] [9, 2, 3, 4, 5]).terminal
    = .err (.leafHashMismatch 0) := by
  have henc : Spec.encode toyW blob5 0 [0] = [1, 2, 3, 4, 5] := by
    unfold Spec.encode; rw [items5]; rfl
  obtain ⟨it, h1, h2⟩ := alteration toyW_rt toyW_len toyW_inj .fsm blob5 0 [0] (by decide) (by decide)
    [9, 2, 3, 4, 5] 0 (by rw [henc]; decide) (by rw [henc]; rfl) rfl (by rw [henc]; decide)
  rw [items5] at h1 h2
  simp only [locate, SItem.bytes, List.length_cons, List.length_nil, Nat.zero_lt_succ, if_true,
    List.getElem?_cons_zero, Option.some.injEq] at h1
  subst h1
  refine (h2 (fun f => ?_)).2
  simp only [locate, SItem.bytes, List.length_cons, List.length_nil, Nat.zero_lt_succ, if_true,
    List.take_zero, List.flatMap_nil, List.drop_zero, itemInputs]
  rw [hashInputs_chunk _ _ _ _ _ (by decide), hashInputs_chunk _ _ _ _ _ (by decide)]
  intro x hx y hy e
  simp only [List.cons_append, List.nil_append, List.mem_cons, List.not_mem_nil, or_false] at hx hy
  rcases hx with rfl | rfl <;> rcases hy with rfl | rfl
  · rfl
  · exact absurd e (by cases f <;> decide)
  · exact absurd e (by cases f <;> decide)
  · rfl

example : (DecodeError.leafNotFound 3).toIoKind = .unexpectedEof := (io_kind 3 (.leaf 0 [])).2.1

example : (decodeAll toy .sync 0 ⟨2 ^ 63, 10⟩ [5, 3, 3] [1, 2, 3]).terminal ≠ .panic :=
  no_panic toy .sync 0 (2 ^ 63) 10 [5, 3, 3] [1, 2, 3] (Nat.le_refl _)

/-
## Status (C09)

All theorems depend on the axioms `propext`, `Classical.choice`, `Quot.sound` only.

Proved:
  truncation     (full strength: every cut position inside the stream, both flavours),
  alteration     (full strength for the location and classification; collision freedom localised to
                  the hash inputs of the honest and the altered item: `NoCollision hf (itemInputs …)`,
                  plus `hinj`: `ofBytes` injective on 32-byte strings),
  alteration_cf  (the corollary under the global `CollisionFree hf`; vacuous, see the note there),
  io_kind, no_panic (every stream, root, claimed size ≤ 2^63, block size, query — also ill-formed ones;
                  `bs ≤ 10` not needed).
Partial: none.   OPEN: none.

What is assumed exactly for `alteration`: `hrt`, `hlen`, `hinj`, lawful `==`, `d.length ≤ 2^63`,
`WF q`, `e'.length = e.length`, `e'.take k = e.take k`, `e'[k]? ≠ e[k]?` and, for the item `it`
containing byte `k` with altered bytes `b'`: `∀ f, NoCollision hf (itemInputs hf f it it.bytes ++
itemInputs hf f it b')` (`f` ranges over the root flag; only the flag of the plan item is used).

Remarks on the model.
* After a short read the model leaves `encoded` untouched, after a mismatch it has consumed the
  item; `DecRun.rest` is documented as meaningful for `done` only, so nothing is claimed about it.
* `no_panic` covers the decoder proper (`decodeAll`); `decodeRanges` can additionally panic in
  `Store.save` of a too-short in-memory outboard (`.preMem`/`.postMem`, `slice index out of range`),
  which is a property of the store, not of the stream.
-/

end Bao.C09
