import BaoProofs.Lemmas.ValidL
import BaoProofs.Props.C03

/-!
# C06 — `valid_ranges` reports exactly what is verifiably stored

"For any state of a store (intact, bytes altered anywhere, partially filled), every chunk group
the data validator reports has stored bytes that hash to its leaf value and a chain of stored hash
pairs linking it to the root - so it holds true blob bytes - and every such group that the query
touches is reported.  The outboard-only validator does the same with the data check left out; an
intact store is reported completely, and the sync and async validators agree."
(the last clause is `C08.validRanges_eq`.)

The notions (definitions in `BaoProofs/Lemmas/ValidL.lean`, all by recursion on the level of the
shifted node, following left child / right descendant; none of `Group`, `Linked`, `Verifiable`
mentions the query, `Reach` does not mention the store contents):

* `Group t x g`            – `g` is the chunk range of a chunk group below the shifted node `x`;
  below the root these are exactly `groupRange t i`, `i < blocks` (`groups`).
* `Linked hf fl ob data withData owed x isRoot g` – `Group`, every persisted node on the path from
  `x` down to `g` holds a pair with `parentCv (load node) isRoot = ` the hash owed from above, and
  (with data) the stored bytes of `g` hash to the half owed to it.
* `Reach t ranges x g`     – the chain of `split(ranges, node)` from `x` down to `g` never gives an
  empty query.
* `Verifiable hf fl ob data withData g` – `Linked` to `ob.root` from the shifted root (for a tree
  with one chunk group: `g` is that group and its bytes hash to the root).
* `Touched size q g`       – the query selects a chunk of `g` (`Spec.selected`).
* `NoIo hf fl ob data withData` – no load of a node the validator loads can fail, and (with data)
  the data file is as long as the blob.

`size ≤ 2^63`, `bs ≤ 10` throughout (`tree = ob.tree`).
-/

set_option maxRecDepth 100000   -- the `decide`s of the examples walk lists of 1025 bytes

namespace Bao.C06

open Bao Bao.Spec Bao.ValidL

variable {H : Type}

/-! ## toy instances for the non-vacuity examples -/

/-- a collision free hash (the free term algebra) whose `ofBytes` decodes two 32-byte tags, so that
a 64-byte outboard can hold the true pair of the two-group blob `toyData` -/
def toyHash : HashFns Term where
  chunkCv := Term.chunk
  parentCv := Term.parent
  ofBytes := fun b =>
    if b = List.replicate 32 1 then Term.chunk 0 (List.replicate 1024 7) false
    else if b = List.replicate 32 2 then Term.chunk 1 [7] false
    else Term.raw b
  toBytes := fun _ => []

theorem toyHash_cf : CollisionFree toyHash := by
  intro x y h
  cases x <;> cases y <;> simp only [HashFns.eval, toyHash] at h <;> first
    | (injection h with h1 h2 h3; subst h1 h2 h3; rfl)
    | (injection h)

/-- 1025 bytes: two chunks, two chunk groups at `bs = 0` -/
def toyData : List UInt8 := List.replicate 1025 7

/-- the intact pre-order memory store of `toyData` (its root computed by the model) -/
def toyStore : Store Term :=
  ⟨.preMem, hashSubtree toyHash 0 toyData true, ⟨1025, 0⟩, List.replicate 32 1 ++ List.replicate 32 2⟩

/-- the same with the second hash of the stored pair altered -/
def badStore : Store Term := { toyStore with data := List.replicate 32 1 ++ List.replicate 32 3 }

/-- an `EmptyOutboard` over three chunk groups -/
def emptyStore : Store Term := ⟨.empty, .raw [], ⟨3000, 0⟩, []⟩

/-! ## 1. `Linked` and `Reach` follow the tree: left child / right descendant -/

/-- an inner shifted node: its stored pair must give the hash owed from above; the walk continues
with (left hash, left child) if the group starts in front of the node's mid, else with
(right hash, right descendant) -/
theorem linked_inner (hf : HashFns H) (fl : Flavour) (ob : Store H) (data : List UInt8)
    (withData : Bool) (hs : ob.tree.size ≤ 2 ^ 63) (hbs : ob.tree.bs ≤ 10) {x : Nat}
    (hx : x < ob.tree.shifted.2) (hleaf : Node.isLeaf x = false) (owed : H) (isRoot : Bool)
    (g : Nat × Nat) :
    Linked hf fl ob data withData owed x isRoot g ↔
      ∃ lh rh lc rd, ob.load hf fl (Node.subBs x ob.tree.bs) = .ok (some (lh, rh)) ∧
        hf.parentCv lh rh isRoot = owed ∧ Node.leftChild x = some lc ∧
        Node.rightDescendant x ob.tree.shifted.2 = some rd ∧
        if g.1 < Node.mid (Node.subBs x ob.tree.bs) then
          Linked hf fl ob data withData lh lc false g
        else Linked hf fl ob data withData rh rd false g :=
  Linked_inner hf fl ob data withData hs hbs hx hleaf owed isRoot g

example : emptyStore.tree.size ≤ 2 ^ 63 ∧ emptyStore.tree.bs ≤ 10 ∧
    (1 : Nat) < emptyStore.tree.shifted.2 ∧ Node.isLeaf 1 = false := by decide

/-- a shifted leaf, with `(l, m, r) = leaf_byte_ranges3(node)`: a persisted node must hold a pair
that gives the owed hash, and the group is `[l, m)` checked against the left hash or `[m, r)`
checked against the right hash; the half leaf is not persisted and its only group `[l, r)` is
checked against the owed hash itself (`LeafOk … c s e h root` is
`withData → hashSubtree hf c data[s, e) root = h`) -/
theorem linked_leaf (hf : HashFns H) (fl : Flavour) (ob : Store H) (data : List UInt8)
    (withData : Bool) (hs : ob.tree.size ≤ 2 ^ 63) (hbs : ob.tree.bs ≤ 10) {x : Nat}
    (hx : x < ob.tree.shifted.2) (hleaf : Node.isLeaf x = true) (owed : H) (isRoot : Bool)
    (g : Nat × Nat) :
    Linked hf fl ob data withData owed x isRoot g ↔
      let node := Node.subBs x ob.tree.bs
      let lmr := ob.tree.leafByteRanges3 node
      if ob.tree.isRelevant node then
        ∃ lh rh, ob.load hf fl node = .ok (some (lh, rh)) ∧ hf.parentCv lh rh isRoot = owed ∧
          if g.1 < Node.mid node then
            g = (fullChunksOf lmr.1, chunksOf lmr.2.1) ∧
              LeafOk hf data withData (fullChunksOf lmr.1) lmr.1 lmr.2.1 lh false
          else
            g = (fullChunksOf lmr.2.1, chunksOf lmr.2.2) ∧
              LeafOk hf data withData (fullChunksOf lmr.2.1) lmr.2.1 lmr.2.2 rh false
      else
        g = (fullChunksOf lmr.1, chunksOf lmr.2.2) ∧
          LeafOk hf data withData (fullChunksOf lmr.1) lmr.1 lmr.2.2 owed isRoot :=
  Linked_leaf hf fl ob data withData hs hbs hx hleaf owed isRoot g

example : emptyStore.tree.size ≤ 2 ^ 63 ∧ emptyStore.tree.bs ≤ 10 ∧
    (2 : Nat) < emptyStore.tree.shifted.2 ∧ Node.isLeaf 2 = true := by decide

/-- the query side of an inner node: non-empty, then `split(ranges, node)`, the left half going to
the left child and the right half to the right descendant -/
theorem reach_inner (t : Tree) (hs : t.size ≤ 2 ^ 63) (hbs : t.bs ≤ 10) {x : Nat}
    (hx : x < t.shifted.2) (hleaf : Node.isLeaf x = false) (ranges : Ranges) (g : Nat × Nat) :
    Reach t ranges x g ↔
      ranges ≠ [] ∧ ∃ lc rd, Node.leftChild x = some lc ∧
        Node.rightDescendant x t.shifted.2 = some rd ∧
        if g.1 < Node.mid (Node.subBs x t.bs) then
          Reach t (Ranges.splitNode ranges (Node.subBs x t.bs)).1 lc g
        else Reach t (Ranges.splitNode ranges (Node.subBs x t.bs)).2 rd g :=
  Reach_inner t hs hbs hx hleaf ranges g

/-- the query side of a shifted leaf -/
theorem reach_leaf (t : Tree) (hs : t.size ≤ 2 ^ 63) (hbs : t.bs ≤ 10) {x : Nat}
    (hx : x < t.shifted.2) (hleaf : Node.isLeaf x = true) (ranges : Ranges) (g : Nat × Nat) :
    Reach t ranges x g ↔
      ranges ≠ [] ∧ (t.isRelevant (Node.subBs x t.bs) = true →
        if g.1 < Node.mid (Node.subBs x t.bs) then
          (Ranges.splitNode ranges (Node.subBs x t.bs)).1 ≠ []
        else (Ranges.splitNode ranges (Node.subBs x t.bs)).2 ≠ []) :=
  Reach_leaf t hs hbs hx hleaf ranges g

example : (⟨3000, 0⟩ : Tree).size ≤ 2 ^ 63 ∧ (⟨3000, 0⟩ : Tree).bs ≤ 10 ∧
    (1 : Nat) < (Tree.shifted ⟨3000, 0⟩).2 ∧ Node.isLeaf 1 = false ∧
    (0 : Nat) < (Tree.shifted ⟨3000, 0⟩).2 ∧ Node.isLeaf 0 = true := by decide

/-! ## 2. `validate_rec` -/

section
variable [BEq H] [LawfulBEq H]

/-- ANY state of the store and of the data file (altered bytes, short backing, io errors): started
at an existing shifted node with enough fuel, `validate_rec` reports only groups that are linked
to the hash owed to the node and reached by the query; if it ends without error it reports all of
them; the reports are strictly increasing, pairwise disjoint, free of duplicates -/
theorem sound_rec (hf : HashFns H) (fl : Flavour) (withData : Bool) (ob : Store H)
    (data : List UInt8) (hs : ob.tree.size ≤ 2 ^ 63) (hbs : ob.tree.bs ≤ 10) {shifted : Nat}
    (hx : shifted < ob.tree.shifted.2) {fuel : Nat} (hfuel : Node.level shifted < fuel) (owed : H)
    (isRoot : Bool) (ranges : Ranges) :
    let r := validateRec hf fl withData ob data ob.tree.shifted.2 fuel owed shifted isRoot ranges
    (∀ g ∈ r.yields,
      Linked hf fl ob data withData owed shifted isRoot g ∧ Reach ob.tree ranges shifted g) ∧
    (r.terminal = .ok → ∀ g, Linked hf fl ob data withData owed shifted isRoot g →
      Reach ob.tree ranges shifted g → g ∈ r.yields) ∧
    r.yields.Pairwise (fun a b => a.2 ≤ b.1 ∧ a.1 < b.1) ∧ r.yields.Nodup := by
  have h := rec_exact hf fl ob data withData hs hbs hx fuel hfuel owed isRoot ranges
  exact ⟨h.sound, fun he g h1 h2 => h.complete he g ⟨h1, h2⟩, h.sorted, h.nodup⟩

example : emptyStore.tree.size ≤ 2 ^ 63 ∧ emptyStore.tree.bs ≤ 10 ∧
    (1 : Nat) < emptyStore.tree.shifted.2 ∧ Node.level 1 < 65 := by decide

/-- when no io error is possible the run is `⟨ys, .ok⟩` and `g ∈ ys ↔ Linked ∧ Reach` -/
theorem exact_rec (hf : HashFns H) (fl : Flavour) (withData : Bool) (ob : Store H)
    (data : List UInt8) (hs : ob.tree.size ≤ 2 ^ 63) (hbs : ob.tree.bs ≤ 10)
    (hno : NoIo hf fl ob data withData) {shifted : Nat}
    (hx : shifted < ob.tree.shifted.2) {fuel : Nat} (hfuel : Node.level shifted < fuel) (owed : H)
    (isRoot : Bool) (ranges : Ranges) :
    ∃ ys, validateRec hf fl withData ob data ob.tree.shifted.2 fuel owed shifted isRoot ranges
        = ⟨ys, .ok⟩ ∧
      (∀ g, g ∈ ys ↔
        Linked hf fl ob data withData owed shifted isRoot g ∧ Reach ob.tree ranges shifted g) ∧
      ys.Pairwise (fun a b => a.2 ≤ b.1 ∧ a.1 < b.1) ∧ ys.Nodup :=
  (rec_exact hf fl ob data withData hs hbs hx fuel hfuel owed isRoot ranges).iff hno

example : NoIo toyHash .sync emptyStore [] false ∧ emptyStore.tree.size ≤ 2 ^ 63 ∧
    emptyStore.tree.bs ≤ 10 ∧ (1 : Nat) < emptyStore.tree.shifted.2 ∧ Node.level 1 < 65 :=
  ⟨noIo_empty _ _ _ _ _ rfl (fun h => by cases h), by decide⟩

/-! ## 3. the public validators -/

/-- `valid_ranges`, ANY state of store and data: every reported group is verifiable (and reached
by the canonical query, unless the tree has a single group, where the query is ignored); a run
that ends without error reports every such group -/
theorem sound (hf : HashFns H) (fl : Flavour) (ob : Store H) (data : List UInt8)
    (hs : ob.tree.size ≤ 2 ^ 63) (hbs : ob.tree.bs ≤ 10) (q : Ranges) :
    let r := validRanges hf fl ob data q
    let V := fun g => Verifiable hf fl ob data true g ∧
      (ob.tree.blocks = 1 ∨ Reach ob.tree (Ranges.truncate q ob.tree.size) ob.tree.shifted.1 g)
    (∀ g ∈ r.yields, V g) ∧ (r.terminal = .ok → ∀ g, V g → g ∈ r.yields) ∧
    r.yields.Pairwise (fun a b => a.2 ≤ b.1 ∧ a.1 < b.1) ∧ r.yields.Nodup := by
  have h := validRanges_exact hf fl ob data hs hbs q
  exact ⟨h.sound, h.complete, h.sorted, h.nodup⟩

example : badStore.tree.size ≤ 2 ^ 63 ∧ badStore.tree.bs ≤ 10 := by decide

/-- `valid_ranges` when no io error is possible: exactly the verifiable (and reached) groups -/
theorem exact (hf : HashFns H) (fl : Flavour) (ob : Store H) (data : List UInt8)
    (hs : ob.tree.size ≤ 2 ^ 63) (hbs : ob.tree.bs ≤ 10) (hno : NoIo hf fl ob data true)
    (q : Ranges) :
    ∃ ys, validRanges hf fl ob data q = ⟨ys, .ok⟩ ∧
      (∀ g, g ∈ ys ↔ Verifiable hf fl ob data true g ∧
        (ob.tree.blocks = 1 ∨
          Reach ob.tree (Ranges.truncate q ob.tree.size) ob.tree.shifted.1 g)) ∧
      ys.Pairwise (fun a b => a.2 ≤ b.1 ∧ a.1 < b.1) ∧ ys.Nodup :=
  (validRanges_exact hf fl ob data hs hbs q).iff hno

example : NoIo toyHash .sync emptyStore (List.replicate 3000 0) true ∧
    emptyStore.tree.size ≤ 2 ^ 63 ∧ emptyStore.tree.bs ≤ 10 :=
  ⟨noIo_empty _ _ _ _ _ rfl (fun _ => by rw [List.length_replicate]; decide), by decide⟩

/-- `valid_outboard_ranges`, ANY state of the store: the same with the data check left out -/
theorem sound_outboard (hf : HashFns H) (fl : Flavour) (ob : Store H)
    (hs : ob.tree.size ≤ 2 ^ 63) (hbs : ob.tree.bs ≤ 10) (q : Ranges) :
    let r := validOutboardRanges hf fl ob q
    let V := fun g => Verifiable hf fl ob [] false g ∧
      (ob.tree.blocks = 1 ∨ Reach ob.tree (Ranges.truncate q ob.tree.size) ob.tree.shifted.1 g)
    (∀ g ∈ r.yields, V g) ∧ (r.terminal = .ok → ∀ g, V g → g ∈ r.yields) ∧
    r.yields.Pairwise (fun a b => a.2 ≤ b.1 ∧ a.1 < b.1) ∧ r.yields.Nodup := by
  have h := validOutboardRanges_exact hf fl ob hs hbs q
  exact ⟨h.sound, h.complete, h.sorted, h.nodup⟩

example : badStore.tree.size ≤ 2 ^ 63 ∧ badStore.tree.bs ≤ 10 := by decide

theorem exact_outboard (hf : HashFns H) (fl : Flavour) (ob : Store H)
    (hs : ob.tree.size ≤ 2 ^ 63) (hbs : ob.tree.bs ≤ 10) (hno : NoIo hf fl ob [] false)
    (q : Ranges) :
    ∃ ys, validOutboardRanges hf fl ob q = ⟨ys, .ok⟩ ∧
      (∀ g, g ∈ ys ↔ Verifiable hf fl ob [] false g ∧
        (ob.tree.blocks = 1 ∨
          Reach ob.tree (Ranges.truncate q ob.tree.size) ob.tree.shifted.1 g)) ∧
      ys.Pairwise (fun a b => a.2 ≤ b.1 ∧ a.1 < b.1) ∧ ys.Nodup :=
  (validOutboardRanges_exact hf fl ob hs hbs q).iff hno

example : NoIo toyHash .fsm { emptyStore with kind := .preIo } [] false ∧
    emptyStore.tree.size ≤ 2 ^ 63 ∧ emptyStore.tree.bs ≤ 10 :=
  ⟨noIo_fsm _ _ _ _ (.inl rfl) (fun h => by cases h), by decide⟩

omit [LawfulBEq H] in
/-- the special case of a single chunk group (`blocks = 1`, in particular the empty blob): the
query is ignored; the data validator reports `(0, chunks)` iff the first `size` bytes of the data
hash to the root, the outboard validator always reports it -/
theorem single_group (hf : HashFns H) (fl : Flavour) (ob : Store H) (data : List UInt8)
    (hb : ob.tree.blocks = 1) (hlen : ob.tree.size ≤ data.length) (q : Ranges) :
    validRanges hf fl ob data q =
      ⟨if hashSubtree hf 0 (data.take ob.tree.size) true == ob.root then [(0, ob.tree.chunks)]
        else [], .ok⟩ ∧
    validOutboardRanges hf fl ob q = ⟨[(0, ob.tree.chunks)], .ok⟩ := by
  refine ⟨?_, validOutboardRanges_one hf fl ob hb q⟩
  unfold validRanges
  have h1 : (ob.tree.blocks == 1) = true := by simpa using hb
  have h2 := readExactAt_of_le (s := 0) hlen
  rw [Nat.sub_zero] at h2
  simp only [h1, if_true, h2, bytesAt, List.drop_zero, Nat.sub_zero]
  split <;> rfl

example : ({ emptyStore with tree := ⟨700, 0⟩ } : Store Term).tree.blocks = 1 ∧
    ({ emptyStore with tree := ⟨700, 0⟩ } : Store Term).tree.size
      ≤ (List.replicate 700 (0 : UInt8)).length := by
  refine ⟨by decide, ?_⟩
  rw [List.length_replicate]; decide

end

/-! ## 4. reached by the canonical query = touched by the query -/

/-- the groups below the shifted root are exactly the chunk ranges of the chunk groups:
`groupRange t i = (i·2^bs, min ((i+1)·2^bs) chunks)`, `i < blocks` -/
theorem groups (t : Tree) (hs : t.size ≤ 2 ^ 63) (hbs : t.bs ≤ 10) (g : Nat × Nat) :
    Group t t.shifted.1 g ↔ ∃ i, i < t.blocks ∧ g = groupRange t i :=
  group_iff_top t hs hbs g

example : (⟨3000, 0⟩ : Tree).size ≤ 2 ^ 63 ∧ (⟨3000, 0⟩ : Tree).bs ≤ 10 := by decide

/-- for a group of the tree and a well-formed query: the chain of `split`s of the canonical
(truncated) query stays non-empty down to the group iff the query selects a chunk of the group -/
theorem reach_iff_touched (t : Tree) (hs : t.size ≤ 2 ^ 63) (hbs : t.bs ≤ 10)
    (hb : t.blocks ≠ 1) (q : Ranges) (hq : Ranges.WF q = true) (g : Nat × Nat)
    (hg : Group t t.shifted.1 g) :
    Reach t (Ranges.truncate q t.size) t.shifted.1 g ↔ Touched t.size q g :=
  reach_iff_touched_top t hs hbs hb q hq g hg

example : (⟨3000, 0⟩ : Tree).size ≤ 2 ^ 63 ∧ (⟨3000, 0⟩ : Tree).bs ≤ 10 ∧
    (⟨3000, 0⟩ : Tree).blocks ≠ 1 ∧ Ranges.WF [1, 2] = true ∧
    Group ⟨3000, 0⟩ (Tree.shifted ⟨3000, 0⟩).1 (groupRange ⟨3000, 0⟩ 1) :=
  ⟨by decide, by decide, by decide, by decide,
    (groups ⟨3000, 0⟩ (by decide) (by decide) _).2 ⟨1, by decide, rfl⟩⟩

section
variable [BEq H] [LawfulBEq H]

/-- ANY state of store and data, well-formed query: a reported group is verifiable and the query
touches it (a tree with a single group ignores the query) -/
theorem reported_sound (hf : HashFns H) (fl : Flavour) (ob : Store H) (data : List UInt8)
    (hs : ob.tree.size ≤ 2 ^ 63) (hbs : ob.tree.bs ≤ 10) (q : Ranges)
    (hq : Ranges.WF q = true) (g : Nat × Nat) (hg : g ∈ (validRanges hf fl ob data q).yields) :
    Verifiable hf fl ob data true g ∧ (ob.tree.blocks = 1 ∨ Touched ob.tree.size q g) := by
  obtain ⟨hv, hr⟩ := (validRanges_exact hf fl ob data hs hbs q).sound g hg
  refine ⟨hv, ?_⟩
  by_cases hb : ob.tree.blocks = 1
  · exact Or.inl hb
  · rcases hr with hr | hr
    · exact absurd hr hb
    · exact Or.inr ((reach_iff_touched ob.tree hs hbs hb q hq g (hv.group hb)).1 hr)

example : badStore.tree.size ≤ 2 ^ 63 ∧ badStore.tree.bs ≤ 10 ∧ Ranges.WF [0] = true ∧
    (0, 1) ∈ (validRanges toyHash .sync toyStore toyData [0]).yields := by decide

/-- no io error possible, well-formed query: the reported groups are exactly the verifiable groups
the query touches -/
theorem reported_iff (hf : HashFns H) (fl : Flavour) (ob : Store H) (data : List UInt8)
    (hs : ob.tree.size ≤ 2 ^ 63) (hbs : ob.tree.bs ≤ 10) (hno : NoIo hf fl ob data true)
    (q : Ranges) (hq : Ranges.WF q = true) (g : Nat × Nat) :
    (validRanges hf fl ob data q).terminal = .ok ∧
    (g ∈ (validRanges hf fl ob data q).yields ↔
      Verifiable hf fl ob data true g ∧ (ob.tree.blocks = 1 ∨ Touched ob.tree.size q g)) := by
  have h := validRanges_exact hf fl ob data hs hbs q
  refine ⟨h.ok hno, reported_sound hf fl ob data hs hbs q hq g, fun ⟨hv, ht⟩ => ?_⟩
  apply h.complete (h.ok hno) g
  refine ⟨hv, ?_⟩
  by_cases hb : ob.tree.blocks = 1
  · exact Or.inl hb
  · rcases ht with ht | ht
    · exact absurd ht hb
    · exact Or.inr ((reach_iff_touched ob.tree hs hbs hb q hq g (hv.group hb)).2 ht)

example : NoIo toyHash .sync emptyStore (List.replicate 3000 0) true ∧
    emptyStore.tree.size ≤ 2 ^ 63 ∧ emptyStore.tree.bs ≤ 10 ∧ Ranges.WF [1, 2] = true :=
  ⟨noIo_empty _ _ _ _ _ rfl (fun _ => by rw [List.length_replicate]; decide), by decide⟩

/-- the outboard-only validator: the same with the data check left out -/
theorem reported_iff_outboard (hf : HashFns H) (fl : Flavour) (ob : Store H)
    (hs : ob.tree.size ≤ 2 ^ 63) (hbs : ob.tree.bs ≤ 10) (q : Ranges)
    (hq : Ranges.WF q = true) (g : Nat × Nat) :
    (g ∈ (validOutboardRanges hf fl ob q).yields →
      Verifiable hf fl ob [] false g ∧ (ob.tree.blocks = 1 ∨ Touched ob.tree.size q g)) ∧
    (NoIo hf fl ob [] false →
      (validOutboardRanges hf fl ob q).terminal = .ok ∧
      (g ∈ (validOutboardRanges hf fl ob q).yields ↔
        Verifiable hf fl ob [] false g ∧ (ob.tree.blocks = 1 ∨ Touched ob.tree.size q g))) := by
  have h := validOutboardRanges_exact hf fl ob hs hbs q
  have hsound : g ∈ (validOutboardRanges hf fl ob q).yields →
      Verifiable hf fl ob [] false g ∧ (ob.tree.blocks = 1 ∨ Touched ob.tree.size q g) := by
    intro hg
    obtain ⟨hv, hr⟩ := h.sound g hg
    refine ⟨hv, ?_⟩
    by_cases hb : ob.tree.blocks = 1
    · exact Or.inl hb
    · rcases hr with hr | hr
      · exact absurd hr hb
      · exact Or.inr ((reach_iff_touched ob.tree hs hbs hb q hq g (hv.group hb)).1 hr)
  refine ⟨hsound, fun hno => ⟨h.ok hno, hsound, fun ⟨hv, ht⟩ => ?_⟩⟩
  apply h.complete (h.ok hno) g
  refine ⟨hv, ?_⟩
  by_cases hb : ob.tree.blocks = 1
  · exact Or.inl hb
  · rcases ht with ht | ht
    · exact absurd ht hb
    · exact Or.inr ((reach_iff_touched ob.tree hs hbs hb q hq g (hv.group hb)).2 ht)

example : NoIo toyHash .sync emptyStore [] false ∧
    emptyStore.tree.size ≤ 2 ^ 63 ∧ emptyStore.tree.bs ≤ 10 ∧ Ranges.WF [1, 2] = true :=
  ⟨noIo_empty _ _ _ _ _ rfl (fun h => by cases h), by decide⟩

end

/-! ## 5. a verifiable group holds true blob bytes -/

/-- needs only: chaining values do not collide (`CollisionFree hf`), the root of the store is the
BLAKE3 root of `d`, the blob fits BLAKE3 (`d.length ≤ 2^64·1024`), and the data file is at least as
long as the claimed size.  (Neither `ofBytes (toBytes h) = h` nor `tree.size = d.length` is
needed.)  The stored bytes `[g.1·1024, min (g.2·1024) size)` of a verifiable group are the bytes of
`d` at the same place, and lie inside `d`. -/
theorem true_bytes (hf : HashFns H) (cf : CollisionFree hf) (fl : Flavour) (ob : Store H)
    (data d : List UInt8) (hd : d.length ≤ 2 ^ 64 * 1024) (hroot : ob.root = Spec.root hf d)
    (hlen : ob.tree.size ≤ data.length) (g : Nat × Nat)
    (hv : Verifiable hf fl ob data true g) :
    (data.drop (g.1 * 1024)).take (min (g.2 * 1024) ob.tree.size - g.1 * 1024) =
      (d.drop (g.1 * 1024)).take (min (g.2 * 1024) ob.tree.size - g.1 * 1024) ∧
    g.1 * 1024 + (min (g.2 * 1024) ob.tree.size - g.1 * 1024) ≤ d.length := by
  obtain ⟨h1, h2⟩ := verifiable_true_bytes cf hd hroot hlen hv
  refine ⟨h1, ?_⟩
  have hl : (groupBytes data ob.tree.size g).length = min (toBytes g.2) ob.tree.size - toBytes g.1 :=
    bytesAt_length (by omega)
  rw [hl] at h2
  exact h2

theorem toy_root : toyStore.root = Spec.root toyHash toyData := by
  unfold Spec.root Spec.cv
  rw [C01.slice_full]; rfl

theorem toy_verifiable : Verifiable toyHash .sync toyStore toyData true (0, 1) :=
  (reported_sound toyHash .sync toyStore toyData (by decide) (by decide) [0] (by decide) (0, 1)
    (by decide)).1

example : CollisionFree toyHash ∧ toyData.length ≤ 2 ^ 64 * 1024 ∧
    toyStore.root = Spec.root toyHash toyData ∧ toyStore.tree.size ≤ toyData.length ∧
    Verifiable toyHash .sync toyStore toyData true (0, 1) :=
  ⟨toyHash_cf, by decide, toy_root, by decide, toy_verifiable⟩

/-- the headline: whatever the state of the store and of the data file, every group the data
validator reports holds true blob bytes -/
theorem reported_true_bytes [BEq H] [LawfulBEq H] (hf : HashFns H) (cf : CollisionFree hf)
    (fl : Flavour) (ob : Store H) (data d : List UInt8) (hs : ob.tree.size ≤ 2 ^ 63)
    (hbs : ob.tree.bs ≤ 10) (hd : d.length ≤ 2 ^ 64 * 1024) (hroot : ob.root = Spec.root hf d)
    (hlen : ob.tree.size ≤ data.length) (q : Ranges) (g : Nat × Nat)
    (hg : g ∈ (validRanges hf fl ob data q).yields) :
    (data.drop (g.1 * 1024)).take (min (g.2 * 1024) ob.tree.size - g.1 * 1024) =
      (d.drop (g.1 * 1024)).take (min (g.2 * 1024) ob.tree.size - g.1 * 1024) ∧
    g.1 * 1024 + (min (g.2 * 1024) ob.tree.size - g.1 * 1024) ≤ d.length :=
  true_bytes hf cf fl ob data d hd hroot hlen g
    ((validRanges_exact hf fl ob data hs hbs q).sound g hg).1

example : CollisionFree toyHash ∧ toyStore.tree.size ≤ 2 ^ 63 ∧ toyStore.tree.bs ≤ 10 ∧
    toyData.length ≤ 2 ^ 64 * 1024 ∧ toyStore.root = Spec.root toyHash toyData ∧
    toyStore.tree.size ≤ toyData.length ∧
    (0, 1) ∈ (validRanges toyHash .sync toyStore toyData [0]).yields :=
  ⟨toyHash_cf, by decide, by decide, by decide, toy_root, by decide, by decide⟩

/-! ## 6. the intact store is reported completely -/

/-- a store whose loads of the existing nodes of level `≥ bs` return the true pairs
(`Spec.pair`), with the true root, over the true data: every chunk group is verifiable -/
theorem intact_of_load (hf : HashFns H) (fl : Flavour) (ob : Store H) (d : List UInt8)
    (hs : d.length ≤ 2 ^ 63) (hbs : ob.tree.bs ≤ 10) (hsz : ob.tree.size = d.length)
    (hroot : ob.root = Spec.root hf d) (withData : Bool)
    (hld : ∀ k M, ob.tree.bs ≤ M → midOf k M < nChunks d.length →
      ob.load hf fl (nodeOf k M) = .ok (some (Spec.pair hf d k M)))
    (i : Nat) (hi : i < ob.tree.blocks) :
    Verifiable hf fl ob d withData (groupRange ob.tree i) :=
  intact_of_load_top hs hbs hsz hroot withData hld i hi

theorem toy_load (fl : Flavour) : ∀ k M, toyStore.tree.bs ≤ M → midOf k M < nChunks toyData.length →
    toyStore.load toyHash fl (nodeOf k M) = .ok (some (Spec.pair toyHash toyData k M)) := by
  intro k M _ h
  have hn : nChunks toyData.length = 2 := by decide
  rw [hn] at h
  have e : midOf k M = k * 2 ^ (M + 1) + 2 ^ M := rfl
  have hp := Nat.two_pow_pos M
  have hM : M = 0 := by
    cases M with
    | zero => rfl
    | succ M => rw [e, Nat.pow_succ 2 M] at h; omega
  subst hM
  have hk : k = 0 := by rw [e] at h; omega
  subst hk
  cases fl <;> decide

example : toyData.length ≤ 2 ^ 63 ∧ toyStore.tree.bs ≤ 10 ∧ toyStore.tree.size = toyData.length ∧
    toyStore.root = Spec.root toyHash toyData ∧ (1 : Nat) < toyStore.tree.blocks ∧
    Verifiable toyHash .sync toyStore toyData true (groupRange toyStore.tree 1) :=
  ⟨by decide, by decide, by decide, toy_root, by decide,
    intact_of_load toyHash .sync toyStore toyData (by decide) (by decide) (by decide) toy_root true
      (toy_load .sync) 1 (by decide)⟩

/-- the intact store: the outboard of its kind (as every way of creating an outboard leaves it,
`C03`), the true root, the true data.  Every chunk group is verifiable … -/
theorem intact (hf : HashFns H) (hlen : ∀ h, (hf.toBytes h).length = 32)
    (hrt : ∀ h, hf.ofBytes (hf.toBytes h) = h) (d : List UInt8) (bs : Nat)
    (hs : d.length ≤ 2 ^ 63) (hbs : bs ≤ 10) (fl : Flavour) (ob : Store H)
    (htree : ob.tree = ⟨d.length, bs⟩) (hroot : ob.root = Spec.root hf d)
    (hk : ((ob.kind = .preIo ∨ ob.kind = .preMem) ∧ ob.data = Spec.preOutboard hf d bs) ∨
          ((ob.kind = .postIo ∨ ob.kind = .postMem) ∧ ob.data = Spec.postOutboard hf d bs))
    (withData : Bool) (i : Nat) (hi : i < ob.tree.blocks) :
    Verifiable hf fl ob d withData (groupRange ob.tree i) := by
  refine intact_of_load hf fl ob d hs (by rw [htree]; exact hbs) (by rw [htree]) hroot withData
    (fun k M hM hm => ?_) i hi
  rw [htree] at hM
  have hM64 : M ≤ 64 := by
    have e1 : midOf k M = startOf k M + 2 ^ M := rfl
    have h1 := Offsets.nChunks_le d.length hs
    have h2 : 2 ^ M < 2 ^ 64 := by omega
    exact Nat.le_of_lt ((Nat.pow_lt_pow_iff_right (a := 2) (by decide)).1 h2)
  have := C03.load_spec hf hlen hrt d bs hs hbs fl ob htree hk (nodeOf k M)
    (mem_persistedPre d.length bs k M hs hM hm)
  rwa [Bits.levelOf_nodeOf hM64, Bits.indexOf_nodeOf hM64] at this

/-- … and (whatever the flavour and the kind) no io error is possible, so with a well-formed query
the validators report exactly the chunk groups the query touches: an intact store is reported
completely -/
theorem intact_reported [BEq H] [LawfulBEq H] (hf : HashFns H)
    (hlen : ∀ h, (hf.toBytes h).length = 32)
    (hrt : ∀ h, hf.ofBytes (hf.toBytes h) = h) (d : List UInt8) (bs : Nat)
    (hs : d.length ≤ 2 ^ 63) (hbs : bs ≤ 10) (fl : Flavour) (ob : Store H)
    (htree : ob.tree = ⟨d.length, bs⟩) (hroot : ob.root = Spec.root hf d)
    (hk : ((ob.kind = .preIo ∨ ob.kind = .preMem) ∧ ob.data = Spec.preOutboard hf d bs) ∨
          ((ob.kind = .postIo ∨ ob.kind = .postMem) ∧ ob.data = Spec.postOutboard hf d bs))
    (q : Ranges) (hq : Ranges.WF q = true) :
    (validRanges hf fl ob d q).terminal = .ok ∧
    (validOutboardRanges hf fl ob q).terminal = .ok ∧
    ∀ i, i < ob.tree.blocks → (ob.tree.blocks = 1 ∨ Touched d.length q (groupRange ob.tree i)) →
      groupRange ob.tree i ∈ (validRanges hf fl ob d q).yields ∧
      groupRange ob.tree i ∈ (validOutboardRanges hf fl ob q).yields := by
  have hs' : ob.tree.size ≤ 2 ^ 63 := by rw [htree]; exact hs
  have hbs' : ob.tree.bs ≤ 10 := by rw [htree]; exact hbs
  have hsz : ob.tree.size = d.length := by rw [htree]
  have hld : ∀ k M, ob.tree.bs ≤ M → midOf k M < nChunks ob.tree.size →
      ∃ p, ob.load hf fl (nodeOf k M) = .ok p := by
    intro k M hM hm
    rw [htree] at hM hm
    simp only at hM hm
    have hM64 : M ≤ 64 := by
      have e1 : midOf k M = startOf k M + 2 ^ M := rfl
      have h1 := Offsets.nChunks_le d.length hs
      have h2 : 2 ^ M < 2 ^ 64 := by omega
      exact Nat.le_of_lt ((Nat.pow_lt_pow_iff_right (a := 2) (by decide)).1 h2)
    exact ⟨_, C03.load_spec hf hlen hrt d bs hs hbs fl ob htree hk (nodeOf k M)
      (mem_persistedPre d.length bs k M hs hM hm)⟩
  have hno1 : NoIo hf fl ob d true :=
    noIo_of_load hs' hbs' hld (fun _ => by rw [hsz]; exact Nat.le_refl _)
  have hno2 : NoIo hf fl ob [] false := noIo_of_load hs' hbs' hld (fun h => by cases h)
  refine ⟨(reported_iff hf fl ob d hs' hbs' hno1 q hq (0, 0)).1,
    ((reported_iff_outboard hf fl ob hs' hbs' q hq (0, 0)).2 hno2).1, fun i hi ht => ?_⟩
  rw [← hsz] at ht
  exact ⟨(reported_iff hf fl ob d hs' hbs' hno1 q hq _).2.2
      ⟨intact hf hlen hrt d bs hs hbs fl ob htree hroot hk true i hi, ht⟩,
    ((reported_iff_outboard hf fl ob hs' hbs' q hq _).2 hno2).2.2
      ⟨(Verifiable_false_data hf fl ob d [] _).1
        (intact hf hlen hrt d bs hs hbs fl ob htree hroot hk false i hi), ht⟩⟩

/-- the intact io-backed pre-order store of the 3000-byte blob of `C03` at `bs = 1` -/
def intactStore : Store UInt8 :=
  ⟨.preIo, Spec.root C03.toyHash C03.toyBlob, ⟨C03.toyBlob.length, 1⟩,
    Spec.preOutboard C03.toyHash C03.toyBlob 1⟩

example : ∀ i, i < intactStore.tree.blocks →
    Verifiable C03.toyHash .sync intactStore C03.toyBlob true (groupRange intactStore.tree i) :=
  intact C03.toyHash C03.toy_len C03.toy_rt C03.toyBlob 1 C03.toy_size (by decide) .sync
    intactStore rfl rfl (.inl ⟨.inl rfl, rfl⟩) true

example : (validRanges C03.toyHash .fsm intactStore C03.toyBlob [1, 2]).terminal = .ok :=
  (intact_reported C03.toyHash C03.toy_len C03.toy_rt C03.toyBlob 1 C03.toy_size (by decide) .fsm
    intactStore rfl rfl (.inl ⟨.inl rfl, rfl⟩) [1, 2] (by decide)).1

end Bao.C06

/-
## Status of C06

PROVED (full strength; every `hf : HashFns H`; `tree.size ≤ 2^63`, `bs ≤ 10`; axioms ⊆
{propext, Classical.choice, Quot.sound}):
  1. `linked_inner`, `linked_leaf`, `reach_inner`, `reach_leaf` — the recursive notions
     (`ValidL.Linked`, `ValidL.Reach`, defined through shifted coordinates by recursion on the level)
     unfold along left child / right descendant / `split(ranges, node)` exactly like `validate_rec`.
  2. `sound_rec`   — ANY store / data state (altered bytes, short backing, io errors, fuel > level):
                     reported ⇒ `Linked ∧ Reach`; run ended `.ok` ⇒ every `Linked ∧ Reach` group is
                     reported; reports strictly increasing (`a.2 ≤ b.1 ∧ a.1 < b.1`), `Nodup`.
     `exact_rec`   — `NoIo` ⇒ `validateRec … = ⟨ys, .ok⟩ ∧ (g ∈ ys ↔ Linked ∧ Reach) ∧ sorted ∧ Nodup`.
  3. `sound`, `exact`, `sound_outboard`, `exact_outboard` — the same for `validRanges` /
     `validOutboardRanges` with `Verifiable` (= `Linked` to `ob.root` from the shifted root; for
     `blocks = 1` the single hash check) and `blocks = 1 ∨ Reach (truncate q size) root g`.
     `single_group` — `blocks = 1`: the explicit results (query ignored).
  4. `groups`           — `Group t root g ↔ ∃ i < blocks, g = (i·2^bs, min ((i+1)·2^bs) chunks)`.
     `reach_iff_touched` — BOTH directions, for well-formed `q` and `blocks ≠ 1`:
                     `Reach (truncate q size) root g ↔ ∃ c ∈ g, Spec.selected size q c`.
                     (the hard direction uses `PlanPre.Tight` / `PlanPre.Bounded`, the minimality
                     invariant of `split_inner` proved in `Lemmas/PlanPreCover.lean`.)
     `reported_sound`, `reported_iff`, `reported_iff_outboard` — reported ⇔ verifiable ∧ touched.
  5. `true_bytes`, `reported_true_bytes` — needs `CollisionFree hf`, `ob.root = Spec.root hf d`,
                     `d.length ≤ 2^64·1024`, `tree.size ≤ data.length`; NOT needed: `LawfulBEq`,
                     `ofBytes (toBytes h) = h`, `tree.size = d.length`.  Conclusion: the stored bytes
                     `[g.1·1024, min (g.2·1024) size)` equal the bytes of `d` there and lie inside `d`.
  6. `intact_of_load`, `intact` (through `C03.load_spec` and `ValidL.mem_persistedPre`: every
     existing node of level ≥ bs is in `Spec.persistedPre`), `intact_reported` (no io error is
     possible on an intact store of any of the four kinds in either flavour; the validators end
     `.ok` and report every chunk group the query touches).
  sync / async agreement: `C08.validRanges_eq`, `C08.validOutboardRanges_eq`.
PARTIAL: none.   OPEN: none.

`NoIo` (hypothesis of the "exact" halves): every `load` of an existing node that is relevant for
the outboard returns `.ok _`, and (data validator) `tree.size ≤ data.length`.  It holds for the
`EmptyOutboard` (`noIo_empty`), for the io-backed kinds in the fsm flavour whatever the backing
length (`noIo_fsm`), for every store whose loads of existing nodes succeed (`noIo_of_load`), in
particular the intact stores.  Without it only soundness is claimed — and it is claimed for every
store state.

Remarks on the model / the code (no statement is affected):
  * a tree with a single chunk group ignores the query: `valid_ranges` with the EMPTY query still
    reports `0..chunks` there, while a tree with several groups reports nothing for an empty query
    (hence the `blocks = 1 ∨ …` in the statements).
  * for the empty blob (`size = 0`) the reported range is the empty range `0..0`.
  * `load` returning `.ok none` for a relevant node (the slot functions never do that for a node of
    the tree) would silently end that branch with no report and no error; `Linked` is false there,
    so exactness is not affected.
-/
