import BaoProofs.Lemmas.SpecEncL
import BaoProofs.Lemmas.SpecTruncL
import BaoProofs.Props.C04

/-!
# The executable specification verdict of `enc` never rejects the model on an intact store
# (properties C04 / C08)

`enc blob bs store flavour plain|val ranges corruption` (`Ops.opEnc`) runs one of the five encoders
(`encode_ranges_validated` / `encode_ranges`, sync or fsm, and the item stream of
`traverse_ranges_validated`) over a blob and the outboard of the given store kind, after applying the
listed corruptions, and prints `<terminal> <len:fnv of the emitted bytes>` (`… framing=1` for the
item stream).  THIS FILE covers the corruption argument `-` (intact store).  For a corrupted store the
verdict (prefix of the honest encoding; error iff a dependency is hit) relies on collision freedom of
the real hash — OUT of scope here.

Clauses of the verdict that apply when the corruption argument is `-` (`encVerdictI`, proved to be the
verdict of `opEnc` by `opEnc_intact` / `encVerdictT_intact`):
  0. the line has at least two tokens and the second parses as `len:fnv`     (else `malformed`),
  1. the first token is not `panic`,
  2. item stream only: the remaining tokens are exactly `framing=1`,
  3. the first token is `Ok`,
  4. the second token is `dig (Spec.encode hf d bs ranges)`.

1. hash instance.  The driver's `Ops.hf = realHash` represents a hash by its byte list, so the
   hypothesis `hlen : ∀ h, (toBytes h).length = 32` of the C04 theorems is FALSE for it
   (`C03SpecOb`).  `encode_is_spec'`, `encode_plain_is_spec'`, `mixed_is_spec'` are the C04 theorems
   under `SpecOb.OutLen hf` (outputs only; they imply the C04 versions by `outLen_of_hlen`).
2. component level: `store_component` (the driver's `intactStore` satisfies the hypotheses of C04),
   `val_component`, `plain_component`, `mixed_component`, `line_component`, `split_component`,
   `dig_component`, `verdict_component`.
3. op level: `enc_specFail` (any argument strings that parse), `enc_no_false_alarm` (canonical
   argument strings, no parse hypothesis left but the blob), `enc_const_no_false_alarm`.
4. FALSE ALARM outside the theorem: store kind `empty` with more than one chunk group
   (`enc_empty_false_alarm`); ill-formed (not strictly increasing) range lists (`#eval` only).

Bounds: `d.length ≤ 2^63`, `bs ≤ 10`, `Ranges.WF ranges`, store kind ≠ `empty`.
-/

set_option maxRecDepth 8192

namespace Bao.SpecEnc
open Bao Bao.Spec Bao.Ops Bao.Proto Bao.SpecIndex Bao.SpecOb Bao.EncodeSpec

/-! ## 1. C04 for the driver's hash instance -/

/-- C04 `encode_is_spec` for every instance whose hash OUTPUTS are 32 bytes -/
theorem encode_is_spec'' {H : Type} {hf : HashFns H} [BEq H] [LawfulBEq H] {d : List UInt8}
    {bs : Nat} {st : Store H} (hol : OutLen hf)
    (hrt : ∀ h, hf.ofBytes (hf.toBytes h) = h) (hs : d.length ≤ 2 ^ 63) (hbs : bs ≤ 10)
    (htree : st.tree = ⟨d.length, bs⟩) (hroot : st.root = Spec.root hf d)
    (hdata : ((st.kind = .preIo ∨ st.kind = .preMem) ∧ st.data = Spec.preOutboard hf d bs) ∨
             ((st.kind = .postIo ∨ st.kind = .postMem) ∧ st.data = Spec.postOutboard hf d bs))
    (fl : Flavour) {q : Ranges} (hwf : Ranges.WF q = true) :
    encodeRangesValidated hf fl d st q = ⟨Spec.encode hf d bs q, .ok⟩ ∧
    encodeRanges hf fl d st q = ⟨Spec.encode hf d bs q, .ok⟩ ∧
    ∃ items, traverseRangesValidated hf d st q = some items ∧
      items.flatMap (EncodedItem.flatten hf) = Spec.encode hf d bs q ∧
      items.getLast? = some .done :=
  ⟨encode_is_spec' hol hrt hs hbs htree hroot hdata fl hwf,
   encode_plain_is_spec' hol hrt hs hbs htree hroot hdata fl hwf,
   mixed_is_spec' hol hrt hs hbs htree hroot hdata hwf⟩

/-- the C04 running example satisfies the hypotheses (there `hlen` holds, hence `OutLen`) -/
example : OutLen C03.toyHash ∧ (∀ h, C03.toyHash.ofBytes (C03.toyHash.toBytes h) = h) ∧
    C03.toyBlob.length ≤ 2 ^ 63 ∧ (1 : Nat) ≤ 10 ∧ Ranges.WF [1, 2] = true :=
  ⟨outLen_of_hlen _ C03.toy_len, C03.toy_rt, C03.toy_size, by decide, by decide⟩

example : encodeRangesValidated C03.toyHash .fsm C03.toyBlob C04.toyStore [1, 2]
    = ⟨Spec.encode C03.toyHash C03.toyBlob 1 [1, 2], .ok⟩ :=
  (encode_is_spec'' (outLen_of_hlen _ C03.toy_len) C03.toy_rt C03.toy_size (by decide)
    C04.toyStore_tree C04.toyStore_root C04.toyStore_data .fsm (by decide)).1

/-! ## 2. component level -/

/-- the store `opEnc` encodes from is the intact store of C04: tree, root, and the outboard of its
kind (pre-order for `preIo` / `preMem`, post-order for `postIo` / `postMem`) -/
theorem store_component (kind : StoreKind) (hne : kind ≠ .empty) (d : List UInt8) (bs : Nat)
    (hs : d.length ≤ 2 ^ 63) (hbs : bs ≤ 10) :
    (intactStore kind d bs).tree = ⟨d.length, bs⟩ ∧
    (intactStore kind d bs).root = Spec.root hf d ∧
    ((((intactStore kind d bs).kind = .preIo ∨ (intactStore kind d bs).kind = .preMem) ∧
        (intactStore kind d bs).data = Spec.preOutboard hf d bs) ∨
     (((intactStore kind d bs).kind = .postIo ∨ (intactStore kind d bs).kind = .postMem) ∧
        (intactStore kind d bs).data = Spec.postOutboard hf d bs)) :=
  ⟨intactStore_tree kind d bs, intactStore_root kind d bs hs hbs, intactStore_data kind hne d bs hs hbs⟩

example : (intactStore .postIo (List.replicate 3000 7) 1).data
    = Spec.postOutboard hf (List.replicate 3000 7) 1 := by
  have := (store_component .postIo (by decide) (List.replicate 3000 7) 1
    (by rw [List.length_replicate]; decide) (by decide)).2.2
  rcases this with ⟨h, _⟩ | ⟨_, h⟩
  · rw [intactStore_kind] at h; rcases h with h | h <;> cases h
  · exact h

/-- clauses 1, 3, 4 for `val`: the validating byte encoders end `Ok` with `Spec.encode` -/
theorem val_component (kind : StoreKind) (hne : kind ≠ .empty) (d : List UInt8) (bs : Nat)
    (hs : d.length ≤ 2 ^ 63) (hbs : bs ≤ 10) (f : Flavour) {q : Ranges} (hwf : Ranges.WF q = true) :
    encodeRangesValidated hf f d (intactStore kind d bs) q = ⟨Spec.encode hf d bs q, .ok⟩ :=
  enc_validated kind hne d bs hs hbs f hwf

example : encodeRangesValidated hf .fsm (List.replicate 3000 7)
    (intactStore .preIo (List.replicate 3000 7) 1) [1, 2]
    = ⟨Spec.encode hf (List.replicate 3000 7) 1 [1, 2], .ok⟩ :=
  val_component .preIo (by decide) _ 1 (by rw [List.length_replicate]; decide) (by decide) .fsm
    (by decide)

/-- clauses 1, 3, 4 for `plain`: so do the non-validating byte encoders -/
theorem plain_component (kind : StoreKind) (hne : kind ≠ .empty) (d : List UInt8) (bs : Nat)
    (hs : d.length ≤ 2 ^ 63) (hbs : bs ≤ 10) (f : Flavour) {q : Ranges} (hwf : Ranges.WF q = true) :
    encodeRanges hf f d (intactStore kind d bs) q = ⟨Spec.encode hf d bs q, .ok⟩ :=
  enc_plain kind hne d bs hs hbs f hwf

example : encodeRanges hf .sync (List.replicate 3000 7)
    (intactStore .postMem (List.replicate 3000 7) 0) [0]
    = ⟨Spec.encode hf (List.replicate 3000 7) 0 [0], .ok⟩ :=
  plain_component .postMem (by decide) _ 0 (by rw [List.length_replicate]; decide) (by decide) .sync
    (by decide)

/-- clauses 1–4 for `mixed`: the item stream does not panic, ends with `Done`, and flattens to
`Spec.encode` -/
theorem mixed_component (kind : StoreKind) (hne : kind ≠ .empty) (d : List UInt8) (bs : Nat)
    (hs : d.length ≤ 2 ^ 63) (hbs : bs ≤ 10) {q : Ranges} (hwf : Ranges.WF q = true) :
    ∃ items, traverseRangesValidated hf d (intactStore kind d bs) q = some items ∧
      items.flatMap (EncodedItem.flatten hf) = Spec.encode hf d bs q ∧
      items.getLast? = some .done :=
  enc_mixed kind hne d bs hs hbs hwf

example : ∃ items, traverseRangesValidated hf (List.replicate 3000 7)
      (intactStore .preMem (List.replicate 3000 7) 2) [2] = some items ∧
    items.flatMap (EncodedItem.flatten hf) = Spec.encode hf (List.replicate 3000 7) 2 [2] ∧
    items.getLast? = some .done :=
  mixed_component .preMem (by decide) _ 2 (by rw [List.length_replicate]; decide) (by decide)
    (by decide)

/-- the model's line (every flavour string, every mode string): `Ok <digest of Spec.encode>`, and
`framing=1` after it exactly for the item stream -/
theorem line_component (kind : StoreKind) (hne : kind ≠ .empty) (d : List UInt8) (bs : Nat)
    (hs : d.length ≤ 2 ^ 63) (hbs : bs ≤ 10) (fl mode : String) {q : Ranges}
    (hwf : Ranges.WF q = true) :
    encModel d (intactStore kind d bs) fl mode q
      = (" ".intercalate (encToks (Spec.encode hf d bs q) (fl == "mixed")), fl == "mixed") :=
  encModel_intact kind hne d bs hs hbs fl mode hwf

example : (encModel (List.replicate 3000 7) (intactStore .preMem (List.replicate 3000 7) 2)
      "mixed" "val" [2]).2 = true := by
  rw [line_component .preMem (by decide) _ 2 (by rw [List.length_replicate]; decide) (by decide)
    "mixed" "val" (by decide)]
  decide

/-- clause 0, first half: the model's line splits into the expected tokens -/
theorem split_component (honest : List UInt8) (mixed : Bool) :
    (" ".intercalate (encToks honest mixed)).splitOn " " = encToks honest mixed :=
  encLine_split honest mixed

/-- clause 0, second half: a digest token parses as two numbers -/
theorem dig_component (b : List UInt8) :
    ((dig b).splitOn ":").mapM (·.toNat?) = some [b.length, (fnv b).toNat] :=
  dig_parse b

/-- all clauses: the intact verdict accepts `Ok <dig honest> [framing=1]` -/
theorem verdict_component (honest : List UInt8) (mixed : Bool) :
    encVerdictI honest mixed (encToks honest mixed) = none :=
  verdict_tokens honest mixed

/-- the verdict accepts exactly such lines -/
theorem verdict_component_iff (honest : List UInt8) (mixed : Bool) (toks : List String) :
    encVerdictI honest mixed toks = none →
      ∃ rest, toks = "Ok" :: dig honest :: rest ∧ (mixed = true → rest = ["framing=1"]) :=
  verdict_sound honest mixed toks

/-- the verdict does reject: an error terminal (any honest encoding) -/
example (honest : List UInt8) :
    encVerdictI honest false ["ParentHashMismatch(1)", dig honest] ≠ none := by
  intro h
  obtain ⟨rest, e, _⟩ := verdict_sound _ _ _ h
  exact absurd (List.cons.inj e).1 (by decide)

/-- the verdict does reject: an item stream without the framing token -/
example (honest : List UInt8) : encVerdictI honest true ["Ok", dig honest] ≠ none := by
  intro h
  obtain ⟨rest, e, hr⟩ := verdict_sound _ _ _ h
  have := hr rfl
  subst this
  cases e

/-- the verdict does reject: a line of the wrong shape -/
example (honest : List UInt8) : encVerdictI honest false ["Ok"] = some "malformed" := rfl

/-- concrete: the empty blob (one empty chunk).  Its honest encoding is empty and the expected line
is `Ok 0:<FNV offset basis>` -/
theorem empty_blob_tokens :
    Spec.encode hf [] 0 [0] = [] ∧ encToks [] false = ["Ok", "0:14695981039346656037"] := by
  decide +kernel

/-- … the verdict accepts that line -/
example : encVerdictI (Spec.encode hf [] 0 [0]) false ["Ok", "0:14695981039346656037"] = none := by
  rw [empty_blob_tokens.1, ← empty_blob_tokens.2]
  exact verdict_tokens [] false

/-- … and rejects a wrong digest -/
example : encVerdictI (Spec.encode hf [] 0 [0]) false ["Ok", "0:0"] ≠ none := by
  intro h
  obtain ⟨rest, e, _⟩ := verdict_sound _ _ _ h
  rw [empty_blob_tokens.1] at e
  exact absurd (List.cons.inj (List.cons.inj e).2).1 (by decide +kernel)

/-! ## 3. op level -/

/-- the full statement for `opEnc` on an intact store: on the model's own output the verdict is
`none`, for all argument strings that parse (flavour and mode strings are arbitrary: everything but
`fsm` / `mixed` / `syncw…` is the sync encoder, everything but `val` is `plain`) -/
theorem enc_specFail (b bs kind fl mode rs impl : String) (d : List UInt8) (bsn : Nat)
    (k : StoreKind) (ranges : Ranges)
    (h1 : blob b = some d) (h2 : bs.toNat? = some bsn) (h3 : storeKind? kind = some k)
    (h4 : parseNatList rs = some ranges)
    (hs : d.length ≤ 2 ^ 63) (hbs : bsn ≤ 10) (hk : k ≠ .empty) (hwf : Ranges.WF ranges = true) :
    (opEnc [b, bs, kind, fl, mode, rs, "-"]
      (opEnc [b, bs, kind, fl, mode, rs, "-"] impl).model).specFail = none := by
  rw [opEnc_intact b bs kind fl mode rs impl d bsn k ranges h1 h2 h3 h4,
    opEnc_intact b bs kind fl mode rs _ d bsn k ranges h1 h2 h3 h4]
  simp only [encModel_intact k hk d bsn hs hbs (flOf fl) mode hwf, encLine_split]
  exact verdict_tokens _ _

example : (opEnc ["const:7:3000", "1", "postIo", "syncw63", "plain", "1,2", "-"]
    (opEnc ["const:7:3000", "1", "postIo", "syncw63", "plain", "1,2", "-"] "").model).specFail
    = none :=
  enc_specFail _ _ _ _ _ _ _ _ 1 .postIo [1, 2] (blob_const 7 3000) (toNat?_toString 1) rfl
    (SpecTrunc.parseNatList_natList [1, 2]) (by rw [List.length_replicate]; decide) (by decide)
    (by decide) (by decide)

/-- canonical argument strings (`toString bs`, `kindStr kind`, `natList ranges`): no parse hypothesis
left but the blob descriptor -/
theorem enc_no_false_alarm (b fl mode impl : String) (d : List UInt8) (bs : Nat) (kind : StoreKind)
    (ranges : Ranges) (h1 : blob b = some d)
    (hs : d.length ≤ 2 ^ 63) (hbs : bs ≤ 10) (hk : kind ≠ .empty) (hwf : Ranges.WF ranges = true) :
    let args := [b, toString bs, kindStr kind, fl, mode, natList ranges, "-"]
    (opEnc args (opEnc args impl).model).specFail = none :=
  enc_specFail b _ _ fl mode _ impl d bs kind ranges h1 (toNat?_toString bs) (storeKind?_kindStr kind)
    (SpecTrunc.parseNatList_natList ranges) hs hbs hk hwf

example : (opEnc ["const:7:3000", toString 0, kindStr .preMem, "mixed", "val", natList [0], "-"]
    (opEnc ["const:7:3000", toString 0, kindStr .preMem, "mixed", "val", natList [0], "-"]
      "x").model).specFail = none :=
  enc_no_false_alarm "const:7:3000" "mixed" "val" "x" _ 0 .preMem [0] (blob_const 7 3000)
    (by rw [List.length_replicate]; decide) (by decide) (by decide) (by decide)

/-- constant blobs of every size `n ≤ 2^63`: no parse hypothesis left -/
theorem enc_const_no_false_alarm (byte n bs : Nat) (kind : StoreKind) (fl mode impl : String)
    (ranges : Ranges) (hn : n ≤ 2 ^ 63) (hbs : bs ≤ 10) (hk : kind ≠ .empty)
    (hwf : Ranges.WF ranges = true) :
    let args := ["const:" ++ toString byte ++ ":" ++ toString n, toString bs, kindStr kind, fl, mode,
      natList ranges, "-"]
    (opEnc args (opEnc args impl).model).specFail = none :=
  enc_no_false_alarm _ fl mode impl _ bs kind ranges (blob_const byte n)
    (by rw [List.length_replicate]; exact hn) hbs hk hwf

example : (opEnc ["const:" ++ toString 200 ++ ":" ++ toString 1000000, toString 4, kindStr .postMem,
      "fsm", "val", natList [3, 500, 18446744073709551615], "-"]
    (opEnc ["const:" ++ toString 200 ++ ":" ++ toString 1000000, toString 4, kindStr .postMem,
      "fsm", "val", natList [3, 500, 18446744073709551615], "-"] "").model).specFail = none :=
  enc_const_no_false_alarm 200 1000000 4 .postMem "fsm" "val" "" _ (by decide) (by decide) (by decide)
    (by decide)

/-- the agreement clauses of `encx` (C08) on an intact store follow: all five model lines carry the
same two leading tokens `Ok <dig Spec.encode>` -/
theorem enc_lines_agree (kind : StoreKind) (hne : kind ≠ .empty) (d : List UInt8) (bs : Nat)
    (hs : d.length ≤ 2 ^ 63) (hbs : bs ≤ 10) (fl₁ mode₁ fl₂ mode₂ : String) {q : Ranges}
    (hwf : Ranges.WF q = true) :
    ((encModel d (intactStore kind d bs) fl₁ mode₁ q).1.splitOn " ").take 2
      = ((encModel d (intactStore kind d bs) fl₂ mode₂ q).1.splitOn " ").take 2 := by
  simp only [encModel_intact kind hne d bs hs hbs _ _ hwf, encLine_split]
  unfold encToks
  cases fl₁ == "mixed" <;> cases fl₂ == "mixed" <;> rfl

example : ((encModel (List.replicate 3000 7) (intactStore .preIo (List.replicate 3000 7) 1)
      "mixed" "val" [1, 2]).1.splitOn " ").take 2
    = ((encModel (List.replicate 3000 7) (intactStore .preIo (List.replicate 3000 7) 1)
      "fsm" "plain" [1, 2]).1.splitOn " ").take 2 :=
  enc_lines_agree .preIo (by decide) _ 1 (by rw [List.length_replicate]; decide) (by decide) _ _ _ _
    (by decide)

/-! ## 4. false alarms outside the theorem -/

/-- FALSE ALARM for the `EmptyOutboard` (`kind = empty`, more than one chunk group): the model's
validating encoder loads the zero pair, reports `ParentHashMismatch(0)`, and the intact verdict
rejects that line (`intact store: ParentHashMismatch(0)`).  The hypothesis `hne` is a fact about
BLAKE3 (the parent of two zero hashes is not the root of the blob); for the blob below it is
`#eval`-true, and `decide +kernel` proves the encoder result without it in about 5 minutes (too slow
to keep here).  `#eval (opEnc a (opEnc a "").model).specFail` for
`a = ["const:7:3000", "0", "empty", "sync", "val", "0", "-"]` gives
`some "intact store: ParentHashMismatch(1)"`, and for `… "plain" …` gives
`some "differs from Spec.encode (3128:11443393804154094637)"` (model: `Ok 3128:16530964291526531197`). -/
theorem enc_empty_false_alarm (impl : String)
    (hne : hf.parentCv zeros32 zeros32 true ≠ Spec.root hf (List.replicate 1025 7)) :
    (opEnc ["const:7:1025", "0", "empty", "sync", "val", "0", "-"]
      (opEnc ["const:7:1025", "0", "empty", "sync", "val", "0", "-"] impl).model).specFail
      ≠ none := by
  have h1 : blob "const:7:1025" = some (List.replicate 1025 7) := blob_const 7 1025
  have h2 : ("0" : String).toNat? = some 0 := toNat?_toString 0
  have h4 : parseNatList "0" = some [0] := SpecTrunc.parseNatList_natList [0]
  rw [opEnc_intact _ _ _ _ _ _ impl _ 0 .empty [0] h1 h2 rfl h4,
    opEnc_intact _ _ _ _ _ _ _ _ 0 .empty [0] h1 h2 rfl h4]
  simp only [flOf_lits.1, encModel_empty_two _ (List.length_replicate ..) hne]
  rw [encLine2_split _ (by
    show NoSp ("ParentHashMismatch(" ++ toString 0 ++ ")")
    exact noSp_append (noSp_append (noSp_lit _ (by decide)) (noSp_nat 0)) (noSp_lit _ (by decide)))]
  intro h
  obtain ⟨rest, e, _⟩ := verdict_sound _ _ _ h
  exact absurd (List.cons.inj e).1 (by decide)

/-- the hypotheses of `enc_empty_false_alarm` other than `hne` hold; `hne` itself:
`#eval (Blake3.parentCv zeros32 zeros32 true != Spec.root hf (List.replicate 1025 7))` is `true` -/
example : (List.replicate 1025 (7 : UInt8)).length = 1025 ∧
    storeKind? "empty" = some StoreKind.empty := ⟨List.length_replicate .., rfl⟩

/- corrected statement: `enc_specFail` above carries `k ≠ .empty`.  With a single chunk group the
`EmptyOutboard` is never loaded and the verdict accepts (checked by `#eval` only, e.g.
`["const:7:1000", "0", "empty", "mixed", "val", "0", "-"]`, `["const:7:2048", "1", "empty", "fsm",
"val", "0", "-"]`); not proved here. -/

end Bao.SpecEnc

/-
Status (task NFA, operation `enc` = `Ops.opEnc`, corruption argument `-`; properties C04 / C08).
Bounds throughout: `d.length ≤ 2^63`, `bs ≤ 10`, `Ranges.WF ranges`, store kind ≠ `empty`.

OUT OF SCOPE: corruption arguments other than `-`.  There the verdict (`encVerdictT`, clauses "prefix of
  the honest encoding", "error iff a dependency is hit", "short data store") judges the model's
  behaviour on a store with altered bytes; that the model satisfies it depends on collision freedom
  of the real hash (C05 / C10 carry such hypotheses) and is not treated here.  `opEnc_eq` (in
  `SpecEncL`) restates `opEnc` for every corruption argument and can serve as the starting point.

PROVED (no `hlen` hypothesis left: the 32-byte facts come from `SpecOb.real_hash_outputs`):
  1. `encode_is_spec''` (= `SpecEncL.encode_is_spec'`, `encode_plain_is_spec'`, `mixed_is_spec'`):
       C04 `encode_is_spec`, `encode_plain_is_spec`, `mixed_is_spec` for EVERY `hf` with `OutLen hf`
       (outputs only) instead of `∀ h, (toBytes h).length = 32`.  In `SpecEncL`: `Intact'`,
       `load_persisted'`, `parent_step'`, `node_run'`, `loop_sub'`, `validated_spec'` (the section `loop`
       of `Lemmas/EncodeSpec.lean` with `load_persisted'` in the one place that used `hlen`);
       `intact'_of_intact` gives the C04 versions back.
  2. component level:
     `store_component`    `intactStore kind d bs` has tree `⟨d.length, bs⟩`, root `Spec.root hf d`, and
                          data `Spec.preOutboard` / `Spec.postOutboard` by kind (uses C03
                          `post_order_writer` and `SpecOb.outboard_store_pre'`);
     `val_component`      `encodeRangesValidated hf f d (intactStore …) q = ⟨Spec.encode hf d bs q, .ok⟩`;
     `plain_component`    the same for `encodeRanges` (C08 `plain_eq_validated_of_ok`);
     `mixed_component`    `traverseRangesValidated` = `some items`, flattening to `Spec.encode`, last
                          item `Done` (C08 `mixed_flatten`, `mixed_panic`);
     `line_component`     `encModel … = (" ".intercalate (encToks honest mixed), mixed)`, i.e. the line is
                          `Ok <dig honest>` / `Ok <dig honest> framing=1`, for ALL flavour / mode strings;
     `split_component`    `splitOn " "` of that line gives `encToks`;
     `dig_component`      `((dig b).splitOn ":").mapM toNat? = some [b.length, (fnv b).toNat]`;
     `verdict_component`  `encVerdictI honest mixed (encToks honest mixed) = none`;
     `verdict_component_iff`  a `none` verdict forces `Ok :: dig honest :: rest` (and `rest = [framing=1]`
                          for the item stream).
  3. op level:
     `enc_specFail`       `(opEnc [b, bs, kind, fl, mode, rs, "-"] (opEnc [… same …] impl).model).specFail = none`
                          for all argument strings with `blob b = some d`, `bs.toNat? = some bsn`,
                          `storeKind? kind = some k`, `parseNatList rs = some ranges`; `fl`, `mode` arbitrary
                          (covers `sync`, `syncw<k>`, `fsm`, `mixed`; `val`, `plain`);
     `enc_no_false_alarm` arguments `toString bs`, `kindStr kind`, `natList ranges`: only `blob b = some d` left;
     `enc_const_no_false_alarm`  additionally `const:B:N` descriptors: no parse hypothesis left;
     `enc_lines_agree`    the first two tokens of the model's line are the same for all five encoders (the
                          agreement clauses of `encx` on an intact store).
  In `SpecEncL`: `opEnc_eq` (`encModel`, `encVerdictT` ARE the `let`s of `opEnc`, by `rfl` after the argument
  parse, every corruption argument), `applyCorruption_intact`, `encVerdictT_intact`, `opEnc_intact`.

PARTIAL: none.
OPEN:
  -- OPEN: `enc_specFail` for `kind = empty` on blobs of a single chunk group (`d.length ≤ 1024·2^bs`): the
  --   plan has no parent item, `load` is never called, the verdict accepts (`#eval`).  Needs a lemma that
  --   `encodeRangesValidated` depends on the store only through `tree`, `root` and `load` on plan parents.
  -- OPEN (out of scope): corruption arguments other than `-`.

FALSE ALARMS of the machinery (verdict rejects the model's own line):
  (a) store kind `empty`, more than one chunk group: `enc_empty_false_alarm` (conditional on one BLAKE3
      inequality; `#eval` and a 5-minute `decide +kernel` confirm it unconditionally).  The model follows the
      crate here (`EmptyOutboard::load` hands out zero pairs), so the real code fails the same clause: the
      verdict's "intact store ⇒ Ok and Spec.encode" is simply not meant for `empty`.  The generators
      (`harness/src/gen2.rs`: C04 picks from `["preMem","postMem","preIo","postIo"]`, C05/C08enc `encx` from
      `STORES` = the same four; `gen3.rs` likewise) NEVER emit `empty` for `enc` / `encx`.
  (b) ill-formed range lists (not strictly increasing), e.g. `enc const:7:3000 0 preMem sync val 5,2 -`:
      `encodeRangesValidated` ≠ `⟨Spec.encode …, Ok⟩` (`#eval`; `Spec.selected` and `truncate` disagree on
      unsorted input).  The generators sort and dedup every query (`query_classes`, `subsets`), and the crate's
      `RangeSetRef` cannot hold such a list: outside the well-formed-query bound of the task.
  Within the bounds (stored kind, well-formed query): none.

Generator coverage: `gen2.rs` C04 emits `enc <blob> <bs ≤ 8> <preMem|postMem|preIo|postIo>
  <sync|fsm|mixed|syncw<k>> <val|plain> <sorted, deduplicated list, boundaries ≤ u64::MAX> -` with blobs
  ≤ 1.2 MB: all inside `enc_no_false_alarm` (`rnd:` / `rep:` / `idx:` descriptors through `blob b = some d`).

Model remarks: nothing wrong found.  `intactStore .empty` stores the PRE-order outboard bytes under kind
  `empty` (they are never read: `Store.load` of `empty` ignores `data`).

Non-vacuity: every theorem with hypotheses is followed by a concrete instance (`const:7:3000` blobs, all
  four stored kinds, `syncw63` / `fsm` / `mixed`); `empty_blob_tokens` and two examples use `decide +kernel`
  (no BLAKE3 evaluation: the empty blob's encoding is the empty leaf).

Axioms (`#print axioms`, all theorems of this file and of `SpecEncL`): subsets of
  [propext, Classical.choice, Quot.sound] (`empty_blob_tokens`: [propext, Quot.sound]).
-/
