import BaoProofs.Lemmas.NodeIter

/-!
# C12 (iterators) — the node iterators visit the persisted nodes in traversal order

"… map the nodes an outboard persists one-to-one onto 0..(chunk groups - 1), in exactly the order
in which the corresponding traversal visits them …"

`C12.pre` / `C12.post` relate the offset functions to the *recursive* lists
`Spec.persistedPre` / `Spec.persistedPost`.  Here the real traversals of the crate —
`PreOrderNodeIter`, `PostOrderNodeIter` (three-state machines `NodeIter.preStep`/`postStep`) and
`BaoTree::pre_order_nodes_iter` / `post_order_nodes_iter` — are shown to produce these lists:

* `pre_machine`, `post_machine`: state machine = tree recursion, on any dense tree with an odd
  number of ids (`Offsets.preD F h 0` / `postD F h 0`: recursive lists of ALL ids `< F` below the
  root `(0, h)`; an id `≥ F` is replaced by its left child);
* `pre_shifted`, `post_shifted`: the instance `(root, F) = Tree.shifted t`;
* `pre_iter`, `post_iter`, `post_iter_position`: in real node ids, the iterators yield the
  persisted nodes in recursive order plus the half leaf (present iff `blocks` is odd): last in
  pre-order; in post-order directly after the stable nodes and before the unstable ones
  (which are its ancestors);
* `pre_iter_offsets`, `post_iter_offsets`: hence the offsets along the iterators are
  `0, 1, …, blocks-2`.
-/

namespace Bao.C12Iter

open Bao Bao.NodeIterL
open Bao.Spec (nodeOf)
open Bao.Offsets (preD postD isStable)

/-- `PreOrderNodeIter::new(root, F)` on a dense tree (`F` odd, root `(0,h)` with
`root < F < 2^(h+1)`) is the pre-order recursion over the ids `< F` -/
theorem pre_machine (F h : Nat) (hodd : F % 2 = 1) (hh : h ≤ 63) (hroot : nodeOf 0 h < F)
    (hF : F < 2 ^ (h + 1)) : preOrderNodes (nodeOf 0 h) F = preD F h 0 :=
  preOrderNodes_eq F h hodd hh hroot hF

example : preOrderNodes (nodeOf 0 2) 5 = [3, 1, 0, 2, 4] :=
  pre_machine 5 2 (by decide) (by decide) (by decide) (by decide)

/-- `PostOrderNodeIter::new(root, F)` on a dense tree is the post-order recursion -/
theorem post_machine (F h : Nat) (hodd : F % 2 = 1) (hh : h ≤ 63) (hroot : nodeOf 0 h < F)
    (hF : F < 2 ^ (h + 1)) : postOrderNodes (nodeOf 0 h) F = postD F h 0 :=
  postOrderNodes_eq F h hodd hh hroot hF

example : postOrderNodes (nodeOf 0 2) 5 = [0, 2, 1, 4, 3] :=
  post_machine 5 2 (by decide) (by decide) (by decide) (by decide)

/-- the instance used by `BaoTree`: `(root, F) = tree.shifted()` -/
theorem pre_shifted (size bs : Nat) (hs : size ≤ 2 ^ 63) :
    preOrderNodes (Tree.shifted ⟨size, bs⟩).1 (Tree.shifted ⟨size, bs⟩).2
      = preD (Tree.shifted ⟨size, bs⟩).2 (rootLevel ⟨size, bs⟩) 0 :=
  preOrderNodes_shifted size bs hs

example : preOrderNodes (Tree.shifted ⟨5000, 0⟩).1 (Tree.shifted ⟨5000, 0⟩).2
    = preD (Tree.shifted ⟨5000, 0⟩).2 (rootLevel ⟨5000, 0⟩) 0 := pre_shifted 5000 0 (by decide)

theorem post_shifted (size bs : Nat) (hs : size ≤ 2 ^ 63) :
    postOrderNodes (Tree.shifted ⟨size, bs⟩).1 (Tree.shifted ⟨size, bs⟩).2
      = postD (Tree.shifted ⟨size, bs⟩).2 (rootLevel ⟨size, bs⟩) 0 :=
  postOrderNodes_shifted size bs hs

example : postOrderNodes (Tree.shifted ⟨5000, 0⟩).1 (Tree.shifted ⟨5000, 0⟩).2
    = postD (Tree.shifted ⟨5000, 0⟩).2 (rootLevel ⟨5000, 0⟩) 0 := post_shifted 5000 0 (by decide)

/-- `pre_order_nodes_iter` = persisted nodes in pre-order, then the half leaf
(`halfLeaf t = [subBs (blocks-1) bs]` if `blocks` is odd, else `[]`) -/
theorem pre_iter (size bs : Nat) (hs : size ≤ 2 ^ 63) (hbs : bs ≤ 10) :
    Tree.preOrderNodesIter ⟨size, bs⟩ = Spec.persistedPre size bs ++ halfLeaf ⟨size, bs⟩ :=
  preIter_eq size bs hs hbs

example : Tree.preOrderNodesIter ⟨5000, 0⟩ = Spec.persistedPre 5000 0 ++ halfLeaf ⟨5000, 0⟩ ∧
    halfLeaf ⟨5000, 0⟩ = [4] := ⟨pre_iter 5000 0 (by decide) (by decide), by decide⟩

/-- `post_order_nodes_iter` with the half leaf removed = persisted nodes in post-order -/
theorem post_iter (size bs : Nat) (hs : size ≤ 2 ^ 63) (hbs : bs ≤ 10) :
    (Tree.postOrderNodesIter ⟨size, bs⟩).filter (fun x => !(halfLeaf ⟨size, bs⟩).contains x)
      = Spec.persistedPost size bs :=
  postIter_filter size bs hs hbs

example : (Tree.postOrderNodesIter ⟨5000, 0⟩).filter (fun x => !(halfLeaf ⟨5000, 0⟩).contains x)
    = Spec.persistedPost 5000 0 := post_iter 5000 0 (by decide) (by decide)

/-- exact position of the half leaf in `post_order_nodes_iter` (odd number of blocks): after the
stable persisted nodes `A`, before the unstable ones `B` (its ancestors); for an even number of
blocks `post_iter` gives `post_order_nodes_iter = persistedPost` (the filter is `true`) -/
theorem post_iter_position (size bs : Nat) (hs : size ≤ 2 ^ 63) (hbs : bs ≤ 10)
    (hb : Tree.blocks ⟨size, bs⟩ % 2 = 1) :
    ∃ A B, Tree.postOrderNodesIter ⟨size, bs⟩
        = A ++ Node.subBs (Tree.blocks ⟨size, bs⟩ - 1) bs :: B ∧
      Spec.persistedPost size bs = A ++ B ∧
      (∀ a ∈ A, isStable ⟨size, bs⟩ a = true) ∧ (∀ b ∈ B, isStable ⟨size, bs⟩ b = false) :=
  postIter_exact size bs hs hbs hb

example : ∃ A B, Tree.postOrderNodesIter ⟨5000, 0⟩ = A ++ Node.subBs (Tree.blocks ⟨5000, 0⟩ - 1) 0 :: B ∧
    Spec.persistedPost 5000 0 = A ++ B ∧
    (∀ a ∈ A, isStable ⟨5000, 0⟩ a = true) ∧ (∀ b ∈ B, isStable ⟨5000, 0⟩ b = false) :=
  post_iter_position 5000 0 (by decide) (by decide) (by decide)

/-- even number of blocks: no half leaf, the post-order iterator is the recursive list -/
theorem post_iter_even (size bs : Nat) (hs : size ≤ 2 ^ 63) (hbs : bs ≤ 10)
    (hb : Tree.blocks ⟨size, bs⟩ % 2 = 0) :
    Tree.postOrderNodesIter ⟨size, bs⟩ = Spec.persistedPost size bs := by
  have h := postIter_filter size bs hs hbs
  have he : halfLeaf ⟨size, bs⟩ = [] := by
    unfold halfLeaf; rw [if_neg (by omega)]
  rw [he] at h
  simp only [List.contains_nil, Bool.not_false] at h
  rwa [List.filter_eq_self.mpr (fun _ _ => rfl)] at h

example : Tree.postOrderNodesIter ⟨4000, 0⟩ = Spec.persistedPost 4000 0 :=
  post_iter_even 4000 0 (by decide) (by decide) (by decide)

/-- offsets along the pre-order iterator: `0, 1, …, blocks-2`, then `none` for the half leaf -/
theorem pre_iter_offsets (size bs : Nat) (hs : size ≤ 2 ^ 63) (hbs : bs ≤ 10) :
    (Tree.preOrderNodesIter ⟨size, bs⟩).map (Tree.preOrderOffset ⟨size, bs⟩)
      = (List.range' 0 (Tree.blocks ⟨size, bs⟩ - 1)).map some
        ++ (halfLeaf ⟨size, bs⟩).map (fun _ => none) :=
  preIter_offsets size bs hs hbs

example : (Tree.preOrderNodesIter ⟨5000, 0⟩).map (Tree.preOrderOffset ⟨5000, 0⟩)
    = [some 0, some 1, some 2, some 3, none] := pre_iter_offsets 5000 0 (by decide) (by decide)

/-- offsets along the post-order iterator (skipping the half leaf, which has none):
`0, 1, …, blocks-2` -/
theorem post_iter_offsets (size bs : Nat) (hs : size ≤ 2 ^ 63) (hbs : bs ≤ 10) :
    (Tree.postOrderNodesIter ⟨size, bs⟩).filterMap
        (fun x => (Tree.postOrderOffset ⟨size, bs⟩ x).map Tree.PostOffset.value)
      = List.range' 0 (Tree.blocks ⟨size, bs⟩ - 1) :=
  postIter_offsets size bs hs hbs

example : (Tree.postOrderNodesIter ⟨5000, 0⟩).filterMap
    (fun x => (Tree.postOrderOffset ⟨5000, 0⟩ x).map Tree.PostOffset.value) = [0, 1, 2, 3] :=
  post_iter_offsets 5000 0 (by decide) (by decide)

end Bao.C12Iter

/-
Status.
PROVED (full strength):
  * `pre_machine`, `post_machine`   — the three-state iterators equal the tree recursion on every
        dense tree with an odd id count `F`, root `(0,h)`, `h ≤ 63`, `root < F < 2^(h+1)`; the
        model's fuel `3F+3` suffices (exact number of loop turns: `NodeIterL.cost`).
  * `pre_shifted`, `post_shifted`   — instance `Tree.shifted t`, `size ≤ 2^63`, every `bs`.
  * `pre_iter`, `post_iter`, `post_iter_even`, `post_iter_position` — real node ids
        (`bs ≤ 10` is used only for `subtract_block_size` not to wrap).
  * `pre_iter_offsets`, `post_iter_offsets` — combination with C12: offsets along the real
        iterators are `0 … blocks-2`.
PARTIAL: none.   OPEN: none.
-/
