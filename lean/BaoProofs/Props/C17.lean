import BaoProofs.Lemmas.RangeSet

/-!
# C17: range rounding helpers are the tightest covers and never overflow

`round_up_to_chunks`, `round_up_to_chunks_groups`, `full_chunk_groups`
(`src/io/mod.rs`) on range sets modelled as strictly increasing boundary lists
(`BaoModel/Ranges.lean`).  The universe of byte offsets / chunk numbers is `[0, 2^64)`;
an open last range `[a, ∞)` denotes `[a, 2^64)`.  Chunk numbers of bytes are `< 2^54`.

Hypotheses are the weakest that the proofs need: the two chunk-group roundings are stated
for every `bs` (`round_up_to_chunks_groups`) resp. `bs ≤ 64` (`full_chunk_groups`, where a
chunk group must not straddle `2^64`); both cover the property's `bs ≤ 10`.
-/

namespace Bao.C17

open Bao.Ranges

/-- semantic membership of `x` in the range set with boundary list `R` -/
def Mem (R : List Nat) (x : Nat) : Prop := Ranges.contains R x = true

instance (R : List Nat) (x : Nat) : Decidable (Mem R x) :=
  inferInstanceAs (Decidable (Ranges.contains R x = true))

/-- every boundary is a `u64` -/
def Bounded (R : List Nat) : Prop := ∀ b ∈ R, b < 2 ^ 64

instance (R : List Nat) : Decidable (Bounded R) :=
  inferInstanceAs (Decidable (∀ b ∈ R, b < 2 ^ 64))

/-- `S` is a union of whole chunk groups of `2^bs` chunks (inside the u64 universe) -/
def Aligned (bs : Nat) (S : Nat → Prop) : Prop :=
  ∀ c c', c < 2 ^ 64 → c' < 2 ^ 64 → c / 2 ^ bs = c' / 2 ^ bs → S c → S c'

/-! ## meaning of a boundary list -/

theorem mem_nil (x : Nat) : ¬ Mem [] x := by
  simp [Mem, contains_nil]

theorem mem_single (a x : Nat) : Mem [a] x ↔ a ≤ x := by
  simp [Mem, contains_single]

theorem mem_cons_cons {a b : Nat} {rest : List Nat} (h : WF (a :: b :: rest) = true) (x : Nat) :
    Mem (a :: b :: rest) x ↔ (a ≤ x ∧ x < b) ∨ Mem rest x := by
  simp [Mem, contains_cons_cons h]

example : Mem [3, 18, 40] 17 ↔ (3 ≤ 17 ∧ 17 < 18) ∨ Mem [40] 17 :=
  mem_cons_cons (a := 3) (b := 18) (rest := [40]) (by decide) 17

/-! ## union -/

theorem union_wf {A B : List Nat} (hA : WF A = true) (hB : WF B = true) :
    WF (union A B) = true :=
  Ranges.union_wf hA hB

theorem union_mem {A B : List Nat} (hA : WF A = true) (hB : WF B = true) (x : Nat) :
    Mem (union A B) x ↔ Mem A x ∨ Mem B x :=
  Ranges.union_mem hA hB x

example : WF (union [0, 4, 10] [2, 12]) = true :=
  union_wf (A := [0, 4, 10]) (B := [2, 12]) (by decide) (by decide)

example : Mem (union [0, 4, 10] [2, 12]) 11 ↔ Mem [0, 4, 10] 11 ∨ Mem [2, 12] 11 :=
  union_mem (A := [0, 4, 10]) (B := [2, 12]) (by decide) (by decide) 11

/-! ## `round_up_to_chunks` -/

/-- the result is a well-formed set with boundaries `≤ 2^54` (no overflow) -/
theorem chunks_wf {R : List Nat} (h : WF R = true) (hN : Bounded R) :
    WF (roundUpToChunks R) = true ∧ ∀ b ∈ roundUpToChunks R, b ≤ 2 ^ 54 :=
  (roundUpToChunks_sem h hN).1

/-- chunk `c` is selected iff one of its bytes is (all `c`, bytes as naturals) -/
theorem chunks {R : List Nat} (h : WF R = true) (hN : Bounded R) (c : Nat) :
    Mem (roundUpToChunks R) c ↔ ∃ x, 1024 * c ≤ x ∧ x < 1024 * c + 1024 ∧ Mem R x :=
  (roundUpToChunks_sem h hN).2 c

/-- the same inside the u64 universe: chunks `< 2^54`, bytes `< 2^64` -/
theorem chunks_u64 {R : List Nat} (h : WF R = true) (hN : Bounded R) (c : Nat) (hc : c < 2 ^ 54) :
    Mem (roundUpToChunks R) c ↔
      ∃ x, x < 2 ^ 64 ∧ 1024 * c ≤ x ∧ x < 1024 * c + 1024 ∧ Mem R x := by
  rw [chunks h hN]
  constructor
  · rintro ⟨x, h1, h2, h3⟩
    exact ⟨x, by omega, h1, h2, h3⟩
  · rintro ⟨x, _, h1, h2, h3⟩
    exact ⟨x, h1, h2, h3⟩

/-- cover: the chunk of every selected byte is selected -/
theorem chunks_superset {R : List Nat} (h : WF R = true) (hN : Bounded R) (x : Nat)
    (hx : Mem R x) : Mem (roundUpToChunks R) (x / 1024) :=
  (chunks h hN _).2 ⟨x, by omega, by omega, hx⟩

/-- tightest: every chunk set covering the bytes of `R` contains the result -/
theorem chunks_minimal {R : List Nat} (h : WF R = true) (hN : Bounded R) (S : Nat → Prop)
    (hS : ∀ x, x < 2 ^ 64 → Mem R x → S (x / 1024)) (c : Nat) (hc : c < 2 ^ 54)
    (hm : Mem (roundUpToChunks R) c) : S c := by
  obtain ⟨x, hx, h1, h2, h3⟩ := (chunks_u64 h hN c hc).1 hm
  have : x / 1024 = c := by omega
  exact this ▸ hS x hx h3

theorem chunks_mono {R R' : List Nat} (h : WF R = true) (hN : Bounded R) (h' : WF R' = true)
    (hN' : Bounded R') (hsub : ∀ x, x < 2 ^ 64 → Mem R x → Mem R' x) (c : Nat) (hc : c < 2 ^ 54)
    (hm : Mem (roundUpToChunks R) c) : Mem (roundUpToChunks R') c :=
  chunks_minimal h hN (Mem (roundUpToChunks R'))
    (fun x hx hx' => chunks_superset h' hN' x (hsub x hx hx')) c hc hm

/-- idempotent: rounding the bytes of the selected chunks selects the same chunks -/
theorem chunks_idem {R R' : List Nat} (h' : WF R' = true) (hN' : Bounded R')
    (hR' : ∀ x, x < 2 ^ 64 → (Mem R' x ↔ Mem (roundUpToChunks R) (x / 1024)))
    (c : Nat) (hc : c < 2 ^ 54) :
    Mem (roundUpToChunks R') c ↔ Mem (roundUpToChunks R) c := by
  constructor
  · intro hm
    exact chunks_minimal h' hN' (Mem (roundUpToChunks R)) (fun x hx hx' => (hR' x hx).1 hx') c hc hm
  · intro hm
    have : (1024 * c) / 1024 = c := by omega
    exact this ▸ chunks_superset h' hN' (1024 * c) ((hR' _ (by omega)).2 (this.symm ▸ hm))

example : roundUpToChunks [3, 1024, 1025, 5000, 2 ^ 64 - 1] = [0, 5, 2 ^ 54 - 1] := by decide

example : WF (roundUpToChunks [3, 18, 40]) = true ∧ ∀ b ∈ roundUpToChunks [3, 18, 40], b ≤ 2 ^ 54 :=
  chunks_wf (R := [3, 18, 40]) (by decide) (by decide)

example : Mem (roundUpToChunks [3, 18, 2000]) 1 ↔
    ∃ x, 1024 * 1 ≤ x ∧ x < 1024 * 1 + 1024 ∧ Mem [3, 18, 2000] x :=
  chunks (R := [3, 18, 2000]) (by decide) (by decide) 1

example : Mem (roundUpToChunks [2 ^ 64 - 2, 2 ^ 64 - 1]) (2 ^ 54 - 1) ↔
    ∃ x, x < 2 ^ 64 ∧ 1024 * (2 ^ 54 - 1) ≤ x ∧ x < 1024 * (2 ^ 54 - 1) + 1024 ∧
      Mem [2 ^ 64 - 2, 2 ^ 64 - 1] x :=
  chunks_u64 (R := [2 ^ 64 - 2, 2 ^ 64 - 1]) (by decide) (by decide) _ (by decide)

example : Mem (roundUpToChunks [3, 18, 4000]) (5000 / 1024) :=
  chunks_superset (R := [3, 18, 4000]) (by decide) (by decide) 5000 (by decide)

example : Mem (roundUpToChunks [0]) 0 :=
  chunks_minimal (R := [3, 18, 40]) (by decide) (by decide) (Mem (roundUpToChunks [0]))
    (fun x hx _ => chunks_superset (R := [0]) (by decide) (by decide) x (by simp [Mem, contains_single]))
    0 (by decide) (by decide)

example : Mem (roundUpToChunks [3, 18, 40]) 9 :=
  chunks_mono (R := [3, 18, 9000]) (R' := [3, 18, 40]) (by decide) (by decide) (by decide)
    (by decide)
    (fun x _ hx => by
      rw [mem_cons_cons (by decide)] at *
      rw [mem_single] at *
      omega)
    9 (by decide) (by decide)

example : Mem (roundUpToChunks [0, 1024, 2048]) 2 ↔ Mem (roundUpToChunks [3, 18, 2500]) 2 :=
  chunks_idem (R := [3, 18, 2500]) (R' := [0, 1024, 2048]) (by decide) (by decide)
    (fun x _ => by
      have e : roundUpToChunks [3, 18, 2500] = [0, 1, 2] := by decide
      rw [e, mem_cons_cons (by decide), mem_cons_cons (by decide), mem_single, mem_single]
      omega)
    2 (by decide)

/-! ## `round_up_to_chunks_groups` -/

/-- the result is a well-formed set of u64 boundaries (no overflow) -/
theorem groups_wf {R : List Nat} (bs : Nat) (h : WF R = true) (hN : Bounded R) :
    WF (roundUpToChunkGroups R bs) = true ∧ Bounded (roundUpToChunkGroups R bs) := by
  have := (roundUpToChunkGroups_sem bs h hN).1
  exact ⟨this.1, fun b hb => by have := this.2 b hb; omega⟩

/-- chunk `c` is selected iff some chunk of its chunk group is -/
theorem groups {R : List Nat} (bs : Nat) (h : WF R = true) (hN : Bounded R) (c : Nat)
    (hc : c < 2 ^ 64) :
    Mem (roundUpToChunkGroups R bs) c ↔
      ∃ x, x < 2 ^ 64 ∧ x / 2 ^ bs = c / 2 ^ bs ∧ Mem R x :=
  (roundUpToChunkGroups_sem bs h hN).2 c hc

theorem groups_superset {R : List Nat} (bs : Nat) (h : WF R = true) (hN : Bounded R) (c : Nat)
    (hc : c < 2 ^ 64) (hm : Mem R c) : Mem (roundUpToChunkGroups R bs) c :=
  (groups bs h hN c hc).2 ⟨c, hc, rfl, hm⟩

theorem groups_aligned {R : List Nat} (bs : Nat) (h : WF R = true) (hN : Bounded R) :
    Aligned bs (Mem (roundUpToChunkGroups R bs)) := by
  intro c c' hc hc' e hm
  rw [groups bs h hN c' hc', ← e]
  exact (groups bs h hN c hc).1 hm

/-- smallest group-aligned superset -/
theorem groups_minimal {R : List Nat} (bs : Nat) (h : WF R = true) (hN : Bounded R)
    (S : Nat → Prop) (hal : Aligned bs S) (hS : ∀ x, x < 2 ^ 64 → Mem R x → S x)
    (c : Nat) (hc : c < 2 ^ 64) (hm : Mem (roundUpToChunkGroups R bs) c) : S c := by
  obtain ⟨x, hx, e, hx'⟩ := (groups bs h hN c hc).1 hm
  exact hal x c hx hc e (hS x hx hx')

theorem groups_mono {R R' : List Nat} (bs : Nat) (h : WF R = true) (hN : Bounded R)
    (h' : WF R' = true) (hN' : Bounded R') (hsub : ∀ x, x < 2 ^ 64 → Mem R x → Mem R' x)
    (c : Nat) (hc : c < 2 ^ 64) (hm : Mem (roundUpToChunkGroups R bs) c) :
    Mem (roundUpToChunkGroups R' bs) c :=
  groups_minimal bs h hN _ (groups_aligned bs h' hN')
    (fun x hx hx' => groups_superset bs h' hN' x hx (hsub x hx hx')) c hc hm

theorem groups_idem {R : List Nat} (bs : Nat) (h : WF R = true) (hN : Bounded R) (c : Nat)
    (hc : c < 2 ^ 64) :
    Mem (roundUpToChunkGroups (roundUpToChunkGroups R bs) bs) c ↔
      Mem (roundUpToChunkGroups R bs) c := by
  have hw := groups_wf bs h hN
  constructor
  · exact groups_minimal bs hw.1 hw.2 _ (groups_aligned bs h hN) (fun _ _ hx => hx) c hc
  · exact groups_superset bs hw.1 hw.2 c hc

example : roundUpToChunkGroups [3, 18, 40] 2 = [0, 20, 40] := by decide
example : roundUpToChunkGroups [2 ^ 64 - 2, 2 ^ 64 - 1] 2 = [2 ^ 64 - 4] := by decide
example : roundUpToChunkGroups [0, 1, 2 ^ 64 - 1] 10 = [0, 1024, 2 ^ 64 - 1024] := by decide
example : roundUpToChunkGroups [1, 3, 5, 7, 9, 10] 2 = [0, 12] := by decide

example : WF (roundUpToChunkGroups [3, 18, 40] 2) = true ∧
    Bounded (roundUpToChunkGroups [3, 18, 40] 2) :=
  groups_wf (R := [3, 18, 40]) 2 (by decide) (by decide)

example : Mem (roundUpToChunkGroups [3, 18, 40] 2) 19 ↔
    ∃ x, x < 2 ^ 64 ∧ x / 2 ^ 2 = 19 / 2 ^ 2 ∧ Mem [3, 18, 40] x :=
  groups (R := [3, 18, 40]) 2 (by decide) (by decide) 19 (by decide)

example : Mem (roundUpToChunkGroups [3, 18, 40] 2) 17 :=
  groups_superset (R := [3, 18, 40]) 2 (by decide) (by decide) 17 (by decide) (by decide)

example : Aligned 2 (Mem (roundUpToChunkGroups [3, 18, 40] 2)) :=
  groups_aligned (R := [3, 18, 40]) 2 (by decide) (by decide)

example : Mem (roundUpToChunkGroups [0] 2) 19 :=
  groups_minimal (R := [3, 18, 40]) 2 (by decide) (by decide) _
    (groups_aligned (R := [0]) 2 (by decide) (by decide))
    (fun x hx _ => groups_superset (R := [0]) 2 (by decide) (by decide) x hx
      ((mem_single 0 x).2 (Nat.zero_le x)))
    19 (by decide) (by decide)

example : Mem (roundUpToChunkGroups [3, 18, 40] 2) 2 :=
  groups_mono (R := [3, 18]) (R' := [3, 18, 40]) 2 (by decide) (by decide) (by decide) (by decide)
    (fun x _ hx => by
      rw [mem_cons_cons (by decide)] at *
      exact hx.imp id (fun h => absurd h (mem_nil x)))
    2 (by decide) (by decide)

example : Mem (roundUpToChunkGroups (roundUpToChunkGroups [3, 18, 40] 2) 2) 19 ↔
    Mem (roundUpToChunkGroups [3, 18, 40] 2) 19 :=
  groups_idem (R := [3, 18, 40]) 2 (by decide) (by decide) 19 (by decide)

/-! ## `full_chunk_groups` -/

/-- the result is a well-formed set of u64 boundaries (no overflow) -/
theorem full_wf {R : List Nat} (bs : Nat) (hbs : bs ≤ 64) (h : WF R = true) (hN : Bounded R) :
    WF (fullChunkGroups R bs) = true ∧ Bounded (fullChunkGroups R bs) := by
  have := (fullChunkGroups_sem bs hbs h hN).1
  exact ⟨this.1, fun b hb => by have := this.2 b hb; omega⟩

/-- chunk `c` is selected iff every chunk of its chunk group is -/
theorem full {R : List Nat} (bs : Nat) (hbs : bs ≤ 64) (h : WF R = true) (hN : Bounded R)
    (c : Nat) (hc : c < 2 ^ 64) :
    Mem (fullChunkGroups R bs) c ↔
      ∀ x, x < 2 ^ 64 → x / 2 ^ bs = c / 2 ^ bs → Mem R x :=
  (fullChunkGroups_sem bs hbs h hN).2 c hc

theorem full_subset {R : List Nat} (bs : Nat) (hbs : bs ≤ 64) (h : WF R = true) (hN : Bounded R)
    (c : Nat) (hc : c < 2 ^ 64) (hm : Mem (fullChunkGroups R bs) c) : Mem R c :=
  (full bs hbs h hN c hc).1 hm c hc rfl

theorem full_aligned {R : List Nat} (bs : Nat) (hbs : bs ≤ 64) (h : WF R = true)
    (hN : Bounded R) : Aligned bs (Mem (fullChunkGroups R bs)) := by
  intro c c' hc hc' e hm
  rw [full bs hbs h hN c' hc', ← e]
  exact (full bs hbs h hN c hc).1 hm

/-- largest group-aligned subset -/
theorem full_maximal {R : List Nat} (bs : Nat) (hbs : bs ≤ 64) (h : WF R = true)
    (hN : Bounded R) (S : Nat → Prop) (hal : Aligned bs S)
    (hS : ∀ x, x < 2 ^ 64 → S x → Mem R x) (c : Nat) (hc : c < 2 ^ 64) (hm : S c) :
    Mem (fullChunkGroups R bs) c :=
  (full bs hbs h hN c hc).2 (fun x hx e => hS x hx (hal c x hc hx e.symm hm))

theorem full_mono {R R' : List Nat} (bs : Nat) (hbs : bs ≤ 64) (h : WF R = true)
    (hN : Bounded R) (h' : WF R' = true) (hN' : Bounded R')
    (hsub : ∀ x, x < 2 ^ 64 → Mem R x → Mem R' x) (c : Nat) (hc : c < 2 ^ 64)
    (hm : Mem (fullChunkGroups R bs) c) : Mem (fullChunkGroups R' bs) c :=
  full_maximal bs hbs h' hN' _ (full_aligned bs hbs h hN)
    (fun x hx hx' => hsub x hx (full_subset bs hbs h hN x hx hx')) c hc hm

theorem full_idem {R : List Nat} (bs : Nat) (hbs : bs ≤ 64) (h : WF R = true) (hN : Bounded R)
    (c : Nat) (hc : c < 2 ^ 64) :
    Mem (fullChunkGroups (fullChunkGroups R bs) bs) c ↔ Mem (fullChunkGroups R bs) c := by
  have hw := full_wf bs hbs h hN
  constructor
  · exact full_subset bs hbs hw.1 hw.2 c hc
  · exact full_maximal bs hbs hw.1 hw.2 _ (full_aligned bs hbs h hN) (fun _ _ hx => hx) c hc

/-- the two group roundings bracket the set: `full R ⊆ R ⊆ groups R`, and they agree on
group-aligned sets -/
theorem full_groups {R : List Nat} (bs : Nat) (hbs : bs ≤ 64) (h : WF R = true) (hN : Bounded R)
    (c : Nat) (hc : c < 2 ^ 64) :
    Mem (fullChunkGroups (roundUpToChunkGroups R bs) bs) c ↔ Mem (roundUpToChunkGroups R bs) c := by
  have hw := groups_wf bs h hN
  constructor
  · exact full_subset bs hbs hw.1 hw.2 c hc
  · exact full_maximal bs hbs hw.1 hw.2 _ (groups_aligned bs h hN) (fun _ _ hx => hx) c hc

example : fullChunkGroups [3, 18, 40] 2 = [4, 16, 40] := by decide
example : fullChunkGroups [2 ^ 64 - 3] 2 = [] := by decide
example : fullChunkGroups [2 ^ 64 - 4] 2 = [2 ^ 64 - 4] := by decide
example : fullChunkGroups [2 ^ 64 - 8, 2 ^ 64 - 1] 2 = [2 ^ 64 - 8, 2 ^ 64 - 4] := by decide
example : fullChunkGroups [0, 3, 4, 8, 9, 17] 2 = [4, 8, 12, 16] := by decide

example : WF (fullChunkGroups [3, 18, 40] 2) = true ∧ Bounded (fullChunkGroups [3, 18, 40] 2) :=
  full_wf (R := [3, 18, 40]) 2 (by decide) (by decide) (by decide)

example : Mem (fullChunkGroups [3, 18, 40] 2) 5 ↔
    ∀ x, x < 2 ^ 64 → x / 2 ^ 2 = 5 / 2 ^ 2 → Mem [3, 18, 40] x :=
  full (R := [3, 18, 40]) 2 (by decide) (by decide) (by decide) 5 (by decide)

example : Mem [3, 18, 40] 5 :=
  full_subset (R := [3, 18, 40]) 2 (by decide) (by decide) (by decide) 5 (by decide) (by decide)

example : Aligned 2 (Mem (fullChunkGroups [3, 18, 40] 2)) :=
  full_aligned (R := [3, 18, 40]) 2 (by decide) (by decide) (by decide)

example : Mem (fullChunkGroups [3, 18, 40] 2) 5 :=
  full_maximal (R := [3, 18, 40]) 2 (by decide) (by decide) (by decide) _
    (full_aligned (R := [4, 8]) 2 (by decide) (by decide) (by decide))
    (fun x hx hx' => by
      have := full_subset (R := [4, 8]) 2 (by decide) (by decide) (by decide) x hx hx'
      rw [mem_cons_cons (by decide)] at *
      rcases this with h | h
      · omega
      · exact absurd h (mem_nil x))
    5 (by decide) (by decide)

example : Mem (fullChunkGroups [3, 18, 40] 2) 5 :=
  full_mono (R := [4, 8]) (R' := [3, 18, 40]) 2 (by decide) (by decide) (by decide) (by decide)
    (by decide)
    (fun x _ hx => by
      rw [mem_cons_cons (by decide)] at *
      rcases hx with h | h
      · omega
      · exact absurd h (mem_nil x))
    5 (by decide) (by decide)

example : Mem (fullChunkGroups (fullChunkGroups [3, 18, 40] 2) 2) 5 ↔
    Mem (fullChunkGroups [3, 18, 40] 2) 5 :=
  full_idem (R := [3, 18, 40]) 2 (by decide) (by decide) (by decide) 5 (by decide)

example : Mem (fullChunkGroups (roundUpToChunkGroups [3, 18, 40] 2) 2) 19 ↔
    Mem (roundUpToChunkGroups [3, 18, 40] 2) 19 :=
  full_groups (R := [3, 18, 40]) 2 (by decide) (by decide) (by decide) 19 (by decide)

/-! ## the model's overflow tests are the Rust ones

`round_up_to_chunks_groups` in the fixed `src/io/mod.rs` calls `ceil` for the range end; the
model spells it `chunkGroupEnd?`.  Same function, and `none` exactly when `checked_add` fails. -/

theorem chunkGroupEnd_is_ceil (e bs : Nat) : chunkGroupEnd? e bs = ceilGroup? e bs :=
  chunkGroupEnd?_eq_ceilGroup? e bs

theorem ceil_checked {v bs : Nat} (hbs : bs ≤ 64) :
    (ceilGroup? v bs).isSome = true ↔ v + (2 ^ bs - 1) < 2 ^ 64 :=
  ceilGroup?_isSome_iff hbs

example : (ceilGroup? (2 ^ 64 - 3) 2).isSome = true ↔ 2 ^ 64 - 3 + (2 ^ 2 - 1) < 2 ^ 64 :=
  ceil_checked (v := 2 ^ 64 - 3) (bs := 2) (by decide)

end Bao.C17

/-
## Status

Proved (all without `sorry`; axioms ⊆ {propext, Classical.choice, Quot.sound}):
* meaning of boundary lists: `mem_nil`, `mem_single`, `mem_cons_cons`
* `union_wf`, `union_mem`
* `round_up_to_chunks`: `chunks_wf` (WF, boundaries ≤ 2^54), `chunks` (all `c`, bytes in Nat),
  `chunks_u64` (`c < 2^54`, bytes `< 2^64`), `chunks_superset`, `chunks_minimal`, `chunks_mono`,
  `chunks_idem` (idempotence stated semantically: any byte set `R'` whose members are exactly
  the bytes of the selected chunks rounds to the same chunks; the model has no chunk→byte
  conversion on range sets)
* `round_up_to_chunks_groups` (every `bs`): `groups_wf` (WF, boundaries < 2^64), `groups`,
  `groups_superset`, `groups_aligned`, `groups_minimal`, `groups_mono`, `groups_idem`
* `full_chunk_groups` (`bs ≤ 64`): `full_wf`, `full`, `full_subset`, `full_aligned`,
  `full_maximal`, `full_mono`, `full_idem`, `full_groups`
* `chunkGroupEnd_is_ceil`, `ceil_checked` (model overflow tests = Rust `checked_add` tests)

Partial: none.   Open: none.

Scope notes:
* all membership statements about the two group roundings are for chunks `c < 2^64` (the u64
  universe); an open last range of the result is read as `[a, 2^64)`.
* `chunks` holds for every natural `c`; for `c ≥ 2^54` the chunk has no u64 byte, and the
  result of an open-ended `R` still contains such `c` (as in Rust: `ChunkRanges::from(a..)`).
  Minimality / monotonicity / idempotence are therefore stated for `c < 2^54`.
-/
