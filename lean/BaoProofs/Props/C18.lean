import BaoProofs.Lemmas.Bits

/-!
# C18 — tree node navigation is a consistent algebra

Every node id `x` is `Spec.nodeOf k L = (2k+1)·2^L − 1` for exactly one index `k` and level `L`
(`coords_exist`, `nodeOf_inj`).  Every `TreeNode` operation of the model (`Bao.Node.*`) is
characterised in these coordinates.

Bounds.  Ids are `u64`.  `trailing_ones` is exact for every `L ≤ 64`, so most statements only
need `L ≤ 64`; the ones that go through `x + 1` as a `u64` (`count_below`, `right_count`,
`post_order_offset`, ...) need `x ≠ u64::MAX`, written `nodeOf k L + 1 < 2^64`.
The property's quantifier (`x < 2^63`, levels `≤ 62`, shifts `n ≤ 10`) is inside all of them.
-/

namespace Bao.C18

open Bao Bao.Bits
open Bao.Spec (nodeOf startOf endOf midOf)

/-! ## coordinates -/

theorem coords_exist (x : Nat) : ∃ k L, x = nodeOf k L := by
  obtain ⟨k, L, h⟩ := odd_pow_decomp (x + 1) (by omega)
  exact ⟨k, L, by rw [← nodeOf_succ'] at h; omega⟩

theorem nodeOf_inj {k L k' L' : Nat} (h : nodeOf k L = nodeOf k' L') : k = k' ∧ L = L' := by
  apply odd_pow_inj
  rw [← nodeOf_succ', ← nodeOf_succ', h]

/-- a `u64` id has level at most 64 (exactly 64 only for `u64::MAX`) -/
theorem level_le {k L : Nat} (h : nodeOf k L < 2 ^ 64) : L ≤ 64 := level_le_of_lt h

/-- an id other than `u64::MAX` has level at most 63 -/
theorem level_lt {k L : Nat} (h : nodeOf k L + 1 < 2 ^ 64) : L < 64 := level_lt_of_succ_lt h

example : nodeOf 5 3 < 2 ^ 64 ∧ nodeOf 5 3 + 1 < 2 ^ 64 := by decide

theorem level_nodeOf {k L : Nat} (h : L ≤ 64) : Node.level (nodeOf k L) = L :=
  trailingOnesAux_nodeOf k L 64 h

example : Node.level (nodeOf 5 3) = 3 := level_nodeOf (by decide)

/-- the form asked for: a `u64` id `(k, L)` has `level = L` -/
theorem level_nodeOf_of_lt {k L : Nat} (h : nodeOf k L < 2 ^ 64) : Node.level (nodeOf k L) = L :=
  level_nodeOf (level_le h)

example : Node.level (nodeOf 5 3) = 3 := level_nodeOf_of_lt (by decide)

/-- the executable coordinate functions of `Spec` invert `nodeOf` -/
theorem levelOf_indexOf_nodeOf {k L : Nat} (h : L ≤ 64) :
    Spec.levelOf (nodeOf k L) = L ∧ Spec.indexOf (nodeOf k L) = k :=
  ⟨levelOf_nodeOf h, indexOf_nodeOf h⟩

example : Spec.levelOf (nodeOf 5 3) = 3 ∧ Spec.indexOf (nodeOf 5 3) = 5 :=
  levelOf_indexOf_nodeOf (by decide)

/-- every `u64` id is the node of its computed coordinates, and `level` is `Spec.levelOf` -/
theorem coords_eq {x : Nat} (h : x < 2 ^ 64) :
    x = nodeOf (Spec.indexOf x) (Spec.levelOf x) ∧ Node.level x = Spec.levelOf x := by
  obtain ⟨k, L, rfl⟩ := coords_exist x
  have hL := level_le h
  rw [levelOf_nodeOf hL, indexOf_nodeOf hL, level_nodeOf hL]
  exact ⟨rfl, rfl⟩

example : (87 : Nat) < 2 ^ 64 := by decide

theorem isLeaf_spec (k L : Nat) : Node.isLeaf (nodeOf k L) = decide (L = 0) := by
  cases L with
  | zero => simp [Node.isLeaf, Spec.nodeOf]
  | succ n =>
    have := nodeOf_eq_succ k n
    have := two_pow_pos' n
    simp [Node.isLeaf]; omega

theorem mid_spec (k L : Nat) : Node.mid (nodeOf k L) = midOf k L := by
  rw [Node.mid, nodeOf_succ, midOf_eq]

/-! ## children and parent -/

theorem leftChild_spec {k L : Nat} (h : L + 1 ≤ 64) :
    Node.leftChild (nodeOf k (L + 1)) = some (nodeOf (2 * k) L) := by
  simp [Node.leftChild, level_nodeOf h, nodeOf_sub_half]

theorem rightChild_spec {k L : Nat} (h : L + 1 ≤ 64) :
    Node.rightChild (nodeOf k (L + 1)) = some (nodeOf (2 * k + 1) L) := by
  simp [Node.rightChild, level_nodeOf h, nodeOf_add_half]

example : Node.leftChild (nodeOf 5 3) = some (nodeOf 10 2) := leftChild_spec (by decide)
example : Node.rightChild (nodeOf 5 3) = some (nodeOf 11 2) := rightChild_spec (by decide)

theorem leftChild_leaf (k : Nat) : Node.leftChild (nodeOf k 0) = none := by
  simp [Node.leftChild, level_nodeOf (Nat.zero_le 64)]

theorem rightChild_leaf (k : Nat) : Node.rightChild (nodeOf k 0) = none := by
  simp [Node.rightChild, level_nodeOf (Nat.zero_le 64)]

/-- `right_child` does not overflow unless the id is `u64::MAX` -/
theorem rightChild_lt {k L : Nat} (h : nodeOf k (L + 1) + 1 < 2 ^ 64) :
    nodeOf (2 * k + 1) L < 2 ^ 64 := nodeOf_right_lt h

example : nodeOf 5 3 + 1 < 2 ^ 64 := by decide

theorem parent_spec {k L : Nat} (hL : L < 63) :
    Node.parent (nodeOf k L) = some (nodeOf (k / 2) (L + 1)) := by
  have hne : L ≠ 63 := by omega
  simp only [Node.parent, level_nodeOf (by omega : L ≤ 64), hne, if_false, nodeOf_div_span]
  rw [← nodeOf_parent k L]
  split <;> rfl

example : Node.parent (nodeOf 5 3) = some (nodeOf 2 4) := parent_spec (by decide)

theorem parent_top (k : Nat) : Node.parent (nodeOf k 63) = none := by
  simp [Node.parent, level_nodeOf (by decide : 63 ≤ 64)]

/-- `parent` does not overflow: the parent of a `u64` id is a `u64` id (and not `u64::MAX`) -/
theorem parent_lt {k L : Nat} (hL : L < 63) (h : nodeOf k L < 2 ^ 64) :
    nodeOf (k / 2) (L + 1) + 1 < 2 ^ 64 :=
  nodeOf_lt_succ_lt (nodeOf_parent_lt h hL) (by omega)

example : (3 : Nat) < 63 ∧ nodeOf 5 3 < 2 ^ 64 := by decide

/-- the left child has the node as parent and sits one level lower -/
theorem parent_leftChild {x c : Nat} (hx : x + 1 < 2 ^ 64) (h : Node.leftChild x = some c) :
    Node.parent c = some x ∧ Node.level c + 1 = Node.level x := by
  obtain ⟨k, L, rfl⟩ := coords_exist x
  have hL := level_lt hx
  cases L with
  | zero => simp [leftChild_leaf] at h
  | succ n =>
    rw [leftChild_spec (by omega)] at h
    obtain rfl := Option.some.inj h
    rw [parent_spec (by omega), level_nodeOf (by omega), level_nodeOf (by omega)]
    exact ⟨by rw [Nat.mul_div_cancel_left k (by decide : 0 < 2)], rfl⟩

/-- the right child has the node as parent and sits one level lower -/
theorem parent_rightChild {x c : Nat} (hx : x + 1 < 2 ^ 64) (h : Node.rightChild x = some c) :
    Node.parent c = some x ∧ Node.level c + 1 = Node.level x := by
  obtain ⟨k, L, rfl⟩ := coords_exist x
  have hL := level_lt hx
  cases L with
  | zero => simp [rightChild_leaf] at h
  | succ n =>
    rw [rightChild_spec (by omega)] at h
    obtain rfl := Option.some.inj h
    rw [parent_spec (by omega), level_nodeOf (by omega), level_nodeOf (by omega)]
    exact ⟨by rw [show (2 * k + 1) / 2 = k by omega], rfl⟩

example : (87 : Nat) + 1 < 2 ^ 64 ∧ Node.leftChild 87 = some 83 ∧ Node.rightChild 87 = some 91 := by
  decide

/-- conversely a node is the left or the right child of its parent, one level higher -/
theorem child_of_parent {x p : Nat} (hx : x + 1 < 2 ^ 64) (h : Node.parent x = some p) :
    (Node.leftChild p = some x ∨ Node.rightChild p = some x) ∧ Node.level p = Node.level x + 1 := by
  obtain ⟨k, L, rfl⟩ := coords_exist x
  have hL := level_lt hx
  by_cases h63 : L = 63
  · subst h63; simp [parent_top] at h
  · have hL' : L < 63 := by omega
    rw [parent_spec hL'] at h
    obtain rfl := Option.some.inj h
    rw [leftChild_spec (by omega), rightChild_spec (by omega), level_nodeOf (by omega),
      level_nodeOf (by omega)]
    refine ⟨?_, rfl⟩
    rcases Nat.mod_two_eq_zero_or_one k with hk | hk
    · left; rw [show 2 * (k / 2) = k by omega]
    · right; rw [show 2 * (k / 2) + 1 = k by omega]

example : (87 : Nat) + 1 < 2 ^ 64 ∧ Node.parent 87 = some 79 := by decide

/-! ## chunk ranges -/

theorem chunkRange_spec {k L : Nat} (h : L ≤ 64) :
    Node.chunkRange (nodeOf k L) = (startOf k L, endOf k L) := by
  simp only [Node.chunkRange, level_nodeOf h, nodeOf_mid_sub, nodeOf_mid_add]

example : Node.chunkRange (nodeOf 5 3) = (80, 96) := by
  rw [chunkRange_spec (by decide)]; decide

/-- the chunk range of a node is the disjoint union of its children's: they meet at `mid` -/
theorem chunkRange_children {x l r : Nat} (hx : x + 1 < 2 ^ 64)
    (hl : Node.leftChild x = some l) (hr : Node.rightChild x = some r) :
    Node.chunkRange l = ((Node.chunkRange x).1, Node.mid x) ∧
    Node.chunkRange r = (Node.mid x, (Node.chunkRange x).2) ∧
    (Node.chunkRange x).1 < Node.mid x ∧ Node.mid x < (Node.chunkRange x).2 := by
  obtain ⟨k, L, rfl⟩ := coords_exist x
  have hL := level_lt hx
  cases L with
  | zero => simp [leftChild_leaf] at hl
  | succ n =>
    rw [leftChild_spec (by omega)] at hl
    rw [rightChild_spec (by omega)] at hr
    obtain rfl := Option.some.inj hl
    obtain rfl := Option.some.inj hr
    rw [chunkRange_spec (by omega), chunkRange_spec (by omega), chunkRange_spec (by omega),
      mid_spec, startOf_left, endOf_left, startOf_right, endOf_right]
    exact ⟨rfl, rfl, startOf_lt_midOf _ _, midOf_lt_endOf _ _⟩

example : (87 : Nat) + 1 < 2 ^ 64 ∧ Node.leftChild 87 = some 83 ∧ Node.rightChild 87 = some 91 := by
  decide

/-- the same in coordinates -/
theorem chunkRange_children_spec {k L : Nat} (h : L + 1 ≤ 64) :
    Node.chunkRange (nodeOf (2 * k) L) = (startOf k (L + 1), midOf k (L + 1)) ∧
    Node.chunkRange (nodeOf (2 * k + 1) L) = (midOf k (L + 1), endOf k (L + 1)) := by
  rw [chunkRange_spec (by omega), chunkRange_spec (by omega),
    startOf_left, endOf_left, startOf_right, endOf_right]
  exact ⟨rfl, rfl⟩

example : (2 : Nat) + 1 ≤ 64 := by decide

/-! ## node ranges and counts -/

/-- ids of the complete subtree below `(k, L)`: the `2^(L+1) − 1` ids from `k·2^(L+1)` on -/
theorem nodeRange_spec {k L : Nat} (h : L ≤ 64) :
    Node.nodeRange (nodeOf k L) = (startOf k L, startOf k L + 2 ^ (L + 1) - 1) := by
  simp only [Node.nodeRange, Node.halfSpan, level_nodeOf h, nodeOf_mid_sub, nodeOf_add_span]

example : Node.nodeRange (nodeOf 5 3) = (80, 95) := by
  rw [nodeRange_spec (by decide)]; decide

theorem lowestBit_spec {k L : Nat} (h : nodeOf k L + 1 < 2 ^ 64) :
    Node.lowestBit (nodeOf k L + 1) = 2 ^ L := and_neg_nodeOf h

theorem countBelow_spec {k L : Nat} (h : nodeOf k L + 1 < 2 ^ 64) :
    Node.countBelow (nodeOf k L) = 2 ^ (L + 1) - 2 := by
  rw [Node.countBelow, lowestBit_spec h, Nat.pow_succ]

example : nodeOf 5 3 + 1 < 2 ^ 64 ∧ Node.countBelow (nodeOf 5 3) = 14 := by decide

/-- the node range holds the node itself and the nodes below it -/
theorem nodeRange_card {k L : Nat} (h : nodeOf k L + 1 < 2 ^ 64) :
    (Node.nodeRange (nodeOf k L)).2 - (Node.nodeRange (nodeOf k L)).1
      = Node.countBelow (nodeOf k L) + 1 := by
  have hp := two_pow_pos' L
  rw [nodeRange_spec (by have := level_lt h; omega), countBelow_spec h, Nat.pow_succ]
  simp only; omega

example : nodeOf 5 3 + 1 < 2 ^ 64 := by decide

/-! ## block size conversion -/

/-- `!(!x << n)` is `(x+1)·2^n − 1` whenever that fits in a `u64` -/
theorem subBs_eq {x n : Nat} (h : (x + 1) * 2 ^ n ≤ 2 ^ 64) :
    Node.subBs x n = (x + 1) * 2 ^ n - 1 := not_shl_not h

example : ((87 : Nat) + 1) * 2 ^ 4 ≤ 2 ^ 64 := by decide

theorem subBs_spec {k L n : Nat} (h : nodeOf k (L + n) < 2 ^ 64) :
    Node.subBs (nodeOf k L) n = nodeOf k (L + n) := by
  have e : (nodeOf k L + 1) * 2 ^ n = nodeOf k (L + n) + 1 := by
    rw [nodeOf_succ', nodeOf_succ', Nat.mul_assoc, ← Nat.pow_add]
  rw [subBs_eq (by omega), e, Nat.add_sub_cancel]

example : nodeOf 5 (3 + 4) < 2 ^ 64 ∧ Node.subBs (nodeOf 5 3) 4 = nodeOf 5 7 := by decide

theorem addBs_spec (k L n : Nat) :
    Node.addBs (nodeOf k L) n = if n ≤ L then some (nodeOf k (L - n)) else none := by
  unfold Node.addBs
  by_cases h : n ≤ L
  · simp [h, nodeOf_mod_pow k L n h, nodeOf_div_pow k L n h]
  · simp [h, nodeOf_mod_pow_ne k L n (by omega)]

example : Node.addBs (nodeOf 5 3) 2 = some (nodeOf 5 1) ∧ Node.addBs (nodeOf 5 3) 4 = none := by
  decide

/-- `add_block_size` succeeds exactly on nodes at or above the block level -/
theorem addBs_isSome_iff {x n : Nat} (hx : x < 2 ^ 64) :
    (Node.addBs x n).isSome ↔ n ≤ Node.level x := by
  obtain ⟨k, L, rfl⟩ := coords_exist x
  rw [addBs_spec, level_nodeOf (level_le hx)]
  split <;> simp [*]

example : (87 : Nat) < 2 ^ 64 := by decide

theorem addBs_subBs {x n : Nat} (h : (x + 1) * 2 ^ n ≤ 2 ^ 64) :
    Node.addBs (Node.subBs x n) n = some x := by
  obtain ⟨k, L, rfl⟩ := coords_exist x
  have e : (nodeOf k L + 1) * 2 ^ n = nodeOf k (L + n) + 1 := by
    rw [nodeOf_succ', nodeOf_succ', Nat.mul_assoc, ← Nat.pow_add]
  rw [subBs_spec (by omega), addBs_spec]
  simp

example : ((87 : Nat) + 1) * 2 ^ 4 ≤ 2 ^ 64 := by decide

theorem subBs_addBs {x y n : Nat} (hx : x < 2 ^ 64) (h : Node.addBs x n = some y) :
    Node.subBs y n = x := by
  obtain ⟨k, L, rfl⟩ := coords_exist x
  rw [addBs_spec] at h
  split at h
  · obtain rfl := Option.some.inj h
    have e : L - n + n = L := by omega
    rw [subBs_spec (by rw [e]; exact hx), e]
  · simp at h

example : (87 : Nat) < 2 ^ 64 ∧ Node.addBs 87 3 = some 10 := by decide

/-! ## restricted parent and right descendant stay inside the tree -/

theorem restrictedParentAux_lt {fuel x len p : Nat}
    (h : Node.restrictedParentAux fuel x len = some p) : p < len := by
  induction fuel generalizing x with
  | zero => simp [Node.restrictedParentAux] at h
  | succ f ih =>
    simp only [Node.restrictedParentAux] at h
    split at h
    · simp at h
    · split at h
      · obtain rfl := Option.some.inj h; assumption
      · exact ih h

theorem restrictedParent_lt {x len p : Nat} (h : Node.restrictedParent x len = some p) :
    p < len := restrictedParentAux_lt h

example : Node.restrictedParent 8 9 = some 7 := by decide

/-- the restricted parent is a proper ancestor: `j ≥ 1` parent steps up -/
theorem restrictedParentAux_spec {fuel k L len p : Nat} (hx : nodeOf k L < 2 ^ 64) (hL : L ≤ 63)
    (h : Node.restrictedParentAux fuel (nodeOf k L) len = some p) :
    ∃ j, 0 < j ∧ L + j ≤ 63 ∧ p = nodeOf (k / 2 ^ j) (L + j) := by
  induction fuel generalizing k L with
  | zero => simp [Node.restrictedParentAux] at h
  | succ f ih =>
    by_cases h63 : L = 63
    · rw [h63, Node.restrictedParentAux, parent_top] at h
      simp at h
    have hL' : L < 63 := by omega
    simp only [Node.restrictedParentAux, parent_spec hL'] at h
    split at h
    · obtain rfl := Option.some.inj h
      exact ⟨1, by decide, by omega, by simp⟩
    · obtain ⟨j, hj, hLj, rfl⟩ := ih (nodeOf_parent_lt hx hL') (by omega) h
      refine ⟨j + 1, by omega, by omega, ?_⟩
      rw [Nat.div_div_eq_div_mul, Nat.pow_succ', Nat.add_assoc, Nat.add_comm 1 j]

theorem restrictedParent_spec {k L len p : Nat} (hx : nodeOf k L + 1 < 2 ^ 64)
    (h : Node.restrictedParent (nodeOf k L) len = some p) :
    ∃ j, 0 < j ∧ L + j ≤ 63 ∧ p = nodeOf (k / 2 ^ j) (L + j) :=
  restrictedParentAux_spec (by omega) (by have := level_lt hx; omega) h

example : nodeOf 4 0 + 1 < 2 ^ 64 ∧ Node.restrictedParent (nodeOf 4 0) 9 = some 7 := by decide

/-- the fuel of the model loop is enough: `none` means that no ancestor up to level 63 is
inside `len` -/
theorem restrictedParentAux_none {fuel k L len : Nat} (hL : L ≤ 63) (hf : 63 - L < fuel)
    (h : Node.restrictedParentAux fuel (nodeOf k L) len = none) :
    ∀ j, 0 < j → L + j ≤ 63 → len ≤ nodeOf (k / 2 ^ j) (L + j) := by
  induction fuel generalizing k L with
  | zero => omega
  | succ f ih =>
    intro j hj hLj
    have hL' : L < 63 := by omega
    simp only [Node.restrictedParentAux, parent_spec hL'] at h
    split at h
    · simp at h
    · cases j with
      | zero => omega
      | succ i =>
        cases i with
        | zero => simpa using (by omega : len ≤ nodeOf (k / 2) (L + 1))
        | succ i' =>
          have := ih (k := k / 2) (L := L + 1) (by omega) (by omega) h (i' + 1) (by omega)
            (by omega)
          rw [Nat.div_div_eq_div_mul, ← Nat.pow_succ'] at this
          rw [show L + (i' + 1 + 1) = L + 1 + (i' + 1) by omega]
          exact this

theorem restrictedParent_none {k L len : Nat} (hL : L ≤ 63)
    (h : Node.restrictedParent (nodeOf k L) len = none) :
    ∀ j, 0 < j → L + j ≤ 63 → len ≤ nodeOf (k / 2 ^ j) (L + j) :=
  restrictedParentAux_none hL (by omega) h

example : (0 : Nat) ≤ 63 ∧ Node.restrictedParent (nodeOf 4 0) 3 = none := by decide

/-- the restricted parent is strictly higher and its chunk range contains the node's -/
theorem restrictedParent_ancestor {x len p : Nat} (hx : x + 1 < 2 ^ 64)
    (h : Node.restrictedParent x len = some p) :
    Node.level x < Node.level p ∧
    (Node.chunkRange p).1 ≤ (Node.chunkRange x).1 ∧
    (Node.chunkRange x).2 ≤ (Node.chunkRange p).2 := by
  obtain ⟨k, L, rfl⟩ := coords_exist x
  obtain ⟨j, hj, hLj, rfl⟩ := restrictedParent_spec hx h
  rw [level_nodeOf (by omega), level_nodeOf (by omega), chunkRange_spec (by omega),
    chunkRange_spec (by omega)]
  exact ⟨by omega, ancestor_start_le k L j, ancestor_end_le k L j⟩

example : (8 : Nat) + 1 < 2 ^ 64 ∧ Node.restrictedParent 8 9 = some 7 := by decide

theorem descendLeft_lt {fuel x len r : Nat} (h : Node.descendLeft fuel x len = some r) :
    r < len := by
  induction fuel generalizing x with
  | zero => simp [Node.descendLeft] at h
  | succ f ih =>
    simp only [Node.descendLeft] at h
    split at h
    · split at h
      · simp at h
      · exact ih h
    · obtain rfl := Option.some.inj h; omega

theorem rightDescendant_lt {x len r : Nat} (h : Node.rightDescendant x len = some r) :
    r < len := by
  unfold Node.rightDescendant at h
  split at h
  · simp at h
  · exact descendLeft_lt h

example : Node.rightDescendant 3 6 = some 5 := by decide

/-- `descendLeft` walks `j` left-child steps down -/
theorem descendLeft_spec {fuel k L len r : Nat} (hL : L ≤ 64)
    (h : Node.descendLeft fuel (nodeOf k L) len = some r) :
    ∃ j, j ≤ L ∧ r = nodeOf (k * 2 ^ j) (L - j) := by
  induction fuel generalizing k L with
  | zero => simp [Node.descendLeft] at h
  | succ f ih =>
    simp only [Node.descendLeft] at h
    split at h
    · cases L with
      | zero => simp [leftChild_leaf] at h
      | succ n =>
        simp only [leftChild_spec hL] at h
        obtain ⟨j, hj, rfl⟩ := ih (by omega) h
        refine ⟨j + 1, by omega, ?_⟩
        rw [Nat.add_sub_add_right, Nat.pow_succ', ← Nat.mul_assoc, Nat.mul_comm k 2]
    · obtain rfl := Option.some.inj h
      exact ⟨0, by omega, by simp⟩

/-- the right descendant lies in the right subtree: `j` left steps below the right child -/
theorem rightDescendant_spec {k L len r : Nat} (hL : L + 1 ≤ 64)
    (h : Node.rightDescendant (nodeOf k (L + 1)) len = some r) :
    ∃ j, j ≤ L ∧ r = nodeOf ((2 * k + 1) * 2 ^ j) (L - j) := by
  simp only [Node.rightDescendant, rightChild_spec hL] at h
  exact descendLeft_spec (by omega) h

example : (1 : Nat) + 1 ≤ 64 ∧ Node.rightDescendant (nodeOf 0 2) 6 = some 5 := by decide

/-- the right descendant's chunk range starts at the node's mid and stays inside the node's -/
theorem rightDescendant_range {x len r : Nat} (hx : x < 2 ^ 64)
    (h : Node.rightDescendant x len = some r) :
    (Node.chunkRange r).1 = Node.mid x ∧ (Node.chunkRange r).2 ≤ (Node.chunkRange x).2 ∧
    Node.level r < Node.level x := by
  obtain ⟨k, L, rfl⟩ := coords_exist x
  have hL := level_le hx
  cases L with
  | zero => simp [Node.rightDescendant, rightChild_leaf] at h
  | succ n =>
    obtain ⟨j, hj, rfl⟩ := rightDescendant_spec hL h
    rw [chunkRange_spec (by omega), chunkRange_spec hL, mid_spec, level_nodeOf (by omega),
      level_nodeOf hL, descendant_start _ _ _ hj, startOf_right, ← endOf_right]
    exact ⟨rfl, descendant_end_le _ _ _ hj, by omega⟩

example : (3 : Nat) < 2 ^ 64 ∧ Node.rightDescendant 3 6 = some 5 := by decide

/-- `descendLeft` finds a node exactly when the leftmost leaf below the start is inside `len` -/
theorem descendLeft_none_iff {fuel k L len : Nat} (hL : L ≤ 64) (hf : L < fuel) :
    Node.descendLeft fuel (nodeOf k L) len = none ↔ len ≤ startOf k L := by
  induction fuel generalizing k L with
  | zero => omega
  | succ f ih =>
    have hp := two_pow_pos' L
    have hs : startOf k L ≤ nodeOf k L := by rw [startOf_eq, nodeOf_eq]; omega
    simp only [Node.descendLeft]
    split
    · cases L with
      | zero =>
        have : startOf k 0 = nodeOf k 0 := by simp [Spec.startOf, Spec.nodeOf]; omega
        simp only [leftChild_leaf, true_iff]; omega
      | succ n =>
        simp only [leftChild_spec hL]
        rw [ih (k := 2 * k) (L := n) (by omega) (by omega), startOf_left]
    · simp only [reduceCtorEq, false_iff]; omega

/-- the right descendant exists exactly when the right half starts inside the tree -/
theorem rightDescendant_none_iff {k L len : Nat} (hL : L + 1 ≤ 64) :
    Node.rightDescendant (nodeOf k (L + 1)) len = none ↔ len ≤ Node.mid (nodeOf k (L + 1)) := by
  simp only [Node.rightDescendant, rightChild_spec hL, mid_spec]
  rw [descendLeft_none_iff (by omega) (by omega), startOf_right]

example : (1 : Nat) + 1 ≤ 64 ∧ Node.rightDescendant (nodeOf 0 2) 4 = none := by decide

/-! ## right count, next left ancestor, post-order offsets -/

/-- `right_count`: the number of right turns on the way from the top is `count_ones(k)` -/
theorem rightCount_spec {k L : Nat} (h : nodeOf k L + 1 < 2 ^ 64) :
    Node.rightCount (nodeOf k L) = popcount k := by
  rw [Node.rightCount, popcount_nodeOf_succ h, Nat.add_sub_cancel]

example : nodeOf 5 3 + 1 < 2 ^ 64 ∧ Node.rightCount (nodeOf 5 3) = 2 := by decide

/-- `y & (y-1)` on `y = x+1` gives the start chunk; the next left ancestor is the id just
before it, and there is none on the left spine (`k = 0`) -/
theorem nextLeftAncestor_spec (k L : Nat) :
    Node.nextLeftAncestor (nodeOf k L) = if k = 0 then none else some (startOf k L - 1) := by
  simp only [Node.nextLeftAncestor, and_pred_nodeOf, startOf_eq_zero_iff]

/-- in coordinates: strip the trailing zeros of the index and its lowest one bit -/
theorem nextLeftAncestor_coords (k' j L : Nat) :
    Node.nextLeftAncestor (nodeOf ((2 * k' + 1) * 2 ^ j) L) = some (nodeOf k' (L + j + 1)) := by
  have hp := two_pow_pos' j
  have : (2 * k' + 1) * 2 ^ j ≠ 0 := Nat.ne_of_gt (Nat.mul_pos (by omega) hp)
  rw [nextLeftAncestor_spec, if_neg this, startOf_pred_eq]

/-- post-order offset in a complete tree: all nodes of the complete subtrees entirely to the
left (`s − count_ones(s)` for `s` chunks), then the nodes below -/
theorem postOrderOffset_spec {k L : Nat} (h : nodeOf k L + 1 < 2 ^ 64) :
    Node.postOrderOffset (nodeOf k L)
      = (2 ^ (L + 1) - 2) + (startOf k L - popcount (startOf k L)) := by
  have hle := popcount_le (startOf k L)
  have hz := startOf_eq_zero_iff k L
  simp only [Node.postOrderOffset, countBelow_spec h, nextLeftAncestor_spec]
  by_cases hk : k = 0
  · subst hk
    simp [hz.mpr rfl]
  · have hpos : startOf k L ≠ 0 := fun e => hk (hz.mp e)
    simp only [hk, if_false]
    rw [Nat.sub_add_cancel (by omega)]
    omega

example : nodeOf 5 3 + 1 < 2 ^ 64 ∧ Node.postOrderOffset (nodeOf 5 3) = 14 + (80 - 2) := by decide

theorem postOrderRange_spec {k L : Nat} (h : nodeOf k L + 1 < 2 ^ 64) :
    Node.postOrderRange (nodeOf k L)
      = (startOf k L - popcount (startOf k L),
         (2 ^ (L + 1) - 2) + (startOf k L - popcount (startOf k L)) + 1) := by
  rw [Node.postOrderRange, postOrderOffset_spec h, countBelow_spec h]
  apply Prod.ext <;> simp only <;> omega

example : nodeOf 5 3 + 1 < 2 ^ 64 ∧ Node.postOrderRange (nodeOf 5 3) = (78, 93) := by decide

/-! ## agreement with explicit enumeration on complete trees

`Spec.postNodes n 0 L k` lists, by plain recursion (left subtree, right subtree, node), the
nodes of the subtree below `(k, L)`.  When that subtree is complete (`endOf k L ≤ n`) the
post-order offsets of the listed nodes are consecutive numbers, the list has
`count_below + 1` entries and all of them lie in `node_range`. -/

/-- post-order offset of the first node of the subtree below `(k, L)` -/
def base (k L : Nat) : Nat := startOf k L - popcount (startOf k L)

theorem base_left (k L : Nat) : base (2 * k) L = base k (L + 1) := by
  rw [base, base, startOf_left]

theorem base_right {k L : Nat} (h : endOf k (L + 1) < 2 ^ 64) :
    base (2 * k + 1) L = base k (L + 1) + (2 ^ (L + 1) - 1) := by
  have hp := two_pow_pos' (L + 1)
  have h1 := startOf_lt_midOf k (L + 1)
  have h2 := midOf_lt_endOf k (L + 1)
  have e : midOf k (L + 1) = nodeOf k (L + 1) + 1 := by rw [nodeOf_succ, midOf_eq]
  have hle := popcount_le k
  have hs : popcount (startOf k (L + 1)) = popcount k := popcount_startOf (by omega)
  have hle' := popcount_le (startOf k (L + 1))
  rw [base, base, startOf_right, hs, e, popcount_nodeOf_succ (by omega), ← e]
  have : midOf k (L + 1) = startOf k (L + 1) + 2 ^ (L + 1) := rfl
  omega

theorem postOrderOffset_enumeration {n : Nat} (hn : n < 2 ^ 64) (L k : Nat)
    (h : endOf k L ≤ n) :
    (Spec.postNodes n 0 L k).map Node.postOrderOffset = List.range' (base k L) (2 ^ (L + 1) - 1) := by
  induction L generalizing k with
  | zero =>
    have hm : midOf k 0 < n := by have := midOf_lt_endOf k 0; omega
    have hx : nodeOf k 0 + 1 < 2 ^ 64 := by rw [nodeOf_succ, ← midOf_eq]; omega
    simp [Spec.postNodes, hm, postOrderOffset_spec hx, base, List.range'_one]
  | succ m ih =>
    have hp := two_pow_pos' (m + 1)
    have hm : midOf k (m + 1) < n := by have := midOf_lt_endOf k (m + 1); omega
    have hx : nodeOf k (m + 1) + 1 < 2 ^ 64 := by rw [nodeOf_succ, ← midOf_eq]; omega
    have il := ih (2 * k) (by rw [endOf_left]; omega)
    have ir := ih (2 * k + 1) (by rw [endOf_right]; omega)
    rw [base_left] at il
    rw [base_right (by omega)] at ir
    simp only [Spec.postNodes, hm, if_true, ge_iff_le, Nat.zero_le, List.map_append, il, ir,
      List.map_cons, List.map_nil, postOrderOffset_spec hx]
    rw [List.range'_append_1, ← base]
    have e1 : 2 ^ (m + 1 + 1) - 2 + base k (m + 1)
        = base k (m + 1) + 1 * (2 ^ (m + 1) - 1 + (2 ^ (m + 1) - 1)) := by
      rw [Nat.pow_succ 2 (m + 1)]; omega
    have e2 : 2 ^ (m + 1 + 1) - 1 = (2 ^ (m + 1) - 1 + (2 ^ (m + 1) - 1)) + 1 := by
      rw [Nat.pow_succ 2 (m + 1)]; omega
    rw [e1, e2, List.range'_concat]

example : (16 : Nat) < 2 ^ 64 ∧ endOf 1 2 ≤ 16 := by decide

/-- on the complete tree over `2^(L+1)` chunks the post-order offsets are `0, 1, 2, …` -/
theorem postOrderOffset_complete {L : Nat} (hL : L < 63) :
    (Spec.postNodes (2 ^ (L + 1)) 0 L 0).map Node.postOrderOffset
      = List.range' 0 (2 ^ (L + 1) - 1) := by
  have h : (2 : Nat) ^ (L + 1) < 2 ^ 64 := Nat.pow_lt_pow_right (by decide) (by omega)
  have := postOrderOffset_enumeration h L 0 (by simp [Spec.endOf])
  simpa [base, Spec.startOf, popcount, popcountAux_zero] using this

example : (Spec.postNodes (2 ^ 3) 0 2 0).map Node.postOrderOffset = [0, 1, 2, 3, 4, 5, 6] := by
  rw [postOrderOffset_complete (by decide)]; decide

/-- the enumeration has `count_below + 1` entries, pairwise distinct -/
theorem postNodes_length_nodup {n : Nat} (hn : n < 2 ^ 64) (L k : Nat) (h : endOf k L ≤ n) :
    (Spec.postNodes n 0 L k).length = Node.countBelow (nodeOf k L) + 1 ∧
    (Spec.postNodes n 0 L k).Nodup := by
  have hx : nodeOf k L + 1 < 2 ^ 64 := by
    have := midOf_lt_endOf k L
    rw [nodeOf_succ, ← midOf_eq]; omega
  have hp := two_pow_pos' L
  have e := postOrderOffset_enumeration hn L k h
  constructor
  · have := congrArg List.length e
    rw [List.length_map, List.length_range'] at this
    rw [this, countBelow_spec hx, Nat.pow_succ]; omega
  · have hnd : ((Spec.postNodes n 0 L k).map Node.postOrderOffset).Nodup := by
      rw [e]; exact List.nodup_range' 1
    exact List.Pairwise.of_map Node.postOrderOffset (fun a b hab e => hab (congrArg _ e)) hnd

example : (16 : Nat) < 2 ^ 64 ∧ endOf 1 2 ≤ 16 := by decide

/-- every enumerated node lies in `node_range` (which has exactly as many ids as the list) -/
theorem nodeRange_enumeration {n : Nat} (L k : Nat) (hL : L ≤ 64) :
    ∀ y ∈ Spec.postNodes n 0 L k,
      (Node.nodeRange (nodeOf k L)).1 ≤ y ∧ y < (Node.nodeRange (nodeOf k L)).2 := by
  rw [nodeRange_spec hL]
  induction L generalizing k with
  | zero =>
    intro y hy
    simp only [Spec.postNodes] at hy
    split at hy
    · have : y = nodeOf k 0 := by simpa using hy
      subst this
      simp [Spec.nodeOf, Spec.startOf]; omega
    · simp at hy
  | succ m ih =>
    intro y hy
    have hp := two_pow_pos' m
    have e1 := startOf_left k m
    have e2 : startOf (2 * k + 1) m = startOf k (m + 1) + 2 ^ (m + 1) := by
      rw [startOf_right]; rfl
    have e3 : (2 : Nat) ^ (m + 1 + 1) = 2 * 2 ^ (m + 1) := Nat.pow_succ'
    have e4 : nodeOf k (m + 1) = startOf k (m + 1) + 2 ^ (m + 1) - 1 := by
      have := nodeOf_succ k (m + 1); rw [← midOf_eq] at this
      have : midOf k (m + 1) = startOf k (m + 1) + 2 ^ (m + 1) := rfl
      omega
    have hq := two_pow_pos' (m + 1)
    simp only [Spec.postNodes] at hy
    split at hy
    · simp only [List.mem_append, ge_iff_le, Nat.zero_le, if_true, List.mem_singleton] at hy
      rcases hy with (hy | hy) | hy
      · have := ih (2 * k) (by omega) y hy
        simp only at this ⊢; omega
      · have := ih (2 * k + 1) (by omega) y hy
        simp only at this ⊢; omega
      · subst hy; simp only; omega
    · have := ih (2 * k) (by omega) y hy
      simp only at this ⊢; omega

example : (3 : Nat) ≤ 64 := by decide

end Bao.C18

/-
## Status of C18

All three bit tricks are proved in `BaoProofs/Lemmas/Bits.lean` (nothing is left as a hypothesis):
`and_neg_nodeOf` (`y & -y = 2^L`), `and_pred_nodeOf` (`y & (y-1) = startOf k L`),
`not_shl_not` (`!(!x << n) = (x+1)·2^n − 1`).

PROVED (full strength):
  coords_exist, nodeOf_inj, level_le, level_lt, level_nodeOf, level_nodeOf_of_lt,
  levelOf_indexOf_nodeOf, coords_eq, isLeaf_spec, mid_spec,
  leftChild_spec, rightChild_spec, leftChild_leaf, rightChild_leaf, rightChild_lt,
  parent_spec, parent_top, parent_lt, parent_leftChild, parent_rightChild, child_of_parent,
  chunkRange_spec, chunkRange_children, chunkRange_children_spec,
  nodeRange_spec, lowestBit_spec, countBelow_spec, nodeRange_card,
  subBs_eq, subBs_spec, addBs_spec, addBs_isSome_iff, addBs_subBs, subBs_addBs,
  restrictedParentAux_lt, restrictedParent_lt, restrictedParentAux_spec, restrictedParent_spec,
  restrictedParentAux_none, restrictedParent_none, restrictedParent_ancestor,
  descendLeft_lt, rightDescendant_lt, descendLeft_spec, rightDescendant_spec,
  rightDescendant_range, descendLeft_none_iff, rightDescendant_none_iff,
  rightCount_spec, nextLeftAncestor_spec, nextLeftAncestor_coords,
  postOrderOffset_spec, postOrderRange_spec,
  postOrderOffset_enumeration, postOrderOffset_complete, postNodes_length_nodup,
  nodeRange_enumeration.

PARTIAL: none.      OPEN: none.

Hypotheses.  Statements that only read `level` hold for every `L ≤ 64` (no bound on `k`);
`parent_spec` needs `L < 63` (`L = 63` gives `none`, `parent_top`).  Statements that go through
`x + 1` as a `u64` (`lowestBit`, `countBelow`, `rightCount`, `postOrderOffset/Range`, and the
general-`x` corollaries about children and parents) assume `x + 1 < 2^64`, i.e. `x ≠ u64::MAX`.
That hypothesis is necessary for the model: at `x = 2^64 − 1` (level 64) `Node.parent` returns
`some (2^65 − 1)` and `Node.countBelow` returns `0 − 2 = 0`, where the Rust code panics in the
dev profile (`1u64 << 64`, `self.0 + 1`).  This id is outside the property's quantifier
(`x < 2^63`), so it is only a remark about the model's domain, not a defect.
-/
