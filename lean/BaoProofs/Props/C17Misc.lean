import BaoModel.Misc
import BaoProofs.Props.C17
import BaoProofs.Lemmas.Bits

/-!
# C17 (supplement): the public `ChunkNum::chunk_group_end` and `BlockSize::from_bytes`

`round_up_to_chunks_groups` uses the checked rounding (`chunkGroupEnd?`, `Props/C17.lean`); the public
`ChunkNum::chunk_group_end` is the unchecked one (`chunkGroupEnd`, `BaoModel/Misc.lean`): it agrees with the
checked one whenever that has a value and wraps modulo `2^64` otherwise.
-/

namespace Bao.C17Misc

open Bao.Ranges Bao.Bits

/-- whenever the end of the chunk group fits into a `u64`, the public helper returns it -/
theorem chunkGroupEnd_of_fits {e bs r : Nat} (h : chunkGroupEnd? e bs = some r) :
    chunkGroupEnd e bs = r := by
  unfold chunkGroupEnd? at h
  unfold chunkGroupEnd
  simp only at h ⊢
  by_cases hlt : (e / 2 ^ bs + if e % 2 ^ bs ≠ 0 then 1 else 0) * 2 ^ bs < U64
  · rw [if_pos hlt] at h
    cases h
    exact Nat.mod_eq_of_lt hlt
  · rw [if_neg hlt] at h
    cases h

/-- … and that value is the tightest group-aligned bound (`C17.chunkGroupEnd_is_ceil`) -/
theorem chunkGroupEnd_is_ceil_of_fits {e bs r : Nat} (h : ceilGroup? e bs = some r) :
    chunkGroupEnd e bs = r :=
  chunkGroupEnd_of_fits (by rw [C17.chunkGroupEnd_is_ceil]; exact h)

/-- otherwise the result is that bound modulo `2^64` — not a bound at all (this is what defect D4 was) -/
theorem chunkGroupEnd_wraps {e bs : Nat} (h : chunkGroupEnd? e bs = none) :
    chunkGroupEnd e bs = ((e / 2 ^ bs + if e % 2 ^ bs ≠ 0 then 1 else 0) * 2 ^ bs) % 2 ^ 64 ∧
    2 ^ 64 ≤ (e / 2 ^ bs + if e % 2 ^ bs ≠ 0 then 1 else 0) * 2 ^ bs := by
  refine ⟨rfl, ?_⟩
  unfold chunkGroupEnd? at h
  simp only at h
  by_cases hlt : (e / 2 ^ bs + if e % 2 ^ bs ≠ 0 then 1 else 0) * 2 ^ bs < U64
  · rw [if_pos hlt] at h; cases h
  · exact Nat.le_of_not_lt hlt

example : chunkGroupEnd (2 ^ 64 - 1) 4 = 0 ∧ chunkGroupEnd? (2 ^ 64 - 1) 4 = none := by decide

example : chunkGroupEnd? 13 2 = some 16 ∧ chunkGroupEnd 13 2 = 16 := by decide

/-! ## `BlockSize::from_bytes` -/

theorem popcountAux_eq_zero (f y : Nat) (h : y < 2 ^ f) (h0 : popcountAux f y = 0) : y = 0 := by
  induction f generalizing y with
  | zero => simpa using h
  | succ f ih =>
    simp only [popcountAux] at h0
    have h1 : y % 2 = 0 := by omega
    have h2 : popcountAux f (y / 2) = 0 := by omega
    have := ih (y / 2) (by rw [Nat.pow_succ] at h; omega) h2
    omega

/-- `count_ones() == 1` means: a power of two -/
theorem popcount_eq_one_iff {n : Nat} (hn : n < 2 ^ 64) : popcount n = 1 ↔ ∃ k, n = 2 ^ k := by
  constructor
  · intro h
    have hpos : 0 < n := by
      rcases Nat.eq_zero_or_pos n with h0 | h0
      · subst h0; simp [popcount, popcountAux_zero] at h
      · exact h0
    obtain ⟨k, L, hkL⟩ := odd_pow_decomp n hpos
    subst hkL
    have hL : L < 64 := by
      rcases Nat.lt_or_ge L 64 with hc | hc
      · exact hc
      · have h1 : 2 ^ 64 ≤ 2 ^ L := Nat.pow_le_pow_right (by decide) hc
        have h2 : 2 ^ L ≤ (2 * k + 1) * 2 ^ L := Nat.le_mul_of_pos_left _ (by omega)
        omega
    have hk : k < 2 ^ (63 - L) := by
      rcases Nat.lt_or_ge k (2 ^ (63 - L)) with hc | hc
      · exact hc
      · exfalso
        have h1 : 2 ^ (63 - L) * 2 ^ L ≤ k * 2 ^ L := Nat.mul_le_mul_right _ hc
        rw [← Nat.pow_add] at h1
        have e : 63 - L + L = 63 := by omega
        rw [e] at h1
        have h2 : (2 * k + 1) * 2 ^ L = 2 * (k * 2 ^ L) + 2 ^ L := by
          rw [Nat.add_mul, Nat.mul_assoc, Nat.one_mul]
        have : 0 < 2 ^ L := Nat.two_pow_pos L
        omega
    unfold popcount at h
    have e : 64 = (63 - L) + 1 + L := by omega
    rw [e, popcountAux_odd_mul_pow] at h
    have hk0 : k = 0 := popcountAux_eq_zero _ _ hk (by omega)
    subst hk0
    exact ⟨L, by simp⟩
  · rintro ⟨k, rfl⟩
    have hk : k < 64 := by
      rcases Nat.lt_or_ge k 64 with hc | hc
      · exact hc
      · have : 2 ^ 64 ≤ 2 ^ k := Nat.pow_le_pow_right (by decide) hc
        omega
    unfold popcount
    have e : 64 = (63 - k) + 1 + k := by omega
    have e2 : (2 : Nat) ^ k = (2 * 0 + 1) * 2 ^ k := by simp
    rw [e, e2, popcountAux_odd_mul_pow, popcountAux_zero]

/-- `BlockSize::from_bytes(n) = Some(k)` exactly for `n = 1024 · 2^k` -/
theorem blockSizeFromBytes_iff {n k : Nat} (hn : n < 2 ^ 64) :
    blockSizeFromBytes n = some k ↔ n = 1024 * 2 ^ k := by
  unfold blockSizeFromBytes
  constructor
  · intro h
    split at h
    · cases h
    · rename_i hp
      have hp : popcount n = 1 := by simpa using hp
      obtain ⟨j, rfl⟩ := (popcount_eq_one_iff hn).1 hp
      split at h
      · cases h
      · rename_i hge
        have hj : 10 ≤ j := by
          rcases Nat.lt_or_ge j 10 with hc | hc
          · have : 2 ^ j < 2 ^ 10 := Nat.pow_lt_pow_right (by decide) hc
            omega
          · exact hc
        simp only [Nat.log2_two_pow, Option.some.injEq] at h
        subst h
        have e : j = 10 + (j - 10) := by omega
        conv => lhs; rw [e, Nat.pow_add]
  · intro h
    subst h
    have e : 1024 * 2 ^ k = 2 ^ (10 + k) := by rw [Nat.pow_add]
    rw [e] at hn ⊢
    have hp : popcount (2 ^ (10 + k)) = 1 := (popcount_eq_one_iff hn).2 ⟨_, rfl⟩
    simp only [hp, ne_eq, not_true_eq_false, ↓reduceIte, Nat.log2_two_pow]
    have : ¬ 2 ^ (10 + k) < 1024 := by
      have : 2 ^ 10 ≤ 2 ^ (10 + k) := Nat.pow_le_pow_right (by decide) (by omega)
      omega
    simp [this]

/-- no other byte count is a block size -/
theorem blockSizeFromBytes_none {n : Nat} (hn : n < 2 ^ 64) (h : ∀ k, n ≠ 1024 * 2 ^ k) :
    blockSizeFromBytes n = none := by
  cases hb : blockSizeFromBytes n with
  | none => rfl
  | some k => exact absurd ((blockSizeFromBytes_iff hn).1 hb) (h k)

example : blockSizeFromBytes 16384 = some 4 ∧ blockSizeFromBytes 1000 = none ∧ blockSizeFromBytes 512 = none := by
  decide

end Bao.C17Misc
