import BaoProofs.Props.C14
import BaoProofs.Lemmas.SpecTruncL

/-!
# No false alarm: the `trunc` verdict never rejects the model's own output

`opTrunc [rs, size] impl` (`BaoModel/Ops1.lean`) prints the model's `Ranges.truncate rs size` in the
canonical list form (`natList`) and judges the implementation's output text `impl` by

  0. `parseNatList impl` must succeed                         (else `"malformed"`),
  1. the parsed list `it` must be strictly sorted             (else `"not strictly sorted"`),
  2. `it` and `rs` select the same chunks of the blob (`selEq`, chunks `0 .. nChunks size + 1`)
                                                              (else `"selected set changed"`),
  3. `truncate it size = it`                                  (else `"not idempotent …"`).

Here: one lemma per clause for `it := truncate rs size` (from `C14.truncate_wf`,
`C14.truncate_selected`, `C14.truncate_idempotent`, and the string round trip
`parseNatList_natList`), then the operation-level theorem `trunc_specFail`.

Hypothesis: the query `rs` is a well-formed range set (`WF rs`: strictly increasing).  It is needed:
for `rs = [3, 1]` the verdict REJECTS the model's own output (`trunc_not_wf_false_alarm`).  No bound on
`size` or on the boundaries is needed.
-/

namespace Bao.SpecTrunc
open Bao Bao.Ops Bao.Proto Bao.Ranges Bao.SpecIndex

/-! ## 1. component level: one lemma per clause of the verdict -/

/-- clause 0: the model's output text parses back to the model's list (no hypothesis) -/
theorem trunc_parse (rs : List Nat) (size : Nat) :
    parseNatList (natList (truncate rs size)) = some (truncate rs size) :=
  parseNatList_natList _

/-- clause 1 ("not strictly sorted" does not fire) -/
theorem trunc_wf_clause {rs : List Nat} (size : Nat) (h : WF rs = true) :
    (!WF (truncate rs size)) = false := by
  rw [C14.truncate_wf size h]; rfl

example : WF [1, 3, 5, 7] = true := by decide

/-- clause 2 ("selected set changed" does not fire): the selected sets agree on every probe chunk -/
theorem trunc_selEq_clause {rs : List Nat} (size : Nat) (h : WF rs = true) :
    selEq size rs (truncate rs size) = true := by
  unfold selEq
  rw [List.all_eq_true]
  intro c _
  rw [C14.truncate_selected size h c]
  exact beq_self_eq_true _

example : WF [0, 2, 5, 9] = true ∧ selEq 4000 [0, 2, 5, 9] [0, 2, 5] = true := by decide

/-- clause 3 ("not idempotent" does not fire) -/
theorem trunc_idem_clause {rs : List Nat} (size : Nat) (h : WF rs = true) :
    (truncate (truncate rs size) size != truncate rs size) = false := by
  rw [C14.truncate_idempotent size h]
  exact bne_self_eq_false _

example : WF [0, 2, 3, 9] = true ∧ truncate [0, 2, 3, 9] 4000 = [0, 2, 3] := by decide

/-- what the cascade certifies about a parsed output `it` (no hypothesis) -/
theorem truncVerdictL_none_iff (rs : List Nat) (size : Nat) (it : List Nat) :
    truncVerdictL rs size it = none ↔
      WF it = true ∧ selEq size rs it = true ∧ truncate it size = it := by
  unfold truncVerdictL
  cases hw : WF it <;> cases hs : selEq size rs it <;>
    by_cases hi : truncate it size = it <;> simp [hi]

/-- the cascade accepts the model's list -/
theorem truncVerdictL_model {rs : List Nat} (size : Nat) (h : WF rs = true) :
    truncVerdictL rs size (truncate rs size) = none := by
  unfold truncVerdictL
  rw [trunc_wf_clause size h, trunc_selEq_clause size h, trunc_idem_clause size h]
  rfl

/-- the verdict accepts the model's output text -/
theorem truncVerdict_model {rs : List Nat} (size : Nat) (h : WF rs = true) :
    truncVerdict rs size (natList (truncate rs size)) = none := by
  unfold truncVerdict
  rw [trunc_parse]
  exact truncVerdictL_model size h

example : WF [0, 2, 5, 9] = true := by decide

/-! ## 2. operation level -/

/-- the full statement for `opTrunc`: on the model's own output the verdict is `none`, for all
argument tokens that parse to a well-formed range set `rs` and a size -/
theorem trunc_specFail (rsS sizeS impl : String) (rs : List Nat) (size : Nat)
    (h1 : parseNatList rsS = some rs) (h2 : sizeS.toNat? = some size) (hwf : WF rs = true) :
    (opTrunc [rsS, sizeS] (opTrunc [rsS, sizeS] impl).model).specFail = none := by
  rw [(opTrunc_eq rsS sizeS _ rs size h1 h2).2, (opTrunc_eq rsS sizeS impl rs size h1 h2).1]
  exact truncVerdict_model size hwf

/-- the same for an argument list `args` -/
theorem trunc_specFail_args (args : List String) (rsS sizeS impl : String) (rs : List Nat)
    (size : Nat) (ha : args = [rsS, sizeS])
    (h1 : parseNatList rsS = some rs) (h2 : sizeS.toNat? = some size) (hwf : WF rs = true) :
    (opTrunc args (opTrunc args impl).model).specFail = none := by
  subst ha
  exact trunc_specFail rsS sizeS impl rs size h1 h2 hwf

/-- `(opTrunc [rs, size] m).specFail = none` for the model's own output `m`, arguments in canonical
text form -/
theorem trunc_no_false_alarm (rs : List Nat) (size : Nat) (impl : String) (hwf : WF rs = true) :
    (opTrunc [natList rs, toString size]
      (opTrunc [natList rs, toString size] impl).model).specFail = none :=
  trunc_specFail _ _ impl rs size (parseNatList_natList rs) (toNat?_toString size) hwf

example : (opTrunc [natList [0, 2, 5, 9], toString 4000]
    (opTrunc [natList [0, 2, 5, 9], toString 4000] "").model).specFail = none :=
  trunc_no_false_alarm [0, 2, 5, 9] 4000 "" (by decide)

example : (opTrunc [natList [], toString 0]
    (opTrunc [natList [], toString 0] "x").model).specFail = none :=
  trunc_no_false_alarm [] 0 "x" (by decide)

example : (opTrunc [natList [3, 1099511627776, 18446744073709551615], toString 9216]
    (opTrunc [natList [3, 1099511627776, 18446744073709551615], toString 9216] "7").model).specFail
      = none :=
  trunc_specFail _ _ "7" [3, 1099511627776, 18446744073709551615] 9216 (parseNatList_natList _)
    (toNat?_toString _) (by decide)

/-! ## 3. the hypothesis `WF rs` is needed -/

/-- component level: for the boundary list `[3, 1]` (not strictly increasing) the verdict REJECTS the
model's own output: `truncate [3, 1] 5000 = [3, 1]`, which clause 1 refuses -/
theorem trunc_not_wf_verdict :
    truncate [3, 1] 5000 = [3, 1] ∧
    truncVerdict [3, 1] 5000 (natList (truncate [3, 1] 5000)) = some "not strictly sorted" := by
  refine ⟨by decide, ?_⟩
  unfold truncVerdict
  rw [trunc_parse]
  have : truncate [3, 1] 5000 = [3, 1] := by decide
  rw [this]
  rfl

/-- operation level: a false alarm of the machinery on a list that is not a range set.  (The case
generators never emit such arguments: `harness/src/gen1.rs`, `"C14"`, takes sub-sequences of
`0 ..= top` and sorted, deduplicated random lists; the harness' `ranges_of` would panic on it.) -/
theorem trunc_not_wf_false_alarm (impl : String) :
    (opTrunc [natList [3, 1], toString 5000]
      (opTrunc [natList [3, 1], toString 5000] impl).model).specFail
      = some "not strictly sorted" := by
  have h1 := parseNatList_natList [3, 1]
  have h2 := toNat?_toString 5000
  rw [(opTrunc_eq _ _ _ [3, 1] 5000 h1 h2).2, (opTrunc_eq _ _ impl [3, 1] 5000 h1 h2).1]
  exact trunc_not_wf_verdict.2

/-! ## 4. non-vacuity: the verdict accepts the model's output and rejects wrong outputs -/

/-- accepted: the model's output for `[0, 2, 5, 9]` on 4000 bytes (4 chunks) is `[0, 2, 5]` -/
example : truncate [0, 2, 5, 9] 4000 = [0, 2, 5] ∧
    truncVerdictL [0, 2, 5, 9] 4000 [0, 2, 5] = none := by
  refine ⟨by decide, ?_⟩
  rw [truncVerdictL_none_iff]; decide

/-- rejected: the untruncated query (same selected set, but not canonical) -/
example : truncVerdictL [0, 2, 5, 9] 4000 [0, 2, 5, 9]
    = some "not idempotent (model truncate on impl output)" := by
  unfold truncVerdictL
  rw [if_neg (by decide), if_neg (by decide), if_pos (by decide)]

/-- rejected: a too short prefix (chunk 3 is no longer selected) -/
example : truncVerdictL [0, 2, 5, 9] 4000 [0, 2] = some "selected set changed" := by
  unfold truncVerdictL
  rw [if_neg (by decide), if_pos (by decide)]

/-- rejected: an unsorted list -/
example : truncVerdictL [0, 2, 5, 9] 4000 [2, 0, 5] = some "not strictly sorted" := by
  unfold truncVerdictL
  rw [if_pos (by decide)]

/-- rejected at operation level: the output text `natList [0, 2]` -/
example : (opTrunc [natList [0, 2, 5, 9], toString 4000] (natList [0, 2])).specFail
    = some "selected set changed" := by
  rw [(opTrunc_eq _ _ _ [0, 2, 5, 9] 4000 (parseNatList_natList _) (toNat?_toString _)).2]
  unfold truncVerdict
  rw [parseNatList_natList]
  show truncVerdictL [0, 2, 5, 9] 4000 [0, 2] = _
  unfold truncVerdictL
  rw [if_neg (by decide), if_pos (by decide)]

/-- accepted at operation level: the output text `natList [0, 2, 5]` -/
example : (opTrunc [natList [0, 2, 5, 9], toString 4000] (natList [0, 2, 5])).specFail = none := by
  rw [(opTrunc_eq _ _ _ [0, 2, 5, 9] 4000 (parseNatList_natList _) (toNat?_toString _)).2]
  unfold truncVerdict
  rw [parseNatList_natList]
  show truncVerdictL [0, 2, 5, 9] 4000 [0, 2, 5] = none
  rw [truncVerdictL_none_iff]; decide

/-
## Status

Proved (axioms ⊆ {propext, Classical.choice, Quot.sound}):
  SpecTruncL: splitOn_comma, splitOn_intercalate_comma (`splitOn ","` inverts `",".intercalate` of
    comma-free tokens), noComma_nat, intercalate_ne_dash, parseNatList_natList
    (`parseNatList (natList l) = some l`, every `l`), opTrunc_eq (operation = named parts, by `rfl`),
    opTrunc_bad (arguments that do not parse give `bad-op`).
  component level: trunc_parse (clause 0), trunc_wf_clause (1), trunc_selEq_clause (2),
    trunc_idem_clause (3), truncVerdictL_none_iff (what the cascade certifies), truncVerdictL_model,
    truncVerdict_model.
  operation level: trunc_specFail, trunc_specFail_args, trunc_no_false_alarm
    (hypotheses: the tokens parse, `WF rs`; no bounds on `size` or the boundaries).
  false alarm without `WF rs`: trunc_not_wf_verdict, trunc_not_wf_false_alarm (`rs = [3, 1]`,
    size 5000: the verdict answers "not strictly sorted" on the model's own output).  Not reachable
    from the generators (gen1.rs "C14" emits strictly increasing lists only).
Partial: none.  OPEN: none.
-/

end Bao.SpecTrunc
