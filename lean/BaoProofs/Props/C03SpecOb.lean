import BaoProofs.Lemmas.SpecObL

/-!
# The executable specification verdict of `ob` never rejects the model  (property C03)

`ob blob bs entry` (`Ops.opOb`) creates an outboard of a blob through one of 26 entry points of the
crate and prints `root  digest-of-the-outboard-bytes  blake3::hash(data)  bao-crate-outboard-digest`.
The verdict judges the implementation's line with `Spec.root`, `Spec.preOutboard` /
`Spec.postOutboard` (the untouched stale filling for the `EmptyOutboard`), the size formula
`(nBlocks − 1) · 64`, and at block size 0 the bao crate's digest.  This file proves that the verdict
accepts the MODEL's own line:

1. hash instance.  The driver's instance `Ops.hf = realHash` represents a hash by its byte list, so the
   hypothesis `hlen : ∀ h, (toBytes h).length = 32` of the C03 theorems is FALSE for it (`h = []`).
   `real_hash_outputs` proves from the executable BLAKE3 code that every OUTPUT of `chunkCv` /
   `parentCv` has 32 bytes (`OutLen hf`), and `outboard_store_pre'`, `outboard_store_post'`, `size'`
   are the C03 store theorems under this weaker hypothesis (every `hf`; they imply the C03 versions
   by `outLen_of_hlen`).  `post_order_writer` and `outboard_store_empty` of C03 need no such
   hypothesis and are used as they are.
2. component level (`root_component`, `b3_component`, `ob_component`, `size_component`,
   `bao_component`, `verdict_tokens`): each quantity the verdict compares, computed from the model,
   is what the verdict expects.
3. op level: `ob_specFail` (any argument strings that parse), `ob_no_false_alarm` (the 26 entry
   names, with or without a `+t<m>` / `+p<k>` reader modifier), `ob_const_no_false_alarm`
   (descriptors `const:B:N`: no parse hypothesis left), `ob_bad_entry` (every other entry name is
   `bad-op`), `ob_entries` (the accepted names are exactly the 26).

Bounds: `d.length ≤ 2^63`, `bs ≤ 10`.
-/

set_option maxRecDepth 8192

namespace Bao.SpecOb
open Bao Bao.Spec Bao.Ops Bao.Proto Bao.SpecIndex

/-! ## 1. the hash instance -/

/-- the executable BLAKE3 returns 32 bytes: the outputs of `realHash` have a 32-byte representation
(proved from `Blake3.compress`: the result is 8 pushed words, 4 bytes each) -/
theorem real_hash_outputs : OutLen Ops.hf ∧
    (∀ c b r, (Blake3.chunkCv c b r).length = 32) ∧ (∀ l r f, (Blake3.parentCv l r f).length = 32) :=
  ⟨hf_outLen, chunkCv_length, parentCv_length⟩

/-- `toBytes` / `ofBytes` of the driver's instance are the identity (wire round trip) -/
theorem real_hash_roundtrip (h : HB) : Ops.hf.ofBytes (Ops.hf.toBytes h) = h ∧ Ops.hf.toBytes h = h :=
  ⟨rfl, rfl⟩

/-- the universal `hlen` of C03 does not hold for the driver's instance -/
example : ¬ ∀ h, (Ops.hf.toBytes h).length = 32 := fun h => absurd (h []) (by decide)

/-- C03 `outboard_store_pre` for every instance whose hash OUTPUTS are 32 bytes -/
theorem outboard_store_pre' {H : Type} (hf : HashFns H) (hol : OutLen hf)
    (d : List UInt8) (bs : Nat) (hs : d.length ≤ 2 ^ 63) (hbs : bs ≤ 10) (ob : Store H)
    (htree : ob.tree = ⟨d.length, bs⟩)
    (hk : (ob.kind = .preIo ∧ ob.data.length ≤ ob.tree.outboardSize) ∨
          (ob.kind = .preMem ∧ ob.data.length = ob.tree.outboardSize)) :
    outboard hf d ob.tree ob
      = ⟨.ok (Spec.root hf d), { ob with data := Spec.preOutboard hf d bs }⟩ :=
  outboard_run_pre' hf hol d bs hs hbs ob htree hk

/-- the store `opOb` uses for `sync-create-preMem` (root field `[]`, zero-filled backing) -/
example : outboard Ops.hf (List.replicate 3000 7) ⟨3000, 1⟩ ⟨.preMem, [], ⟨3000, 1⟩, zerosN 64⟩
    = ⟨.ok (Spec.root Ops.hf (List.replicate 3000 7)),
       ⟨.preMem, [], ⟨3000, 1⟩, Spec.preOutboard Ops.hf (List.replicate 3000 7) 1⟩⟩ := by
  have hl : (List.replicate 3000 (7 : UInt8)).length = 3000 := List.length_replicate ..
  have := outboard_store_pre' Ops.hf hf_outLen (List.replicate 3000 7) 1 (by rw [hl]; decide)
    (by decide) ⟨.preMem, [], ⟨3000, 1⟩, zerosN 64⟩ (by rw [hl]) (.inr ⟨rfl, by decide⟩)
  exact this

/-- C03 `outboard_store_post` under `OutLen` -/
theorem outboard_store_post' {H : Type} (hf : HashFns H) (hol : OutLen hf)
    (d : List UInt8) (bs : Nat) (hs : d.length ≤ 2 ^ 63) (hbs : bs ≤ 10) (ob : Store H)
    (htree : ob.tree = ⟨d.length, bs⟩)
    (hk : (ob.kind = .postIo ∧ ob.data.length ≤ ob.tree.outboardSize) ∨
          (ob.kind = .postMem ∧ ob.data.length = ob.tree.outboardSize)) :
    outboard hf d ob.tree ob
      = ⟨.ok (Spec.root hf d), { ob with data := Spec.postOutboard hf d bs }⟩ :=
  outboard_run_post' hf hol d bs hs hbs ob htree hk

example : outboard Ops.hf (List.replicate 3000 7) ⟨3000, 1⟩ ⟨.postIo, [], ⟨3000, 1⟩, []⟩
    = ⟨.ok (Spec.root Ops.hf (List.replicate 3000 7)),
       ⟨.postIo, [], ⟨3000, 1⟩, Spec.postOutboard Ops.hf (List.replicate 3000 7) 1⟩⟩ := by
  have hl : (List.replicate 3000 (7 : UInt8)).length = 3000 := List.length_replicate ..
  have := outboard_store_post' Ops.hf hf_outLen (List.replicate 3000 7) 1 (by rw [hl]; decide)
    (by decide) ⟨.postIo, [], ⟨3000, 1⟩, []⟩ (by rw [hl]) (.inl ⟨rfl, Nat.zero_le _⟩)
  exact this

/-- C03 `size` under `OutLen` -/
theorem size' {H : Type} (hf : HashFns H) (hol : OutLen hf)
    (d : List UInt8) (bs : Nat) (hs : d.length ≤ 2 ^ 63) (hbs : bs ≤ 10) :
    (Spec.preOutboard hf d bs).length = (Spec.nBlocks d.length bs - 1) * 64 ∧
    (Spec.postOutboard hf d bs).length = (Spec.nBlocks d.length bs - 1) * 64 := by
  rw [← C12.blocks_spec]
  exact ⟨preOutboard_length' hf hol d bs hs hbs, postOutboard_length' hf hol d bs hs hbs⟩

example : (Spec.preOutboard Ops.hf (List.replicate 3000 7) 1).length
    = (Spec.nBlocks (List.replicate 3000 (7 : UInt8)).length 1 - 1) * 64 :=
  (size' Ops.hf hf_outLen (List.replicate 3000 7) 1
    (by rw [List.length_replicate]; decide) (by decide)).1

/-! ## 2. component level -/

/-- clauses 1+2, first token: every entry that `opOb` accepts prints `hex (Spec.root hf d)` as root,
and clause 3: its outboard bytes are `obExpect` = the verdict's `specOb` (stale filling for the
`-empty` entries, else `Spec.preOutboard` / `Spec.postOutboard` by the order flag) -/
theorem ob_component (d : List UInt8) (bs : Nat) (hs : d.length ≤ 2 ^ 63) (hbs : bs ≤ 10)
    (entry rootS : String) (ob : List UInt8) (isPre : Bool)
    (h : obRes d bs entry = some (rootS, ob, isPre)) :
    rootS = hex (Spec.root hf d) ∧ ob = obExpect d bs entry isPre :=
  obRes_spec d bs hs hbs entry rootS ob isPre h

example : (viaStore (List.replicate 3000 7) 1 .preMem
      (zerosN (Tree.outboardSize ⟨(List.replicate 3000 (7 : UInt8)).length, 1⟩))).2
    = obExpect (List.replicate 3000 7) 1 "sync-create-preMem" true :=
  (ob_component (List.replicate 3000 7) 1 (by rw [List.length_replicate]; decide) (by decide)
    "sync-create-preMem" _ _ true rfl).2

/-- the order flag of an accepted entry and the `-empty` test are not needed for the remaining
clauses; clause 1, third token: the model's `blake3::hash(data)` is `Spec.root` -/
theorem b3_component (d : List UInt8) : hex (hashSubtree hf 0 d true) = hex (Spec.root hf d) := by
  rw [hashSubtree_root]

/-- clause 4: the expected bytes have `(nBlocks − 1) · 64` bytes -/
theorem size_component (d : List UInt8) (bs : Nat) (hs : d.length ≤ 2 ^ 63) (hbs : bs ≤ 10)
    (entry : String) (isPre : Bool) :
    (obExpect d bs entry isPre).length = (Spec.nBlocks d.length bs - 1) * 64 :=
  obExpect_length d bs hs hbs entry isPre

example : (obExpect (List.replicate 3000 7) 1 "sync-init-postIo" false).length
    = (Spec.nBlocks (List.replicate 3000 (7 : UInt8)).length 1 - 1) * 64 :=
  size_component _ 1 (by rw [List.length_replicate]; decide) (by decide) _ _

/-- clause 5: at block size 0, for a pre-order non-empty entry, the digest of the expected bytes is
the model's bao-crate token -/
theorem bao_component (d : List UInt8) (entry : String) (h : entry.endsWith "-empty" = false) :
    dig (obExpect d 0 entry true) = baoTok d 0 := by
  rw [obExpect_pre d 0 entry h]; rfl

example : dig (obExpect [1, 2, 3] 0 "sync-create-preMem" true) = baoTok [1, 2, 3] 0 :=
  bao_component _ _ (by rw [endsWith_eq_decide]; decide)

/-- all clauses: the verdict accepts the four tokens computed from the specification (any entry
name, any order flag) -/
theorem verdict_tokens' (d : List UInt8) (bs : Nat) (hs : d.length ≤ 2 ^ 63) (hbs : bs ≤ 10)
    (entry : String) (isPre : Bool) :
    obVerdictT d bs entry isPre
      [hex (Spec.root hf d), dig (obExpect d bs entry isPre), hex (hashSubtree hf 0 d true),
        baoTok d bs] = none :=
  verdict_tokens d bs hs hbs entry isPre

example : obVerdictT [1, 2, 3] 0 "sync-create-preMem" true
    [hex (Spec.root hf [1, 2, 3]), dig (obExpect [1, 2, 3] 0 "sync-create-preMem" true),
      hex (hashSubtree hf 0 [1, 2, 3] true), baoTok [1, 2, 3] 0] = none :=
  verdict_tokens' _ 0 (by decide) (by decide) _ _

/-- … and the model's line splits into exactly these tokens -/
theorem model_split (d : List UInt8) (bs : Nat) (ob : List UInt8) :
    (obModelStr d bs (hex (Spec.root hf d)) ob).splitOn " "
      = [hex (Spec.root hf d), dig ob, hex (hashSubtree hf 0 d true), baoTok d bs] :=
  obModelStr_split d bs _ ob (noSp_hex _)

/-- the verdict does reject: different first and third token (any blob) -/
example (d : List UInt8) : obVerdictT d 0 "sync-create-preMem" true ["a", "b", "c", "e"] ≠ none :=
  fun h => absurd (verdict_sound _ _ _ _ _ _ _ _ h).1 (by decide)

/-- the verdict does reject: a wrong root (`-`, the rendering of an empty hash) for the empty blob,
evaluated with the executable BLAKE3 -/
example : obVerdictT [] 0 "sync-create-preMem" true ["-", "0:0", "-", "0:0"] ≠ none :=
  fun h => absurd (verdict_sound _ _ _ _ _ _ _ _ h).2.1 (by decide +kernel)

/-- a line of the wrong shape is rejected -/
example (d : List UInt8) : obVerdictT d 0 "sync-create-preMem" true ["a", "b", "c"]
    = some "malformed" := rfl

/-! ## 3. op level -/

/-- the full statement for `opOb`: on the model's own output the verdict is `none`, for all
argument strings that parse: a blob descriptor, a block size, and an entry (possibly with a
`+…` modifier) that `opOb` accepts -/
theorem ob_specFail (b bs entry0 impl : String) (d : List UInt8) (bsn : Nat)
    (h1 : blob b = some d) (h2 : bs.toNat? = some bsn)
    (hs : d.length ≤ 2 ^ 63) (hbs : bsn ≤ 10)
    (h3 : (obRes d bsn (entryOf entry0)).isSome = true) :
    (opOb [b, bs, entry0] (opOb [b, bs, entry0] impl).model).specFail = none := by
  obtain ⟨⟨rootS, ob, isPre⟩, hr⟩ := Option.isSome_iff_exists.1 h3
  obtain ⟨rfl, rfl⟩ := obRes_spec d bsn hs hbs _ _ _ _ hr
  rw [opOb_eq b bs entry0 impl d bsn h1 h2, opOb_eq b bs entry0 _ d bsn h1 h2]
  simp only [hr]
  rw [obVerdict_eq, obModelStr_split d bsn _ _ (noSp_hex _)]
  exact verdict_tokens d bsn hs hbs _ _

/-- the accepted entry names are exactly the 26 of `obEntries` (= `ENTRIES` of the generator) -/
theorem ob_entries (d : List UInt8) (bs : Nat) (e : String) :
    (obRes d bs e).isSome = true ↔ e ∈ obEntries :=
  obRes_isSome_iff d bs e

/-- every other entry name is `bad-op` (does not parse) -/
theorem ob_bad_entry (b bs entry0 impl : String) (d : List UInt8) (bsn : Nat)
    (h1 : blob b = some d) (h2 : bs.toNat? = some bsn) (h3 : entryOf entry0 ∉ obEntries) :
    opOb [b, bs, entry0] impl = bad "ob entry" := by
  have hn : obRes d bsn (entryOf entry0) = none := by
    cases h : obRes d bsn (entryOf entry0) with
    | none => rfl
    | some r =>
      exact absurd ((obRes_isSome_iff d bsn _).1 (by rw [h]; rfl)) h3
  rw [opOb_eq b bs entry0 impl d bsn h1 h2, hn]

example : opOb ["const:7:3000", "1", "sync-outboard-foo"] "x" = bad "ob entry" :=
  ob_bad_entry _ _ _ _ _ 1 (blob_const 7 3000) (toNat?_toString 1)
    (by rw [entryOf_plain _ (by decide)]; decide)

/-- `(opOb [blob, bs, entry] m).specFail = none` for the model's own output `m`: the 26 entry names,
bare (`modifier = none`) or with a reader modifier `entry+t<m>` / `entry+p<k>` (any text after the
`+`) -/
theorem ob_no_false_alarm (b impl : String) (d : List UInt8) (bs : Nat) (e : String)
    (modifier : Option String)
    (h1 : blob b = some d) (hs : d.length ≤ 2 ^ 63) (hbs : bs ≤ 10) (he : e ∈ obEntries) :
    let entry0 := match modifier with | none => e | some t => e ++ "+" ++ t
    (opOb [b, toString bs, entry0] (opOb [b, toString bs, entry0] impl).model).specFail = none := by
  have hplus : '+' ∉ e.toList := noPlus_obEntries e he
  intro entry0
  have hent : entryOf entry0 = e := by
    cases modifier with
    | none => exact entryOf_plain e hplus
    | some t => exact entryOf_modified e t hplus
  exact ob_specFail b _ entry0 impl d bs h1 (toNat?_toString bs) hs hbs
    (by rw [hent]; exact (obRes_isSome_iff d bs e).2 he)

example : (opOb ["const:7:3000", toString 1, "sync-create-preMem"]
    (opOb ["const:7:3000", toString 1, "sync-create-preMem"] "").model).specFail = none :=
  ob_no_false_alarm "const:7:3000" "" _ 1 "sync-create-preMem" none (blob_const 7 3000)
    (by rw [List.length_replicate]; decide) (by decide) (by decide)

example : (opOb ["const:7:3000", toString 0, "sync-outboard-empty" ++ "+" ++ "t63"]
    (opOb ["const:7:3000", toString 0, "sync-outboard-empty" ++ "+" ++ "t63"] "x").model).specFail
    = none :=
  ob_no_false_alarm "const:7:3000" "x" _ 0 "sync-outboard-empty" (some "t63") (blob_const 7 3000)
    (by rw [List.length_replicate]; decide) (by decide) (by decide)

/-- no hypothesis about parsing left: constant blobs of every size `n ≤ 2^63` -/
theorem ob_const_no_false_alarm (byte n bs : Nat) (e impl : String) (modifier : Option String)
    (hn : n ≤ 2 ^ 63) (hbs : bs ≤ 10) (he : e ∈ obEntries) :
    let entry0 := match modifier with | none => e | some t => e ++ "+" ++ t
    let args := ["const:" ++ toString byte ++ ":" ++ toString n, toString bs, entry0]
    (opOb args (opOb args impl).model).specFail = none :=
  ob_no_false_alarm _ impl _ bs e modifier (blob_const byte n)
    (by rw [List.length_replicate]; exact hn) hbs he

example : (opOb ["const:" ++ toString 200 ++ ":" ++ toString 1000000, toString 4,
      "fsm-init-postIo" ++ "+" ++ "p8"]
    (opOb ["const:" ++ toString 200 ++ ":" ++ toString 1000000, toString 4,
      "fsm-init-postIo" ++ "+" ++ "p8"] "").model).specFail = none :=
  ob_const_no_false_alarm 200 1000000 4 "fsm-init-postIo" "" (some "p8") (by decide) (by decide)
    (by decide)

end Bao.SpecOb

/-
Status (task NFA, operation `ob` = `Ops.opOb`, property C03).
Bounds throughout: `d.length ≤ 2^63`, `bs ≤ 10`.

PROVED (full strength, no `hlen` hypothesis left: the 32-byte facts are proved from the BLAKE3 code):
  1. `real_hash_outputs`     `OutLen Ops.hf`: every `Blake3.chunkCv` / `Blake3.parentCv` output has 32 bytes
                             (all inputs); `real_hash_roundtrip`: `toBytes` / `ofBytes` are the identity.
     `outboard_store_pre'`, `outboard_store_post'`, `size'`   the C03 theorems `outboard_store_pre/post`, `size`
                             for EVERY `hf` with `OutLen hf` (outputs only) instead of `∀ h, (toBytes h).length = 32`
                             (false for `realHash`: example in section 1); `outLen_of_hlen` gives the C03 versions back.
  2. component level:
     `ob_component`          for every entry `opOb` accepts (`obRes … = some (rootS, ob, isPre)`): `rootS = hex (Spec.root hf d)`
                             and `ob = obExpect d bs entry isPre` (= the verdict's `specOb`: `staleN obsize` for the
                             `-empty` entries, else `Spec.preOutboard` / `Spec.postOutboard` by `isPre`); uses C03
                             `post_order_writer` (writer entries), `outboard_store_pre'/post'` (zero-filled `preMem`,
                             empty or stale-filled io backings, stale-filled mem backings), `outboard_store_empty`;
     `b3_component`          the model's `blake3::hash(data)` token is `hex (Spec.root hf d)`;
     `size_component`        `(obExpect …).length = (nBlocks − 1) · 64` (also for the stale filling);
     `bao_component`         at `bs = 0`, pre-order, not `-empty`: `dig (obExpect …) = baoTok d 0` (the model's bao field);
     `verdict_tokens'`       `obVerdictT … [hex root, dig (obExpect …), hex (hashSubtree hf 0 d true), baoTok d bs] = none`;
     `model_split`           the model's line splits (`splitOn " "`) into exactly these four tokens;
     (`verdict_sound` in `SpecObL`: a `none` verdict on four tokens implies every compared equation.)
  3. op level:
     `ob_specFail`           `(opOb [b, bs, entry0] (opOb [b, bs, entry0] impl).model).specFail = none` for all argument
                             strings with `blob b = some d`, `bs.toNat? = some bsn`, accepted entry;
     `ob_entries`            the accepted entries are exactly the 26 names `obEntries` (= `ENTRIES` of `gen2.rs`);
     `ob_bad_entry`          every other entry gives `bad "ob entry"`;
     `ob_no_false_alarm`     the 26 names bare or as `name+<anything>` (`+t<m>`, `+p<k>`), `bs` rendered by `toString`;
     `ob_const_no_false_alarm`   additionally the descriptor `const:B:N` parsed (`blob_const`): no parse hypothesis left.
  In `SpecObL`: `opOb_eq` (`obRes`, `obModelStr`, `obVerdict` ARE the `let`s of `opOb`, by `rfl` after the argument
  parse), `entryKind_some` / `entryKind_endsWith` (the fall-through branch: `startsWith` + `drop` determine the name, and
  the name ends with `-empty` iff the kind is `empty`), `entryOf_eq` (`(s.splitOn "+").head!` = the text before the first
  `+`), `splitOn_char` (one-character separators), `noSp_hex`.

PARTIAL: none.   OPEN: none.

FALSE ALARMS: none found.  For every argument list that parses within the bounds the verdict accepts the model's line.
  The generator (`harness/src/gen2.rs`, property C03) emits `ob <blob> <bs> <entry>[+t<m>|+p<k>]` with `entry ∈ ENTRIES`
  (the same 26 names), `bs ≤ 8`, sizes ≤ 1.2 MB: all inside `ob_no_false_alarm`.
  Remark (not a false alarm): the `-empty` test of the verdict is on the entry NAME (`endsWith "-empty"`), the model's
  choice of the store kind is by `storeKind?` of the text after `…-outboard-`; `entryKind_endsWith` shows the two agree.

Remark on C03 as stated: its hypothesis `hlen : ∀ h, (hf.toBytes h).length = 32` cannot be instantiated with the
  driver's `realHash` (`H = List UInt8`, `toBytes = id`); the primed versions here close that gap.

Axioms (`#print axioms`, all theorems of this file and of `SpecObL`): subsets of [propext, Classical.choice, Quot.sound]
  (`cvLevel_len`, `cv_len`, `outLen_of_hlen`, `hexDigit_ne_space`, `storeKind?_some`: none).  One example uses
  `decide +kernel` (the executable BLAKE3 of the empty blob).
-/
