import BaoProofs.Lemmas.C06LocL
import BaoProofs.Props.C06

/-!
# C06 "true bytes" with LOCALISED collision freedom

`Props/C06.lean` proves `true_bytes` / `reported_true_bytes` (a `Verifiable` chunk group / a group
reported by `valid_ranges` holds the true bytes of the blob `d` whose BLAKE3 root the store carries)
under the global `CollisionFree hf`, which no function into 32 bytes satisfies
(`Lemmas/CFUnsat.lean`).  Here the hypothesis is

  `CollisionFreeOn hf (fun x => x ∈ trueEvals hf d ++ verifyEvals hf fl ob data g)`

i.e. no collision among the FINITELY many, computable hash inputs that

* the honest hashing of the blob evaluates (`C01.trueEvals hf d`), and
* the verification of group `g` against the store evaluates (`verifyEvals`, `Lemmas/C06LocL.lean`:
  the parent input `(lh, rh, isRoot)` of every stored pair on the walk from the shifted root down to
  `g`, and `hashEvals` of the stored bytes of `g`; for a tree with one chunk group `hashEvals` of the
  first `size` bytes as root).

`true_bytes_collision_extraction` is the contrapositive without any hash hypothesis, and
`true_bytes_collision_search` finds the collision with `findCollision`.
-/

set_option maxRecDepth 100000

namespace Bao.C06Loc

open Bao Bao.Spec Bao.ValidL Bao.C01

variable {H : Type}

/-! ## 2. a verifiable group holds true blob bytes -/

/-- `C06.true_bytes` with the local hypothesis: `hf` has no collision among the inputs evaluated by
the honest hashing of `d` and by the verification of `g`.  Same conclusion: the stored bytes
`[g.1·1024, min (g.2·1024) size)` of a verifiable group are the bytes of `d` at the same place and
lie inside `d`. -/
theorem true_bytes_loc (hf : HashFns H) (fl : Flavour) (ob : Store H) (data d : List UInt8)
    (hd : d.length ≤ 2 ^ 64 * 1024) (hroot : ob.root = Spec.root hf d)
    (hlen : ob.tree.size ≤ data.length) (g : Nat × Nat)
    (cf : CollisionFreeOn hf (fun x => x ∈ trueEvals hf d ++ verifyEvals hf fl ob data g))
    (hv : Verifiable hf fl ob data true g) :
    (data.drop (g.1 * 1024)).take (min (g.2 * 1024) ob.tree.size - g.1 * 1024) =
      (d.drop (g.1 * 1024)).take (min (g.2 * 1024) ob.tree.size - g.1 * 1024) ∧
    g.1 * 1024 + (min (g.2 * 1024) ob.tree.size - g.1 * 1024) ≤ d.length := by
  obtain ⟨h1, h2⟩ := verifiable_true_bytes_loc cf (fun x hx => List.mem_append_left _ hx)
    (fun x hx => List.mem_append_right _ hx) hd hroot hlen hv
  refine ⟨h1, ?_⟩
  have hl : (groupBytes data ob.tree.size g).length = min (toBytes g.2) ob.tree.size - toBytes g.1 :=
    bytesAt_length (by omega)
  rw [hl] at h2
  exact h2

/-! ## 3. groups reported by `valid_ranges` -/

/-- `C06.reported_true_bytes` with the local hypothesis: whatever the state of the store and of the
data file, a group the data validator reports holds true blob bytes, provided `hf` has no collision
among the inputs evaluated by the honest hashing of `d` and by the verification of that group -/
theorem reported_true_bytes_loc [BEq H] [LawfulBEq H] (hf : HashFns H) (fl : Flavour)
    (ob : Store H) (data d : List UInt8) (hs : ob.tree.size ≤ 2 ^ 63) (hbs : ob.tree.bs ≤ 10)
    (hd : d.length ≤ 2 ^ 64 * 1024) (hroot : ob.root = Spec.root hf d)
    (hlen : ob.tree.size ≤ data.length) (q : Ranges) (g : Nat × Nat)
    (cf : CollisionFreeOn hf (fun x => x ∈ trueEvals hf d ++ verifyEvals hf fl ob data g))
    (hg : g ∈ (validRanges hf fl ob data q).yields) :
    (data.drop (g.1 * 1024)).take (min (g.2 * 1024) ob.tree.size - g.1 * 1024) =
      (d.drop (g.1 * 1024)).take (min (g.2 * 1024) ob.tree.size - g.1 * 1024) ∧
    g.1 * 1024 + (min (g.2 * 1024) ob.tree.size - g.1 * 1024) ≤ d.length :=
  true_bytes_loc hf fl ob data d hd hroot hlen g cf
    ((validRanges_exact hf fl ob data hs hbs q).sound g hg).1

/-! ## 4. collision extraction -/

/-- NO hash hypothesis: if the stored bytes of a verifiable group are not the blob's bytes at the
same place (or do not lie inside the blob), the finite list
`trueEvals hf d ++ verifyEvals hf fl ob data g` contains two different inputs with equal hash -/
theorem true_bytes_collision_extraction (hf : HashFns H) (fl : Flavour) (ob : Store H)
    (data d : List UInt8) (hd : d.length ≤ 2 ^ 64 * 1024) (hroot : ob.root = Spec.root hf d)
    (hlen : ob.tree.size ≤ data.length) (g : Nat × Nat) (hv : Verifiable hf fl ob data true g)
    (hbad : ¬ ((data.drop (g.1 * 1024)).take (min (g.2 * 1024) ob.tree.size - g.1 * 1024) =
        (d.drop (g.1 * 1024)).take (min (g.2 * 1024) ob.tree.size - g.1 * 1024) ∧
      g.1 * 1024 + (min (g.2 * 1024) ob.tree.size - g.1 * 1024) ≤ d.length)) :
    ∃ x y, x ∈ trueEvals hf d ++ verifyEvals hf fl ob data g ∧
      y ∈ trueEvals hf d ++ verifyEvals hf fl ob data g ∧ x ≠ y ∧ hf.eval x = hf.eval y := by
  apply Classical.byContradiction
  intro hno
  apply hbad
  refine true_bytes_loc hf fl ob data d hd hroot hlen g ?_ hv
  intro x y hx hy e
  apply Classical.byContradiction
  intro hne
  exact hno ⟨x, y, hx, hy, hne, e⟩

/-- the same for a group reported by `valid_ranges` -/
theorem reported_collision_extraction [BEq H] [LawfulBEq H] (hf : HashFns H) (fl : Flavour)
    (ob : Store H) (data d : List UInt8) (hs : ob.tree.size ≤ 2 ^ 63) (hbs : ob.tree.bs ≤ 10)
    (hd : d.length ≤ 2 ^ 64 * 1024) (hroot : ob.root = Spec.root hf d)
    (hlen : ob.tree.size ≤ data.length) (q : Ranges) (g : Nat × Nat)
    (hg : g ∈ (validRanges hf fl ob data q).yields)
    (hbad : ¬ ((data.drop (g.1 * 1024)).take (min (g.2 * 1024) ob.tree.size - g.1 * 1024) =
        (d.drop (g.1 * 1024)).take (min (g.2 * 1024) ob.tree.size - g.1 * 1024) ∧
      g.1 * 1024 + (min (g.2 * 1024) ob.tree.size - g.1 * 1024) ≤ d.length)) :
    ∃ x y, x ∈ trueEvals hf d ++ verifyEvals hf fl ob data g ∧
      y ∈ trueEvals hf d ++ verifyEvals hf fl ob data g ∧ x ≠ y ∧ hf.eval x = hf.eval y :=
  true_bytes_collision_extraction hf fl ob data d hd hroot hlen g
    ((validRanges_exact hf fl ob data hs hbs q).sound g hg).1 hbad

/-- **the collision is found by search**: under the hypotheses of
`true_bytes_collision_extraction` the quadratic search `findCollision` over the finite list returns
a pair, and that pair is a collision -/
theorem true_bytes_collision_search [DecidableEq H] (hf : HashFns H) (fl : Flavour) (ob : Store H)
    (data d : List UInt8) (hd : d.length ≤ 2 ^ 64 * 1024) (hroot : ob.root = Spec.root hf d)
    (hlen : ob.tree.size ≤ data.length) (g : Nat × Nat) (hv : Verifiable hf fl ob data true g)
    (hbad : ¬ ((data.drop (g.1 * 1024)).take (min (g.2 * 1024) ob.tree.size - g.1 * 1024) =
        (d.drop (g.1 * 1024)).take (min (g.2 * 1024) ob.tree.size - g.1 * 1024) ∧
      g.1 * 1024 + (min (g.2 * 1024) ob.tree.size - g.1 * 1024) ≤ d.length)) :
    ∃ x y, findCollision hf (trueEvals hf d ++ verifyEvals hf fl ob data g) = some (x, y) ∧
      x ∈ trueEvals hf d ++ verifyEvals hf fl ob data g ∧
      y ∈ trueEvals hf d ++ verifyEvals hf fl ob data g ∧ x ≠ y ∧ hf.eval x = hf.eval y := by
  obtain ⟨x, y, hx, hy, hne, he⟩ :=
    true_bytes_collision_extraction hf fl ob data d hd hroot hlen g hv hbad
  obtain ⟨x', y', hf'⟩ := findCollision_complete hx hy hne he
  exact ⟨x', y', hf', findCollision_some hf'⟩

/-! ## 4b. the whole validator run

`validEvals hf fl ob data q` (`Lemmas/C06LocL.lean`) lists every hash input the run
`valid_ranges(ob, data, q)` evaluates: the parent input of every stored pair it loads and checks
(passing or not), the evaluation list of every `hash_subtree` call of `yield_if_valid` (matching or
not); the analogue of `C01.runEvals` for the decoder.  The hypothesis then no longer mentions the
group. -/

/-- what the verification of a reported group evaluates is among what the run evaluates -/
theorem verifyEvals_sub_run [BEq H] [LawfulBEq H] (hf : HashFns H) (fl : Flavour) (ob : Store H)
    (data : List UInt8) (hs : ob.tree.size ≤ 2 ^ 63) (hbs : ob.tree.bs ≤ 10) (q : Ranges)
    (g : Nat × Nat) (hg : g ∈ (validRanges hf fl ob data q).yields) :
    ∀ x ∈ verifyEvals hf fl ob data g, x ∈ validEvals hf fl ob data q :=
  verifyEvals_sub_validEvals hf fl ob data hs hbs q g hg

/-- **every group the data validator reports holds true blob bytes**, provided `hf` has no
collision among the inputs evaluated by the honest hashing of `d` and by this validator run -/
theorem reported_true_bytes_run [BEq H] [LawfulBEq H] (hf : HashFns H) (fl : Flavour)
    (ob : Store H) (data d : List UInt8) (hs : ob.tree.size ≤ 2 ^ 63) (hbs : ob.tree.bs ≤ 10)
    (hd : d.length ≤ 2 ^ 64 * 1024) (hroot : ob.root = Spec.root hf d)
    (hlen : ob.tree.size ≤ data.length) (q : Ranges)
    (cf : CollisionFreeOn hf (fun x => x ∈ trueEvals hf d ++ validEvals hf fl ob data q))
    (g : Nat × Nat) (hg : g ∈ (validRanges hf fl ob data q).yields) :
    (data.drop (g.1 * 1024)).take (min (g.2 * 1024) ob.tree.size - g.1 * 1024) =
      (d.drop (g.1 * 1024)).take (min (g.2 * 1024) ob.tree.size - g.1 * 1024) ∧
    g.1 * 1024 + (min (g.2 * 1024) ob.tree.size - g.1 * 1024) ≤ d.length := by
  refine reported_true_bytes_loc hf fl ob data d hs hbs hd hroot hlen q g (cf.mono ?_) hg
  intro x hx
  rcases List.mem_append.1 hx with hx | hx
  · exact List.mem_append_left _ hx
  · exact List.mem_append_right _ (verifyEvals_sub_run hf fl ob data hs hbs q g hg x hx)

/-- NO hash hypothesis: a reported group with wrong bytes exhibits a collision among the inputs of
the honest hashing and of the validator run -/
theorem run_collision_extraction [BEq H] [LawfulBEq H] (hf : HashFns H) (fl : Flavour)
    (ob : Store H) (data d : List UInt8) (hs : ob.tree.size ≤ 2 ^ 63) (hbs : ob.tree.bs ≤ 10)
    (hd : d.length ≤ 2 ^ 64 * 1024) (hroot : ob.root = Spec.root hf d)
    (hlen : ob.tree.size ≤ data.length) (q : Ranges) (g : Nat × Nat)
    (hg : g ∈ (validRanges hf fl ob data q).yields)
    (hbad : ¬ ((data.drop (g.1 * 1024)).take (min (g.2 * 1024) ob.tree.size - g.1 * 1024) =
        (d.drop (g.1 * 1024)).take (min (g.2 * 1024) ob.tree.size - g.1 * 1024) ∧
      g.1 * 1024 + (min (g.2 * 1024) ob.tree.size - g.1 * 1024) ≤ d.length)) :
    ∃ x y, x ∈ trueEvals hf d ++ validEvals hf fl ob data q ∧
      y ∈ trueEvals hf d ++ validEvals hf fl ob data q ∧ x ≠ y ∧ hf.eval x = hf.eval y := by
  apply Classical.byContradiction
  intro hno
  apply hbad
  refine reported_true_bytes_run hf fl ob data d hs hbs hd hroot hlen q ?_ g hg
  intro x y hx hy e
  apply Classical.byContradiction
  intro hne
  exact hno ⟨x, y, hx, hy, hne, e⟩

/-- … and `findCollision` on that list returns a collision -/
theorem run_collision_search [DecidableEq H] (hf : HashFns H) (fl : Flavour)
    (ob : Store H) (data d : List UInt8) (hs : ob.tree.size ≤ 2 ^ 63) (hbs : ob.tree.bs ≤ 10)
    (hd : d.length ≤ 2 ^ 64 * 1024) (hroot : ob.root = Spec.root hf d)
    (hlen : ob.tree.size ≤ data.length) (q : Ranges) (g : Nat × Nat)
    (hg : g ∈ (validRanges hf fl ob data q).yields)
    (hbad : ¬ ((data.drop (g.1 * 1024)).take (min (g.2 * 1024) ob.tree.size - g.1 * 1024) =
        (d.drop (g.1 * 1024)).take (min (g.2 * 1024) ob.tree.size - g.1 * 1024) ∧
      g.1 * 1024 + (min (g.2 * 1024) ob.tree.size - g.1 * 1024) ≤ d.length)) :
    ∃ x y, findCollision hf (trueEvals hf d ++ validEvals hf fl ob data q) = some (x, y) ∧
      x ∈ trueEvals hf d ++ validEvals hf fl ob data q ∧
      y ∈ trueEvals hf d ++ validEvals hf fl ob data q ∧ x ≠ y ∧ hf.eval x = hf.eval y := by
  obtain ⟨x, y, hx, hy, hne, he⟩ :=
    run_collision_extraction hf fl ob data d hs hbs hd hroot hlen q g hg hbad
  obtain ⟨x', y', hf'⟩ := findCollision_complete hx hy hne he
  exact ⟨x', y', hf', findCollision_some hf'⟩

/-! ## 5. the global form is an instance -/

/-- `C06.true_bytes` (verbatim) from the local form: the global hypothesis restricts to every set -/
theorem true_bytes_of_loc (hf : HashFns H) (cf : CollisionFree hf) (fl : Flavour) (ob : Store H)
    (data d : List UInt8) (hd : d.length ≤ 2 ^ 64 * 1024) (hroot : ob.root = Spec.root hf d)
    (hlen : ob.tree.size ≤ data.length) (g : Nat × Nat)
    (hv : Verifiable hf fl ob data true g) :
    (data.drop (g.1 * 1024)).take (min (g.2 * 1024) ob.tree.size - g.1 * 1024) =
      (d.drop (g.1 * 1024)).take (min (g.2 * 1024) ob.tree.size - g.1 * 1024) ∧
    g.1 * 1024 + (min (g.2 * 1024) ob.tree.size - g.1 * 1024) ≤ d.length :=
  true_bytes_loc hf fl ob data d hd hroot hlen g (cf.on _) hv

/-- `C06.reported_true_bytes` (verbatim) from the local form -/
theorem reported_true_bytes_of_loc [BEq H] [LawfulBEq H] (hf : HashFns H) (cf : CollisionFree hf)
    (fl : Flavour) (ob : Store H) (data d : List UInt8) (hs : ob.tree.size ≤ 2 ^ 63)
    (hbs : ob.tree.bs ≤ 10) (hd : d.length ≤ 2 ^ 64 * 1024) (hroot : ob.root = Spec.root hf d)
    (hlen : ob.tree.size ≤ data.length) (q : Ranges) (g : Nat × Nat)
    (hg : g ∈ (validRanges hf fl ob data q).yields) :
    (data.drop (g.1 * 1024)).take (min (g.2 * 1024) ob.tree.size - g.1 * 1024) =
      (d.drop (g.1 * 1024)).take (min (g.2 * 1024) ob.tree.size - g.1 * 1024) ∧
    g.1 * 1024 + (min (g.2 * 1024) ob.tree.size - g.1 * 1024) ≤ d.length :=
  reported_true_bytes_loc hf fl ob data d hs hbs hd hroot hlen q g (cf.on _) hg

/-! ## non-vacuity -/

section examples

/-! ### (a) the symbolic hash of `Props/C06.lean`: globally, hence locally, collision free -/

example : C06.toyData.length ≤ 2 ^ 64 * 1024 ∧ C06.toyStore.root = Spec.root C06.toyHash C06.toyData ∧
    C06.toyStore.tree.size ≤ C06.toyData.length ∧
    CollisionFreeOn C06.toyHash (fun x => x ∈ trueEvals C06.toyHash C06.toyData ++
      verifyEvals C06.toyHash .sync C06.toyStore C06.toyData (0, 1)) ∧
    Verifiable C06.toyHash .sync C06.toyStore C06.toyData true (0, 1) :=
  ⟨by decide, C06.toy_root, by decide, C06.toyHash_cf.on _, C06.toy_verifiable⟩

example : CollisionFree C06.toyHash ∧ C06.toyData.length ≤ 2 ^ 64 * 1024 ∧
    C06.toyStore.root = Spec.root C06.toyHash C06.toyData ∧
    C06.toyStore.tree.size ≤ C06.toyData.length ∧
    Verifiable C06.toyHash .sync C06.toyStore C06.toyData true (0, 1) :=
  ⟨C06.toyHash_cf, by decide, C06.toy_root, by decide, C06.toy_verifiable⟩

/-! ### (b) a hash WITH the 32-byte wire round trip (`toy32`, not globally collision free)

A blob of three chunks at `bs = 0` (three chunk groups: the shifted tree has the inner root `1`, the
persisted leaf `0` over chunks 0 and 1, and the half leaf `2` over chunk 2); the intact pre-order
memory outboard; a data file with one byte of chunk 1 altered.  `valid_ranges` reports the groups
`(0,1)` and `(2,3)`.  Verifying group `(0,1)` evaluates two parent inputs and one chunk input,
group `(2,3)` one parent input and one chunk input; the blob evaluates 5 inputs. -/

def blob3 : List UInt8 := (List.range 2049).map UInt8.ofNat

/-- the intact pre-order memory store of `blob3` under `toy32` (64-byte slots, real `toBytes`) -/
def store3 : Store H32 :=
  ⟨.preMem, Spec.root toy32 blob3, ⟨2049, 0⟩, Spec.preOutboard toy32 blob3 0⟩

/-- the data file: `blob3` with byte 1500 (in chunk 1) altered -/
def data3 : List UInt8 := blob3.take 1500 ++ [99] ++ blob3.drop 1501

theorem blob3_len : blob3.length ≤ 2 ^ 64 * 1024 := by
  simp only [blob3, List.length_map, List.length_range]; omega

theorem data3_len : store3.tree.size ≤ data3.length := by decide +kernel

/-- what the validator reports on the damaged data file: the two intact groups -/
theorem store3_run :
    validRanges toy32 .sync store3 data3 [0] = ⟨[(0, 1), (2, 3)], .ok⟩ := by decide +kernel

/-- the wire round trip holds for `toy32`, the global hypothesis fails -/
example : (∀ h, toy32.ofBytes (toy32.toBytes h) = h) ∧ (∀ h, (toy32.toBytes h).length = 32) ∧
    ¬ CollisionFree toy32 :=
  ⟨toy32_rt, toy32_len, toy32_not_cf⟩

/-- the evaluation lists are not trivial -/
example : (trueEvals toy32 blob3).length = 5 ∧
    (verifyEvals toy32 .sync store3 data3 (0, 1)).length = 3 ∧
    (verifyEvals toy32 .sync store3 data3 (2, 3)).length = 2 := by decide +kernel

theorem toy32_cf_01 : CollisionFreeOn toy32
    (fun x => x ∈ trueEvals toy32 blob3 ++ verifyEvals toy32 .sync store3 data3 (0, 1)) :=
  collisionFreeOn_list (by decide +kernel)

theorem toy32_cf_23 : CollisionFreeOn toy32
    (fun x => x ∈ trueEvals toy32 blob3 ++ verifyEvals toy32 .sync store3 data3 (2, 3)) :=
  collisionFreeOn_list (by decide +kernel)

theorem store3_verifiable_01 : Verifiable toy32 .sync store3 data3 true (0, 1) :=
  (C06.reported_sound toy32 .sync store3 data3 (by decide) (by decide) [0] (by decide) (0, 1)
    (by rw [store3_run]; decide)).1

/-- hypotheses of `true_bytes_loc` / `true_bytes_collision_extraction` (except `hbad`) -/
example : blob3.length ≤ 2 ^ 64 * 1024 ∧ store3.root = Spec.root toy32 blob3 ∧
    store3.tree.size ≤ data3.length ∧
    CollisionFreeOn toy32
      (fun x => x ∈ trueEvals toy32 blob3 ++ verifyEvals toy32 .sync store3 data3 (0, 1)) ∧
    Verifiable toy32 .sync store3 data3 true (0, 1) :=
  ⟨blob3_len, rfl, data3_len, toy32_cf_01, store3_verifiable_01⟩

/-- the conclusion on the concrete instance -/
example : (data3.drop (0 * 1024)).take (min (1 * 1024) 2049 - 0 * 1024) =
      (blob3.drop (0 * 1024)).take (min (1 * 1024) 2049 - 0 * 1024) ∧
    0 * 1024 + (min (1 * 1024) 2049 - 0 * 1024) ≤ blob3.length :=
  true_bytes_loc toy32 .sync store3 data3 blob3 blob3_len rfl data3_len (0, 1) toy32_cf_01
    store3_verifiable_01

/-- hypotheses of `reported_true_bytes_loc`, for the half-leaf group `(2, 3)` -/
example : store3.tree.size ≤ 2 ^ 63 ∧ store3.tree.bs ≤ 10 ∧ blob3.length ≤ 2 ^ 64 * 1024 ∧
    store3.root = Spec.root toy32 blob3 ∧ store3.tree.size ≤ data3.length ∧
    CollisionFreeOn toy32
      (fun x => x ∈ trueEvals toy32 blob3 ++ verifyEvals toy32 .sync store3 data3 (2, 3)) ∧
    (2, 3) ∈ (validRanges toy32 .sync store3 data3 [0]).yields :=
  ⟨by decide, by decide, blob3_len, rfl, data3_len, toy32_cf_23, by rw [store3_run]; decide⟩

example : (data3.drop (2 * 1024)).take (min (3 * 1024) 2049 - 2 * 1024) =
      (blob3.drop (2 * 1024)).take (min (3 * 1024) 2049 - 2 * 1024) ∧
    2 * 1024 + (min (3 * 1024) 2049 - 2 * 1024) ≤ blob3.length :=
  reported_true_bytes_loc toy32 .sync store3 data3 blob3 (by decide) (by decide) blob3_len rfl
    data3_len [0] (2, 3) toy32_cf_23 (by rw [store3_run]; decide)

/-! ### (b') the whole run on the same instance

The run evaluates 5 inputs: the root pair, the pair of node 0, chunk 0, the ALTERED chunk 1 (its
hash does not match, nothing is reported), chunk 2.  No collision among these and the 5 inputs of
the blob: in particular the altered chunk does not collide with the true one. -/

example : (validEvals toy32 .sync store3 data3 [0]).length = 5 := by decide +kernel

theorem toy32_cf_run : CollisionFreeOn toy32
    (fun x => x ∈ trueEvals toy32 blob3 ++ validEvals toy32 .sync store3 data3 [0]) :=
  collisionFreeOn_list (by decide +kernel)

/-- hypotheses of `verifyEvals_sub_run`, `reported_true_bytes_run` -/
example : store3.tree.size ≤ 2 ^ 63 ∧ store3.tree.bs ≤ 10 ∧ blob3.length ≤ 2 ^ 64 * 1024 ∧
    store3.root = Spec.root toy32 blob3 ∧ store3.tree.size ≤ data3.length ∧
    CollisionFreeOn toy32
      (fun x => x ∈ trueEvals toy32 blob3 ++ validEvals toy32 .sync store3 data3 [0]) ∧
    (0, 1) ∈ (validRanges toy32 .sync store3 data3 [0]).yields :=
  ⟨by decide, by decide, blob3_len, rfl, data3_len, toy32_cf_run, by rw [store3_run]; decide⟩

example : ∀ g ∈ (validRanges toy32 .sync store3 data3 [0]).yields,
    (data3.drop (g.1 * 1024)).take (min (g.2 * 1024) store3.tree.size - g.1 * 1024) =
      (blob3.drop (g.1 * 1024)).take (min (g.2 * 1024) store3.tree.size - g.1 * 1024) ∧
    g.1 * 1024 + (min (g.2 * 1024) store3.tree.size - g.1 * 1024) ≤ blob3.length :=
  reported_true_bytes_run toy32 .sync store3 data3 blob3 (by decide) (by decide) blob3_len rfl
    data3_len [0] toy32_cf_run

/-! ### (c) collision extraction: the constant hash, a store that "verifies" wrong bytes -/

/-- the constant hash -/
def unitHash : HashFns Unit where
  chunkCv _ _ _ := ()
  parentCv _ _ _ := ()
  ofBytes _ := ()
  toBytes _ := List.replicate 32 0

/-- the blob: two chunks (1024 + 1 bytes) of ones -/
def blobU : List UInt8 := List.replicate 1025 1
/-- the data file: all twos -/
def dataU : List UInt8 := List.replicate 1025 2
/-- an `EmptyOutboard` over two chunk groups; under the constant hash every check passes -/
def storeU : Store Unit := ⟨.empty, (), ⟨1025, 0⟩, []⟩

theorem storeU_verifiable : Verifiable unitHash .sync storeU dataU true (1, 2) :=
  (C06.reported_sound unitHash .sync storeU dataU (by decide) (by decide) [0] (by decide) (1, 2)
    (by decide +kernel)).1

theorem storeU_bad :
    ¬ ((dataU.drop (1 * 1024)).take (min (2 * 1024) storeU.tree.size - 1 * 1024) =
        (blobU.drop (1 * 1024)).take (min (2 * 1024) storeU.tree.size - 1 * 1024) ∧
      1 * 1024 + (min (2 * 1024) storeU.tree.size - 1 * 1024) ≤ blobU.length) := by
  decide +kernel

/-- hypotheses of `true_bytes_collision_extraction` / `_search` -/
example : blobU.length ≤ 2 ^ 64 * 1024 ∧ storeU.root = Spec.root unitHash blobU ∧
    storeU.tree.size ≤ dataU.length ∧ Verifiable unitHash .sync storeU dataU true (1, 2) ∧
    ¬ ((dataU.drop (1 * 1024)).take (min (2 * 1024) storeU.tree.size - 1 * 1024) =
        (blobU.drop (1 * 1024)).take (min (2 * 1024) storeU.tree.size - 1 * 1024) ∧
      1 * 1024 + (min (2 * 1024) storeU.tree.size - 1 * 1024) ≤ blobU.length) :=
  ⟨by decide, rfl, by decide, storeU_verifiable, storeU_bad⟩

example : ∃ x y, x ∈ trueEvals unitHash blobU ++ verifyEvals unitHash .sync storeU dataU (1, 2) ∧
    y ∈ trueEvals unitHash blobU ++ verifyEvals unitHash .sync storeU dataU (1, 2) ∧
    x ≠ y ∧ unitHash.eval x = unitHash.eval y :=
  true_bytes_collision_extraction unitHash .sync storeU dataU blobU (by decide) rfl (by decide)
    (1, 2) storeU_verifiable storeU_bad

example : ∃ x y,
    findCollision unitHash (trueEvals unitHash blobU ++ verifyEvals unitHash .sync storeU dataU (1, 2))
      = some (x, y) ∧
    x ∈ trueEvals unitHash blobU ++ verifyEvals unitHash .sync storeU dataU (1, 2) ∧
    y ∈ trueEvals unitHash blobU ++ verifyEvals unitHash .sync storeU dataU (1, 2) ∧
    x ≠ y ∧ unitHash.eval x = unitHash.eval y :=
  true_bytes_collision_search unitHash .sync storeU dataU blobU (by decide) rfl (by decide)
    (1, 2) storeU_verifiable storeU_bad

/-- … and the search indeed computes a collision: the first two inputs of the honest hashing (the
root parent input and the chunk input of chunk 0) already collide under the constant hash -/
example : (findCollision unitHash
    (trueEvals unitHash blobU ++ verifyEvals unitHash .sync storeU dataU (1, 2))).isSome = true := by
  decide +kernel

/-- the reported forms -/
theorem storeU_reported : (1, 2) ∈ (validRanges unitHash .sync storeU dataU [0]).yields := by
  decide +kernel

example : storeU.tree.size ≤ 2 ^ 63 ∧ storeU.tree.bs ≤ 10 ∧
    (1, 2) ∈ (validRanges unitHash .sync storeU dataU [0]).yields :=
  ⟨by decide, by decide, storeU_reported⟩

example : ∃ x y, x ∈ trueEvals unitHash blobU ++ verifyEvals unitHash .sync storeU dataU (1, 2) ∧
    y ∈ trueEvals unitHash blobU ++ verifyEvals unitHash .sync storeU dataU (1, 2) ∧
    x ≠ y ∧ unitHash.eval x = unitHash.eval y :=
  reported_collision_extraction unitHash .sync storeU dataU blobU (by decide) (by decide)
    (by decide) rfl (by decide) [0] (1, 2) storeU_reported storeU_bad

example : ∃ x y, findCollision unitHash
      (trueEvals unitHash blobU ++ validEvals unitHash .sync storeU dataU [0]) = some (x, y) ∧
    x ∈ trueEvals unitHash blobU ++ validEvals unitHash .sync storeU dataU [0] ∧
    y ∈ trueEvals unitHash blobU ++ validEvals unitHash .sync storeU dataU [0] ∧
    x ≠ y ∧ unitHash.eval x = unitHash.eval y :=
  run_collision_search unitHash .sync storeU dataU blobU (by decide) (by decide)
    (by decide) rfl (by decide) [0] (1, 2) storeU_reported storeU_bad

end examples

end Bao.C06Loc

/-
## Status (C06 "true bytes", local collision freedom)

All theorems depend on the axioms `propext`, `Classical.choice`, `Quot.sound` only (the `decide
+kernel` facts of the examples on `propext` only).

Definitions (`Lemmas/C06LocL.lean`, all computable, structural recursion, evaluated by the kernel in
the examples):
* `linkEvals hf ld data t F L k isRoot g` – twin of `ValidL.LinkedC … true`, same clauses
* `verifyEvals hf fl ob data g`           – twin of `ValidL.Verifiable hf fl ob data true g`:
    `blocks = 1`: `hashEvals hf 0 (data.take size) true`; otherwise the parent input
    `(lh, rh, isRoot)` of every stored pair on the walk from the shifted root to `g` (top first,
    `isRoot = true` only at the root) followed by `hashEvals` of the stored bytes of `g`
* `yieldEvals`, `recEvals`, `validEvals hf fl ob data q` – twin of `yield_if_valid`,
    `validateRec … true`, `validRanges`: everything the RUN evaluates (failed checks included; the
    right run of an `andThen` only if the left one ended `.ok`)

PROVED (full strength; every `hf`, every flavour, every store / data state; same side conditions as
`Props/C06.lean`: `d.length ≤ 2^64·1024`, `ob.root = Spec.root hf d`, `tree.size ≤ data.length`,
for the reported forms `tree.size ≤ 2^63`, `bs ≤ 10`; NOT needed: `ofBytes (toBytes h) = h`,
`tree.size = d.length`):
* `true_bytes_loc`            – conclusion of `C06.true_bytes`, hypothesis
                                `CollisionFreeOn hf (· ∈ trueEvals hf d ++ verifyEvals hf fl ob data g)`
* `reported_true_bytes_loc`   – the same for `g ∈ (validRanges hf fl ob data q).yields`
* `true_bytes_collision_extraction`, `reported_collision_extraction` – NO hash hypothesis: a
                                verifiable / reported group whose stored bytes are not the blob's
                                (or leave the blob) ⇒ `x ≠ y`, `hf.eval x = hf.eval y`, both in
                                `trueEvals hf d ++ verifyEvals hf fl ob data g`
* `true_bytes_collision_search` – `findCollision` on that list returns such a pair
* `verifyEvals_sub_run`       – for a reported `g`: `verifyEvals … g ⊆ validEvals … q`
* `reported_true_bytes_run`   – hypothesis `CollisionFreeOn hf (· ∈ trueEvals hf d ++
                                validEvals hf fl ob data q)` (no mention of `g`): EVERY reported
                                group holds true bytes
* `run_collision_extraction`, `run_collision_search` – extraction / search in
                                `trueEvals hf d ++ validEvals hf fl ob data q`
* `true_bytes_of_loc`, `reported_true_bytes_of_loc` – the statements of `C06.true_bytes`,
                                `C06.reported_true_bytes` verbatim, from the local forms by
                                `CollisionFree.on`
Lemmas (`Lemmas/C06LocL.lean`): `linked_trueLeaf_loc`, `linked_true_bytes_loc`,
`verifiable_true_bytes_loc` (any `S ⊇ trueEvals ∪ verifyEvals`), `linkEvals_dl`, `yieldRange_mem`,
`rec_evals_zero`, `rec_evals`, `verifyEvals_sub_validEvals`.

PARTIAL: none.   OPEN: none.

Non-vacuity: (a) `C06.toyHash` (free term algebra) on `C06.toyStore`; (b) `toy32` – 32-byte
hashes WITH `ofBytes (toBytes h) = h`, NOT globally collision free (`toy32_not_cf`) – on the intact
pre-order memory outboard (`Spec.preOutboard`, real 64-byte slots parsed by `parsePair`) of a
3-chunk blob at `bs = 0` (inner root, persisted leaf, half leaf) with a data file in which one byte
of chunk 1 is altered: `valid_ranges` reports `(0,1)` and `(2,3)`; `CollisionFreeOn` on the 5 + 3,
5 + 2 (per group) and 5 + 5 (whole run, the failed check of the altered chunk included) inputs by
`decide +kernel`; the conclusions are instantiated.  (c) the constant hash on an `EmptyOutboard`
over two groups "verifies" a data file of twos against a blob of ones; extraction and search
produce the collision.

Remarks
* As in C01Loc the invariant is `TrueCvL` (honest root flag), not `TrueCv`: only the flagged
  evaluations are in `trueEvals`.  The validator keeps it because `isRoot = true` is used at the
  shifted root only, and children of a verified pair are never the root interval.
* `verifyEvals` continues below a stored pair whose parent hash is NOT the owed one (the validator
  stops there).  Under `Verifiable` every check on the walk passes, so for the theorems this makes
  no difference; `validEvals` stops exactly where the run stops.
* `linkEvals` at a non-existing shifted node (`nodeOf k (L+1) ≥ F`) evaluates nothing and passes on
  to the left child, like `LinkedC` / `right_descendant`.
* Model: nothing suspicious found.  (`validRanges` with `blocks = 1` ignores the query – already
  noted in `Props/C06.lean`; `validEvals` mirrors that.)
-/
