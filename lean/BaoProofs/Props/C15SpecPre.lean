import BaoProofs.Lemmas.SpecPreL
import BaoProofs.Props.C15

/-!
# The executable specification predicate of the pre-order plans never rejects the model

The correspondence driver judges the implementation's plan with `Bao.Ops.planPreWF`
(`BaoModel/Ops1.lean`), a predicate written independently of the model:

* `opPlan  size bs ml rs` computes the model plan `(⟨size, bs⟩ : Tree).prePartialChunks rs ml` and
  the verdict `planPreWF size bs ml rs p` — both from the RAW query `rs` (no truncation);
* `opRPlan size bs rs` computes `(⟨size, bs⟩ : Tree).responseChunks rs` and the verdict
  `planPreWF size 0 bs rs p` (block size 0, minimum level `bs`), again from the raw query.

`planPreWF_model` / `planPreWF_response`: on the model's own plan the predicate answers `none`
("well formed"), for every `size ≤ 2^63`, `bs ≤ 10`, every `ml` and every well-formed
(strictly increasing) query.  The driver only evaluates the predicate when
`Spec.nChunks size ≤ 4096`; the theorems do NOT need that restriction.

The predicate is a cascade of eight clauses (`planPreWF_eq`, by `rfl`).  Section "clauses" has one
lemma per clause: each says that the Boolean clause evaluates to `true` on the model plan.  They
go through `PlanOK` (`Lemmas/SpecPreL.lean`), the `Prop`-level content of the clauses; its fields are
filled from the C15 theorems (`stack_discipline`, `root_flag`, `leaves_increasing`,
`coverage_complete`, `coverage_sound`, `leaf_groups`) and from three facts C15 does not state,
proved by new inductions over the recursive plan in `Lemmas/SpecPreL.lean`:
`plan_leaf_pos` (a leaf is empty only in the empty blob), `plan_unit` (alignment to `2^h`,
`h ≤ max bs ml`, `h < 64`), `plan_parents` (flags = which halves the selection meets; C15's
`flags` speaks about `split(ranges, node)` of the attached ranges instead, which the response plan
erases).
-/

namespace Bao.SpecPre
open Bao Bao.Ops Bao.Spec Bao.PlanPre

variable {size bs ml : Nat} {q : Ranges} {p : List Chunk}

/-! ## the model plans have the properties the clauses check -/

/-- the partial plan of the model, non-empty well-formed query -/
theorem model_planOK (hs : size ≤ 2 ^ 63) (hbs : bs ≤ 10) (hwf : Ranges.WF q = true) (hq : q ≠ [])
    (hp : Tree.prePartialChunks ⟨size, bs⟩ q ml = some p) : PlanOK size bs ml q p where
  stack := (C15.stack_discipline hs hbs hq hp).1
  root := C15.root_flag hs hbs hq hp
  spans := (C15.leaves_increasing hs hbs hp).2.1
  inBlob := (C15.leaves_increasing hs hbs hp).2.2.2
  pos := fun _ _ _ _ hm => by
    rw [C15.eq_plan hs hbs hp] at hm; exact plan_leaf_pos hs hbs hm
  spanEnd := fun s z r x hm => by
    obtain ⟨_, e', _, _, h, _⟩ := C15.leaf_groups hs hbs hp hm
    omega
  complete := fun _ hc => C15.coverage_complete hs hbs hwf hp hc
  sound := fun _ _ _ _ hm => C15.coverage_sound hs hbs hwf hp hm
  unit := fun _ _ _ _ hm => by
    rw [C15.eq_plan hs hbs hp] at hm; exact plan_unit hs hbs hwf hm
  parents := fun _ _ _ _ _ hm => by
    rw [C15.eq_plan hs hbs hp] at hm; exact plan_parents hs hbs hwf hm

example : (20000 : Nat) ≤ 2 ^ 63 ∧ (1 : Nat) ≤ 10 ∧ Ranges.WF [1, 3] = true ∧
    ([1, 3] : Ranges) ≠ [] ∧ (Tree.prePartialChunks ⟨20000, 1⟩ [1, 3] 0).isSome = true := by decide

/-- the response plan of the model, judged with block size 0 and minimum level `bs` -/
theorem response_planOK (hs : size ≤ 2 ^ 63) (hwf : Ranges.WF q = true) (hq : q ≠ [])
    (hp : Tree.responseChunks ⟨size, bs⟩ q = some p) : PlanOK size 0 bs q p := by
  rw [C15.eq_plan_response hs hp]
  exact (planOK_plan hs (by omega) hwf hq).withoutRanges

example : (20000 : Nat) ≤ 2 ^ 63 ∧ Ranges.WF [1, 3] = true ∧
    ([1, 3] : Ranges) ≠ [] ∧ (Tree.responseChunks ⟨20000, 1⟩ [1, 3]).isSome = true := by decide

/-! ## clauses, partial plan (`opPlan`) -/

/-- clause 0: an empty selection comes with an empty plan -/
theorem clause_empty (hs : size ≤ 2 ^ 63) (hbs : bs ≤ 10) (hwf : Ranges.WF q = true)
    (hp : Tree.prePartialChunks ⟨size, bs⟩ q ml = some p) (he : emptySelB size q = true) :
    p = [] := by
  have hq := (emptySelB_true_iff hwf).1 he
  subst hq
  rw [C15.pre_empty hs hbs] at hp
  exact (Option.some.inj hp).symm

example : (0 : Nat) ≤ 2 ^ 63 ∧ (0 : Nat) ≤ 10 ∧ Ranges.WF [] = true ∧
    Tree.prePartialChunks ⟨0, 0⟩ [] 0 = some [] ∧ emptySelB 0 [] = true := by decide

/-- a non-empty selection needs a non-empty query -/
theorem ne_nil_of_emptySelB_false (he : emptySelB size q = false) : q ≠ [] := by
  rintro rfl
  have : emptySelB size [] = true := emptySelB_iff.2 (Ranges.selected_nil size)
  rw [this] at he; cases he

example : emptySelB 3000 [1] = false := by decide

/-- clause 1: hash-stack discipline -/
theorem clause_stack (hs : size ≤ 2 ^ 63) (hbs : bs ≤ 10) (hq : q ≠ [])
    (hp : Tree.prePartialChunks ⟨size, bs⟩ q ml = some p) : stackEnd p = some 0 := by
  rw [stackEnd_eq]; exact (C15.stack_discipline hs hbs hq hp).1

/-- clause 2: root flag exactly on the first item -/
theorem clause_root (hs : size ≤ 2 ^ 63) (hbs : bs ≤ 10) (hq : q ≠ [])
    (hp : Tree.prePartialChunks ⟨size, bs⟩ q ml = some p) :
    rootFlags p = true :: List.replicate (p.length - 1) false :=
  rootFlags_ok (C15.root_flag hs hbs hq hp)

example : (20000 : Nat) ≤ 2 ^ 63 ∧ (1 : Nat) ≤ 10 ∧ ([1, 3] : Ranges) ≠ [] ∧
    (Tree.prePartialChunks ⟨20000, 1⟩ [1, 3] 0).isSome = true := by decide

/-- clause 3: leaves increasing and disjoint, all but the last non-empty -/
theorem clause_incr (hs : size ≤ 2 ^ 63) (hbs : bs ≤ 10) (hwf : Ranges.WF q = true) (hq : q ≠ [])
    (hp : Tree.prePartialChunks ⟨size, bs⟩ q ml = some p) :
    planPreWF.incr (leavesOf p) = true := incr_ok (model_planOK hs hbs hwf hq hp)

/-- clause 3b: leaves inside the blob, empty only in the empty blob -/
theorem clause_inBlob (hs : size ≤ 2 ^ 63) (hbs : bs ≤ 10) (hwf : Ranges.WF q = true)
    (hq : q ≠ []) (hp : Tree.prePartialChunks ⟨size, bs⟩ q ml = some p) :
    inBlobB size (leavesOf p) = true := inBlob_ok (model_planOK hs hbs hwf hq hp)

/-- clause 4a: every selected chunk is covered by a leaf -/
theorem clause_cover (hs : size ≤ 2 ^ 63) (hbs : bs ≤ 10) (hwf : Ranges.WF q = true)
    (hq : q ≠ []) (hp : Tree.prePartialChunks ⟨size, bs⟩ q ml = some p) :
    coverB size q (leavesOf p) = true := cover_ok (model_planOK hs hbs hwf hq hp)

/-- clause 4b: every leaf holds a selected chunk, is an aligned unit of at most `2^max bs ml`
chunks, and is larger than a chunk group only if it is selected completely -/
theorem clause_leafOk (hs : size ≤ 2 ^ 63) (hbs : bs ≤ 10) (hwf : Ranges.WF q = true)
    (hq : q ≠ []) (hp : Tree.prePartialChunks ⟨size, bs⟩ q ml = some p) :
    leafOkB size bs ml q (leavesOf p) = true := leafOk_ok (model_planOK hs hbs hwf hq hp)

/-- clause 5: the flags of a parent say which halves of its chunk range the selection meets, and
its mid lies inside the blob -/
theorem clause_parents (hs : size ≤ 2 ^ 63) (hbs : bs ≤ 10) (hwf : Ranges.WF q = true)
    (hq : q ≠ []) (hp : Tree.prePartialChunks ⟨size, bs⟩ q ml = some p) :
    parentsOkB size q p = true := parentsOk_ok (model_planOK hs hbs hwf hq hp)

example : (20000 : Nat) ≤ 2 ^ 63 ∧ (1 : Nat) ≤ 10 ∧ Ranges.WF [1, 3] = true ∧
    ([1, 3] : Ranges) ≠ [] ∧ (Tree.prePartialChunks ⟨20000, 1⟩ [1, 3] 2).isSome = true := by decide

/-! ## clauses, response plan (`opRPlan`: block size 0, minimum level `bs`) -/

theorem clause_empty_response (hs : size ≤ 2 ^ 63) (hwf : Ranges.WF q = true)
    (hp : Tree.responseChunks ⟨size, bs⟩ q = some p) (he : emptySelB size q = true) :
    p = [] := by
  have hq := (emptySelB_true_iff hwf).1 he
  subst hq
  rw [C15.eq_plan_response hs hp, plan_nil]; rfl

example : (0 : Nat) ≤ 2 ^ 63 ∧ Ranges.WF [] = true ∧
    Tree.responseChunks ⟨0, 0⟩ [] = some [] ∧ emptySelB 0 [] = true := by decide

theorem clause_stack_response (hs : size ≤ 2 ^ 63) (hq : q ≠ [])
    (hp : Tree.responseChunks ⟨size, bs⟩ q = some p) : stackEnd p = some 0 := by
  rw [stackEnd_eq]; exact (C15.stack_discipline_response hs hq hp).1

theorem clause_root_response (hs : size ≤ 2 ^ 63) (hq : q ≠ [])
    (hp : Tree.responseChunks ⟨size, bs⟩ q = some p) :
    rootFlags p = true :: List.replicate (p.length - 1) false :=
  rootFlags_ok (C15.root_flag_response hs hq hp)

theorem clause_incr_response (hs : size ≤ 2 ^ 63) (hwf : Ranges.WF q = true) (hq : q ≠ [])
    (hp : Tree.responseChunks ⟨size, bs⟩ q = some p) :
    planPreWF.incr (leavesOf p) = true := incr_ok (response_planOK hs hwf hq hp)

theorem clause_inBlob_response (hs : size ≤ 2 ^ 63) (hwf : Ranges.WF q = true) (hq : q ≠ [])
    (hp : Tree.responseChunks ⟨size, bs⟩ q = some p) :
    inBlobB size (leavesOf p) = true := inBlob_ok (response_planOK hs hwf hq hp)

theorem clause_cover_response (hs : size ≤ 2 ^ 63) (hwf : Ranges.WF q = true) (hq : q ≠ [])
    (hp : Tree.responseChunks ⟨size, bs⟩ q = some p) :
    coverB size q (leavesOf p) = true := cover_ok (response_planOK hs hwf hq hp)

/-- clause 4b for the response plan: a leaf is an aligned unit of at most `2^bs` chunks and is
larger than one chunk only if it is selected completely -/
theorem clause_leafOk_response (hs : size ≤ 2 ^ 63) (hwf : Ranges.WF q = true) (hq : q ≠ [])
    (hp : Tree.responseChunks ⟨size, bs⟩ q = some p) :
    leafOkB size 0 bs q (leavesOf p) = true := leafOk_ok (response_planOK hs hwf hq hp)

theorem clause_parents_response (hs : size ≤ 2 ^ 63) (hwf : Ranges.WF q = true) (hq : q ≠ [])
    (hp : Tree.responseChunks ⟨size, bs⟩ q = some p) :
    parentsOkB size q p = true := parentsOk_ok (response_planOK hs hwf hq hp)

example : (20000 : Nat) ≤ 2 ^ 63 ∧ Ranges.WF [1, 3] = true ∧ ([1, 3] : Ranges) ≠ [] ∧
    (Tree.responseChunks ⟨20000, 2⟩ [1, 3]).isSome = true := by decide

/-! ## the "no false alarm" theorems -/

/-- **`opPlan` never raises a false alarm**: the predicate accepts the model's partial plan
(computed, like the verdict, from the raw query) — for every blob size up to `2^63`, every block
size up to 10, every minimum level and every well-formed query; no bound on the number of
chunks is needed -/
theorem planPreWF_model (hs : size ≤ 2 ^ 63) (hbs : bs ≤ 10) (hwf : Ranges.WF q = true)
    (hp : Tree.prePartialChunks ⟨size, bs⟩ q ml = some p) :
    planPreWF size bs ml q p = none :=
  planPreWF_none_of_ok (clause_empty hs hbs hwf hp)
    (fun he => model_planOK hs hbs hwf (ne_nil_of_emptySelB_false he) hp)

/-- the running example of C15 passes … -/
example : (20000 : Nat) ≤ 2 ^ 63 ∧ (1 : Nat) ≤ 10 ∧ Ranges.WF [1, 3] = true ∧
    Tree.prePartialChunks ⟨20000, 1⟩ [1, 3] 0 = some
      [.parent 15 true true false [1, 3], .parent 7 false true false [1, 3],
       .parent 3 false true false [1, 3], .parent 1 false true true [1, 3],
       .leaf 0 2048 false [1], .leaf 2 2048 false [1, 3]] := by decide

example : planPreWF 20000 1 0 [1, 3]
      [.parent 15 true true false [1, 3], .parent 7 false true false [1, 3],
       .parent 3 false true false [1, 3], .parent 1 false true true [1, 3],
       .leaf 0 2048 false [1], .leaf 2 2048 false [1, 3]] = none := by decide +kernel

/-- … and the predicate is not trivially `none`: it rejects the same plan with the last leaf
dropped (hash stack), with a wrong flag (parent flags), with a shifted leaf (coverage), and a
non-empty plan for an empty query -/
example : (planPreWF 20000 1 0 [1, 3]
      [.parent 15 true true false [1, 3], .parent 7 false true false [1, 3],
       .parent 3 false true false [1, 3], .parent 1 false true true [1, 3],
       .leaf 0 2048 false [1]]).isSome = true := by decide +kernel

example : (planPreWF 20000 1 0 [1, 3]
      [.parent 15 true true false [1, 3], .parent 7 false true false [1, 3],
       .parent 3 false false true [1, 3], .parent 1 false true true [1, 3],
       .leaf 0 2048 false [1], .leaf 2 2048 false [1, 3]]).isSome = true := by decide +kernel

example : (planPreWF 20000 1 0 [1, 3]
      [.parent 15 true true false [1, 3], .parent 7 false true false [1, 3],
       .parent 3 false true false [1, 3], .parent 1 false true true [1, 3],
       .leaf 0 2048 false [1], .leaf 4 2048 false [1, 3]]).isSome = true := by decide +kernel

example : (planPreWF 20000 1 0 [] [.leaf 0 2048 true []]).isSome = true := by decide +kernel

/-- **`opRPlan` never raises a false alarm**: the predicate, called with block size 0 and minimum
level `bs` as in `opRPlan`, accepts the model's response plan -/
theorem planPreWF_response (hs : size ≤ 2 ^ 63) (hwf : Ranges.WF q = true)
    (hp : Tree.responseChunks ⟨size, bs⟩ q = some p) :
    planPreWF size 0 bs q p = none :=
  planPreWF_none_of_ok (clause_empty_response hs hwf hp)
    (fun he => response_planOK hs hwf (ne_nil_of_emptySelB_false he) hp)

example : (20000 : Nat) ≤ 2 ^ 63 ∧ Ranges.WF [1, 3] = true ∧
    Tree.responseChunks ⟨20000, 1⟩ [1, 3] = some
      [.parent 15 true true false [], .parent 7 false true false [],
       .parent 3 false true false [], .parent 1 false true true [],
       .parent 0 false false true [], .leaf 1 1024 false [],
       .parent 2 false true false [], .leaf 2 1024 false []] := by decide

example : planPreWF 20000 0 1 [1, 3]
      [.parent 15 true true false [], .parent 7 false true false [],
       .parent 3 false true false [], .parent 1 false true true [],
       .parent 0 false false true [], .leaf 1 1024 false [],
       .parent 2 false true false [], .leaf 2 1024 false []] = none := by decide +kernel

/-- the response predicate rejects a group leaf that is not selected completely (the partial plan
of block size 1 is not a response plan) -/
example : (planPreWF 20000 0 1 [1, 3]
      [.parent 15 true true false [], .parent 7 false true false [],
       .parent 3 false true false [], .parent 1 false true true [],
       .leaf 0 2048 false [], .leaf 2 2048 false []]).isSome = true := by decide +kernel

/-! ## the verdict expressions of the driver -/

/-- the `specFail` expression of `opPlan` on the model's own plan -/
theorem opPlan_verdict (hs : size ≤ 2 ^ 63) (hbs : bs ≤ 10) (hwf : Ranges.WF q = true)
    (hp : Tree.prePartialChunks ⟨size, bs⟩ q ml = some p) :
    (if Spec.nChunks size > 4096 then none else planPreWF size bs ml q p) = none := by
  split
  · rfl
  · exact planPreWF_model hs hbs hwf hp

/-- the `specFail` expression of `opRPlan` on the model's own plan -/
theorem opRPlan_verdict (hs : size ≤ 2 ^ 63) (hwf : Ranges.WF q = true)
    (hp : Tree.responseChunks ⟨size, bs⟩ q = some p) :
    (if Spec.nChunks size > 4096 then none else planPreWF size 0 bs q p) = none := by
  split
  · rfl
  · exact planPreWF_response hs hwf hp

example : (20000 : Nat) ≤ 2 ^ 63 ∧ (1 : Nat) ≤ 10 ∧ Ranges.WF [1, 3] = true ∧
    (Tree.prePartialChunks ⟨20000, 1⟩ [1, 3] 0).isSome = true ∧
    (Tree.responseChunks ⟨20000, 1⟩ [1, 3]).isSome = true := by decide

/-- the hypothesis `Ranges.WF q` cannot be dropped: for the unsorted boundary list `[3, 1]` on a
3000 byte blob the model yields a plan while `Spec.selected` selects nothing, and the predicate
answers "empty selection but non-empty plan" (no Rust `ChunkRanges` value has such a boundary
list) -/
example : Ranges.WF [3, 1] = false ∧
    (Tree.prePartialChunks ⟨3000, 0⟩ [3, 1] 0).isSome = true ∧
    ((Tree.prePartialChunks ⟨3000, 0⟩ [3, 1] 0).bind (planPreWF 3000 0 0 [3, 1])).isSome = true := by
  decide +kernel

/-
## Status (`Props/C15SpecPre.lean`, lemmas in `Lemmas/SpecPreL.lean`)

All theorems depend on the axioms `propext`, `Classical.choice`, `Quot.sound` only.

Which query: `opPlan` / `opRPlan` compute BOTH the model plan and the verdict from the raw
(untruncated) query; the theorems are stated for exactly that.  They hold for every
`size ≤ 2^63`, `bs ≤ 10` (partial plan; none for the response plan), every `ml`, every
well-formed `q`, WITHOUT the driver's guard `Spec.nChunks size ≤ 4096`.

Proved (full strength):
  planPreWF_model      `prePartialChunks q ml = some p → planPreWF size bs ml q p = none`
  planPreWF_response   `responseChunks q = some p → planPreWF size 0 bs q p = none`
  opPlan_verdict, opRPlan_verdict   the guarded `specFail` expressions of the driver are `none`
  model_planOK, response_planOK     the `Prop`-level content of all clauses (`PlanOK`)
  clause lemmas (partial plan / `_response`), one per clause of the predicate:
    clause_empty      (0)  empty selection ⇒ empty plan            [C15.pre_empty]
    clause_stack      (1)  hash stack ends at 0, no underflow      [C15.stack_discipline]
    clause_root       (2)  root flag exactly on the first item     [C15.root_flag]
    clause_incr       (3)  leaves increasing / disjoint / non-empty [C15.leaves_increasing,
                           C15.leaf_groups + new `leaf_pos`]
    clause_inBlob     (3b) leaves inside the blob                  [C15.leaves_increasing + `leaf_pos`]
    clause_cover      (4a) every selected chunk covered            [C15.coverage_complete]
    clause_leafOk     (4b) leaf touched by the selection, aligned unit ≤ 2^max bs ml, bigger than
                           a group only if fully selected          [C15.coverage_sound,
                           coverage_full_leaf (via plan_all_leaf_selected) + new `leaf_height`]
    clause_parents    (5)  flags = halves met by the selection, mid inside the blob
                           [new `parent_meet_aux`; C15.flags only speaks about the split of the
                           attached ranges]
  ne_nil_of_emptySelB_false
Partial: none.  OPEN: none.

Remarks.
* `Ranges.WF q` is necessary (counterexample above: `q = [3, 1]`, size 3000).
* No false alarm was found by brute force either (19 sizes × bs ≤ 3 × 7 values of ml × 455
  queries, and the same for the response plan).
* `omega` runs into "maximum recursion depth" on goals of the shape `x * 1024 < 2 ^ 63`
  (Lean 4.33); `level_small` avoids it with `Nat.lt_of_le_of_lt`.
-/

end Bao.SpecPre
