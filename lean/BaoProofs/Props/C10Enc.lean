import BaoProofs.Lemmas.EncFaultL

/-!
# C10 (encoders): io failures in `encode_ranges` / `encode_ranges_validated`

"If the k-th operation on any underlying reader, writer, data source or outboard fails, the public
operation using it reports that failure - the io error itself, or for a connection reset while
writing the write-failed error naming the item - never a panic, success or hash mismatch, and it
performs no further operation on the failed object.  Whatever was emitted or stored before the
failure is a prefix of what the fault-free run emits or stores."

This file treats the encoders.  `encodeRangesF hf fl validate data ob q fault` is the model of
`encode_ranges_validated` (`validate = true`) / `encode_ranges` (`false`), flavour `fl` (sync / fsm),
with the fault `fault = some ⟨obj, k, kind⟩`: the `k`-th call (0-based) on `obj` (`.ob`: `load` on
the outboard, `.data`: positional read on the data source, `.w`: write to the output stream) fails
with an io error of kind `kind`.  All statements are for every hash instance `hf`, flavour,
`validate`, data, outboard `ob` (intact or not), query `q`.

Vocabulary (`BaoProofs/Lemmas/EncFaultL.lean`):
* `EncEv` – one io call with its arguments: `.ob node`, `.data start size`,
  `.w isParent label bytes` (the item being written: node of a parent / start chunk of a leaf);
  `EncEv.obj` – the object it is made on; `outOf evs` – the bytes written by a list of calls;
* `encRunL … fault : List EncEv × EncRun` – the instrumented twin of `encodeRangesF`: the same
  code, also returning the calls it makes (a failing call is logged and is the last one);
  `encEventsF … fault` – its log; `encEvents …` – the log of the fault-free run;
  `encLog … : List EncObj` – the objects of the fault-free log;
* `replayT fl fault log t out nd no nw` – replay a log against a fault with the counters
  `nd no nw` = calls made so far on data / outboard / writer; `evErr fl err e` – the error reported
  when call `e` fails with `err`; `paired log` – the log consists of `load n, write parent n` and
  `read s, write leaf s` pairs, possibly ending with a lone `load` / `read`.
-/

namespace Bao.C10

open Bao Bao.EncFaultL

variable {H : Type}

/-! ## example: a 1500-byte blob under a hash that accepts everything -/

/-- a hash instance under which every outboard is valid (all hashes are 0) -/
def encTriv : HashFns Nat := ⟨fun _ _ _ => 0, fun _ _ _ => 0, fun _ => 0, fun _ => List.replicate 32 7⟩

/-- in-memory pre-order outboard of a 1500-byte blob (one parent) -/
def encOb0 : Store Nat := ⟨.preMem, 0, ⟨1500, 0⟩, List.replicate 64 0⟩

def encData0 : List UInt8 := List.replicate 1500 1

/-- the fault-free run: load, write parent, (read, write leaf) twice; `ok` -/
example : encLog encTriv .fsm true encData0 encOb0 [0] = [.ob, .w, .data, .w, .data, .w] ∧
    (encodeRangesF encTriv .fsm true encData0 encOb0 [0] none).terminal = .ok ∧
    (encodeRangesF encTriv .fsm true encData0 encOb0 [0] none).out.length = 1564 := by
  decide +kernel

/-! ## 1. no fault: the fault-aware encoder is the encoder -/

theorem encF_none_validated (hf : HashFns H) [BEq H] (fl : Flavour) (data : List UInt8)
    (ob : Store H) (q : Ranges) :
    encodeRangesF hf fl true data ob q none = encodeRangesValidated hf fl data ob q := by
  unfold encodeRangesF encodeRangesValidated
  simp only [Bool.true_and]
  by_cases h : (fl == .sync && q.isEmpty) = true
  · simp only [if_pos h]
  · simp only [if_neg h]
    cases ob.tree.prePartialChunks (Ranges.truncate q ob.tree.size) 0 with
    | none => rfl
    | some plan => exact loopF_none_validated ..

theorem encF_none_plain (hf : HashFns H) [BEq H] (fl : Flavour) (data : List UInt8)
    (ob : Store H) (q : Ranges) :
    encodeRangesF hf fl false data ob q none = encodeRanges hf fl data ob q := by
  unfold encodeRangesF encodeRanges
  simp only [Bool.false_and, Bool.false_eq_true, if_false]
  cases ob.tree.prePartialChunks (Ranges.truncate q ob.tree.size) 0 with
  | none => rfl
  | some plan => exact loopF_none_plain ..

/-- with no fault the fault-aware encoder IS the encoder (same `out`, same terminal) -/
theorem encF_none (hf : HashFns H) [BEq H] (fl : Flavour) (data : List UInt8) (ob : Store H)
    (q : Ranges) :
    encodeRangesF hf fl true data ob q none = encodeRangesValidated hf fl data ob q ∧
    encodeRangesF hf fl false data ob q none = encodeRanges hf fl data ob q :=
  ⟨encF_none_validated .., encF_none_plain ..⟩

/-! ## 2. the instrumented call log -/

/-- the instrumented twin runs the model: its run component is `encodeRangesF` (so `encEventsF`
is the call log of `encodeRangesF … fault` and `encEvents` that of the fault-free run) -/
theorem encLog_twin (hf : HashFns H) [BEq H] (fl : Flavour) (validate : Bool) (data : List UInt8)
    (ob : Store H) (q : Ranges) (fault : Option EncFault) :
    (encRunL hf fl validate data ob q fault).2 = encodeRangesF hf fl validate data ob q fault :=
  encRunL_run ..

/-- the fault-free run performs every call of its log: its output is exactly what the writes of
the log wrote -/
theorem encLog_sound (hf : HashFns H) [BEq H] (fl : Flavour) (validate : Bool) (data : List UInt8)
    (ob : Store H) (q : Ranges) :
    encEventsF hf fl validate data ob q none = encEvents hf fl validate data ob q ∧
    (encodeRangesF hf fl validate data ob q none).out = outOf (encEvents hf fl validate data ob q) := by
  refine ⟨rfl, ?_⟩
  rw [← encRunL_run, encRunL_none]

/-- the log is consistent with the loop counters: every run - faulty or not - is the replay of the
fault-free log in which the counters `nd no nw` of `encodeLoopF` start at 0 and go up by one at
each `.data` / `.ob` / `.w` entry, and the first entry whose counter is hit by the fault fails -/
theorem encLog_counters (hf : HashFns H) [BEq H] (fl : Flavour) (validate : Bool)
    (data : List UInt8) (ob : Store H) (q : Ranges) (fault : Option EncFault) :
    (encEventsF hf fl validate data ob q fault, encodeRangesF hf fl validate data ob q fault) =
      replayT fl fault (encEvents hf fl validate data ob q)
        (encodeRangesF hf fl validate data ob q none).terminal [] 0 0 0 := by
  rw [← encRunL_replay, ← encRunL_run]; rfl

/-- shape of every log: `load n, write parent n` and `read s, write leaf s` pairs, possibly ending
with a lone `load` / `read` -/
theorem encLog_paired (hf : HashFns H) [BEq H] (fl : Flavour) (validate : Bool) (data : List UInt8)
    (ob : Store H) (q : Ranges) (fault : Option EncFault) :
    paired (encEventsF hf fl validate data ob q fault) = true :=
  encRunL_paired ..

/-- the item named by a write call is the item fetched by the call just before it: the node of the
`load`, resp. the start chunk of the `read` -/
theorem encLog_write_item (hf : HashFns H) [BEq H] (fl : Flavour) (validate : Bool)
    (data : List UInt8) (ob : Store H) (q : Ranges) (fault : Option EncFault)
    (pre post : List EncEv) (p : Bool) (l : Nat) (b : List UInt8)
    (h : encEventsF hf fl validate data ob q fault = pre ++ .w p l b :: post) :
    ∃ pre', (p = true ∧ pre = pre' ++ [.ob l]) ∨
      (p = false ∧ ∃ size, pre = pre' ++ [.data l size]) :=
  paired_before_w (h ▸ encLog_paired hf fl validate data ob q fault)

/-- the log of the example, split at its second write -/
example : encEventsF encTriv .fsm true encData0 encOb0 [0] none =
    [.ob 0, .w true 0 (List.replicate 64 7), .data 0 1024] ++
      .w false 0 (List.replicate 1024 1) :: [.data 1 476, .w false 1 (List.replicate 476 1)] := by
  decide +kernel

/-! ## 3. the faulty run is the fault-free run cut at the failing call -/

/-- the fault is reached (the fault-free log has a `(k+1)`-th call on `obj`): the log splits as
`pre ++ e :: post` with `e` the `k`-th call on `obj`; the faulty run made exactly the calls
`pre ++ [e]` (no further call on any object), wrote exactly what the writes of `pre` wrote, and
reports the failure of `e` -/
theorem encF_cut (hf : HashFns H) [BEq H] (fl : Flavour) (validate : Bool) (data : List UInt8)
    (ob : Store H) (q : Ranges) (obj : EncObj) (k : Nat) (kind : IoKind)
    (hk : k < (encLog hf fl validate data ob q).count obj) :
    ∃ pre e post, encEvents hf fl validate data ob q = pre ++ e :: post ∧ e.obj = obj ∧
      (pre.map EncEv.obj).count obj = k ∧
      encodeRangesF hf fl validate data ob q (some ⟨obj, k, kind⟩) =
        ⟨outOf pre, .err (evErr fl ⟨kind, true⟩ e)⟩ ∧
      encEventsF hf fl validate data ob q (some ⟨obj, k, kind⟩) = pre ++ [e] := by
  have hn : ¬ ncalls obj (encEvents hf fl validate data ob q) ≤ k := by
    rw [ncalls_eq_count]; exact Nat.not_le.mpr hk
  cases hs : splitCall obj k (encEvents hf fl validate data ob q) with
  | none => exact absurd (splitCall_none.mp hs) hn
  | some p =>
    obtain ⟨pre, e, post⟩ := p
    obtain ⟨h1, h2, h3⟩ := splitCall_some hs
    have hr := encRunL_some hf fl validate data ob q obj k kind
    rw [hs] at hr
    refine ⟨pre, e, post, h1, h2, by rw [← ncalls_eq_count]; exact h3, ?_, ?_⟩
    · rw [← encRunL_run, hr]
    · unfold encEventsF; rw [hr]

/-- the decomposition in `encF_cut` is unique -/
theorem encF_cut_unique (obj : EncObj) (k : Nat) (log : List EncEv)
    (pre pre' post post' : List EncEv) (e e' : EncEv)
    (h : log = pre ++ e :: post) (he : e.obj = obj) (hc : (pre.map EncEv.obj).count obj = k)
    (h' : log = pre' ++ e' :: post') (he' : e'.obj = obj)
    (hc' : (pre'.map EncEv.obj).count obj = k) :
    pre = pre' ∧ e = e' ∧ post = post' := by
  have h1 := splitCall_of_decomp (post := post) he ((ncalls_eq_count obj pre).trans hc)
  have h2 := splitCall_of_decomp (post := post') he' ((ncalls_eq_count obj pre').trans hc')
  rw [← h] at h1
  rw [← h', h1] at h2
  simpa using h2

/-- a failing `load` or positional read is reported as the io error itself -/
theorem encF_cut_io (hf : HashFns H) [BEq H] (fl : Flavour) (validate : Bool) (data : List UInt8)
    (ob : Store H) (q : Ranges) (obj : EncObj) (k : Nat) (kind : IoKind) (ho : obj ≠ .w)
    (hk : k < (encLog hf fl validate data ob q).count obj) :
    (encodeRangesF hf fl validate data ob q (some ⟨obj, k, kind⟩)).terminal =
      .err (.io ⟨kind, true⟩) := by
  obtain ⟨pre, e, post, _, h2, _, h4, _⟩ := encF_cut hf fl validate data ob q obj k kind hk
  rw [h4, evErr_not_w fl _ (h2 ▸ ho)]

/-- a failing write is reported as `writeErr` of the item being written: the `k`-th write call
`.w isParent label bytes` of the log, which follows the `load` of node `label` (parent) / the read
of chunk `label` (leaf) -/
theorem encF_cut_w (hf : HashFns H) [BEq H] (fl : Flavour) (validate : Bool) (data : List UInt8)
    (ob : Store H) (q : Ranges) (k : Nat) (kind : IoKind)
    (hk : k < (encLog hf fl validate data ob q).count .w) :
    ∃ pre isParent label bytes post,
      encEvents hf fl validate data ob q = pre ++ .w isParent label bytes :: post ∧
      (pre.map EncEv.obj).count .w = k ∧
      (∃ pre', (isParent = true ∧ pre = pre' ++ [.ob label]) ∨
        (isParent = false ∧ ∃ size, pre = pre' ++ [.data label size])) ∧
      encodeRangesF hf fl validate data ob q (some ⟨.w, k, kind⟩) =
        ⟨outOf pre, .err (writeErr fl ⟨kind, true⟩ isParent label)⟩ ∧
      encEventsF hf fl validate data ob q (some ⟨.w, k, kind⟩) =
        pre ++ [.w isParent label bytes] := by
  obtain ⟨pre, e, post, h1, h2, h3, h4, h5⟩ := encF_cut hf fl validate data ob q .w k kind hk
  cases e with
  | ob n => cases h2
  | data s z => cases h2
  | w p l b =>
    exact ⟨pre, p, l, b, post, h1, h3,
      encLog_write_item hf fl validate data ob q none pre post p l b h1, h4, h5⟩

/-- the fault is not reached (the fault-free log has at most `k` calls on `obj`, e.g. because the
run ends earlier with a hash mismatch or an error of its own): same run, same calls -/
theorem encF_unreached (hf : HashFns H) [BEq H] (fl : Flavour) (validate : Bool)
    (data : List UInt8) (ob : Store H) (q : Ranges) (obj : EncObj) (k : Nat) (kind : IoKind)
    (hk : (encLog hf fl validate data ob q).count obj ≤ k) :
    encodeRangesF hf fl validate data ob q (some ⟨obj, k, kind⟩) =
      encodeRangesF hf fl validate data ob q none ∧
    encEventsF hf fl validate data ob q (some ⟨obj, k, kind⟩) =
      encEvents hf fl validate data ob q := by
  have hs : splitCall obj k (encEvents hf fl validate data ob q) = none :=
    splitCall_none.mpr (by rw [ncalls_eq_count]; exact hk)
  have hr := encRunL_some hf fl validate data ob q obj k kind
  rw [hs] at hr
  refine ⟨?_, ?_⟩
  · rw [← encRunL_run, ← encRunL_run, hr]
  · unfold encEventsF encEvents; rw [hr]

example : (1 : Nat) < (encLog encTriv .fsm true encData0 encOb0 [0]).count .w ∧
    (0 : Nat) < (encLog encTriv .fsm true encData0 encOb0 [0]).count .ob ∧ EncObj.ob ≠ .w ∧
    (encLog encTriv .fsm true encData0 encOb0 [0]).count .data ≤ 2 := by decide +kernel

/-- the example: the second write (leaf 0) fails with a connection reset: `LeafWrite(0)`, only the
parent pair was written, the calls were load, write, read, write -/
example : encodeRangesF encTriv .fsm true encData0 encOb0 [0] (some ⟨.w, 1, .connectionReset⟩) =
      ⟨List.replicate 64 7, .err (.leafWrite 0)⟩ ∧
    (encEventsF encTriv .fsm true encData0 encOb0 [0] (some ⟨.w, 1, .connectionReset⟩)).map EncEv.obj =
      [.ob, .w, .data, .w] := by decide +kernel

/-! ## 4./5. any fault: prefix, no panic, never success or mismatch -/

/-- for every fault: either the run stopped at a call `e` of the fault-free log (it made the calls
up to and including `e`, wrote what the writes before `e` wrote and reports the failure of `e`), or
it is the fault-free run -/
theorem encF_dichotomy (hf : HashFns H) [BEq H] (fl : Flavour) (validate : Bool)
    (data : List UInt8) (ob : Store H) (q : Ranges) (fault : Option EncFault) :
    (∃ obj k kind pre e post, fault = some ⟨obj, k, kind⟩ ∧
      encEvents hf fl validate data ob q = pre ++ e :: post ∧ e.obj = obj ∧
      encodeRangesF hf fl validate data ob q fault =
        ⟨outOf pre, .err (evErr fl ⟨kind, true⟩ e)⟩ ∧
      encEventsF hf fl validate data ob q fault = pre ++ [e]) ∨
    (encodeRangesF hf fl validate data ob q fault = encodeRangesF hf fl validate data ob q none ∧
      encEventsF hf fl validate data ob q fault = encEvents hf fl validate data ob q) := by
  cases fault with
  | none => exact Or.inr ⟨rfl, rfl⟩
  | some f =>
    obtain ⟨obj, k, kind⟩ := f
    by_cases hk : k < (encLog hf fl validate data ob q).count obj
    · obtain ⟨pre, e, post, h1, h2, _, h4, h5⟩ := encF_cut hf fl validate data ob q obj k kind hk
      exact Or.inl ⟨obj, k, kind, pre, e, post, rfl, h1, h2, h4, h5⟩
    · exact Or.inr (encF_unreached hf fl validate data ob q obj k kind (Nat.le_of_not_lt hk))

/-- what a faulty run emitted is a prefix of what the fault-free run emits, and the calls it made
are a prefix of the fault-free calls -/
theorem encF_prefix (hf : HashFns H) [BEq H] (fl : Flavour) (validate : Bool) (data : List UInt8)
    (ob : Store H) (q : Ranges) (fault : Option EncFault) :
    (encodeRangesF hf fl validate data ob q fault).out <+:
      (encodeRangesF hf fl validate data ob q none).out ∧
    encEventsF hf fl validate data ob q fault <+: encEvents hf fl validate data ob q := by
  rcases encF_dichotomy hf fl validate data ob q fault with
    ⟨obj, k, kind, pre, e, post, _, h1, _, h4, h5⟩ | ⟨h, h'⟩
  · rw [(encLog_sound hf fl validate data ob q).2, h4, h5, h1]
    refine ⟨?_, ⟨post, by simp⟩⟩
    rw [outOf_append]
    exact List.prefix_append _ _
  · rw [h, h']
    exact ⟨List.prefix_refl _, List.prefix_refl _⟩

/-- an injected fault is reported as the io error or as a write-failed error -/
theorem encF_terminal (hf : HashFns H) [BEq H] (fl : Flavour) (validate : Bool) (data : List UInt8)
    (ob : Store H) (q : Ranges) (obj : EncObj) (k : Nat) (kind : IoKind)
    (hk : k < (encLog hf fl validate data ob q).count obj) :
    (encodeRangesF hf fl validate data ob q (some ⟨obj, k, kind⟩)).terminal =
        .err (.io ⟨kind, true⟩) ∨
    (∃ n, (encodeRangesF hf fl validate data ob q (some ⟨obj, k, kind⟩)).terminal =
        .err (.parentWrite n)) ∨
    (∃ n, (encodeRangesF hf fl validate data ob q (some ⟨obj, k, kind⟩)).terminal =
        .err (.leafWrite n)) := by
  obtain ⟨pre, e, post, _, _, _, h4, _⟩ := encF_cut hf fl validate data ob q obj k kind hk
  rw [h4]
  rcases evErr_cases fl ⟨kind, true⟩ e with h | ⟨n, h⟩ | ⟨n, h⟩
  · exact Or.inl (by rw [h])
  · exact Or.inr (Or.inl ⟨n, by rw [h]⟩)
  · exact Or.inr (Or.inr ⟨n, by rw [h]⟩)

/-- when the fault is reached the run never reports success, a hash mismatch or a panic -/
theorem encF_never_ok_or_mismatch (hf : HashFns H) [BEq H] (fl : Flavour) (validate : Bool)
    (data : List UInt8) (ob : Store H) (q : Ranges) (obj : EncObj) (k : Nat) (kind : IoKind)
    (hk : k < (encLog hf fl validate data ob q).count obj) :
    (encodeRangesF hf fl validate data ob q (some ⟨obj, k, kind⟩)).terminal ≠ .ok ∧
    (encodeRangesF hf fl validate data ob q (some ⟨obj, k, kind⟩)).terminal ≠ .panic ∧
    (∀ n, (encodeRangesF hf fl validate data ob q (some ⟨obj, k, kind⟩)).terminal ≠
      .err (.parentHashMismatch n)) ∧
    (∀ n, (encodeRangesF hf fl validate data ob q (some ⟨obj, k, kind⟩)).terminal ≠
      .err (.leafHashMismatch n)) ∧
    (encodeRangesF hf fl validate data ob q (some ⟨obj, k, kind⟩)).terminal ≠
      .err .sizeMismatch := by
  rcases encF_terminal hf fl validate data ob q obj k kind hk with h | ⟨n, h⟩ | ⟨n, h⟩ <;>
    rw [h] <;> refine ⟨?_, ?_, ?_, ?_, ?_⟩ <;> intros <;> intro hc <;> cases hc

/-- no fault turns into a panic: if the fault-free run does not panic, no faulty run does -/
theorem encF_no_panic (hf : HashFns H) [BEq H] (fl : Flavour) (validate : Bool) (data : List UInt8)
    (ob : Store H) (q : Ranges) (fault : Option EncFault)
    (h : (encodeRangesF hf fl validate data ob q none).terminal ≠ .panic) :
    (encodeRangesF hf fl validate data ob q fault).terminal ≠ .panic := by
  rcases encF_dichotomy hf fl validate data ob q fault with
    ⟨obj, k, kind, pre, e, post, _, _, _, h4, _⟩ | ⟨h', _⟩
  · rw [h4]; intro hc; cases hc
  · rw [h']; exact h

example : (encodeRangesF encTriv .fsm true encData0 encOb0 [0] none).terminal ≠ .panic := by
  decide +kernel

/-! ## 6. the error of a failed write -/

/-- `sync`: the io error itself (`?`); `fsm`: `maybe_parent_write` / `maybe_leaf_write` - a
connection reset becomes `ParentWrite(node)` / `LeafWrite(chunk)`, any other kind stays `Io` -/
theorem writeErr_spec (e : IoErr) (isParent : Bool) (n : Nat) :
    writeErr .sync e isParent n = .io e ∧
    (e.kind = .connectionReset →
      writeErr .fsm e true n = .parentWrite n ∧ writeErr .fsm e false n = .leafWrite n) ∧
    (e.kind ≠ .connectionReset → writeErr .fsm e isParent n = .io e) :=
  ⟨rfl, writeErr_fsm_reset e n, writeErr_fsm_other e isParent n⟩

example : (⟨.connectionReset, true⟩ : IoErr).kind = .connectionReset ∧
    (⟨.other, true⟩ : IoErr).kind ≠ .connectionReset := by decide

/-!
## Status (C10, encoders `encodeRangesF`: `encode_ranges_validated` / `encode_ranges`, sync / fsm)

PROVED, for every `hf`, flavour, `validate`, data, outboard, query:
* `encF_none_validated`, `encF_none_plain`, `encF_none` – without a fault `encodeRangesF` is
  `encodeRangesValidated` / `encodeRanges` (same `out`, same terminal);
* `encLog_twin` (the instrumented twin `encRunL` runs `encodeRangesF`), `encLog_sound` (fault-free
  `out` = bytes of the logged writes), `encLog_counters` (every run is the replay `replayT` of the
  fault-free log: counters `nd no nw` = numbers of `.data` / `.ob` / `.w` entries so far),
  `encLog_paired`, `encLog_write_item` (a write names the item fetched by the call before it);
* `encF_cut` (fault reached, `k < count obj log`: log = `pre ++ e :: post`, `e` the `k`-th call on
  `obj`; run = `⟨outOf pre, .err (evErr fl ⟨kind, true⟩ e)⟩`; own log = `pre ++ [e]`),
  `encF_cut_unique`, `encF_cut_io` (`obj ≠ .w`: terminal `.err (.io ⟨kind, true⟩)`),
  `encF_cut_w` (`obj = .w`: terminal `.err (writeErr fl ⟨kind, true⟩ isParent label)` of the item
  being written), `encF_unreached` (`count obj log ≤ k`: same run, same log);
* `encF_dichotomy`, `encF_prefix` (`out` and call log are prefixes of the fault-free ones, any
  fault), `encF_terminal`, `encF_never_ok_or_mismatch`, `encF_no_panic`;
* `writeErr_spec`.

PARTIAL: none.   OPEN: none.

"no further operation on the failed object": the own log of the faulty run is `pre ++ [e]`, the
failing call is its last entry, so there is no later call on any object.

model remarks:
* granularity: a call is one `load` / `read_exact_at` / `write_all`; a zero-length read or write
  (the single leaf of the empty blob, or a leaf whose selected encoding is empty) is counted and can
  be hit by a fault, although `write_all(&[])` / `read_exact_at(_, &mut [])` of the Rust standard
  traits make no call on the underlying object.
* a `load` that fails by itself, returns `None` (panic) or is followed by a mismatch is logged as a
  call; a fault pointing at it reports the injected error instead (`encF_cut`).
* validated leaf with an empty stack panics before the read (`stack.pop().unwrap()` comes first in
  the Rust code as well): no `.data` entry is logged.
-/

end Bao.C10
