import BaoProofs.Lemmas.CopyL
import BaoProofs.Props.C03

/-!
# C12 (copy / flip) — converting or copying an outboard loses and invents nothing

"… Consequently converting an outboard between pre- and post-order, or copying it, loses and invents
nothing."

`copy hf fl src dst` (`sync::copy` / `fsm::copy`) walks the pre-order node iterator of the SOURCE
tree, `load`s each node from `src` and, if it got `some pair`, `save`s it to `dst`;
`flip hf s` (`PostOrderMemOutboard::flip` / `PreOrderMemOutboard::flip`) is a `sync` copy into a
zero-filled memory outboard of the other order with the same root and tree.

Vocabulary (definitions in `BaoProofs/Lemmas/CopyL.lean`, `BaoProofs/Lemmas/WriteAtL.lean`):
* `blockAt data i  = (data.drop (i * 64)).take 64`            – the `i`-th 64-byte record of a backing;
* `recordOf s x    = match s.slot x with | some i => blockAt s.data i | none => []`
                                                              – the record of node `x` in store `s`;
* `plist k size bs = persistedPost size bs` for `k = postIo / postMem`, `persistedPre size bs` otherwise
                                                              – the persisted nodes in the layout order of kind `k`
                                                                (`layout_slots`: `s.slot (plist s.kind ..)[i] = some i`);
* `reenc hf b      = toBytes (ofBytes (b.take 32)) ++ toBytes (ofBytes ((b.drop 32).take 32))`
                                                              – what parse + serialise does to a record;
* `flipKind k      = preMem` for `k = postMem / postIo`, `postMem` otherwise.

Hypotheses on the hash representation: `hlen` (a hash is 32 bytes) everywhere; the byte round trip
`hbt : toBytes (ofBytes b) = b` for 32-byte `b` where the copy has to be verbatim (true of the real
instance `ofBytes = toBytes = id`; without it a copy re-encodes what it parsed: `copy_general`).
-/

namespace Bao.C12

open Bao Bao.Spec Bao.WriteAtL Bao.CopyL

/-- hypotheses on the source and the target of a `copy`: same tree `⟨size, bs⟩`; the source is a
pre/post store (memory or io) whose backing holds at least `outboardSize` bytes; the target is a
memory store of exactly `outboardSize` bytes or an io store with any backing of at most
`outboardSize` bytes (`writeAt` zero-extends) -/
structure CopyPre {H : Type} (src dst : Store H) (size bs : Nat) : Prop where
  size_le : size ≤ 2 ^ 63
  bs_le : bs ≤ 10
  src_tree : src.tree = ⟨size, bs⟩
  dst_tree : dst.tree = ⟨size, bs⟩
  src_kind : src.kind ≠ .empty
  src_len : Tree.outboardSize ⟨size, bs⟩ ≤ src.data.length
  dst_ok : ((dst.kind = .preMem ∨ dst.kind = .postMem) ∧
              dst.data.length = Tree.outboardSize ⟨size, bs⟩) ∨
           ((dst.kind = .preIo ∨ dst.kind = .postIo) ∧
              dst.data.length ≤ Tree.outboardSize ⟨size, bs⟩)

/-! ## a hash instance with the byte round trip (for the non-vacuity examples) -/

/-- a hash is a byte string, serialised by padding / cutting to 32 bytes -/
def byteHash : HashFns (List UInt8) where
  chunkCv := fun c b r => UInt8.ofNat c :: (if r then 1 else 0) :: b.take 8
  parentCv := fun l r f => (if f then 1 else 0) :: (l.take 8 ++ r.take 8)
  ofBytes := fun b => b
  toBytes := fun h => (h ++ List.replicate 32 0).take 32

theorem byte_len : ∀ h, (byteHash.toBytes h).length = 32 := by
  intro h
  simp only [byteHash, List.length_take, List.length_append, List.length_replicate]
  omega

theorem byte_bt : ∀ b : List UInt8, b.length = 32 → byteHash.toBytes (byteHash.ofBytes b) = b :=
  fun _ hb => List.take_left' hb

/-- 3000 bytes at `bs = 1`: two chunk groups, one persisted node, `outboardSize = 64` -/
def exSrc : Store (List UInt8) := ⟨.postIo, [1], ⟨3000, 1⟩, List.replicate 70 7⟩
def exDst : Store (List UInt8) := ⟨.preMem, [2], ⟨3000, 1⟩, List.replicate 64 9⟩
def exDstIo : Store (List UInt8) := ⟨.postIo, [2], ⟨3000, 1⟩, [5, 5, 5]⟩

theorem ex_pre : CopyPre exSrc exDst 3000 1 :=
  ⟨by decide, by decide, rfl, rfl, by decide, by decide, .inl ⟨.inl rfl, by decide⟩⟩

theorem ex_pre_io : CopyPre exSrc exDstIo 3000 1 :=
  ⟨by decide, by decide, rfl, rfl, by decide, by decide, .inr ⟨.inr rfl, by decide⟩⟩

/-! ## 0. the layout of a store -/

/-- the slot function of a pre/post store (memory or io) maps the persisted nodes, listed in the
store's own order, to `0, 1, …, blocks-2`; that list is a permutation of `persistedPre` -/
theorem layout_slots {H : Type} (s : Store H) (size bs : Nat) (hs : size ≤ 2 ^ 63) (hbs : bs ≤ 10)
    (hk : s.kind ≠ .empty) (ht : s.tree = ⟨size, bs⟩) :
    (plist s.kind size bs).Perm (persistedPre size bs) ∧
    (plist s.kind size bs).length = Tree.blocks ⟨size, bs⟩ - 1 ∧
    ∀ i (h : i < (plist s.kind size bs).length), s.slot (plist s.kind size bs)[i] = some i :=
  ⟨plist_perm _ _ _ hs, plist_length _ _ _ hs hbs, slot_plist s hk size bs hs hbs ht⟩

example : ∀ i (h : i < (plist exSrc.kind 3000 1).length),
    exSrc.slot (plist exSrc.kind 3000 1)[i] = some i :=
  (layout_slots exSrc 3000 1 (by decide) (by decide) (by decide) rfl).2.2

/-! ## 1. `copy` -/

/-- `copy` without any round-trip hypothesis: it succeeds, touches neither kind, root nor tree, and
the target's backing becomes exactly the concatenation, in the TARGET's order, of the re-encoded
source records of the persisted nodes (every stale / missing byte of the target is overwritten) -/
theorem copy_general {H : Type} (hf : HashFns H) (hlen : ∀ h, (hf.toBytes h).length = 32)
    (fl : Flavour) (src dst : Store H) (size bs : Nat) (hp : CopyPre src dst size bs) :
    copy hf fl src dst = .ok { dst with
      data := (plist dst.kind size bs).flatMap fun x => reenc hf (recordOf src x) } := by
  obtain ⟨hs, hbs, hst, hdt, hsk, hsd, hdk⟩ := hp
  rw [← copied_eq_records hf src hsk dst.kind size bs hs hbs hst]
  exact copy_run hf hlen size bs hs hbs fl src dst hst hdt hsk hsd (hdk.symm)

example : copy byteHash .fsm exSrc exDst = .ok { exDst with
    data := (plist exDst.kind 3000 1).flatMap fun x => reenc byteHash (recordOf exSrc x) } :=
  copy_general byteHash byte_len .fsm exSrc exDst 3000 1 ex_pre

/-- no `.panic` / `.err` outcome under the hypotheses (no round trip needed) -/
theorem copy_no_panic {H : Type} (hf : HashFns H) (hlen : ∀ h, (hf.toBytes h).length = 32)
    (fl : Flavour) (src dst : Store H) (size bs : Nat) (hp : CopyPre src dst size bs) :
    ∃ dst', copy hf fl src dst = .ok dst' :=
  ⟨_, copy_general hf hlen fl src dst size bs hp⟩

example : ∃ dst', copy byteHash .sync exSrc exDstIo = .ok dst' :=
  copy_no_panic byteHash byte_len .sync exSrc exDstIo 3000 1 ex_pre_io

/-- LOSES AND INVENTS NOTHING (byte round trip): the target's backing becomes exactly the
concatenation, in the target's order, of the source's own records of the persisted nodes -/
theorem copy_records {H : Type} (hf : HashFns H) (hlen : ∀ h, (hf.toBytes h).length = 32)
    (hbt : ∀ b : List UInt8, b.length = 32 → hf.toBytes (hf.ofBytes b) = b)
    (fl : Flavour) (src dst : Store H) (size bs : Nat) (hp : CopyPre src dst size bs) :
    copy hf fl src dst = .ok { dst with
      data := (plist dst.kind size bs).flatMap (recordOf src) } := by
  obtain ⟨hs, hbs, hst, hdt, hsk, hsd, hdk⟩ := hp
  rw [copy_run hf hlen size bs hs hbs fl src dst hst hdt hsk hsd (hdk.symm),
    copied_hbt hf hbt src hsk dst.kind size bs hs hbs hst hsd]
  congr 2
  exact flatMap_congr' _ _ _ (fun x hx => (recordOf_persisted src hsk size bs hs hbs hst x
    ((plist_perm dst.kind size bs hs).mem_iff.mp hx)).symm)

example : copy byteHash .fsm exSrc exDst = .ok { exDst with
    data := (plist exDst.kind 3000 1).flatMap (recordOf exSrc) } :=
  copy_records byteHash byte_len byte_bt .fsm exSrc exDst 3000 1 ex_pre

/-- target 1 of the brief: the result, node by node.  `copy` returns a store with the target's
kind, root and tree and exactly `outboardSize` bytes, in which every persisted node `x` has a slot
`j`, as it has a slot `i` in the source (both `< blocks - 1`), the 64 bytes at slot `j` are the 64
bytes at slot `i` of the source, and `load` (either flavour) returns what it returns on the source -/
theorem copy_loads {H : Type} (hf : HashFns H) (hlen : ∀ h, (hf.toBytes h).length = 32)
    (hbt : ∀ b : List UInt8, b.length = 32 → hf.toBytes (hf.ofBytes b) = b)
    (fl : Flavour) (src dst : Store H) (size bs : Nat) (hp : CopyPre src dst size bs) :
    ∃ dst', copy hf fl src dst = .ok dst' ∧ dst'.kind = dst.kind ∧ dst'.root = dst.root ∧
      dst'.tree = dst.tree ∧ dst'.data.length = Tree.outboardSize ⟨size, bs⟩ ∧
      ∀ x ∈ persistedPre size bs, ∃ i j, src.slot x = some i ∧ dst'.slot x = some j ∧
        i < Tree.blocks ⟨size, bs⟩ - 1 ∧ j < Tree.blocks ⟨size, bs⟩ - 1 ∧
        (dst'.data.drop (j * 64)).take 64 = (src.data.drop (i * 64)).take 64 ∧
        ∀ fl1 fl2, src.load hf fl1 x = .ok (some (parsePair hf ((src.data.drop (i * 64)).take 64))) ∧
          dst'.load hf fl2 x = src.load hf fl1 x := by
  obtain ⟨hs, hbs, hst, hdt, hsk, hsd, hdk⟩ := hp
  have hdne : dst.kind ≠ .empty := by
    rcases hdk with ⟨h | h, _⟩ | ⟨h | h, _⟩ <;> simp [h]
  exact ⟨_, copy_run hf hlen size bs hs hbs fl src dst hst hdt hsk hsd (hdk.symm), rfl, rfl, rfl,
    copied_length hf hlen src _ size bs hs hbs,
    copy_node hf hlen hbt size bs hs hbs src _ hst hdt hsk hdne hsd rfl⟩

example : ∃ dst', copy byteHash .sync exSrc exDstIo = .ok dst' ∧ dst'.kind = exDstIo.kind ∧
    dst'.root = exDstIo.root ∧ dst'.tree = exDstIo.tree ∧
    dst'.data.length = Tree.outboardSize ⟨3000, 1⟩ ∧
    ∀ x ∈ persistedPre 3000 1, ∃ i j, exSrc.slot x = some i ∧ dst'.slot x = some j ∧
      i < Tree.blocks ⟨3000, 1⟩ - 1 ∧ j < Tree.blocks ⟨3000, 1⟩ - 1 ∧
      (dst'.data.drop (j * 64)).take 64 = (exSrc.data.drop (i * 64)).take 64 ∧
      ∀ fl1 fl2, exSrc.load byteHash fl1 x
          = .ok (some (parsePair byteHash ((exSrc.data.drop (i * 64)).take 64))) ∧
        dst'.load byteHash fl2 x = exSrc.load byteHash fl1 x :=
  copy_loads byteHash byte_len byte_bt .sync exSrc exDstIo 3000 1 ex_pre_io

/-- "invents nothing", as lists of records: the `blocks - 1` records of the result are a
permutation of the first `blocks - 1` records of the source -/
theorem copy_perm {H : Type} (hf : HashFns H) (hlen : ∀ h, (hf.toBytes h).length = 32)
    (hbt : ∀ b : List UInt8, b.length = 32 → hf.toBytes (hf.ofBytes b) = b)
    (fl : Flavour) (src dst : Store H) (size bs : Nat) (hp : CopyPre src dst size bs) :
    ∃ dst', copy hf fl src dst = .ok dst' ∧
      ((List.range (Tree.blocks ⟨size, bs⟩ - 1)).map (blockAt dst'.data)).Perm
        ((List.range (Tree.blocks ⟨size, bs⟩ - 1)).map (blockAt src.data)) := by
  obtain ⟨hs, hbs, hst, hdt, hsk, hsd, hdk⟩ := hp
  refine ⟨_, copy_run hf hlen size bs hs hbs fl src dst hst hdt hsk hsd (hdk.symm), ?_⟩
  have h := blocks_copied_perm hf hlen src hsk dst.kind size bs hs hbs hst
  have e : ((List.range (Tree.blocks ⟨size, bs⟩ - 1)).map fun i => reenc hf (blockAt src.data i))
      = (List.range (Tree.blocks ⟨size, bs⟩ - 1)).map (blockAt src.data) :=
    List.map_congr_left (fun i hi => reenc_id hf hbt _ (length_blockAt _ _ (by
      have := List.mem_range.mp hi
      have h2 : (Tree.blocks ⟨size, bs⟩ - 1) * 64 ≤ src.data.length := hsd
      omega)))
  rw [e] at h
  exact h

example : ∃ dst', copy byteHash .fsm exSrc exDst = .ok dst' ∧
    ((List.range (Tree.blocks ⟨3000, 1⟩ - 1)).map (blockAt dst'.data)).Perm
      ((List.range (Tree.blocks ⟨3000, 1⟩ - 1)).map (blockAt exSrc.data)) :=
  copy_perm byteHash byte_len byte_bt .fsm exSrc exDst 3000 1 ex_pre

/-- same order (`pre → pre`, `post → post`; memory or io on either side): the result's backing is
the first `outboardSize` bytes of the source's -/
theorem copy_same_order {H : Type} (hf : HashFns H) (hlen : ∀ h, (hf.toBytes h).length = 32)
    (hbt : ∀ b : List UInt8, b.length = 32 → hf.toBytes (hf.ofBytes b) = b)
    (fl : Flavour) (src dst : Store H) (size bs : Nat) (hp : CopyPre src dst size bs)
    (hord : ((src.kind = .preIo ∨ src.kind = .preMem) ∧ (dst.kind = .preIo ∨ dst.kind = .preMem)) ∨
            ((src.kind = .postIo ∨ src.kind = .postMem) ∧ (dst.kind = .postIo ∨ dst.kind = .postMem))) :
    copy hf fl src dst
      = .ok { dst with data := src.data.take (Tree.outboardSize ⟨size, bs⟩) } := by
  obtain ⟨hs, hbs, hst, hdt, hsk, hsd, hdk⟩ := hp
  have hpl : plist dst.kind size bs = plist src.kind size bs := by
    rcases hord with ⟨h1, h2⟩ | ⟨h1, h2⟩
    · rw [plist_pre h1, plist_pre h2]
    · rw [plist_post h1, plist_post h2]
  rw [copy_run hf hlen size bs hs hbs fl src dst hst hdt hsk hsd (hdk.symm),
    copied_same hf hbt src hsk dst.kind size bs hs hbs hst hsd hpl]
  rfl

example : copy byteHash .sync exSrc exDstIo
    = .ok { exDstIo with data := exSrc.data.take (Tree.outboardSize ⟨3000, 1⟩) } :=
  copy_same_order byteHash byte_len byte_bt .sync exSrc exDstIo 3000 1 ex_pre_io
    (.inr ⟨.inl rfl, .inl rfl⟩)

/-! ## 2. copying / flipping the specification outboards -/

/-- copying a store that holds the specification outboard of its order (`Spec.preOutboard` /
`Spec.postOutboard`, what every outboard creation produces: C03) yields the specification outboard
of the TARGET's order; either round trip suffices (`hrt`: the records are `toBytes l ++ toBytes r`) -/
theorem copy_spec {H : Type} (hf : HashFns H) (hlen : ∀ h, (hf.toBytes h).length = 32)
    (hcodec : (∀ h, hf.ofBytes (hf.toBytes h) = h) ∨
      (∀ b : List UInt8, b.length = 32 → hf.toBytes (hf.ofBytes b) = b))
    (fl : Flavour) (d : List UInt8) (bs : Nat) (src dst : Store H)
    (hp : CopyPre src dst d.length bs)
    (hsrc : ((src.kind = .preIo ∨ src.kind = .preMem) ∧ src.data = Spec.preOutboard hf d bs) ∨
            ((src.kind = .postIo ∨ src.kind = .postMem) ∧ src.data = Spec.postOutboard hf d bs)) :
    copy hf fl src dst = .ok { dst with
      data := (if dst.kind = .postIo ∨ dst.kind = .postMem then Spec.postOutboard hf d bs
        else Spec.preOutboard hf d bs) } := by
  obtain ⟨hs, hbs, hst, hdt, hsk, hsd, hdk⟩ := hp
  have hsdat : src.data = specData hf d src.kind bs := by
    rcases hsrc with ⟨hk, hd⟩ | ⟨hk, hd⟩
    · rw [specData_pre hf d hk, hd]
    · rw [specData_post hf d hk, hd]
  rw [copy_run hf hlen d.length bs hs hbs fl src dst hst hdt hsk hsd (hdk.symm),
    copied_spec hf hlen hcodec d bs hs hbs src hsk hst hsdat]
  by_cases hpo : dst.kind = .postIo ∨ dst.kind = .postMem
  · rw [if_pos hpo, specData_post hf d hpo]
  · rw [if_neg hpo]
    have hpr : dst.kind = .preIo ∨ dst.kind = .preMem := by
      rcases hdk with ⟨h | h, _⟩ | ⟨h | h, _⟩
      · exact .inr h
      · exact (hpo (.inr h)).elim
      · exact .inl h
      · exact (hpo (.inl h)).elim
    rw [specData_pre hf d hpr]

example : copy byteHash .fsm
      ⟨.postIo, [1], ⟨C03.toyBlob.length, 1⟩, Spec.postOutboard byteHash C03.toyBlob 1⟩
      ⟨.preIo, [2], ⟨C03.toyBlob.length, 1⟩, []⟩
    = .ok ⟨.preIo, [2], ⟨C03.toyBlob.length, 1⟩, Spec.preOutboard byteHash C03.toyBlob 1⟩ := by
  have h := copy_spec byteHash byte_len (.inr byte_bt) .fsm C03.toyBlob 1
    ⟨.postIo, [1], ⟨C03.toyBlob.length, 1⟩, Spec.postOutboard byteHash C03.toyBlob 1⟩
    ⟨.preIo, [2], ⟨C03.toyBlob.length, 1⟩, []⟩
    ⟨C03.toy_size, by decide, rfl, rfl, by decide,
      by have h := (C03.size byteHash byte_len C03.toyBlob 1 C03.toy_size (by decide)).2.1
         simp only [Tree.outboardSize, Tree.outboardPairs]
         omega,
      .inr ⟨.inl rfl, Nat.zero_le _⟩⟩
    (.inr ⟨.inl rfl, by simp only⟩)
  rw [h]
  simp

/-- target 2: `flip` of the post-order specification outboard is the pre-order one and conversely
(any root field) -/
theorem flip_spec {H : Type} (hf : HashFns H) (hlen : ∀ h, (hf.toBytes h).length = 32)
    (hcodec : (∀ h, hf.ofBytes (hf.toBytes h) = h) ∨
      (∀ b : List UInt8, b.length = 32 → hf.toBytes (hf.ofBytes b) = b))
    (d : List UInt8) (bs : Nat) (hs : d.length ≤ 2 ^ 63) (hbs : bs ≤ 10) (r : H) :
    flip hf ⟨.postMem, r, ⟨d.length, bs⟩, Spec.postOutboard hf d bs⟩
      = .ok ⟨.preMem, r, ⟨d.length, bs⟩, Spec.preOutboard hf d bs⟩ ∧
    flip hf ⟨.preMem, r, ⟨d.length, bs⟩, Spec.preOutboard hf d bs⟩
      = .ok ⟨.postMem, r, ⟨d.length, bs⟩, Spec.postOutboard hf d bs⟩ := by
  constructor
  · rw [flip_run hf hlen d.length bs hs hbs _ rfl (by simp)
      (by simp only [OutboardL.postOutboard_length hf hlen d bs hs hbs]; exact Nat.le_refl _)]
    simp only [flipKind]
    rw [copied_spec hf hlen hcodec d bs hs hbs _ (by simp) rfl
      (specData_post hf d (.inr rfl) bs).symm, specData_pre hf d (.inr rfl)]
  · rw [flip_run hf hlen d.length bs hs hbs _ rfl (by simp)
      (by simp only [OutboardL.preOutboard_length hf hlen d bs hs hbs]; exact Nat.le_refl _)]
    simp only [flipKind]
    rw [copied_spec hf hlen hcodec d bs hs hbs _ (by simp) rfl
      (specData_pre hf d (.inr rfl) bs).symm, specData_post hf d (.inr rfl)]

example : flip C03.toyHash ⟨.postMem, 0, ⟨C03.toyBlob.length, 1⟩, Spec.postOutboard C03.toyHash C03.toyBlob 1⟩
    = .ok ⟨.preMem, 0, ⟨C03.toyBlob.length, 1⟩, Spec.preOutboard C03.toyHash C03.toyBlob 1⟩ :=
  (flip_spec C03.toyHash C03.toy_len (.inl C03.toy_rt) C03.toyBlob 1 C03.toy_size (by decide) 0).1

example : flip byteHash ⟨.preMem, [], ⟨C03.toyBlob.length, 1⟩, Spec.preOutboard byteHash C03.toyBlob 1⟩
    = .ok ⟨.postMem, [], ⟨C03.toyBlob.length, 1⟩, Spec.postOutboard byteHash C03.toyBlob 1⟩ :=
  (flip_spec byteHash byte_len (.inr byte_bt) C03.toyBlob 1 C03.toy_size (by decide) []).2

/-! ## 3. `flip` twice -/

/-- target 3: every memory store (pre or post) with ARBITRARY data of exactly `outboardSize` bytes
and arbitrary root flips to a store of the other kind with the same root, tree and data length
whose records are the store's own (`copy_records`), and flipping that gives the store back -/
theorem flip_flip {H : Type} (hf : HashFns H) (hlen : ∀ h, (hf.toBytes h).length = 32)
    (hbt : ∀ b : List UInt8, b.length = 32 → hf.toBytes (hf.ofBytes b) = b)
    (s : Store H) (size bs : Nat) (hs : size ≤ 2 ^ 63) (hbs : bs ≤ 10)
    (ht : s.tree = ⟨size, bs⟩) (hk : s.kind = .preMem ∨ s.kind = .postMem)
    (hd : s.data.length = Tree.outboardSize ⟨size, bs⟩) :
    ∃ t, flip hf s = .ok t ∧ t.kind = flipKind s.kind ∧ t.root = s.root ∧ t.tree = s.tree ∧
      t.data.length = s.data.length ∧
      t.data = (plist t.kind size bs).flatMap (recordOf s) ∧
      flip hf t = .ok s := by
  have hsk : s.kind ≠ .empty := by rcases hk with h | h <;> simp [h]
  have hd' : s.data.length = (Tree.blocks ⟨size, bs⟩ - 1) * 64 := hd
  have hfk : flipKind (flipKind s.kind) = s.kind := by
    rcases hk with h | h <;> rw [h] <;> rfl
  have htk : flipKind s.kind ≠ .empty := by
    rcases flipKind_mem s.kind with h | h <;> simp [h]
  refine ⟨⟨flipKind s.kind, s.root, s.tree, copied hf s (flipKind s.kind) size bs⟩,
    flip_run hf hlen size bs hs hbs s ht hsk (Nat.le_of_eq hd'.symm), rfl, rfl, rfl, ?_, ?_, ?_⟩
  · rw [copied_length hf hlen s _ size bs hs hbs, hd']
  · simp only
    rw [copied_hbt hf hbt s hsk _ size bs hs hbs ht (Nat.le_of_eq hd'.symm)]
    exact flatMap_congr' _ _ _ (fun x hx => (recordOf_persisted s hsk size bs hs hbs ht x
      ((plist_perm _ size bs hs).mem_iff.mp hx)).symm)
  · rw [flip_run hf hlen size bs hs hbs
      ⟨flipKind s.kind, s.root, s.tree, copied hf s (flipKind s.kind) size bs⟩ ht htk
      (by simp only [copied_length hf hlen s _ size bs hs hbs]; exact Nat.le_refl _)]
    simp only [hfk]
    rw [copied_copied hf hlen hbt size bs hs hbs s
      ⟨flipKind s.kind, s.root, s.tree, copied hf s (flipKind s.kind) size bs⟩ ht hsk hd' ht htk rfl]

example : ∃ t, flip byteHash exDst = .ok t ∧ t.kind = flipKind exDst.kind ∧ t.root = exDst.root ∧
    t.tree = exDst.tree ∧ t.data.length = exDst.data.length ∧
    t.data = (plist t.kind 3000 1).flatMap (recordOf exDst) ∧ flip byteHash t = .ok exDst :=
  flip_flip byteHash byte_len byte_bt exDst 3000 1 (by decide) (by decide) rfl (.inl rfl) (by decide)

end Bao.C12

/-
Status.
PROVED (full strength; `size ≤ 2^63`, `bs ≤ 10`, every `hf` with `hlen`; `CopyPre` = the hypotheses on
source and target listed in the brief):
  * `layout_slots`    — per store: its layout list is a permutation of `persistedPre`, has `blocks-1`
                        entries and `slot layout[i] = some i` (restates C12.pre/post per store kind).
  * `copy_general`    — NO round trip: `copy = .ok {dst with data := layout(dst).flatMap (reenc ∘ recordOf src)}`.
  * `copy_no_panic`   — NO round trip: `∃ dst', copy = .ok dst'` (both flavours, all 4×4 kind pairs).
  * `copy_records`    — `hbt`: `copy = .ok {dst with data := layout(dst).flatMap (recordOf src)}`.
  * `copy_loads`      — `hbt`: kind/root/tree kept, `outboardSize` bytes, per persisted node equal 64-byte
                        records at the respective slots and equal `load` results.
  * `copy_perm`       — `hbt`: the records of the result are a permutation of the source's first `blocks-1`.
  * `copy_same_order` — `hbt`: `pre→pre` / `post→post`: data = `src.data.take outboardSize`.
  * `copy_spec`       — `hrt ∨ hbt`: spec outboard of the source order ↦ spec outboard of the target order.
  * `flip_spec`       — `hrt ∨ hbt`: `flip` maps `Spec.postOutboard` ↔ `Spec.preOutboard` (both directions).
  * `flip_flip`       — `hbt`: `flip` of an arbitrary memory store, and `flip ∘ flip = id`.
PARTIAL: none.   OPEN: none.
Lemmas: `BaoProofs/Lemmas/CopyL.lean` (`copy_run` = closed form of `copy`; `flip_run`; `copied_*`).
Remarks (sharpness of the hypotheses, checked by `#eval` on `⟨3000, 1⟩`, one record):
  * `hbt` is needed for the verbatim statements: with `C03.toyHash` (satisfies `hrt`, not `hbt`) a
    `preMem → preMem` copy of the record `0,1,…,63` yields `0 ×32 ++ 32 ×32` (= `reenc`, `copy_general`).
  * source shorter than `outboardSize`: memory source → `.panic`; io source → `.err unexpectedEof`
    (sync) or a silently INVENTED all-zero record (fsm: short read ↦ zero pair).
  * memory target of another length → `.panic` (shorter) / stale tail kept (longer); io target longer
    than `outboardSize` keeps its stale tail (`writeAt` never truncates), so `data.length = outboardSize` fails.
  * `flip` is stated for memory stores only (as in the crate); `flip_run` covers io sources too; on the
    `empty` kind `copy` reads zero pairs for every relevant node (no analogue of these theorems).
-/
