import BaoProofs.Lemmas.C01Inv

/-!
# C01: a decoder never hands out bytes that are not the blob's

Whatever byte stream is presented to a decoder (sync or fsm) that was set up with a blob's true
root hash — any claimed size, any block size, any query, in fact ANY plan iterator state — every
data item it yields, every byte `decode_ranges` writes to the target and every hash pair it stores
in the outboard is the corresponding datum of the true blob `d`.

Hypotheses: `CollisionFree hf` (the global form: `chunkCv` / `parentCv` jointly injective,
`BaoProofs/Lemmas/HashCF.lean`; satisfiable: `termHash_cf`) and `d.length ≤ 2^64 · 1024`
(`hash_subtree` is only defined up to `2^64` chunks; this covers the property's `≤ 2^63`).

Vocabulary (`BaoProofs/Lemmas/C01Inv.lean`), with `n = nChunks d.length`:
* `Sub d c e`       – `[c, e)` is a subtree chunk interval of the BLAKE3 tree of `d`
                      (`2^M ∣ c`, `e = min (c + 2^M) n`, `c < n`);
* `TrueLeaf d off bytes` – `off = c·1024` and `bytes = Spec.slice d c e` for such an interval;
* `TruePair hf d l r`    – `(l, r) = Spec.pair hf d k L` for a node `(k, L)` that exists in the true
                      tree (`midOf k L < n`, `L < 64`), and `parentCv l r f` is that node's `Spec.cv`;
* `ItemOk hf d i`   – `TrueLeaf` for a leaf item, `TruePair` for a parent item.  Nothing is claimed
                      about the `node` label of a parent item: with a wrong claimed size it need
                      not be a node of the true tree (e.g. blob of 1500 bytes, claimed size 5000:
                      the root pair is yielded under label 3 instead of 0).
-/

namespace Bao.C01

open Bao.Spec

variable {H : Type} [BEq H] [LawfulBEq H] {hf : HashFns H} {d : List UInt8}

/-- **Step invariant**, both flavours, any iterator state, any stream: if all pending hashes are
hashes of the true tree, a yielded item is true and the pending hashes stay true. -/
theorem step_sound (cf : CollisionFree hf) (hd : d.length ≤ 2 ^ 64 * 1024) (fl : Flavour)
    (dec : Dec H) (hs : ∀ h ∈ dec.stack, TrueCv hf d h) {i : Item H} {dec' : Dec H}
    (h : dec.next hf fl = .item i dec') : ItemOk hf d i ∧ ∀ h ∈ dec'.stack, TrueCv hf d h :=
  next_sound cf hd fl dec hs h

/-- **C01 (iterator client).**  Every item yielded by a decoder set up with the true root hash,
for any claimed geometry `tree`, any query `ranges`, any stream `s`, is true. -/
theorem decode_sound (cf : CollisionFree hf) (hd : d.length ≤ 2 ^ 64 * 1024) (fl : Flavour)
    (tree : Tree) (ranges : Ranges) (s : List UInt8) :
    ∀ i ∈ (decodeAll hf fl (Spec.root hf d) tree ranges s).items, ItemOk hf d i :=
  runAux_sound cf hd fl _ _ (by
    intro h hh
    simp only [Dec.new, List.mem_singleton] at hh
    subst hh
    exact TrueCv.root hf d)

/-- C01 for data items, spelled out: the bytes are the blob's bytes at that (chunk aligned)
offset. -/
theorem decode_sound_leaf (cf : CollisionFree hf) (hd : d.length ≤ 2 ^ 64 * 1024) (fl : Flavour)
    (tree : Tree) (ranges : Ranges) (s : List UInt8) {off : Nat} {bytes : List UInt8}
    (h : Item.leaf off bytes ∈ (decodeAll hf fl (Spec.root hf d) tree ranges s).items) :
    off % 1024 = 0 ∧ off + bytes.length ≤ d.length ∧ bytes = (d.drop off).take bytes.length :=
  TrueLeaf.spec (decode_sound cf hd fl tree ranges s _ h)

/-- C01 for hash pairs, spelled out: the pair is the stored pair of a node of the true tree. -/
theorem decode_sound_parent (cf : CollisionFree hf) (hd : d.length ≤ 2 ^ 64 * 1024) (fl : Flavour)
    (tree : Tree) (ranges : Ranges) (s : List UInt8) {node : Nat} {l r : H}
    (h : Item.parent node l r ∈ (decodeAll hf fl (Spec.root hf d) tree ranges s).items) :
    ∃ k L, L < 64 ∧ midOf k L < nChunks d.length ∧ (l, r) = Spec.pair hf d k L ∧
      ∀ f, hf.parentCv l r f =
        Spec.cv hf d (startOf k L) (min (endOf k L) (nChunks d.length)) f :=
  decode_sound cf hd fl tree ranges s _ h

/-- **C01 (`decode_ranges`).**  With an outboard whose root is the true root hash (its claimed
tree is arbitrary), the final target is the initial target after a list of positioned writes of
true leaves, and the final outboard is the initial one after a list of successful `save`s of true
pairs. -/
theorem decodeRanges_sound (cf : CollisionFree hf) (hd : d.length ≤ 2 ^ 64 * 1024) (fl : Flavour)
    (s : List UInt8) (ranges : Ranges) (sink : Sink H) (hroot : sink.ob.root = Spec.root hf d) :
    ∃ (wl : List (Nat × List UInt8)) (pl : List (Nat × H × H)),
      (∀ w ∈ wl, TrueLeaf d w.1 w.2) ∧ (∀ p ∈ pl, TruePair hf d p.2.1 p.2.2) ∧
      (decodeRanges hf fl s ranges sink).sink.target = applyWrites sink.target wl ∧
      (decodeRanges hf fl s ranges sink).sink.ob = applySaves hf sink.ob pl :=
  decodeRangesAux_sound cf hd fl _ _ _ sink [] [] (by
    intro h hh
    simp only [Dec.new, List.mem_singleton] at hh
    subst hh
    rw [hroot]
    exact TrueCv.root hf d)

/-- Corollary: a target of the blob's length keeps that length, and afterwards every position
holds its initial byte or the true blob's byte. -/
theorem decodeRanges_target (cf : CollisionFree hf) (hd : d.length ≤ 2 ^ 64 * 1024) (fl : Flavour)
    (s : List UInt8) (ranges : Ranges) (sink : Sink H) (hroot : sink.ob.root = Spec.root hf d)
    (hlen : sink.target.length = d.length) :
    (decodeRanges hf fl s ranges sink).sink.target.length = d.length ∧
    ∀ i : Nat, (decodeRanges hf fl s ranges sink).sink.target[i]? = sink.target[i]? ∨
      (decodeRanges hf fl s ranges sink).sink.target[i]? = d[i]? := by
  obtain ⟨wl, _, hw, _, ht, _⟩ := decodeRanges_sound cf hd fl s ranges sink hroot
  rw [ht]
  exact Mixed.applyWrites wl sink.target ⟨hlen, fun _ => .inl rfl⟩ hw

/-! ## non-vacuity: the symbolic collision free hash, a 3-chunk blob, a tampered stream -/

section
/-- a blob of three chunks -/
private def blob : List UInt8 := List.replicate 2500 7
/-- not an encoding of `blob` -/
private def tampered : List UInt8 := List.replicate 64 1 ++ List.replicate 2500 8

private theorem blob_len : blob.length ≤ 2 ^ 64 * 1024 := by
  simp only [blob, List.length_replicate]; omega

example : ∀ i ∈ (decodeAll termHash .fsm (Spec.root termHash blob) ⟨2500, 0⟩ [0] tampered).items,
    ItemOk termHash blob i :=
  decode_sound termHash_cf blob_len .fsm ⟨2500, 0⟩ [0] tampered

example (dec : Dec Term) (hs : dec.stack = [Spec.root termHash blob]) {i : Item Term} {dec' : Dec Term}
    (h : dec.next termHash .sync = .item i dec') : ItemOk termHash blob i :=
  (step_sound termHash_cf blob_len .sync dec (by
    intro x hx; rw [hs, List.mem_singleton] at hx; rw [hx]; exact TrueCv.root _ _) h).1

example {off : Nat} {bytes : List UInt8}
    (h : Item.leaf off bytes ∈
      (decodeAll termHash .sync (Spec.root termHash blob) ⟨9999, 2⟩ [1] tampered).items) :
    off % 1024 = 0 ∧ off + bytes.length ≤ blob.length ∧ bytes = (blob.drop off).take bytes.length :=
  decode_sound_leaf termHash_cf blob_len .sync ⟨9999, 2⟩ [1] tampered h

example {node : Nat} {l r : Term}
    (h : Item.parent node l r ∈
      (decodeAll termHash .sync (Spec.root termHash blob) ⟨9999, 2⟩ [1] tampered).items) :
    ∃ k L, L < 64 ∧ midOf k L < nChunks blob.length ∧ (l, r) = Spec.pair termHash blob k L ∧
      ∀ f, termHash.parentCv l r f =
        Spec.cv termHash blob (startOf k L) (min (endOf k L) (nChunks blob.length)) f :=
  decode_sound_parent termHash_cf blob_len .sync ⟨9999, 2⟩ [1] tampered h

/-- a sink whose outboard carries the true root (claimed tree: wrong size, block size 1) -/
private def sink0 : Sink Term :=
  { ob := { kind := .preMem, root := Spec.root termHash blob, tree := ⟨4000, 1⟩, data := [] },
    target := List.replicate 2500 0 }

private theorem sink0_root : sink0.ob.root = Spec.root termHash blob := by simp only [sink0]

example : ∃ (wl : List (Nat × List UInt8)) (pl : List (Nat × Term × Term)),
    (∀ w ∈ wl, TrueLeaf blob w.1 w.2) ∧ (∀ p ∈ pl, TruePair termHash blob p.2.1 p.2.2) ∧
    (decodeRanges termHash .sync tampered [0] sink0).sink.target = applyWrites sink0.target wl ∧
    (decodeRanges termHash .sync tampered [0] sink0).sink.ob = applySaves termHash sink0.ob pl :=
  decodeRanges_sound termHash_cf blob_len .sync tampered [0] sink0 sink0_root

example : (decodeRanges termHash .fsm tampered [0] sink0).sink.target.length = blob.length ∧
    ∀ i : Nat, (decodeRanges termHash .fsm tampered [0] sink0).sink.target[i]? = sink0.target[i]? ∨
      (decodeRanges termHash .fsm tampered [0] sink0).sink.target[i]? = blob[i]? :=
  decodeRanges_target termHash_cf blob_len .fsm tampered [0] sink0 sink0_root (by
    simp only [sink0, blob, List.length_replicate])

end

/-
## Status

Proved (axioms: propext, Classical.choice, Quot.sound):
* `step_sound`          – invariant of one decoder step, sync and fsm, any iterator state/stream
* `decode_sound`        – every item of `decodeAll` with the true root is `ItemOk`
* `decode_sound_leaf`   – `off % 1024 = 0 ∧ off + len ≤ |d| ∧ bytes = (d.drop off).take len`
* `decode_sound_parent` – `(l, r) = Spec.pair hf d k L` for an existing node `(k, L)` of the true tree
* `decodeRanges_sound`  – final target = writes of true leaves, final outboard = saves of true pairs
* `decodeRanges_target` – target of the blob's length: each position initial byte or blob's byte
Supporting: `Bao.cv_inj` (no length bounds needed), `Bao.cvLevel_mono`, `Bao.hashSubtree_parent`,
`Bao.hashSubtree_shape`, `Bao.termHash_cf` in `Lemmas/HashCF.lean`.

`_partial`: none.   OPEN: none.

Remarks
* Hypothesis is the GLOBAL `CollisionFree hf` (DESIGN.md's localised `CollisionFreeOn` form is not
  threaded through).  Injectivity is used only at: the popped hash vs. the recomputed hash of the
  step, and inside `cv_inj` on the sub-hashes of those two trees.
* Nothing is (or can be) said about the `node` label of a yielded parent, see the header.
* `decodeRangesAux` calls `writeAt` also for an empty leaf (which zero-extends a short target up to
  `off`); in the sound runs above an empty leaf only occurs for the empty blob at `off = 0`, where
  it is the identity, so this does not matter for C01.
-/

end Bao.C01
