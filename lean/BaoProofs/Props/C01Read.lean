import BaoProofs.Lemmas.ReadFaultL
import BaoProofs.Lemmas.DecodeSpec
import BaoProofs.Props.C01
import BaoProofs.Props.C01Loc

/-!
# `decode_ranges` with ONE failing read of the stream (`decrt`): `decodeRangesR`

`BaoModel/FaultRead.lean` repeats the two decoders and the `decode_ranges` loop with a counter of
the read calls made on the stream; the `f.k`-th call returns `f.err` instead of data.  Here that
code-shaped model is related to the plain model `decodeRanges`.

Vocabulary.
* `readCalls hf fl s q sink : List ReadCall` – the read calls the FAULT-FREE run `decodeRanges hf fl
  s q sink` makes on the stream, in order (model file; independent of any fault).  A call records the
  index `item` of the plan item it is made for, the offset `off` of that item in the stream and the
  plan item `chunk`.  fsm: one call per item.  sync: no call for an empty item, two calls (same
  item, same offset) when the stream ends inside the item.
  "The fault is reached" – the first `k` read calls come back – is `(readCalls …)[f.k]? = some rc`.
* `rc.fail e` – `maybe_parent_not_found(e, node)` / `maybe_leaf_not_found(e, start_chunk)` of the item.
* `decodeRangesUpTo hf fl s q sink m` – the fault-free loop stopped in front of item `m` (the model's
  loop with fuel `m`; its terminal is meaningless, its sink / writes / saves / rest are the state
  reached).
-/

namespace Bao.C01Read

open Bao Bao.Spec Bao.C01

variable {H : Type}

/-- the fault-free `decode_ranges` loop stopped in front of plan item number `m` -/
def decodeRangesUpTo (hf : HashFns H) [BEq H] (fl : Flavour) (s : List UInt8) (q : Ranges)
    (sink : Sink H) (m : Nat) : DecodeRangesRun H :=
  decodeRangesAux hf fl sink.ob.tree m (Dec.new sink.ob.root sink.ob.tree q s) sink [] []

section
variable (hf : HashFns H) [BEq H]

/-! ## 1. no fault -/

/-- **`readR_none`**: without a failing call the model with the read counter IS the plain model -/
theorem readR_none (fl : Flavour) (s : List UInt8) (q : Ranges) (sink : Sink H) :
    decodeRangesR hf fl s q sink none = decodeRanges hf fl s q sink :=
  rAux_none hf fl _ _ _ 0 sink [] []

/-! ## 2. the fault is reached / not reached -/

/-- **`readR_stop`** (the general form of 2): if the fault-free run makes a read call number `f.k`,
for item `rc.item`, the faulty run is the fault-free run stopped in front of that item, and ends
with the mapped injected error.  Holds for every item, also the empty leaf of the empty blob. -/
theorem readR_stop (fl : Flavour) (s : List UInt8) (q : Ranges) (sink : Sink H) (f : ReadFault)
    {rc : ReadCall} (h : (readCalls hf fl s q sink)[f.k]? = some rc) :
    decodeRangesR hf fl s q sink (some f) =
      { decodeRangesUpTo hf fl s q sink rc.item with terminal := .err (rc.fail f.err) } := by
  obtain ⟨k, e⟩ := f
  obtain ⟨m, hm, -, hR⟩ :=
    (rAux_trace hf fl sink.ob.tree k e _ (Dec.new sink.ob.root sink.ob.tree q s) 0 sink [] [] 0 0
      (Nat.zero_le _)).1 rc h
  rw [Nat.zero_add] at hm
  subst hm
  exact hR

/-- a failing call made for the FIRST item (in particular: the zero-length leaf of the empty blob in
the fsm flavour, where cutting the stream cannot make the read fail): nothing has happened – the
sink is the initial sink, no write, no save, the whole stream unread -/
theorem readR_first (fl : Flavour) (s : List UInt8) (q : Ranges) (sink : Sink H) (f : ReadFault)
    {rc : ReadCall} (h : (readCalls hf fl s q sink)[f.k]? = some rc) (h0 : rc.item = 0) :
    decodeRangesR hf fl s q sink (some f) = ⟨sink, .err (rc.fail f.err), s, [], []⟩ := by
  rw [readR_stop hf fl s q sink f h, h0]
  rfl

/-- **`readR_cut`**: if the fault is reached, at a call for a non-empty item, the item starts
inside the stream, and sink, writes and saves of the faulty run are those of the fault-free run on
the stream CUT in front of that item; the terminal is the mapped injected error where the cut run
reports the item as not found. -/
theorem readR_cut (fl : Flavour) (s : List UInt8) (q : Ranges) (sink : Sink H) (f : ReadFault)
    {rc : ReadCall} (h : (readCalls hf fl s q sink)[f.k]? = some rc) (hpos : 0 < rc.chunk.size) :
    rc.off ≤ s.length ∧
    (decodeRangesR hf fl s q sink (some f)).sink = (decodeRanges hf fl (s.take rc.off) q sink).sink ∧
    (decodeRangesR hf fl s q sink (some f)).writes = (decodeRanges hf fl (s.take rc.off) q sink).writes ∧
    (decodeRangesR hf fl s q sink (some f)).saves = (decodeRanges hf fl (s.take rc.off) q sink).saves ∧
    (decodeRangesR hf fl s q sink (some f)).terminal = .err (rc.fail f.err) ∧
    (decodeRanges hf fl (s.take rc.off) q sink).terminal = .err (rc.fail ⟨.unexpectedEof, false⟩) := by
  obtain ⟨m, b, hm, hb, hbl, -, rest', hC⟩ :=
    cut_aux hf fl sink.ob.tree _ (Dec.new sink.ob.root sink.ob.tree q s) sink [] [] 0 0 f.k rc h hpos
  rw [Nat.zero_add] at hm hb
  subst hm hb
  have hcut : decodeRanges hf fl (s.take rc.off) q sink =
      { decodeRangesUpTo hf fl s q sink rc.item with
        terminal := .err (rc.fail ⟨.unexpectedEof, false⟩), rest := rest' } := hC
  rw [readR_stop hf fl s q sink f h, hcut]
  exact ⟨hbl, rfl, rfl, rfl, rfl, rfl⟩

/-- **`readR_unreached`**: if the fault-free run makes at most `f.k` read calls, the failing call is
never made and the run is the fault-free run (all five observables) -/
theorem readR_unreached (fl : Flavour) (s : List UInt8) (q : Ranges) (sink : Sink H) (f : ReadFault)
    (h : (readCalls hf fl s q sink).length ≤ f.k) :
    decodeRangesR hf fl s q sink (some f) = decodeRanges hf fl s q sink := by
  obtain ⟨k, e⟩ := f
  exact (rAux_trace hf fl sink.ob.tree k e _ (Dec.new sink.ob.root sink.ob.tree q s) 0 sink [] [] 0 0
    (Nat.zero_le _)).2 h

/-- **`readR_off`**: where a read call is made – the decoder yields (at least) the `rc.item` items in
front of it, and `rc.off` is the total wire size of exactly these items -/
theorem readR_off (fl : Flavour) (s : List UInt8) (q : Ranges) (sink : Sink H) {rc : ReadCall}
    (h : rc ∈ readCalls hf fl s q sink) :
    rc.item ≤ (decodeAll hf fl sink.ob.root sink.ob.tree q s).items.length ∧
    rc.off = DecSim.itemsSize ((decodeAll hf fl sink.ob.root sink.ob.tree q s).items.take rc.item) := by
  obtain ⟨m, hm, hml, hoff⟩ :=
    calls_items hf fl sink.ob.tree _ (Dec.new sink.ob.root sink.ob.tree q s) sink 0 0 rc h
  rw [Nat.zero_add] at hm hoff
  subst hm
  exact ⟨hml, hoff⟩

/-- the error reported for a failed read: the not-found variant for `UnexpectedEof`, `Io` otherwise -/
theorem fail_kind (rc : ReadCall) (e : IoErr) :
    rc.fail e = (if e.kind == .unexpectedEof then rc.fail ⟨.unexpectedEof, false⟩ else .io e) := by
  obtain ⟨j, off, ch⟩ := rc
  cases ch <;> simp only [ReadCall.fail, DecodeError.maybeParentNotFound,
    DecodeError.maybeLeafNotFound] <;> split <;> rfl

/-- every faulty run is the fault-free run or the fault-free run stopped in front of an item -/
theorem readR_cases (fl : Flavour) (s : List UInt8) (q : Ranges) (sink : Sink H) (f : Option ReadFault) :
    decodeRangesR hf fl s q sink f = decodeRanges hf fl s q sink ∨
    ∃ fk rc, f = some fk ∧ (readCalls hf fl s q sink)[fk.k]? = some rc ∧
      rc.item < PrePartial.fuelFor (Dec.new sink.ob.root sink.ob.tree q s).iter.tree + 1 ∧
      decodeRangesR hf fl s q sink f =
        { decodeRangesUpTo hf fl s q sink rc.item with terminal := .err (rc.fail fk.err) } := by
  cases f with
  | none => exact .inl (readR_none hf fl s q sink)
  | some f =>
    cases h : (readCalls hf fl s q sink)[f.k]? with
    | none =>
      exact .inl (readR_unreached hf fl s q sink f (by simpa using h))
    | some rc =>
      refine .inr ⟨f, rc, rfl, h, ?_, readR_stop hf fl s q sink f h⟩
      obtain ⟨k, e⟩ := f
      obtain ⟨m, hm, hlt, -⟩ :=
        (rAux_trace hf fl sink.ob.tree k e _ (Dec.new sink.ob.root sink.ob.tree q s) 0 sink [] [] 0 0
          (Nat.zero_le _)).1 rc h
      rw [Nat.zero_add] at hm
      rw [hm]; exact hlt

/-! ## 4. prefix, terminal, no panic -/

/-- **`readR_prefix`**: the target writes and the saves of a faulty run are a prefix of those of the
fault-free run on the same stream -/
theorem readR_prefix (fl : Flavour) (s : List UInt8) (q : Ranges) (sink : Sink H)
    (f : Option ReadFault) :
    (decodeRangesR hf fl s q sink f).writes <+: (decodeRanges hf fl s q sink).writes ∧
    (decodeRangesR hf fl s q sink f).saves <+: (decodeRanges hf fl s q sink).saves := by
  rcases readR_cases hf fl s q sink f with h | ⟨fk, rc, -, -, hlt, h⟩
  · rw [h]; exact ⟨List.prefix_refl _, List.prefix_refl _⟩
  · rw [h]
    exact aux_fuel_prefix hf fl sink.ob.tree rc.item _ _ sink [] [] (by omega)

/-- a faulty run ends as the fault-free run does, or with the mapped injected error of a read call -/
theorem readR_terminal (fl : Flavour) (s : List UInt8) (q : Ranges) (sink : Sink H)
    (f : Option ReadFault) :
    (decodeRangesR hf fl s q sink f).terminal = (decodeRanges hf fl s q sink).terminal ∨
    ∃ fk rc, f = some fk ∧ (readCalls hf fl s q sink)[fk.k]? = some rc ∧
      (decodeRangesR hf fl s q sink f).terminal = .err (rc.fail fk.err) := by
  rcases readR_cases hf fl s q sink f with h | ⟨fk, rc, h1, h2, -, h⟩
  · rw [h]; exact .inl rfl
  · exact .inr ⟨fk, rc, h1, h2, by rw [h]⟩

/-- a failing read never turns into a panic: if the fault-free run does not panic, no faulty run does -/
theorem readR_no_panic_of (fl : Flavour) (s : List UInt8) (q : Ranges) (sink : Sink H)
    (f : Option ReadFault) (h : (decodeRanges hf fl s q sink).terminal ≠ .panic) :
    (decodeRangesR hf fl s q sink f).terminal ≠ .panic := by
  rcases readR_terminal hf fl s q sink f with h' | ⟨fk, rc, -, -, h'⟩
  · rw [h']; exact h
  · rw [h']; exact fun h => by cases h

/-- **`readR_no_panic`**: under the hypothesis of `C09.no_panic` (claimed size `≤ 2^63`; any stream,
block size, query, flavour, read fault), with an outboard that cannot panic in `save` (the io kinds
and `EmptyOutboard`), `decode_ranges` with a failing read does not panic.  (For the two in-memory
kinds a `save` on a too short `Vec` panics – a property of the store, not of the stream;
`readR_no_panic_of` covers them.) -/
theorem readR_no_panic (fl : Flavour) (s : List UInt8) (q : Ranges) (sink : Sink H)
    (f : Option ReadFault) (hs : sink.ob.tree.size ≤ 2 ^ 63)
    (hk : sink.ob.kind ≠ .preMem ∧ sink.ob.kind ≠ .postMem) :
    (decodeRangesR hf fl s q sink f).terminal ≠ .panic := by
  refine readR_no_panic_of hf fl s q sink f (fun hp => ?_)
  have := aux_panic hf fl sink.ob.tree _ (Dec.new sink.ob.root sink.ob.tree q s) sink [] [] hk hp
  exact DecodeSpec.decode_no_panic hf fl sink.ob.root sink.ob.tree.size sink.ob.tree.bs q s hs this

end

/-! ## where the failing call lands, in terms of the response plan -/

section
variable (hf : HashFns H) [BEq H]
open Bao.PlanPre Bao.DecodeSpec

/-- fsm: one read call per plan item, so call number `k` is made for item number `k` -/
theorem readR_fsm_item (s : List UInt8) (q : Ranges) (sink : Sink H) {k : Nat} {rc : ReadCall}
    (h : (readCalls hf .fsm s q sink)[k]? = some rc) : rc.item = k := by
  have := calls_fsm_item hf sink.ob.tree _ (Dec.new sink.ob.root sink.ob.tree q s) sink 0 0 k rc h
  omega

/-- **`readR_plan`** (claimed size `≤ 2^63`): a read call for item number `rc.item` is made for the
`rc.item`-th item `c` of the response plan (`Tree.responseChunks` = `plan ⟨size, 0⟩ bs q'` with the
ranges erased, `C15.response_refines`), and `rc.off` is the total size of the plan items in front
of it – the `offK` of the driver operation `decrt` -/
theorem readR_plan (fl : Flavour) (s : List UInt8) (q : Ranges) (sink : Sink H) (size bs : Nat)
    (ht : sink.ob.tree = ⟨size, bs⟩) (hs : size ≤ 2 ^ 63) {rc : ReadCall}
    (h : rc ∈ readCalls hf fl s q sink) :
    ∃ c, (plan ⟨size, 0⟩ bs (Ranges.truncate q size))[rc.item]? = some c ∧
      rc.chunk = c.withoutRanges ∧
      rc.off = psize ((plan ⟨size, 0⟩ bs (Ranges.truncate q size)).take rc.item) := by
  have g := shifted_geo size 0 hs (by omega)
  obtain ⟨hh, hroot, hlt⟩ := rootLevel_spec size 0 hs
  unfold readCalls at h
  simp only [ht] at h
  unfold Dec.new at h
  simp only at h
  generalize hq : Ranges.truncate q size = q' at h ⊢
  cases q' with
  | nil =>
    obtain ⟨m, c, -, hc, -⟩ := calls_plan (ml := bs) (root := (Tree.shifted ⟨size, 0⟩).1) g hf fl
      ⟨size, bs⟩ _ [] [] [sink.ob.root] s sink.ob.root sink 0 0 rc (fun e he => by cases he) h
    simp [pending] at hc
  | cons a q'' =>
    have hv : ∀ e ∈ [((Tree.shifted ⟨size, 0⟩).1, a :: q'')],
        Valid (Tree.shifted ⟨size, 0⟩).2 e := by
      intro e he
      rw [List.mem_singleton] at he
      subst he
      exact ⟨by rw [hroot]; exact hlt, by simp⟩
    have hp : planId size 0 bs (Tree.shifted ⟨size, 0⟩).2 (Tree.shifted ⟨size, 0⟩).1
        ((Tree.shifted ⟨size, 0⟩).1, a :: q'') = plan ⟨size, 0⟩ bs (a :: q'') := by
      unfold plan
      conv => lhs; arg 6; arg 1; rw [hroot]
      exact planId_nodeOf g hlt _
    have hpend : pending size 0 bs (Tree.shifted ⟨size, 0⟩).2 (Tree.shifted ⟨size, 0⟩).1
        [((Tree.shifted ⟨size, 0⟩).1, a :: q'')] [] = plan ⟨size, 0⟩ bs (a :: q'') := by
      simp only [pending, List.nil_append, List.flatMap_cons, List.flatMap_nil, List.append_nil, hp]
    obtain ⟨m, c, hm, hc, hch, hoff⟩ := calls_plan (ml := bs) (root := (Tree.shifted ⟨size, 0⟩).1)
      g hf fl ⟨size, bs⟩ _ [((Tree.shifted ⟨size, 0⟩).1, a :: q'')] [] [sink.ob.root] s sink.ob.root
      sink 0 0 rc hv h
    rw [hpend, Nat.zero_add] at *
    subst hm
    exact ⟨c, hc, hch, hoff⟩

/-- fsm, claimed size `≤ 2^63`: if call number `k` is made then the plan has an item number `k`, the
decoder yields the `k` items in front of it (the condition `reached` of the driver operation
`decrt`), the call is made for that plan item, at the offset `offK` -/
theorem readR_reached_fsm (s : List UInt8) (q : Ranges) (sink : Sink H) (size bs : Nat)
    (ht : sink.ob.tree = ⟨size, bs⟩) (hs : size ≤ 2 ^ 63) {k : Nat} {rc : ReadCall}
    (h : (readCalls hf .fsm s q sink)[k]? = some rc) :
    k < (plan ⟨size, 0⟩ bs (Ranges.truncate q size)).length ∧
    k ≤ (decodeAll hf .fsm sink.ob.root sink.ob.tree q s).items.length ∧
    (∃ c, (plan ⟨size, 0⟩ bs (Ranges.truncate q size))[k]? = some c ∧ rc.chunk = c.withoutRanges) ∧
    rc.off = psize ((plan ⟨size, 0⟩ bs (Ranges.truncate q size)).take k) := by
  have hk := readR_fsm_item hf s q sink h
  have hmem := List.mem_of_getElem? h
  obtain ⟨c, hc, hch, hoff⟩ := readR_plan hf .fsm s q sink size bs ht hs hmem
  obtain ⟨hle, -⟩ := readR_off hf .fsm s q sink hmem
  rw [hk] at hc hoff hle
  exact ⟨(List.getElem?_eq_some_iff.1 hc).1, hle, ⟨c, hc, hch⟩, hoff⟩

end

/-! ## 3. C01 for the faulty run -/

section
variable [BEq H] [LawfulBEq H] {hf : HashFns H} {d : List UInt8}

/-- **`readR_sound`** (C01, conclusion of `C01.decodeRanges_sound`): with an outboard whose root is
the true root hash – ANY stream, claimed geometry, query, flavour and read fault – the final target
is the initial target after positioned writes of true leaves, and the final outboard is the initial
one after successful `save`s of true pairs. -/
theorem readR_sound (cf : CollisionFree hf) (hd : d.length ≤ 2 ^ 64 * 1024) (fl : Flavour)
    (s : List UInt8) (ranges : Ranges) (sink : Sink H) (f : Option ReadFault)
    (hroot : sink.ob.root = Spec.root hf d) :
    ∃ (wl : List (Nat × List UInt8)) (pl : List (Nat × H × H)),
      (∀ w ∈ wl, TrueLeaf d w.1 w.2) ∧ (∀ p ∈ pl, TruePair hf d p.2.1 p.2.2) ∧
      (decodeRangesR hf fl s ranges sink f).sink.target = applyWrites sink.target wl ∧
      (decodeRangesR hf fl s ranges sink f).sink.ob = applySaves hf sink.ob pl := by
  rcases readR_cases hf fl s ranges sink f with h | ⟨fk, rc, -, -, -, h⟩
  · rw [h]; exact decodeRanges_sound cf hd fl s ranges sink hroot
  · rw [h]
    exact decodeRangesAux_sound cf hd fl _ rc.item _ sink [] [] (by
      intro x hx
      simp only [Dec.new, List.mem_singleton] at hx
      subst hx
      rw [hroot]
      exact TrueCv.root hf d)

/-- corollary (conclusion of `C01.decodeRanges_target`): a target of the blob's length keeps that
length, and every position holds its initial byte or the blob's byte -/
theorem readR_target (cf : CollisionFree hf) (hd : d.length ≤ 2 ^ 64 * 1024) (fl : Flavour)
    (s : List UInt8) (ranges : Ranges) (sink : Sink H) (f : Option ReadFault)
    (hroot : sink.ob.root = Spec.root hf d) (hlen : sink.target.length = d.length) :
    (decodeRangesR hf fl s ranges sink f).sink.target.length = d.length ∧
    ∀ i : Nat, (decodeRangesR hf fl s ranges sink f).sink.target[i]? = sink.target[i]? ∨
      (decodeRangesR hf fl s ranges sink f).sink.target[i]? = d[i]? := by
  obtain ⟨wl, _, hw, _, ht, _⟩ := readR_sound cf hd fl s ranges sink f hroot
  rw [ht]
  exact Mixed.applyWrites wl sink.target ⟨hlen, fun _ => .inl rfl⟩ hw

/-- **`readR_sound_loc`** (conclusion and hypothesis of `C01.decodeRanges_sound_loc`): the same
under collision freedom localised to the hash inputs of the honest hashing of `d` and of the
decoder run on the stream `s` (the faulty run evaluates a subset of the latter) -/
theorem readR_sound_loc (hd : d.length ≤ 2 ^ 64 * 1024) (fl : Flavour) (s : List UInt8)
    (ranges : Ranges) (sink : Sink H) (f : Option ReadFault) (hroot : sink.ob.root = Spec.root hf d)
    (cf : CollisionFreeOn hf (fun x => x ∈ trueEvals hf d ∨
      x ∈ runEvals hf fl sink.ob.root sink.ob.tree ranges s)) :
    ∃ (wl : List (Nat × List UInt8)) (pl : List (Nat × H × H)),
      (∀ w ∈ wl, TrueLeaf d w.1 w.2) ∧ (∀ p ∈ pl, TruePair hf d p.2.1 p.2.2) ∧
      (decodeRangesR hf fl s ranges sink f).sink.target = applyWrites sink.target wl ∧
      (decodeRangesR hf fl s ranges sink f).sink.ob = applySaves hf sink.ob pl := by
  rcases readR_cases hf fl s ranges sink f with h | ⟨fk, rc, -, -, hlt, h⟩
  · rw [h]; exact decodeRanges_sound_loc hd fl s ranges sink hroot cf
  · rw [h]
    refine decodeRangesAux_sound_loc hd fl _ rc.item _ sink [] [] (cf.mono ?_) (by
      intro x hx
      simp only [Dec.new, List.mem_singleton] at hx
      subst hx
      rw [hroot]
      exact TrueCvL.root hf d)
    intro x hx
    exact hx.imp id (runEvalsAux_fuel hf fl rc.item _ _ (by omega) x)

/-- local form of `readR_target` -/
theorem readR_target_loc (hd : d.length ≤ 2 ^ 64 * 1024) (fl : Flavour) (s : List UInt8)
    (ranges : Ranges) (sink : Sink H) (f : Option ReadFault) (hroot : sink.ob.root = Spec.root hf d)
    (cf : CollisionFreeOn hf (fun x => x ∈ trueEvals hf d ∨
      x ∈ runEvals hf fl sink.ob.root sink.ob.tree ranges s))
    (hlen : sink.target.length = d.length) :
    (decodeRangesR hf fl s ranges sink f).sink.target.length = d.length ∧
    ∀ i : Nat, (decodeRangesR hf fl s ranges sink f).sink.target[i]? = sink.target[i]? ∨
      (decodeRangesR hf fl s ranges sink f).sink.target[i]? = d[i]? := by
  obtain ⟨wl, _, hw, _, ht, _⟩ := readR_sound_loc hd fl s ranges sink f hroot cf
  rw [ht]
  exact Mixed.applyWrites wl sink.target ⟨hlen, fun _ => .inl rfl⟩ hw

end

/-! ## non-vacuity -/

section examples

/-- a toy hash with the 32-byte wire round trip (as in `Props/C09.lean`) -/
private def toy : HashFns UInt8 where
  chunkCv := fun c b r => b.foldl (· + ·) (UInt8.ofNat c + if r then 1 else 0)
  parentCv := fun l r f => l + 2 * r + if f then 1 else 0
  ofBytes := fun b => b.headD 0
  toBytes := fun h => List.replicate 32 h

/-- a blob of two chunks; its honest full stream: root pair, chunk 0, chunk 1 (64 + 1024 + 476 bytes) -/
private def blob : List UInt8 := List.replicate 1500 7
private def strm : List UInt8 := Spec.encode toy blob 0 [0]
private def sink0 : Sink UInt8 :=
  { ob := { kind := .preMem, root := Spec.root toy blob, tree := ⟨1500, 0⟩, data := List.replicate 64 0 },
    target := List.replicate 1500 0 }
/-- the empty blob: a single leaf of size 0 -/
private def sinkE : Sink UInt8 :=
  { ob := { kind := .preMem, root := Spec.root toy [], tree := ⟨0, 0⟩, data := [] }, target := [] }

private def eOther : IoErr := ⟨.other, true⟩
private def eEof : IoErr := ⟨.unexpectedEof, true⟩

/-- fsm and sync on the whole stream: one read call per item -/
private theorem calls_fsm : readCalls toy .fsm strm [0] sink0 =
    [⟨0, 0, .parent 0 true true true []⟩, ⟨1, 64, .leaf 0 1024 false []⟩,
     ⟨2, 1088, .leaf 1 476 false []⟩] := by decide +kernel
private theorem calls_sync : readCalls toy .sync strm [0] sink0 =
    [⟨0, 0, .parent 0 true true true []⟩, ⟨1, 64, .leaf 0 1024 false []⟩,
     ⟨2, 1088, .leaf 1 476 false []⟩] := by decide +kernel
/-- sync on a stream that ends inside chunk 0: `read_exact` calls twice for it; fsm calls once -/
private theorem calls_sync_short : readCalls toy .sync (strm.take 100) [0] sink0 =
    [⟨0, 0, .parent 0 true true true []⟩, ⟨1, 64, .leaf 0 1024 false []⟩,
     ⟨1, 64, .leaf 0 1024 false []⟩] := by decide +kernel
private theorem calls_fsm_short : readCalls toy .fsm (strm.take 100) [0] sink0 =
    [⟨0, 0, .parent 0 true true true []⟩, ⟨1, 64, .leaf 0 1024 false []⟩] := by decide +kernel
/-- the empty blob: fsm makes one call (of length 0), sync none -/
private theorem calls_fsm_empty : readCalls toy .fsm [] [0] sinkE = [⟨0, 0, .leaf 0 0 true []⟩] := by
  decide +kernel
private theorem calls_sync_empty : readCalls toy .sync [] [0] sinkE = [] := by decide +kernel

/-- `readR_stop`, leaf fault, fsm: call 1 is made for item 1 -/
example : decodeRangesR toy .fsm strm [0] sink0 (some ⟨1, eOther⟩) =
    { decodeRangesUpTo toy .fsm strm [0] sink0 1 with terminal := .err (.io eOther) } :=
  readR_stop toy .fsm strm [0] sink0 ⟨1, eOther⟩ (rc := ⟨1, 64, .leaf 0 1024 false []⟩)
    (by rw [calls_fsm]; rfl)

/-- `readR_stop`, the zero-length leaf of the empty blob (fsm): the call is made and fails -/
example : decodeRangesR toy .fsm [] [0] sinkE (some ⟨0, eEof⟩) =
    { decodeRangesUpTo toy .fsm [] [0] sinkE 0 with terminal := .err (.leafNotFound 0) } :=
  readR_stop toy .fsm [] [0] sinkE ⟨0, eEof⟩ (rc := ⟨0, 0, .leaf 0 0 true []⟩)
    (by rw [calls_fsm_empty]; rfl)

/-- `readR_first`: the zero-length leaf of the empty blob, fsm – the initial sink, nothing done -/
example : decodeRangesR toy .fsm [] [0] sinkE (some ⟨0, eOther⟩) = ⟨sinkE, .err (.io eOther), [], [], []⟩ :=
  readR_first toy .fsm [] [0] sinkE ⟨0, eOther⟩ (rc := ⟨0, 0, .leaf 0 0 true []⟩)
    (by rw [calls_fsm_empty]; rfl) rfl

/-- `readR_reached_fsm` -/
example : 2 < (PlanPre.plan ⟨1500, 0⟩ 0 (Ranges.truncate [0] 1500)).length :=
  (readR_reached_fsm toy strm [0] sink0 1500 0 rfl (by decide) (k := 2)
    (rc := ⟨2, 1088, .leaf 1 476 false []⟩) (by rw [calls_fsm]; rfl)).1

/-- `readR_cut`, parent fault (fsm, `Other`): nothing written, terminal `Io(Other*)` -/
example : (decodeRangesR toy .fsm strm [0] sink0 (some ⟨0, eOther⟩)).sink
      = (decodeRanges toy .fsm (strm.take 0) [0] sink0).sink ∧
    (decodeRangesR toy .fsm strm [0] sink0 (some ⟨0, eOther⟩)).terminal = .err (.io eOther) ∧
    (decodeRanges toy .fsm (strm.take 0) [0] sink0).terminal = .err (.parentNotFound 0) := by
  obtain ⟨-, h1, -, -, h4, h5⟩ := readR_cut toy .fsm strm [0] sink0 ⟨0, eOther⟩
    (rc := ⟨0, 0, .parent 0 true true true []⟩) (by rw [calls_fsm]; rfl) (by decide)
  exact ⟨h1, h4, h5⟩

/-- `readR_cut`, leaf fault (sync, `UnexpectedEof`): the run on the stream cut at 1088 -/
example : (decodeRangesR toy .sync strm [0] sink0 (some ⟨2, eEof⟩)).writes
      = (decodeRanges toy .sync (strm.take 1088) [0] sink0).writes ∧
    (decodeRangesR toy .sync strm [0] sink0 (some ⟨2, eEof⟩)).terminal = .err (.leafNotFound 1) := by
  obtain ⟨-, -, h2, -, h4, -⟩ := readR_cut toy .sync strm [0] sink0 ⟨2, eEof⟩
    (rc := ⟨2, 1088, .leaf 1 476 false []⟩) (by rw [calls_sync]; rfl) (by decide)
  exact ⟨h2, h4⟩

/-- `readR_cut`, sync, the SECOND call of a `read_exact` on a short stream fails: `Io(Other*)`
instead of `LeafNotFound(0)` -/
example : (decodeRangesR toy .sync (strm.take 100) [0] sink0 (some ⟨2, eOther⟩)).terminal
      = .err (.io eOther) ∧
    (decodeRanges toy .sync (strm.take 100) [0] sink0).terminal = .err (.leafNotFound 0) := by
  obtain ⟨-, -, -, -, h4, -⟩ := readR_cut toy .sync (strm.take 100) [0] sink0 ⟨2, eOther⟩
    (rc := ⟨1, 64, .leaf 0 1024 false []⟩) (by rw [calls_sync_short]; rfl) (by decide)
  exact ⟨h4, by decide +kernel⟩

/-- … whereas the fsm run makes no third call: `readR_unreached` -/
example : decodeRangesR toy .fsm (strm.take 100) [0] sink0 (some ⟨2, eOther⟩)
    = decodeRanges toy .fsm (strm.take 100) [0] sink0 :=
  readR_unreached toy .fsm (strm.take 100) [0] sink0 ⟨2, eOther⟩ (by rw [calls_fsm_short]; decide)

/-- `readR_unreached`: a fourth call is never made -/
example : decodeRangesR toy .sync strm [0] sink0 (some ⟨3, eOther⟩) = decodeRanges toy .sync strm [0] sink0 :=
  readR_unreached toy .sync strm [0] sink0 ⟨3, eOther⟩ (by rw [calls_sync]; decide)

/-- `readR_unreached`: sync makes no read call at all for the empty blob -/
example : decodeRangesR toy .sync [] [0] sinkE (some ⟨0, eEof⟩) = decodeRanges toy .sync [] [0] sinkE :=
  readR_unreached toy .sync [] [0] sinkE ⟨0, eEof⟩ (by rw [calls_sync_empty]; decide)

/-- `readR_off` -/
example : (2 : Nat) ≤ (decodeAll toy .fsm sink0.ob.root sink0.ob.tree [0] strm).items.length ∧
    1088 = DecSim.itemsSize ((decodeAll toy .fsm sink0.ob.root sink0.ob.tree [0] strm).items.take 2) :=
  readR_off toy .fsm strm [0] sink0 (rc := ⟨2, 1088, .leaf 1 476 false []⟩)
    (by rw [calls_fsm]; decide)

/-- `readR_fsm_item`, `readR_plan` -/
example : (⟨2, 1088, .leaf 1 476 false []⟩ : ReadCall).item = 2 :=
  readR_fsm_item toy strm [0] sink0 (k := 2) (by rw [calls_fsm]; rfl)

example : ∃ c, (PlanPre.plan ⟨1500, 0⟩ 0 (Ranges.truncate [0] 1500))[2]? = some c ∧
    Chunk.leaf 1 476 false [] = c.withoutRanges ∧
    1088 = DecodeSpec.psize ((PlanPre.plan ⟨1500, 0⟩ 0 (Ranges.truncate [0] 1500)).take 2) :=
  readR_plan toy .sync strm [0] sink0 1500 0 rfl (by decide) (rc := ⟨2, 1088, .leaf 1 476 false []⟩)
    (by rw [calls_sync]; decide)

/-- the runs are not trivial: the faulty run has written chunk 0 and saved the root pair, the
fault-free run goes on to chunk 1 -/
example : (decodeRangesR toy .fsm strm [0] sink0 (some ⟨2, eEof⟩)).writes = [(0, 1024)] ∧
    (decodeRangesR toy .fsm strm [0] sink0 (some ⟨2, eEof⟩)).saves = [0] ∧
    (decodeRangesR toy .fsm strm [0] sink0 (some ⟨2, eEof⟩)).terminal = .err (.leafNotFound 1) ∧
    (decodeRanges toy .fsm strm [0] sink0).writes = [(0, 1024), (1024, 476)] ∧
    (decodeRanges toy .fsm strm [0] sink0).terminal = .done := by decide +kernel

/-- `readR_no_panic_of` -/
example : (decodeRangesR toy .sync strm [0] sink0 (some ⟨1, eOther⟩)).terminal ≠ .panic :=
  readR_no_panic_of toy .sync strm [0] sink0 _ (by decide +kernel)

/-- `readR_no_panic`: an io-backed outboard, any stream and fault -/
example (s : List UInt8) (f : Option ReadFault) :
    (decodeRangesR toy .fsm s [0] { sink0 with ob := { sink0.ob with kind := .postIo } } f).terminal
      ≠ .panic :=
  readR_no_panic toy .fsm s [0] _ f (by decide) (by decide)

/-! C01 for the faulty run: the symbolic collision free hash, a 3-chunk blob, a tampered stream,
a wrong claimed geometry (as in `Props/C01.lean`) -/

private def blob3 : List UInt8 := List.replicate 2500 7
private def tampered : List UInt8 := List.replicate 64 1 ++ List.replicate 2500 8
private theorem blob3_len : blob3.length ≤ 2 ^ 64 * 1024 := by
  simp only [blob3, List.length_replicate]; omega
private def sinkT : Sink Term :=
  { ob := { kind := .preMem, root := Spec.root termHash blob3, tree := ⟨4000, 1⟩, data := [] },
    target := List.replicate 2500 0 }
private theorem sinkT_root : sinkT.ob.root = Spec.root termHash blob3 := by simp only [sinkT]

example (f : Option ReadFault) : ∃ (wl : List (Nat × List UInt8)) (pl : List (Nat × Term × Term)),
    (∀ w ∈ wl, TrueLeaf blob3 w.1 w.2) ∧ (∀ p ∈ pl, TruePair termHash blob3 p.2.1 p.2.2) ∧
    (decodeRangesR termHash .sync tampered [0] sinkT f).sink.target = applyWrites sinkT.target wl ∧
    (decodeRangesR termHash .sync tampered [0] sinkT f).sink.ob = applySaves termHash sinkT.ob pl :=
  readR_sound termHash_cf blob3_len .sync tampered [0] sinkT f sinkT_root

example : (decodeRangesR termHash .fsm tampered [0] sinkT (some ⟨1, eEof⟩)).sink.target.length
      = blob3.length ∧
    ∀ i : Nat, (decodeRangesR termHash .fsm tampered [0] sinkT (some ⟨1, eEof⟩)).sink.target[i]?
        = sinkT.target[i]? ∨
      (decodeRangesR termHash .fsm tampered [0] sinkT (some ⟨1, eEof⟩)).sink.target[i]? = blob3[i]? :=
  readR_target termHash_cf blob3_len .fsm tampered [0] sinkT _ sinkT_root (by
    simp only [sinkT, blob3, List.length_replicate])

example (f : Option ReadFault) : ∃ (wl : List (Nat × List UInt8)) (pl : List (Nat × Term × Term)),
    (∀ w ∈ wl, TrueLeaf blob3 w.1 w.2) ∧ (∀ p ∈ pl, TruePair termHash blob3 p.2.1 p.2.2) ∧
    (decodeRangesR termHash .fsm tampered [0] sinkT f).sink.target = applyWrites sinkT.target wl ∧
    (decodeRangesR termHash .fsm tampered [0] sinkT f).sink.ob = applySaves termHash sinkT.ob pl :=
  readR_sound_loc blob3_len .fsm tampered [0] sinkT f sinkT_root (collisionFree_on termHash_cf _)

example (f : Option ReadFault) :
    (decodeRangesR termHash .fsm tampered [0] sinkT f).sink.target.length = blob3.length :=
  (readR_target_loc blob3_len .fsm tampered [0] sinkT f sinkT_root (collisionFree_on termHash_cf _) (by
    simp only [sinkT, blob3, List.length_replicate])).1

end examples

/-
## Status (task A6: `decode_ranges` with one failing read of the stream)

All theorems depend on `propext`, `Classical.choice`, `Quot.sound` only (`readR_none`, `readR_off`,
`readR_fsm_item`: `propext`, `Quot.sound`; `fail_kind`: none).  Every statement is for every hash
instance, flavour, stream, claimed geometry, query, sink and fault unless a hypothesis says otherwise.

PROVED
  1. `readR_none`        `decodeRangesR … none = decodeRanges …` (all five observables).
  2. `readR_stop`        call `f.k` of the fault-free run exists (`(readCalls …)[f.k]? = some rc`) → the faulty
                         run IS the fault-free loop stopped in front of item `rc.item`, terminal `.err (rc.fail f.err)`
                         (also for the zero-length leaf; `readR_first`: item 0 → initial sink, nothing done).
     `readR_cut`         … and for a non-empty item: `rc.off ≤ |s|`; sink, writes, saves = those of
                         `decodeRanges` on `s.take rc.off`; terminal `.err (rc.fail f.err)` where the cut run has
                         `.err (rc.fail UnexpectedEof)` (`fail_kind`: not-found variant for `UnexpectedEof`, `Io(e)` else).
     `readR_unreached`   `(readCalls …).length ≤ f.k` → the run equals `decodeRanges … s` (all five observables).
     `readR_off`         `rc.off` = total wire size of the `rc.item` items the decoder yields in front of the call.
     `readR_plan`        (claimed size ≤ 2^63) `rc.chunk` is item `rc.item` of the response plan (ranges erased),
                         `rc.off = psize (plan.take rc.item)` – the `offK` of `opDecrT`.
     `readR_fsm_item`, `readR_reached_fsm`   fsm: call `k` is for item `k`; reached → `k < plan.length`,
                         `k ≤ items.length` (the `reached` of `opDecrT`).
     `readR_cases`       every run is the fault-free run or a stopped one (the disjunction used below).
  3. `readR_sound`, `readR_target`          conclusions of `C01.decodeRanges_sound` / `_target`, global `CollisionFree`.
     `readR_sound_loc`, `readR_target_loc`  conclusions AND hypothesis of `C01.decodeRanges_sound_loc` / `_target_loc`
                         (collision freedom on `trueEvals hf d` ∪ `runEvals` of the run on the SAME stream `s`).
  4. `readR_prefix`      writes and saves are prefixes of those of the fault-free run on the same stream.
     `readR_terminal`    terminal = fault-free terminal, or `.err (rc.fail f.err)` of a read call.
     `readR_no_panic_of` fault-free run does not panic → no faulty run does.
     `readR_no_panic`    claimed size ≤ 2^63 (hypothesis of `C09.no_panic`) and an outboard kind whose `save`
                         cannot panic (`preIo`, `postIo`, `empty`) → no panic, any stream / fault.
_partial: none.
OPEN
  -- OPEN: `readR_no_panic` for `.preMem` / `.postMem` with `data.length = outboardSize`, `bs ≤ 10`: needs "every
     node `decode_ranges` saves is a node of the claimed tree" (plan nodes are `InTree`), then `C12Store.no_panic`.
     (`readR_no_panic_of` reduces it to the same statement about the plain `decodeRanges`, which is not proved
     anywhere yet either.)
  -- OPEN: converse of `readR_reached_fsm` (`k < plan.length ∧ k ≤ items.length` → call `k` is made): needs
     "no `save` fails before item `k`", i.e. the same store facts.

CORRECTION to the task statement / to `Bao.Ops.opDecrT` ("one read call per plan item"): FALSE for the sync
flavour on a stream that ends INSIDE an item.  std's `read_exact` then makes TWO calls for that item (partial
bytes, then `Ok(0)`), and if the second one is the failing call the real code reports the injected error
where `opDecrT` predicts the not-found error of the plain run.  Harness built from a clean snapshot of /repo
(the shared `harness/target` binary was stale against a seeded change while this was written), 36 cases,
`decodeRangesR` = real code on all 36, `opDecrT` ≠ real code on these 4:
  decrt 2 Other sync preMem rnd:5:3000 0 0 rnd:5:3000/0/0 0:0:100 7            real Io(Other*)            opDecrT ParentNotFound(0)
  decrt 4 ConnectionReset sync preMem rnd:5:3000 0 0 rnd:5:3000/0/0 0:0:1500 7 real Io(ConnectionReset*) opDecrT LeafNotFound(1)
  decrt 1 Other sync preMem rnd:5:3000 0 0 rnd:5:3000/0/0 0:0:10 7             real Io(Other*)            opDecrT ParentNotFound(1)
  decrt 6 Other sync preMem rnd:7:5000 0 1,3 rnd:7:5000/0/1,3 0:0:1400 7       real Io(Other*)            opDecrT LeafNotFound(2)
`readExactR` models the two calls (`readCallsOf … = 2`); the theorems above hold unchanged because "reached" is
phrased with `readCalls` (for such a call `readR_cut` cuts at the offset of the item the stream ends in).
The generators only produce `decrt` cases on complete or byte-flipped streams, never truncated ones, which is
why the disagreement has not shown up.
NOT MODELLED: `ErrorKind::Interrupted` (no such `IoKind`); sync retries it, fsm reports it.
-/

end Bao.C01Read
