import BaoProofs.Lemmas.ScriptL

/-!
# C11: results do not depend on how the transport slices the bytes

"Outboard creation, encoding and decoding give the same results no matter how the underlying
reader fragments its data (one byte at a time, arbitrary short reads, cuts at or next to item
boundaries) and, for the async code, no matter where the io object suspends between polls."

Model (`BaoModel/Script.lean`): a transport is a script `List Frag` (`.bytes b` = the next `read`
calls can deliver at most `b`, `.pending` = one `Poll::Pending`); the crate touches a stream only
through exact-length reads, modelled by the loop `readExactFrags`.  A `Client σ ρ` is any program
that talks to its transport only through exact reads (`step` either finishes with a `ρ` or asks for
`n` bytes and continues with the outcome).  `runFrags` runs a client against a script, `runPlain`
against the plain byte list.

Proved here, for every script (empty fragments, any number of `pending`s, any cut positions):
* `readExact_concat`  – one exact read over a script = the plain exact read of the concatenation;
* `invariance`, `invariance_two` – any client, any fuel, any state: result and unread bytes only
  depend on `concat frags` (nothing is assumed about the bytes: honest, truncated, tampered);
* `decode_is_client` – the response decoder (`Dec.run`, both flavours) *is* such a client
  (`decClient`: 64 bytes per parent plan item, `size` bytes per leaf plan item), hence
  `decode_invariance`: decoding over any script yields the items and terminal of `decodeAll` on the
  concatenated bytes;
* `outboard_is_client`, `outboard_invariance` (and the `…PostOrder` twins) – the same for outboard
  creation reading a fragmenting data source.
-/

namespace Bao.C11

open Bao Bao.Script Bao.ScriptL

variable {H : Type}

/-! ## one exact read -/

/-- equational form: forgetting how the unread part is sliced (`flat`), the exact-read loop over a
script is `readExact` on the concatenated bytes -/
theorem readExact_concat_eq (frags : List Frag) (n : Nat) :
    flat (readExactFrags frags n) = readExact (concat frags) n :=
  flat_readExactFrags frags n

/-- `readExactFrags frags n` and `readExact (concat frags) n` agree: one is `.ok (b, _)` iff the
other is, with the same `b`, and the remaining script concatenates to the remaining bytes; one is
`.error e` iff the other is, with the same `e` -/
theorem readExact_concat (frags : List Frag) (n : Nat) :
    (∀ b fr, readExactFrags frags n = .ok (b, fr) → readExact (concat frags) n = .ok (b, concat fr)) ∧
    (∀ b rest, readExact (concat frags) n = .ok (b, rest) →
      ∃ fr, readExactFrags frags n = .ok (b, fr) ∧ concat fr = rest) ∧
    (∀ e, readExactFrags frags n = .error e ↔ readExact (concat frags) n = .error e) :=
  ⟨fun _ _ h => readExactFrags_ok h, fun _ _ h => readExact_ok_frags h,
   fun _ => ⟨readExactFrags_error, readExact_error_frags⟩⟩

/-- success across two fragments, a `pending` and an empty fragment … -/
example : readExactFrags [.bytes [1, 2], .pending, .bytes [], .bytes [3]] 3 = .ok ([1, 2, 3], []) ∧
    readExact (concat [.bytes [1, 2], .pending, .bytes [], .bytes [3]]) 3 = .ok ([1, 2, 3], []) :=
  ⟨rfl, rfl⟩
/-- … a cut inside a fragment (the remainder stays in the script) … -/
example : readExactFrags [.bytes [1, 2], .pending, .bytes [], .bytes [3, 4]] 3 =
    .ok ([1, 2, 3], [.bytes [4]]) := rfl
/-- … and a failure (end of script after 3 of 4 bytes) -/
example : readExactFrags [.bytes [1, 2], .pending, .bytes [], .bytes [3]] 4 =
      .error ⟨.unexpectedEof, false⟩ ∧
    readExact (concat [.bytes [1, 2], .pending, .bytes [], .bytes [3]]) 4 =
      .error ⟨.unexpectedEof, false⟩ := ⟨rfl, rfl⟩

/-! ## any client -/

/-- running a client against a script = running it against the plain concatenated bytes: same
result (or same running out of fuel), same unread bytes -/
theorem invariance {σ ρ : Type} (c : Client σ ρ) (fuel : Nat) (s : σ) (frags : List Frag) :
    runFrags c fuel s frags = runPlain c fuel s (concat frags) :=
  runFrags_eq_runPlain c fuel s frags

/-- two scripts that deliver the same bytes give the same run -/
theorem invariance_two {σ ρ : Type} (c : Client σ ρ) (fuel : Nat) (s : σ) (f₁ f₂ : List Frag)
    (h : concat f₁ = concat f₂) : runFrags c fuel s f₁ = runFrags c fuel s f₂ := by
  rw [invariance, invariance, h]

/-- one byte at a time with polls in between vs. one block -/
example : concat [.bytes [1], .pending, .pending, .bytes [2], .bytes [], .bytes [3]] =
    concat [.bytes [1, 2, 3]] := by decide

/-! ## the decoder is a client -/

/-- a toy hash instance for the examples -/
def toy : HashFns Nat :=
  ⟨fun c d r => c + d.length + r.toNat, fun l r root => 3 * l + 5 * r + root.toNat,
   fun b => b.length, fun _ => []⟩

/-- fuel that `Dec.run` gives to `Dec.runAux` for a fresh decoder -/
def decFuel (tree : Tree) (ranges : Ranges) : Nat :=
  PrePartial.fuelFor (Response.new tree (Ranges.truncate ranges tree.size)).tree + 1

/-- initial client state of a decoder for `(root, tree, ranges)` -/
def decInit (root : H) (tree : Tree) (ranges : Ranges) : DSt H :=
  DSt.ofDec (decFuel tree ranges) (Dec.new root tree ranges []) []

/-- `decClient hf fl`, run on the plain stream `s` with enough fuel (one step per item plus two),
produces exactly the items and the terminal of `Dec.run hf fl (Dec.new root tree ranges s)`
(= `decodeAll`), and the same unread bytes whenever `Dec.run` reports a transport position
(`restKept`: terminal `done` or a hash mismatch).  After a failed read (`readFailed`: `…NotFound`)
the transport is empty (`Dec.run` keeps the bytes of the short read instead); for a `panic`
terminal the two `rest`s are unrelated (`Dec.runAux` reports the position before the read). -/
theorem decode_is_client (hf : HashFns H) [BEq H] (fl : Flavour) (root : H) (tree : Tree)
    (ranges : Ranges) (s : List UInt8) (F : Nat) (hF : decFuel tree ranges + 2 ≤ F) :
    ∃ rest', runPlain (decClient hf fl) F (decInit root tree ranges) s =
        some (((decodeAll hf fl root tree ranges s).items,
               (decodeAll hf fl root tree ranges s).terminal), rest') ∧
      (restKept (decodeAll hf fl root tree ranges s).terminal = true →
        rest' = (decodeAll hf fl root tree ranges s).rest) ∧
      (readFailed (decodeAll hf fl root tree ranges s).terminal = true → rest' = []) := by
  have := runPlain_decClient hf fl (decFuel tree ranges) F hF (Dec.new root tree ranges s) []
  simpa [decodeAll, Dec.run, decFuel, decInit, DSt.ofDec, Dec.new] using this

/-- C11 for decoding: over ANY script the decoder yields the items and terminal that `decodeAll`
computes from the concatenated bytes (and the same unread bytes on `done` / hash mismatch) -/
theorem decode_invariance (hf : HashFns H) [BEq H] (fl : Flavour) (root : H) (tree : Tree)
    (ranges : Ranges) (frags : List Frag) (F : Nat) (hF : decFuel tree ranges + 2 ≤ F) :
    ∃ rest', runFrags (decClient hf fl) F (decInit root tree ranges) frags =
        some (((decodeAll hf fl root tree ranges (concat frags)).items,
               (decodeAll hf fl root tree ranges (concat frags)).terminal), rest') ∧
      (restKept (decodeAll hf fl root tree ranges (concat frags)).terminal = true →
        rest' = (decodeAll hf fl root tree ranges (concat frags)).rest) := by
  obtain ⟨rest', h1, h2, _⟩ := decode_is_client hf fl root tree ranges (concat frags) F hF
  exact ⟨rest', by rw [invariance, h1], h2⟩

/-- a 5-byte blob (root `0 + 5 + 1` under `toy`) delivered as `7 7 | pending | (empty) | 7 7 7 9`:
one leaf item, terminal `done`, the trailing `9` is left unread -/
example : decFuel ⟨5, 0⟩ [0] + 2 ≤ 20 ∧
    runFrags (decClient toy .fsm) 20 (decInit 6 ⟨5, 0⟩ [0])
      [.bytes [7, 7], .pending, .bytes [], .bytes [7, 7, 7, 9]] =
      some (([.leaf 0 [7, 7, 7, 7, 7]], .done), [9]) ∧
    restKept (decodeAll toy .fsm 6 ⟨5, 0⟩ [0] [7, 7, 7, 7, 7, 9]).terminal = true := by
  decide

/-- a truncated stream: terminal `leafNotFound`, transport drained -/
example : runFrags (decClient toy .sync) 20 (decInit 6 ⟨5, 0⟩ [0]) [.bytes [7, 7], .pending] =
      some (([], .err (.leafNotFound 0)), []) ∧
    readFailed (decodeAll toy .sync 6 ⟨5, 0⟩ [0] [7, 7]).terminal = true := by
  decide

/-! ## outboard creation is a client of its data source -/

/-- `sync::outboard` / `fsm::outboard` (`outboard_impl`) reading the data from the plain list
`data` = the client `obClient hf (parOb hf)` (a read of `size` bytes per leaf item of the
post-order plan, a 0-byte read per parent item) run on `data` -/
theorem outboard_is_client (hf : HashFns H) (data : List UInt8) (tree : Tree) (ob : Store H)
    (F : Nat) (hF : tree.postOrderChunks.length + 2 ≤ F) :
    ∃ rest', runPlain (obClient hf (parOb hf)) F (.run tree.postOrderChunks [] ob) data =
      some (outboard hf data tree ob, rest') := by
  unfold outboard; rw [outboardLoop_eq]
  exact runPlain_obClient hf (parOb hf) _ F hF [] data ob

/-- the same for `outboard_post_order` -/
theorem outboardPostOrder_is_client (hf : HashFns H) (data : List UInt8) (tree : Tree)
    (F : Nat) (hF : tree.postOrderChunks.length + 2 ≤ F) :
    ∃ rest', runPlain (obClient hf (parPo hf)) F (.run tree.postOrderChunks [] []) data =
      some (outboardPostOrder hf data tree, rest') := by
  unfold outboardPostOrder; rw [outboardPostOrderLoop_eq]
  exact runPlain_obClient hf (parPo hf) _ F hF [] data []

/-- C11 for outboard creation: over ANY fragmentation of the data source the computed root (or
error) and the outboard written are those of `outboard` on the concatenated bytes -/
theorem outboard_invariance (hf : HashFns H) (frags : List Frag) (tree : Tree) (ob : Store H)
    (F : Nat) (hF : tree.postOrderChunks.length + 2 ≤ F) :
    ∃ rest', runFrags (obClient hf (parOb hf)) F (.run tree.postOrderChunks [] ob) frags =
      some (outboard hf (concat frags) tree ob, rest') := by
  rw [invariance]; exact outboard_is_client hf (concat frags) tree ob F hF

theorem outboardPostOrder_invariance (hf : HashFns H) (frags : List Frag) (tree : Tree)
    (F : Nat) (hF : tree.postOrderChunks.length + 2 ≤ F) :
    ∃ rest', runFrags (obClient hf (parPo hf)) F (.run tree.postOrderChunks [] []) frags =
      some (outboardPostOrder hf (concat frags) tree, rest') := by
  rw [invariance]; exact outboardPostOrder_is_client hf (concat frags) tree F hF

/-- a 5-byte blob arriving as `7 7 | pending | (empty) | 7 7 7`: one leaf item, root `0 + 5 + 1` -/
example : (Tree.postOrderChunks ⟨5, 0⟩).length + 2 ≤ 5 ∧
    (runFrags (obClient toy (parPo toy)) 5 (.run (Tree.postOrderChunks ⟨5, 0⟩) [] [])
      [.bytes [7, 7], .pending, .bytes [], .bytes [7, 7, 7]]).map (fun r => (r.1.res, r.1.sink, r.2)) =
      some (.ok 6, [], []) := by decide

/-!
## Status (C11)

proved (no hypotheses beyond fuel):
* `readExact_concat_eq`, `readExact_concat` – exact reads over scripts vs plain bytes;
* `invariance`, `invariance_two` – every `Client`, every fuel/state/script;
* `decode_is_client` – `decClient` under `runPlain` = `Dec.run` / `decodeAll` (items, terminal
  always; unread bytes when the terminal is `done` or a hash mismatch; `[]` after a failed read);
* `decode_invariance` – the decoder over any script;
* `outboard_is_client`, `outboardPostOrder_is_client`, `outboard_invariance`,
  `outboardPostOrder_invariance` – outboard creation from a fragmenting data source.

not covered here: encoding reads its data positionally (`readExactAt`, no stream) and writes to a
plain list; it is not phrased as a `Client` in this file.

model remark: `Dec.runAux` reports `d.encoded` *before* the read for the terminal `.panic`
(`DecNext.panic` carries no state) and the undrained stream after a failed read, whereas
`runFrags`/`runPlain` report the transport after the read / the drained transport; hence the
`restKept` / `readFailed` side conditions on the unread bytes.
-/

end Bao.C11
