import BaoProofs.Lemmas.C13BytesL
import BaoProofs.Props.C03

/-!
# C13, byte level — post-order outboards only grow at the end

"… stable nodes keep their post-order slot and their stored pair when the blob is extended by
appending, and they occupy a prefix of the outboard with all unstable nodes after them.  So the
post-order outboard of a blob, cut after its stable pairs, is a byte prefix of the post-order
outboard of every extension of that blob."

`Props/C13.lean` has the slot statements (`stable_iff`, `stable_independent`, `stable_prefix`).
Here: the stored pair of a stable node is unchanged by appending, the first `S` persisted nodes
(`S = stableCount` = number of stable persisted nodes) are the same in every extension, hence the
first `64 · S` bytes of `Spec.postOutboard` — and of what the sequential writer
`outboardPostOrder` emits — are shared with every extension; all unstable pairs lie behind them.
Everything holds for EVERY `hf : HashFns H` (no collision freedom needed).
-/

namespace Bao.C13

open Bao Bao.Offsets
open Bao.Spec (nodeOf endOf indexOf levelOf)

/-- `S`: the number of stable persisted nodes of `(size, bs)` (the `S` of `C13.stable_prefix`) -/
abbrev stableCount (size bs : Nat) : Nat :=
  (Spec.persistedPost size bs).countP (isStable ⟨size, bs⟩)

/-- a blob of 5 chunks and 3 more chunks to append (for the non-vacuity examples); at `bs = 0` the
blob has 4 persisted nodes `[0, 2, 1, 3]`, the first three of them stable -/
def blob5 : List UInt8 := List.replicate 5000 7
def ext3 : List UInt8 := List.replicate 3000 9
theorem blob5_length : blob5.length = 5000 := by simp only [blob5, List.length_replicate]
theorem blob5_ext3_size : (blob5 ++ ext3).length ≤ 2 ^ 63 := by
  simp only [blob5, ext3, List.length_append, List.length_replicate]; decide

example : Spec.persistedPost 5000 0 = [0, 2, 1, 3] ∧ stableCount 5000 0 = 3 := by decide

/-! ## 1. the stored pair of a stable node does not see appended bytes -/

/-- node `(k, L)` whose untruncated chunk interval ends inside `d` (by `stable_iff`: a stable node):
its two child chaining values are the same in `d` and in every extension `d ++ e` -/
theorem stable_pair_unchanged {H : Type} (hf : HashFns H) (d e : List UInt8) (k L : Nat)
    (h : endOf k L * 1024 ≤ d.length) :
    Spec.pair hf (d ++ e) k L = Spec.pair hf d k L :=
  C13L.pair_append hf d e k L h

example : Spec.pair C03.toyHash (blob5 ++ ext3) 0 1 = Spec.pair C03.toyHash blob5 0 1 :=
  stable_pair_unchanged C03.toyHash blob5 ext3 0 1 (by rw [blob5_length]; decide)

/-- … hence the 64 stored bytes of the node id are unchanged -/
theorem stable_pairBytes_unchanged {H : Type} (hf : HashFns H) (d e : List UInt8) (x : Nat)
    (h : endOf (indexOf x) (levelOf x) * 1024 ≤ d.length) :
    Spec.pairBytes hf (d ++ e) x = Spec.pairBytes hf d x :=
  C13L.pairBytes_append hf d e x h

example : Spec.pairBytes C03.toyHash (blob5 ++ ext3) 1 = Spec.pairBytes C03.toyHash blob5 1 :=
  stable_pairBytes_unchanged C03.toyHash blob5 ext3 1 (by rw [blob5_length]; decide)

/-- every stable persisted node satisfies the hypothesis of `stable_pairBytes_unchanged` -/
theorem stable_persisted_end (size bs x : Nat) (hs : size ≤ 2 ^ 63) (_hbs : bs ≤ 10)
    (hx : x ∈ Spec.persistedPost size bs) (hst : isStable ⟨size, bs⟩ x = true) :
    endOf (indexOf x) (levelOf x) * 1024 ≤ size :=
  C13L.stable_end hs hx hst

example : endOf (indexOf 1) (levelOf 1) * 1024 ≤ 5000 :=
  stable_persisted_end 5000 0 1 (by decide) (by decide) (by decide) (by decide)

/-! ## 2. the stable nodes are the same, in the same order, in every extension -/

/-- the first `S` persisted nodes (post-order) of a blob of `size` bytes are exactly the first `S`
persisted nodes of every larger blob (same nodes, same order); a persisted node stays persisted; and
the number of stable nodes does not shrink -/
theorem stable_nodes_prefix (size size' bs : Nat) (hle : size ≤ size') (hs' : size' ≤ 2 ^ 63)
    (hbs : bs ≤ 10) :
    (Spec.persistedPost size bs).take (stableCount size bs)
      = (Spec.persistedPost size' bs).take (stableCount size bs) ∧
    stableCount size bs ≤ (Spec.persistedPost size bs).length ∧
    stableCount size bs ≤ stableCount size' bs ∧
    stableCount size' bs ≤ (Spec.persistedPost size' bs).length ∧
    (∀ x ∈ Spec.persistedPost size bs, x ∈ Spec.persistedPost size' bs) :=
  ⟨C13L.take_stable_eq hle hs' hbs, C13L.stable_count_le size bs,
    C13L.stable_count_mono hle hs' hbs, C13L.stable_count_le size' bs,
    fun _ hx => C13L.persistedPost_mono hle hs' hx⟩

example : (Spec.persistedPost 5000 0).take (stableCount 5000 0)
    = (Spec.persistedPost 8000 0).take (stableCount 5000 0) :=
  (stable_nodes_prefix 5000 8000 0 (by decide) (by decide) (by decide)).1

/-! ## 3. the byte statement for the specification outboard -/

/-- the post-order outboard of `d`, cut after its `S` stable pairs, equals the post-order outboard
of every extension `d ++ e` cut at the same place, and both outboards are at least that long: the
outboard of `d` cut after its stable pairs is a byte prefix of the outboard of every extension -/
theorem outboard_stable_prefix {H : Type} (hf : HashFns H)
    (hlen : ∀ h, (hf.toBytes h).length = 32) (d e : List UInt8) (bs : Nat)
    (hs : (d ++ e).length ≤ 2 ^ 63) (hbs : bs ≤ 10) :
    (Spec.postOutboard hf d bs).take (64 * stableCount d.length bs)
      = (Spec.postOutboard hf (d ++ e) bs).take (64 * stableCount d.length bs) ∧
    (Spec.postOutboard hf d bs).take (64 * stableCount d.length bs)
      <+: Spec.postOutboard hf (d ++ e) bs ∧
    64 * stableCount d.length bs ≤ (Spec.postOutboard hf d bs).length ∧
    64 * stableCount d.length bs ≤ (Spec.postOutboard hf (d ++ e) bs).length := by
  have hle : d.length ≤ (d ++ e).length := by rw [List.length_append]; omega
  have hs0 : d.length ≤ 2 ^ 63 := by omega
  have heq := C13L.postOutboard_stable_take hf hlen d e bs hs hbs
  have h1 := C13L.stable_count_le d.length bs
  have h2 := C13L.stable_count_le' hle hs hbs
  refine ⟨heq, ?_, ?_, ?_⟩
  · rw [heq]; exact List.take_prefix _ _
  · rw [OutboardL.postOutboard_length hf hlen d bs hs0 hbs, ← (C12.post d.length bs hs0 hbs).1]
    exact Nat.le_trans (Nat.mul_le_mul_left 64 h1) (Nat.le_of_eq (Nat.mul_comm _ _))
  · rw [OutboardL.postOutboard_length hf hlen (d ++ e) bs hs hbs,
      ← (C12.post (d ++ e).length bs hs hbs).1]
    exact Nat.le_trans (Nat.mul_le_mul_left 64 h2) (Nat.le_of_eq (Nat.mul_comm _ _))

example : (Spec.postOutboard C03.toyHash blob5 0).take (64 * stableCount blob5.length 0)
    <+: Spec.postOutboard C03.toyHash (blob5 ++ ext3) 0 :=
  (outboard_stable_prefix C03.toyHash C03.toy_len blob5 ext3 0 blob5_ext3_size (by decide)).2.1

/-! ## 4. the same for the bytes the sequential writer emits -/

/-- `outboard_post_order` run on `d`: its output cut after the stable pairs is a prefix of its
output on every extension `d ++ e` (and it is not shorter than the cut) -/
theorem writer_stable_prefix {H : Type} (hf : HashFns H)
    (hlen : ∀ h, (hf.toBytes h).length = 32) (d e : List UInt8) (bs : Nat)
    (hs : (d ++ e).length ≤ 2 ^ 63) (hbs : bs ≤ 10) :
    (outboardPostOrder hf d ⟨d.length, bs⟩).sink.take (64 * stableCount d.length bs)
      <+: (outboardPostOrder hf (d ++ e) ⟨(d ++ e).length, bs⟩).sink ∧
    64 * stableCount d.length bs ≤ (outboardPostOrder hf d ⟨d.length, bs⟩).sink.length := by
  have hle : d.length ≤ (d ++ e).length := by rw [List.length_append]; omega
  rw [C03.post_order_writer hf d bs (by omega) hbs, C03.post_order_writer hf (d ++ e) bs hs hbs]
  obtain ⟨_, h2, h3, _⟩ := outboard_stable_prefix hf hlen d e bs hs hbs
  exact ⟨h2, h3⟩

example : (outboardPostOrder C03.toyHash blob5 ⟨blob5.length, 0⟩).sink.take
      (64 * stableCount blob5.length 0)
    <+: (outboardPostOrder C03.toyHash (blob5 ++ ext3) ⟨(blob5 ++ ext3).length, 0⟩).sink :=
  (writer_stable_prefix C03.toyHash C03.toy_len blob5 ext3 0 blob5_ext3_size (by decide)).1

/-! ## 5. where the pairs are: stable ones inside the cut, unstable ones behind it -/

/-- the 64 bytes of a persisted node with post-order slot `v` (stable or unstable) are the bytes
`64·v … 64·v+63` of the post-order outboard -/
theorem node_bytes_at {H : Type} (hf : HashFns H) (hlen : ∀ h, (hf.toBytes h).length = 32)
    (d : List UInt8) (bs : Nat) (hs : d.length ≤ 2 ^ 63) (hbs : bs ≤ 10) (x v : Nat)
    (hx : x ∈ Spec.persistedPost d.length bs)
    (hv : (Tree.postOrderOffset ⟨d.length, bs⟩ x).map Tree.PostOffset.value = some v) :
    ((Spec.postOutboard hf d bs).drop (64 * v)).take 64 = Spec.pairBytes hf d x ∧
    64 * v + 64 ≤ (Spec.postOutboard hf d bs).length := by
  obtain ⟨i, hi, rfl⟩ := List.getElem_of_mem hx
  have := (C12.post d.length bs hs hbs).2 i hi
  rw [this] at hv
  obtain rfl := Option.some.inj hv
  refine ⟨C13L.postOutboard_block hf hlen d bs i hi, ?_⟩
  rw [OutboardL.postOutboard_length hf hlen d bs hs hbs, ← (C12.post d.length bs hs hbs).1]
  omega

example : ((Spec.postOutboard C03.toyHash blob5 0).drop (64 * 2)).take 64
    = Spec.pairBytes C03.toyHash blob5 1 :=
  (node_bytes_at C03.toyHash C03.toy_len blob5 0 (by rw [blob5_length]; decide) (by decide) 1 2
    (by rw [blob5_length]; decide) (by rw [blob5_length]; decide)).1

/-- a stable persisted node's 64 bytes lie completely inside the cut `64 · S`, an unstable persisted
node's 64 bytes start at or after the cut -/
theorem unstable_after (size bs : Nat) (hs : size ≤ 2 ^ 63) (hbs : bs ≤ 10) :
    ∀ x ∈ Spec.persistedPost size bs, ∀ v,
      (Tree.postOrderOffset ⟨size, bs⟩ x = some (.stable v) → 64 * v + 64 ≤ 64 * stableCount size bs) ∧
      (Tree.postOrderOffset ⟨size, bs⟩ x = some (.unstable v) → 64 * stableCount size bs ≤ 64 * v) := by
  intro x hx v
  have := stable_prefix size bs hs hbs x hx v
  simp only [stableCount]
  constructor
  · intro h; have := this.1 h; omega
  · intro h; have := this.2 h; omega

example : 64 * stableCount 5000 0 ≤ 64 * 3 :=
  ((unstable_after 5000 0 (by decide) (by decide)) 3 (by decide) 3).2 (by decide)

end Bao.C13

/-
Status.
PROVED (full strength; every `hf : HashFns H`, no collision freedom):
  * `stable_pair_unchanged`      — `endOf k L * 1024 ≤ d.length → Spec.pair hf (d ++ e) k L = Spec.pair hf d k L`
                                   (no size bound, no `hlen` needed).
  * `stable_pairBytes_unchanged` — the same for `Spec.pairBytes` of a node id.
  * `stable_persisted_end`       — a stable persisted node has `endOf (indexOf x) (levelOf x) * 1024 ≤ size`.
  * `stable_nodes_prefix`        — `size ≤ size' ≤ 2^63`: `take S (persistedPost size) = take S (persistedPost size')`,
                                   `S ≤` both lengths, `S ≤ S'`, persisted nodes stay persisted.
  * `outboard_stable_prefix`     — `take (64·S) (postOutboard d) = take (64·S) (postOutboard (d ++ e))`, hence
                                   `<+:`, and `64·S ≤` both lengths  (needs `hlen`).
  * `writer_stable_prefix`       — the same `<+:` for the `sink` of `outboardPostOrder`.
  * `node_bytes_at`              — persisted node with slot `v`: bytes `[64v, 64v+64)` of `postOutboard` = `pairBytes`.
  * `unstable_after`             — stable pairs lie inside `[0, 64·S)`, unstable pairs start at `≥ 64·S`.
PARTIAL: none.   OPEN: none.
-/
