import BaoProofs.Lemmas.C01InvLoc

/-!
# C01 with LOCALISED collision freedom

`Props/C01.lean` proves decoder soundness under the global `CollisionFree hf` – injectivity of the
two hash primitives on ALL inputs, which no function into 32 bytes has and which is inconsistent
with the 32-byte wire round trip (`Lemmas/CFUnsat.lean`).  Here the same statements are proved
under

  `CollisionFreeOn hf (fun x => x ∈ trueEvals hf d ∨ x ∈ runEvals hf fl root tree q stream)`

i.e. no collision among the FINITELY many inputs that
* the honest hashing of the blob evaluates (`trueEvals hf d`, the evaluation list of
  `Spec.root hf d` = `hashSubtree hf 0 d true`), and
* the decoder run evaluates (`runEvals`, a computable twin of `Dec.run`: for every parent item
  read, `.parent l r isRoot` with `(l, r)` parsed from the stream; for every leaf read, the
  evaluation list of `hashSubtree hf start buf isRoot`; the failing last step included).

`collision_extraction` is the contrapositive without any hash hypothesis: a run that yields a
wrong item exhibits a collision inside that finite list, and `collision_search` finds it.

Vocabulary: `Lemmas/HashCFLoc.lean` (`CollisionFreeOn`, `evalsOf`, `hashEvals`, `cv_inj_on`,
`findCollision`, the instance `toy32`), `Lemmas/C01InvLoc.lean` (`trueEvals`, `runEvals`,
`Dec.stepEvals`, `TrueCvL`, `trueEvals_sub`), `Lemmas/C01Inv.lean` (`Sub`, `TrueLeaf`, `TruePair`,
`ItemOk`, `applyWrites`, `applySaves`).
-/

namespace Bao.C01

open Bao.Spec

variable {H : Type} {hf : HashFns H} {d : List UInt8}

/-- the global hypothesis implies every local one -/
theorem collisionFree_on (cf : CollisionFree hf) (S : HashIn H → Prop) : CollisionFreeOn hf S :=
  cf.on S

/-- **Local injectivity of the tree hash** (`cv_inj` with the local hypothesis): equal
`hashSubtree` values mean equal start chunk, data and root flag, provided `hf` has no collision
among the inputs evaluated by the two computations. -/
theorem cv_inj_loc {c₁ c₂ : Nat} {b₁ b₂ : List UInt8} {r₁ r₂ : Bool}
    (cf : CollisionFreeOn hf (fun x => x ∈ hashEvals hf c₁ b₁ r₁ ∨ x ∈ hashEvals hf c₂ b₂ r₂))
    (h : hashSubtree hf c₁ b₁ r₁ = hashSubtree hf c₂ b₂ r₂) : c₁ = c₂ ∧ b₁ = b₂ ∧ r₁ = r₂ :=
  cv_inj_on cf h

/-- **Every subtree interval of the true tree is evaluated by the honest hashing**: for a subtree
chunk interval `[c, e)` of the blob, the evaluation list of `Spec.cv hf d c e f` with the honest
root flag (`true` exactly for the root interval `[0, n)`) is contained in `trueEvals hf d`. -/
theorem trueEvals_contains (hd : d.length ≤ 2 ^ 64 * 1024) {c e : Nat} (hs : Sub d c e) :
    ∀ x ∈ hashEvals hf c (slice d c e) (decide (c = 0 ∧ e = nChunks d.length)),
      x ∈ trueEvals hf d :=
  trueEvals_sub hd hs

variable [BEq H] [LawfulBEq H]

/-- **Step invariant, local form**, both flavours, any iterator state, any stream: if all pending
hashes are hashes of the true tree (with the honest root flag) and `hf` has no collision among
`trueEvals hf d` and the inputs THIS step evaluates, a yielded item is true and the pending hashes
stay true. -/
theorem step_sound_loc (hd : d.length ≤ 2 ^ 64 * 1024) (fl : Flavour) (dec : Dec H)
    (cf : CollisionFreeOn hf (fun x => x ∈ trueEvals hf d ∨ x ∈ dec.stepEvals hf fl))
    (hs : ∀ h ∈ dec.stack, TrueCvL hf d h) {i : Item H} {dec' : Dec H}
    (h : dec.next hf fl = .item i dec') : ItemOk hf d i ∧ ∀ h ∈ dec'.stack, TrueCvL hf d h :=
  next_sound_loc cf (fun _ hx => .inl hx) hd fl dec (fun _ hx => .inr hx) hs h

/-- **C01 (iterator client), local form.**  Every item yielded by a decoder set up with the true
root hash, for any claimed geometry `tree`, any query `ranges`, any stream `s`, is true – provided
`hf` has no collision among the inputs evaluated by the honest hashing of `d` and by this run. -/
theorem decode_sound_loc (hd : d.length ≤ 2 ^ 64 * 1024) (fl : Flavour) (tree : Tree)
    (ranges : Ranges) (s : List UInt8)
    (cf : CollisionFreeOn hf (fun x => x ∈ trueEvals hf d ∨
      x ∈ runEvals hf fl (Spec.root hf d) tree ranges s)) :
    ∀ i ∈ (decodeAll hf fl (Spec.root hf d) tree ranges s).items, ItemOk hf d i :=
  runAux_sound_loc hd fl _ _ cf (by
    intro h hh
    simp only [Dec.new, List.mem_singleton] at hh
    subst hh
    exact TrueCvL.root hf d)

/-- local C01 for data items, spelled out -/
theorem decode_sound_leaf_loc (hd : d.length ≤ 2 ^ 64 * 1024) (fl : Flavour) (tree : Tree)
    (ranges : Ranges) (s : List UInt8)
    (cf : CollisionFreeOn hf (fun x => x ∈ trueEvals hf d ∨
      x ∈ runEvals hf fl (Spec.root hf d) tree ranges s))
    {off : Nat} {bytes : List UInt8}
    (h : Item.leaf off bytes ∈ (decodeAll hf fl (Spec.root hf d) tree ranges s).items) :
    off % 1024 = 0 ∧ off + bytes.length ≤ d.length ∧ bytes = (d.drop off).take bytes.length :=
  TrueLeaf.spec (decode_sound_loc hd fl tree ranges s cf _ h)

/-- local C01 for hash pairs, spelled out -/
theorem decode_sound_parent_loc (hd : d.length ≤ 2 ^ 64 * 1024) (fl : Flavour) (tree : Tree)
    (ranges : Ranges) (s : List UInt8)
    (cf : CollisionFreeOn hf (fun x => x ∈ trueEvals hf d ∨
      x ∈ runEvals hf fl (Spec.root hf d) tree ranges s))
    {node : Nat} {l r : H}
    (h : Item.parent node l r ∈ (decodeAll hf fl (Spec.root hf d) tree ranges s).items) :
    ∃ k L, L < 64 ∧ midOf k L < nChunks d.length ∧ (l, r) = Spec.pair hf d k L ∧
      ∀ f, hf.parentCv l r f =
        Spec.cv hf d (startOf k L) (min (endOf k L) (nChunks d.length)) f :=
  decode_sound_loc hd fl tree ranges s cf _ h

/-- **C01 (`decode_ranges`), local form.**  With an outboard whose root is the true root hash
(claimed tree arbitrary), the final target is the initial target after a list of positioned writes
of true leaves, and the final outboard is the initial one after a list of successful `save`s of
true pairs – provided `hf` has no collision among the inputs evaluated by the honest hashing of
`d` and by the decoder run on `s`. -/
theorem decodeRanges_sound_loc (hd : d.length ≤ 2 ^ 64 * 1024) (fl : Flavour) (s : List UInt8)
    (ranges : Ranges) (sink : Sink H) (hroot : sink.ob.root = Spec.root hf d)
    (cf : CollisionFreeOn hf (fun x => x ∈ trueEvals hf d ∨
      x ∈ runEvals hf fl sink.ob.root sink.ob.tree ranges s)) :
    ∃ (wl : List (Nat × List UInt8)) (pl : List (Nat × H × H)),
      (∀ w ∈ wl, TrueLeaf d w.1 w.2) ∧ (∀ p ∈ pl, TruePair hf d p.2.1 p.2.2) ∧
      (decodeRanges hf fl s ranges sink).sink.target = applyWrites sink.target wl ∧
      (decodeRanges hf fl s ranges sink).sink.ob = applySaves hf sink.ob pl :=
  decodeRangesAux_sound_loc hd fl _ _ _ sink [] [] cf (by
    intro h hh
    simp only [Dec.new, List.mem_singleton] at hh
    subst hh
    rw [hroot]
    exact TrueCvL.root hf d)

/-- corollary: a target of the blob's length keeps that length, and afterwards every position
holds its initial byte or the true blob's byte -/
theorem decodeRanges_target_loc (hd : d.length ≤ 2 ^ 64 * 1024) (fl : Flavour) (s : List UInt8)
    (ranges : Ranges) (sink : Sink H) (hroot : sink.ob.root = Spec.root hf d)
    (cf : CollisionFreeOn hf (fun x => x ∈ trueEvals hf d ∨
      x ∈ runEvals hf fl sink.ob.root sink.ob.tree ranges s))
    (hlen : sink.target.length = d.length) :
    (decodeRanges hf fl s ranges sink).sink.target.length = d.length ∧
    ∀ i : Nat, (decodeRanges hf fl s ranges sink).sink.target[i]? = sink.target[i]? ∨
      (decodeRanges hf fl s ranges sink).sink.target[i]? = d[i]? := by
  obtain ⟨wl, _, hw, _, ht, _⟩ := decodeRanges_sound_loc hd fl s ranges sink hroot cf
  rw [ht]
  exact Mixed.applyWrites wl sink.target ⟨hlen, fun _ => .inl rfl⟩ hw

/-- **Collision extraction** (no hash hypothesis at all): if a decoder set up with the true root
yields an item that is NOT true, then the finite, computable list
`trueEvals hf d ++ runEvals hf fl root tree ranges s` contains two different inputs with the same
hash. -/
theorem collision_extraction (hd : d.length ≤ 2 ^ 64 * 1024) (fl : Flavour) (tree : Tree)
    (ranges : Ranges) (s : List UInt8) {i : Item H}
    (hi : i ∈ (decodeAll hf fl (Spec.root hf d) tree ranges s).items) (hbad : ¬ ItemOk hf d i) :
    ∃ x y, x ∈ trueEvals hf d ++ runEvals hf fl (Spec.root hf d) tree ranges s ∧
      y ∈ trueEvals hf d ++ runEvals hf fl (Spec.root hf d) tree ranges s ∧
      x ≠ y ∧ hf.eval x = hf.eval y := by
  apply Classical.byContradiction
  intro hno
  apply hbad
  refine decode_sound_loc hd fl tree ranges s ?_ i hi
  intro x y hx hy e
  apply Classical.byContradiction
  intro hne
  exact hno ⟨x, y, List.mem_append.2 hx, List.mem_append.2 hy, hne, e⟩

/-- collision extraction for `decode_ranges`: if the final target / outboard is NOT the result of
writes of true leaves and saves of true pairs, the finite list contains a collision -/
theorem collision_extraction_ranges (hd : d.length ≤ 2 ^ 64 * 1024) (fl : Flavour)
    (s : List UInt8) (ranges : Ranges) (sink : Sink H) (hroot : sink.ob.root = Spec.root hf d)
    (hbad : ¬ ∃ (wl : List (Nat × List UInt8)) (pl : List (Nat × H × H)),
      (∀ w ∈ wl, TrueLeaf d w.1 w.2) ∧ (∀ p ∈ pl, TruePair hf d p.2.1 p.2.2) ∧
      (decodeRanges hf fl s ranges sink).sink.target = applyWrites sink.target wl ∧
      (decodeRanges hf fl s ranges sink).sink.ob = applySaves hf sink.ob pl) :
    ∃ x y, x ∈ trueEvals hf d ++ runEvals hf fl sink.ob.root sink.ob.tree ranges s ∧
      y ∈ trueEvals hf d ++ runEvals hf fl sink.ob.root sink.ob.tree ranges s ∧
      x ≠ y ∧ hf.eval x = hf.eval y := by
  apply Classical.byContradiction
  intro hno
  apply hbad
  refine decodeRanges_sound_loc hd fl s ranges sink hroot ?_
  intro x y hx hy e
  apply Classical.byContradiction
  intro hne
  exact hno ⟨x, y, List.mem_append.2 hx, List.mem_append.2 hy, hne, e⟩

/-- **The collision is found by search**: under the hypotheses of `collision_extraction` the
quadratic search `findCollision` over the finite list returns a pair, and that pair is a collision
(two different inputs of the list with equal hash). -/
theorem collision_search [DecidableEq H] (hd : d.length ≤ 2 ^ 64 * 1024) (fl : Flavour)
    (tree : Tree) (ranges : Ranges) (s : List UInt8) {i : Item H}
    (hi : i ∈ (decodeAll hf fl (Spec.root hf d) tree ranges s).items) (hbad : ¬ ItemOk hf d i) :
    ∃ x y, findCollision hf (trueEvals hf d ++ runEvals hf fl (Spec.root hf d) tree ranges s) =
        some (x, y) ∧
      x ∈ trueEvals hf d ++ runEvals hf fl (Spec.root hf d) tree ranges s ∧
      y ∈ trueEvals hf d ++ runEvals hf fl (Spec.root hf d) tree ranges s ∧
      x ≠ y ∧ hf.eval x = hf.eval y := by
  obtain ⟨x, y, hx, hy, hne, he⟩ := collision_extraction hd fl tree ranges s hi hbad
  obtain ⟨x', y', hf'⟩ := findCollision_complete hx hy hne he
  exact ⟨x', y', hf', findCollision_some hf'⟩

/-! ## non-vacuity -/

section
/-! ### (a) the symbolic hash: globally, hence locally, collision free -/

private def blob : List UInt8 := List.replicate 2500 7
private def tampered : List UInt8 := List.replicate 64 1 ++ List.replicate 2500 8

private theorem blob_len : blob.length ≤ 2 ^ 64 * 1024 := by
  simp only [blob, List.length_replicate]; omega

private theorem blob_n : nChunks blob.length = 3 := by
  simp only [blob, List.length_replicate]; decide

example : CollisionFreeOn termHash (fun x => x ∈ trueEvals termHash blob ∨
    x ∈ runEvals termHash .fsm (Spec.root termHash blob) ⟨2500, 0⟩ [0] tampered) :=
  collisionFree_on termHash_cf _

example : ∀ i ∈ (decodeAll termHash .fsm (Spec.root termHash blob) ⟨2500, 0⟩ [0] tampered).items,
    ItemOk termHash blob i :=
  decode_sound_loc blob_len .fsm ⟨2500, 0⟩ [0] tampered (collisionFree_on termHash_cf _)

example {c₁ c₂ : Nat} {b₁ b₂ : List UInt8} {r₁ r₂ : Bool}
    (h : hashSubtree termHash c₁ b₁ r₁ = hashSubtree termHash c₂ b₂ r₂) :
    c₁ = c₂ ∧ b₁ = b₂ ∧ r₁ = r₂ :=
  cv_inj_loc (collisionFree_on termHash_cf _) h

example : ∀ x ∈ hashEvals termHash 2 (slice blob 2 3) (decide (2 = 0 ∧ 3 = nChunks blob.length)),
    x ∈ trueEvals termHash blob :=
  trueEvals_contains blob_len ⟨0, by decide, by rw [blob_n]; decide, by rw [blob_n]; decide⟩

example (dec : Dec Term) (hs : dec.stack = [Spec.root termHash blob]) {i : Item Term}
    {dec' : Dec Term} (h : dec.next termHash .sync = .item i dec') : ItemOk termHash blob i :=
  (step_sound_loc blob_len .sync dec (collisionFree_on termHash_cf _) (by
    intro x hx; rw [hs, List.mem_singleton] at hx; rw [hx]; exact TrueCvL.root _ _) h).1

/-! ### (b) a hash WITH the 32-byte wire round trip (`toy32`, not globally collision free)

A blob of three chunks; the honest encoding of the full query with one byte of chunk 1 flipped.
The decoder accepts the root pair, the left pair and chunk 0, then reports a leaf hash mismatch.
`hf` evaluates 5 inputs for the blob and 4 in the run; collision freedom on them is decided. -/

private def blob3 : List UInt8 := (List.range 2049).map UInt8.ofNat
private def honest3 : List UInt8 := Spec.encode toy32 blob3 0 [0]
private def tampered3 : List UInt8 := honest3.take 1500 ++ [99] ++ honest3.drop 1501

private theorem blob3_len : blob3.length ≤ 2 ^ 64 * 1024 := by
  simp only [blob3, List.length_map, List.length_range]; omega

/-- the wire round trip holds for `toy32` and the global hypothesis fails -/
example : (∀ h, toy32.ofBytes (toy32.toBytes h) = h) ∧ (∀ h, (toy32.toBytes h).length = 32) ∧
    ¬ CollisionFree toy32 :=
  ⟨toy32_rt, toy32_len, toy32_not_cf⟩

private theorem toy_cf_sync : CollisionFreeOn toy32 (fun x => x ∈ trueEvals toy32 blob3 ∨
    x ∈ runEvals toy32 .sync (Spec.root toy32 blob3) ⟨2049, 0⟩ [0] tampered3) :=
  collisionFreeOn_append (by decide +kernel)

private theorem toy_cf_fsm : CollisionFreeOn toy32 (fun x => x ∈ trueEvals toy32 blob3 ∨
    x ∈ runEvals toy32 .fsm (Spec.root toy32 blob3) ⟨2049, 0⟩ [0] tampered3) :=
  collisionFreeOn_append (by decide +kernel)

/-- the run is not trivial: three items are yielded before the mismatch, four inputs evaluated -/
example : (decodeAll toy32 .sync (Spec.root toy32 blob3) ⟨2049, 0⟩ [0] tampered3).items.length = 3 ∧
    (decodeAll toy32 .sync (Spec.root toy32 blob3) ⟨2049, 0⟩ [0] tampered3).terminal =
      .err (.leafHashMismatch 1) ∧
    (runEvals toy32 .sync (Spec.root toy32 blob3) ⟨2049, 0⟩ [0] tampered3).length = 4 ∧
    (trueEvals toy32 blob3).length = 5 := by decide +kernel

example : ∀ i ∈ (decodeAll toy32 .sync (Spec.root toy32 blob3) ⟨2049, 0⟩ [0] tampered3).items,
    ItemOk toy32 blob3 i :=
  decode_sound_loc blob3_len .sync ⟨2049, 0⟩ [0] tampered3 toy_cf_sync

example {off : Nat} {bytes : List UInt8}
    (h : Item.leaf off bytes ∈
      (decodeAll toy32 .fsm (Spec.root toy32 blob3) ⟨2049, 0⟩ [0] tampered3).items) :
    off % 1024 = 0 ∧ off + bytes.length ≤ blob3.length ∧
      bytes = (blob3.drop off).take bytes.length :=
  decode_sound_leaf_loc blob3_len .fsm ⟨2049, 0⟩ [0] tampered3 toy_cf_fsm h

example {node : Nat} {l r : H32}
    (h : Item.parent node l r ∈
      (decodeAll toy32 .sync (Spec.root toy32 blob3) ⟨2049, 0⟩ [0] tampered3).items) :
    ∃ k L, L < 64 ∧ midOf k L < nChunks blob3.length ∧ (l, r) = Spec.pair toy32 blob3 k L ∧
      ∀ f, toy32.parentCv l r f =
        Spec.cv toy32 blob3 (startOf k L) (min (endOf k L) (nChunks blob3.length)) f :=
  decode_sound_parent_loc blob3_len .sync ⟨2049, 0⟩ [0] tampered3 toy_cf_sync h

/-- a sink whose outboard carries the true root and the true geometry -/
private def sink3 : Sink H32 :=
  { ob := { kind := .preMem, root := Spec.root toy32 blob3, tree := ⟨2049, 0⟩, data := [] },
    target := List.replicate 2049 0 }

private theorem sink3_root : sink3.ob.root = Spec.root toy32 blob3 := by simp only [sink3]

example : ∃ (wl : List (Nat × List UInt8)) (pl : List (Nat × H32 × H32)),
    (∀ w ∈ wl, TrueLeaf blob3 w.1 w.2) ∧ (∀ p ∈ pl, TruePair toy32 blob3 p.2.1 p.2.2) ∧
    (decodeRanges toy32 .sync tampered3 [0] sink3).sink.target = applyWrites sink3.target wl ∧
    (decodeRanges toy32 .sync tampered3 [0] sink3).sink.ob = applySaves toy32 sink3.ob pl :=
  decodeRanges_sound_loc blob3_len .sync tampered3 [0] sink3 sink3_root
    (by simp only [sink3]; exact toy_cf_sync)

example : (decodeRanges toy32 .fsm tampered3 [0] sink3).sink.target.length = blob3.length ∧
    ∀ i : Nat, (decodeRanges toy32 .fsm tampered3 [0] sink3).sink.target[i]? = sink3.target[i]? ∨
      (decodeRanges toy32 .fsm tampered3 [0] sink3).sink.target[i]? = blob3[i]? :=
  decodeRanges_target_loc blob3_len .fsm tampered3 [0] sink3 sink3_root
    (by simp only [sink3]; exact toy_cf_fsm) (by
    simp only [sink3, blob3, List.length_replicate, List.length_map, List.length_range])

/-! ### (c) collision extraction: a hash with collisions, a run that yields a wrong byte -/

/-- the constant hash -/
private def unitHash : HashFns Unit where
  chunkCv _ _ _ := ()
  parentCv _ _ _ := ()
  ofBytes _ := ()
  toBytes _ := List.replicate 32 0

private theorem bad_item : ¬ ItemOk unitHash [1] (Item.leaf 0 [2]) := by
  intro h
  have := (TrueLeaf.spec h).2.2
  exact absurd this (by decide)

private theorem bad_mem : Item.leaf 0 [2] ∈
    (decodeAll unitHash .sync (Spec.root unitHash [1]) ⟨1, 0⟩ [0] [2]).items := by
  have : (decodeAll unitHash .sync (Spec.root unitHash [1]) ⟨1, 0⟩ [0] [2]).items =
      [Item.leaf 0 [2]] := by decide +kernel
  rw [this]
  exact List.mem_singleton_self _

example : ∃ x y, x ∈ trueEvals unitHash [1] ++ runEvals unitHash .sync (Spec.root unitHash [1]) ⟨1, 0⟩ [0] [2] ∧
    y ∈ trueEvals unitHash [1] ++ runEvals unitHash .sync (Spec.root unitHash [1]) ⟨1, 0⟩ [0] [2] ∧
    x ≠ y ∧ unitHash.eval x = unitHash.eval y :=
  collision_extraction (by decide) .sync ⟨1, 0⟩ [0] [2] bad_mem bad_item

example : ∃ x y, findCollision unitHash
      (trueEvals unitHash [1] ++ runEvals unitHash .sync (Spec.root unitHash [1]) ⟨1, 0⟩ [0] [2]) =
        some (x, y) ∧
    x ∈ trueEvals unitHash [1] ++ runEvals unitHash .sync (Spec.root unitHash [1]) ⟨1, 0⟩ [0] [2] ∧
    y ∈ trueEvals unitHash [1] ++ runEvals unitHash .sync (Spec.root unitHash [1]) ⟨1, 0⟩ [0] [2] ∧
    x ≠ y ∧ unitHash.eval x = unitHash.eval y :=
  collision_search (by decide) .sync ⟨1, 0⟩ [0] [2] bad_mem bad_item

/-- … and the search indeed computes the collision: the true chunk against the forged one -/
example : findCollision unitHash
    (trueEvals unitHash [1] ++ runEvals unitHash .sync (Spec.root unitHash [1]) ⟨1, 0⟩ [0] [2]) =
    some (.chunk 0 [1] true, .chunk 0 [2] true) := by decide +kernel

/-- a sink (target of the blob's length) that receives the forged byte -/
private def sinkU : Sink Unit :=
  { ob := { kind := .preMem, root := Spec.root unitHash [1], tree := ⟨1, 0⟩, data := [] },
    target := [0] }

private theorem bad_ranges : ¬ ∃ (wl : List (Nat × List UInt8)) (pl : List (Nat × Unit × Unit)),
    (∀ w ∈ wl, TrueLeaf [1] w.1 w.2) ∧ (∀ p ∈ pl, TruePair unitHash [1] p.2.1 p.2.2) ∧
    (decodeRanges unitHash .sync [2] [0] sinkU).sink.target = applyWrites sinkU.target wl ∧
    (decodeRanges unitHash .sync [2] [0] sinkU).sink.ob = applySaves unitHash sinkU.ob pl := by
  rintro ⟨wl, _, hw, _, ht, _⟩
  have hm := Mixed.applyWrites (d := [1]) (t₀ := [0]) wl sinkU.target ⟨rfl, fun _ => .inl rfl⟩ hw
  rw [← ht] at hm
  have h0 := hm.2 0
  have : (decodeRanges unitHash .sync [2] [0] sinkU).sink.target = [2] := by decide +kernel
  rw [this] at h0
  revert h0
  decide

example : ∃ x y, x ∈ trueEvals unitHash [1] ++ runEvals unitHash .sync sinkU.ob.root sinkU.ob.tree [0] [2] ∧
    y ∈ trueEvals unitHash [1] ++ runEvals unitHash .sync sinkU.ob.root sinkU.ob.tree [0] [2] ∧
    x ≠ y ∧ unitHash.eval x = unitHash.eval y :=
  collision_extraction_ranges (by decide) .sync [2] [0] sinkU rfl bad_ranges

end

/-
## Status (C01, local collision freedom)

All theorems depend on the axioms `propext`, `Classical.choice`, `Quot.sound` only.

PROVED (full strength: all streams, all claimed geometries, all queries, both flavours;
`d.length ≤ 2^64 · 1024` as in `Props/C01.lean`):
* `collisionFree_on`        – global `CollisionFree` ⇒ `CollisionFreeOn` any set
* `cv_inj_loc`              – `cv_inj` with collision freedom only on the two evaluation lists
* `trueEvals_contains`      – every subtree interval of the true tree (`Sub d c e`), hashed with the
                              honest root flag, has its evaluation list inside `trueEvals hf d`
* `step_sound_loc`          – step invariant; hypothesis: no collision in
                              `trueEvals hf d ∪ dec.stepEvals hf fl` (the inputs of THIS step)
* `decode_sound_loc`        – `decode_sound` with `CollisionFreeOn hf (· ∈ trueEvals hf d ∨
                              · ∈ runEvals hf fl (Spec.root hf d) tree ranges s)`
* `decode_sound_leaf_loc`, `decode_sound_parent_loc` – spelled out, as in `Props/C01.lean`
* `decodeRanges_sound_loc`, `decodeRanges_target_loc` – `decode_ranges`, same local hypothesis
                              with `runEvals hf fl sink.ob.root sink.ob.tree ranges s`
* `collision_extraction`, `collision_extraction_ranges` – NO hash hypothesis: an unsound item /
                              an unsound final sink ⇒ `x ≠ y`, `hf.eval x = hf.eval y`, both in the
                              finite list `trueEvals hf d ++ runEvals …`
* `collision_search`        – `findCollision` (quadratic search) on that list returns such a pair

PARTIAL: none.   OPEN: none.

Non-vacuity: (a) `termHash`; (b) `toy32` (`Lemmas/HashCFLoc.lean`), an instance WITH
`ofBytes (toBytes h) = h` and 32-byte `toBytes` that is NOT globally collision free
(`toy32_not_cf`), on a 3-chunk blob and the honest stream with one flipped byte (3 items are
accepted, then `leafHashMismatch 1`): `CollisionFreeOn` on the 5 + 4 evaluated inputs by
`decide +kernel` – the local hypothesis is satisfiable together with the wire round trip, the
global one is not (`Lemmas/CFUnsat.lean`); (c) the constant hash yields the forged leaf `[2]` for
the blob `[1]`; the extracted collision is `chunk 0 [1] true` vs `chunk 0 [2] true`.

Remarks
* The invariant had to be sharpened: `TrueCv` (C01Inv) allows ANY root flag for a subtree interval,
  but the honest hashing evaluates the root interval `[0, n)` with `true` and all others with
  `false` only.  `TrueCvL` fixes the flag to `decide (c = 0 ∧ e = n)`; the decoder preserves it
  because children of a verified parent are never the root interval.
* `runEvals` includes the inputs of the last, failing step (it is what the run evaluates); the
  proofs use only the inputs of item-yielding steps, so the theorems also hold for that smaller
  list (not stated separately).
* `Dec.stepEvals` is flavour dependent only where the model is: `nextSync` hashes a leaf before
  popping, `nextFsm` pops first (differs only when the stack is empty, i.e. on a panic).
* `evalsOf` coincides with `DecodeSpec.hashInputs` of `Lemmas/DecodeSpec.lean`
  (`DecodeSpec.evalsOf_eq_hashInputs` in `Lemmas/SizeProofLoc.lean`); it is re-declared in
  `Lemmas/HashCFLoc.lean` so that the hash layer does not import the decoder bridge.
* Model: nothing suspicious.
-/

end Bao.C01
