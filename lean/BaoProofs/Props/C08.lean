import BaoProofs.Lemmas.DecSim

/-!
# C08: sync, async (fsm) and item-stream code paths, and all encoders, agree

"Given the same blob, block size and query, the synchronous and asynchronous implementations
produce byte-identical outboards and encodings, the same sequence of decoded items, and for a
tampered stream or a store with altered bytes the same error variant at the same node or chunk.
… the item-stream traversal flattens to the same bytes, framed by a size item first and a done
or error item last."

What is proved here, for every hash instance `hf : HashFns H` and every `BEq H` (no lawfulness
needed):

* decoders: one step (`step_eq`), a run from ANY decoder state (`decode_eq`), the full decode of
  ANY stream (`decodeAll_eq`) and `decode_ranges` (`decodeRanges_eq`) are *equal* as records:
  items, terminal (`done` / the error variant with its node or chunk / `panic`) and unread rest.
* encoders: the two flavours differ only in `Store.load` (a short io backing is an
  `UnexpectedEof` in sync and a zero pair in fsm).  `load_flavour_eq_mem`, `load_flavour_eq_slot`,
  `load_flavour_eq_persisted` say when `load` agrees; `encode_validated_eq`, `encode_plain_eq` need
  the agreement only on the parent nodes of the plan of the query.
* item stream: `mixed_flatten`, `mixed_panic`.
* `plain_eq_validated_of_ok`: the non-validating encoder writes the bytes of the validating one.

Outboard creation (`outboard`, `outboardPostOrder`) has a single definition in the model for
both flavours (no `Flavour` parameter), so there is nothing to prove for it here.

FALSE as first phrased: "`load` agrees for `preIo` whenever `outboardSize ≤ data.length`, for all
nodes".  `Tree.preOrderOffset` also answers for nodes outside the tree (node 5 of a 3-chunk blob
has offset 3, node `2^40+1` has offset `2^40-1`), see `load_flavour_counterexample`.  The corrected
statement is restricted to the persisted nodes (`load_flavour_eq_persisted`), and the encoder
theorems only ask for agreement on the parent nodes of their plan.
-/

namespace Bao.C08

open Bao Bao.DecSim

variable {H : Type}

/-! ## decoders -/

/-- One call of `next`: both machines return the same item with the same successor state, or the
same error (variant, node / chunk) with successor states that differ at most in the hash stack,
or both are done, or both panic. -/
theorem step_eq (hf : HashFns H) [BEq H] (d : Dec H) :
    match d.next hf .sync, d.next hf .fsm with
    | .item i d₁, .item j d₂ => i = j ∧ d₁ = d₂
    | .err e d₁, .err f d₂ => e = f ∧ d₁.iter = d₂.iter ∧ d₁.encoded = d₂.encoded ∧ d₁.hash = d₂.hash
    | .done d₁, .done d₂ => d₁ = d₂
    | .panic, .panic => True
    | _, _ => False := by
  have h := next_sim hf d
  simp only [Dec.next]
  cases hs : d.nextSync hf <;> cases hf' : d.nextFsm hf <;> simp [hs, hf', killErr] at h ⊢ <;>
    exact h

/-- Driving a decoder from any state (any plan iterator state, any stack, any stream) until its
first non-item gives the same items, the same terminal and the same unread rest. -/
theorem decode_eq (hf : HashFns H) [BEq H] (d : Dec H) :
    Dec.run hf .sync d = Dec.run hf .fsm d :=
  runAux_eq hf _ d

/-- The full decode of any stream `s` (well-formed, truncated or tampered). -/
theorem decodeAll_eq (hf : HashFns H) [BEq H] (root : H) (tree : Tree) (ranges : Ranges)
    (s : List UInt8) :
    decodeAll hf .sync root tree ranges s = decodeAll hf .fsm root tree ranges s :=
  decode_eq hf _

/-- the three observables of `decodeAll_eq`, spelled out -/
theorem decodeAll_eq_fields (hf : HashFns H) [BEq H] (root : H) (tree : Tree) (ranges : Ranges)
    (s : List UInt8) :
    (decodeAll hf .sync root tree ranges s).items = (decodeAll hf .fsm root tree ranges s).items ∧
    (decodeAll hf .sync root tree ranges s).terminal = (decodeAll hf .fsm root tree ranges s).terminal ∧
    (decodeAll hf .sync root tree ranges s).rest = (decodeAll hf .fsm root tree ranges s).rest := by
  rw [decodeAll_eq]; exact ⟨rfl, rfl, rfl⟩

/-- `decode_ranges`: same terminal, same target, same outboard, same writes and saves
(the whole result record is equal). -/
theorem decodeRanges_eq (hf : HashFns H) [BEq H] (s : List UInt8) (ranges : Ranges) (sink : Sink H) :
    decodeRanges hf .sync s ranges sink = decodeRanges hf .fsm s ranges sink :=
  decodeRangesAux_eq hf _ _ _ _ _ _

theorem decodeRanges_eq_fields (hf : HashFns H) [BEq H] (s : List UInt8) (ranges : Ranges)
    (sink : Sink H) :
    (decodeRanges hf .sync s ranges sink).terminal = (decodeRanges hf .fsm s ranges sink).terminal ∧
    (decodeRanges hf .sync s ranges sink).sink.target = (decodeRanges hf .fsm s ranges sink).sink.target ∧
    (decodeRanges hf .sync s ranges sink).sink.ob.data = (decodeRanges hf .fsm s ranges sink).sink.ob.data ∧
    (decodeRanges hf .sync s ranges sink).writes = (decodeRanges hf .fsm s ranges sink).writes ∧
    (decodeRanges hf .sync s ranges sink).saves = (decodeRanges hf .fsm s ranges sink).saves := by
  rw [decodeRanges_eq]; exact ⟨rfl, rfl, rfl, rfl, rfl⟩

/-! ## `Store.load` -/

/-- a toy hash instance for the non-vacuity examples -/
def toy : HashFns Nat :=
  ⟨fun c d r => c + d.length + r.toNat, fun l r root => 3 * l + 5 * r + root.toNat,
   fun b => b.length, fun _ => []⟩

/-- a 3-chunk blob, block size 0, pre-order io store holding exactly its 2 pairs -/
def stIo : Store Nat := ⟨.preIo, 0, ⟨3000, 0⟩, List.replicate 128 0⟩

/-- the in-memory stores and the empty outboard never depend on the flavour -/
theorem load_flavour_eq_mem (hf : HashFns H) (st : Store H) (node : Nat)
    (h : st.kind = .preMem ∨ st.kind = .postMem ∨ st.kind = .empty) :
    st.load hf .sync node = st.load hf .fsm node :=
  load_flavour_mem hf st node h

example : (⟨.postMem, 0, ⟨5000, 0⟩, []⟩ : Store Nat).kind = .preMem ∨
    (⟨.postMem, 0, ⟨5000, 0⟩, []⟩ : Store Nat).kind = .postMem ∨
    (⟨.postMem, 0, ⟨5000, 0⟩, []⟩ : Store Nat).kind = .empty := by decide

/-- any store: a node whose slot (if it has one) lies inside the backing -/
theorem load_flavour_eq_slot (hf : HashFns H) (st : Store H) (node : Nat)
    (h : ∀ k, st.slot node = some k → k * 64 + 64 ≤ st.data.length) :
    st.load hf .sync node = st.load hf .fsm node :=
  load_flavour_of_slot hf st node h

set_option maxRecDepth 8000 in
example : ∀ k, stIo.slot 1 = some k → k * 64 + 64 ≤ stIo.data.length := by decide

/-- io-backed stores whose backing holds the whole outboard (`outboardSize ≤ data.length`):
every persisted node loads the same pair in both flavours -/
theorem load_flavour_eq_persisted (hf : HashFns H) (st : Store H) (hs : st.tree.size ≤ 2 ^ 63)
    (hlen : st.tree.outboardSize ≤ st.data.length) (node : Nat)
    (hpre : st.kind = .preIo → node ∈ Spec.persistedPre st.tree.size st.tree.bs)
    (hpost : st.kind = .postIo → node ∈ Spec.persistedPost st.tree.size st.tree.bs) :
    st.load hf .sync node = st.load hf .fsm node :=
  load_flavour_persisted hf st hs hlen node hpre hpost

set_option maxRecDepth 8000 in
example : stIo.tree.size ≤ 2 ^ 63 ∧ stIo.tree.outboardSize ≤ stIo.data.length ∧
    (stIo.kind = .preIo → 0 ∈ Spec.persistedPre stIo.tree.size stIo.tree.bs) ∧
    (stIo.kind = .postIo → 0 ∈ Spec.persistedPost stIo.tree.size stIo.tree.bs) := by decide

set_option maxRecDepth 8000 in
/-- the restriction to persisted nodes is needed: node 5 is outside the 3-chunk tree (nodes 0, 1, 2),
its pre-order "offset" is 3, beyond the 2 pairs of the outboard -/
theorem load_flavour_counterexample :
    stIo.tree.outboardSize ≤ stIo.data.length ∧
    stIo.load toy .sync 5 = .err ⟨.unexpectedEof, false⟩ ∧
    stIo.load toy .fsm 5 = .ok (some (32, 32)) := by decide

/-! ## encoders -/

/-- `encode_ranges_validated`: if `load` agrees on the parent nodes of the plan of the query,
the two flavours return the same bytes and the same terminal (`ok`, the same error variant at the
same node / chunk, or `panic`).  Holds for the empty query as well. -/
theorem encode_validated_eq (hf : HashFns H) [BEq H] (data : List UInt8) (st : Store H)
    (ranges : Ranges)
    (h : ∀ plan, st.tree.prePartialChunks (Ranges.truncate ranges st.tree.size) 0 = some plan →
      ∀ node ∈ planParents plan, st.load hf .sync node = st.load hf .fsm node) :
    encodeRangesValidated hf .sync data st ranges = encodeRangesValidated hf .fsm data st ranges :=
  encodeRangesValidated_flavour hf data st ranges h

set_option maxRecDepth 8000 in
/-- the plan of the full query on `stIo` loads the nodes 1 and 0, and `load` agrees on them -/
example : ∀ plan, stIo.tree.prePartialChunks (Ranges.truncate [0] stIo.tree.size) 0 = some plan →
    ∀ node ∈ planParents plan, stIo.load toy .sync node = stIo.load toy .fsm node := by
  intro plan hp
  have h : stIo.tree.prePartialChunks (Ranges.truncate [0] stIo.tree.size) 0 = some
      [.parent 1 true true true [0], .parent 0 false true true [0],
       .leaf 0 1024 false [0], .leaf 1 1024 false [0], .leaf 2 952 false [0]] := by decide
  rw [h] at hp
  cases hp
  decide

/-- the hypothesis in the form "`load` agrees on all nodes" -/
theorem encode_validated_eq_of_load (hf : HashFns H) [BEq H] (data : List UInt8) (st : Store H)
    (ranges : Ranges) (h : ∀ node, st.load hf .sync node = st.load hf .fsm node) :
    encodeRangesValidated hf .sync data st ranges = encodeRangesValidated hf .fsm data st ranges :=
  encode_validated_eq hf data st ranges fun _ _ node _ => h node

example : ∀ node, (⟨.postMem, 0, ⟨5000, 0⟩, []⟩ : Store Nat).load toy .sync node
    = (⟨.postMem, 0, ⟨5000, 0⟩, []⟩ : Store Nat).load toy .fsm node :=
  fun node => load_flavour_eq_mem toy _ node (.inr (.inl rfl))

/-- in-memory stores and the empty outboard: unconditional -/
theorem encode_validated_eq_mem (hf : HashFns H) [BEq H] (data : List UInt8) (st : Store H)
    (ranges : Ranges) (hk : st.kind = .preMem ∨ st.kind = .postMem ∨ st.kind = .empty) :
    encodeRangesValidated hf .sync data st ranges = encodeRangesValidated hf .fsm data st ranges :=
  encode_validated_eq_of_load hf data st ranges fun node => load_flavour_mem hf st node hk

example : (⟨.empty, 0, ⟨5000, 0⟩, []⟩ : Store Nat).kind = .preMem ∨
    (⟨.empty, 0, ⟨5000, 0⟩, []⟩ : Store Nat).kind = .postMem ∨
    (⟨.empty, 0, ⟨5000, 0⟩, []⟩ : Store Nat).kind = .empty := by decide

/-- the empty query: the sync encoder returns at once, the fsm encoder walks the empty plan
(`prePartialChunks_nil`); both write nothing and succeed -/
theorem encode_validated_empty (hf : HashFns H) [BEq H] (fl : Flavour) (data : List UInt8)
    (st : Store H) : encodeRangesValidated hf fl data st [] = ⟨[], .ok⟩ :=
  encodeRangesValidated_nil hf fl data st

/-- the plan of the empty query is empty -/
theorem plan_empty (t : Tree) (ml : Nat) : Tree.prePartialChunks t [] ml = some [] :=
  prePartialChunks_nil t ml

/-- `encode_ranges` (no validation): same statement -/
theorem encode_plain_eq (hf : HashFns H) (data : List UInt8) (st : Store H) (ranges : Ranges)
    (h : ∀ plan, st.tree.prePartialChunks (Ranges.truncate ranges st.tree.size) 0 = some plan →
      ∀ node ∈ planParents plan, st.load hf .sync node = st.load hf .fsm node) :
    encodeRanges hf .sync data st ranges = encodeRanges hf .fsm data st ranges :=
  encodeRanges_flavour hf data st ranges h

example : ∀ plan, (⟨.preMem, 0, ⟨5000, 0⟩, []⟩ : Store Nat).tree.prePartialChunks
      (Ranges.truncate [1, 2] 5000) 0 = some plan →
    ∀ node ∈ planParents plan, (⟨.preMem, 0, ⟨5000, 0⟩, []⟩ : Store Nat).load toy .sync node
      = (⟨.preMem, 0, ⟨5000, 0⟩, []⟩ : Store Nat).load toy .fsm node :=
  fun _ _ node _ => load_flavour_eq_mem toy _ node (.inl rfl)

theorem encode_plain_eq_mem (hf : HashFns H) (data : List UInt8) (st : Store H)
    (ranges : Ranges) (hk : st.kind = .preMem ∨ st.kind = .postMem ∨ st.kind = .empty) :
    encodeRanges hf .sync data st ranges = encodeRanges hf .fsm data st ranges :=
  encode_plain_eq hf data st ranges fun _ _ node _ => load_flavour_mem hf st node hk

example : (⟨.preMem, 0, ⟨5000, 0⟩, []⟩ : Store Nat).kind = .preMem ∨
    (⟨.preMem, 0, ⟨5000, 0⟩, []⟩ : Store Nat).kind = .postMem ∨
    (⟨.preMem, 0, ⟨5000, 0⟩, []⟩ : Store Nat).kind = .empty := by decide

/-- when every check of the validating encoder passes, the plain encoder writes the same bytes
(and succeeds); any query, any flavour -/
theorem plain_eq_validated_of_ok (hf : HashFns H) [BEq H] (fl : Flavour) (data : List UInt8)
    (st : Store H) (ranges : Ranges)
    (h : (encodeRangesValidated hf fl data st ranges).terminal = .ok) :
    encodeRanges hf fl data st ranges = encodeRangesValidated hf fl data st ranges :=
  encodeRanges_eq_validated_of_ok hf fl data st ranges h

/-- a one-chunk blob: the plan is the root leaf, whose hash under `toy` is `0 + 5 + 1` -/
example : (encodeRangesValidated toy .fsm [7, 7, 7, 7, 7]
    ⟨.preMem, 6, ⟨5, 0⟩, []⟩ [0]).terminal = .ok := by decide

/-! ## the item stream of `mixed::traverse_ranges_validated` -/

/-- If the traversal does not panic, its items are: the size first; then parent / leaf items whose
flattening is exactly the output of the (sync) validating byte encoder; then one last item, `done`
when the byte encoder ends `ok`, `error e` when it ends with the error `e`. -/
theorem mixed_flatten (hf : HashFns H) [BEq H] (data : List UInt8) (st : Store H) (ranges : Ranges)
    (items : List (EncodedItem H)) (h : traverseRangesValidated hf data st ranges = some items) :
    ∃ (mid : List (Item H)) (last : EncodedItem H),
      items = .size st.tree.size :: (mid.map Item.toEncoded ++ [last]) ∧
      items.head? = some (.size st.tree.size) ∧
      items.getLast? = some last ∧
      ((last = .done ∧ (encodeRangesValidated hf .sync data st ranges).terminal = .ok) ∨
        ∃ e, last = .error e ∧ (encodeRangesValidated hf .sync data st ranges).terminal = .err e) ∧
      items.flatMap (EncodedItem.flatten hf) = (encodeRangesValidated hf .sync data st ranges).out := by
  have hs := traverseRangesValidated_spec hf data st ranges
  rw [h] at hs
  obtain ⟨mid, last, h1, h2, h3⟩ := hs
  refine ⟨mid, last, h1, by rw [h1]; rfl, by rw [h1, ← List.cons_append, List.getLast?_concat], h3, ?_⟩
  rw [h1, h2]
  exact flatMap_flatten_frame hf _ mid last
    (h3.elim (fun a => .inl a.1) (fun ⟨e, a, _⟩ => .inr ⟨e, a⟩))

example : traverseRangesValidated toy [7, 7, 7, 7, 7] ⟨.preMem, 6, ⟨5, 0⟩, []⟩ [0]
    = some [.size 5, .leaf 0 [7, 7, 7, 7, 7], .done] := by decide

/-- the traversal panics exactly when the byte encoder panics -/
theorem mixed_panic (hf : HashFns H) [BEq H] (data : List UInt8) (st : Store H) (ranges : Ranges) :
    traverseRangesValidated hf data st ranges = none ↔
      (encodeRangesValidated hf .sync data st ranges).terminal = .panic := by
  have hs := traverseRangesValidated_spec hf data st ranges
  cases ht : traverseRangesValidated hf data st ranges with
  | none => rw [ht] at hs; simp [hs]
  | some items =>
    rw [ht] at hs
    obtain ⟨_, _, _, _, h3⟩ := hs
    rcases h3 with ⟨_, h⟩ | ⟨e, _, h⟩ <;> simp [h]

/-! ## validators -/

/-- `valid_ranges`: the two flavours yield the same chunk ranges and the same terminal whenever
`load` agrees (the recursion touches `load` only) -/
theorem validRanges_eq (hf : HashFns H) [BEq H] (ob : Store H) (data : List UInt8) (ranges : Ranges)
    (h : ∀ node, ob.load hf .sync node = ob.load hf .fsm node) :
    validRanges hf .sync ob data ranges = validRanges hf .fsm ob data ranges :=
  validRanges_flavour hf ob data ranges h

example : ∀ node, (⟨.preMem, 0, ⟨3000, 0⟩, []⟩ : Store Nat).load toy .sync node
    = (⟨.preMem, 0, ⟨3000, 0⟩, []⟩ : Store Nat).load toy .fsm node :=
  fun node => load_flavour_eq_mem toy _ node (.inl rfl)

/-- `valid_outboard_ranges` -/
theorem validOutboardRanges_eq (hf : HashFns H) [BEq H] (ob : Store H) (ranges : Ranges)
    (h : ∀ node, ob.load hf .sync node = ob.load hf .fsm node) :
    validOutboardRanges hf .sync ob ranges = validOutboardRanges hf .fsm ob ranges :=
  validOutboardRanges_flavour hf ob ranges h

example : ∀ node, (⟨.empty, 0, ⟨3000, 0⟩, []⟩ : Store Nat).load toy .sync node
    = (⟨.empty, 0, ⟨3000, 0⟩, []⟩ : Store Nat).load toy .fsm node :=
  fun node => load_flavour_eq_mem toy _ node (.inr (.inr rfl))

/-
Summary C08.
PROVED: step_eq, decode_eq, decodeAll_eq (+_fields), decodeRanges_eq (+_fields),
  load_flavour_eq_mem, load_flavour_eq_slot, load_flavour_eq_persisted, load_flavour_counterexample,
  encode_validated_eq (+_of_load, _mem, _empty), plan_empty, encode_plain_eq (+_mem),
  plain_eq_validated_of_ok, mixed_flatten, mixed_panic, validRanges_eq, validOutboardRanges_eq.
PARTIAL: none (but see OPEN: for the io-backed kinds the encoder / validator theorems carry the
  hypothesis that `load` agrees on the nodes they read).
OPEN (not stated as theorems):
  -- OPEN: theorem encode_validated_eq_io : st.tree.size ≤ 2^63 → st.tree.outboardSize ≤ st.data.length →
  --   encodeRangesValidated hf .sync data st ranges = encodeRangesValidated hf .fsm data st ranges
  --   missing: every parent node of `prePartialChunks (truncate ranges size) 0` is a persisted node
  --   (`∈ Spec.persistedPre/Post`); with that fact it follows from `encode_validated_eq` and
  --   `load_flavour_eq_persisted`.  It is a property of the plan iterator (PlanPre), not of the codec.
  -- validRanges_eq / validOutboardRanges_eq ask for agreement of `load` on ALL nodes, which holds for
  --   the memory kinds and `empty` but never for a finite `preIo` backing (`load_flavour_counterexample`);
  --   the version restricted to the nodes the recursion visits needs the same missing fact.
NOTE: agreement of the two decoders holds up to and including the first error.  A client that keeps
  calling `next` after an error sees different stacks (sync popped without pushing the children,
  fsm pushed them), so later steps may differ; `step_eq` states exactly what is shared.
  Concrete (`toy` hash): `Dec.new 999 ⟨3000,0⟩ [0] (List.replicate 3200 1)`: first call
  `err (parentHashMismatch 1)` in both; second call: sync `panic` (`stack.pop().unwrap()` on the
  empty stack), fsm `err (parentHashMismatch 0)`.
-/

end Bao.C08
