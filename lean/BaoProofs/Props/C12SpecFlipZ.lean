import BaoProofs.Props.C12SpecFlip
import BaoModel.Ops5

/-!
# The executable specification verdict of `flipz` never rejects the model

`flipz seed size bs m` (`Ops.opFlipZ`): flip of SPARSE memory outboards (the 64-byte records with
index `i % max m 1 = 0` are all zero) and a sync copy of the sparse pre-order outboard into a
post-order target that already holds other records.  The verdict compares the implementation's
line with the re-ordering of the records computed from `Spec.persistedPre` / `Spec.persistedPost`
and `Spec.indexOfNode`.

Everything about `flip` / `copy` is taken from `Lemmas/SpecFlipL.lean` / `Props/C12SpecFlip.lean`
(`flip_flip_reorder`, `copy_run'`, `moved_eq_reorder`), which hold for ARBITRARY contents.  New here:
the length of the `flatMap`-built sparse data, and the fifth token (copy into a used target).
-/

set_option maxRecDepth 100000

namespace Bao.SpecFlipZ
open Bao Bao.Spec Bao.Ops Bao.Proto Bao.CopyL Bao.SpecFlip

/-! ## A. general: flip / copy of a memory store with arbitrary contents of the right length -/

/-- a pre-order memory store with arbitrary root and `outboardSize` arbitrary bytes flips to the
post-order store holding `reorder persistedPre persistedPost data`, and back -/
theorem flip_pre_any (r data : List UInt8) (size bs : Nat) (hs : size ≤ 2 ^ 63) (hbs : bs ≤ 10)
    (hd : data.length = Tree.outboardSize ⟨size, bs⟩) :
    flip Ops.hf (⟨.preMem, r, ⟨size, bs⟩, data⟩ : Store HB)
      = .ok ⟨.postMem, r, ⟨size, bs⟩,
          reorder (Spec.persistedPre size bs) (Spec.persistedPost size bs) data⟩ ∧
    flip Ops.hf (⟨.postMem, r, ⟨size, bs⟩,
          reorder (Spec.persistedPre size bs) (Spec.persistedPost size bs) data⟩ : Store HB)
      = .ok ⟨.preMem, r, ⟨size, bs⟩, data⟩ :=
  flip_flip_reorder Ops.hf real_byteRT ⟨.preMem, r, ⟨size, bs⟩, data⟩ size bs hs hbs rfl (.inl rfl) hd

/-- the same for a post-order memory store -/
theorem flip_post_any (r data : List UInt8) (size bs : Nat) (hs : size ≤ 2 ^ 63) (hbs : bs ≤ 10)
    (hd : data.length = Tree.outboardSize ⟨size, bs⟩) :
    flip Ops.hf (⟨.postMem, r, ⟨size, bs⟩, data⟩ : Store HB)
      = .ok ⟨.preMem, r, ⟨size, bs⟩,
          reorder (Spec.persistedPost size bs) (Spec.persistedPre size bs) data⟩ ∧
    flip Ops.hf (⟨.preMem, r, ⟨size, bs⟩,
          reorder (Spec.persistedPost size bs) (Spec.persistedPre size bs) data⟩ : Store HB)
      = .ok ⟨.postMem, r, ⟨size, bs⟩, data⟩ :=
  flip_flip_reorder Ops.hf real_byteRT ⟨.postMem, r, ⟨size, bs⟩, data⟩ size bs hs hbs rfl (.inr rfl) hd

/-- copy (either flavour) of a pre-order memory store with arbitrary contents into a post-order
memory target that ALREADY HOLDS arbitrary bytes (of the outboard size): every byte of the target is
overwritten, the result is the same re-ordering as `flip` produces; root / tree of the target kept -/
theorem copy_into_used (fl : Flavour) (r r' data other : List UInt8) (size bs : Nat)
    (hs : size ≤ 2 ^ 63) (hbs : bs ≤ 10)
    (hd : data.length = Tree.outboardSize ⟨size, bs⟩)
    (ho : other.length = Tree.outboardSize ⟨size, bs⟩) :
    copy Ops.hf fl (⟨.preMem, r, ⟨size, bs⟩, data⟩ : Store HB) ⟨.postMem, r', ⟨size, bs⟩, other⟩
      = .ok ⟨.postMem, r', ⟨size, bs⟩,
          reorder (Spec.persistedPre size bs) (Spec.persistedPost size bs) data⟩ := by
  have hsk : (⟨.preMem, r, ⟨size, bs⟩, data⟩ : Store HB).kind ≠ .empty := by simp
  have hsd : (Tree.blocks ⟨size, bs⟩ - 1) * 64
      ≤ (⟨.preMem, r, ⟨size, bs⟩, data⟩ : Store HB).data.length := Nat.le_of_eq hd.symm
  rw [copy_run' Ops.hf real_byteRT size bs hs hbs fl ⟨.preMem, r, ⟨size, bs⟩, data⟩
    ⟨.postMem, r', ⟨size, bs⟩, other⟩ rfl rfl hsk hsd (.inr ⟨.inr rfl, ho⟩)]
  simp only
  rw [copied_hbt Ops.hf real_byteRT _ hsk _ size bs hs hbs rfl hsd]
  have e := moved_eq_reorder (⟨.preMem, r, ⟨size, bs⟩, data⟩ : Store HB) hsk .postMem size bs hs hbs rfl
  unfold moved at e
  rw [e]
  rfl

example : copy Ops.hf .sync (⟨.preMem, [1], ⟨3000, 1⟩, List.replicate 64 9⟩ : Store HB)
    ⟨.postMem, [2], ⟨3000, 1⟩, List.replicate 64 5⟩
    = .ok ⟨.postMem, [2], ⟨3000, 1⟩,
        reorder (Spec.persistedPre 3000 1) (Spec.persistedPost 3000 1) (List.replicate 64 9)⟩ :=
  copy_into_used .sync [1] [2] _ _ 3000 1 (by decide) (by decide) (by decide) (by decide)

/-! ## B. `opFlipZ`: the `let`s as named definitions -/

/-- `data` of `opFlipZ`: the sparse backing -/
def fzData (seed size bs m : Nat) : List UInt8 :=
  (List.range (Tree.outboardSize ⟨size, bs⟩ / 64)).flatMap fun i =>
    if i % (max m 1) == 0 then zerosN 64 else ((fxData seed size bs).drop (i * 64)).take 64

/-- `other` of `opFlipZ`: what the re-used target holds -/
def fzOther (seed size bs : Nat) : List UInt8 := randBytes (seed + 7) (Tree.outboardSize ⟨size, bs⟩)

def fzPre (seed size bs m : Nat) : Store HB :=
  ⟨.preMem, fxRoot seed size bs, ⟨size, bs⟩, fzData seed size bs m⟩
def fzPost (seed size bs m : Nat) : Store HB :=
  ⟨.postMem, fxRoot seed size bs, ⟨size, bs⟩, fzData seed size bs m⟩

/-- `cp` of `opFlipZ` -/
def fzCp (seed size bs m : Nat) : Res IoErr (Store HB) :=
  copy hf .sync (fzPre seed size bs m) ⟨.postMem, fxRoot seed size bs, ⟨size, bs⟩, fzOther seed size bs⟩

/-- `cpS` of `opFlipZ` -/
def fzCpStr (cp : Res IoErr (Store HB)) : String :=
  match cp with | .ok st => dig st.data | .err e => ioErrStr e | .panic => "panic"

/-- the output line for the five results -/
def fzFmt (a a2 b b2 : Res IoErr (Store HB)) (c : String) : String :=
  s!"{fxStr a} {fxStr a2} {fxStr b} {fxStr b2} {c}"

/-- `mdl` of `opFlipZ` -/
def fzModel (seed size bs m : Nat) : String :=
  fzFmt (flip hf (fzPre seed size bs m)) (fxBind (flip hf (fzPre seed size bs m)) (flip hf))
    (flip hf (fzPost seed size bs m)) (fxBind (flip hf (fzPost seed size bs m)) (flip hf))
    (fzCpStr (fzCp seed size bs m))

/-- `toPost` / `toPre` of `opFlipZ` -/
def fzToPost (seed size bs m : Nat) : List UInt8 :=
  reorder (Spec.persistedPre size bs) (Spec.persistedPost size bs) (fzData seed size bs m)
def fzToPre (seed size bs m : Nat) : List UInt8 :=
  reorder (Spec.persistedPost size bs) (Spec.persistedPre size bs) (fzData seed size bs m)

/-- `spec` of `opFlipZ` -/
def fzSpec (seed size bs m : Nat) : String :=
  s!"postMem:{dig (fxRoot seed size bs)}:{dig (fzToPost seed size bs m)} preMem:{dig (fxRoot seed size bs)}:{dig (fzData seed size bs m)} preMem:{dig (fxRoot seed size bs)}:{dig (fzToPre seed size bs m)} postMem:{dig (fxRoot seed size bs)}:{dig (fzData seed size bs m)} {dig (fzToPost seed size bs m)}"

/-- the verdict of `opFlipZ` -/
def fzVerdict (seed size bs m : Nat) (impl : String) : Option String :=
  if impl == fzSpec seed size bs m then none
  else some s!"flip / copy of a sparse outboard is not the re-ordering of its records ({fzSpec seed size bs m})"

/-- the named copies ARE the `let`s of the operation -/
theorem opFlipZ_eq (args : List String) (impl : String) (seed size bs m : Nat)
    (h : args.mapM (·.toNat?) = some [seed, size, bs, m]) :
    (opFlipZ args impl).model = fzModel seed size bs m ∧
    (opFlipZ args impl).specFail = fzVerdict seed size bs m impl := by
  unfold opFlipZ
  simp only [h]
  exact ⟨rfl, rfl⟩

/-! ## C. component level -/

/-- every record of the sparse data has 64 bytes -/
theorem fzRec_length (seed size bs m i : Nat) (hi : i < Tree.outboardSize ⟨size, bs⟩ / 64) :
    (if i % (max m 1) == 0 then zerosN 64
      else ((fxData seed size bs).drop (i * 64)).take 64).length = 64 := by
  split
  · simp [zerosN]
  · rw [List.length_take, List.length_drop, fxData_length]
    have : Tree.outboardSize ⟨size, bs⟩ = (Tree.blocks ⟨size, bs⟩ - 1) * 64 := rfl
    rw [this, Nat.mul_div_cancel _ (by decide)] at hi
    omega

/-- NEW 1: the `flatMap`-built sparse data has exactly `outboardSize` bytes -/
theorem fzData_length (seed size bs m : Nat) :
    (fzData seed size bs m).length = Tree.outboardSize ⟨size, bs⟩ := by
  unfold fzData
  rw [WriteAtL.length_flatMap64 _ _ (fun i hi => fzRec_length seed size bs m i (List.mem_range.1 hi)),
    List.length_range]
  have : Tree.outboardSize ⟨size, bs⟩ = (Tree.blocks ⟨size, bs⟩ - 1) * 64 := rfl
  rw [this, Nat.mul_div_cancel _ (by decide)]

/-- the data really is sparse: its first record (index `0`, `0 % max m 1 = 0`) is all zero when there
is at least one record -/
theorem fzData_first_zero (seed size bs m : Nat) (h : 0 < Tree.outboardSize ⟨size, bs⟩ / 64) :
    (fzData seed size bs m).take 64 = zerosN 64 := by
  unfold fzData
  obtain ⟨n, hn⟩ := Nat.exists_eq_succ_of_ne_zero (Nat.ne_of_gt h)
  rw [hn, List.range_succ_eq_map, List.flatMap_cons]
  have : (0 % max m 1 == 0) = true := by simp
  rw [if_pos this, List.take_left' (by simp [zerosN])]

example : (fzData 3 5000 0 2).take 64 = zerosN 64 := fzData_first_zero 3 5000 0 2 (by decide)

theorem fzOther_length (seed size bs : Nat) :
    (fzOther seed size bs).length = Tree.outboardSize ⟨size, bs⟩ :=
  SpecIndex.randBytes_length _ _

/-- tokens 1, 2: the sparse pre-order store flips to the post-order store with the verdict's
`toPost` (zero records included), and flipping again gives the original -/
theorem flipz_pre (seed size bs m : Nat) (hs : size ≤ 2 ^ 63) (hbs : bs ≤ 10) :
    flip Ops.hf (fzPre seed size bs m)
      = .ok ⟨.postMem, fxRoot seed size bs, ⟨size, bs⟩, fzToPost seed size bs m⟩ ∧
    flip Ops.hf ⟨.postMem, fxRoot seed size bs, ⟨size, bs⟩, fzToPost seed size bs m⟩
      = .ok (fzPre seed size bs m) :=
  flip_pre_any _ _ size bs hs hbs (fzData_length seed size bs m)

example : flip Ops.hf (fzPre 3 5000 0 2)
    = .ok ⟨.postMem, fxRoot 3 5000 0, ⟨5000, 0⟩, fzToPost 3 5000 0 2⟩ :=
  (flipz_pre 3 5000 0 2 (by decide) (by decide)).1

/-- tokens 3, 4: the sparse post-order store flips to the pre-order store with the verdict's
`toPre`, and flipping again gives the original -/
theorem flipz_post (seed size bs m : Nat) (hs : size ≤ 2 ^ 63) (hbs : bs ≤ 10) :
    flip Ops.hf (fzPost seed size bs m)
      = .ok ⟨.preMem, fxRoot seed size bs, ⟨size, bs⟩, fzToPre seed size bs m⟩ ∧
    flip Ops.hf ⟨.preMem, fxRoot seed size bs, ⟨size, bs⟩, fzToPre seed size bs m⟩
      = .ok (fzPost seed size bs m) :=
  flip_post_any _ _ size bs hs hbs (fzData_length seed size bs m)

example : flip Ops.hf ⟨.preMem, fxRoot 3 5000 0, ⟨5000, 0⟩, fzToPre 3 5000 0 2⟩
    = .ok (fzPost 3 5000 0 2) :=
  (flipz_post 3 5000 0 2 (by decide) (by decide)).2

/-- NEW 2, token 5: the copy of the sparse pre-order outboard into the post-order target that holds
other records is `.ok`, and its data is the verdict's `toPost` (nothing of `other` survives) -/
theorem flipz_copy (seed size bs m : Nat) (hs : size ≤ 2 ^ 63) (hbs : bs ≤ 10) :
    fzCp seed size bs m
      = .ok ⟨.postMem, fxRoot seed size bs, ⟨size, bs⟩, fzToPost seed size bs m⟩ :=
  copy_into_used .sync _ _ _ _ size bs hs hbs (fzData_length seed size bs m)
    (fzOther_length seed size bs)

example : fzCpStr (fzCp 3 5000 0 2) = dig (fzToPost 3 5000 0 2) := by
  rw [flipz_copy 3 5000 0 2 (by decide) (by decide)]; rfl

/-! ### the output line -/

theorem fzFmt_eq (a a2 b b2 : Res IoErr (Store HB)) (c : String) :
    fzFmt a a2 b b2 c = fxFmt a a2 b b2 ++ " " ++ c := rfl

theorem fzSpec_eq (seed size bs m : Nat) :
    fzSpec seed size bs m
      = s!"postMem:{dig (fxRoot seed size bs)}:{dig (fzToPost seed size bs m)} preMem:{dig (fxRoot seed size bs)}:{dig (fzData seed size bs m)} preMem:{dig (fxRoot seed size bs)}:{dig (fzToPre seed size bs m)} postMem:{dig (fxRoot seed size bs)}:{dig (fzData seed size bs m)}"
        ++ " " ++ dig (fzToPost seed size bs m) := rfl

/-- the model's output line IS the verdict's expected line -/
theorem flipz_line (seed size bs m : Nat) (hs : size ≤ 2 ^ 63) (hbs : bs ≤ 10) :
    fzModel seed size bs m = fzSpec seed size bs m := by
  unfold fzModel
  rw [(flipz_pre seed size bs m hs hbs).1, (flipz_post seed size bs m hs hbs).1]
  simp only [fxBind]
  rw [(flipz_pre seed size bs m hs hbs).2, (flipz_post seed size bs m hs hbs).2,
    flipz_copy seed size bs m hs hbs, fzFmt_eq, fzSpec_eq]
  unfold fzPre fzPost
  rw [fxFmt_ok]
  rfl

example : fzModel 3 5000 0 2 = fzSpec 3 5000 0 2 := flipz_line 3 5000 0 2 (by decide) (by decide)

/-! ## D. op level -/

/-- the full statement for `opFlipZ`: on the model's own output the verdict is `none`, for every
argument list that parses to `seed size bs m` (every `m`, `m = 0` included: `max m 1`) -/
theorem flipz_specFail (args : List String) (impl : String) (seed size bs m : Nat)
    (h : args.mapM (·.toNat?) = some [seed, size, bs, m]) (hs : size ≤ 2 ^ 63) (hbs : bs ≤ 10) :
    (opFlipZ args (opFlipZ args impl).model).specFail = none := by
  rw [(opFlipZ_eq args _ seed size bs m h).2, (opFlipZ_eq args impl seed size bs m h).1,
    flipz_line seed size bs m hs hbs]
  unfold fzVerdict
  rw [beq_self_eq_true, if_pos rfl]

/-- the same with `toString` arguments: no parse hypothesis left -/
theorem flipz_no_false_alarm (seed size bs m : Nat) (impl : String)
    (hs : size ≤ 2 ^ 63) (hbs : bs ≤ 10) :
    (opFlipZ [toString seed, toString size, toString bs, toString m]
      (opFlipZ [toString seed, toString size, toString bs, toString m] impl).model).specFail = none :=
  flipz_specFail _ impl seed size bs m (SpecIndex.mapM_toNat?_toString [seed, size, bs, m]) hs hbs

example : (opFlipZ [toString 3, toString 5000, toString 0, toString 2]
    (opFlipZ [toString 3, toString 5000, toString 0, toString 2] "").model).specFail = none :=
  flipz_no_false_alarm 3 5000 0 2 "" (by decide) (by decide)

example : (opFlipZ [toString 77, toString 70000, toString 2, toString 0]
    (opFlipZ [toString 77, toString 70000, toString 2, toString 0] "x").model).specFail = none :=
  flipz_specFail _ "x" 77 70000 2 0 (SpecIndex.mapM_toNat?_toString [77, 70000, 2, 0]) (by decide)
    (by decide)

/-- the verdict is sharp: it accepts EXACTLY the model's line (so a wrong output is rejected) -/
theorem flipz_verdict_iff (args : List String) (impl : String) (seed size bs m : Nat)
    (h : args.mapM (·.toNat?) = some [seed, size, bs, m]) (hs : size ≤ 2 ^ 63) (hbs : bs ≤ 10) :
    (opFlipZ args impl).specFail = none ↔ impl = (opFlipZ args impl).model := by
  rw [(opFlipZ_eq args impl seed size bs m h).2, (opFlipZ_eq args impl seed size bs m h).1,
    flipz_line seed size bs m hs hbs]
  unfold fzVerdict
  by_cases e : impl = fzSpec seed size bs m
  · simp [e]
  · have : (impl == fzSpec seed size bs m) = false := by simpa using e
    simp [this, e]

theorem fzSpec_ne_empty (seed size bs m : Nat) : fzSpec seed size bs m ≠ "" := by
  rw [fzSpec_eq]
  apply append_ne_empty_left
  apply append_ne_empty_right
  decide

/-- the verdict rejects a wrong output (the empty line) -/
example : (opFlipZ [toString 3, toString 5000, toString 0, toString 2] "").specFail ≠ none := by
  intro hn
  have h := (flipz_verdict_iff _ "" 3 5000 0 2 (SpecIndex.mapM_toNat?_toString [3, 5000, 0, 2])
    (by decide) (by decide)).1 hn
  rw [(opFlipZ_eq _ "" 3 5000 0 2 (SpecIndex.mapM_toNat?_toString [3, 5000, 0, 2])).1,
    flipz_line 3 5000 0 2 (by decide) (by decide)] at h
  exact fzSpec_ne_empty 3 5000 0 2 h.symm

end Bao.SpecFlipZ

/-
Status (no-false-alarm theorem for `flipz`).  Hypotheses: `size ≤ 2^63`, `bs ≤ 10`, arguments that parse; every `m`
(the model uses `max m 1`, so `m = 0` is covered).

PROVED (full strength):
  A. general (driver hash `Ops.hf`, ARBITRARY root and contents of `outboardSize` bytes):
     `flip_pre_any`, `flip_post_any`  flip of a pre/post memory store = the other kind, same root/tree, data =
                           `reorder` of its 64-byte records (`Spec.indexOfNode` look-up), and flipping back gives the
                           store (instances of `SpecFlip.flip_flip_reorder`);
     `copy_into_used`      copy (either flavour) of a pre-order memory store into a post-order memory target that
                           ALREADY HOLDS arbitrary bytes of the outboard size = `.ok` of the target with data
                           `reorder persistedPre persistedPost data` — nothing of the old target contents survives
                           (`copy_run'` + `copied_hbt` + `moved_eq_reorder`).
  B. `opFlipZ_eq`          the named copies (`fzData`, `fzOther`, `fzCp`, `fzModel`, `fzSpec`, `fzVerdict`) ARE the
                           `let`s of `opFlipZ` (by `rfl` after the argument parse).
  C. component level:
     `fzRec_length`, `fzData_length`  NEW 1: the `flatMap`-built sparse data has exactly `outboardSize` bytes;
     `fzData_first_zero`   the data is sparse (record 0 is zero whenever there is a record);
     `fzOther_length`      the old target contents have `outboardSize` bytes;
     `flipz_pre`, `flipz_post`  tokens 1–4: the four flips are `.ok` of the stores the verdict's line describes
                           (`toPost`, the original, `toPre`, the original; root unchanged);
     `flipz_copy`          NEW 2, token 5: `cp = .ok ⟨postMem, root, tree, toPost⟩`;
     `flipz_line`          the model's line equals the verdict's `spec` line (as strings).
  D. op level:
     `flipz_specFail`      `(opFlipZ args (opFlipZ args impl).model).specFail = none` for every `args` that parses to
                           `[seed, size, bs, m]`;  `flipz_no_false_alarm`: the same with `toString` arguments;
     `flipz_verdict_iff`   the verdict is `none` IFF the implementation's line is the model's line (sharpness);
     `fzSpec_ne_empty` + example: the empty line is rejected.

PARTIAL: none.   OPEN: none.

No false alarm found inside `size ≤ 2^63`, `bs ≤ 10`.  Generator (`harness/src/gen4.rs`, "FLIPZ"): `bs ∈ 0..=3`,
sizes from `size_classes` above one block, `m ∈ {1, 2, 3}`, seed `< 2^30` — all inside the theorem's range.

Axioms (`#print axioms`): every theorem of this file: [propext, Classical.choice, Quot.sound].
-/
