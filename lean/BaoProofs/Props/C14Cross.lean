import BaoProofs.Props.C02
import BaoProofs.Props.C04
import BaoProofs.Lemmas.C14CrossL

/-!
# C14 (third part): equivalent queries decode each other's encodings

"Any two queries that select the same chunks of a blob produce identical encodings and each decodes
the other's encoding, so requester and provider need not agree on representation."

`Props/C14.lean` proves the canonicalisation, `Props/C04.lean` (`function_of_selection`,
`interchangeable_encode`) that all encoders emit identical bytes for two queries with the same
selection, `Props/C02.lean` that the honest encoding of `q` decodes with the SAME `q`.  This file
states the cross statements: the provider encodes with `q₂`, the requester decodes with `q₁`, and
`q₁`, `q₂` select the same chunks of the blob (`hsel`).
-/

namespace Bao.C14
open Bao Bao.Spec Bao.DecodeSpec Bao.C14CrossL

variable {H : Type} {hf : HashFns H} [BEq H] [LawfulBEq H]

/-! ## 1. decoding the honest encoding of an equivalent query -/

/-- **cross decode**: decoding the honest encoding of `q₂` with the query `q₁` (either decoder
flavour) ends `done`, leaves nothing unread and yields exactly the specification items of `q₁`,
which are the items of `q₂` -/
theorem cross_decode (hrt : ∀ h, hf.ofBytes (hf.toBytes h) = h)
    (hlen : ∀ h, (hf.toBytes h).length = 32) (fl : Flavour) (d : List UInt8) (bs : Nat)
    {q₁ q₂ : Ranges} (hd : d.length ≤ 2 ^ 63) (hwf₁ : Ranges.WF q₁ = true)
    (hsel : ∀ c, Spec.selected d.length q₁ c = Spec.selected d.length q₂ c) :
    decodeAll hf fl (Spec.root hf d) ⟨d.length, bs⟩ q₁ (Spec.encode hf d bs q₂)
      = ⟨(Spec.items hf d bs q₁).map (toItem hf), .done, []⟩ ∧
    Spec.items hf d bs q₁ = Spec.items hf d bs q₂ := by
  obtain ⟨hi, he⟩ := C04.function_of_selection hf d bs hsel
  exact ⟨by rw [← he]; exact C02.roundtrip hrt hlen fl d bs q₁ hd hwf₁, hi⟩

example : decodeAll C03.toyHash .fsm (Spec.root C03.toyHash C03.toyBlob) ⟨C03.toyBlob.length, 1⟩ [2]
      (Spec.encode C03.toyHash C03.toyBlob 1 [5, 7])
    = ⟨(Spec.items C03.toyHash C03.toyBlob 1 [2]).map (toItem C03.toyHash), .done, []⟩ :=
  (cross_decode C03.toy_rt C03.toy_len .fsm C03.toyBlob 1 C03.toy_size (by decide)
    C04.toy_same_selection).1

/-- the same with arbitrary bytes `x` after the encoding: they are left untouched -/
theorem cross_decode_trailing (hrt : ∀ h, hf.ofBytes (hf.toBytes h) = h)
    (hlen : ∀ h, (hf.toBytes h).length = 32) (fl : Flavour) (d : List UInt8) (bs : Nat)
    {q₁ q₂ : Ranges} (hd : d.length ≤ 2 ^ 63) (hwf₁ : Ranges.WF q₁ = true)
    (hsel : ∀ c, Spec.selected d.length q₁ c = Spec.selected d.length q₂ c) (x : List UInt8) :
    decodeAll hf fl (Spec.root hf d) ⟨d.length, bs⟩ q₁ (Spec.encode hf d bs q₂ ++ x)
      = ⟨(Spec.items hf d bs q₂).map (toItem hf), .done, x⟩ := by
  obtain ⟨hi, he⟩ := C04.function_of_selection hf d bs hsel
  rw [← he, ← hi]
  exact C02.trailing hrt hlen fl d bs q₁ hd hwf₁ x

example : decodeAll C03.toyHash .sync (Spec.root C03.toyHash C03.toyBlob) ⟨C03.toyBlob.length, 0⟩
      [5, 7] (Spec.encode C03.toyHash C03.toyBlob 0 [2] ++ [1, 2, 3])
    = ⟨(Spec.items C03.toyHash C03.toyBlob 0 [2]).map (toItem C03.toyHash), .done, [1, 2, 3]⟩ :=
  cross_decode_trailing C03.toy_rt C03.toy_len .sync C03.toyBlob 0 C03.toy_size (by decide)
    (fun c => (C04.toy_same_selection c).symm) [1, 2, 3]

/-! ## 2. decoding what the model encoders emit for an equivalent query -/

/-- **cross decode, encoder side**: on the intact store of the blob the four model encoders
(validating / plain, sync / fsm: flavour `fe`) run with `q₂` end `ok`, and their output decodes
with `q₁` (decoder flavour `fl`) to `done`, nothing unread, exactly the items of `q₁` -/
theorem cross_decode_encoder (hrt : ∀ h, hf.ofBytes (hf.toBytes h) = h)
    (hlen : ∀ h, (hf.toBytes h).length = 32) (fl fe : Flavour) {d : List UInt8} {bs : Nat}
    {st : Store H} {q₁ q₂ : Ranges} (hd : d.length ≤ 2 ^ 63) (hbs : bs ≤ 10)
    (htree : st.tree = ⟨d.length, bs⟩) (hroot : st.root = Spec.root hf d)
    (hdata : ((st.kind = .preIo ∨ st.kind = .preMem) ∧ st.data = Spec.preOutboard hf d bs) ∨
             ((st.kind = .postIo ∨ st.kind = .postMem) ∧ st.data = Spec.postOutboard hf d bs))
    (hwf₁ : Ranges.WF q₁ = true) (hwf₂ : Ranges.WF q₂ = true)
    (hsel : ∀ c, Spec.selected d.length q₁ c = Spec.selected d.length q₂ c) :
    (encodeRangesValidated hf fe d st q₂).terminal = .ok ∧
    (encodeRanges hf fe d st q₂).terminal = .ok ∧
    decodeAll hf fl (Spec.root hf d) ⟨d.length, bs⟩ q₁ (encodeRangesValidated hf fe d st q₂).out
      = ⟨(Spec.items hf d bs q₁).map (toItem hf), .done, []⟩ ∧
    decodeAll hf fl (Spec.root hf d) ⟨d.length, bs⟩ q₁ (encodeRanges hf fe d st q₂).out
      = ⟨(Spec.items hf d bs q₁).map (toItem hf), .done, []⟩ := by
  rw [C04.encode_is_spec hlen hrt hd hbs htree hroot hdata fe hwf₂,
    C04.encode_plain_is_spec hlen hrt hd hbs htree hroot hdata fe hwf₂]
  have h := (cross_decode hrt hlen fl d bs hd hwf₁ hsel).1
  exact ⟨rfl, rfl, h, h⟩

example : decodeAll C03.toyHash .sync (Spec.root C03.toyHash C03.toyBlob) ⟨C03.toyBlob.length, 1⟩ [2]
      (encodeRangesValidated C03.toyHash .fsm C03.toyBlob C04.toyStore [5, 7]).out
    = ⟨(Spec.items C03.toyHash C03.toyBlob 1 [2]).map (toItem C03.toyHash), .done, []⟩ :=
  (cross_decode_encoder C03.toy_rt C03.toy_len .sync .fsm C03.toy_size (by decide) C04.toyStore_tree
    C04.toyStore_root C04.toyStore_data (by decide) (by decide) C04.toy_same_selection).2.2.1

/-! ## 3. the `decode_ranges` driver -/

/-- a sink for the examples: an in-memory pre-order outboard of exactly the outboard size (one
pair) with the blob's root, and an empty target -/
def toySink : Sink UInt8 :=
  ⟨⟨.preMem, Spec.root C03.toyHash C03.toyBlob, ⟨3000, 1⟩, List.replicate 64 0⟩, []⟩

theorem toySink_ready :
    SaveReady (Spec.root C03.toyHash C03.toyBlob) C03.toyBlob.length 1 toySink.ob :=
  ⟨by simp only [toySink], C03.toy_tree, .inr (.inr (.inr ⟨.inl (by simp only [toySink]), by
    rw [← C03.toy_tree]
    simp only [toySink, List.length_replicate]
    decide⟩))⟩

/-- **cross `decode_ranges`**: `sync::decode_ranges` / `fsm::decode_ranges` with the query `q₁` on
the honest encoding of `q₂`, into a sink whose outboard has the blob's root and geometry and is
`SaveReady` (`Lemmas/C14CrossL.lean`: kind `preIo` / `postIo` / `EmptyOutboard` with any backing, or
`preMem` / `postMem` with a backing of at least `outboardSize` bytes): the run ends `done` with
nothing unread; with `its` the items of `q₁` (= of `q₂`): the target writes are exactly the leaves
of `its`, in order; the saves are exactly the parents of `its` that are relevant for the outboard;
the final target is the initial one after these writes; the outboard is still `SaveReady` (same
root, tree, kind class). -/
theorem cross_decode_ranges (hrt : ∀ h, hf.ofBytes (hf.toBytes h) = h)
    (hlen : ∀ h, (hf.toBytes h).length = 32) (fl : Flavour) (d : List UInt8) (bs : Nat)
    {q₁ q₂ : Ranges} (hd : d.length ≤ 2 ^ 63) (hbs : bs ≤ 10) (hwf₁ : Ranges.WF q₁ = true)
    (hsel : ∀ c, Spec.selected d.length q₁ c = Spec.selected d.length q₂ c) (sink : Sink H)
    (hr : SaveReady (Spec.root hf d) d.length bs sink.ob) :
    let r := decodeRanges hf fl (Spec.encode hf d bs q₂) q₁ sink
    let its := (Spec.items hf d bs q₁).map (toItem hf)
    r.terminal = .done ∧ r.rest = [] ∧
    r.writes = (leafWrites its).map (fun w => (w.1, w.2.length)) ∧
    r.saves = savedNodes ⟨d.length, bs⟩ its ∧
    r.sink.target = (leafWrites its).foldl (fun t w => writeAt t w.1 w.2) sink.target ∧
    SaveReady (Spec.root hf d) d.length bs r.sink.ob ∧
    Spec.items hf d bs q₁ = Spec.items hf d bs q₂ := by
  obtain ⟨h, hi⟩ := cross_decode hrt hlen fl d bs hd hwf₁ hsel
  obtain ⟨h1, h2, h3, h4, h5, h6⟩ := decodeRanges_items hf hlen fl d bs hd hbs q₁ q₁ _ _ _ sink hr h
  exact ⟨h1, h2, h3, h4, h5, h6, hi⟩

example : (decodeRanges C03.toyHash .sync (Spec.encode C03.toyHash C03.toyBlob 1 [5, 7]) [2]
    toySink).terminal = .done :=
  (cross_decode_ranges C03.toy_rt C03.toy_len .sync C03.toyBlob 1 C03.toy_size (by decide)
    (by decide) C04.toy_same_selection toySink toySink_ready).1

/-- the same with explicit hypotheses on the sink, and only "ends `done`, nothing unread" -/
theorem cross_decode_ranges_done (hrt : ∀ h, hf.ofBytes (hf.toBytes h) = h)
    (hlen : ∀ h, (hf.toBytes h).length = 32) (fl : Flavour) (d : List UInt8) (bs : Nat)
    {q₁ q₂ : Ranges} (hd : d.length ≤ 2 ^ 63) (hbs : bs ≤ 10) (hwf₁ : Ranges.WF q₁ = true)
    (hsel : ∀ c, Spec.selected d.length q₁ c = Spec.selected d.length q₂ c) (sink : Sink H)
    (hroot : sink.ob.root = Spec.root hf d) (htree : sink.ob.tree = ⟨d.length, bs⟩)
    (hkind : sink.ob.kind = .preIo ∨ sink.ob.kind = .postIo ∨ sink.ob.kind = .empty ∨
      ((sink.ob.kind = .preMem ∨ sink.ob.kind = .postMem) ∧
        Tree.outboardSize ⟨d.length, bs⟩ ≤ sink.ob.data.length)) :
    (decodeRanges hf fl (Spec.encode hf d bs q₂) q₁ sink).terminal = .done ∧
    (decodeRanges hf fl (Spec.encode hf d bs q₂) q₁ sink).rest = [] :=
  have h := cross_decode_ranges hrt hlen fl d bs hd hbs hwf₁ hsel sink ⟨hroot, htree, hkind⟩
  ⟨h.1, h.2.1⟩

example : (decodeRanges C03.toyHash .fsm (Spec.encode C03.toyHash C03.toyBlob 1 [2]) [5, 7]
    toySink).terminal = .done :=
  (cross_decode_ranges_done C03.toy_rt C03.toy_len .fsm C03.toyBlob 1 C03.toy_size (by decide)
    (by decide) (fun c => (C04.toy_same_selection c).symm) toySink toySink_ready.1 toySink_ready.2.1
    toySink_ready.2.2).1

/-- … and on the stream the model encoders (validating / plain, flavour `fe`) emit for `q₂` from
the intact store `st` of the blob -/
theorem cross_decode_ranges_encoder (hrt : ∀ h, hf.ofBytes (hf.toBytes h) = h)
    (hlen : ∀ h, (hf.toBytes h).length = 32) (fl fe : Flavour) {d : List UInt8} {bs : Nat}
    {st : Store H} {q₁ q₂ : Ranges} (hd : d.length ≤ 2 ^ 63) (hbs : bs ≤ 10)
    (htree : st.tree = ⟨d.length, bs⟩) (hroot : st.root = Spec.root hf d)
    (hdata : ((st.kind = .preIo ∨ st.kind = .preMem) ∧ st.data = Spec.preOutboard hf d bs) ∨
             ((st.kind = .postIo ∨ st.kind = .postMem) ∧ st.data = Spec.postOutboard hf d bs))
    (hwf₁ : Ranges.WF q₁ = true) (hwf₂ : Ranges.WF q₂ = true)
    (hsel : ∀ c, Spec.selected d.length q₁ c = Spec.selected d.length q₂ c) (sink : Sink H)
    (hr : SaveReady (Spec.root hf d) d.length bs sink.ob) :
    (decodeRanges hf fl (encodeRangesValidated hf fe d st q₂).out q₁ sink).terminal = .done ∧
    (decodeRanges hf fl (encodeRangesValidated hf fe d st q₂).out q₁ sink).rest = [] ∧
    decodeRanges hf fl (encodeRangesValidated hf fe d st q₂).out q₁ sink
      = decodeRanges hf fl (Spec.encode hf d bs q₂) q₁ sink ∧
    decodeRanges hf fl (encodeRanges hf fe d st q₂).out q₁ sink
      = decodeRanges hf fl (Spec.encode hf d bs q₂) q₁ sink := by
  rw [C04.encode_is_spec hlen hrt hd hbs htree hroot hdata fe hwf₂,
    C04.encode_plain_is_spec hlen hrt hd hbs htree hroot hdata fe hwf₂]
  have h := cross_decode_ranges hrt hlen fl d bs hd hbs hwf₁ hsel sink hr
  exact ⟨h.1, h.2.1, rfl, rfl⟩

example : (decodeRanges C03.toyHash .sync
    (encodeRanges C03.toyHash .fsm C03.toyBlob C04.toyStore [5, 7]).out [2] toySink)
      = decodeRanges C03.toyHash .sync (Spec.encode C03.toyHash C03.toyBlob 1 [5, 7]) [2] toySink :=
  (cross_decode_ranges_encoder C03.toy_rt C03.toy_len .sync .fsm C03.toy_size (by decide)
    C04.toyStore_tree C04.toyStore_root C04.toyStore_data (by decide) (by decide)
    C04.toy_same_selection toySink toySink_ready).2.2.2

/-! ## 4. what is delivered -/

/-- **the cross decode delivers exactly the selected chunks**: with `its` the items of the decode,
with query `q₁`, of the honest encoding of `q₂`: a chunk is selected by `q₂` (equivalently by `q₁`)
iff it lies in the span of a leaf item; the spans are non-empty, pairwise disjoint and increasing
(every selected chunk is delivered exactly once, in offset order); every leaf carries the blob's
bytes at its chunk-aligned offset -/
theorem cross_delivers_selected (hrt : ∀ h, hf.ofBytes (hf.toBytes h) = h)
    (hlen : ∀ h, (hf.toBytes h).length = 32) (fl : Flavour) (d : List UInt8) (bs : Nat)
    {q₁ q₂ : Ranges} (hd : d.length ≤ 2 ^ 63) (hwf₁ : Ranges.WF q₁ = true)
    (hsel : ∀ c, Spec.selected d.length q₁ c = Spec.selected d.length q₂ c) :
    let its := (decodeAll hf fl (Spec.root hf d) ⟨d.length, bs⟩ q₁ (Spec.encode hf d bs q₂)).items
    (∀ c, Spec.selected d.length q₂ c = true ↔ ∃ a ∈ itemSpans its, a.1 ≤ c ∧ c < a.2) ∧
    (∀ c, Spec.selected d.length q₁ c = true ↔ ∃ a ∈ itemSpans its, a.1 ≤ c ∧ c < a.2) ∧
    (∀ a ∈ itemSpans its, a.1 < a.2) ∧
    (itemSpans its).Pairwise (fun a b => a.2 ≤ b.1) ∧
    (itemSpans its).Pairwise (fun a b => a.1 < b.1) ∧
    (∀ off bytes, Item.leaf off bytes ∈ its →
      off % 1024 = 0 ∧ off + bytes.length ≤ d.length ∧ bytes = (d.drop off).take bytes.length) := by
  have h := C02.delivered_exactly_selected hrt hlen fl d bs q₁ hd hwf₁
  rw [(C04.function_of_selection hf d bs hsel).2] at h
  exact ⟨fun c => by rw [← hsel c]; exact h.1 c, h.1, h.2⟩

example (c : Nat) : Spec.selected C03.toyBlob.length [5, 7] c = true ↔
    ∃ a ∈ itemSpans (decodeAll C03.toyHash .sync (Spec.root C03.toyHash C03.toyBlob)
      ⟨C03.toyBlob.length, 1⟩ [2] (Spec.encode C03.toyHash C03.toyBlob 1 [5, 7])).items,
      a.1 ≤ c ∧ c < a.2 :=
  (cross_delivers_selected C03.toy_rt C03.toy_len .sync C03.toyBlob 1 C03.toy_size (by decide)
    C04.toy_same_selection).1 c

/-
## Status (C14, cross statements)

All theorems depend on the axioms `propext`, `Classical.choice`, `Quot.sound` only.
`q₁` = the decoder's (requester's) query, `q₂` = the encoder's (provider's) query,
`hsel : ∀ c, Spec.selected d.length q₁ c = Spec.selected d.length q₂ c`.

PROVED (every `hf` with `hrt`, `hlen`, `[BEq H] [LawfulBEq H]`; `d.length ≤ 2^63`; both decoder
flavours; every `bs` unless stated):
  cross_decode             `decodeAll … q₁ (Spec.encode hf d bs q₂)` = ⟨items of `q₁`, `done`, []⟩, and
                           `Spec.items … q₁ = Spec.items … q₂`.  Needs only `WF q₁` (not `WF q₂`, not
                           `bs ≤ 10`): the stream is a function of the selection alone.
  cross_decode_trailing    the same with arbitrary bytes `x` appended: rest = `x`.
  cross_decode_encoder     (`bs ≤ 10`, `WF q₁`, `WF q₂`, intact store) the four model encoders run with
                           `q₂` end `ok` and their output decodes with `q₁` as in `cross_decode`.
  cross_decode_ranges      (`bs ≤ 10`) `decodeRanges` (both flavours) with `q₁` on `Spec.encode … q₂`
                           into a `SaveReady` sink: terminal `done`, rest `[]`, writes = the leaves
                           of the items, saves = the relevant parents, final target = initial target
                           after these writes, final outboard again `SaveReady` (root, tree, kind
                           class, backing size kept).  C02 had nothing on `decodeRanges`; the bridge
                           `decodeRangesAux` ↔ `Dec.runAux` is `C14CrossL.aux_of_run` (any stream), and
                           `C14CrossL.save_ready` shows that every save of an existing relevant node
                           succeeds on such a store.
  cross_decode_ranges_done the same with the sink hypotheses spelled out (root, tree, kind / backing
                           size), conclusion `done` ∧ rest `[]` only.
  cross_decode_ranges_encoder   the same on the output of the model encoders for `q₂`.
  cross_delivers_selected  the leaf spans of the cross decode are exactly the chunks selected by `q₂`
                           (and by `q₁`), non-empty, disjoint, increasing; leaves carry the blob's
                           bytes.
PARTIAL: none.
OPEN: none.

Remarks.
* `SaveReady` (in `Lemmas/C14CrossL.lean`) for the in-memory kinds requires a backing of at least
  `outboardSize` bytes.  This is necessary in the model: with a `preMem` backing of 63 bytes for the
  3000-byte blob at block size 1 the cross (and the same-query) `decodeRanges` ends `panic`
  (`Store.save`: slice index out of range; already noted in C09).  Not a C14 issue.
* `EmptyOutboard` sinks are covered (`save` of a relevant node is a no-op).
* Nothing in the model looked suspicious.
-/

end Bao.C14
