import BaoProofs.Lemmas.SpecFaultsR

/-!
# The executable specification verdict of `faults` (C10) never rejects the model

`Ops.opFaults` (`faults <name>/<blob>/<bs>/<store kind>/<ranges> <stride>`) prints the MODEL's fault
report: the call skeleton `opTrace` of the operation and, for every object `o`, every `stride`-th event
`e` = `k`-th call on `o` and every injected error kind, one token `<Kind>=<terminal>/a0/p1` whose
terminal comes from the fault-aware twins (`encodeRangesF`, `outboardF`, `outboardPostOrderF`, `copyF`,
`validRangesF`, `validOutboardRangesF`, `traverseRangesValidatedF`) or, for `decode_ranges` and the
backing file `obio`, from the skeleton rule `expectFault`.  Its verdict `sf` walks the
IMPLEMENTATION's report token by token.  This file proves that the verdict accepts the model's own
report.  (`SpecFaultsL.lean`: the `let`s of `opFaults` as named definitions, related to the operation
by `opFaults_eq` (`rfl`); `SpecFaultsStr.lean`: `String.splitOn " # "`, `String.replace`;
`SpecFaultsR.lean`: skeleton against twin log; `SpecFaultsCx.lean`: the false alarm on `EmptyOutboard`.)
-/

set_option maxRecDepth 100000

namespace Bao.SpecFaults
open Bao Bao.Ops Bao.Proto Bao.SpecIndex Bao.SpecOb Bao.SpecSerde

/-! ## 1. component level -/

/-- the token verdict accepts a token `<kd0>=<res>/a0/p1` whose result is good (`GoodRes`: no `=`, `/`,
space, `#`; not `Ok`, no panic, no hash mismatch; one of the accepted shapes for the object) -/
theorem token_component (part o rest kd0 res : String) (hpart : part = o ++ "@" ++ rest)
    (ho : NoCh '@' o) (hkd : kd0 ∈ allKinds) (hg : GoodRes o kd0 res) :
    tokVerdict part (kd0 ++ "=" ++ res ++ "/a0/p1") = none := by
  refine tokVerdict_none part kd0 res (allKinds_ok kd0 hkd).2.1 hg.noEq hg.noSl hg.notOk hg.notPanic
    hg.notMM ?_
  rw [hpart, split_at_head o rest ho]
  exact hg.acc

example : tokVerdict "w@3[write_64] x" "ConnectionReset=ParentWrite(7)/a0/p1" = none :=
  token_component _ "w" "3[write_64] x" "ConnectionReset" _ rfl (noCh_lit _ _ (by decide)) (by decide)
    (good_pw 7)

/-- the shapes: what the model prints for the printed kind `kd0` (special kinds `Eof`: evaluated as
`UnexpectedEof`, the `*` removed; `Interrupted`: evaluated as `Other` and renamed) is good whenever the
raw terminal for the evaluated kind is the io error of that kind, a write-failed error for
`ConnectionReset` on `w`, a not-found error for `UnexpectedEof` on `r`, or `SendErr` on `s` -/
theorem shape_component (o kd0 raw : String) (hk : kd0 ∈ allKinds)
    (h : RawOk o (evalKind kd0) raw) : GoodRes o kd0 (rename kd0 raw) :=
  good_of_raw o kd0 raw hk h

example : GoodRes "data" "Eof" (rename "Eof" "Io(UnexpectedEof*)") :=
  shape_component _ _ _ (by decide) RawOk.io

example : GoodRes "r" "Eof" (rename "Eof" (numRes "LeafNotFound" 3)) :=
  shape_component _ _ _ (by decide) (RawOk.lnf 3 rfl rfl)

example : GoodRes "ob" "Interrupted" (rename "Interrupted" "Io(Other*)") :=
  shape_component _ _ _ (by decide) RawOk.io

/-- byte encoders (`encv-*`, `encp-*`): a reached fault (`k` below the number of calls on the object in
the fault-free log of `encodeRangesF`) is printed as the io error of its kind, or - fsm flavour,
`ConnectionReset` on the writer - as `ParentWrite(n)` / `LeafWrite(n)`
(from `C10.encF_cut_io`, `C10.encF_cut_w`, `C10.writeErr_spec`) -/
theorem enc_component (name : String) (d : List UInt8) (bs : Nat) (kind : StoreKind) (ranges : Ranges)
    (h : name.startsWith "enc" = true)
    (o : String) (ho : o ∈ opObjs name) (e : Ev) (k : Nat) (kd : String) (hkd : kd ∈ kinds0)
    (hreach : k < (EncFaultL.encLog hf (flOf name) (name.startsWith "encv") d (intactStore kind d bs)
      ranges).count (encObjOf o)) :
    RawOk o kd (twinRes name d bs kind ranges o e k kd) := by
  refine raw_enc name d bs kind ranges h o e k kd hkd ?_ hreach
  rw [opObjs_enc name h] at ho
  simp only [List.mem_cons, List.not_mem_nil, or_false] at ho
  rcases ho with rfl | rfl | rfl | rfl <;> decide

/-- the empty blob: the single (empty) leaf is read once, so a fault on read 0 is reached
(kernel evaluation of BLAKE3 on the empty chunk) -/
example : RawOk "data" "WriteZero" (twinRes "encv-sync" [] 0 .preMem [0] "data" ⟨"data", "x", none⟩ 0
    "WriteZero") :=
  enc_component "encv-sync" [] 0 .preMem [0] (by swdec) "data" (by rw [opObjs_enc _ (by swdec)]; decide)
    _ 0 "WriteZero" (by decide) (by
      rw [flOf_sync _ (by rw [endsWith_eq_decide]; decide),
        show ("encv-sync" : String).startsWith "encv" = true from by swdec]
      decide +kernel)

/-- `mixed`: under `twinOk` every event of the skeleton is a reached fault of
`traverseRangesValidatedF`: `SendErr` on the sender, the io error otherwise (`C10Mixed.mixedF_terminal`) -/
theorem mixed_component (d : List UInt8) (bs : Nat) (kind : StoreKind) (ranges : Ranges) (tr : List Ev)
    (hok : twinOkOf "mixed" d bs kind ranges tr = true) : RawAll "mixed" d bs kind ranges tr :=
  rawAll_mixed d bs kind ranges tr hok

/-- outboard creation, copy, validators (twins of `BaoModel/Fault.lean`): under `twinOk` every event of
the skeleton on `data` / `ob` / `w` / `from` / `to` is a reached fault of the twin, printed as the io
error of its kind (`C10.obF_never_ok`, `obpoF_never_ok`, `copyF_never_ok`, `validF_never_ok`,
`validObF_never_ok`); `obio` keeps the skeleton rule -/
theorem twin_component (name : String) (d : List UInt8) (bs : Nat) (kind : StoreKind) (ranges : Ranges)
    (tr : List Ev) (hn : name ∈ names17) (h1 : name.startsWith "enc" = false)
    (hok : twinOkOf name d bs kind ranges tr = true) : RawAll name d bs kind ranges tr :=
  rawAll name d bs kind ranges tr hn hok (fun h => by rw [h1] at h; cases h)

/-- every operation: the raw terminals of all events, all kinds -/
theorem raw_component (name : String) (d : List UInt8) (bs : Nat) (kind : StoreKind) (ranges : Ranges)
    (tr : List Ev) (htr : opTrace name d bs kind ranges = some tr)
    (hok : twinOkOf name d bs kind ranges tr = true)
    (henc : name.startsWith "enc" = true → EncReach name d bs kind ranges tr) :
    RawAll name d bs kind ranges tr :=
  rawAll name d bs kind ranges tr (opTrace_name name d bs kind ranges tr htr) hok henc

/-- the labels of the skeleton contain neither a space nor a `#` -/
theorem label_component (name : String) (d : List UInt8) (bs : Nat) (kind : StoreKind)
    (ranges : Ranges) (tr : List Ev) (htr : opTrace name d bs kind ranges = some tr) : AllOk tr :=
  opTrace_labels name d bs kind ranges tr htr

/-- one line of the report: accepted by the part verdict, and `#`-free -/
theorem line_component (name : String) (d : List UInt8) (bs : Nat) (kind : StoreKind) (ranges : Ranges)
    (tr : List Ev) (hall : RawAll name d bs kind ranges tr) (hlab : AllOk tr)
    (o : String) (ho : o ∈ opObjs name) (e : Ev) (k : Nat)
    (hek : (tr.filter (·.obj == o))[k]? = some e) :
    partVerdict (lineOf name d bs kind ranges o (e, k)) = none ∧
      NoCh '#' (lineOf name d bs kind ranges o (e, k)) :=
  line_ok name d bs kind ranges tr hall hlab o ho e k hek

/-- the whole report: the verdict accepts the model's line (also when the twin and the skeleton
disagree: the model then prints a line without `" # "`, on which the verdict has nothing to check) -/
theorem report_component (name : String) (d : List UInt8) (bs : Nat) (kind : StoreKind)
    (ranges : Ranges) (tr : List Ev) (stride : Nat)
    (htr : opTrace name d bs kind ranges = some tr)
    (henc : name.startsWith "enc" = true → EncReach name d bs kind ranges tr) :
    sfOf (modelLine name d bs kind ranges tr stride) = none :=
  sfOf_model name d bs kind ranges tr stride
    (fun hok => raw_component name d bs kind ranges tr htr hok henc)
    (label_component name d bs kind ranges tr htr)

/-! ## 2. op level -/

/-- `(opFaults args (opFaults args impl).model).specFail = none` for every argument list that parses
to a known operation; for the byte encoders under the reach hypothesis `EncReach` (their twin's call
log is not compared with the skeleton by `opFaults`) -/
theorem faults_specFail (spec stride impl name b bs kind rs : String) (d : List UInt8) (bsn st : Nat)
    (k : StoreKind) (ranges : Ranges) (tr : List Ev)
    (h0 : spec.splitOn "/" = [name, b, bs, kind, rs]) (h1 : stride.toNat? = some st)
    (h2 : blob b = some d) (h3 : bs.toNat? = some bsn) (h4 : storeKind? kind = some k)
    (h5 : parseNatList rs = some ranges) (htr : opTrace name d bsn k ranges = some tr)
    (henc : name.startsWith "enc" = true → EncReach name d bsn k ranges tr) :
    (opFaults [spec, stride] (opFaults [spec, stride] impl).model).specFail = none := by
  rw [opFaults_eq spec stride impl name b bs kind rs d bsn st k ranges h0 h1 h2 h3 h4 h5,
    opFaults_eq spec stride _ name b bs kind rs d bsn st k ranges h0 h1 h2 h3 h4 h5, htr]
  exact report_component name d bsn k ranges tr st htr henc

/-- every operation but the byte encoders: no further hypothesis -/
theorem faults_specFail_nonenc (spec stride impl name b bs kind rs : String) (d : List UInt8)
    (bsn st : Nat) (k : StoreKind) (ranges : Ranges) (tr : List Ev)
    (h0 : spec.splitOn "/" = [name, b, bs, kind, rs]) (h1 : stride.toNat? = some st)
    (h2 : blob b = some d) (h3 : bs.toNat? = some bsn) (h4 : storeKind? kind = some k)
    (h5 : parseNatList rs = some ranges) (htr : opTrace name d bsn k ranges = some tr)
    (hne : name.startsWith "enc" = false) :
    (opFaults [spec, stride] (opFaults [spec, stride] impl).model).specFail = none :=
  faults_specFail spec stride impl name b bs kind rs d bsn st k ranges tr h0 h1 h2 h3 h4 h5 htr
    (fun h => by rw [hne] at h; cases h)

/-! ## 3. the skeleton against the twin's log -/

/-- the reach hypothesis of the byte encoders holds on every intact store that is not the
`EmptyOutboard`: the fault-free encoder ends `ok` there (`C04SpecEnc`), so it made every call of the
plan the skeleton is built from -/
theorem enc_reach (name : String) (hn : name ∈ encNames) (d : List UInt8) (bs : Nat)
    (kind : StoreKind) (ranges : Ranges) (tr : List Ev) (hne : kind ≠ .empty)
    (hs : d.length ≤ 2 ^ 63) (hbs : bs ≤ 10) (hwf : Ranges.WF ranges = true)
    (htr : opTrace name d bs kind ranges = some tr) : EncReach name d bs kind ranges tr :=
  encReach_intact name hn d bs kind ranges tr hne hs hbs hwf htr

/-- `twinOk` holds for `outboard_post_order` (both flavours): the fault-free call log of
`outboardPostOrderF` IS the skeleton, so the model prints the real report for these operations -/
theorem obpo_twinOk (name : String) (hn : name = "obpo-sync" ∨ name = "obpo-fsm") (d : List UInt8)
    (bs : Nat) (kind : StoreKind) (ranges : Ranges) (tr : List Ev)
    (hs : d.length ≤ 2 ^ 63) (hbs : bs ≤ 10) (htr : opTrace name d bs kind ranges = some tr) :
    modelLine name d bs kind ranges tr 1 =
      " # ".intercalate (headOf name tr :: linesOf name d bs kind ranges tr 1) := by
  unfold modelLine
  rw [twinOk_obpo name hn d bs kind ranges tr hs hbs htr, if_pos rfl]

example : ∃ tr, opTrace "obpo-sync" (List.replicate 3000 7) 0 .preMem [0] = some tr := ⟨_, rfl⟩

/-! ## 4. op level, all operations -/

/-- `faults`: the verdict never rejects the model's own report.  Hypotheses: the arguments parse to a
known operation; for the byte encoders (`encv-*`, `encp-*`) the store is not the `EmptyOutboard`,
blob size `≤ 2^63`, block size `≤ 10`, well-formed query.  (On the `EmptyOutboard` the statement is
FALSE for `encv-*`: `SpecFaultsCx.lean`.) -/
theorem faults_specFail_all (spec stride impl name b bs kind rs : String) (d : List UInt8)
    (bsn st : Nat) (k : StoreKind) (ranges : Ranges) (tr : List Ev)
    (h0 : spec.splitOn "/" = [name, b, bs, kind, rs]) (h1 : stride.toNat? = some st)
    (h2 : blob b = some d) (h3 : bs.toNat? = some bsn) (h4 : storeKind? kind = some k)
    (h5 : parseNatList rs = some ranges) (htr : opTrace name d bsn k ranges = some tr)
    (henc : name.startsWith "enc" = true →
      k ≠ .empty ∧ d.length ≤ 2 ^ 63 ∧ bsn ≤ 10 ∧ Ranges.WF ranges = true) :
    (opFaults [spec, stride] (opFaults [spec, stride] impl).model).specFail = none :=
  faults_specFail spec stride impl name b bs kind rs d bsn st k ranges tr h0 h1 h2 h3 h4 h5 htr
    (fun h => by
      obtain ⟨a1, a2, a3, a4⟩ := henc h
      exact enc_reach name (encNames_of name (opTrace_name name d bsn k ranges tr htr) h) d bsn k
        ranges tr a1 a2 a3 a4 htr)

/-- the same for the rendered arguments `name/blob/bs/kind/ranges stride` -/
theorem faults_no_false_alarm (name b impl : String) (bs st : Nat) (kind : StoreKind)
    (ranges : Ranges) (d : List UInt8) (tr : List Ev)
    (hname : NoCh '/' name) (hb : NoCh '/' b) (h2 : blob b = some d)
    (htr : opTrace name d bs kind ranges = some tr)
    (henc : name.startsWith "enc" = true →
      kind ≠ .empty ∧ d.length ≤ 2 ^ 63 ∧ bs ≤ 10 ∧ Ranges.WF ranges = true) :
    (opFaults ["/".intercalate [name, b, toString bs, kindStr kind, natList ranges], toString st]
      (opFaults ["/".intercalate [name, b, toString bs, kindStr kind, natList ranges], toString st]
        impl).model).specFail = none :=
  faults_specFail_all _ _ impl name b _ _ _ d bs st kind ranges tr
    (spec_split name b bs kind ranges hname hb) (toNat?_toString st) h2 (toNat?_toString bs)
    (SpecEnc.storeKind?_kindStr kind) (SpecTrunc.parseNatList_natList ranges) htr henc

/-- `obpo-sync` on 3000 bytes -/
example : (opFaults ["/".intercalate ["obpo-sync", "const:" ++ toString 7 ++ ":" ++ toString 3000,
      toString 0, kindStr .preMem, natList [0]], toString 1]
    (opFaults ["/".intercalate ["obpo-sync", "const:" ++ toString 7 ++ ":" ++ toString 3000,
      toString 0, kindStr .preMem, natList [0]], toString 1] "").model).specFail = none :=
  faults_no_false_alarm "obpo-sync" _ "" 0 1 .preMem [0] _ _ (noCh_lit _ _ (by decide))
    (noCh_append (noCh_append (noCh_append (noCh_lit _ _ (by decide)) (noCh_nat '/' (by decide) 7))
      (noCh_lit _ _ (by decide))) (noCh_nat '/' (by decide) 3000))
    (blob_const 7 3000) rfl (fun h => by revert h; rw [sw_eq]; decide)

/-- `encv-fsm` on 3000 bytes, in-memory pre-order outboard -/
example : (opFaults ["/".intercalate ["encv-fsm", "const:" ++ toString 7 ++ ":" ++ toString 3000,
      toString 0, kindStr .preMem, natList [0]], toString 1]
    (opFaults ["/".intercalate ["encv-fsm", "const:" ++ toString 7 ++ ":" ++ toString 3000,
      toString 0, kindStr .preMem, natList [0]], toString 1] "").model).specFail = none := by
  have h : ((⟨3000, 0⟩ : Tree).prePartialChunks (Ranges.truncate [0] 3000) 0).isSome = true := by
    decide +kernel
  obtain ⟨plan, hp⟩ := Option.isSome_iff_exists.1 h
  have htr : opTrace "encv-fsm" (List.replicate 3000 (UInt8.ofNat 7)) 0 .preMem [0]
      = some (plan.flatMap (encSkel (List.replicate 3000 (UInt8.ofNat 7)) 0 .preMem)) := by
    rw [opTrace_enc _ (by decide), List.length_replicate, hp]; rfl
  exact faults_no_false_alarm "encv-fsm" _ "" 0 1 .preMem [0] _ _ (noCh_lit _ _ (by decide))
    (noCh_append (noCh_append (noCh_append (noCh_lit _ _ (by decide)) (noCh_nat '/' (by decide) 7))
      (noCh_lit _ _ (by decide))) (noCh_nat '/' (by decide) 3000))
    (blob_const 7 3000) htr
    (fun _ => ⟨by decide, by rw [List.length_replicate]; decide, by decide, by decide⟩)

/-- `decr-fsm` into an `EmptyOutboard` -/
example (tr : List Ev)
    (htr : opTrace "decr-fsm" (List.replicate 3000 (UInt8.ofNat 7)) 0 .empty [0, 1] = some tr) :
    (opFaults ["/".intercalate ["decr-fsm", "const:" ++ toString 7 ++ ":" ++ toString 3000,
      toString 0, kindStr .empty, natList [0, 1]], toString 2]
    (opFaults ["/".intercalate ["decr-fsm", "const:" ++ toString 7 ++ ":" ++ toString 3000,
      toString 0, kindStr .empty, natList [0, 1]], toString 2] "x").model).specFail = none :=
  faults_no_false_alarm "decr-fsm" _ "x" 0 2 .empty [0, 1] _ tr (noCh_lit _ _ (by decide))
    (noCh_append (noCh_append (noCh_append (noCh_lit _ _ (by decide)) (noCh_nat '/' (by decide) 7))
      (noCh_lit _ _ (by decide))) (noCh_nat '/' (by decide) 3000))
    (blob_const 7 3000) htr (fun h => by revert h; rw [sw_eq]; decide)

/-! ## 5. the verdict does reject -/

/-- a swallowed fault (`Ok`) is rejected, whatever the part and the kind -/
theorem rejects_ok (part kd0 : String) (h : kd0 ∈ allKinds) :
    (tokVerdict part (kd0 ++ "=" ++ "Ok" ++ "/a0/p1")).isSome = true :=
  tokVerdict_rejects_ok part kd0 (allKinds_ok kd0 h).2.1

/-- a fault reported as a hash mismatch is rejected -/
theorem rejects_mismatch (part kd0 : String) (n : Nat) (h : kd0 ∈ allKinds) :
    (tokVerdict part (kd0 ++ "=" ++ numRes "ParentHashMismatch" n ++ "/a0/p1")).isSome = true :=
  tokVerdict_rejects_mismatch part kd0 n (allKinds_ok kd0 h).2.1

example : (tokVerdict "w@0[write_32] …" ("WriteZero" ++ "=" ++ "Ok" ++ "/a0/p1")).isSome = true :=
  rejects_ok _ _ (by decide)

end Bao.SpecFaults

/-
Status (no-false-alarm theorem for `faults`, `Ops.opFaults`, property C10).

PROVED (full strength, no size bounds unless stated):
  component level
  * `token_component`      the token verdict accepts `<kd0>=<res>/a0/p1` for a good result (`GoodRes`);
  * `shape_component`      the printed result (special kinds renamed: `Eof` = `UnexpectedEof` with the `*`
                           removed, `Interrupted` = `Other` renamed, both through `String.replace`) is good
                           whenever the raw terminal is `Io(kd*)`, `ParentWrite/LeafWrite(n)` for a
                           `ConnectionReset` on `w`, `ParentNotFound/LeafNotFound(n)` for `UnexpectedEof` on
                           `r`, or `SendErr` on `s`;
  * `enc_component`        byte encoders: a REACHED fault prints such a shape (`encF_cut_io`, `encF_cut_w`,
                           `writeErr_spec`);
  * `mixed_component`      `mixed` under `twinOk` (`mixedF_terminal`);
  * `twin_component`       `ob-*`, `obpo-*`, `copy-*`, `valid-*`, `validob-*` (under `twinOk`:
                           `obF_never_ok`, `obpoF_never_ok`, `copyF_never_ok`, `validF_never_ok`,
                           `validObF_never_ok`) and `decr-*` (`expectFault`; no twin, no hypothesis);
  * `raw_component`        all 17 operation names at once;
  * `label_component`      labels of the skeleton have no space and no `#`;
  * `line_component`, `report_component`   one line / the whole report is accepted.
  skeleton against twin
  * `enc_reach`            `EncReach` (skeleton events on an object ≤ calls of the fault-free encoder twin on
                           it) for every store kind but `EmptyOutboard`, size `≤ 2^63`, `bs ≤ 10`, WF query;
  * `obpo_twinOk`          `twinOk = true` for `obpo-sync` / `obpo-fsm` (size `≤ 2^63`, `bs ≤ 10`): twin log =
                           skeleton, proved in general (`twinOk_obpo`).
  op level
  * `faults_specFail`          `(opFaults args (opFaults args impl).model).specFail = none`, every parsed
                               argument list, encoders under `EncReach`;
  * `faults_specFail_nonenc`   every operation but the encoders: no hypothesis beyond parsing
                               (`twinOk` is not a hypothesis: when it is `false` the model prints
                               "fault-twin and call skeleton disagree", which the verdict accepts);
  * `faults_specFail_all`      encoders too: store kind `≠ empty`, size `≤ 2^63`, `bs ≤ 10`, WF query;
  * `faults_no_false_alarm`    the same for the rendered arguments `name/blob/bs/kind/ranges stride`.
  the verdict does reject: `rejects_ok`, `rejects_mismatch`.
  In the lemma files: `opFaults_eq` (named copies of the `let`s ARE the operation, `rfl`), `splitOn_hash`,
  `splitOn_hash_intercalate` (`String.splitOn " # "`, a three-character separator, on the list of
  characters), `replace_eq` (`String.replace` with a non-empty string pattern is the list function `replL`,
  from core's `IsValidSearchFrom` specification of the searcher), `replace_noop`.

PARTIAL: none.

OPEN:
  -- OPEN: `twinOkOf name d bs kind ranges tr = true` for `ob-*`, `copy-*`, `valid-*`, `validob-*`, `mixed`
  --   on intact stores (proved only for `obpo-*`).  Not needed for the no-false-alarm theorems (when
  --   `twinOk` fails the model prints the "disagree" line and the verdict accepts it), but needed to know
  --   that the model prints a real report.  It is FALSE for `valid-*`, `validob-*`, `mixed` on the
  --   `EmptyOutboard` (`#eval`: "fault-twin and call skeleton disagree"; the validators / the traversal stop
  --   at the first mismatching pair); `copy-*` on `empty` agrees.
  -- OPEN: `EncReach` for `encp-*` on the `EmptyOutboard` (the non-validating encoder does not look at the
  --   hashes, so it should hold there too; `enc_reach` uses the C04 theorem "the run ends ok", which is
  --   stated for `kind ≠ empty`).

FINDING (false alarm of the machinery, `SpecFaultsCx.lean`, 3 minutes of kernel BLAKE3):
  `faults encv-sync/<blob of ≥ 2 blocks>/bs/empty/ranges stride` (also `encv-fsm`): the verdict REJECTS the
  model's own report.  The skeleton lists the calls of the whole plan, the validating encoder on an
  `EmptyOutboard` stops after the first `load` with `ParentHashMismatch`, no later fault is reached, the
  twin prints `ParentHashMismatch(n)` and the verdict says "fault reported as hash mismatch"
  (`cx_event`, `cx_terminal`, `cx_raw`, `cx_token`; `#eval` of the whole operation in the file header).
  `opFaults` does not compare the encoder twin with the skeleton (`faultCalls = none` for `enc*`), so
  `twinOk` does not turn this case into the "disagree" line.  Corrected theorem: `faults_specFail_all`
  (hypothesis `kind ≠ empty` for the encoders).  The generator (`harness/src/gen3.rs`, "C10") draws the
  store of every operation except `decr-*` from `STORES` (no `empty`): it cannot emit such arguments.

Axioms (`#print axioms`): every theorem of this file and `opFaults_eq`, `splitOn_hash_intercalate`,
`replace_eq`, `rawAll`, `sfOf_model`, `encReach_intact`, `twinOk_obpo`, `cx_*`:
[propext, Classical.choice, Quot.sound].
-/
