import BaoProofs.Lemmas.SizeProof

/-!
# C16 — decoding the last chunk authenticates the claimed size

"A decode whose query selects the last chunk under the claimed size can complete without error only
if the claimed size is the blob's true size; no claimed size up to 2^63 makes a decoder panic."

The root hash is the true root `Spec.root hf d` of a blob `d`; the decoder is run with a CLAIMED
geometry `⟨size', bs⟩`, any query that selects the last chunk `nChunks size' - 1` of the claimed
geometry, and ANY stream `s`.

Method (`Lemmas/SizeProof.lean`).  A *spine hash* is the chaining value of a right-spine interval
`[a, N)` of the true blob.  The root is one.  On the claimed tree's path from the root to its last
chunk every parent has its right flag set; a parent that verifies against a spine hash hands a
spine hash to its right child (shape of the tree hash + `CollisionFree`); the plan of its left
child consumes exactly its own hash (`planPre_frame`); the last leaf is compared with a spine hash
under its claimed start chunk and its claimed length `size' - start·1024`, and `cv_inj` makes both
true, hence `size' = d.length`.

Only `CollisionFree hf` is assumed of the hash (no wire-format hypotheses: the stream is arbitrary),
so the statement is not vacuous (`termHash_cf`).
-/

namespace Bao.C16
open Bao Bao.Spec Bao.DecodeSpec

variable {H : Type} {hf : HashFns H} [BEq H] [LawfulBEq H]

/-- **the size proof**: if the query selects the last chunk of the claimed geometry and the decode
of SOME stream against the true root ends `done`, the claimed size is the true size -/
theorem size_proof (cf : CollisionFree hf) (fl : Flavour) (d : List UInt8) (hd : d.length ≤ 2 ^ 63)
    (size' bs : Nat) (hs : size' ≤ 2 ^ 63) (q : Ranges) (hwf : Ranges.WF q = true)
    (hsel : Spec.selected size' q (nChunks size' - 1) = true) (s : List UInt8)
    (hdone : (decodeAll hf fl (Spec.root hf d) ⟨size', bs⟩ q s).terminal = .done) :
    size' = d.length :=
  decode_size_proof cf fl d hd size' bs hs q hwf hsel s hdone

/-- contrapositive: with a wrong claimed size every stream is rejected (error, never `done`) -/
theorem wrong_size_rejected (cf : CollisionFree hf) (fl : Flavour) (d : List UInt8)
    (hd : d.length ≤ 2 ^ 63) (size' bs : Nat) (hs : size' ≤ 2 ^ 63) (hne : size' ≠ d.length)
    (q : Ranges) (hwf : Ranges.WF q = true)
    (hsel : Spec.selected size' q (nChunks size' - 1) = true) (s : List UInt8) :
    ∃ e, (decodeAll hf fl (Spec.root hf d) ⟨size', bs⟩ q s).terminal = .err e := by
  cases h : (decodeAll hf fl (Spec.root hf d) ⟨size', bs⟩ q s).terminal with
  | done => exact absurd (size_proof cf fl d hd size' bs hs q hwf hsel s h) hne
  | err e => exact ⟨e, rfl⟩
  | panic => exact absurd h (decode_no_panic hf fl _ size' bs q s hs)

omit [LawfulBEq H] in
/-- **no claimed size up to `2^63` makes a decoder panic** (any root, block size, query, stream) -/
theorem no_panic (fl : Flavour) (root : H) (size' bs : Nat) (q : Ranges) (s : List UInt8)
    (hs : size' ≤ 2 ^ 63) : (decodeAll hf fl root ⟨size', bs⟩ q s).terminal ≠ .panic :=
  decode_no_panic hf fl root size' bs q s hs

/-! ## non-vacuity: the collision free term hash, a 3-byte blob -/

private def blob : List UInt8 := [1, 2, 3]

/-- the hypotheses can be met: the honest decode of the one-chunk blob completes -/
example : (3 : Nat) = blob.length :=
  size_proof termHash_cf .sync blob (by decide) 3 0 (by decide) [0] (by decide) (by decide)
    [1, 2, 3] (by decide)

/-- a claimed size of 5000 bytes is rejected whatever the stream -/
example (s : List UInt8) :
    ∃ e, (decodeAll termHash .fsm (Spec.root termHash blob) ⟨5000, 1⟩ [4] s).terminal = .err e :=
  wrong_size_rejected termHash_cf .fsm blob (by decide) 5000 1 (by decide) (by decide) [4]
    (by decide) (by decide) s

example : (decodeAll termHash .sync (Spec.root termHash blob) ⟨2 ^ 63, 10⟩ [0] []).terminal ≠ .panic :=
  no_panic .sync _ (2 ^ 63) 10 [0] [] (Nat.le_refl _)

/-
## Status (C16)

All theorems depend on the axioms `propext`, `Classical.choice`, `Quot.sound` only.

Proved (full strength: every claimed size `≤ 2^63`, every block size, every well-formed query that
selects the last claimed chunk, every stream, both flavours):
  size_proof, wrong_size_rejected, no_panic.
Partial: none (the fallback `size_proof_single_group_partial` was not needed).   OPEN: none.

Remarks.
* Hypotheses on the hash: `CollisionFree hf` and a lawful `==` only.
* `Spec.selected size' q (nChunks size' - 1)` holds in particular for every query that reaches the
  last claimed chunk or beyond (`Spec.selected` adds the last chunk in that case), e.g. `[x]` for any `x`.
* The true size need not be recoverable from the items alone when the last chunk is NOT selected:
  then a decode under a wrong claimed size can complete (C01 states what is still guaranteed).
* Model: nothing suspicious.
-/

end Bao.C16
