import BaoProofs.Lemmas.SpecRoundL

/-!
# The executable specification verdict of `round` never rejects the model (property C17)

`Ops.opRound` (`round kind ranges bs`, `BaoModel/Ops1.lean`) prints the model's
`round_up_to_chunks` / `round_up_to_chunks_groups` / `full_chunk_groups` of a range set and judges
the implementation's output `out` with a verdict that does not run the model: `out` must be strictly
sorted, and on every probe unit `u` (chunk for `chunks`, chunk group otherwise) three boundary-list
tests must agree: `want u` (the unit meets resp. lies inside the input), `outHas u` (the unit lies
inside `out`) and `outAny u` (the unit meets `out`).

This file proves that the verdict accepts the model's own output:

1. component level, one theorem per kind (`chunks_components`, `groups_components`,
   `full_components`): the model's output is strictly sorted and the three tests agree on EVERY
   unit up to the last unit of the u64 universe (not only on the probe units) - derived from the
   C17 theorems `chunks_wf`/`chunks`, `groups_wf`/`groups`, `full_wf`/`full`;
   `round_core_model`: the verdict on the parsed model output is `none`;
2. string level: `parse_model` (`parseNatList` inverts `natList`, and the output is never `"panic"`);
3. op level: `round_specFail` / `round_no_false_alarm`:
   `(opRound args (opRound args impl).model).specFail = none`;
4. the hypotheses are needed: `round_not_sorted_alarm` (an input that is not strictly sorted),
   `round_bad_kind_alarm` (a kind other than the three).
-/

namespace Bao.SpecRound
open Bao Bao.Ops Bao.Proto Bao.Ranges

/-! ## 1. component level -/

/-- `chunks`: the model's output is strictly sorted; on every chunk `u ≤ lastUnit = 2^54 - 1` the
verdict's `want` ("chunk `u` meets the byte set", from the boundary list) equals `outHas`
(membership of `u` in the output), and `outHas = outAny` -/
theorem chunks_components {R : List Nat} (bs : Nat) (h : WF R = true) (hN : C17.Bounded R) :
    WF (roundUpToChunks R) = true ∧
    ∀ u, u ≤ (U64 - 1) / gOf "chunks" bs →
      wantB "chunks" R (gOf "chunks" bs) u = outHasB "chunks" (roundUpToChunks R) (gOf "chunks" bs) u ∧
      outHasB "chunks" (roundUpToChunks R) (gOf "chunks" bs) u
        = outAnyB "chunks" (roundUpToChunks R) (gOf "chunks" bs) u :=
  ⟨(C17.chunks_wf h hN).1, fun u hu => ⟨chunks_unit h hN u hu, rfl⟩⟩

example : WF (roundUpToChunks [3, 1024, 5000]) = true ∧
    ∀ u, u ≤ (U64 - 1) / gOf "chunks" 0 →
      wantB "chunks" [3, 1024, 5000] (gOf "chunks" 0) u
        = outHasB "chunks" (roundUpToChunks [3, 1024, 5000]) (gOf "chunks" 0) u ∧
      outHasB "chunks" (roundUpToChunks [3, 1024, 5000]) (gOf "chunks" 0) u
        = outAnyB "chunks" (roundUpToChunks [3, 1024, 5000]) (gOf "chunks" 0) u :=
  chunks_components (R := [3, 1024, 5000]) 0 (by decide) (by decide)

/-- `groups` (every `bs`): the model's output is strictly sorted; on every group `u ≤ lastUnit` the
verdict's `want` ("group `u` meets the input") equals `outHas` ("group `u` lies inside the output"),
which equals `outAny` ("group `u` meets the output": the output is a union of whole groups) -/
theorem groups_components {R : List Nat} (bs : Nat) (h : WF R = true) (hN : C17.Bounded R) :
    WF (roundUpToChunkGroups R bs) = true ∧
    ∀ u, u ≤ (U64 - 1) / gOf "groups" bs →
      wantB "groups" R (gOf "groups" bs) u
        = outHasB "groups" (roundUpToChunkGroups R bs) (gOf "groups" bs) u ∧
      outHasB "groups" (roundUpToChunkGroups R bs) (gOf "groups" bs) u
        = outAnyB "groups" (roundUpToChunkGroups R bs) (gOf "groups" bs) u :=
  ⟨(C17.groups_wf bs h hN).1, fun u hu => groups_unit bs h hN u hu⟩

example : WF (roundUpToChunkGroups [3, 18, 40] 2) = true ∧
    ∀ u, u ≤ (U64 - 1) / gOf "groups" 2 →
      wantB "groups" [3, 18, 40] (gOf "groups" 2) u
        = outHasB "groups" (roundUpToChunkGroups [3, 18, 40] 2) (gOf "groups" 2) u ∧
      outHasB "groups" (roundUpToChunkGroups [3, 18, 40] 2) (gOf "groups" 2) u
        = outAnyB "groups" (roundUpToChunkGroups [3, 18, 40] 2) (gOf "groups" 2) u :=
  groups_components (R := [3, 18, 40]) 2 (by decide) (by decide)

/-- `full` (`bs ≤ 64`): the model's output is strictly sorted; on every group `u ≤ lastUnit` the
verdict's `want` ("group `u` lies inside the input") equals `outHas`, which equals `outAny` -/
theorem full_components {R : List Nat} (bs : Nat) (hbs : bs ≤ 64) (h : WF R = true)
    (hN : C17.Bounded R) :
    WF (fullChunkGroups R bs) = true ∧
    ∀ u, u ≤ (U64 - 1) / gOf "full" bs →
      wantB "full" R (gOf "full" bs) u
        = outHasB "full" (fullChunkGroups R bs) (gOf "full" bs) u ∧
      outHasB "full" (fullChunkGroups R bs) (gOf "full" bs) u
        = outAnyB "full" (fullChunkGroups R bs) (gOf "full" bs) u :=
  ⟨(C17.full_wf bs hbs h hN).1, fun u hu => full_unit bs hbs h hN u hu⟩

example : WF (fullChunkGroups [3, 18, 40] 2) = true ∧
    ∀ u, u ≤ (U64 - 1) / gOf "full" 2 →
      wantB "full" [3, 18, 40] (gOf "full" 2) u
        = outHasB "full" (fullChunkGroups [3, 18, 40] 2) (gOf "full" 2) u ∧
      outHasB "full" (fullChunkGroups [3, 18, 40] 2) (gOf "full" 2) u
        = outAnyB "full" (fullChunkGroups [3, 18, 40] 2) (gOf "full" 2) u :=
  full_components (R := [3, 18, 40]) 2 (by decide) (by decide) (by decide)

/-- the boundary-list tests of the verdict mean what their names say (`R` strictly sorted,
`lo < hi`): `meets`/`outAny` = the interval `[lo, hi)` meets the set, `inside`/`outHas` = it lies
inside the set -/
theorem tests_meaning {R : List Nat} (h : WF R = true) {lo hi : Nat} (hlt : lo < hi) :
    (meetsB R lo hi = true ↔ ∃ x, lo ≤ x ∧ x < hi ∧ C17.Mem R x) ∧
    (insideB R lo hi = true ↔ ∀ x, lo ≤ x → x < hi → C17.Mem R x) :=
  ⟨meetsB_iff h hlt, insideB_iff h hlt⟩

example : (meetsB [3, 18, 40] 16 20 = true ↔ ∃ x, 16 ≤ x ∧ x < 20 ∧ C17.Mem [3, 18, 40] x) ∧
    (insideB [3, 18, 40] 16 20 = true ↔ ∀ x, 16 ≤ x → x < 20 → C17.Mem [3, 18, 40] x) :=
  tests_meaning (R := [3, 18, 40]) (by decide) (by decide)

/-- the model's output list of `round kind` -/
def modelOut (kind : String) (R : List Nat) (bs : Nat) : List Nat :=
  match kind with
  | "chunks" => roundUpToChunks R
  | "groups" => roundUpToChunkGroups R bs
  | _ => fullChunkGroups R bs

/-- component level "no false alarm": the verdict on the (parsed) model output is `none` -/
theorem round_core_model (kind : String) (R : List Nat) (bs : Nat)
    (hk : kind = "chunks" ∨ kind = "groups" ∨ kind = "full")
    (h : WF R = true) (hN : C17.Bounded R) (hbs : kind = "full" → bs ≤ 64) :
    roundModel kind R bs = natList (modelOut kind R bs) ∧
    roundCore kind R bs (modelOut kind R bs) = none := by
  rcases hk with rfl | rfl | rfl
  · have := chunks_components bs h hN
    exact ⟨rfl, roundCore_none _ _ _ _ this.1 this.2⟩
  · have := groups_components bs h hN
    exact ⟨rfl, roundCore_none _ _ _ _ this.1 this.2⟩
  · have := full_components bs (hbs rfl) h hN
    exact ⟨rfl, roundCore_none _ _ _ _ this.1 this.2⟩

example : roundCore "full" [3, 18, 40] 2 (modelOut "full" [3, 18, 40] 2) = none :=
  (round_core_model "full" [3, 18, 40] 2 (by decide) (by decide) (by decide) (by decide)).2

/-! ## 2. string level -/

/-- the rendering of a list parses back, and is not the word `panic` -/
theorem parse_model (l : List Nat) : parseNatList (natList l) = some l ∧ natList l ≠ "panic" :=
  ⟨parseNatList_natList l, natList_ne_panic l⟩

/-- the verdict on the rendering of a list is the verdict on the list -/
theorem roundVerdict_natList (kind : String) (R : List Nat) (bs : Nat) (out : List Nat) :
    roundVerdict kind R bs (natList out) = roundCore kind R bs out := by
  unfold roundVerdict
  have hb : (natList out == "panic") = false := by simpa using natList_ne_panic out
  rw [hb, parseNatList_natList]
  rfl

/-! ## 3. op level -/

/-- the full statement for `opRound`: on the model's own output the verdict is `none`, for every
argument list `[kind, rs, bs]` with one of the three kinds whose `rs` parses to a strictly sorted
list of `u64` boundaries (`bs ≤ 64` for `full`) -/
theorem round_specFail (kind rs bs impl : String) (R : List Nat) (b : Nat)
    (hk : kind = "chunks" ∨ kind = "groups" ∨ kind = "full")
    (h1 : parseNatList rs = some R) (h2 : bs.toNat? = some b)
    (h : WF R = true) (hN : C17.Bounded R) (hbs : kind = "full" → b ≤ 64) :
    (opRound [kind, rs, bs] (opRound [kind, rs, bs] impl).model).specFail = none := by
  obtain ⟨hm, hc⟩ := round_core_model kind R b hk h hN hbs
  rw [(opRound_eq kind rs bs impl R b h1 h2).1, (opRound_eq kind rs bs _ R b h1 h2).2, hm,
    roundVerdict_natList, hc]

/-- `(opRound [kind, natList R, toString bs] m).specFail = none` for the model's own output `m` -/
theorem round_no_false_alarm (kind impl : String) (R : List Nat) (bs : Nat)
    (hk : kind = "chunks" ∨ kind = "groups" ∨ kind = "full")
    (h : WF R = true) (hN : C17.Bounded R) (hbs : kind = "full" → bs ≤ 64) :
    (opRound [kind, natList R, toString bs]
      (opRound [kind, natList R, toString bs] impl).model).specFail = none :=
  round_specFail kind _ _ impl R bs hk (parseNatList_natList R) (SpecIndex.toNat?_toString bs)
    h hN hbs

example : (opRound ["chunks", natList [3, 1024, 5000], toString 0]
    (opRound ["chunks", natList [3, 1024, 5000], toString 0] "").model).specFail = none :=
  round_no_false_alarm "chunks" "" [3, 1024, 5000] 0 (by decide) (by decide) (by decide) (by decide)

example : (opRound ["groups", natList [1, 2 ^ 64 - 3], toString 10]
    (opRound ["groups", natList [1, 2 ^ 64 - 3], toString 10] "x").model).specFail = none :=
  round_no_false_alarm "groups" "x" [1, 2 ^ 64 - 3] 10 (by decide) (by decide) (by decide)
    (by decide)

example : (opRound ["full", natList [], toString 3]
    (opRound ["full", natList [], toString 3] "").model).specFail = none :=
  round_specFail "full" _ _ "" [] 3 (by decide) (parseNatList_natList []) (SpecIndex.toNat?_toString 3)
    (by decide) (by decide) (by decide)

/-! ## 4. the verdict on concrete strings; the hypotheses are needed -/

/-- the verdict of `opRound` on renderings: the verdict on the lists -/
theorem round_on (kind rs bs impl : String) (R : List Nat) (b : Nat) (out : List Nat)
    (h1 : natList R = rs) (h2 : toString b = bs) (h3 : natList out = impl) :
    (opRound [kind, rs, bs] impl).specFail = roundCore kind R b out := by
  subst h1 h2 h3
  rw [(opRound_eq kind _ _ _ R b (parseNatList_natList R) (SpecIndex.toNat?_toString b)).2,
    roundVerdict_natList]

/-- accepted: the model's outputs -/
example : (opRound ["chunks", "3,1024,5000", "0"] "0,1,4").specFail = none := by
  rw [round_on "chunks" _ _ _ [3, 1024, 5000] 0 [0, 1, 4] (by decide) (by decide) (by decide)]
  decide +kernel

example : (opRound ["groups", "3,18,40", "2"] "0,20,40").specFail = none := by
  rw [round_on "groups" _ _ _ [3, 18, 40] 2 [0, 20, 40] (by decide) (by decide) (by decide)]
  decide +kernel

example : (opRound ["full", "3,18,40", "2"] "4,16,40").specFail = none := by
  rw [round_on "full" _ _ _ [3, 18, 40] 2 [4, 16, 40] (by decide) (by decide) (by decide)]
  decide +kernel

example : (opRound ["full", "18446744073709551608,18446744073709551615", "2"]
    "18446744073709551608,18446744073709551612").specFail = none := by
  rw [round_on "full" _ _ _ [2 ^ 64 - 8, 2 ^ 64 - 1] 2 [2 ^ 64 - 8, 2 ^ 64 - 4] (by decide)
    (by decide) (by decide)]
  decide +kernel

/-- rejected: wrong outputs -/
example : (opRound ["chunks", "3,1024,5000", "0"] "0,1,5").specFail
    = some "unit 4: want true got false/false" := by
  rw [round_on "chunks" _ _ _ [3, 1024, 5000] 0 [0, 1, 5] (by decide) (by decide) (by decide)]
  decide +kernel

example : (opRound ["groups", "3,18,40", "2"] "0,16,40").specFail
    = some "unit 4: want true got false/false" := by
  rw [round_on "groups" _ _ _ [3, 18, 40] 2 [0, 16, 40] (by decide) (by decide) (by decide)]
  decide +kernel

/-- a superset of the right answer that is not a union of groups -/
example : (opRound ["groups", "3,18,40", "2"] "0,18,40").specFail
    = some "unit 4: want true got false/true" := by
  rw [round_on "groups" _ _ _ [3, 18, 40] 2 [0, 18, 40] (by decide) (by decide) (by decide)]
  decide +kernel

example : (opRound ["full", "3,18,40", "2"] "4,20,40").specFail
    = some "unit 4: want false got true/true" := by
  rw [round_on "full" _ _ _ [3, 18, 40] 2 [4, 20, 40] (by decide) (by decide) (by decide)]
  decide +kernel

example : (opRound ["groups", "3,18,40", "2"] "0,40,20").specFail = some "not strictly sorted" := by
  rw [round_on "groups" _ _ _ [3, 18, 40] 2 [0, 40, 20] (by decide) (by decide) (by decide)]
  decide +kernel

example : (opRound ["groups", natList [3, 18, 40], toString 2] "panic").specFail = some "panic" := by
  rw [(opRound_eq "groups" _ _ _ [3, 18, 40] 2 (parseNatList_natList _)
    (SpecIndex.toNat?_toString 2)).2]
  rfl

/-- FALSE ALARM outside the hypotheses (1): the input must be strictly sorted.  For the boundary
list `5,3` the model's `round groups … 1` prints `-` and the verdict rejects it.  (The generators
only emit sorted, deduplicated lists, and the Rust side cannot build such a set.) -/
theorem round_not_sorted_alarm (impl : String) :
    (opRound ["groups", "5,3", "1"] (opRound ["groups", "5,3", "1"] impl).model).specFail
      = some "unit 2: want true got false/false" := by
  have h1 : parseNatList "5,3" = some [5, 3] := parseNatList_natList [5, 3]
  have h2 : "1".toNat? = some 1 := SpecIndex.toNat?_toString 1
  have hm : roundModel "groups" [5, 3] 1 = natList [] := by decide +kernel
  rw [(opRound_eq "groups" _ _ impl [5, 3] 1 h1 h2).1, (opRound_eq "groups" _ _ _ [5, 3] 1 h1 h2).2,
    hm, roundVerdict_natList]
  decide +kernel

/-- FALSE ALARM outside the hypotheses (2): a kind other than `chunks`, `groups`, `full`.  The model
prints `bad-kind`, which the verdict calls malformed.  (The generators only emit the three kinds.) -/
theorem round_bad_kind_alarm (kind rs bs impl : String) (R : List Nat) (b : Nat)
    (hk : ¬ (kind = "chunks" ∨ kind = "groups" ∨ kind = "full"))
    (h1 : parseNatList rs = some R) (h2 : bs.toNat? = some b) :
    (opRound [kind, rs, bs] (opRound [kind, rs, bs] impl).model).specFail = some "malformed" := by
  rw [(opRound_eq kind rs bs impl R b h1 h2).1, (opRound_eq kind rs bs _ R b h1 h2).2,
    roundModel_bad kind R b hk]
  unfold roundVerdict
  rw [if_neg (by decide), parseNatList_bad]

example : (opRound ["foo", natList [1], toString 7]
    (opRound ["foo", natList [1], toString 7] "").model).specFail = some "malformed" :=
  round_bad_kind_alarm "foo" _ _ "" [1] 7 (by decide) (parseNatList_natList _)
    (SpecIndex.toNat?_toString 7)

end Bao.SpecRound

/-
Status (task: the `round` verdict never rejects the model; property C17).
Hypotheses throughout: kind ∈ {chunks, groups, full}; the input `R` strictly sorted (`WF R`) with
boundaries `< 2^64` (`C17.Bounded R`); every `bs` for `chunks` / `groups`, `bs ≤ 64` for `full`
(exactly the hypotheses of `C17.chunks`, `C17.groups`, `C17.full`; they cover the property's `bs ≤ 10`).

PROVED (full strength):
  1. `chunks_components`, `groups_components`, `full_components`   the model's output is strictly sorted
       (first clause of the verdict) and on EVERY unit `u ≤ lastUnit = (2^64-1)/g` (a superset of the
       probe units) `want u = outHas u` and `outHas u = outAny u` (the two comparisons of the second
       clause), from `C17.chunks_wf/chunks`, `C17.groups_wf/groups`, `C17.full_wf/full`;
     `tests_meaning`   the boundary-list tests of the verdict decide "the interval `[lo, hi)` meets /
       lies inside the set" (`R` strictly sorted, `lo < hi`);
     `round_core_model`   `roundModel kind R bs = natList (modelOut kind R bs)` and the verdict on the
       parsed output, `roundCore kind R bs (modelOut kind R bs)`, is `none`.
  2. `parse_model`   `parseNatList (natList l) = some l`, `natList l ≠ "panic"`;
     `roundVerdict_natList`   the verdict on `natList out` is `roundCore … out`.
  3. `round_specFail`   `(opRound [kind, rs, bs] (opRound [kind, rs, bs] impl).model).specFail = none`
       for all argument strings that parse to `R`, `b`;  `round_no_false_alarm`   the same with
       `rs = natList R`, `bs = toString b`.
  4. `round_on` (verdict on renderings = `roundCore` on the lists) with ten `decide +kernel` examples:
       four model outputs accepted, five wrong outputs rejected with the printed message, `panic`.
  In `SpecRoundL`: `splitOn_comma`, `splitOn_intercalate_comma` (`String.splitOn ","` inverts joining
  comma-free tokens), `parseNatList_natList`, `natList_ne_panic`, `par_succ_of_not_mem`, `par_const`,
  `par_flip`, `meetsB_iff`, `insideB_iff`, `tests_of_const`, `opRound_eq` (the named definitions
  `roundModel`, `gOf`, `loOf`, `hiOf`, `wantB`, `outHasB`, `outAnyB`, `unitsOf`, `roundCore`,
  `roundVerdict` ARE the `let`s of `opRound`, by `rfl` after the argument parse), `roundCore_none`,
  `chunks_unit`, `groups_unit`, `full_unit`.

PARTIAL: none.   OPEN: none.
Not covered: `full` with `bs > 64` (`C17.full` needs `bs ≤ 64`; no counterexample found by `#eval`),
  boundaries `≥ 2^64` (not `u64`; no counterexample found by `#eval`).

FINDINGS (false alarms of the machinery OUTSIDE the hypotheses, both proved):
  * `round_not_sorted_alarm`   input `5,3` (not strictly sorted), `round groups 5,3 1`: the model prints
      `-`, the verdict answers `some "unit 2: want true got false/false"`.  `harness/src/gen1.rs` ("C17")
      emits only `subsets(..)` of sorted, deduplicated point lists, so the generators cannot emit it.
  * `round_bad_kind_alarm`   any kind other than the three: the model prints `bad-kind`, the verdict
      answers `some "malformed"`.  The generators emit `chunks`, `groups`, `full` only.
  Inside the hypotheses there is no false alarm (`round_specFail`).

Axioms (`#print axioms`): `roundCore_none`: [propext, Quot.sound]; every other theorem of this file
and `opRound_eq`, `splitOn_intercalate_comma`, `parseNatList_natList`, `natList_ne_panic`,
`meetsB_iff`, `insideB_iff`, `chunks_unit`, `groups_unit`, `full_unit`:
[propext, Classical.choice, Quot.sound].
-/
